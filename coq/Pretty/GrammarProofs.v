(* C11 - the widened grammar (Grammar.v: gtok, gword, gspell, gdenote): both
   recognisers accept every well-formed sentence and the scanner writes its
   denotation.  Alternative integer spellings (suffix i, hexadecimal with and
   without suffix) and comments between the words. *)
From Coq Require Import List ZArith Bool Lia.
From RtoscV Require Import Pretty.Tok Pretty.FloatFmt Pretty.PrintModel Pretty.ScanModel
  Pretty.Grammar Pretty.PrettyProofs Pretty.FloatProofs.
Import ListNotations.
Local Open Scope Z_scope.

(* ---- hexadecimal digits ------------------------------------------------------------------ *)
Lemma read_digs_gen isd base ds rest : forall a,
  Forall (fun c => isd c = true) ds -> isd (hd0 rest) = false ->
  read_digs isd base (ds ++ rest) a = (fst (read_digs isd base ds a), rest).
Proof.
  induction ds as [|c ds IH]; intros a Hd Hr; cbn [app read_digs].
  - destruct rest as [|x r]; [reflexivity|]. rewrite hd0_cons in Hr. cbn [read_digs]. now rewrite Hr.
  - inversion Hd as [|? ? Hc Hds]; subst. rewrite Hc. now apply IH.
Qed.

Lemma read_digs_nonneg isd base ds : forall a, 0 <= a -> 0 <= base ->
  Forall (fun c => 0 <= digval c) ds -> 0 <= fst (read_digs isd base ds a).
Proof.
  induction ds as [|c ds IH]; intros a Ha Hb Hd; cbn [read_digs]; [exact Ha|].
  inversion Hd; subst. destruct (isd c); [|exact Ha]. apply IH; try assumption. nia.
Qed.

Definition xdigits (ds : list Z) : Prop := ds <> [] /\ Forall (fun c => isxdigit c = true) ds.

Lemma xdigit_tokch c : isxdigit c = true -> tokch c = true.
Proof. unfold isxdigit, isdigit, in_range, tokch, isspace, in_range. lia. Qed.

Lemma isuf_not_xdigit suf rest : rest_ok0 rest -> isxdigit (hd0 (isuf_text suf ++ rest)) = false.
Proof. intros Hr. destruct suf; cbn [isuf_text app]; [now apply rest_not_xdigit|reflexivity|reflexivity]. Qed.

Lemma takewhile_all f (l : list Z) : Forall (fun c => f c = true) l -> takewhile f l = l.
Proof. induction 1 as [|c l Hc _ IH]; cbn [takewhile]; [reflexivity|now rewrite Hc, IH]. Qed.
Lemma dropwhile_all f (l : list Z) : Forall (fun c => f c = true) l -> dropwhile f l = [].
Proof. induction 1 as [|c l Hc _ IH]; cbn [dropwhile]; [reflexivity|now rewrite Hc]. Qed.

Section Tokens.
Variables dec2f dec2d : list Z -> Z.

(* ---- "<decimal>i" ---------------------------------------------------------------------- *)
Lemma tok_deci v : - 2 ^ 31 <= v < 2 ^ 31 -> tok_core dec2f dec2d (VI v) (print_d v ++ [105]).
Proof.
  intros Hv rest Hr. pose proof (rest_ok_hd _ Hr) as Hh.
  rewrite <- app_assoc. cbn [app].
  destruct (numeral_default v (105 :: rest)) as (c & tl & E & Hfc & Hid & Hrm & Hdt);
    try (unfold isdigit, in_range, hd0, at_; cbn; lia).
  assert (Hnf : num_follow (105 :: rest)) by (unfold num_follow, isdigit, in_range, hd0, at_; cbn; lia).
  assert (He : tok_end (print_d v ++ 105 :: rest) = rest).
  { replace (print_d v ++ 105 :: rest) with ((print_d v ++ [105]) ++ rest) by now rewrite <- app_assoc.
    apply tok_end_app; [apply Forall_app; split; [apply print_d_tokch|now constructor]|assumption]. }
  assert (Hf : scanf_fmtstr (print_d v ++ 105 :: rest) = Some F_ii).
  { unfold scanf_fmtstr. rewrite He, sc_i_print, sc_d_print by assumption.
    cbn [after_int bind_lit lit]. change (105 =? 104) with false. cbv iota.
    rewrite (proj1 (same_pos_cons 105 rest)). rewrite Z.eqb_refl. now rewrite same_pos_refl. }
  rewrite E in *. split; intros.
  - unfold skip_core. rewrite Hfc, Hrm, Hid, Hdt, same_pos_refl. cbn [negb].
    unfold skip_numeric. rewrite Hf, He. cbn [numfmt_type].
    rewrite (rest_ok_paren _ Hr). cbn [andb]. reflexivity.
  - unfold scan_core. rewrite Hfc, Hrm, Hid, Hdt, same_pos_refl. cbn [negb].
    unfold scan_numeric, scan_numeric_once. rewrite Hf, <- E, sc_i_print, E, He by assumption.
    rewrite (rest_ok_paren _ Hr), st32_id by assumption. cbn [andb]. reflexivity.
Qed.
(* ---- "[-]0x<hex digits>[i|h]" ---------------------------------------------------------- *)
Section Hex.
Variables (neg : bool) (ds : list Z) (suf : isuf).
Hypothesis Hds : xdigits ds.
Notation sgt := (if neg then [45] else []).
Notation n := (hexval ds).
Definition hextok : list Z := sgt ++ [48; 120] ++ ds ++ isuf_text suf.

Lemma hexval_nonneg : 0 <= n.
Proof.
  unfold hexval. apply read_digs_nonneg; try lia. destruct Hds as [_ H].
  eapply Forall_impl; [|exact H]. intros c Hc. unfold digval, isxdigit, isdigit, in_range in *.
  destruct ((48 <=? c) && (c <=? 57)) eqn:E1; [lia|]. destruct ((97 <=? c) && (c <=? 102)) eqn:E2; lia.
Qed.

Lemma hex_tok_end rest : rest_ok0 rest -> tok_end (hextok ++ rest) = rest.
Proof.
  intros Hr. apply tok_end_app; [|exact Hr]. unfold hextok.
  repeat (apply Forall_app; split).
  - destruct neg; repeat constructor.
  - repeat constructor.
  - eapply Forall_impl; [|exact (proj2 Hds)]. exact xdigit_tokch.
  - destruct suf; repeat constructor.
Qed.

Lemma hex_shape rest : exists d0 dr, ds = d0 :: dr /\ isxdigit d0 = true /\
  (hextok ++ rest) = ((if neg then [45] else []) ++ 48 :: 120 :: d0 :: dr ++ isuf_text suf ++ rest).
Proof.
  assert (Hs : exists d0 dr, ds = d0 :: dr /\ isxdigit d0 = true).
  { destruct Hds as [Hne Hall]. destruct ds as [|d0 dr]; [congruence|]. exists d0, dr. split; [reflexivity|now inversion Hall]. }
  destruct Hs as (d0 & dr & Eds & Hd0). exists d0, dr. split; [exact Eds|]. split; [exact Hd0|].
  unfold hextok. rewrite Eds, <- !app_assoc. reflexivity.
Qed.

Lemma hex_read rest : rest_ok0 rest ->
  read_digs isxdigit 16 (ds ++ isuf_text suf ++ rest) 0 = (n, isuf_text suf ++ rest).
Proof. intros Hr. apply read_digs_gen; [exact (proj2 Hds)|now apply isuf_not_xdigit]. Qed.

Lemma hex_sc_i rest : rest_ok0 rest -> sc_i (hextok ++ rest) = Some (sgn neg n, isuf_text suf ++ rest).
Proof.
  intros Hr. destruct (hex_shape rest) as (d0 & dr & Eds & Hd0 & ->). pose proof (hex_read rest Hr) as Hrd.
  rewrite Eds in Hrd at 1. unfold sc_i. destruct neg; cbn [app].
  - rewrite skip_ws_nonspace by reflexivity. cbn [sc_sign Z.eqb Pos.eqb]. cbn [sc_i_body].
    rewrite hd0_cons. cbn [Z.eqb Pos.eqb andb orb skipn]. rewrite hd0_cons, Hd0.
    cbn [app] in Hrd. rewrite Hrd. reflexivity.
  - rewrite skip_ws_nonspace by reflexivity. rewrite sc_sign_other by lia. cbn [sc_i_body].
    rewrite hd0_cons. cbn [Z.eqb Pos.eqb andb orb skipn]. rewrite hd0_cons, Hd0.
    cbn [app] in Hrd. rewrite Hrd. reflexivity.
Qed.

Lemma hex_sc_x rest : rest_ok0 rest -> sc_x (hextok ++ rest) = Some (sgn neg n, isuf_text suf ++ rest).
Proof.
  intros Hr. destruct (hex_shape rest) as (d0 & dr & Eds & Hd0 & ->). pose proof (hex_read rest Hr) as Hrd.
  rewrite Eds in Hrd at 1. unfold sc_x. destruct neg; cbn [app].
  - rewrite skip_ws_nonspace by reflexivity. cbn [sc_sign Z.eqb Pos.eqb].
    cbn [Z.eqb Pos.eqb andb orb]. rewrite hd0_cons, Hd0. cbn [andb]. rewrite hd0_cons, Hd0.
    cbn [app] in Hrd. rewrite Hrd. reflexivity.
  - rewrite skip_ws_nonspace by reflexivity. rewrite sc_sign_other by lia.
    cbn [Z.eqb Pos.eqb andb orb]. rewrite hd0_cons, Hd0. cbn [andb]. rewrite hd0_cons, Hd0.
    cbn [app] in Hrd. rewrite Hrd. reflexivity.
Qed.

(* %d reads the "0" only *)
Lemma hex_sc_d rest : exists v, sc_d (hextok ++ rest) = Some (v, 120 :: ds ++ isuf_text suf ++ rest).
Proof.
  destruct (hex_shape rest) as (d0 & dr & Eds & Hd0 & ->). rewrite Eds. unfold sc_d. destruct neg; cbn [app].
  - rewrite skip_ws_nonspace by reflexivity. cbn [sc_sign Z.eqb Pos.eqb]. rewrite hd0_cons.
    change (isdigit 48) with true. cbv iota. cbn [read_digs]. change (isdigit 48) with true. cbv iota.
    change (isdigit 120) with false. cbv iota. eexists. reflexivity.
  - rewrite skip_ws_nonspace by reflexivity. rewrite sc_sign_other by lia. rewrite hd0_cons.
    change (isdigit 48) with true. cbv iota. cbn [read_digs]. change (isdigit 48) with true. cbv iota.
    change (isdigit 120) with false. cbv iota. eexists. reflexivity.
Qed.

Lemma hex_fmtstr rest : rest_ok0 rest ->
  scanf_fmtstr (hextok ++ rest) = Some (match suf with SufNone => F_x | SufI => F_ii | SufH => F_h end).
Proof.
  intros Hr. pose proof (rest_ok_hd _ Hr) as Hh. unfold scanf_fmtstr.
  rewrite (hex_tok_end rest Hr), (hex_sc_i rest Hr). destruct (hex_sc_d rest) as [vd Hd]. rewrite Hd.
  cbn [after_int].
  assert (Hlong : same_pos (120 :: ds ++ isuf_text suf ++ rest) rest = false).
  { replace (120 :: ds ++ isuf_text suf ++ rest) with ((120 :: ds ++ isuf_text suf) ++ rest)
      by (cbn [app]; now rewrite <- app_assoc). now apply same_pos_longer. }
  destruct suf; cbn [isuf_text app bind_lit lit] in *.
  - rewrite lit_none by lia. rewrite Hlong. rewrite lit_none by lia. now rewrite same_pos_refl.
  - change (105 =? 104) with false. cbv iota. rewrite Hlong. rewrite Z.eqb_refl. now rewrite same_pos_refl.
  - rewrite Z.eqb_refl. now rewrite same_pos_refl.
Qed.

Lemma hex_default rest : exists c tl, hextok ++ rest = c :: tl /\ first_class c = FC_other /\ isidstart c = false /\
  is_range_multiplier (c :: tl) = false /\ skip_fmt fmt_date (c :: tl) = c :: tl /\ first_ok c.
Proof.
  destruct (hex_shape rest) as (d0 & dr & Eds & Hd0 & ->).
  set (tail := 120 :: d0 :: dr ++ isuf_text suf ++ rest).
  assert (Hdt : skip_fmt fmt_date ((if neg then [45] else []) ++ 48 :: [] ++ tail) = (if neg then [45] else []) ++ 48 :: [] ++ tail).
  { apply date_no; [destruct neg; auto|lia|constructor|reflexivity|unfold tail; rewrite hd0_cons; lia]. }
  cbn [app] in Hdt. fold tail.
  destruct neg; cbn [app] in *.
  - eexists _, _. split; [reflexivity|]. split; [reflexivity|]. split; [reflexivity|]. split; [reflexivity|].
    split; [exact Hdt|apply first_ok_num; lia].
  - eexists _, _. split; [reflexivity|]. split; [reflexivity|]. split; [reflexivity|]. split; [reflexivity|].
    split; [exact Hdt|apply first_ok_num; lia].
Qed.

Lemma tok_hex : sgn neg n < 2 ^ 63 -> - 2 ^ 63 <= sgn neg n ->
  tok_core dec2f dec2d (gtok_val dec2f dec2d (GHex neg ds suf)) hextok.
Proof.
  intros Hhi Hlo rest Hr. pose proof (rest_ok_hd _ Hr) as Hh.
  destruct (hex_default rest) as (c & tl & E & Hfc & Hid & Hrm & Hdt & _).
  pose proof (hex_fmtstr rest Hr) as Hf. pose proof (hex_tok_end rest Hr) as He.
  pose proof (hex_sc_i rest Hr) as Hi. pose proof (hex_sc_x rest Hr) as Hx.
  assert (Hsat : sat64 (sgn neg n) = sgn neg n)
    by (unfold sat64; replace (sgn neg n <? - 2 ^ 63) with false by lia; now replace (2 ^ 63 - 1 <? sgn neg n) with false by lia).
  rewrite E in *. split; intros.
  - unfold skip_core. rewrite Hfc, Hrm, Hid, Hdt, same_pos_refl. cbn [negb].
    unfold skip_numeric. rewrite Hf. destruct suf; cbn [gtok_val av_type numfmt_type isuf_text app] in *.
    + rewrite Hx. rewrite (rest_ok_paren _ Hr). cbn [andb]. reflexivity.
    + rewrite He. rewrite (rest_ok_paren _ Hr). cbn [andb]. reflexivity.
    + rewrite He. rewrite (rest_ok_paren _ Hr). cbn [andb]. reflexivity.
  - unfold scan_core. rewrite Hfc, Hrm, Hid, Hdt, same_pos_refl. cbn [negb].
    unfold scan_numeric, scan_numeric_once. rewrite Hf. destruct suf; cbn [gtok_val isuf_text app] in *.
    + rewrite Hx. rewrite (rest_ok_paren _ Hr). unfold st32. rewrite Hsat. reflexivity.
    + rewrite Hi, He. rewrite (rest_ok_paren _ Hr). unfold st32. rewrite Hsat. reflexivity.
    + rewrite Hi, He. rewrite (rest_ok_paren _ Hr). unfold st64. rewrite Hsat. reflexivity.
Qed.
End Hex.

(* ---- "[-]<digits>.<digits>[f|d]" without an exact value -------------------------------- *)
Section DecFloat.
Variables (neg : bool) (n1 : Z) (fr : list Z) (suf : fsuf).
Hypothesis Hn1 : 0 <= n1.
Hypothesis Hfr : Forall dig fr.
Notation sg := (if neg then [45] else []).

Lemma dl_dectext : dec_literal neg n1 fr = dectext sg n1 fr.
Proof. reflexivity. Qed.
Lemma dl_ok : okdec sg n1 fr.
Proof. split; [destruct neg; auto|]. split; assumption. Qed.

(* %f reads the literal and stops in front of Y *)
Lemma dec_sc_f_gen Y : isdigit (hd0 Y) = false -> hd0 Y <> 101 -> hd0 Y <> 69 ->
  sc_f (dectext sg n1 fr ++ Y) = Some (false, dectext sg n1 fr, Y).
Proof.
  intros Hc H1 H2. destruct Y as [|c X].
  - (* the end of the text: the blank case with the blank cut off *)
    pose proof (dec_sc_f sg n1 fr dl_ok 32 [] eq_refl ltac:(lia) ltac:(lia)) as H.
    unfold sc_f in *. rewrite app_nil_r.
    destruct (dec_nat_nonempty n1 Hn1) as (c0 & tl & E & Hc0). pose proof Hc0 as Hc0'. apply isdigit_spec in Hc0'.
    assert (Hws : skip_ws (dectext sg n1 fr) = dectext sg n1 fr).
    { apply skip_ws_nonspace. unfold dectext. destruct neg; cbn [app]; [reflexivity|].
      rewrite E. cbn [app]. rewrite hd0_cons. unfold isspace, in_range. lia. }
    rewrite Hws.
    assert (Hsign : sc_sign (dectext sg n1 fr) = (neg, dec_nat n1 ++ 46 :: fr)).
    { unfold dectext. destruct neg; cbn [app]; [reflexivity|].
      rewrite E. cbn [app]. rewrite sc_sign_other by lia. reflexivity. }
    rewrite Hsign.
    assert (Hnohex : (hd0 (dec_nat n1 ++ 46 :: fr) =? 48) &&
                     ((at_ (dec_nat n1 ++ 46 :: fr) 1 =? 120) || (at_ (dec_nat n1 ++ 46 :: fr) 1 =? 88)) = false).
    { pose proof (dec_nat_digits n1 Hn1) as Hd. rewrite E in *. cbn [app]. rewrite hd0_cons.
      inversion Hd as [|? ? _ Htl]; subst. unfold at_. cbn [nth app].
      destruct Htl as [|d tl' Hd' _]; cbn [app nth].
      - now rewrite andb_false_r.
      - apply isdigit_spec in Hd'. replace ((d =? 120) || (d =? 88)) with false by lia. now rewrite andb_false_r. }
    rewrite Hnohex.
    rewrite takewhile_app, dropwhile_app by (try apply dec_nat_digits; try assumption; reflexivity).
    rewrite hd0_cons. change (46 =? 46) with true. cbv iota. cbn [skipn].
    rewrite (takewhile_all isdigit fr Hfr), (dropwhile_all isdigit fr Hfr).
    assert (Hlen : Nat.eqb (length (dec_nat n1) + length fr) 0 = false).
    { apply Nat.eqb_neq. rewrite E. cbn [length]. lia. }
    rewrite Hlen. cbn [opt_exp]. f_equal. f_equal. f_equal.
    rewrite Nat.sub_0_r. apply firstn_all.
  - rewrite hd0_cons in *. now apply (dec_sc_f sg n1 fr dl_ok).
Qed.

Definition fltok : list Z := dectext sg n1 fr ++ fsuf_text suf.

Lemma fl_tok_end rest : rest_ok0 rest -> tok_end (fltok ++ rest) = rest.
Proof.
  intros Hr. unfold fltok. rewrite <- app_assoc.
  rewrite (dec_tok_end sg n1 fr dl_ok (fsuf_text suf) rest).
  - exact (tok_end_app [] rest (Forall_nil _) Hr).
  - destruct suf; repeat constructor.
  - pose proof (rest_ok_hd _ Hr). destruct suf; cbn [fsuf_text app]; rewrite ?hd0_cons; lia.
Qed.

Lemma fl_fmtstr rest : rest_ok0 rest ->
  scanf_fmtstr (fltok ++ rest) = Some (match suf with FsNone => F_f | FsF => F_ff | FsD => F_lfd end).
Proof.
  intros Hr. pose proof (rest_ok_hd _ Hr) as Hh. unfold scanf_fmtstr. rewrite (fl_tok_end rest Hr).
  unfold fltok. rewrite <- app_assoc.
  destruct (dec_after_int sg n1 fr dl_ok (fsuf_text suf ++ rest)) as ((vi & Hi) & (vd & Hd)). rewrite Hi, Hd.
  cbn [after_int bind_lit lit]. change (46 =? 104) with false. change (46 =? 105) with false. cbv iota.
  assert (Hsp : same_pos (46 :: fr ++ fsuf_text suf ++ rest) rest = false).
  { replace (46 :: fr ++ fsuf_text suf ++ rest) with ((46 :: fr ++ fsuf_text suf) ++ rest)
      by (cbn [app]; now rewrite <- app_assoc). now apply same_pos_longer. }
  rewrite Hsp. unfold after_flt.
  rewrite dec_sc_f_gen.
  - destruct suf; cbn [fsuf_text app bind_lit lit].
    + rewrite !lit_none by lia. now rewrite same_pos_refl.
    + change (102 =? 100) with false. cbv iota. rewrite Z.eqb_refl. now rewrite same_pos_refl.
    + rewrite Z.eqb_refl. now rewrite same_pos_refl.
  - destruct suf; cbn [fsuf_text app]; rewrite ?hd0_cons; [unfold isdigit, in_range; lia|reflexivity|reflexivity].
  - destruct suf; cbn [fsuf_text app]; rewrite ?hd0_cons; lia.
  - destruct suf; cbn [fsuf_text app]; rewrite ?hd0_cons; lia.
Qed.

Lemma fl_sc_f rest : rest_ok0 rest -> sc_f (fltok ++ rest) = Some (false, dectext sg n1 fr, fsuf_text suf ++ rest).
Proof.
  intros Hr. pose proof (rest_ok_hd _ Hr) as Hh. unfold fltok. rewrite <- app_assoc. apply dec_sc_f_gen.
  - destruct suf; cbn [fsuf_text app]; rewrite ?hd0_cons; [unfold isdigit, in_range; lia|reflexivity|reflexivity].
  - destruct suf; cbn [fsuf_text app]; rewrite ?hd0_cons; lia.
  - destruct suf; cbn [fsuf_text app]; rewrite ?hd0_cons; lia.
Qed.

Lemma tok_flt : tok_core dec2f dec2d (gtok_val dec2f dec2d (GFlt neg n1 fr suf)) fltok.
Proof.
  intros rest Hr.
  destruct (dec_default sg n1 fr dl_ok (fsuf_text suf ++ rest)) as (c & tl & E & Hfc & Hid & Hrm & Hdt & _).
  pose proof (fl_fmtstr rest Hr) as Hf. pose proof (fl_tok_end rest Hr) as He. pose proof (fl_sc_f rest Hr) as Hs.
  unfold fltok in *. rewrite <- app_assoc in *. rewrite E in *. split; intros.
  - unfold skip_core. rewrite Hfc, Hrm, Hid, Hdt, same_pos_refl. cbn [negb].
    unfold skip_numeric. rewrite Hf. destruct suf; cbn [gtok_val av_type numfmt_type]; rewrite He;
      rewrite (rest_ok_paren _ Hr); reflexivity.
  - unfold scan_core. rewrite Hfc, Hrm, Hid, Hdt, same_pos_refl. cbn [negb].
    unfold scan_numeric, scan_numeric_once. rewrite Hf. destruct suf; cbn [gtok_val]; rewrite Hs, He;
      rewrite (rest_ok_paren _ Hr); reflexivity.
Qed.
End DecFloat.
End Tokens.

(* ---- comments between the words ------------------------------------------------------------ *)
Lemma cmts_hd cm c r : cmts cm -> exists x y, cm ++ c :: r = x :: y /\ (x = 37 \/ x = c).
Proof. intros [|body ws rest _ _ _]; cbn [app]; eexists _, _; (split; [reflexivity|]); auto. Qed.

Lemma drop_to_nl body tail : Forall (fun c => c <> 10) body ->
  dropwhile (fun c => negb (c =? 10)) (37 :: body ++ 10 :: tail) = 10 :: tail.
Proof.
  intros Hb. change (37 :: body ++ 10 :: tail) with ((37 :: body) ++ 10 :: tail).
  apply dropwhile_app; [|reflexivity]. constructor; [reflexivity|].
  eapply Forall_impl; [|exact Hb]. intros a Ha. cbv beta. apply negb_true_iff. now apply Z.eqb_neq.
Qed.

Lemma skip_cm : forall cm, cmts cm -> forall f c r, first_ok c -> (length cm <= f)%nat ->
  skip_comments_ws (S f) (cm ++ c :: r) = c :: r.
Proof.
  induction 1 as [|body ws rest Hb Hw Hc IH]; intros f c r Hfo Hf.
  - apply skip_comments_ws_no. apply Hfo.
  - cbn [app]. rewrite <- !app_assoc. cbn [app]. rewrite <- !app_assoc.
    cbn [skip_comments_ws]. rewrite hd0_cons. change (37 =? 37) with true. cbv iota.
    unfold skip_fmt, fmt_comment_ws. cbn [run_fmt]. change (37 =? 10) with false. cbv iota.
    rewrite drop_to_nl by assumption.
    destruct (cmts_hd rest c r Hc) as (x & y & E & Hx).
    assert (Hxs : isspace x = false) by (destruct Hfo as (_ & _ & _ & Hsp & _); destruct Hx as [->| ->]; [reflexivity|exact Hsp]).
    change (10 :: ws ++ rest ++ c :: r) with ((10 :: ws) ++ rest ++ c :: r).
    rewrite skip_ws_sep by (try (constructor; [reflexivity|assumption]); rewrite E, hd0_cons; exact Hxs).
    cbn [length] in Hf. rewrite !app_length in Hf. cbn [length] in Hf. rewrite app_length in Hf.
    destruct f as [|f]; [lia|]. apply IH; [exact Hfo|lia].
Qed.

Lemma skip_wc : forall cm, cmts cm -> forall f ws c r, Forall (fun c => isspace c = true) ws -> first_ok c ->
  (length cm <= f)%nat -> skip_ws_comments (S f) (ws ++ cm ++ c :: r) = c :: r.
Proof.
  induction 1 as [|body ws' rest Hb Hw Hc IH]; intros f ws c r Hws Hfo Hf.
  - now apply skip_ws_comments_tok.
  - cbn [app]. rewrite <- !app_assoc. cbn [app]. rewrite <- !app_assoc.
    cbn [skip_ws_comments].
    rewrite skip_ws_sep by (try assumption; reflexivity).
    rewrite hd0_cons. change (37 =? 37) with true. cbv iota.
    unfold skip_fmt, fmt_comment. cbn [run_fmt]. change (37 =? 10) with false. cbv iota.
    rewrite drop_to_nl by assumption.
    rewrite hd0_cons. change (isspace 10) with true. cbv iota.
    cbn [length] in Hf. rewrite !app_length in Hf. cbn [length] in Hf. rewrite app_length in Hf.
    destruct f as [|f]; [lia|].
    change (10 :: ws' ++ rest ++ c :: r) with ((10 :: ws') ++ rest ++ c :: r).
    apply IH; [constructor; [reflexivity|assumption]|exact Hfo|lia].
Qed.

Section Sentences.
Variables dec2f dec2d : list Z -> Z.

Inductive clang : list av -> str -> Prop :=
| CL_nil : clang [] []
| CL_one v t : tokof dec2f dec2d v t -> clang [v] t
| CL_cons v t ws cm v' vs T :
    tokof dec2f dec2d v t -> sepw ws -> cmts cm -> clang (v' :: vs) T ->
    clang (v :: v' :: vs) (t ++ (ws ++ cm) ++ T).

Lemma clang_first v vs T : clang (v :: vs) T -> exists c r, T = c :: r /\ first_ok c.
Proof.
  intros H. inversion H as [|? ? Ht|? ? ? ? ? ? ? Ht _ _ _]; subst;
    destruct Ht as (_ & (c & r & -> & Hc) & _); eexists _, _; (split; [reflexivity|exact Hc]).
Qed.

Lemma rest_ok_csep ws cm c r : sepw ws -> cmts cm -> first_ok c -> rest_ok ((ws ++ cm) ++ c :: r).
Proof.
  intros [Hne Hs] Hcm Hfo. rewrite <- app_assoc.
  destruct (cmts_hd cm c r Hcm) as (x & y & E & Hx).
  pose proof Hfo as (H0 & H47 & H37 & Hsp & H46 & H40 & H93).
  assert (Hxs : isspace x = false) by (destruct Hx as [->| ->]; [reflexivity|exact Hsp]).
  assert (Hws : skip_ws (ws ++ cm ++ c :: r) = x :: y)
    by (rewrite skip_ws_sep; [exact E|exact Hs|rewrite E, hd0_cons; exact Hxs]).
  destruct ws as [|w0 ws']; [congruence|]. inversion Hs as [|? ? Hw0 _]; subst.
  split; [split|].
  - right. cbn [app]. rewrite hd0_cons. unfold endc. now rewrite Hw0.
  - rewrite Hws, hd0_cons. destruct Hx as [->| ->]; lia.
  - rewrite Hws. unfold starts_with, ellipsis. cbn [strip_prefix].
    replace (x =? 46) with false by (destruct Hx as [->| ->]; [reflexivity|symmetry; now apply Z.eqb_neq]). reflexivity.
Qed.

Lemma count_loop_clang vs T : clang vs T ->
  forall fuel recent num, (length T < fuel)%nat ->
  count_loop dec2f dec2d fuel T recent num = Ok (true, num + Z.of_nat (length vs)).
Proof.
  induction 1 as [|v t Ht|v t ws cm v' vs T Ht Hsep Hcm HL IH]; intros fuel recent num Hf.
  - destruct fuel; [cbn in Hf; lia|]. cbn. f_equal. f_equal. lia.
  - destruct fuel; [lia|]. destruct Ht as (Hrd & (c & r & -> & Hc) & _).
    destruct Hc as (H0 & H47 & H37 & Hsp & H46 & H40).
    cbn [count_loop length]. rewrite hd0_cons. replace ((c =? 0) || (c =? 47)) with false by lia.
    destruct (Hrd [] rest_ok_nil) as [Hs _]. rewrite app_nil_r in Hs. rewrite Hs.
    cbn [skip_ws dropwhile]. cbn [hd0 at_ nth Z.eqb negb andb].
    destruct fuel; [cbn in Hf; lia|]. cbn. f_equal.
  - destruct fuel; [lia|]. destruct Ht as (Hrd & (c & r & -> & Hc) & _).
    destruct (clang_first _ _ _ HL) as (c' & r' & -> & Hc').
    pose proof (rest_ok_csep ws cm c' r' Hsep Hcm Hc') as Hro.
    destruct Hc as (H0 & H47 & H37 & Hsp & H46 & H40).
    cbn [count_loop app length]. rewrite hd0_cons. replace ((c =? 0) || (c =? 47)) with false by lia.
    destruct (Hrd _ Hro) as [Hs _]. cbn [app] in Hs. rewrite Hs.
    destruct (cmts_hd cm c' r' Hcm) as (x & y & E & Hx).
    pose proof Hc' as (H0' & H47' & H37' & Hsp' & H46' & H40').
    assert (Hxs : isspace x = false) by (destruct Hx as [->| ->]; [reflexivity|exact Hsp']).
    rewrite <- app_assoc. rewrite skip_ws_sep by (try apply Hsep; rewrite E, hd0_cons; exact Hxs).
    rewrite E, hd0_cons. replace (negb (x =? 0) && negb (isspace x)) with true
      by (rewrite Hxs; destruct Hx as [->| ->]; [reflexivity|symmetry; cbn [negb andb]; rewrite andb_true_r; apply negb_true_iff; now apply Z.eqb_neq]).
    rewrite <- E. rewrite skip_cm by (try assumption; rewrite app_length; lia).
    rewrite IH.
    + f_equal. f_equal. cbn [length]. lia.
    + cbn [length app] in Hf. rewrite !app_length in Hf. cbn [length] in *. lia.
Qed.

Lemma scan_loop_clang vs T : clang vs T ->
  forall fuel i n acc, n = i + Z.of_nat (length vs) -> (length vs < fuel)%nat ->
  scan_loop dec2f dec2d fuel T i n acc = Ok (acc ++ vs, []).
Proof.
  induction 1 as [|v t Ht|v t ws cm v' vs T Ht Hsep Hcm HL IH]; intros fuel i n acc Hn Hf.
  - destruct fuel; [lia|]. cbn [scan_loop]. cbn in Hn. replace (n <=? i) with true by lia.
    now rewrite app_nil_r.
  - destruct fuel; [lia|]. destruct Ht as (Hrd & (c & r & -> & _) & Hsc). cbn [scan_loop]. cbn [length] in Hn.
    replace (n <=? i) with false by lia.
    destruct (Hrd [] rest_ok_nil) as [_ Hs]. rewrite app_nil_r in Hs. cbn [length]. rewrite Hs.
    rewrite slots_offset_scalar by assumption.
    destruct fuel; [cbn in Hf; lia|]. cbn [scan_loop length skip_ws_comments skip_ws dropwhile].
    cbn [hd0 at_ nth Z.eqb]. replace (n <=? i + 1) with true by lia. reflexivity.
  - destruct fuel; [lia|]. destruct Ht as (Hrd & (c & r & -> & _) & Hsc).
    destruct (clang_first _ _ _ HL) as (c' & r' & -> & Hc').
    pose proof (rest_ok_csep ws cm c' r' Hsep Hcm Hc') as Hro.
    cbn [scan_loop]. cbn [length] in Hn. replace (n <=? i) with false by lia.
    destruct (Hrd _ Hro) as [_ Hs]. cbn [app length] in *. rewrite Hs.
    rewrite slots_offset_scalar by assumption.
    rewrite <- app_assoc. rewrite skip_wc by (try apply Hsep; try assumption; rewrite !app_length; lia).
    rewrite IH; [now rewrite <- app_assoc | cbn [length]; lia | cbn [length] in *; lia].
Qed.

(* ---- well-formed words and sentences ------------------------------------------------------ *)
Definition wf_gtok (g : gtok) : Prop :=
  match g with
  | GPrinted v _ _ => good_val v
  | GDecI v => - 2 ^ 31 <= v < 2 ^ 31
  | GHex _ ds _ => xdigits ds /\ hexval ds < 2 ^ 63
  | GFlt _ n1 fr _ => 0 <= n1 /\ Forall dig fr
  end.
Definition wf_gword (w : gword) : Prop := wf_gtok (g_tok w) /\ sepw (g_ws w) /\ cmts (g_cmts w).

Lemma gtok_tokof g t : wf_gtok g -> gtok_text g = Some t -> tokof dec2f dec2d (gtok_val dec2f dec2d g) t.
Proof.
  destruct g as [v o cols|v|neg ds suf|neg n1 fr suf]; cbn [wf_gtok gtok_text gtok_val]; intros Hw Ht.
  4:{ inversion Ht; subst. destruct Hw as [Hn Hf].
      split; [exact (tok_core_reads _ _ _ _ (tok_flt dec2f dec2d neg n1 fr suf Hn Hf))|].
      split; [|destruct suf; exact I].
      destruct (dec_default (if neg then [45] else []) n1 fr (dl_ok neg n1 fr Hn Hf) (fsuf_text suf)) as (c & tl & E & _ & _ & _ & _ & Hfo).
      rewrite dl_dectext, E. eexists _, _. split; [reflexivity|exact Hfo]. }
  - destruct (print_scalar o v cols) as [[[t' w'] c']|] eqn:E; [|discriminate]. inversion Ht; subst.
    exact (proj1 (scalar_tok dec2f dec2d o v cols _ _ _ Hw E)).
  - inversion Ht; subst. split; [exact (tok_core_reads _ _ _ _ (tok_deci dec2f dec2d v Hw))|]. split; [|exact I].
    destruct (print_d_hd v) as (c & tl & E & Hc). rewrite E. eexists _, _. split; [reflexivity|now apply first_ok_num].
  - inversion Ht; subst. destruct Hw as [Hx Hlt]. pose proof (hexval_nonneg ds Hx) as H0.
    assert (Hr : sgn neg (hexval ds) < 2 ^ 63 /\ - 2 ^ 63 <= sgn neg (hexval ds)) by (destruct neg; cbn [sgn]; lia).
    split; [exact (tok_core_reads _ _ _ _ (tok_hex dec2f dec2d neg ds suf Hx (proj1 Hr) (proj2 Hr)))|].
    split; [|destruct suf; exact I].
    destruct (hex_default neg ds suf Hx []) as (c & tl & E & _ & _ & _ & _ & Hfo).
    rewrite app_nil_r in E. unfold hextok in E. cbn [app] in E |- *. rewrite E. eexists _, _. split; [reflexivity|exact Hfo].
Qed.

Lemma gspell_clang s : forall T, Forall wf_gword s -> gspell s = Some T -> clang (gdenote dec2f dec2d s) T.
Proof.
  induction s as [|w s IH]; intros T Hw Hs; cbn [gspell gdenote map] in *.
  - inversion Hs. constructor.
  - inversion Hw as [|? ? (Hg & Hws & Hcm) Hrest]; subst. destruct s as [|w' s'].
    + apply CL_one. now apply gtok_tokof.
    + destruct (gtok_text (g_tok w)) as [t|] eqn:Et; [|discriminate].
      destruct (gspell (w' :: s')) as [T'|] eqn:ET; [|discriminate]. inversion Hs; subst.
      unfold g_sep. apply CL_cons; try assumption; [now apply gtok_tokof|]. exact (IH T' Hrest eq_refl).
Qed.

(* both recognisers accept a well-formed sentence of the widened grammar; the
   scanner writes its denotation and consumes the whole text *)
Theorem gsentences_agree s T :
  Forall wf_gword s -> gspell s = Some T ->
  count_printed_arg_vals dec2f dec2d T = Ok (true, Z.of_nat (length s)) /\
  scan_arg_vals dec2f dec2d T (Z.of_nat (length s)) = Ok (gdenote dec2f dec2d s, []).
Proof.
  intros Hw Hs. pose proof (gspell_clang s T Hw Hs) as HL.
  assert (Hlen : length (gdenote dec2f dec2d s) = length s) by (unfold gdenote; apply map_length).
  split.
  - unfold count_printed_arg_vals.
    assert (E : skip_comments_ws (S (length (skip_ws T))) (skip_ws T) = T).
    { destruct (gdenote dec2f dec2d s) as [|v vs] eqn:Ed.
      - inversion HL; subst. reflexivity.
      - destruct (clang_first _ _ _ HL) as (c & r & -> & Hc).
        destruct Hc as (H0 & H47 & H37 & Hsp & H46 & H40).
        rewrite skip_ws_nonspace by now rewrite hd0_cons. now apply skip_comments_ws_no. }
    rewrite E. rewrite (count_loop_clang _ _ HL); [now rewrite Hlen|lia].
  - unfold scan_arg_vals. rewrite (scan_loop_clang _ _ HL _ 0 _ []); [reflexivity|lia|].
    rewrite Hlen, Nat2Z.id. lia.
Qed.

(* texts that differ only in white space and comments scan to equal values *)
Theorem gsentences_ws_invariant s1 s2 T1 T2 :
  Forall wf_gword s1 -> Forall wf_gword s2 -> gdenote dec2f dec2d s1 = gdenote dec2f dec2d s2 ->
  gspell s1 = Some T1 -> gspell s2 = Some T2 ->
  scan_arg_vals dec2f dec2d T1 (Z.of_nat (length s1)) = scan_arg_vals dec2f dec2d T2 (Z.of_nat (length s2)).
Proof.
  intros H1 H2 Hd E1 E2.
  rewrite (proj2 (gsentences_agree s1 T1 H1 E1)), (proj2 (gsentences_agree s2 T2 H2 E2)). now rewrite Hd.
Qed.
End Sentences.

(* non-vacuity: "0x1fi" blank "% a" line break "-12i" tab "0xffffffff" line break "-0.25f" blank "true" *)
Definition ex_gsentence : list gword :=
  [ {| g_tok := GHex false [49; 102] SufI; g_ws := [32]; g_cmts := 37 :: [32; 97] ++ 10 :: [] ++ [] |};
    {| g_tok := GDecI (-12); g_ws := [9]; g_cmts := [] |};
    {| g_tok := GHex false [102; 102; 102; 102; 102; 102; 102; 102] SufNone; g_ws := [10]; g_cmts := [] |};
    {| g_tok := GFlt true 0 [50; 53] FsF; g_ws := [32]; g_cmts := [] |};
    {| g_tok := GPrinted VT {| lossless := true; prec := 2; linelength := 80; compress := false |} 0; g_ws := [32]; g_cmts := [] |} ].

Lemma ex_gsentence_wf (dec2f dec2d : list Z -> Z) :
  Forall wf_gword ex_gsentence /\
  gspell ex_gsentence = Some [48; 120; 49; 102; 105; 32; 37; 32; 97; 10; 45; 49; 50; 105; 9;
                              48; 120; 102; 102; 102; 102; 102; 102; 102; 102; 10;
                              45; 48; 46; 50; 53; 102; 32; 116; 114; 117; 101] /\
  gdenote dec2f dec2d ex_gsentence = [VI 31; VI (-12); VI (-1); VFl (dec2f [45; 48; 46; 50; 53]); VT].
Proof.
  split; [|split; reflexivity].
  assert (Hx : forall ds, ds <> [] -> forallb isxdigit ds = true -> xdigits ds)
    by (intros ds Hn Hf; split; [exact Hn|apply Forall_forall; exact (proj1 (forallb_forall _ _) Hf)]).
  repeat constructor; cbn [g_tok g_ws g_cmts wf_gtok]; try discriminate; try reflexivity; try lia;
    try (apply Hx; [discriminate|reflexivity]); try exact I.
  all: try (constructor; [repeat constructor; discriminate|constructor|constructor]).
Qed.
