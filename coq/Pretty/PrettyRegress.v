(* C10 - the functions as they were before the fix: commits of the scratch
   repository, each with the witness that refutes the round trip (replayed on
   the real code: notes/C10.md).  The current models follow the fixed code. *)
From Coq Require Import List ZArith Bool Lia.
From RtoscV Require Import Pretty.Tok Pretty.FloatFmt Pretty.PrintModel Pretty.ScanModel.
Import ListNotations.
Local Open Scope Z_scope.

Definition opts80 : popts := {| lossless := true; prec := 2; linelength := 80; compress := false |}.
Definition no_oracle (_ : list Z) : Z := 0.

(* ---- D7: the scanner took every token whose fifth character is '-' for a date *)
Definition old_scanner_date_test (src : list Z) : bool :=
  negb (at_ src 0 =? 0) && negb (at_ src 1 =? 0) && negb (at_ src 2 =? 0) &&
  negb (at_ src 3 =? 0) && (at_ src 4 =? 45).
(* the syntax checker's test (now also the scanner's) *)
Definition checker_date_test (src : list Z) : bool :=
  negb (same_pos (skip_fmt fmt_date src) src).

(* [-10, -20] prints as "-10 -20": the checker reads two integers, the old
   scanner went into its date branch at the first token *)
Lemma D7_witness :
  exists text w, print_arg_vals opts80 [VI (-10); VI (-20)] 0 = Some (text, w) /\
    count_printed_arg_vals no_oracle no_oracle text = Ok (true, 2) /\
    checker_date_test text = false /\ old_scanner_date_test text = true.
Proof. eexists _, _. split; [vm_compute; reflexivity|]. vm_compute. auto. Qed.

(* ---- D8: the exact value of a double was scanned with "%f" into the double's storage *)
Definition scan_numeric_D8 (dec2f dec2d : list Z -> Z) (s : list Z) : R (av * list Z) :=
  match scan_numeric_once dec2f dec2d s with
  | None => Unmod
  | Some (v1, s1) =>
      let after_num := skip_ws s1 in
      if hd0 after_num =? 40 then
        let s2 := skip_ws (skipn 1 after_num) in
        match scan_numeric_once dec2f dec2d s2 with
        | Some (v2, s3) => Ok (store_second v1 v2, skip_fmt fmt_close_paren s3)
        | None => Unmod
        end
      else Ok (v1, s1)
  end.

Definition dbl_0_1 : Z := 4591870180066957722.   (* 0x3fb999999999999a = 0.1; the real code keeps the upper half of the decimal value and gives 0x3fb999993dcccccd, the model with the constant-0 oracle gives 0x3dcccccd *)

Lemma D8_witness :
  exists text w, print_arg_vals opts80 [VD dbl_0_1] 0 = Some (text, w) /\
    scan_numeric_D8 no_oracle no_oracle text = Ok (VD 1036831949, []) /\
    scan_numeric no_oracle no_oracle text = Ok (VD dbl_0_1, []).
Proof. eexists _, _. split; [vm_compute; reflexivity|]. vm_compute. auto. Qed.

(* ---- D10: symbols spelling a reserved word were printed bare *)
Definition sym_plain_D10 (s : list Z) : bool :=
  match s with
  | [] => false
  | c :: r => isidstart c && forallb isidchar r
  end.
Definition print_symbol_D10 (s : list Z) : list Z :=
  if sym_plain_D10 s then fst (print_chars true 80 s 0)
  else 34 :: fst (print_chars false 80 s 1) ++ [34; 83].

Lemma D10_witness :
  print_symbol_D10 kw_true = kw_true /\
  scan_arg_vals no_oracle no_oracle (print_symbol_D10 kw_true) 1 = Ok ([VT], []) /\
  count_printed_arg_vals no_oracle no_oracle (print_symbol_D10 kw_MIDI ++ [32; 49]) = Ok (false, 1) /\
  (exists text w, print_arg_vals opts80 [VSym kw_true] 0 = Some (text, w) /\
     scan_arg_vals no_oracle no_oracle text 1 = Ok ([VSym kw_true], [])).
Proof.
  split; [reflexivity|]. split; [vm_compute; reflexivity|]. split; [vm_compute; reflexivity|].
  eexists _, _. split; [vm_compute; reflexivity|]. vm_compute; reflexivity.
Qed.

(* ---- D26/D27: range conversion compressed runs that wrap around or whose span
   does not fit the type (before the range_step_fits fix) ---------------------- *)
(* the second loop: Some (skipped, num_common) *)
Fixpoint run_loop_D26 (fuel : nat) (args : list av) (size : Z) (has_delta : bool) (delta : av)
         (skipped nc : Z) : option (Z * Z) :=
  match fuel with
  | O => None
  | S f =>
      let cur := skipz skipped args in
      let next := skipped + incsize cur in
      let cmp_l := if has_delta
                   then match cur with
                        | c :: _ => match av_add c delta with Some a => Some [a] | None => None end
                        | [] => None end
                   else Some args in
      if size <=? next then Some (next, nc + 1) else
      match cmp_l with
      | None => None
      | Some l => match elem_eq l (skipz next args) with
                  | None => None
                  | Some true => run_loop_D26 f args size has_delta delta next (nc + 1)
                  | Some false => Some (next, nc + 1)
                  end
      end
  end.


Definition range_convertible_D26 (ty : Z) : bool :=
  (ty =? 99) || (ty =? 105) || (ty =? 104) || (ty =? 84) || (ty =? 70).

(* rtosc_convert_to_range(arg, size, arg_out, opt) *)
Definition convert_to_range_D26 (o : popts) (args : list av) (size : Z) : conv :=
  if (size <? 5) || (hd_type args =? 45) || negb (compress o) then CNo else
  let ty := hd_type args in
  if count_common (length args) ty args 0 size 0 <? 5 then CNo else
  match elem_eq args (skipz (incsize args) args) with
  | None => CUnmod
  | Some e =>
      if negb e && negb (range_convertible_D26 ty) then CNo else
      let dl := if e then Some VN   (* unused *)
                else match args with
                     | a0 :: a1 :: _ => av_sub a1 a0
                     | _ => None end in
      match dl with
      | None => CUnmod
      | Some delta =>
          match run_loop_D26 (length args) args size (negb e) delta (incsize args) 1 with
          | None => CUnmod
          | Some (skipped, nc) =>
              if nc <? 5 then CNo else
              let hdz := if e then 0 else 1 in
              let used := 1 + hdz + incsize args in
              CYes (VRep nc hdz :: (if e then [] else [delta]) ++
                    firstn (Z.to_nat (incsize args)) args ++ [VSpc (skipped - used - 1)]) skipped
          end
      end
  end.

(* ---- rtosc_print_arg_val ------------------------------------------------------- *)
(* result: (text, returned count, cols_used, the line break went in front of
   the text: the character before the buffer was overwritten with '\n' and the
   text starts with the four blanks) *)
Definition pres := option (str * Z * Z * bool).
Definition pav_t := popts -> list av -> Z -> option av -> pres.


Definition opts_c : popts := {| lossless := true; prec := 2; linelength := 80; compress := true |}.
Definition wrap_run : list av :=
  [VI 2147483645; VI 2147483646; VI 2147483647; VI (-2147483648); VI (-2147483647); VI (-2147483646)].
Definition span_run : list av :=
  map VI [-2147483648; -1610612736; -1073741824; -536870912; 0; 536870912; 1073741824; 1610612736].

Lemma D26_witness :
  (exists c, convert_to_range_D26 opts_c wrap_run 6 = CYes c 6) /\
  convert_to_range opts_c wrap_run 6 = CNo /\
  (exists c, convert_to_range_D26 opts_c span_run 8 = CYes c 8) /\
  convert_to_range opts_c span_run 8 = CNo /\
  (exists text w, print_arg_vals opts_c wrap_run 0 = Some (text, w) /\
     scan_arg_vals no_oracle no_oracle text 6 = Ok (wrap_run, [])).
Proof.
  split; [eexists; vm_compute; reflexivity|]. split; [vm_compute; reflexivity|].
  split; [eexists; vm_compute; reflexivity|]. split; [vm_compute; reflexivity|].
  eexists _, _. split; [vm_compute; reflexivity|]. vm_compute. reflexivity.
Qed.

(* ---- D32: the checker looked for the left neighbour of a range inside a preceding array ---- *)
(* chk_l1 before the fix: the search for "..." ran over the text of an array as well *)
Definition chk_l1_D32 (l0 ell : str) : option str :=
  match find_ellipsis l0 0 with
  | None => None
  | Some ne => Some (if Nat.ltb (length ell) (length ne) then skip_ws (skipn 3 ne)
                     else if is_range_multiplier l0 then after_x l0 else l0)
  end.

Definition arr_then_run : list av :=
  VArr 105 7 :: map VI [1; 2; 3; 4; 5; 6; 9] ++ map VI [9; 10; 11; 12; 13].
(* "[1 ... 6 9] 9 ... 13" and the position of its second ellipsis *)
Definition arr_then_run_text : str :=
  [91; 49; 32; 46; 46; 46; 32; 54; 32; 57; 93; 32; 57; 32; 46; 46; 46; 32; 49; 51].

Lemma D32_witness :
  (exists w, print_arg_vals opts_c arr_then_run 0 = Some (arr_then_run_text, w)) /\
  (* the old search ends behind the ellipsis inside the array: neighbour 6 *)
  chk_l1_D32 arr_then_run_text (skipn 14 arr_then_run_text) = Some (skipn 7 arr_then_run_text) /\
  (* the new one takes the array as a whole *)
  chk_l1 arr_then_run_text (skipn 14 arr_then_run_text) = Some arr_then_run_text /\
  count_printed_arg_vals no_oracle no_oracle arr_then_run_text = Ok (true, 8) /\
  (exists slots, scan_arg_vals no_oracle no_oracle arr_then_run_text 8 = Ok (slots, []) /\
                 length slots = 8%nat).
Proof.
  split; [eexists; vm_compute; reflexivity|]. split; [vm_compute; reflexivity|].
  split; [vm_compute; reflexivity|]. split; [vm_compute; reflexivity|].
  eexists. split; [vm_compute; reflexivity|reflexivity].
Qed.
