(* C10 - the lossless form of floats and doubles: the hexadecimal text printf("%a")
   writes (FloatFmt.fmt_a) is read back to the same bit pattern by the value
   function of the scanner model (FloatFmt.hex_to_f32 / hex_to_f64), for every
   finite float / double, subnormals and both zeroes included.
   Part 1: arithmetic (to_bits on an exactly representable M * 2^e).
   Part 2: the text (digits of hex_fixed / strip0, parse_hex).
   Part 3: the two round trip theorems.  *)
From Coq Require Import List ZArith Bool Lia.
From RtoscV Require Import Pretty.Tok Pretty.FloatFmt Pretty.PrintModel Pretty.ScanModel
  Pretty.PrettyProofs.
Import ListNotations.
Local Open Scope Z_scope.

(* ------------------------------------------------------------------------- *)
(* Part 1: arithmetic                                                         *)
Lemma pow2_pos n : 0 < 2 ^ n \/ n < 0.
Proof. destruct (Z_lt_le_dec n 0); [now right|left; now apply Z.pow_pos_nonneg]. Qed.

Lemma pow2_gt0 n : 0 <= n -> 0 < 2 ^ n.
Proof. intros; now apply Z.pow_pos_nonneg. Qed.

Lemma round_exact q d : 0 < d -> round_half_even (q * d) d = q.
Proof.
  intros Hd. unfold round_half_even. rewrite Z.div_mul, Z.mod_mul by lia.
  replace (d <? 2 * 0) with false by lia. replace (2 * 0 =? d) with false by lia. reflexivity.
Qed.

(* M * 2^e is exactly q * 2^(E' - mbits) with E' the exponent the code chooses
   (given as M * 2^a = q * 2^b with a - b the code's shift) *)
Lemma to_bits_gen mb ebts neg M e L q a b :
  2 ^ L <= M < 2 ^ (L + 1) -> 0 <= L ->
  let bias := 2 ^ (ebts - 1) - 1 in
  let E' := Z.max (L + e) (1 - bias) in
  0 <= a -> 0 <= b -> e - (E' - mb) = a - b -> M * 2 ^ a = q * 2 ^ b ->
  (E' + bias - 1) * 2 ^ mb + q < (2 ^ ebts - 1) * 2 ^ mb ->
  to_bits mb ebts neg M e = (if neg then 2 ^ (mb + ebts) else 0) + ((E' + bias - 1) * 2 ^ mb + q).
Proof.
  intros HM HL bias E' Ha Hb Hsh Heq Hlt. unfold to_bits.
  assert (HM0 : 0 < M) by (pose proof (pow2_gt0 L HL); lia).
  replace (M =? 0) with false by lia.
  assert (Hlog : Z.log2 M = L) by (apply Z.log2_unique; [assumption|lia]).
  rewrite Hlog. fold bias. fold E'.
  set (sh := e - (E' - mb)) in *.
  assert (Hq : (if 0 <=? sh then M * 2 ^ sh else round_half_even M (2 ^ (- sh))) = q).
  { destruct (0 <=? sh) eqn:Es.
    - assert (Ea : a = b + sh) by lia. rewrite Ea, Z.pow_add_r in Heq by lia.
      pose proof (pow2_gt0 b Hb). nia.
    - assert (Eb : b = a + (- sh)) by lia. rewrite Eb, Z.pow_add_r in Heq by lia.
      pose proof (pow2_gt0 a Ha). assert (M = q * 2 ^ (- sh)) by nia.
      subst M. apply round_exact. apply pow2_gt0. lia. }
  rewrite Hq.
  replace ((2 ^ ebts - 1) * 2 ^ mb <=? (E' + bias - 1) * 2 ^ mb + q) with false by lia.
  reflexivity.
Qed.

(* the fields of a bit pattern given as sign, exponent, fraction *)
Lemma fields64 s e f : 0 <= s <= 1 -> 0 <= e < 2 ^ 11 -> 0 <= f < 2 ^ 52 ->
  let d := s * 2 ^ 63 + e * 2 ^ 52 + f in
  d / 2 ^ 63 mod 2 = s /\ d / 2 ^ 52 mod 2 ^ 11 = e /\ d mod 2 ^ 52 = f.
Proof.
  intros Hs He Hf d. subst d. change (2 ^ 63) with (2 ^ 11 * 2 ^ 52).
  assert (E1 : (s * (2 ^ 11 * 2 ^ 52) + e * 2 ^ 52 + f) / 2 ^ 52 = s * 2 ^ 11 + e).
  { replace (s * (2 ^ 11 * 2 ^ 52) + e * 2 ^ 52 + f) with (f + (s * 2 ^ 11 + e) * 2 ^ 52) by ring.
    rewrite Z.div_add by lia. rewrite Z.div_small by lia. lia. }
  assert (E2 : (s * (2 ^ 11 * 2 ^ 52) + e * 2 ^ 52 + f) mod 2 ^ 52 = f).
  { replace (s * (2 ^ 11 * 2 ^ 52) + e * 2 ^ 52 + f) with (f + (s * 2 ^ 11 + e) * 2 ^ 52) by ring.
    rewrite Z.mod_add by lia. apply Z.mod_small. lia. }
  assert (E3 : (s * (2 ^ 11 * 2 ^ 52) + e * 2 ^ 52 + f) / (2 ^ 11 * 2 ^ 52) = s).
  { replace (s * (2 ^ 11 * 2 ^ 52) + e * 2 ^ 52 + f) with ((e * 2 ^ 52 + f) + s * (2 ^ 11 * 2 ^ 52)) by ring.
    rewrite Z.div_add by lia. rewrite Z.div_small by lia. lia. }
  split; [|split].
  - rewrite E3. apply Z.mod_small. lia.
  - rewrite E1. replace (s * 2 ^ 11 + e) with (e + s * 2 ^ 11) by ring.
    rewrite Z.mod_add by lia. apply Z.mod_small. lia.
  - exact E2.
Qed.

Lemma split64 b : 0 <= b < 2 ^ 64 ->
  let s := b / 2 ^ 63 mod 2 in let e := b / 2 ^ 52 mod 2 ^ 11 in let f := b mod 2 ^ 52 in
  b = s * 2 ^ 63 + e * 2 ^ 52 + f /\ 0 <= s <= 1 /\ 0 <= e < 2 ^ 11 /\ 0 <= f < 2 ^ 52.
Proof.
  intros Hb s e f. subst s e f.
  pose proof (Z.div_mod b (2 ^ 52) ltac:(lia)) as H1.
  pose proof (Z.mod_pos_bound b (2 ^ 52) ltac:(lia)) as H2.
  pose proof (Z.div_mod (b / 2 ^ 52) (2 ^ 11) ltac:(lia)) as H3.
  pose proof (Z.mod_pos_bound (b / 2 ^ 52) (2 ^ 11) ltac:(lia)) as H4.
  assert (H5 : b / 2 ^ 63 = b / 2 ^ 52 / 2 ^ 11).
  { rewrite Z.div_div by lia. reflexivity. }
  assert (H6 : 0 <= b / 2 ^ 63 < 2).
  { split; [apply Z.div_pos; lia|apply Z.div_lt_upper_bound; lia]. }
  rewrite (Z.mod_small (b / 2 ^ 63) 2) by lia.
  change (2 ^ 63) with (2 ^ 11 * 2 ^ 52) at 2. lia.
Qed.

Lemma split32 b : 0 <= b < 2 ^ 32 ->
  let s := b / 2 ^ 31 mod 2 in let e := b / 2 ^ 23 mod 2 ^ 8 in let f := b mod 2 ^ 23 in
  b = s * 2 ^ 31 + e * 2 ^ 23 + f /\ 0 <= s <= 1 /\ 0 <= e < 2 ^ 8 /\ 0 <= f < 2 ^ 23.
Proof.
  intros Hb s e f. subst s e f.
  pose proof (Z.div_mod b (2 ^ 23) ltac:(lia)) as H1.
  pose proof (Z.mod_pos_bound b (2 ^ 23) ltac:(lia)) as H2.
  pose proof (Z.div_mod (b / 2 ^ 23) (2 ^ 8) ltac:(lia)) as H3.
  pose proof (Z.mod_pos_bound (b / 2 ^ 23) (2 ^ 8) ltac:(lia)) as H4.
  assert (H5 : b / 2 ^ 31 = b / 2 ^ 23 / 2 ^ 8).
  { rewrite Z.div_div by lia. reflexivity. }
  assert (H6 : 0 <= b / 2 ^ 31 < 2).
  { split; [apply Z.div_pos; lia|apply Z.div_lt_upper_bound; lia]. }
  rewrite (Z.mod_small (b / 2 ^ 31) 2) by lia.
  change (2 ^ 31) with (2 ^ 8 * 2 ^ 23) at 2. lia.
Qed.

(* ------------------------------------------------------------------------- *)
(* Part 2: the text                                                           *)
Definition hstep (a c : Z) : Z := a * 16 + digval c.
Definition xdig (c : Z) : Prop := isxdigit c = true.

Lemma read_hex_app ds rest a :
  Forall xdig ds -> isxdigit (hd0 rest) = false ->
  read_digs isxdigit 16 (ds ++ rest) a = (fold_left hstep ds a, rest).
Proof.
  revert a. induction ds as [|d ds IH]; intros a Hd Hr; cbn [app fold_left].
  - now apply read_digs_stop.
  - inversion Hd as [|? ? H1 H2]; subst. cbn [read_digs]. rewrite H1. apply IH; assumption.
Qed.

Lemma fold_hstep_shift ds : forall a,
  fold_left hstep ds a = a * 16 ^ Z.of_nat (length ds) + fold_left hstep ds 0.
Proof.
  induction ds as [|d ds IH]; intros a; cbn [fold_left length].
  - cbn. lia.
  - rewrite (IH (hstep a d)), (IH (hstep 0 d)). unfold hstep.
    rewrite Nat2Z.inj_succ, Z.pow_succ_r by lia. ring.
Qed.

Lemma fold_hstep_app a b x : fold_left hstep (a ++ b) x = fold_left hstep b (fold_left hstep a x).
Proof. apply fold_left_app. Qed.

Lemma fold_hstep_zeros j : forall a, fold_left hstep (repeat 48 j) a = a * 16 ^ Z.of_nat j.
Proof.
  induction j as [|j IH]; intros a; cbn [repeat fold_left].
  - cbn. lia.
  - rewrite IH. unfold hstep. change (digval 48) with 0.
    rewrite Nat2Z.inj_succ, Z.pow_succ_r by lia. ring.
Qed.

Lemma hex_fixed_acc w : forall n acc, hex_fixed w n acc = hex_fixed w n [] ++ acc.
Proof.
  induction w as [|w IH]; intros n acc; cbn [hex_fixed]; [reflexivity|].
  rewrite (IH (n / 16) (hexdig (n mod 16) :: acc)), (IH (n / 16) [hexdig (n mod 16)]).
  rewrite <- app_assoc. reflexivity.
Qed.

Lemma hex_fixed_S w n : hex_fixed (S w) n [] = hex_fixed w (n / 16) [] ++ [hexdig (n mod 16)].
Proof. cbn [hex_fixed]. apply hex_fixed_acc. Qed.

Lemma hex_fixed_len w : forall n, length (hex_fixed w n []) = w.
Proof.
  induction w as [|w IH]; intros n; [reflexivity|].
  rewrite hex_fixed_S, app_length, IH. cbn. lia.
Qed.

Lemma hex_fixed_xdig w : forall n, Forall xdig (hex_fixed w n []).
Proof.
  induction w as [|w IH]; intros n; [constructor|].
  rewrite hex_fixed_S. apply Forall_app. split; [apply IH|].
  constructor; [|constructor]. apply hexdig_facts. apply Z.mod_pos_bound. lia.
Qed.

Lemma hex_fixed_val w : forall n a,
  fold_left hstep (hex_fixed w n []) a = a * 16 ^ Z.of_nat w + n mod 16 ^ Z.of_nat w.
Proof.
  induction w as [|w IH]; intros n a.
  - cbn [hex_fixed fold_left]. change (16 ^ Z.of_nat 0) with 1. rewrite Z.mod_1_r. lia.
  - rewrite hex_fixed_S, fold_hstep_app, IH. cbn [fold_left]. unfold hstep.
    destruct (hexdig_facts (n mod 16)) as (_ & V & _); [apply Z.mod_pos_bound; lia|]. rewrite V.
    rewrite Nat2Z.inj_succ, Z.pow_succ_r by lia.
    assert (Hp : 0 < 16 ^ Z.of_nat w) by (apply Z.pow_pos_nonneg; lia).
    rewrite (Z.rem_mul_r n 16 (16 ^ Z.of_nat w)) by lia. ring.
Qed.

Lemma dropwhile_split f (l : list Z) :
  exists p, l = p ++ dropwhile f l /\ Forall (fun c => f c = true) p.
Proof.
  induction l as [|c l IH]; [exists []; split; [reflexivity|constructor]|].
  cbn [dropwhile]. destruct (f c) eqn:E.
  - destruct IH as (p & Hp & Hf). exists (c :: p). split; [cbn; now f_equal|now constructor].
  - exists []. split; [reflexivity|constructor].
Qed.

Lemma rev_repeat {A} (x : A) n : rev (repeat x n) = repeat x n.
Proof.
  induction n as [|n IH]; [reflexivity|]. cbn [repeat rev]. rewrite IH.
  clear IH. induction n as [|n IH]; [reflexivity|]. cbn [repeat app]. now rewrite IH.
Qed.

Lemma all48_repeat p : Forall (fun c => (c =? 48) = true) p -> p = repeat 48 (length p).
Proof.
  induction 1 as [|c p Hc Hp IH]; [reflexivity|]. cbn [length repeat].
  apply Z.eqb_eq in Hc. subst c. now f_equal.
Qed.

Lemma strip0_spec s : exists j, s = strip0 s ++ repeat 48 j.
Proof.
  unfold strip0. destruct (dropwhile_split (fun c => c =? 48) (rev s)) as (p & Hp & Hf).
  exists (length p). rewrite <- (rev_involutive s) at 1. rewrite Hp at 1.
  rewrite rev_app_distr. f_equal. rewrite (all48_repeat p Hf) at 1. apply rev_repeat.
Qed.

Lemma strip0_sub s P : Forall P s -> Forall P (strip0 s).
Proof.
  intros H. destruct (strip0_spec s) as (j & E). rewrite E in H. now apply Forall_app in H as [H _].
Qed.

(* the fraction digits of %a: F * 16^j = f with k + j = 13 *)
Lemma frac_digits f : 0 <= f < 2 ^ 52 ->
  let frac := strip0 (hex_fixed 13 f []) in
  Forall xdig frac /\ (length frac <= 13)%nat /\
  fold_left hstep frac 0 * 16 ^ (13 - Z.of_nat (length frac)) = f.
Proof.
  intros Hf frac. subst frac. destruct (strip0_spec (hex_fixed 13 f [])) as (j & E).
  pose proof (hex_fixed_len 13 f) as Hl. rewrite E, app_length, repeat_length in Hl.
  split; [apply strip0_sub, hex_fixed_xdig|]. split; [lia|].
  pose proof (hex_fixed_val 13 f 0) as Hv. rewrite E, fold_hstep_app, fold_hstep_zeros in Hv.
  replace (13 - Z.of_nat (length (strip0 (hex_fixed 13 f [])))) with (Z.of_nat j) by lia.
  rewrite Hv. change (16 ^ Z.of_nat 13) with (2 ^ 52). rewrite Z.mod_small by lia. lia.
Qed.

Definition hextext (neg : bool) (lead : Z) (frac : str) (ex : Z) : str :=
  (if neg then [45] else []) ++ [48; 120] ++ [lead] ++
  (match frac with [] => [] | _ => 46 :: frac end) ++ 112 :: print_exp ex.

Lemma fmt_a_text b :
  let e := b / 2 ^ 52 mod 2 ^ 11 in let f := b mod 2 ^ 52 in
  fmt_a b = hextext (f64_sign b) (if e =? 0 then 48 else 49) (strip0 (hex_fixed 13 f []))
                    (if e =? 0 then (if f =? 0 then 0 else -1022) else e - 1023).
Proof.
  intros e f. unfold fmt_a, hextext. fold e. fold f. f_equal. f_equal.
  destruct (e =? 0) eqn:Ee; cbn [andb].
  - destruct (f =? 0) eqn:Ef.
    + apply Z.eqb_eq in Ef. rewrite Ef. reflexivity.
    + reflexivity.
  - reflexivity.
Qed.

Lemma print_exp_parse ex :
  exists n, sc_sign (print_exp ex) = (n, dec_nat (Z.abs ex)) /\ sgn n (Z.abs ex) = ex.
Proof.
  unfold print_exp. destruct (ex <? 0) eqn:E.
  - exists true. split; [reflexivity|]. cbn [sgn]. lia.
  - exists false. split; [reflexivity|]. cbn [sgn]. lia.
Qed.

Lemma dec_nat_read n : 0 <= n -> read_digs isdigit 10 (dec_nat n) 0 = (n, []).
Proof.
  intros Hn. rewrite <- (app_nil_r (dec_nat n)).
  rewrite read_digs_app; [|now apply dec_nat_digits|reflexivity].
  now rewrite dec_nat_val.
Qed.

Lemma parse_hextext neg lead frac ex :
  lead = 48 \/ lead = 49 -> Forall xdig frac ->
  parse_hex (hextext neg lead frac ex)
  = (neg, fold_left hstep frac (lead - 48), ex - 4 * Z.of_nat (length frac)).
Proof.
  intros Hl Hfr. unfold parse_hex, hextext.
  assert (Hs : sc_sign ((if neg then [45] else []) ++ [48; 120] ++ [lead] ++
                (match frac with [] => [] | _ => 46 :: frac end) ++ 112 :: print_exp ex)
               = (neg, [48; 120] ++ [lead] ++
                (match frac with [] => [] | _ => 46 :: frac end) ++ 112 :: print_exp ex)).
  { destruct neg; reflexivity. }
  rewrite Hs. cbn [app skipn].
  assert (Hld : isxdigit lead = true /\ digval lead = lead - 48) by (destruct Hl as [->| ->]; split; reflexivity).
  destruct Hld as [Hx Hv]. cbn [read_digs]. rewrite Hx. change (0 * 16) with 0. cbn [Z.add]. rewrite Hv.
  destruct (print_exp_parse ex) as (n & Hsg & Hval).
  destruct frac as [|c0 fr].
  - cbn [app read_digs]. change (isxdigit 112) with false. cbv iota.
    rewrite hd0_cons. change (112 =? 46) with false. cbv iota.
    change ((112 =? 112) || (112 =? 80)) with true. cbv iota. rewrite Hsg.
    rewrite dec_nat_read by lia. cbn [fst fold_left length]. rewrite Hval. reflexivity.
  - set (frac := c0 :: fr) in *. cbn [app read_digs]. change (isxdigit 46) with false. cbv iota.
    rewrite hd0_cons. change (46 =? 46) with true. cbv iota. cbn [skipn].
    rewrite read_hex_app by (try assumption; reflexivity).
    change ((112 =? 112) || (112 =? 80)) with true. cbv iota. rewrite Hsg.
    rewrite dec_nat_read by lia. cbn [fst]. rewrite Hval. f_equal. f_equal. f_equal.
    rewrite app_length. lia.
Qed.


(* ------------------------------------------------------------------------- *)
(* Part 3: the round trips                                                    *)
Lemma pow16 j : 0 <= j -> 16 ^ j = 2 ^ (4 * j).
Proof. intros. rewrite Z.pow_mul_r by lia. reflexivity. Qed.

Lemma M_normal M k D : 0 <= k <= 13 -> M * 2 ^ (4 * (13 - k)) = D -> 2 ^ 52 <= D < 2 ^ 53 ->
  2 ^ (4 * k) <= M < 2 ^ (4 * k + 1).
Proof.
  intros Hk HM HD. set (P := 2 ^ (4 * (13 - k))) in *.
  assert (HP : 0 < P) by (apply pow2_gt0; lia).
  assert (E1 : 2 ^ 52 = 2 ^ (4 * k) * P).
  { unfold P. rewrite <- Z.pow_add_r by lia. f_equal. lia. }
  assert (E2 : 2 ^ 53 = 2 ^ (4 * k + 1) * P).
  { unfold P. rewrite <- Z.pow_add_r by lia. f_equal. lia. }
  rewrite E1, E2, <- HM in HD. destruct HD as [H1 H2].
  split; [now apply Z.mul_le_mono_pos_r in H1|now apply Z.mul_lt_mono_pos_r in H2].
Qed.

Lemma M_sub M k D : 0 <= k <= 13 -> M * 2 ^ (4 * (13 - k)) = D -> 0 < D < 2 ^ 52 ->
  0 < M < 2 ^ (4 * k).
Proof.
  intros Hk HM HD. set (P := 2 ^ (4 * (13 - k))) in *.
  assert (HP : 0 < P) by (apply pow2_gt0; lia).
  assert (E1 : 2 ^ 52 = 2 ^ (4 * k) * P).
  { unfold P. rewrite <- Z.pow_add_r by lia. f_equal. lia. }
  rewrite E1, <- HM in HD. destruct HD as [H1 H2].
  split; [nia|now apply Z.mul_lt_mono_pos_r in H2].
Qed.

(* what parse_hex makes of fmt_a b: M * 2^(4 (13 - k)) is the significand *)
Lemma fmt_a_parse b : 0 <= b < 2 ^ 64 ->
  let e := b / 2 ^ 52 mod 2 ^ 11 in let f := b mod 2 ^ 52 in
  exists M k, 0 <= k <= 13 /\
    parse_hex (fmt_a b) = (f64_sign b, M,
                           (if e =? 0 then (if f =? 0 then 0 else -1022) else e - 1023) - 4 * k) /\
    M * 2 ^ (4 * (13 - k)) = (if e =? 0 then 0 else 2 ^ 52) + f.
Proof.
  intros Hb e f. destruct (split64 b Hb) as (_ & _ & He & Hf). fold e in He. fold f in Hf.
  destruct (frac_digits f Hf) as (Hx & Hk & HF).
  set (frac := strip0 (hex_fixed 13 f [])) in *.
  exists (fold_left hstep frac ((if e =? 0 then 48 else 49) - 48)), (Z.of_nat (length frac)).
  split; [lia|]. split.
  - rewrite fmt_a_text. fold e. fold f. fold frac. apply parse_hextext; [|assumption].
    destruct (e =? 0); auto.
  - rewrite fold_hstep_shift.
    rewrite pow16 in HF by lia. rewrite Z.mul_add_distr_r, HF.
    destruct (e =? 0); [lia|]. change (49 - 48) with 1. rewrite Z.mul_1_l.
    rewrite pow16, <- Z.pow_add_r by lia. f_equal. f_equal. lia.
Qed.

Theorem f64_roundtrip b : 0 <= b < 2 ^ 64 -> f64_finite b = true -> hex_to_f64 (fmt_a b) = b.
Proof.
  intros Hb Hfin. destruct (split64 b Hb) as (Eb & Hs & He & Hf).
  destruct (fmt_a_parse b Hb) as (M & k & Hk & Hp & HM). cbv zeta in *.
  set (s := b / 2 ^ 63 mod 2) in *. set (e := b / 2 ^ 52 mod 2 ^ 11) in *. set (f := b mod 2 ^ 52) in *.
  unfold f64_finite in Hfin. fold e in Hfin.
  assert (He' : e <> 2047) by (destruct (e =? 2047) eqn:E; [discriminate|lia]).
  unfold hex_to_f64. rewrite Hp. unfold f64_sign. fold s.
  assert (Hsign : (if s =? 1 then 2 ^ (52 + 11) else 0) = s * 2 ^ 63).
  { destruct (s =? 1) eqn:E; [apply Z.eqb_eq in E; rewrite E; reflexivity|]. assert (s = 0) by lia. subst s. lia. }
  destruct (e =? 0) eqn:Ee.
  - apply Z.eqb_eq in Ee. destruct (f =? 0) eqn:Ef.
    + apply Z.eqb_eq in Ef. assert (M = 0).
      { pose proof (pow2_gt0 (4 * (13 - k)) ltac:(lia)). nia. }
      subst M. unfold to_bits. cbn [Z.eqb]. rewrite Hsign. lia.
    + assert (HD : 0 < 0 + f < 2 ^ 52) by lia.
      pose proof (M_sub M k _ Hk HM HD) as HMb.
      pose proof (Z.log2_spec M ltac:(lia)) as HL. pose proof (Z.log2_nonneg M) as HL0.
      assert (HLk : Z.log2 M < 4 * k).
      { apply (Z.pow_lt_mono_r_iff 2); lia. }
      pose proof (to_bits_gen 52 11 (s =? 1) M (-1022 - 4 * k) (Z.log2 M) f (4 * (13 - k)) 0) as H.
      cbv zeta in H. change (2 ^ (11 - 1) - 1) with 1023 in H.
      rewrite Z.max_r in H by lia.
      rewrite H; lia.
  - assert (HD : 2 ^ 52 <= 2 ^ 52 + f < 2 ^ 53) by lia.
    pose proof (M_normal M k _ Hk HM HD) as HMb.
    pose proof (to_bits_gen 52 11 (s =? 1) M (e - 1023 - 4 * k) (4 * k) (2 ^ 52 + f) (4 * (13 - k)) 0) as H.
    cbv zeta in H. change (2 ^ (11 - 1) - 1) with 1023 in H.
    rewrite Z.max_l in H by lia.
    rewrite H; lia.
Qed.

(* the double a float is promoted to, by fields *)
Lemma f32_to_f64_fields b : 0 <= b < 2 ^ 32 -> f32_finite b = true ->
  let s := b / 2 ^ 31 mod 2 in let e := b / 2 ^ 23 mod 2 ^ 8 in let f := b mod 2 ^ 23 in
  exists E Fd, f32_to_f64 b = s * 2 ^ 63 + E * 2 ^ 52 + Fd /\ 0 <= E < 2 ^ 11 /\ 0 <= Fd < 2 ^ 52 /\
    ((e = 0 /\ f = 0 /\ E = 0 /\ Fd = 0) \/
     (e = 0 /\ f <> 0 /\ E = Z.log2 f + 874 /\ 0 <= Z.log2 f <= 22 /\ 2 ^ 52 + Fd = f * 2 ^ (52 - Z.log2 f)) \/
     (e <> 0 /\ E = e + 896 /\ Fd = f * 2 ^ 29)).
Proof.
  intros Hb Hfin s e f. destruct (split32 b Hb) as (_ & Hs & He & Hf). fold s in Hs. fold e in He. fold f in Hf.
  unfold f32_finite in Hfin. fold e in Hfin.
  assert (He' : e <> 255) by (destruct (e =? 255) eqn:E; [discriminate|lia]).
  unfold f32_to_f64. fold s. fold e. fold f.
  destruct (e =? 0) eqn:Ee.
  - apply Z.eqb_eq in Ee. destruct (f =? 0) eqn:Ef.
    + apply Z.eqb_eq in Ef. exists 0, 0. split; [lia|]. split; [lia|]. split; [lia|]. left. tauto.
    + assert (Hf0 : 0 < f) by lia.
      pose proof (Z.log2_spec f Hf0) as HL. pose proof (Z.log2_nonneg f) as HL0.
      assert (HL22 : Z.log2 f < 23) by (apply (Z.pow_lt_mono_r_iff 2); lia).
      set (k := Z.log2 f) in *.
      assert (EP : 2 ^ 52 = 2 ^ k * 2 ^ (52 - k)) by (rewrite <- Z.pow_add_r by lia; f_equal; lia).
      assert (EP1 : 2 ^ 53 = 2 ^ (k + 1) * 2 ^ (52 - k)) by (rewrite <- Z.pow_add_r by lia; f_equal; lia).
      pose proof (pow2_gt0 (52 - k) ltac:(lia)) as HP.
      exists (k + 874), (f * 2 ^ (52 - k) - 2 ^ 52).
      split; [lia|]. split; [lia|]. split; [nia|].
      right. left. repeat split; try lia.
  - replace (e =? 255) with false by lia.
    exists (e + 896), (f * 2 ^ 29). split; [lia|].
    split; [lia|]. split; [lia|]. right. right. repeat split; lia.
Qed.

Theorem f32_roundtrip b : 0 <= b < 2 ^ 32 -> f32_finite b = true ->
  hex_to_f32 (fmt_a (f32_to_f64 b)) = b.
Proof.
  intros Hb Hfin. destruct (split32 b Hb) as (Eb & Hs & He & Hf).
  destruct (f32_to_f64_fields b Hb Hfin) as (E & Fd & Ed & HE & HFd & Hcase). cbv zeta in *.
  set (s := b / 2 ^ 31 mod 2) in *. set (e := b / 2 ^ 23 mod 2 ^ 8) in *. set (f := b mod 2 ^ 23) in *.
  unfold f32_finite in Hfin. fold e in Hfin.
  assert (He' : e <> 255) by (destruct (e =? 255) eqn:E1; [discriminate|lia]).
  destruct (fields64 s E Fd Hs HE HFd) as (F1 & F2 & F3). cbv zeta in *. rewrite <- Ed in *.
  set (d := f32_to_f64 b) in *.
  assert (Hd : 0 <= d < 2 ^ 64) by lia.
  destruct (fmt_a_parse d Hd) as (M & k & Hk & Hp & HM). cbv zeta in *.
  rewrite F2, F3 in *. unfold hex_to_f32. rewrite Hp. unfold f64_sign. rewrite F1.
  assert (Hsign : (if s =? 1 then 2 ^ (23 + 8) else 0) = s * 2 ^ 31).
  { destruct (s =? 1) eqn:E1; [apply Z.eqb_eq in E1; rewrite E1; reflexivity|]. assert (s = 0) by lia. subst s. lia. }
  destruct Hcase as [(H1 & H2 & H3 & H4)|[(H1 & H2 & H3 & H4 & H5)|(H1 & H2 & H3)]].
  - subst E Fd. cbn [Z.eqb] in *. assert (M = 0).
    { pose proof (pow2_gt0 (4 * (13 - k)) ltac:(lia)). nia. }
    subst M. unfold to_bits. cbn [Z.eqb]. rewrite Hsign. lia.
  - replace (E =? 0) with false in * by lia.
    assert (HD : 2 ^ 52 <= 2 ^ 52 + Fd < 2 ^ 53) by lia.
    pose proof (M_normal M k _ Hk HM HD) as HMb.
    pose proof (to_bits_gen 23 8 (s =? 1) M (E - 1023 - 4 * k) (4 * k) f (4 * (13 - k)) (52 - Z.log2 f)) as H.
    cbv zeta in H. change (2 ^ (8 - 1) - 1) with 127 in H.
    rewrite Z.max_r in H by lia.
    rewrite H; lia.
  - replace (E =? 0) with false in * by lia.
    assert (HD : 2 ^ 52 <= 2 ^ 52 + Fd < 2 ^ 53) by lia.
    pose proof (M_normal M k _ Hk HM HD) as HMb.
    pose proof (to_bits_gen 23 8 (s =? 1) M (E - 1023 - 4 * k) (4 * k) (2 ^ 23 + f) (4 * (13 - k)) 29) as H.
    cbv zeta in H. change (2 ^ (8 - 1) - 1) with 127 in H.
    rewrite Z.max_l in H by lia.
    rewrite H; lia.
Qed.

(* ------------------------------------------------------------------------- *)
(* Part 4: the syntax of the two texts as sscanf and the recognisers see them *)
Definition dig (c : Z) : Prop := isdigit c = true.

Lemma takewhile_app f ds tail :
  Forall (fun c => f c = true) ds -> f (hd0 tail) = false -> takewhile f (ds ++ tail) = ds.
Proof.
  intros Hd Ht. induction Hd as [|c ds Hc Hd IH]; cbn [app].
  - destruct tail as [|c r]; [reflexivity|]. cbn in *. unfold hd0, at_ in Ht. cbn in Ht. now rewrite Ht.
  - cbn [takewhile]. rewrite Hc. now f_equal.
Qed.

Lemma firstn_app_exact (a b : list Z) : firstn (length (a ++ b) - length b) (a ++ b) = a.
Proof.
  rewrite app_length. replace (length a + length b - length b)%nat with (length a + 0)%nat by lia.
  rewrite firstn_app_2. cbn. apply app_nil_r.
Qed.

Lemma same_pos_longer (a b : list Z) : a <> [] -> same_pos (a ++ b) b = false.
Proof.
  intros Ha. unfold same_pos. apply Nat.eqb_neq. rewrite app_length.
  destruct a; [contradiction|cbn [length]; lia].
Qed.

(* tok_end walks over characters that end no literal *)
Definition tokch' (c : Z) : bool := negb (isspace c || (c =? 41) || (c =? 93)).

Lemma tok_end_skip t r : Forall (fun c => tokch c = true) t -> tok_end (t ++ r) = tok_end r.
Proof.
  intros Ht. induction Ht as [|c t Hc Ht IH]; cbn [app]; [reflexivity|].
  cbn [tok_end]. unfold tokch in Hc. apply negb_true_iff in Hc.
  apply orb_false_iff in Hc as [Hc H46]. rewrite Hc. cbn [orb].
  replace (starts_with ellipsis (c :: t ++ r)) with false; [exact IH|].
  symmetry. unfold starts_with, ellipsis. cbn [strip_prefix]. now rewrite H46.
Qed.

Lemma tok_end_dot r : hd0 r <> 46 -> tok_end (46 :: r) = tok_end r.
Proof.
  intros H. cbn [tok_end]. change (isspace 46 || (46 =? 41) || (46 =? 93)) with false. cbn [orb].
  replace (starts_with ellipsis (46 :: r)) with false; [reflexivity|].
  symmetry. unfold starts_with, ellipsis. cbn [strip_prefix]. rewrite Z.eqb_refl.
  destruct r as [|c r]; [reflexivity|]. unfold hd0, at_ in H. cbn in H.
  now replace (c =? 46) with false by lia.
Qed.

Lemma tok_end_stop c r : isspace c || (c =? 41) || (c =? 93) = true -> tok_end (c :: r) = c :: r.
Proof. intros H. cbn [tok_end]. now rewrite H. Qed.

(* ---- the decimal text ----------------------------------------------------------- *)
Lemma dec_fixed_acc w : forall n acc, dec_fixed w n acc = dec_fixed w n [] ++ acc.
Proof.
  induction w as [|w IH]; intros n acc; cbn [dec_fixed]; [reflexivity|].
  rewrite (IH (n / 10) ((48 + n mod 10) :: acc)), (IH (n / 10) [48 + n mod 10]).
  rewrite <- app_assoc. reflexivity.
Qed.

Lemma dec_fixed_digits w : forall n, Forall dig (dec_fixed w n []).
Proof.
  induction w as [|w IH]; intros n; [constructor|]. cbn [dec_fixed]. rewrite dec_fixed_acc.
  apply Forall_app. split; [apply IH|]. constructor; [|constructor].
  apply isdigit_spec. pose proof (Z.mod_pos_bound n 10 ltac:(lia)). lia.
Qed.

Definition dectext (sg : str) (n1 : Z) (fr : str) : str := sg ++ dec_nat n1 ++ 46 :: fr.
Definition okdec (sg : str) (n1 : Z) (fr : str) : Prop :=
  (sg = [] \/ sg = [45]) /\ 0 <= n1 /\ Forall dig fr.

Lemma round_nonneg n d : 0 <= n -> 0 < d -> 0 <= round_half_even n d.
Proof.
  intros Hn Hd. unfold round_half_even. pose proof (Z.div_pos n d Hn Hd).
  destruct ((d <? 2 * (n mod d)) || ((2 * (n mod d) =? d) && Z.odd (n / d))); lia.
Qed.

Lemma fmt_f_shape p b : exists sg n1 fr, fmt_f p b = dectext sg n1 fr /\ okdec sg n1 fr.
Proof.
  unfold fmt_f, f64_mx.
  set (e := b / 2 ^ 52 mod 2 ^ 11). set (f := b mod 2 ^ 52).
  assert (Hf : 0 <= f) by (apply Z.mod_pos_bound; lia).
  assert (H10 : 0 <= 10 ^ p) by (apply Z.pow_nonneg; lia).
  assert (Hgen : forall m x, 0 <= m ->
     exists sg n1 fr,
       (let scaled := m * 10 ^ p in
        let n := if 0 <=? x then scaled * 2 ^ x else round_half_even scaled (2 ^ (- x)) in
        (if f64_sign b then [45] else []) ++ dec_nat (n / 10 ^ p) ++ 46 :: dec_fixed (Z.to_nat p) (n mod 10 ^ p) [])
       = dectext sg n1 fr /\ okdec sg n1 fr).
  { intros m x Hm. cbv zeta.
    set (n := if 0 <=? x then m * 10 ^ p * 2 ^ x else round_half_even (m * 10 ^ p) (2 ^ (- x))).
    assert (Hn : 0 <= n).
    { unfold n. destruct (0 <=? x) eqn:Ex.
      - pose proof (pow2_gt0 x ltac:(lia)). nia.
      - apply round_nonneg; [nia|apply pow2_gt0; lia]. }
    exists (if f64_sign b then [45] else []), (n / 10 ^ p), (dec_fixed (Z.to_nat p) (n mod 10 ^ p) []).
    split; [reflexivity|]. split; [destruct (f64_sign b); auto|]. split; [|apply dec_fixed_digits].
    destruct (Z.eq_dec (10 ^ p) 0) as [E0|E0]; [rewrite E0, Zdiv_0_r; lia|apply Z.div_pos; lia]. }
  destruct (e =? 0); apply Hgen; lia.
Qed.

Lemma sc_i_signed sg n rest : (sg = [] \/ sg = [45]) -> 0 <= n -> num_follow rest ->
  exists v, sc_i (sg ++ dec_nat n ++ rest) = Some (v, rest).
Proof.
  intros [->| ->] Hn Hr; cbn [app].
  - exists n. replace (dec_nat n) with (print_d n) by (unfold print_d; now replace (n <? 0) with false by lia).
    now apply sc_i_print.
  - exists (- n). unfold sc_i. rewrite skip_ws_nonspace by reflexivity.
    unfold sc_sign. rewrite Z.eqb_refl. rewrite sc_i_body_nat by assumption. reflexivity.
Qed.

Lemma sc_d_signed sg n rest : (sg = [] \/ sg = [45]) -> 0 <= n -> num_follow rest ->
  exists v, sc_d (sg ++ dec_nat n ++ rest) = Some (v, rest).
Proof.
  intros [->| ->] Hn Hr; cbn [app].
  - exists n. now apply sc_d_nat.
  - exists (- n). unfold sc_d. rewrite skip_ws_nonspace by reflexivity.
    unfold sc_sign. rewrite Z.eqb_refl.
    destruct (dec_nat_nonempty n Hn) as (c & tl & E & Hc). rewrite E. cbn [app]. rewrite hd0_cons, Hc.
    change (c :: tl ++ rest) with ((c :: tl) ++ rest). rewrite <- E.
    rewrite read_digs_app by (try apply dec_nat_digits; try assumption; apply Hr).
    rewrite dec_nat_val by assumption. reflexivity.
Qed.

Lemma dig_tokch ds : Forall dig ds -> Forall (fun c => tokch c = true) ds.
Proof. apply digits_tokch. Qed.

Lemma sg_tokch sg : sg = [] \/ sg = [45] -> Forall (fun c => tokch c = true) sg.
Proof. intros [->| ->]; repeat constructor. Qed.

Lemma hd0_app_digits ds c r : Forall dig ds -> c <> 46 -> hd0 (ds ++ c :: r) <> 46.
Proof.
  intros Hd Hc. destruct Hd as [|d ds Hd _]; cbn [app]; rewrite hd0_cons; [assumption|].
  apply isdigit_spec in Hd. lia.
Qed.

Section DecText.
Variables (sg : str) (n1 : Z) (fr : str).
Hypothesis Hok : okdec sg n1 fr.

Lemma dec_tok_end t r : Forall (fun c => tokch c = true) t -> hd0 (t ++ r) <> 46 ->
  tok_end (dectext sg n1 fr ++ t ++ r) = tok_end r.
Proof.
  destruct Hok as (Hsg & Hn & Hfr). intros Ht H46. unfold dectext.
  rewrite <- !app_assoc. rewrite tok_end_skip by now apply sg_tokch.
  rewrite tok_end_skip by now apply dig_tokch, dec_nat_digits.
  cbn [app]. rewrite tok_end_dot.
  - rewrite tok_end_skip by now apply dig_tokch. now apply tok_end_skip.
  - destruct Hfr as [|d ds Hd _]; cbn [app]; [assumption|]. rewrite hd0_cons. apply isdigit_spec in Hd. lia.
Qed.

Lemma dec_after_int X :
  (exists v, sc_i (dectext sg n1 fr ++ X) = Some (v, 46 :: fr ++ X)) /\
  (exists v, sc_d (dectext sg n1 fr ++ X) = Some (v, 46 :: fr ++ X)).
Proof.
  destruct Hok as (Hsg & Hn & Hfr). unfold dectext. rewrite <- !app_assoc. cbn [app].
  assert (Hnf : num_follow (46 :: fr ++ X)) by (unfold num_follow; rewrite !hd0_cons; split; [reflexivity|split; lia]).
  split; [now apply sc_i_signed|now apply sc_d_signed].
Qed.

Lemma dec_sc_f c X : isdigit c = false -> c <> 101 -> c <> 69 ->
  sc_f (dectext sg n1 fr ++ c :: X) = Some (false, dectext sg n1 fr, c :: X).
Proof.
  destruct Hok as (Hsg & Hn & Hfr). intros Hc H1 H2. unfold sc_f.
  destruct (dec_nat_nonempty n1 Hn) as (c0 & tl & E & Hc0). pose proof Hc0 as Hc0'. apply isdigit_spec in Hc0'.
  assert (Hws : skip_ws (dectext sg n1 fr ++ c :: X) = dectext sg n1 fr ++ c :: X).
  { apply skip_ws_nonspace. unfold dectext. destruct Hsg as [->| ->]; cbn [app]; [|reflexivity].
    rewrite E. cbn [app]. rewrite hd0_cons. unfold isspace, in_range. lia. }
  rewrite Hws.
  assert (Hsign : sc_sign (dectext sg n1 fr ++ c :: X) = (match sg with [] => false | _ => true end,
                                                          dec_nat n1 ++ 46 :: fr ++ c :: X)).
  { unfold dectext. rewrite <- !app_assoc. cbn [app]. destruct Hsg as [->| ->]; cbn [app].
    - rewrite E. cbn [app]. rewrite sc_sign_other by lia. reflexivity.
    - reflexivity. }
  rewrite Hsign.
  assert (Hnohex : (hd0 (dec_nat n1 ++ 46 :: fr ++ c :: X) =? 48) &&
                   ((at_ (dec_nat n1 ++ 46 :: fr ++ c :: X) 1 =? 120) || (at_ (dec_nat n1 ++ 46 :: fr ++ c :: X) 1 =? 88)) = false).
  { pose proof (dec_nat_digits n1 Hn) as Hd. rewrite E in *. cbn [app]. rewrite hd0_cons.
    inversion Hd as [|? ? _ Htl]; subst. unfold at_. cbn [nth app].
    destruct Htl as [|d tl' Hd' _]; cbn [app nth].
    - now rewrite andb_false_r.
    - apply isdigit_spec in Hd'. replace ((d =? 120) || (d =? 88)) with false by lia. now rewrite andb_false_r. }
  rewrite Hnohex.
  rewrite takewhile_app, dropwhile_app by (try apply dec_nat_digits; try assumption; reflexivity).
  rewrite hd0_cons. change (46 =? 46) with true. cbv iota. cbn [skipn].
  assert (Hcx : isdigit (hd0 (c :: X)) = false) by now rewrite hd0_cons.
  rewrite takewhile_app, dropwhile_app by assumption.
  assert (Hlen : Nat.eqb (length (dec_nat n1) + length fr) 0 = false).
  { apply Nat.eqb_neq. rewrite E. cbn [length]. lia. }
  rewrite Hlen. unfold opt_exp. replace ((c =? 101) || (c =? 69)) with false by lia.
  f_equal. f_equal. f_equal. apply firstn_app_exact.
Qed.

Lemma dec_fmtstr_f X : scanf_fmtstr (dectext sg n1 fr ++ 32 :: X) = Some F_f /\
                       tok_end (dectext sg n1 fr ++ 32 :: X) = 32 :: X.
Proof.
  assert (He : tok_end (dectext sg n1 fr ++ 32 :: X) = 32 :: X).
  { change (32 :: X) with ([] ++ 32 :: X) at 1.
    rewrite (dec_tok_end [] (32 :: X)); [reflexivity|constructor|cbn [app]; rewrite hd0_cons; lia]. }
  split; [|exact He]. unfold scanf_fmtstr. rewrite He.
  destruct (dec_after_int (32 :: X)) as ((vi & Hi) & (vd & Hd)). rewrite Hi, Hd.
  cbn [after_int bind_lit lit]. change (46 =? 104) with false. change (46 =? 105) with false. cbv iota.
  assert (Hsp : same_pos (46 :: fr ++ 32 :: X) (32 :: X) = false).
  { change (46 :: fr ++ 32 :: X) with ((46 :: fr) ++ 32 :: X). now apply same_pos_longer. }
  rewrite Hsp. unfold after_flt. rewrite dec_sc_f by (try reflexivity; lia).
  cbn [bind_lit lit]. change (32 =? 100) with false. change (32 =? 102) with false. cbv iota.
  now rewrite same_pos_refl.
Qed.

Lemma dec_fmtstr_d X : scanf_fmtstr (dectext sg n1 fr ++ 100 :: 32 :: X) = Some F_lfd /\
                       tok_end (dectext sg n1 fr ++ 100 :: 32 :: X) = 32 :: X.
Proof.
  assert (He : tok_end (dectext sg n1 fr ++ 100 :: 32 :: X) = 32 :: X).
  { change (100 :: 32 :: X) with ([100] ++ 32 :: X) at 1.
    rewrite (dec_tok_end [100] (32 :: X)); [reflexivity|repeat constructor|cbn [app]; rewrite hd0_cons; lia]. }
  split; [|exact He]. unfold scanf_fmtstr. rewrite He.
  destruct (dec_after_int (100 :: 32 :: X)) as ((vi & Hi) & (vd & Hd)). rewrite Hi, Hd.
  cbn [after_int bind_lit lit]. change (46 =? 104) with false. change (46 =? 105) with false. cbv iota.
  assert (Hsp : same_pos (46 :: fr ++ 100 :: 32 :: X) (32 :: X) = false).
  { replace (46 :: fr ++ 100 :: 32 :: X) with ((46 :: fr ++ [100]) ++ 32 :: X)
      by (cbn [app]; f_equal; now rewrite <- app_assoc).
    now apply same_pos_longer. }
  rewrite Hsp. unfold after_flt. rewrite dec_sc_f by (try reflexivity; lia).
  cbn [bind_lit lit]. change (100 =? 100) with true. cbv iota.
  now rewrite same_pos_refl.
Qed.

Lemma dec_default tail :
  exists c tl, dectext sg n1 fr ++ tail = c :: tl /\ first_class c = FC_other /\ isidstart c = false /\
    is_range_multiplier (c :: tl) = false /\ skip_fmt fmt_date (c :: tl) = c :: tl /\ first_ok c.
Proof.
  destruct Hok as (Hsg & Hn & Hfr).
  destruct (dec_nat_nonempty n1 Hn) as (c0 & tl & E & Hc0). pose proof Hc0 as Hc0'. apply isdigit_spec in Hc0'.
  pose proof (dec_nat_digits n1 Hn) as Hd. rewrite E in Hd. inversion Hd as [|? ? _ Htl]; subst.
  assert (Er : is_range_multiplier (dectext sg n1 fr ++ tail) = false).
  { unfold dectext. rewrite E, <- !app_assoc. cbn [app].
    apply range_mult_no; try assumption; rewrite hd0_cons; [reflexivity|lia]. }
  assert (Ed : skip_fmt fmt_date (dectext sg n1 fr ++ tail) = dectext sg n1 fr ++ tail).
  { unfold dectext. rewrite E, <- !app_assoc. cbn [app].
    apply date_no; try assumption; rewrite hd0_cons; [reflexivity|lia]. }
  unfold dectext in *. rewrite E in *. destruct Hsg as [->| ->]; cbn [app] in *.
  - eexists _, _. split; [reflexivity|]. split; [apply first_class_num; lia|].
    split; [apply isidstart_num; lia|]. split; [assumption|]. split; [assumption|apply first_ok_num; lia].
  - eexists _, _. split; [reflexivity|]. split; [apply first_class_num; lia|].
    split; [apply isidstart_num; lia|]. split; [assumption|]. split; [assumption|apply first_ok_num; lia].
Qed.
End DecText.

(* ---- the hexadecimal text ------------------------------------------------------ *)
Lemma xdig_tokch ds : Forall xdig ds -> Forall (fun c => tokch c = true) ds.
Proof.
  intros H. eapply Forall_impl; [|exact H]. intros a Ha. unfold xdig in Ha.
  unfold tokch, isspace, isxdigit, isdigit, in_range in *. lia.
Qed.

Lemma print_exp_shape ex : exists sgc, print_exp ex = sgc :: dec_nat (Z.abs ex) /\ (sgc = 43 \/ sgc = 45).
Proof. unfold print_exp. destruct (ex <? 0); eexists; split; try reflexivity; auto. Qed.

Section HexText.
Variables (neg : bool) (lead : Z) (frac : str) (ex : Z).
Hypothesis Hl : lead = 48 \/ lead = 49.
Hypothesis Hfr : Forall xdig frac.

Definition dotfrac : str := match frac with [] => [] | _ => 46 :: frac end.
Definition hextail (Y : str) : str := dotfrac ++ 112 :: print_exp ex ++ Y.

Lemma hextext_eq Y :
  hextext neg lead frac ex ++ Y = (if neg then [45] else []) ++ 48 :: 120 :: lead :: hextail Y.
Proof.
  unfold hextext, hextail. fold dotfrac. destruct neg; cbn [app]; rewrite <- app_assoc; reflexivity.
Qed.

Lemma hextail_hd Y : hd0 (hextail Y) = 46 \/ hd0 (hextail Y) = 112.
Proof. unfold hextail, dotfrac. destruct frac; cbn [app]; rewrite hd0_cons; auto. Qed.

Lemma hextail_ne Y : hextail Y = (dotfrac ++ 112 :: print_exp ex) ++ Y /\ dotfrac ++ 112 :: print_exp ex <> [].
Proof.
  unfold hextail. split; [now rewrite <- app_assoc|]. destruct dotfrac; discriminate.
Qed.

Lemma lead_facts : isxdigit lead = true /\ isdigit lead = true /\ tokch lead = true /\ isspace lead = false.
Proof. destruct Hl as [->| ->]; repeat split; reflexivity. Qed.

Lemma hex_ws Y : skip_ws (hextext neg lead frac ex ++ Y) = hextext neg lead frac ex ++ Y.
Proof. apply skip_ws_nonspace. rewrite hextext_eq. destruct neg; reflexivity. Qed.

Lemma hex_sign Y : sc_sign (hextext neg lead frac ex ++ Y) = (neg, 48 :: 120 :: lead :: hextail Y).
Proof. rewrite hextext_eq. destruct neg; reflexivity. Qed.

Lemma hex_tok_end rest : tok_end (hextext neg lead frac ex ++ 41 :: rest) = 41 :: rest.
Proof.
  rewrite hextext_eq.
  rewrite tok_end_skip by (destruct neg; repeat constructor).
  change (48 :: 120 :: lead :: hextail (41 :: rest)) with ([48; 120; lead] ++ hextail (41 :: rest)).
  rewrite tok_end_skip by (repeat constructor; apply lead_facts).
  destruct (print_exp_shape ex) as (sgc & Ee & Hsgc).
  assert (Hp : tok_end (112 :: print_exp ex ++ 41 :: rest) = 41 :: rest).
  { rewrite Ee. change (112 :: (sgc :: dec_nat (Z.abs ex)) ++ 41 :: rest)
      with ([112; sgc] ++ dec_nat (Z.abs ex) ++ 41 :: rest).
    rewrite tok_end_skip by (destruct Hsgc as [->| ->]; repeat constructor).
    rewrite tok_end_skip by (apply dig_tokch, dec_nat_digits; lia).
    now apply tok_end_stop. }
  unfold hextail, dotfrac. destruct frac as [|c0 fr] eqn:Ef; cbn [app]; [exact Hp|].
  rewrite tok_end_dot.
  - change (c0 :: fr ++ 112 :: print_exp ex ++ 41 :: rest) with ((c0 :: fr) ++ 112 :: print_exp ex ++ 41 :: rest).
    rewrite tok_end_skip by now apply xdig_tokch. exact Hp.
  - rewrite hd0_cons. inversion Hfr as [|? ? Hc _]; subst.
    unfold xdig, isxdigit, isdigit, in_range in Hc. lia.
Qed.

Lemma hex_sc_i Y : exists v, sc_i (hextext neg lead frac ex ++ Y) = Some (v, hextail Y).
Proof.
  unfold sc_i. rewrite hex_ws, hex_sign. cbn [sc_i_body]. rewrite hd0_cons.
  change ((48 =? 48) && ((120 =? 120) || (120 =? 88))) with true. cbv iota. cbn [skipn].
  rewrite hd0_cons. destruct lead_facts as (Hx & _). rewrite Hx.
  cbn [read_digs]. rewrite Hx. rewrite read_digs_stop.
  - eexists. reflexivity.
  - destruct (hextail_hd Y) as [-> | ->]; reflexivity.
Qed.

Lemma hex_sc_d Y : exists v, sc_d (hextext neg lead frac ex ++ Y) = Some (v, 120 :: lead :: hextail Y).
Proof.
  unfold sc_d. rewrite hex_ws, hex_sign. rewrite hd0_cons. change (isdigit 48) with true. cbv iota.
  cbn [read_digs]. change (isdigit 48) with true. change (isdigit 120) with false. cbv iota.
  eexists. reflexivity.
Qed.

Lemma hex_sc_f rest :
  sc_f (hextext neg lead frac ex ++ 41 :: rest) = Some (true, hextext neg lead frac ex, 41 :: rest).
Proof.
  unfold sc_f. rewrite hex_ws, hex_sign. rewrite hd0_cons.
  change ((48 =? 48) && ((at_ (48 :: 120 :: lead :: hextail (41 :: rest)) 1 =? 120)
                         || (at_ (48 :: 120 :: lead :: hextail (41 :: rest)) 1 =? 88))) with true.
  cbv iota. cbn [skipn].
  destruct lead_facts as (Hx & _).
  assert (Htl : isxdigit (hd0 (hextail (41 :: rest))) = false)
    by (destruct (hextail_hd (41 :: rest)) as [-> | ->]; reflexivity).
  change (lead :: hextail (41 :: rest)) with ([lead] ++ hextail (41 :: rest)).
  rewrite takewhile_app, dropwhile_app by (try assumption; repeat constructor; assumption).
  destruct (print_exp_shape ex) as (sgc & Ee & Hsgc).
  assert (Hexp : opt_exp 112 80 (112 :: print_exp ex ++ 41 :: rest) = Some (41 :: rest)).
  { unfold opt_exp. change ((112 =? 112) || (112 =? 80)) with true. cbv iota.
    rewrite Ee. cbn [app].
    assert (Hs : sc_sign (sgc :: dec_nat (Z.abs ex) ++ 41 :: rest) = (negb (sgc =? 43), dec_nat (Z.abs ex) ++ 41 :: rest))
      by (destruct Hsgc as [->| ->]; reflexivity).
    rewrite Hs.
    destruct (dec_nat_nonempty (Z.abs ex) ltac:(lia)) as (c & tl & E & Hc). rewrite E at 1. cbn [app].
    rewrite hd0_cons, Hc. f_equal. apply dropwhile_app; [apply dec_nat_digits; lia|reflexivity]. }
  unfold hextail. unfold dotfrac. destruct frac as [|c0 fr] eqn:Ef.
  - cbn [app]. rewrite hd0_cons. change (112 =? 46) with false. cbv iota. cbn [length Nat.add Nat.eqb].
    rewrite Hexp. f_equal. f_equal. f_equal. rewrite <- Ef. apply firstn_app_exact.
  - cbn [app]. rewrite hd0_cons. change (46 =? 46) with true. cbv iota. cbn [skipn].
    change (c0 :: fr ++ 112 :: print_exp ex ++ 41 :: rest) with ((c0 :: fr) ++ 112 :: print_exp ex ++ 41 :: rest).
    rewrite takewhile_app, dropwhile_app by (try assumption; reflexivity).
    cbn [length Nat.add Nat.eqb]. rewrite Hexp. f_equal. f_equal. f_equal. rewrite <- Ef. apply firstn_app_exact.
Qed.

Lemma hex_fmtstr rest : scanf_fmtstr (hextext neg lead frac ex ++ 41 :: rest) = Some F_f.
Proof.
  unfold scanf_fmtstr. rewrite hex_tok_end.
  destruct (hex_sc_i (41 :: rest)) as (vi & Hi). destruct (hex_sc_d (41 :: rest)) as (vd & Hd).
  rewrite Hi, Hd. cbn [after_int bind_lit].
  assert (L1 : lit 104 (hextail (41 :: rest)) = None)
    by (apply lit_none; destruct (hextail_hd (41 :: rest)) as [-> | ->]; lia).
  assert (L2 : lit 105 (hextail (41 :: rest)) = None)
    by (apply lit_none; destruct (hextail_hd (41 :: rest)) as [-> | ->]; lia).
  rewrite L1, L2.
  destruct (hextail_ne (41 :: rest)) as (Et & Hne).
  assert (S1 : same_pos (hextail (41 :: rest)) (41 :: rest) = false)
    by (rewrite Et; now apply same_pos_longer).
  assert (S2 : same_pos (120 :: lead :: hextail (41 :: rest)) (41 :: rest) = false).
  { rewrite Et. change (120 :: lead :: (dotfrac ++ 112 :: print_exp ex) ++ 41 :: rest)
      with ((120 :: lead :: dotfrac ++ 112 :: print_exp ex) ++ 41 :: rest).
    apply same_pos_longer. discriminate. }
  rewrite S1, S2. unfold after_flt. rewrite hex_sc_f. cbn [bind_lit lit].
  change (41 =? 100) with false. change (41 =? 102) with false. cbv iota.
  now rewrite same_pos_refl.
Qed.
End HexText.

Lemma fmt_a_reads d rest :
  skip_ws (fmt_a d ++ 41 :: rest) = fmt_a d ++ 41 :: rest /\
  scanf_fmtstr (fmt_a d ++ 41 :: rest) = Some F_f /\
  tok_end (fmt_a d ++ 41 :: rest) = 41 :: rest /\
  sc_f (fmt_a d ++ 41 :: rest) = Some (true, fmt_a d, 41 :: rest).
Proof.
  pose proof (fmt_a_text d) as E. cbv zeta in E. rewrite E.
  set (e := d / 2 ^ 52 mod 2 ^ 11). set (f := d mod 2 ^ 52).
  assert (Hf : 0 <= f < 2 ^ 52) by (apply Z.mod_pos_bound; lia).
  destruct (frac_digits f Hf) as (Hx & _ & _).
  assert (Hl : (if e =? 0 then 48 else 49) = 48 \/ (if e =? 0 then 48 else 49) = 49) by (destruct (e =? 0); auto).
  split; [now apply hex_ws|]. split; [now apply hex_fmtstr|]. split; [now apply hex_tok_end|now apply hex_sc_f].
Qed.

(* ------------------------------------------------------------------------- *)
(* Part 5: the tokens  <decimal> (<hexadecimal>)  and  <decimal>d (<hexadecimal>) *)
Definition flt_text (p d : Z) : str := fmt_f p d ++ [32; 40] ++ fmt_a d ++ [41].
Definition dbl_text (p d : Z) : str := fmt_f p d ++ 100 :: [32; 40] ++ fmt_a d ++ [41].

Lemma close_paren rest :
  skip_fmt_null fmt_close_paren (41 :: rest) = Some rest /\ skip_fmt fmt_close_paren (41 :: rest) = rest.
Proof.
  unfold skip_fmt_null, skip_fmt, fmt_close_paren. cbn [run_fmt].
  change (skip_ws (41 :: rest)) with (41 :: rest). cbn [lit]. change (41 =? 41) with true. cbv iota.
  cbn [rev]. split; [|reflexivity].
  replace (Nat.eqb (length rest) (length (41 :: rest))) with false; [reflexivity|].
  symmetry. apply Nat.eqb_neq. cbn [length]. lia.
Qed.

Section FloatTokens.
Variables dec2f dec2d : str -> Z.

Lemma tok_float p b : 0 <= b < 2 ^ 32 -> f32_finite b = true ->
  tok_core dec2f dec2d (VFl b) (flt_text p (f32_to_f64 b)).
Proof.
  intros Hb Hfin rest Hr. unfold flt_text. set (d := f32_to_f64 b).
  destruct (fmt_f_shape p d) as (sg & n1 & fr & Ef & Hok). rewrite Ef.
  destruct (fmt_a_reads d rest) as (Hws & Hfm & Hte & Hsf).
  replace ((dectext sg n1 fr ++ [32; 40] ++ fmt_a d ++ [41]) ++ rest)
    with (dectext sg n1 fr ++ 32 :: 40 :: fmt_a d ++ 41 :: rest)
    by (rewrite <- !app_assoc; reflexivity).
  destruct (dec_default sg n1 fr Hok (32 :: 40 :: fmt_a d ++ 41 :: rest))
    as (c & tl & E & Hfc & Hid & Hrm & Hdt & _).
  destruct (dec_fmtstr_f sg n1 fr Hok (40 :: fmt_a d ++ 41 :: rest)) as (Hf & He).
  pose proof (dec_sc_f sg n1 fr Hok 32 (40 :: fmt_a d ++ 41 :: rest) eq_refl ltac:(lia) ltac:(lia)) as Hdf.
  destruct (close_paren rest) as (Hcp1 & Hcp2).
  assert (Hsw : skip_ws (32 :: 40 :: fmt_a d ++ 41 :: rest) = 40 :: fmt_a d ++ 41 :: rest) by reflexivity.
  rewrite E in *. split; intros.
  - unfold skip_core. rewrite Hfc, Hrm, Hid, Hdt, same_pos_refl. cbn [negb].
    unfold skip_numeric at 1. rewrite Hf, He. cbn [numfmt_type]. rewrite Hsw, hd0_cons.
    change (40 =? 40) with true. change ((102 =? 102) || (102 =? 100)) with true. cbv iota. cbn [skipn].
    rewrite Hws. unfold skip_numeric. rewrite Hfm, Hte. cbn [numfmt_type]. rewrite Hcp1. reflexivity.
  - unfold scan_core. rewrite Hfc, Hrm, Hid, Hdt, same_pos_refl. cbn [negb].
    unfold scan_numeric. unfold scan_numeric_once at 1. rewrite Hf, He, Hdf. rewrite Hsw, hd0_cons.
    change (40 =? 40) with true. cbv iota. cbn [skipn]. rewrite Hws, Hfm.
    unfold scan_numeric_once. rewrite Hfm, Hsf, Hte. cbn [store_second]. rewrite Hcp2.
    unfold flt_val. unfold d. now rewrite f32_roundtrip.
Qed.

Lemma tok_double p b : 0 <= b < 2 ^ 64 -> f64_finite b = true ->
  tok_core dec2f dec2d (VD b) (dbl_text p b).
Proof.
  intros Hb Hfin rest Hr. unfold dbl_text. set (d := b).
  destruct (fmt_f_shape p d) as (sg & n1 & fr & Ef & Hok). rewrite Ef.
  destruct (fmt_a_reads d rest) as (Hws & Hfm & Hte & Hsf).
  replace ((dectext sg n1 fr ++ 100 :: [32; 40] ++ fmt_a d ++ [41]) ++ rest)
    with (dectext sg n1 fr ++ 100 :: 32 :: 40 :: fmt_a d ++ 41 :: rest)
    by (rewrite <- !app_assoc; cbn [app]; rewrite <- ?app_assoc; reflexivity).
  destruct (dec_default sg n1 fr Hok (100 :: 32 :: 40 :: fmt_a d ++ 41 :: rest))
    as (c & tl & E & Hfc & Hid & Hrm & Hdt & _).
  destruct (dec_fmtstr_d sg n1 fr Hok (40 :: fmt_a d ++ 41 :: rest)) as (Hf & He).
  pose proof (dec_sc_f sg n1 fr Hok 100 (32 :: 40 :: fmt_a d ++ 41 :: rest) eq_refl ltac:(lia) ltac:(lia)) as Hdf.
  destruct (close_paren rest) as (Hcp1 & Hcp2).
  assert (Hsw : skip_ws (32 :: 40 :: fmt_a d ++ 41 :: rest) = 40 :: fmt_a d ++ 41 :: rest) by reflexivity.
  rewrite E in *. split; intros.
  - unfold skip_core. rewrite Hfc, Hrm, Hid, Hdt, same_pos_refl. cbn [negb].
    unfold skip_numeric at 1. rewrite Hf, He. cbn [numfmt_type]. rewrite Hsw, hd0_cons.
    change (40 =? 40) with true. change ((100 =? 102) || (100 =? 100)) with true. cbv iota. cbn [skipn].
    rewrite Hws. unfold skip_numeric. rewrite Hfm, Hte. cbn [numfmt_type]. rewrite Hcp1. reflexivity.
  - unfold scan_core. rewrite Hfc, Hrm, Hid, Hdt, same_pos_refl. cbn [negb].
    unfold scan_numeric. unfold scan_numeric_once at 1. rewrite Hf, He, Hdf. rewrite Hsw, hd0_cons.
    change (40 =? 40) with true. cbv iota. cbn [skipn]. rewrite Hws, Hfm.
    rewrite Hsf. cbn [store_second]. rewrite Hcp2.
    unfold dbl_val. unfold d. now rewrite f64_roundtrip.
Qed.
End FloatTokens.

(* ------------------------------------------------------------------------- *)
(* Part 6: single dots.  The checker looks for the left neighbour of a range   *)
(* with strstr(.., "..."): a text in which every '.' is followed by another     *)
(* character that is no '.' cannot contain or complete an ellipsis.             *)
Inductive sdots : str -> Prop :=
| sd_nil : sdots []
| sd_other c r : c <> 46 -> sdots r -> sdots (c :: r)
| sd_dot c r : c <> 46 -> sdots (c :: r) -> sdots (46 :: c :: r).

Lemma nodot_sdots t : Forall (fun c => c <> 46) t -> sdots t.
Proof. induction 1; constructor; assumption. Qed.

Lemma sdots_app a b : sdots a -> sdots b -> sdots (a ++ b).
Proof.
  intros Ha Hb. induction Ha as [|c r Hc Hr IH|c r Hc Hr IH]; cbn [app] in *.
  - exact Hb.
  - now constructor.
  - now apply sd_dot.
Qed.

Lemma sdots_dot r : r <> [] -> hd0 r <> 46 -> sdots r -> sdots (46 :: r).
Proof. destruct r as [|c r]; [contradiction|]. rewrite hd0_cons. intros _ Hc Hr. now apply sd_dot. Qed.

Lemma dig_nodot ds : Forall dig ds -> Forall (fun c => c <> 46) ds.
Proof. intros H. eapply Forall_impl; [|exact H]. intros a Ha. apply isdigit_spec in Ha. lia. Qed.

Lemma xdig_nodot ds : Forall xdig ds -> Forall (fun c => c <> 46) ds.
Proof.
  intros H. eapply Forall_impl; [|exact H]. intros a Ha. unfold xdig, isxdigit, isdigit, in_range in Ha. lia.
Qed.

Lemma hextext_sdots neg lead frac ex : lead = 48 \/ lead = 49 -> Forall xdig frac ->
  sdots (hextext neg lead frac ex).
Proof.
  intros Hl Hfr. unfold hextext.
  destruct (print_exp_shape ex) as (sgc & Ee & Hsgc).
  assert (Hp : sdots (112 :: print_exp ex)).
  { apply nodot_sdots. rewrite Ee. constructor; [lia|]. constructor; [lia|].
    apply dig_nodot, dec_nat_digits. lia. }
  apply sdots_app; [apply nodot_sdots; destruct neg; repeat constructor; lia|].
  apply sdots_app; [apply nodot_sdots; repeat constructor; lia|].
  apply sdots_app; [apply nodot_sdots; repeat constructor; lia|].
  destruct frac as [|c0 fr]; [exact Hp|].
  cbn [app]. apply sdots_dot; [discriminate| |].
  - rewrite hd0_cons. inversion Hfr as [|? ? Hc _]; subst. unfold xdig, isxdigit, isdigit, in_range in Hc. lia.
  - change (c0 :: fr ++ 112 :: print_exp ex) with ((c0 :: fr) ++ 112 :: print_exp ex).
    apply sdots_app; [apply nodot_sdots; now apply xdig_nodot|exact Hp].
Qed.

Lemma fmt_a_sdots d : sdots (fmt_a d).
Proof.
  pose proof (fmt_a_text d) as E. cbv zeta in E. rewrite E.
  assert (Hf : 0 <= d mod 2 ^ 52 < 2 ^ 52) by (apply Z.mod_pos_bound; lia).
  destruct (frac_digits _ Hf) as (Hx & _ & _).
  apply hextext_sdots; [destruct (d / 2 ^ 52 mod 2 ^ 11 =? 0); auto|assumption].
Qed.

Lemma dectext_sdots sg n1 fr c r : okdec sg n1 fr -> c <> 46 -> sdots (c :: r) ->
  sdots (dectext sg n1 fr ++ c :: r).
Proof.
  intros (Hsg & Hn & Hfr) Hc Hr. unfold dectext. rewrite <- !app_assoc.
  apply sdots_app; [apply nodot_sdots; destruct Hsg as [->| ->]; repeat constructor; lia|].
  apply sdots_app; [apply nodot_sdots, dig_nodot, dec_nat_digits; lia|].
  cbn [app]. apply sdots_dot.
  - destruct fr; discriminate.
  - destruct Hfr as [|d ds Hd _]; cbn [app]; rewrite hd0_cons; [assumption|]. apply isdigit_spec in Hd. lia.
  - apply sdots_app; [apply nodot_sdots; now apply dig_nodot|exact Hr].
Qed.

Lemma flt_text_sdots p d : sdots (flt_text p d).
Proof.
  unfold flt_text. destruct (fmt_f_shape p d) as (sg & n1 & fr & -> & Hok).
  cbn [app]. apply dectext_sdots; [assumption|lia|].
  constructor; [lia|]. constructor; [lia|].
  apply sdots_app; [apply fmt_a_sdots|apply nodot_sdots; repeat constructor; lia].
Qed.

Lemma dbl_text_sdots p d : sdots (dbl_text p d).
Proof.
  unfold dbl_text. destruct (fmt_f_shape p d) as (sg & n1 & fr & -> & Hok).
  cbn [app]. apply dectext_sdots; [assumption|lia|].
  constructor; [lia|]. constructor; [lia|]. constructor; [lia|].
  apply sdots_app; [apply fmt_a_sdots|apply nodot_sdots; repeat constructor; lia].
Qed.

Lemma flt_text_first p d r : exists c tl, flt_text p d ++ r = c :: tl /\ first_ok c.
Proof.
  unfold flt_text. destruct (fmt_f_shape p d) as (sg & n1 & fr & -> & Hok). rewrite <- app_assoc.
  destruct (dec_default sg n1 fr Hok (([32; 40] ++ fmt_a d ++ [41]) ++ r)) as (c & tl & E & _ & _ & _ & _ & Hc).
  eauto.
Qed.

Lemma dbl_text_first p d r : exists c tl, dbl_text p d ++ r = c :: tl /\ first_ok c.
Proof.
  unfold dbl_text. destruct (fmt_f_shape p d) as (sg & n1 & fr & -> & Hok). rewrite <- app_assoc.
  destruct (dec_default sg n1 fr Hok ((100 :: [32; 40] ++ fmt_a d ++ [41]) ++ r)) as (c & tl & E & _ & _ & _ & _ & Hc).
  eauto.
Qed.
