(* C10 - the lossless form of floats and doubles: the hexadecimal text printf("%a")
   writes (FloatFmt.fmt_a) is read back to the same bit pattern by the value
   function of the scanner model (FloatFmt.hex_to_f32 / hex_to_f64), for every
   finite float / double, subnormals and both zeroes included.
   Part 1: arithmetic (to_bits on an exactly representable M * 2^e).
   Part 2: the text (digits of hex_fixed / strip0, parse_hex).
   Part 3: the two round trip theorems.  *)
From Coq Require Import List ZArith Bool Lia.
From RtoscV Require Import Pretty.Tok Pretty.FloatFmt Pretty.PrintModel Pretty.ScanModel
  Pretty.PrettyProofs.
Import ListNotations.
Local Open Scope Z_scope.

(* ------------------------------------------------------------------------- *)
(* Part 1: arithmetic                                                         *)
Lemma pow2_pos n : 0 < 2 ^ n \/ n < 0.
Proof. destruct (Z_lt_le_dec n 0); [now right|left; now apply Z.pow_pos_nonneg]. Qed.

Lemma pow2_gt0 n : 0 <= n -> 0 < 2 ^ n.
Proof. intros; now apply Z.pow_pos_nonneg. Qed.

Lemma round_exact q d : 0 < d -> round_half_even (q * d) d = q.
Proof.
  intros Hd. unfold round_half_even. rewrite Z.div_mul, Z.mod_mul by lia.
  replace (d <? 2 * 0) with false by lia. replace (2 * 0 =? d) with false by lia. reflexivity.
Qed.

(* M * 2^e is exactly q * 2^(E' - mbits) with E' the exponent the code chooses
   (given as M * 2^a = q * 2^b with a - b the code's shift) *)
Lemma to_bits_gen mb ebts neg M e L q a b :
  2 ^ L <= M < 2 ^ (L + 1) -> 0 <= L ->
  let bias := 2 ^ (ebts - 1) - 1 in
  let E' := Z.max (L + e) (1 - bias) in
  0 <= a -> 0 <= b -> e - (E' - mb) = a - b -> M * 2 ^ a = q * 2 ^ b ->
  (E' + bias - 1) * 2 ^ mb + q < (2 ^ ebts - 1) * 2 ^ mb ->
  to_bits mb ebts neg M e = (if neg then 2 ^ (mb + ebts) else 0) + ((E' + bias - 1) * 2 ^ mb + q).
Proof.
  intros HM HL bias E' Ha Hb Hsh Heq Hlt. unfold to_bits.
  assert (HM0 : 0 < M) by (pose proof (pow2_gt0 L HL); lia).
  replace (M =? 0) with false by lia.
  assert (Hlog : Z.log2 M = L) by (apply Z.log2_unique; [assumption|lia]).
  rewrite Hlog. fold bias. fold E'.
  set (sh := e - (E' - mb)) in *.
  assert (Hq : (if 0 <=? sh then M * 2 ^ sh else round_half_even M (2 ^ (- sh))) = q).
  { destruct (0 <=? sh) eqn:Es.
    - assert (Ea : a = b + sh) by lia. rewrite Ea, Z.pow_add_r in Heq by lia.
      pose proof (pow2_gt0 b Hb). nia.
    - assert (Eb : b = a + (- sh)) by lia. rewrite Eb, Z.pow_add_r in Heq by lia.
      pose proof (pow2_gt0 a Ha). assert (M = q * 2 ^ (- sh)) by nia.
      subst M. apply round_exact. apply pow2_gt0. lia. }
  rewrite Hq.
  replace ((2 ^ ebts - 1) * 2 ^ mb <=? (E' + bias - 1) * 2 ^ mb + q) with false by lia.
  reflexivity.
Qed.

(* the fields of a bit pattern given as sign, exponent, fraction *)
Lemma fields64 s e f : 0 <= s <= 1 -> 0 <= e < 2 ^ 11 -> 0 <= f < 2 ^ 52 ->
  let d := s * 2 ^ 63 + e * 2 ^ 52 + f in
  d / 2 ^ 63 mod 2 = s /\ d / 2 ^ 52 mod 2 ^ 11 = e /\ d mod 2 ^ 52 = f.
Proof.
  intros Hs He Hf d. subst d. change (2 ^ 63) with (2 ^ 11 * 2 ^ 52).
  assert (E1 : (s * (2 ^ 11 * 2 ^ 52) + e * 2 ^ 52 + f) / 2 ^ 52 = s * 2 ^ 11 + e).
  { replace (s * (2 ^ 11 * 2 ^ 52) + e * 2 ^ 52 + f) with (f + (s * 2 ^ 11 + e) * 2 ^ 52) by ring.
    rewrite Z.div_add by lia. rewrite Z.div_small by lia. lia. }
  assert (E2 : (s * (2 ^ 11 * 2 ^ 52) + e * 2 ^ 52 + f) mod 2 ^ 52 = f).
  { replace (s * (2 ^ 11 * 2 ^ 52) + e * 2 ^ 52 + f) with (f + (s * 2 ^ 11 + e) * 2 ^ 52) by ring.
    rewrite Z.mod_add by lia. apply Z.mod_small. lia. }
  assert (E3 : (s * (2 ^ 11 * 2 ^ 52) + e * 2 ^ 52 + f) / (2 ^ 11 * 2 ^ 52) = s).
  { replace (s * (2 ^ 11 * 2 ^ 52) + e * 2 ^ 52 + f) with ((e * 2 ^ 52 + f) + s * (2 ^ 11 * 2 ^ 52)) by ring.
    rewrite Z.div_add by lia. rewrite Z.div_small by lia. lia. }
  split; [|split].
  - rewrite E3. apply Z.mod_small. lia.
  - rewrite E1. replace (s * 2 ^ 11 + e) with (e + s * 2 ^ 11) by ring.
    rewrite Z.mod_add by lia. apply Z.mod_small. lia.
  - exact E2.
Qed.

Lemma split64 b : 0 <= b < 2 ^ 64 ->
  let s := b / 2 ^ 63 mod 2 in let e := b / 2 ^ 52 mod 2 ^ 11 in let f := b mod 2 ^ 52 in
  b = s * 2 ^ 63 + e * 2 ^ 52 + f /\ 0 <= s <= 1 /\ 0 <= e < 2 ^ 11 /\ 0 <= f < 2 ^ 52.
Proof.
  intros Hb s e f. subst s e f.
  pose proof (Z.div_mod b (2 ^ 52) ltac:(lia)) as H1.
  pose proof (Z.mod_pos_bound b (2 ^ 52) ltac:(lia)) as H2.
  pose proof (Z.div_mod (b / 2 ^ 52) (2 ^ 11) ltac:(lia)) as H3.
  pose proof (Z.mod_pos_bound (b / 2 ^ 52) (2 ^ 11) ltac:(lia)) as H4.
  assert (H5 : b / 2 ^ 63 = b / 2 ^ 52 / 2 ^ 11).
  { rewrite Z.div_div by lia. reflexivity. }
  assert (H6 : 0 <= b / 2 ^ 63 < 2).
  { split; [apply Z.div_pos; lia|apply Z.div_lt_upper_bound; lia]. }
  rewrite (Z.mod_small (b / 2 ^ 63) 2) by lia.
  change (2 ^ 63) with (2 ^ 11 * 2 ^ 52) at 2. lia.
Qed.

Lemma split32 b : 0 <= b < 2 ^ 32 ->
  let s := b / 2 ^ 31 mod 2 in let e := b / 2 ^ 23 mod 2 ^ 8 in let f := b mod 2 ^ 23 in
  b = s * 2 ^ 31 + e * 2 ^ 23 + f /\ 0 <= s <= 1 /\ 0 <= e < 2 ^ 8 /\ 0 <= f < 2 ^ 23.
Proof.
  intros Hb s e f. subst s e f.
  pose proof (Z.div_mod b (2 ^ 23) ltac:(lia)) as H1.
  pose proof (Z.mod_pos_bound b (2 ^ 23) ltac:(lia)) as H2.
  pose proof (Z.div_mod (b / 2 ^ 23) (2 ^ 8) ltac:(lia)) as H3.
  pose proof (Z.mod_pos_bound (b / 2 ^ 23) (2 ^ 8) ltac:(lia)) as H4.
  assert (H5 : b / 2 ^ 31 = b / 2 ^ 23 / 2 ^ 8).
  { rewrite Z.div_div by lia. reflexivity. }
  assert (H6 : 0 <= b / 2 ^ 31 < 2).
  { split; [apply Z.div_pos; lia|apply Z.div_lt_upper_bound; lia]. }
  rewrite (Z.mod_small (b / 2 ^ 31) 2) by lia.
  change (2 ^ 31) with (2 ^ 8 * 2 ^ 23) at 2. lia.
Qed.

(* ------------------------------------------------------------------------- *)
(* Part 2: the text                                                           *)
Definition hstep (a c : Z) : Z := a * 16 + digval c.
Definition xdig (c : Z) : Prop := isxdigit c = true.

Lemma read_hex_app ds rest a :
  Forall xdig ds -> isxdigit (hd0 rest) = false ->
  read_digs isxdigit 16 (ds ++ rest) a = (fold_left hstep ds a, rest).
Proof.
  revert a. induction ds as [|d ds IH]; intros a Hd Hr; cbn [app fold_left].
  - now apply read_digs_stop.
  - inversion Hd as [|? ? H1 H2]; subst. cbn [read_digs]. rewrite H1. apply IH; assumption.
Qed.

Lemma fold_hstep_shift ds : forall a,
  fold_left hstep ds a = a * 16 ^ Z.of_nat (length ds) + fold_left hstep ds 0.
Proof.
  induction ds as [|d ds IH]; intros a; cbn [fold_left length].
  - cbn. lia.
  - rewrite (IH (hstep a d)), (IH (hstep 0 d)). unfold hstep.
    rewrite Nat2Z.inj_succ, Z.pow_succ_r by lia. ring.
Qed.

Lemma fold_hstep_app a b x : fold_left hstep (a ++ b) x = fold_left hstep b (fold_left hstep a x).
Proof. apply fold_left_app. Qed.

Lemma fold_hstep_zeros j : forall a, fold_left hstep (repeat 48 j) a = a * 16 ^ Z.of_nat j.
Proof.
  induction j as [|j IH]; intros a; cbn [repeat fold_left].
  - cbn. lia.
  - rewrite IH. unfold hstep. change (digval 48) with 0.
    rewrite Nat2Z.inj_succ, Z.pow_succ_r by lia. ring.
Qed.

Lemma hex_fixed_acc w : forall n acc, hex_fixed w n acc = hex_fixed w n [] ++ acc.
Proof.
  induction w as [|w IH]; intros n acc; cbn [hex_fixed]; [reflexivity|].
  rewrite (IH (n / 16) (hexdig (n mod 16) :: acc)), (IH (n / 16) [hexdig (n mod 16)]).
  rewrite <- app_assoc. reflexivity.
Qed.

Lemma hex_fixed_S w n : hex_fixed (S w) n [] = hex_fixed w (n / 16) [] ++ [hexdig (n mod 16)].
Proof. cbn [hex_fixed]. apply hex_fixed_acc. Qed.

Lemma hex_fixed_len w : forall n, length (hex_fixed w n []) = w.
Proof.
  induction w as [|w IH]; intros n; [reflexivity|].
  rewrite hex_fixed_S, app_length, IH. cbn. lia.
Qed.

Lemma hex_fixed_xdig w : forall n, Forall xdig (hex_fixed w n []).
Proof.
  induction w as [|w IH]; intros n; [constructor|].
  rewrite hex_fixed_S. apply Forall_app. split; [apply IH|].
  constructor; [|constructor]. apply hexdig_facts. apply Z.mod_pos_bound. lia.
Qed.

Lemma hex_fixed_val w : forall n a,
  fold_left hstep (hex_fixed w n []) a = a * 16 ^ Z.of_nat w + n mod 16 ^ Z.of_nat w.
Proof.
  induction w as [|w IH]; intros n a.
  - cbn [hex_fixed fold_left]. change (16 ^ Z.of_nat 0) with 1. rewrite Z.mod_1_r. lia.
  - rewrite hex_fixed_S, fold_hstep_app, IH. cbn [fold_left]. unfold hstep.
    destruct (hexdig_facts (n mod 16)) as (_ & V & _); [apply Z.mod_pos_bound; lia|]. rewrite V.
    rewrite Nat2Z.inj_succ, Z.pow_succ_r by lia.
    assert (Hp : 0 < 16 ^ Z.of_nat w) by (apply Z.pow_pos_nonneg; lia).
    rewrite (Z.rem_mul_r n 16 (16 ^ Z.of_nat w)) by lia. ring.
Qed.

Lemma dropwhile_split f (l : list Z) :
  exists p, l = p ++ dropwhile f l /\ Forall (fun c => f c = true) p.
Proof.
  induction l as [|c l IH]; [exists []; split; [reflexivity|constructor]|].
  cbn [dropwhile]. destruct (f c) eqn:E.
  - destruct IH as (p & Hp & Hf). exists (c :: p). split; [cbn; now f_equal|now constructor].
  - exists []. split; [reflexivity|constructor].
Qed.

Lemma rev_repeat {A} (x : A) n : rev (repeat x n) = repeat x n.
Proof.
  induction n as [|n IH]; [reflexivity|]. cbn [repeat rev]. rewrite IH.
  clear IH. induction n as [|n IH]; [reflexivity|]. cbn [repeat app]. now rewrite IH.
Qed.

Lemma all48_repeat p : Forall (fun c => (c =? 48) = true) p -> p = repeat 48 (length p).
Proof.
  induction 1 as [|c p Hc Hp IH]; [reflexivity|]. cbn [length repeat].
  apply Z.eqb_eq in Hc. subst c. now f_equal.
Qed.

Lemma strip0_spec s : exists j, s = strip0 s ++ repeat 48 j.
Proof.
  unfold strip0. destruct (dropwhile_split (fun c => c =? 48) (rev s)) as (p & Hp & Hf).
  exists (length p). rewrite <- (rev_involutive s) at 1. rewrite Hp at 1.
  rewrite rev_app_distr. f_equal. rewrite (all48_repeat p Hf) at 1. apply rev_repeat.
Qed.

Lemma strip0_sub s P : Forall P s -> Forall P (strip0 s).
Proof.
  intros H. destruct (strip0_spec s) as (j & E). rewrite E in H. now apply Forall_app in H as [H _].
Qed.

(* the fraction digits of %a: F * 16^j = f with k + j = 13 *)
Lemma frac_digits f : 0 <= f < 2 ^ 52 ->
  let frac := strip0 (hex_fixed 13 f []) in
  Forall xdig frac /\ (length frac <= 13)%nat /\
  fold_left hstep frac 0 * 16 ^ (13 - Z.of_nat (length frac)) = f.
Proof.
  intros Hf frac. subst frac. destruct (strip0_spec (hex_fixed 13 f [])) as (j & E).
  pose proof (hex_fixed_len 13 f) as Hl. rewrite E, app_length, repeat_length in Hl.
  split; [apply strip0_sub, hex_fixed_xdig|]. split; [lia|].
  pose proof (hex_fixed_val 13 f 0) as Hv. rewrite E, fold_hstep_app, fold_hstep_zeros in Hv.
  replace (13 - Z.of_nat (length (strip0 (hex_fixed 13 f [])))) with (Z.of_nat j) by lia.
  rewrite Hv. change (16 ^ Z.of_nat 13) with (2 ^ 52). rewrite Z.mod_small by lia. lia.
Qed.

Definition hextext (neg : bool) (lead : Z) (frac : str) (ex : Z) : str :=
  (if neg then [45] else []) ++ [48; 120] ++ [lead] ++
  (match frac with [] => [] | _ => 46 :: frac end) ++ 112 :: print_exp ex.

Lemma fmt_a_text b :
  let e := b / 2 ^ 52 mod 2 ^ 11 in let f := b mod 2 ^ 52 in
  fmt_a b = hextext (f64_sign b) (if e =? 0 then 48 else 49) (strip0 (hex_fixed 13 f []))
                    (if e =? 0 then (if f =? 0 then 0 else -1022) else e - 1023).
Proof.
  intros e f. unfold fmt_a, hextext. fold e. fold f. f_equal. f_equal.
  destruct (e =? 0) eqn:Ee; cbn [andb].
  - destruct (f =? 0) eqn:Ef.
    + apply Z.eqb_eq in Ef. rewrite Ef. reflexivity.
    + reflexivity.
  - reflexivity.
Qed.

Lemma print_exp_parse ex :
  exists n, sc_sign (print_exp ex) = (n, dec_nat (Z.abs ex)) /\ sgn n (Z.abs ex) = ex.
Proof.
  unfold print_exp. destruct (ex <? 0) eqn:E.
  - exists true. split; [reflexivity|]. cbn [sgn]. lia.
  - exists false. split; [reflexivity|]. cbn [sgn]. lia.
Qed.

Lemma dec_nat_read n : 0 <= n -> read_digs isdigit 10 (dec_nat n) 0 = (n, []).
Proof.
  intros Hn. rewrite <- (app_nil_r (dec_nat n)).
  rewrite read_digs_app; [|now apply dec_nat_digits|reflexivity].
  now rewrite dec_nat_val.
Qed.

Lemma parse_hextext neg lead frac ex :
  lead = 48 \/ lead = 49 -> Forall xdig frac ->
  parse_hex (hextext neg lead frac ex)
  = (neg, fold_left hstep frac (lead - 48), ex - 4 * Z.of_nat (length frac)).
Proof.
  intros Hl Hfr. unfold parse_hex, hextext.
  assert (Hs : sc_sign ((if neg then [45] else []) ++ [48; 120] ++ [lead] ++
                (match frac with [] => [] | _ => 46 :: frac end) ++ 112 :: print_exp ex)
               = (neg, [48; 120] ++ [lead] ++
                (match frac with [] => [] | _ => 46 :: frac end) ++ 112 :: print_exp ex)).
  { destruct neg; reflexivity. }
  rewrite Hs. cbn [app skipn].
  assert (Hld : isxdigit lead = true /\ digval lead = lead - 48) by (destruct Hl as [->| ->]; split; reflexivity).
  destruct Hld as [Hx Hv]. cbn [read_digs]. rewrite Hx. change (0 * 16) with 0. cbn [Z.add]. rewrite Hv.
  destruct (print_exp_parse ex) as (n & Hsg & Hval).
  destruct frac as [|c0 fr].
  - cbn [app read_digs]. change (isxdigit 112) with false. cbv iota.
    rewrite hd0_cons. change (112 =? 46) with false. cbv iota.
    change ((112 =? 112) || (112 =? 80)) with true. cbv iota. rewrite Hsg.
    rewrite dec_nat_read by lia. cbn [fst fold_left length]. rewrite Hval. reflexivity.
  - set (frac := c0 :: fr) in *. cbn [app read_digs]. change (isxdigit 46) with false. cbv iota.
    rewrite hd0_cons. change (46 =? 46) with true. cbv iota. cbn [skipn].
    rewrite read_hex_app by (try assumption; reflexivity).
    change ((112 =? 112) || (112 =? 80)) with true. cbv iota. rewrite Hsg.
    rewrite dec_nat_read by lia. cbn [fst]. rewrite Hval. f_equal. f_equal. f_equal.
    rewrite app_length. lia.
Qed.


(* ------------------------------------------------------------------------- *)
(* Part 3: the round trips                                                    *)
Lemma pow16 j : 0 <= j -> 16 ^ j = 2 ^ (4 * j).
Proof. intros. rewrite Z.pow_mul_r by lia. reflexivity. Qed.

Lemma M_normal M k D : 0 <= k <= 13 -> M * 2 ^ (4 * (13 - k)) = D -> 2 ^ 52 <= D < 2 ^ 53 ->
  2 ^ (4 * k) <= M < 2 ^ (4 * k + 1).
Proof.
  intros Hk HM HD. set (P := 2 ^ (4 * (13 - k))) in *.
  assert (HP : 0 < P) by (apply pow2_gt0; lia).
  assert (E1 : 2 ^ 52 = 2 ^ (4 * k) * P).
  { unfold P. rewrite <- Z.pow_add_r by lia. f_equal. lia. }
  assert (E2 : 2 ^ 53 = 2 ^ (4 * k + 1) * P).
  { unfold P. rewrite <- Z.pow_add_r by lia. f_equal. lia. }
  rewrite E1, E2, <- HM in HD. destruct HD as [H1 H2].
  split; [now apply Z.mul_le_mono_pos_r in H1|now apply Z.mul_lt_mono_pos_r in H2].
Qed.

Lemma M_sub M k D : 0 <= k <= 13 -> M * 2 ^ (4 * (13 - k)) = D -> 0 < D < 2 ^ 52 ->
  0 < M < 2 ^ (4 * k).
Proof.
  intros Hk HM HD. set (P := 2 ^ (4 * (13 - k))) in *.
  assert (HP : 0 < P) by (apply pow2_gt0; lia).
  assert (E1 : 2 ^ 52 = 2 ^ (4 * k) * P).
  { unfold P. rewrite <- Z.pow_add_r by lia. f_equal. lia. }
  rewrite E1, <- HM in HD. destruct HD as [H1 H2].
  split; [nia|now apply Z.mul_lt_mono_pos_r in H2].
Qed.

(* what parse_hex makes of fmt_a b: M * 2^(4 (13 - k)) is the significand *)
Lemma fmt_a_parse b : 0 <= b < 2 ^ 64 ->
  let e := b / 2 ^ 52 mod 2 ^ 11 in let f := b mod 2 ^ 52 in
  exists M k, 0 <= k <= 13 /\
    parse_hex (fmt_a b) = (f64_sign b, M,
                           (if e =? 0 then (if f =? 0 then 0 else -1022) else e - 1023) - 4 * k) /\
    M * 2 ^ (4 * (13 - k)) = (if e =? 0 then 0 else 2 ^ 52) + f.
Proof.
  intros Hb e f. destruct (split64 b Hb) as (_ & _ & He & Hf). fold e in He. fold f in Hf.
  destruct (frac_digits f Hf) as (Hx & Hk & HF).
  set (frac := strip0 (hex_fixed 13 f [])) in *.
  exists (fold_left hstep frac ((if e =? 0 then 48 else 49) - 48)), (Z.of_nat (length frac)).
  split; [lia|]. split.
  - rewrite fmt_a_text. fold e. fold f. fold frac. apply parse_hextext; [|assumption].
    destruct (e =? 0); auto.
  - rewrite fold_hstep_shift.
    rewrite pow16 in HF by lia. rewrite Z.mul_add_distr_r, HF.
    destruct (e =? 0); [lia|]. change (49 - 48) with 1. rewrite Z.mul_1_l.
    rewrite pow16, <- Z.pow_add_r by lia. f_equal. f_equal. lia.
Qed.

Theorem f64_roundtrip b : 0 <= b < 2 ^ 64 -> f64_finite b = true -> hex_to_f64 (fmt_a b) = b.
Proof.
  intros Hb Hfin. destruct (split64 b Hb) as (Eb & Hs & He & Hf).
  destruct (fmt_a_parse b Hb) as (M & k & Hk & Hp & HM). cbv zeta in *.
  set (s := b / 2 ^ 63 mod 2) in *. set (e := b / 2 ^ 52 mod 2 ^ 11) in *. set (f := b mod 2 ^ 52) in *.
  unfold f64_finite in Hfin. fold e in Hfin.
  assert (He' : e <> 2047) by (destruct (e =? 2047) eqn:E; [discriminate|lia]).
  unfold hex_to_f64. rewrite Hp. unfold f64_sign. fold s.
  assert (Hsign : (if s =? 1 then 2 ^ (52 + 11) else 0) = s * 2 ^ 63).
  { destruct (s =? 1) eqn:E; [apply Z.eqb_eq in E; rewrite E; reflexivity|]. assert (s = 0) by lia. subst s. lia. }
  destruct (e =? 0) eqn:Ee.
  - apply Z.eqb_eq in Ee. destruct (f =? 0) eqn:Ef.
    + apply Z.eqb_eq in Ef. assert (M = 0).
      { pose proof (pow2_gt0 (4 * (13 - k)) ltac:(lia)). nia. }
      subst M. unfold to_bits. cbn [Z.eqb]. rewrite Hsign. lia.
    + assert (HD : 0 < 0 + f < 2 ^ 52) by lia.
      pose proof (M_sub M k _ Hk HM HD) as HMb.
      pose proof (Z.log2_spec M ltac:(lia)) as HL. pose proof (Z.log2_nonneg M) as HL0.
      assert (HLk : Z.log2 M < 4 * k).
      { apply (Z.pow_lt_mono_r_iff 2); lia. }
      pose proof (to_bits_gen 52 11 (s =? 1) M (-1022 - 4 * k) (Z.log2 M) f (4 * (13 - k)) 0) as H.
      cbv zeta in H. change (2 ^ (11 - 1) - 1) with 1023 in H.
      rewrite Z.max_r in H by lia.
      rewrite H; lia.
  - assert (HD : 2 ^ 52 <= 2 ^ 52 + f < 2 ^ 53) by lia.
    pose proof (M_normal M k _ Hk HM HD) as HMb.
    pose proof (to_bits_gen 52 11 (s =? 1) M (e - 1023 - 4 * k) (4 * k) (2 ^ 52 + f) (4 * (13 - k)) 0) as H.
    cbv zeta in H. change (2 ^ (11 - 1) - 1) with 1023 in H.
    rewrite Z.max_l in H by lia.
    rewrite H; lia.
Qed.

(* the double a float is promoted to, by fields *)
Lemma f32_to_f64_fields b : 0 <= b < 2 ^ 32 -> f32_finite b = true ->
  let s := b / 2 ^ 31 mod 2 in let e := b / 2 ^ 23 mod 2 ^ 8 in let f := b mod 2 ^ 23 in
  exists E Fd, f32_to_f64 b = s * 2 ^ 63 + E * 2 ^ 52 + Fd /\ 0 <= E < 2 ^ 11 /\ 0 <= Fd < 2 ^ 52 /\
    ((e = 0 /\ f = 0 /\ E = 0 /\ Fd = 0) \/
     (e = 0 /\ f <> 0 /\ E = Z.log2 f + 874 /\ 0 <= Z.log2 f <= 22 /\ 2 ^ 52 + Fd = f * 2 ^ (52 - Z.log2 f)) \/
     (e <> 0 /\ E = e + 896 /\ Fd = f * 2 ^ 29)).
Proof.
  intros Hb Hfin s e f. destruct (split32 b Hb) as (_ & Hs & He & Hf). fold s in Hs. fold e in He. fold f in Hf.
  unfold f32_finite in Hfin. fold e in Hfin.
  assert (He' : e <> 255) by (destruct (e =? 255) eqn:E; [discriminate|lia]).
  unfold f32_to_f64. fold s. fold e. fold f.
  destruct (e =? 0) eqn:Ee.
  - apply Z.eqb_eq in Ee. destruct (f =? 0) eqn:Ef.
    + apply Z.eqb_eq in Ef. exists 0, 0. split; [lia|]. split; [lia|]. split; [lia|]. left. tauto.
    + assert (Hf0 : 0 < f) by lia.
      pose proof (Z.log2_spec f Hf0) as HL. pose proof (Z.log2_nonneg f) as HL0.
      assert (HL22 : Z.log2 f < 23) by (apply (Z.pow_lt_mono_r_iff 2); lia).
      set (k := Z.log2 f) in *.
      assert (EP : 2 ^ 52 = 2 ^ k * 2 ^ (52 - k)) by (rewrite <- Z.pow_add_r by lia; f_equal; lia).
      assert (EP1 : 2 ^ 53 = 2 ^ (k + 1) * 2 ^ (52 - k)) by (rewrite <- Z.pow_add_r by lia; f_equal; lia).
      pose proof (pow2_gt0 (52 - k) ltac:(lia)) as HP.
      exists (k + 874), (f * 2 ^ (52 - k) - 2 ^ 52).
      split; [lia|]. split; [lia|]. split; [nia|].
      right. left. repeat split; try lia.
  - replace (e =? 255) with false by lia.
    exists (e + 896), (f * 2 ^ 29). split; [lia|].
    split; [lia|]. split; [lia|]. right. right. repeat split; lia.
Qed.

Theorem f32_roundtrip b : 0 <= b < 2 ^ 32 -> f32_finite b = true ->
  hex_to_f32 (fmt_a (f32_to_f64 b)) = b.
Proof.
  intros Hb Hfin. destruct (split32 b Hb) as (Eb & Hs & He & Hf).
  destruct (f32_to_f64_fields b Hb Hfin) as (E & Fd & Ed & HE & HFd & Hcase). cbv zeta in *.
  set (s := b / 2 ^ 31 mod 2) in *. set (e := b / 2 ^ 23 mod 2 ^ 8) in *. set (f := b mod 2 ^ 23) in *.
  unfold f32_finite in Hfin. fold e in Hfin.
  assert (He' : e <> 255) by (destruct (e =? 255) eqn:E1; [discriminate|lia]).
  destruct (fields64 s E Fd Hs HE HFd) as (F1 & F2 & F3). cbv zeta in *. rewrite <- Ed in *.
  set (d := f32_to_f64 b) in *.
  assert (Hd : 0 <= d < 2 ^ 64) by lia.
  destruct (fmt_a_parse d Hd) as (M & k & Hk & Hp & HM). cbv zeta in *.
  rewrite F2, F3 in *. unfold hex_to_f32. rewrite Hp. unfold f64_sign. rewrite F1.
  assert (Hsign : (if s =? 1 then 2 ^ (23 + 8) else 0) = s * 2 ^ 31).
  { destruct (s =? 1) eqn:E1; [apply Z.eqb_eq in E1; rewrite E1; reflexivity|]. assert (s = 0) by lia. subst s. lia. }
  destruct Hcase as [(H1 & H2 & H3 & H4)|[(H1 & H2 & H3 & H4 & H5)|(H1 & H2 & H3)]].
  - subst E Fd. cbn [Z.eqb] in *. assert (M = 0).
    { pose proof (pow2_gt0 (4 * (13 - k)) ltac:(lia)). nia. }
    subst M. unfold to_bits. cbn [Z.eqb]. rewrite Hsign. lia.
  - replace (E =? 0) with false in * by lia.
    assert (HD : 2 ^ 52 <= 2 ^ 52 + Fd < 2 ^ 53) by lia.
    pose proof (M_normal M k _ Hk HM HD) as HMb.
    pose proof (to_bits_gen 23 8 (s =? 1) M (E - 1023 - 4 * k) (4 * k) f (4 * (13 - k)) (52 - Z.log2 f)) as H.
    cbv zeta in H. change (2 ^ (8 - 1) - 1) with 127 in H.
    rewrite Z.max_r in H by lia.
    rewrite H; lia.
  - replace (E =? 0) with false in * by lia.
    assert (HD : 2 ^ 52 <= 2 ^ 52 + Fd < 2 ^ 53) by lia.
    pose proof (M_normal M k _ Hk HM HD) as HMb.
    pose proof (to_bits_gen 23 8 (s =? 1) M (E - 1023 - 4 * k) (4 * k) (2 ^ 23 + f) (4 * (13 - k)) 29) as H.
    cbv zeta in H. change (2 ^ (8 - 1) - 1) with 127 in H.
    rewrite Z.max_l in H by lia.
    rewrite H; lia.
Qed.
