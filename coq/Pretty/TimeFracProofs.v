(* C10 - time tags at the level of the text, with a fraction: in lossless mode the
   scanner's date branch reads the printed text of EVERY time tag whose fraction
   fits a float ("YYYY-MM-DD hh:mm:ss.dd (...+0x1.8p-3s)") back to exactly that
   time tag and stops behind it.  The decimal digits are skipped, the value is
   taken from the hexadecimal float (exact: f32_roundtrip, secfracs_roundtrip). *)
From Coq Require Import List ZArith Bool Lia ZifyBool.
From RtoscV Require Import Pretty.Tok Pretty.FloatFmt Pretty.TimeFmt Pretty.PrintModel Pretty.ScanModel
  Pretty.PrettyProofs Pretty.FloatProofs Pretty.TimeProofs .
From RtoscV Require Import Pretty.TimeTokProofs.
Import ListNotations.
Local Open Scope Z_scope.

(* ---- a hexadecimal float followed by a character that is no digit ---------- *)
Section HexFollow.
Variables (neg : bool) (lead : Z) (frac : str) (ex : Z).
Hypothesis Hl : lead = 48 \/ lead = 49.
Hypothesis Hfr : Forall xdig frac.

Lemma hex_sc_f_follow c rest : isdigit c = false ->
  sc_f (hextext neg lead frac ex ++ c :: rest) = Some (true, hextext neg lead frac ex, c :: rest).
Proof.
  intros Hc. unfold sc_f. rewrite hex_ws, hex_sign. rewrite hd0_cons.
  replace ((48 =? 48) && ((at_ (48 :: 120 :: lead :: hextail frac ex (c :: rest)) 1 =? 120)
                         || (at_ (48 :: 120 :: lead :: hextail frac ex (c :: rest)) 1 =? 88))) with true by reflexivity.
  cbv iota. cbn [skipn].
  destruct (lead_facts lead Hl) as (Hx & _).
  assert (Htl : isxdigit (hd0 (hextail frac ex (c :: rest))) = false)
    by (destruct (hextail_hd frac ex Hfr (c :: rest)) as [-> | ->]; reflexivity).
  change (lead :: hextail frac ex (c :: rest)) with ([lead] ++ hextail frac ex (c :: rest)).
  rewrite takewhile_app, dropwhile_app by (try assumption; repeat constructor; assumption).
  destruct (print_exp_shape ex) as (sgc & Ee & Hsgc).
  assert (Hexp : opt_exp 112 80 (112 :: print_exp ex ++ c :: rest) = Some (c :: rest)).
  { unfold opt_exp. change ((112 =? 112) || (112 =? 80)) with true. cbv iota.
    rewrite Ee. cbn [app].
    assert (Hs : sc_sign (sgc :: dec_nat (Z.abs ex) ++ c :: rest) = (negb (sgc =? 43), dec_nat (Z.abs ex) ++ c :: rest))
      by (destruct Hsgc as [->| ->]; reflexivity).
    rewrite Hs.
    destruct (dec_nat_nonempty (Z.abs ex) ltac:(lia)) as (c1 & tl & E & Hc1). rewrite E at 1. cbn [app].
    rewrite hd0_cons, Hc1. f_equal. apply dropwhile_app; [apply dec_nat_digits; lia|now rewrite hd0_cons]. }
  unfold hextail. unfold dotfrac. destruct frac as [|c0 fr] eqn:Ef.
  - cbn [app]. rewrite hd0_cons. change (112 =? 46) with false. cbv iota. cbn [length Nat.add Nat.eqb].
    rewrite Hexp. f_equal. f_equal. f_equal. rewrite <- Ef. apply firstn_app_exact.
  - cbn [app]. rewrite hd0_cons. change (46 =? 46) with true. cbv iota. cbn [skipn].
    change (c0 :: fr ++ 112 :: print_exp ex ++ c :: rest) with ((c0 :: fr) ++ 112 :: print_exp ex ++ c :: rest).
    rewrite takewhile_app, dropwhile_app by (try assumption; reflexivity).
    cbn [length Nat.add Nat.eqb]. rewrite Hexp. f_equal. f_equal. f_equal. rewrite <- Ef. apply firstn_app_exact.
Qed.
End HexFollow.

Lemma fmt_a_reads_follow d c rest : isdigit c = false ->
  skip_ws (fmt_a d ++ c :: rest) = fmt_a d ++ c :: rest /\
  sc_f (fmt_a d ++ c :: rest) = Some (true, fmt_a d, c :: rest).
Proof.
  intros Hc. pose proof (fmt_a_text d) as E. cbv zeta in E. rewrite E.
  set (e := d / 2 ^ 52 mod 2 ^ 11). set (f := d mod 2 ^ 52).
  assert (Hf : 0 <= f < 2 ^ 52) by (apply Z.mod_pos_bound; lia).
  destruct (frac_digits f Hf) as (Hx & _ & _).
  assert (Hl : (if e =? 0 then 48 else 49) = 48 \/ (if e =? 0 then 48 else 49) = 49) by (destruct (e =? 0); auto).
  split; [now apply hex_ws|now apply hex_sc_f_follow].
Qed.

(* ---- ".dd" followed by a blank -------------------------------------------- *)
Lemma sc_f_dotfrac fr X : Forall dig fr -> fr <> [] ->
  sc_f (46 :: fr ++ 32 :: X) = Some (false, 46 :: fr, 32 :: X).
Proof.
  intros Hfr Hne. unfold sc_f. rewrite skip_ws_nonspace by reflexivity.
  rewrite sc_sign_other by lia. rewrite hd0_cons. change (46 =? 48) with false. cbn [andb]. cbv iota.
  cbn [takewhile dropwhile]. change (isdigit 46) with false. cbv iota.
  rewrite hd0_cons. change (46 =? 46) with true. cbv iota. cbn [skipn].
  rewrite takewhile_app, dropwhile_app by (assumption || reflexivity).
  assert (Hlen : Nat.eqb (length (@nil Z) + length fr) 0 = false)
    by (apply Nat.eqb_neq; destruct fr; [contradiction|cbn [length]; lia]).
  rewrite Hlen. unfold opt_exp. change ((32 =? 101) || (32 =? 69)) with false. cbv iota.
  f_equal. f_equal. f_equal.
  change (46 :: fr ++ 32 :: X) with ((46 :: fr) ++ 32 :: X). apply firstn_app_exact.
Qed.

(* ---- the digits behind the point of "%.<p>f" -------------------------------- *)
Lemma dec_fixed_len w : forall n, length (dec_fixed w n []) = w.
Proof.
  induction w as [|w IH]; intros n; [reflexivity|]. cbn [dec_fixed]. rewrite dec_fixed_acc, app_length, IH.
  cbn [length]. lia.
Qed.

Lemma fmt_f_frac p b : 1 <= p -> exists fr,
  dropwhile (fun c => negb (c =? 46)) (fmt_f p b) = 46 :: fr /\ Forall dig fr /\ fr <> [].
Proof.
  intros Hp. unfold fmt_f, f64_mx.
  set (e := b / 2 ^ 52 mod 2 ^ 11). set (f := b mod 2 ^ 52).
  assert (Hf : 0 <= f) by (apply Z.mod_pos_bound; lia).
  assert (H10 : 0 <= 10 ^ p) by (apply Z.pow_nonneg; lia).
  assert (Hgen : forall m x, 0 <= m ->
     exists fr,
       dropwhile (fun c => negb (c =? 46))
       (let scaled := m * 10 ^ p in
        let n := if 0 <=? x then scaled * 2 ^ x else round_half_even scaled (2 ^ (- x)) in
        (if f64_sign b then [45] else []) ++ dec_nat (n / 10 ^ p) ++ 46 :: dec_fixed (Z.to_nat p) (n mod 10 ^ p) [])
       = 46 :: fr /\ Forall dig fr /\ fr <> []).
  { intros m x Hm. cbv zeta.
    set (n := if 0 <=? x then m * 10 ^ p * 2 ^ x else round_half_even (m * 10 ^ p) (2 ^ (- x))).
    assert (Hn : 0 <= n).
    { unfold n. destruct (0 <=? x) eqn:Ex.
      - pose proof (pow2_gt0 x ltac:(lia)). nia.
      - apply round_nonneg; [nia|apply pow2_gt0; lia]. }
    assert (Hn1 : 0 <= n / 10 ^ p)
      by (destruct (Z.eq_dec (10 ^ p) 0) as [E0|E0]; [rewrite E0, Zdiv_0_r; lia|apply Z.div_pos; lia]).
    exists (dec_fixed (Z.to_nat p) (n mod 10 ^ p) []).
    split; [|split; [apply dec_fixed_digits|]].
    - rewrite app_assoc. apply dropwhile_app; [|reflexivity].
      apply Forall_app. split.
      + destruct (f64_sign b); repeat constructor.
      + pose proof (dec_nat_digits (n / 10 ^ p) Hn1) as Hd. rewrite Forall_forall in *. intros c Hc.
        specialize (Hd c Hc). apply isdigit_spec in Hd. lia.
    - intros E. pose proof (dec_fixed_len (Z.to_nat p) (n mod 10 ^ p)) as L. rewrite E in L. cbn [length] in L. lia. }
  destruct (e =? 0); apply Hgen; lia.
Qed.

(* ---- the float of a fraction ------------------------------------------------ *)
Ltac Zify.zify_post_hook ::= Z.div_mod_to_equations.
Lemma secfracs2float_finite sf : frac_fits_float sf ->
  0 <= secfracs2float sf < 2 ^ 32 /\ f32_finite (secfracs2float sf) = true.
Proof.
  intros Hfit. destruct (secfracs2float_bits sf Hfit) as (q & Hq & _ & HL & ->).
  set (L := Z.log2 sf) in *. unfold f32_finite. split; [lia|].
  replace (((L + 95) * 2 ^ 23 + (q - 2 ^ 23)) / 2 ^ 23 mod 2 ^ 8) with (L + 95) by lia.
  apply negb_true_iff. apply Z.eqb_neq. lia.
Qed.
Ltac Zify.zify_post_hook ::= idtac.

(* ---- THE TOKEN ---------------------------------------------------------------- *)
Theorem timetag_token_fraction (dec2f : list Z -> Z) o secs sf rest :
  lossless o = true -> 0 <= secs < 2 ^ 32 -> frac_fits_float sf -> secs * 2 ^ 32 + sf <> 1 ->
  scan_date dec2f (print_timetag o (secs * 2 ^ 32 + sf) ++ rest) = Ok ([VTm (secs * 2 ^ 32 + sf)], rest).
Proof.
  intros Hlo Hs Hfit Hne1.
  assert (Hsf : 0 < sf < 2 ^ 32).
  { destruct Hfit as (m & j & E & Hm & Hj & Hlt). pose proof (pow2_gt0 j Hj). nia. }
  unfold print_timetag.
  replace (secs * 2 ^ 32 + sf =? 1) with false by (symmetry; now apply Z.eqb_neq).
  replace ((secs * 2 ^ 32 + sf) / 2 ^ 32) with secs
    by (rewrite Z.add_comm, Z.div_add by lia; rewrite Z.div_small by lia; reflexivity).
  replace ((secs * 2 ^ 32 + sf) mod 2 ^ 32) with sf
    by (rewrite Z.add_comm, Z.mod_add by lia; rewrite Z.mod_small by lia; reflexivity).
  pose proof (calendar_roundtrip secs Hs) as Hc.
  destruct (date_of_secs secs) as [[[[[y mo] d] h] mi] se].
  destruct Hc as (Esecs & Hy & Hmo & Hd & Hh & Hmi & Hse).
  replace (sf =? 0) with false by (symmetry; apply Z.eqb_neq; lia). cbn [negb orb]. cbv iota.
  rewrite Hlo.
  set (flt := f32_to_f64 (secfracs2float sf)).
  destruct (fmt_f_frac (Z.max (prec o) 1) flt ltac:(lia)) as (fr & -> & Hfr & Hfrne).
  destruct (secfracs2float_finite sf Hfit) as (Hb & Hfin).
  destruct (fmt_a_reads_follow flt 115 (41 :: rest) eq_refl) as (Hws & Hscf).
  unfold scan_date. norm_app.
  rewrite run_date_head by lia. cbv beta iota.
  rewrite run_clock by lia. cbv beta iota.
  rewrite run_seconds by lia. cbv beta iota.
  rewrite hd0_cons. change (46 =? 46) with true. cbv iota.
  rewrite sc_f_dotfrac by assumption.
  cbn [run_fmt]. unfold skip_ws at 1. cbn [dropwhile]. change (isspace 32) with true. change (isspace 40) with false. cbv iota.
  rewrite lit_eq. cbv beta iota.
  rewrite (skip_ws_nonspace (46 :: _)) by reflexivity. rewrite !lit_eq.
  rewrite (skip_ws_nonspace (43 :: _)) by reflexivity. rewrite lit_eq.
  rewrite Hws. cbv beta iota. rewrite Hscf.
  rewrite (skip_ws_nonspace (115 :: _)) by reflexivity. rewrite lit_eq.
  rewrite (skip_ws_nonspace (41 :: _)) by reflexivity. rewrite lit_eq. cbv beta iota.
  unfold flt_val. unfold flt. rewrite f32_roundtrip by assumption.
  rewrite secfracs_roundtrip by assumption. cbv beta iota.
  rewrite Esecs. rewrite !Z.mod_small by lia. reflexivity.
Qed.

(* the hypotheses are met: half a second past 2016-11-14 17:26:30 *)
Example timetag_token_fraction_nonvacuous :
  frac_fits_float (2 ^ 31) /\ 0 <= 1479144390 < 2 ^ 32 /\ 1479144390 * 2 ^ 32 + 2 ^ 31 <> 1.
Proof. split; [exists 1, 31; lia|lia]. Qed.
