(* Witness of the finding float-range-inexact-step (C11): a range over floats
   whose step is not exact in the format does not survive scan - print - scan.
   fri_text is "0.1 0.2 ... 0.5" with the exact values spelt out (no decimal
   oracle needed); fri_reprint is what rtosc_print_arg_vals (lossless, compress)
   writes for the slots of the first scan - the printing of range slots is not
   in the model, the text is the P2= field of the harness on the corpus line
   corpus/C11/float-range-inexact.txt. *)
From Coq Require Import List ZArith.
From RtoscV Require Import Pretty.Tok Pretty.PrintModel Pretty.ScanModel Pretty.FloatArith.
Import ListNotations.
Local Open Scope Z_scope.

Definition fri_no_oracle (_ : list Z) : Z := 0.
(* 0.10 (0x1.99999ap-4) 0.20 (0x1.99999ap-3) ... 0.50 (0x1p-1) *)
Definition fri_text : list Z := [48; 46; 49; 48; 32; 40; 48; 120; 49; 46; 57; 57; 57; 57; 57; 97; 112; 45; 52; 41; 32; 48; 46; 50; 48; 32; 40; 48; 120; 49; 46; 57; 57; 57; 57; 57; 97; 112; 45; 51; 41; 32; 46; 46; 46; 32; 48; 46; 53; 48; 32; 40; 48; 120; 49; 112; 45; 49; 41].
(* 0.10 (0x1.99999ap-4) 0.20 (0x1.99999ap-3) 0.30 (0x1.333334p-2) ... 0.50 (0x1p-1) *)
Definition fri_reprint : list Z := [48; 46; 49; 48; 32; 40; 48; 120; 49; 46; 57; 57; 57; 57; 57; 97; 112; 45; 52; 41; 32; 48; 46; 50; 48; 32; 40; 48; 120; 49; 46; 57; 57; 57; 57; 57; 97; 112; 45; 51; 41; 32; 48; 46; 51; 48; 32; 40; 48; 120; 49; 46; 51; 51; 51; 51; 51; 52; 112; 45; 50; 41; 32; 46; 46; 46; 32; 48; 46; 53; 48; 32; 40; 48; 120; 49; 112; 45; 49; 41].
Definition fri_first : list av := [VFl 1036831949; VRep 4 1; VFl 1036831949; VFl 1045220557].
Definition fri_second : list av := [VFl 1036831949; VFl 1045220557; VRep 3 1; VFl 1036831950; VFl 1050253722].

Lemma float_range_inexact :
  scan_arg_vals fri_no_oracle fri_no_oracle fri_text 4 = Ok (fri_first, []) /\
  scan_arg_vals fri_no_oracle fri_no_oracle fri_reprint 4 = Ok (fri_second, []) /\
  (* the element 0.4 of the sentence: third of the first range, second of the range read back *)
  range_arg_x (VFl 1036831949) (VFl 1045220557) 2 = Some (VFl 1053609165) /\
  range_arg_x (VFl 1036831950) (VFl 1050253722) 1 = Some (VFl 1053609166).
Proof. vm_compute. repeat split; reflexivity. Qed.
