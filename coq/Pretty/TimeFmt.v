(* C10 - time tags: the calendar of TZ=UTC and the conversions between the
   32-bit fraction of a second and a float.  Model definitions only. *)
From Coq Require Import List ZArith Bool.
From RtoscV Require Import Pretty.Tok Pretty.FloatFmt.
Import ListNotations.
Local Open Scope Z_scope.

(* the calendar of TZ=UTC: what localtime() and mktime() of libc compute there
   (proleptic Gregorian calendar, days since 1970-01-01; the harness sets TZ=UTC
   and every run compares these functions with libc through the printed and
   the scanned time tags) *)
Definition days_from_civil (y m d : Z) : Z :=
  let y' := if m <=? 2 then y - 1 else y in
  let era := y' / 400 in
  let yoe := y' - era * 400 in
  let doy := (153 * (if 2 <? m then m - 3 else m + 9) + 2) / 5 + d - 1 in
  let doe := yoe * 365 + yoe / 4 - yoe / 100 + doy in
  era * 146097 + doe - 719468.
Definition civil_from_days (z0 : Z) : Z * Z * Z :=
  let z := z0 + 719468 in
  let era := z / 146097 in
  let doe := z - era * 146097 in
  let yoe := (doe - doe / 1460 + doe / 36524 - doe / 146096) / 365 in
  let doy := doe - (365 * yoe + yoe / 4 - yoe / 100) in
  let mp := (5 * doy + 2) / 153 in
  let d := doy - (153 * mp + 2) / 5 + 1 in
  let m := if mp <? 10 then mp + 3 else mp - 9 in
  ((if m <=? 2 then yoe + era * 400 + 1 else yoe + era * 400), m, d).
(* localtime: (year, month 1..12, day, hour, minute, second) *)
Definition date_of_secs (s : Z) : Z * Z * Z * Z * Z * Z :=
  let '(y, m, d) := civil_from_days (s / 86400) in
  let r := s mod 86400 in
  (y, m, d, r / 3600, r / 60 mod 60, r mod 60).
(* mktime *)
Definition secs_of_date (y mo d h mi se : Z) : Z :=
  days_from_civil y mo d * 86400 + h * 3600 + mi * 60 + se.

(* "%02d" *)
Definition d2 (n : Z) : str := [48 + n / 10 mod 10; 48 + n mod 10].

(* rtosc_secfracs2float: sscanf("0x<secfracs>p-32", "%f"): the float nearest to
   secfracs * 2^-32 *)
Definition secfracs2float (sf : Z) : Z := to_bits 23 8 false sf (-32).

(* rtosc_float2secfracs on the bits of a float: the digits of printf("%a"), the
   point removed, shifted by 32 - exponent - 4 * (digits behind the point).
   Some 0 for 0.0 and for the exponent "+0" (1.0 <= x < 2.0); None where the
   code's sscanf("...p-%i") does not match (x >= 2.0) *)
Definition float2secfracs (b : Z) : option Z :=
  let d := f32_to_f64 b in
  let e := d / 2 ^ 52 mod 2 ^ 11 in
  let f := d mod 2 ^ 52 in
  if (e =? 0) && (f =? 0) then Some 0 else
  let ex := if e =? 0 then -1022 else e - 1023 in
  if ex =? 0 then Some 0 else if 0 <? ex then None else
  let frac := strip0 (hex_fixed 13 f []) in
  let M := fst (read_digs isxdigit 16 ((if e =? 0 then 48 else 49) :: frac) 0) in
  let lshift := 32 + ex - 4 * Z.of_nat (length frac) in
  Some (if 0 <=? lshift then M * 2 ^ lshift else M / 2 ^ (- lshift)).

