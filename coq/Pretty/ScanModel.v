(* C10/C11 - model of the two recognisers of the text syntax
   (src/cpp/pretty-format.c:773-2012): the syntax checker
   rtosc_skip_next_printed_arg / rtosc_count_printed_arg_vals and the scanner
   rtosc_scan_arg_val / rtosc_scan_arg_vals, written as two separate
   functions, branch for branch.  A pointer into the text is the suffix that
   starts there; functions return the suffix where the code's pointer ends
   (bytes read = length before - length after).

   Results: Ok x | Null (the code returns NULL / a negative count) |
   Unmod (the code would read or write outside its buffers, loop, or take a
   path this model does not cover) | NoFuel.  No proofs in this file. *)
From Coq Require Import List ZArith Bool.
From RtoscV Require Import Pretty.Tok Pretty.FloatFmt Pretty.FloatArith Pretty.TimeFmt.
Import ListNotations.
Local Open Scope Z_scope.

Inductive R (A : Type) := Ok (a : A) | Null | Unmod | NoFuel.
Arguments Ok {A} a. Arguments Null {A}. Arguments Unmod {A}. Arguments NoFuel {A}.

(* ---- a small sscanf: the directives the code's format strings use -------- *)
Inductive dir :=
| DLit (c : Z)          (* an ordinary character *)
| DWs                   (* white space in the format: any amount, also none *)
| Dd | Di | Dx          (* %d %i %x (stored or suppressed alike) *)
| Ddw (w : nat)         (* %<w>d *)
| Dxw (w : nat)         (* %<w>x *)
| DNotNl.               (* %[^\n] : at least one character *)

Definition lits (s : str) : list dir := map DLit s.

(* Some (values converted, rest) when the whole format matched (so a final
   %n is reached), None otherwise *)
Fixpoint run_fmt (f : list dir) (s : str) (vals : list Z) : option (list Z * str) :=
  match f with
  | [] => Some (rev vals, s)
  | d :: f' =>
      match d with
      | DLit c => match lit c s with Some r => run_fmt f' r vals | None => None end
      | DWs => run_fmt f' (skip_ws s) vals
      | Dd => match sc_d s with Some (v, r) => run_fmt f' r (v :: vals) | None => None end
      | Di => match sc_i s with Some (v, r) => run_fmt f' r (v :: vals) | None => None end
      | Dx => match sc_x s with Some (v, r) => run_fmt f' r (v :: vals) | None => None end
      | Ddw w => match sc_d_w w s with Some (v, r) => run_fmt f' r (v :: vals) | None => None end
      | Dxw w => match sc_x_w w s with Some (v, r) => run_fmt f' r (v :: vals) | None => None end
      | DNotNl => match s with
                  | c :: _ => if c =? 10 then None
                              else run_fmt f' (dropwhile (fun c => negb (c =? 10)) s) vals
                  | [] => None
                  end
      end
  end.

(* skip_fmt: the position after the match, or the same position *)
Definition skip_fmt (f : list dir) (s : str) : str :=
  match run_fmt f s [] with Some (_, r) => r | None => s end.
(* skip_fmt_null *)
Definition skip_fmt_null (f : list dir) (s : str) : option str :=
  match run_fmt f s [] with
  | Some (_, r) => if Nat.eqb (length r) (length s) then None else Some r
  | None => None
  end.

Definition fmt_comment_ws : list dir := [DNotNl; DWs].            (* "%*[^\n] %n" *)
Definition fmt_comment : list dir := [DNotNl].                    (* "%*[^\n]%n" *)
Definition fmt_midi : list dir :=                                  (* "MIDI [ 0x%x 0x%x 0x%x 0x%x ]%n" *)
  lits kw_MIDI ++ [DWs; DLit 91; DWs; DLit 48; DLit 120; Dx; DWs; DLit 48; DLit 120; Dx; DWs;
                   DLit 48; DLit 120; Dx; DWs; DLit 48; DLit 120; Dx; DWs; DLit 93].
Definition fmt_blob_open : list dir := lits kw_BLOB ++ [DWs; DLit 91; DWs].   (* "BLOB [ %n" *)
Definition fmt_blob_size : list dir := [Di; DWs].                  (* "%i %n" *)
Definition fmt_blob_byte : list dir := [DLit 48; DLit 120; Dx; DWs].  (* "0x%x %n" *)
Definition fmt_date : list dir :=                                  (* "%*4d-%*1d%*1d-%*1d%*1d%n" *)
  [Ddw 4; DLit 45; Ddw 1; Ddw 1; DLit 45; Ddw 1; Ddw 1].
Definition fmt_close_paren : list dir := [DWs; DLit 41].           (* " )%n" *)

(* ---- is_range_multiplier -------------------------------------------------- *)
Definition is_range_multiplier (s : str) : bool :=
  match s with
  | c :: r => isdigit c && negb (c =? 48) && (hd0 (dropwhile isdigit r) =? 120)
  | [] => false
  end.

(* ---- numeric literals: scanf_fmtstr ---------------------------------------- *)
(* end of the literal: string end, white space, ')' , ']' or "..." *)
Fixpoint tok_end (s : str) : str :=
  match s with
  | [] => []
  | c :: r => if isspace c || (c =? 41) || (c =? 93) || starts_with ellipsis s then s else tok_end r
  end.

Inductive numfmt := F_h | F_d | F_ii | F_x | F_lfd | F_ff | F_f.

Definition same_pos (a b : str) : bool := Nat.eqb (length a) (length b).

Definition after_flt (s : str) : option str :=
  match sc_f s with Some (_, _, r) => Some r | None => None end.
Definition bind_lit (c : Z) (o : option str) : option str :=
  match o with Some r => lit c r | None => None end.
Definition after_int (c : option (Z * str)) : option str :=
  match c with Some (_, r) => Some r | None => None end.

Definition scanf_fmtstr (s : str) : option numfmt :=
  let e := tok_end s in
  let hit (o : option str) := match o with Some r => same_pos r e | None => false end in
  if hit (bind_lit 104 (after_int (sc_i s))) then Some F_h
  else if hit (after_int (sc_d s)) then Some F_d
  else if hit (bind_lit 105 (after_int (sc_i s))) then Some F_ii
  else if hit (after_int (sc_i s)) then Some F_x
  else if hit (bind_lit 100 (after_flt s)) then Some F_lfd
  else if hit (bind_lit 102 (after_flt s)) then Some F_ff
  else if hit (after_flt s) then Some F_f
  else None.

Definition numfmt_type (f : numfmt) : Z :=
  match f with F_h => 104 | F_d | F_ii | F_x => 105 | F_lfd => 100 | F_ff | F_f => 102 end.

(* skip_numeric: Some (type, rest) , None = 0 bytes.  The format is run
   again; "%*i%n" has been replaced by "%*x%n" *)
Definition skip_numeric (s : str) : option (Z * str) :=
  match scanf_fmtstr s with
  | Some F_x => match sc_x s with Some (_, r) => Some (105, r) | None => None end
  | Some f => Some (numfmt_type f, tok_end s)
  | None => None
  end.

(* ---- strings ---------------------------------------------------------------- *)
Inductive sst := SIn (escaped : bool) | SCont.

(* end_of_printed_string, entered after the opening quote *)
Fixpoint eops (s : str) (st : sst) : R str :=
  match s with
  | [] => match st with SIn _ => Null | SCont => Unmod end
  | c :: r =>
      match st with
      | SIn true => if get_escaped_char c false =? 0 then Null else eops r (SIn false)
      | SIn false =>
          if c =? 34
          then match r with
               | b :: r2 => if b =? 92 then eops r2 SCont   (* quote, backslash, white space, quote *)
                            else Ok r
               | [] => Ok r
               end
          else eops r (SIn (c =? 92))
      | SCont => if isspace c then eops r SCont
                 else if c =? 34 then eops r (SIn false) else Unmod
      end
  end.

(* the scanner's string loop: (characters, rest after the closing quote) *)
Fixpoint scan_str (s : str) (cont : bool) (acc : str) : R (str * str) :=
  match s with
  | [] => Unmod
  | c :: r =>
      if cont
      then (if isspace c then scan_str r true acc
            else if c =? 34 then scan_str r false acc else Unmod)
      else if c =? 34
      then match r with
           | b :: r2 => if b =? 92 then scan_str r2 true acc else Ok (rev acc, r)
           | [] => Ok (rev acc, r)
           end
      else if c =? 92
      then match r with
           | e :: r' => scan_str r' false (get_escaped_char e false :: acc)
           | [] => Unmod
           end
      else scan_str r false (c :: acc)
  end.
Definition cstr_of (s : str) : str := takewhile (fun c => negb (c =? 0)) s.

(* parse_identifier: None = not an identifier (arg untouched) *)
Definition parse_identifier (s : str) : option (av * str) :=
  if isidstart (hd0 s) then Some (VSym (takewhile isidchar s), dropwhile isidchar s) else None.

Inductive fc := FC_kw | FC_hash | FC_quote | FC_dq | FC_M | FC_lb | FC_B | FC_other.
Definition first_class (c : Z) : fc :=
  if (c =? 116) || (c =? 102) || (c =? 110) || (c =? 105) then FC_kw
  else if c =? 35 then FC_hash else if c =? 39 then FC_quote else if c =? 34 then FC_dq
  else if c =? 77 then FC_M else if c =? 91 then FC_lb else if c =? 66 then FC_B else FC_other.

Definition is_midi_start (s : str) : bool :=
  starts_with kw_MIDI s && (isspace (at_ s 4) || (at_ s 4 =? 91)).

Definition ty_S := 83. Definition ty_s := 115.
Definition hd_type_s (l : list av) : Z := match l with v :: _ => av_type v | [] => 0 end.

Definition ret_ident (s : str) : R (str * Z * Z) :=
  match skip_identifier s with Some r => Ok (r, 1, ty_S) | None => Null end.

Section Recognisers.
(* oracles: the value sscanf gives a *decimal* floating point literal, as a
   float / a double bit pattern (no property of them is used) *)
Variable dec2f : str -> Z.
Variable dec2d : str -> Z.
Definition flt_val (hx : bool) (t : str) : Z := if hx then hex_to_f32 t else dec2f t.
Definition dbl_val (hx : bool) (t : str) : Z := if hx then hex_to_f64 t else dec2d t.

(* blob bytes of the checker: while( *src == '0') "0x%*x %n", blobsize-- *)
Fixpoint skip_blob_bytes (fuel : nat) (s : str) (size : Z) : option (str * Z) :=
  match fuel with
  | O => None
  | S f => if hd0 s =? 48
           then match skip_fmt_null fmt_blob_byte s with
                | Some r => skip_blob_bytes f r (size - 1)
                | None => None
                end
           else Some (s, size)
  end.

(* ---- the scanner --------------------------------------------------------------- *)
Fixpoint scan_blob_bytes (n : nat) (s : str) (acc : str) : option (str * str) :=
  match n with
  | O => Some (rev acc, s)
  | S n' => match run_fmt fmt_blob_byte s [] with
            | Some ([v], r) => scan_blob_bytes n' r (v mod 256 :: acc)
            | _ => None
            end
  end.

(* a number whose type the first pass fixed, overwritten by the value in
   parentheses: the second sscanf stores through the union member of the
   type *it* found (little endian) *)
Definition store_second (first : av) (second : av) : av :=
  let low32 := match second with
               | VI v => v mod 2 ^ 32 | VH v => v mod 2 ^ 32
               | VFl b => b | VD b => b mod 2 ^ 32 | _ => 0 end in
  let all64 (old : Z) := match second with
               | VI v => old / 2 ^ 32 * 2 ^ 32 + v mod 2 ^ 32
               | VFl b => old / 2 ^ 32 * 2 ^ 32 + b
               | VH v => v mod 2 ^ 64 | VD b => b | _ => 0 end in
  match first with
  | VFl _ => VFl low32
  | VD b => VD (all64 b)
  | VI _ => VI (wrap32 low32)
  | VH h => VH ((all64 (h mod 2 ^ 64) + 2 ^ 63) mod 2 ^ 64 - 2 ^ 63)
  | _ => first
  end.

(* one sscanf of a numeric literal with the format scanf_fmtstr chose *)
Definition scan_numeric_once (s : str) : option (av * str) :=
  match scanf_fmtstr s with
  | None => None
  | Some f =>
      let e := tok_end s in
      match f with
      | F_h => match sc_i s with Some (v, _) => Some (VH (st64 v), e) | None => None end
      | F_d => match sc_d s with Some (v, _) => Some (VI (st32 v), e) | None => None end
      | F_ii => match sc_i s with Some (v, _) => Some (VI (st32 v), e) | None => None end
      | F_x => match sc_x s with Some (v, r) => Some (VI (st32 v), r) | None => None end
      | F_lfd => match sc_f s with Some (hx, t, _) => Some (VD (dbl_val hx t), e) | None => None end
      | F_ff | F_f => match sc_f s with Some (hx, t, _) => Some (VFl (flt_val hx t), e) | None => None end
      end
  end.

(* the "date vs integer" else-branch of rtosc_scan_arg_val *)
Definition scan_numeric (s : str) : R (av * str) :=
  match scan_numeric_once s with
  | None => Unmod                          (* scanf_fmtstr returned NULL *)
  | Some (v1, s1) =>
      let after_num := skip_ws s1 in
      if hd0 after_num =? 40 then
        let s2 := skip_ws (skipn 1 after_num) in
        match scanf_fmtstr s2 with
        | None => Unmod
        | Some f2 =>
            (* the exact value of a double is scanned as a double *)
            let as_double := match v1, f2 with VD _, F_ff | VD _, F_f => true | _, _ => false end in
            let second :=
              if as_double
              then match sc_f s2 with
                   | Some (hx, t, r) => Some (VD (dbl_val hx t), r) | None => None end
              else scan_numeric_once s2 in
            match second with
            | Some (v2, s3) => Ok (store_second v1 v2, skip_fmt fmt_close_paren s3)
            | None => Unmod
            end
        end
      else Ok (v1, s1)
  end.

(* the date branch of rtosc_scan_arg_val: "%4d-%2d-%2d", then " %2d:%2d" and
   ":%2d" if present, then the fraction: ".ddd (...+<hex float>s)" (the exact
   value is taken), or ".ddd" (the decimal value), converted by
   rtosc_float2secfracs; mktime gives the seconds *)
Definition scan_date (src : str) : R (list av * str) :=
  match run_fmt [Ddw 4; DLit 45; Ddw 2; DLit 45; Ddw 2] src [] with
  | Some ([y; mo; d], s1) =>
      let '(h, mi, s2) := match run_fmt [DWs; Ddw 2; DLit 58; Ddw 2] s1 [] with
                          | Some ([h; mi], r) => (h, mi, r)
                          | _ => (0, 0, s1) end in
      let '(se, s3) := match run_fmt [DLit 58; Ddw 2] s2 [] with
                       | Some ([se], r) => (se, r)
                       | _ => (0, s2) end in
      let frac : R (Z * str) :=
        if hd0 s3 =? 46 then
          let exact := match sc_f s3 with
                       | Some (_, _, r) => match run_fmt [DWs; DLit 40] r [] with Some (_, r') => Some r' | None => None end
                       | None => None end in
          match exact with
          | Some s4 =>
              (* sscanf(src, " ... + %f s )%n", &secfracsf, &rd) *)
              match run_fmt [DWs; DLit 46; DLit 46; DLit 46; DWs; DLit 43; DWs] s4 [] with
              | Some (_, s5) =>
                  match sc_f s5 with
                  | Some (hx, t, r) =>
                      match run_fmt [DWs; DLit 115; DWs; DLit 41] r [] with
                      | Some (_, s6) => match float2secfracs (flt_val hx t) with
                                        | Some sf => Ok (sf, s6) | None => Unmod end
                      | None => Unmod          (* secfracsf assigned, rd = 0: src stays *)
                      end
                  | None => Unmod              (* secfracsf is not assigned *)
                  end
              | None => Unmod
              end
          | None =>
              match sc_f s3 with
              | Some (hx, t, r) => match float2secfracs (flt_val hx t) with
                                   | Some sf => Ok (sf, r) | None => Unmod end
              | None => Unmod
              end
          end
        else Ok (0, s3) in
      match frac with
      | Ok (sf, s7) => Ok ([VTm ((secs_of_date y mo d h mi se) mod 2 ^ 32 * 2 ^ 32 + sf mod 2 ^ 32)], s7)
      | Null => Null | Unmod => Unmod | NoFuel => NoFuel
      end
  | _ => Unmod
  end.

(* ---- rtosc_scan_arg_val ---------------------------------------------------------- *)
(* the recursive calls: src, the slots written before in this list, the
   args_before argument, follow_ellipsis *)
Definition scan_t := str -> list av -> Z -> bool -> R (list av * str).

(* type of the element whose slots are vs (a range counts as its element) *)
Definition elem_type (vs : list av) : Z :=
  match vs with
  | VRep _ hd :: r => if hd =? 0 then hd_type_s (skipn 0 r) else hd_type_s (skipn 1 r)
  | v :: _ => av_type v
  | [] => 0
  end.

(* the loop of the '[' case *)
Fixpoint scan_array_loop (rec : scan_t) (fuel : nat) (src : str) (i : Z) (acc : list av) (arrtype : Z)
  : R (list av * str * Z) :=
  match fuel with
  | O => NoFuel
  | S f =>
      if (hd0 src =? 0) || (hd0 src =? 93) then Ok (acc, src, arrtype) else
      match rec src acc (Z.of_nat (length acc)) true with   (* args_before = slots read so far *)
      | Ok (vs, r) => scan_array_loop rec f (skip_ws r) (i + 1) (acc ++ vs) (elem_type vs)
      | Null => Null | Unmod => Unmod | NoFuel => NoFuel
      end
  end.

(* everything up to the ellipsis test *)
Definition scan_core (rec : scan_t) (src : str) : R (list av * str) :=
  let ident s := match parse_identifier s with Some (v, r) => Ok ([v], r) | None => Unmod end in
  match src with
  | [] => Unmod
  | c :: _ =>
    match first_class c with
    | FC_kw =>
        match skip_word kw_immediately src with Some r => Ok ([VTm 1], r) | None =>
        match skip_word kw_now src with Some r => Ok ([VTm 1], r) | None =>
        match skip_word kw_true src with Some r => Ok ([VT], r) | None =>
        match skip_word kw_false src with Some r => Ok ([VF], r) | None =>
        match skip_word kw_nil src with Some r => Ok ([VN], r) | None =>
        match skip_word kw_inf src with Some r => Ok ([VInf], r) | None =>
        ident src end end end end end end
    | FC_hash =>
        match sc_x (skipn 1 src) with
        | Some (v, _) => Ok ([VR (v mod 2 ^ 32)], skipn 9 src)
        | None => Unmod
        end
    | FC_quote =>
        if at_ src 1 =? 92
        then if negb (at_ src 3 =? 0) && negb (isspace (at_ src 3))
             then Ok ([VC (get_escaped_char (at_ src 2) true)], skipn 4 src)
             else Ok ([VC 92], skipn 3 src)
        else Ok ([VC (at_ src 1)], skipn 3 src)
    | FC_dq =>
        match scan_str (skipn 1 src) false [] with
        | Ok (s, r) => if hd0 r =? 83 then Ok ([VSym (cstr_of s)], skipn 1 r)
                       else Ok ([VS (cstr_of s)], r)
        | Null => Null | Unmod => Unmod | NoFuel => NoFuel
        end
    | FC_M =>
        if is_midi_start src
        then match run_fmt fmt_midi src [] with
             | Some ([a; b; c'; d], r) => Ok ([VM (a mod 256) (b mod 256) (c' mod 256) (d mod 256)], r)
             | _ => Unmod
             end
        else ident src
    | FC_lb =>
        match scan_array_loop rec (S (length src)) (skip_ws (skipn 1 src)) 0 [] 32 with
        | Ok (elems, r, arrtype) =>
            if hd0 r =? 93 then Ok (VArr arrtype (Z.of_nat (length elems)) :: elems, skipn 1 r)
            else Unmod                       (* ++src past the terminator *)
        | Null => Null | Unmod => Unmod | NoFuel => NoFuel
        end
    | FC_B =>
        match run_fmt (fmt_blob_open ++ fmt_blob_size) src [] with
        | Some ([n], s1) =>
            if n <? 0 then Unmod else
            match scan_blob_bytes (Z.to_nat n) s1 [] with
            | Some (d, s2) => Ok ([VB d], skipn 1 s2)
            | None => Unmod
            end
        | _ => ident src
        end
    | FC_other =>
        if is_range_multiplier src then
          (* "%dx%n", then the repeated value with follow_ellipsis = 0 *)
          match run_fmt [Dd; DLit 120] src [] with
          | Some ([n], s1) =>
              match rec s1 [] 0 false with
              | Ok (vs, r) => Ok (VRep (st32 n) 0 :: vs, r)
              | Null => Null | Unmod => Unmod | NoFuel => NoFuel
              end
          | _ => Unmod
          end
        else if isidstart c then Ok ([VSym (takewhile isidchar src)], dropwhile isidchar src)
        else if negb (same_pos (skip_fmt fmt_date src) src) then scan_date src
        else match scan_numeric src with
             | Ok (v, r) => Ok ([v], r)
             | Null => Null | Unmod => Unmod | NoFuel => NoFuel
             end
    end
  end.

(* the slot k places before the current one *)
Definition back (before : list av) (k : nat) : option av := nth_error (rev before) (Nat.pred k).

(* the left neighbour the scanner uses for "a b ... c" *)
Definition scan_llhs (before : list av) (nb : Z) : option av :=
  match (if 2 <? nb then back before 3 else None) with
  | Some (VRep num hd) =>
      if negb (hd =? 0)
      then match back before 2, back before 1 with
           | Some delta, Some start => range_arg_x delta start (num - 1)
           | _, _ => None end
      else back before 1
  | _ => back before 1
  end.

(* llhsarg_is_useless and the left neighbour *)
Definition scan_useless (before : list av) (nb : Z) (lhs : av) : option (bool * av) :=
  if nb <? 1 then Some (true, lhs)
  else match scan_llhs before nb with
       | None => None
       | Some l =>
           if negb (types_match (av_type l) (av_type lhs)) then Some (true, l)
           else match av_cmp_single l lhs with
                | Some c => Some (c =? 0, l)
                | None => None end
       end.

(* the ellipsis part: vs are the slots of the value just scanned, r the
   position after it (white space, then "...") *)
Definition scan_ellipsis (rec : scan_t) (vs : list av) (r : str) (before : list av) (nb : Z)
  : R (list av * str) :=
  match vs with
  | [] => Unmod
  | lhs :: tl =>
  match tl with
  | [] =>
      let s1 := skip_ws (skipn 3 (skip_ws r)) in
      let infinite := hd0 s1 =? 93 in
      let rhsr := if infinite then Ok (None, s1)
                  else match rec s1 [] 0 false with
                       | Ok ([rv], r2) => Ok (Some rv, r2)
                       | Ok _ => Unmod
                       | Null => Null | Unmod => Unmod | NoFuel => NoFuel end in
      match rhsr with
      | Ok (rhs, r2) =>
          let useless_llhs := scan_useless before nb lhs in
          match useless_llhs with
          | None => Unmod
          | Some (useless, llhs) =>
              if infinite && useless then Ok ([VRep 0 0; lhs], r2)
              else match delta_x llhs lhs rhs useless with
                   | None => Unmod
                   | Some (num, delta) =>
                       if infinite && (num =? -1) then Ok ([VRep 0 0; lhs], r2)
                       else Ok ([VRep num 1; delta; lhs], r2)
                   end
          end
      | Null => Null | Unmod => Unmod | NoFuel => NoFuel
      end
  | _ :: _ =>
    match lhs with
    | VArr _ _ =>
      (* an open range of arrays "[...] ... ]": delta-less when there is no
         left neighbour of type 'a' (insert_arg_range shifts the array up) *)
      let s1 := skip_ws (skipn 3 (skip_ws r)) in
      if hd0 s1 =? 93 then
        if nb <? 1 then Ok (VRep 0 0 :: vs, s1)
        else match scan_llhs before nb with
             | Some l => if negb (types_match (av_type l) 97) then Ok (VRep 0 0 :: vs, s1) else Unmod
             | None => Unmod end
      else Unmod
    | _ => Unmod
    end
  end
  end.

(* rtosc_scan_arg_val: (slots written, position after) *)
Fixpoint scan_arg_val (fuel : nat) (src : str) (before : list av) (nb : Z) (follow_ellipsis : bool)
  : R (list av * str) :=
  match fuel with
  | O => NoFuel
  | S f =>
      match scan_core (scan_arg_val f) src with
      | Ok (vs, r) =>
          if follow_ellipsis && starts_with ellipsis (skip_ws r)
          then scan_ellipsis (scan_arg_val f) vs r before nb
          else Ok (vs, r)
      | e => e
      end
  end.

(* one value, as the checker uses the scanner *)
Definition scan1 (fuel : nat) (src : str) : option av :=
  match scan_arg_val fuel src [] 0 false with
  | Ok ([v], _) => Some v
  | _ => None
  end.

(* ---- the syntax checker ------------------------------------------------------ *)
Definition skip_t := str -> option str -> bool -> bool -> R (str * Z * Z).

(* the loop of the '[' case: (position, skipped, array type) *)
Fixpoint skip_array_loop (rec : skip_t) (fuel : nat) (src : str) (recent : option str)
         (skipped arraytype : Z) : R (str * Z) :=
  match fuel with
  | O => NoFuel
  | S f =>
      if (hd0 src =? 0) || (hd0 src =? 93) then Ok (src, skipped) else
      match rec src recent true true with
      | Ok (r, k, ty) =>
          if (arraytype =? 0) || arraytypes_match arraytype ty
          then skip_array_loop rec f (skip_ws r) (Some src) (skipped + k)
                               (if arraytype =? 0 then ty else arraytype)
          else Null
      | Null => Null | Unmod => Unmod | NoFuel => NoFuel
      end
  end.

(* the date branch of the checker, after "YYYY-MM-DD": nested
   if(skip_fmt(" %*2d:%*1d%*1d")) if(skip_fmt(":%*1d%*1d")) if(skip_fmt(".%*d"))
   { if(skip_fmt(" ( ... + 0x")) { skip_fmt("%*x."); if(skip_fmt("%*xp"))
     { sscanf("-%d s )%n"): 0 < exponent <= 32 } else NULL } } *)
Definition skip_date (s0 : str) : R (str * Z * Z) :=
  let adv (a b : str) := negb (same_pos a b) in
  let s1 := skip_fmt [DWs; Ddw 2; DLit 58; Ddw 1; Ddw 1] s0 in
  if negb (adv s1 s0) then Ok (s0, 1, 116) else
  let s2 := skip_fmt [DLit 58; Ddw 1; Ddw 1] s1 in
  if negb (adv s2 s1) then Ok (s1, 1, 116) else
  let s3 := skip_fmt [DLit 46; Dd] s2 in
  if negb (adv s3 s2) then Ok (s2, 1, 116) else
  let s4 := skip_fmt [DWs; DLit 40; DWs; DLit 46; DLit 46; DLit 46; DWs; DLit 43; DWs; DLit 48; DLit 120] s3 in
  if negb (adv s4 s3) then Ok (s3, 1, 116) else
  let s5 := skip_fmt [Dx; DLit 46] s4 in
  let s6 := skip_fmt [Dx; DLit 112] s5 in
  if negb (adv s6 s5) then Null else
  match run_fmt [DLit 45; Dd; DWs; DLit 115; DWs; DLit 41] s6 [] with
  | Some ([expm], s7) => if (0 <? expm) && (expm <=? 32) then Ok (s7, 1, 116) else Null
  | _ => Null
  end.

(* strstr(llhssrc, "...") , skipping the "(...+" of a time tag *)
Fixpoint find_ellipsis (s : str) (lastns : Z) : option str :=
  match s with
  | [] => None
  | c :: r =>
      if starts_with ellipsis s && negb (lastns =? 40) then Some s
      else find_ellipsis r (if isspace c then lastns else c)
  end.

Definition after_x (s : str) : str := skipn 1 (dropwhile (fun c => negb (c =? 120)) s).

(* everything up to the ellipsis test: (position, skipped, type, deltaless_range_type) *)
Definition skip_core (rec : skip_t) (src : str) (inside_bundle : bool) : R (str * Z * Z * Z) :=
  let ret (x : R (str * Z * Z)) : R (str * Z * Z * Z) :=
    match x with Ok (r, k, ty) => Ok (r, k, ty, 0) | Null => Null | Unmod => Unmod | NoFuel => NoFuel end in
  match src with
  | [] => Null
  | c :: _ =>
    match first_class c with
    | FC_kw => ret (
        if c =? 116 then
          match skip_word kw_true src with Some r => Ok (r, 1, 84) | None => ret_ident src end
        else if c =? 102 then
          match skip_word kw_false src with Some r => Ok (r, 1, 70) | None => ret_ident src end
        else if c =? 110 then
          match skip_word kw_nil src with
          | Some r => Ok (r, 1, 78)
          | None => match skip_word kw_now src with
                    | Some r => Ok (r, 1, 116) | None => ret_ident src end
          end
        else
          match skip_word kw_inf src with
          | Some r => Ok (r, 1, 73)
          | None => match skip_word kw_immediately src with
                    | Some r => Ok (r, 1, 116) | None => ret_ident src end
          end)
    | FC_hash => ret (
        if forallb isxdigit (firstn 8 (skipn 1 src)) && Nat.eqb (length (firstn 8 (skipn 1 src))) 8
        then Ok (skipn 9 src, 1, 114) else Null)
    | FC_quote => ret (
        if Nat.ltb (length src) 3 then Null else
        if at_ src 1 =? 92 then
          if (at_ src 2 =? 39) && ((at_ src 3 =? 0) || isspace (at_ src 3))
          then Ok (skipn 3 src, 1, 99)                        (* the mistyped backslash *)
          else if (negb (at_ src 2 =? 48) && (get_escaped_char (at_ src 2) true =? 0))
                  || negb (at_ src 3 =? 39)
               then Null else Ok (skipn 4 src, 1, 99)
        else if at_ src 2 =? 39 then Ok (skipn 3 src, 1, 99) else Null)
    | FC_dq => ret (
        match eops (skipn 1 src) (SIn false) with
        | Ok r => if hd0 r =? 83 then Ok (skipn 1 r, 1, ty_S) else Ok (r, 1, ty_s)
        | Null => Null | Unmod => Unmod | NoFuel => NoFuel
        end)
    | FC_M => ret (
        if is_midi_start src
        then match skip_fmt_null fmt_midi src with Some r => Ok (r, 1, 109) | None => Null end
        else ret_ident src)
    | FC_lb =>
        match skip_array_loop rec (S (length src)) (skip_ws (skipn 1 src)) None 1 0 with
        | Ok (r, k) => if hd0 r =? 93 then Ok (skipn 1 r, k, 97, 0) else Null
        | Null => Null | Unmod => Unmod | NoFuel => NoFuel
        end
    | FC_B => ret (
        match skip_fmt_null fmt_blob_open src with
        | Some s1 =>
            match run_fmt fmt_blob_size s1 [] with
            | Some ([size], s2) =>
                if same_pos s2 s1 then Null else
                match skip_blob_bytes (S (length s2)) s2 size with
                | Some (s3, remaining) =>
                    if negb (remaining =? 0) then Null
                    else if hd0 s3 =? 93 then Ok (skipn 1 s3, 1, 98) else Null
                | None => Null
                end
            | _ => Null
            end
        | None => ret_ident src
        end)
    | FC_other =>
        if is_range_multiplier src then
          match rec (after_x src) None false inside_bundle with
          | Ok (r, k, ty) => Ok (r, 1 + k, 45, ty)
          | Null => Null | Unmod => Unmod | NoFuel => NoFuel
          end
        else ret (
        if isidstart c then Ok (dropwhile isidchar src, 1, ty_S)
        else if negb (same_pos (skip_fmt fmt_date src) src) then skip_date (skip_fmt fmt_date src)
        else
          match skip_numeric src with
          | None => Null
          | Some (ty, s1) =>
              let after_num := skip_ws s1 in
              if hd0 after_num =? 40
              then if (ty =? 102) || (ty =? 100)
                   then let s2 := skip_ws (skipn 1 after_num) in
                        match skip_numeric s2 with
                        | None => Null
                        | Some (_, s3) =>
                            match skip_fmt_null fmt_close_paren s3 with
                            | Some r => Ok (r, 1, ty) | None => Null end
                        end
                   else Null
              else Ok (s1, 1, ty)
          end)
    end
  end.

Definition numeric_range_type (t : Z) : bool :=
  (t =? 99) || (t =? 105) || (t =? 104) || (t =? 102) || (t =? 100) || (t =? 84) || (t =? 70).

(* where the checker looks for the left neighbour: after the ellipsis of a
   preceding range, after the "Nx" of a repetition, or at the previous value *)
Definition chk_l1 (l0 ell : str) : option str :=
  (* an array (also behind "Nx") is a neighbour as a whole: no search inside it *)
  let v := if is_range_multiplier l0 then after_x l0 else l0 in
  if hd0 v =? 91 then Some v else
  match find_ellipsis l0 0 with
  | None => None
  | Some ne => Some (if Nat.ltb (length ell) (length ne) then skip_ws (skipn 3 ne)
                     else if is_range_multiplier l0 then after_x l0 else l0)
  end.

(* its type and value against the left-hand side: Ok (useless, llhsarg) *)
Definition chk_cmp (rec : skip_t) (sfuel : nat) (l1 : str) (lhstype : Z) (lhsarg : option av)
           (inside_bundle : bool) : R (bool * option av) :=
  match rec l1 None false inside_bundle with
  | Ok (_, _, lty) =>
      if types_match lty lhstype
      then match scan1 sfuel l1, lhsarg with
           | Some la, Some lh =>
               match av_cmp_single la lh with
               | Some c => Ok (c =? 0, Some la)
               | None => Unmod end
           | _, _ => Unmod end
      else Ok (true, None)
  | Null => Ok (true, None)      (* llhstype stays what it was *)
  | Unmod => Unmod | NoFuel => NoFuel
  end.

(* "is llhs given and useful?": Ok (useless, llhsarg) *)
Definition chk_llhs (rec : skip_t) (sfuel : nat) (llhs : option str) (ell : str) (lhstype : Z)
           (lhsarg : option av) (inside_bundle : bool) : R (bool * option av) :=
  match llhs with
  | None => Ok (true, None)
  | Some l0 =>
      match chk_l1 l0 ell with
      | None => Unmod
      | Some l1 => chk_cmp rec sfuel l1 lhstype lhsarg inside_bundle
      end
  end.

(* the ellipsis part of the checker.  old_src: start of the value, r: position
   after it, ty / dlt: its type and deltaless_range_type, k: skipped so far *)
Definition skip_ellipsis (rec : skip_t) (sfuel : nat) (old_src r : str) (k ty dlt : Z)
           (llhs : option str) (inside_bundle : bool) : R (str * Z * Z) :=
  let ell := skip_ws r in
  let lhssrc := if is_range_multiplier old_src then after_x old_src else old_src in
  let lhstype := if dlt =? 0 then ty else dlt in
  let rhssrc := skip_ws (skipn 3 ell) in
  let numeric := numeric_range_type lhstype in
  let infinite := hd0 rhssrc =? 93 in
  let rhsr : R (str * Z * option av) :=
    if infinite then Ok (rhssrc, lhstype, None)
    else if negb numeric then Null
    else match rec rhssrc None false inside_bundle with
         | Ok (e, _, rty) => Ok (e, rty, scan1 sfuel rhssrc)
         | Null => Null | Unmod => Unmod | NoFuel => NoFuel end in
  match rhsr with
  | Ok (endsrc, rhstype, rhsarg) =>
      if negb (lhstype =? rhstype) then Null else
      if negb infinite && (match rhsarg with None => true | Some _ => false end) then Unmod else
      let lhsarg := if numeric then scan1 sfuel lhssrc else None in
      match chk_llhs rec sfuel llhs ell lhstype lhsarg inside_bundle with
      | Ok (useless, llhsarg) =>
          if infinite && (useless || negb numeric) then Ok (endsrc, k + 1, 45)
          else
            match lhsarg, (if useless then lhsarg else llhsarg) with
            | Some lh, Some la =>
                match delta_x la lh rhsarg useless with
                | None => Unmod
                | Some (num, _) =>
                    if num =? -1 then (if infinite then Ok (endsrc, k + 1, 45) else Null)
                    else Ok (endsrc, k + 2, 45)
                end
            | _, _ => Unmod
            end
      | Null => Null | Unmod => Unmod | NoFuel => NoFuel
      end
  | Null => Null | Unmod => Unmod | NoFuel => NoFuel
  end.

(* rtosc_skip_next_printed_arg: (position after, skipped, type) *)
Fixpoint skip_next (fuel : nat) (src : str) (llhs : option str)
         (follow_ellipsis inside_bundle : bool) : R (str * Z * Z) :=
  match fuel with
  | O => NoFuel
  | S f =>
      match skip_core (skip_next f) src inside_bundle with
      | Ok (r, k, ty, dlt) =>
          if follow_ellipsis && starts_with ellipsis (skip_ws r)
          then skip_ellipsis (skip_next f) f src r k ty dlt llhs inside_bundle
          else Ok (r, k, ty)
      | Null => Null | Unmod => Unmod | NoFuel => NoFuel
      end
  end.

(* while ( *src == '%') skip_fmt(&src, "%*[^\n] %n") *)
Fixpoint skip_comments_ws (fuel : nat) (s : str) : str :=
  match fuel with
  | O => s
  | S f => if hd0 s =? 37 then skip_comments_ws f (skip_fmt fmt_comment_ws s) else s
  end.

Fixpoint count_loop (fuel : nat) (src : str) (recent : option str) (num : Z) : R (bool * Z) :=
  match fuel with
  | O => NoFuel
  | S f =>
      if (hd0 src =? 0) || (hd0 src =? 47) then Ok (true, num) else
      match skip_next (length src) src recent true false with
      | Ok (r, k, _) =>
          let s1 := skip_ws r in
          let s2 := if negb (hd0 s1 =? 0) && negb (isspace (hd0 s1))
                    then skip_comments_ws (S (length s1)) s1 else s1 in
          count_loop f s2 (Some src) (num + k)
      | Null => Ok (false, num + 1)
      | Unmod => Unmod
      | NoFuel => NoFuel
      end
  end.

(* rtosc_count_printed_arg_vals: (true, n) = n ; (false, n) = -n *)
Definition count_printed_arg_vals (src : str) : R (bool * Z) :=
  let s1 := skip_ws src in
  count_loop (S (length src)) (skip_comments_ws (S (length s1)) s1) None 0.

(* do { skip " "; while ( *src == '%') skip "%*[^\n]"; } while(isspace( *src)) *)
Fixpoint skip_ws_comments (fuel : nat) (s : str) : str :=
  match fuel with
  | O => s
  | S f =>
      let s1 := skip_ws s in
      if hd0 s1 =? 37
      then let s2 := skip_fmt fmt_comment s1 in
           if isspace (hd0 s2) then skip_ws_comments f s2 else s2
      else s1
  end.

Fixpoint slots_offset (vs : list av) : Z :=
  match vs with
  | VArr _ n :: _ => n + 1
  | VSpc n :: _ => n + 1
  | VRep _ hd :: r => 1 + slots_offset r + hd
  | _ => 1
  end.

(* rtosc_scan_arg_vals(src, args, n, ...): (slots written, position after) *)
Fixpoint scan_loop (fuel : nat) (src : str) (i n : Z) (acc : list av) : R (list av * str) :=
  match fuel with
  | O => NoFuel
  | S f =>
      if n <=? i then Ok (acc, src) else
      match scan_arg_val (length src) src acc i true with
      | Ok (vs, r) =>
          scan_loop f (skip_ws_comments (S (length r)) r) (i + slots_offset vs) n (acc ++ vs)
      | Null => Null | Unmod => Unmod | NoFuel => NoFuel
      end
  end.

Definition scan_arg_vals (src : str) (n : Z) : R (list av * str) :=
  scan_loop (S (Z.to_nat n)) src 0 n [].

(* rtosc_count_printed_arg_vals_of_msg: Ok (true, n) = n, (false, n) = -n;
   the empty message is INT_MIN, modelled as (false, 2^31) *)
Definition count_printed_arg_vals_of_msg (msg : str) : R (bool * Z) :=
  let s1 := skip_ws msg in
  let s2 := skip_comments_ws (S (length s1)) s1 in
  if hd0 s2 =? 47
  then count_printed_arg_vals (dropwhile (fun c => negb (isspace c)) s2)
  else if hd0 s2 =? 0 then Ok (false, 2 ^ 31) else Ok (false, 1).

(* rtosc_scan_message (address buffer large enough): (address, slots, position after) *)
Definition scan_message (src : str) (n : Z) : R (str * list av * str) :=
  let s1 := skip_ws src in
  let s2 := skip_comments_ws (S (length s1)) s1 in
  if negb (hd0 s2 =? 47) then Unmod else
  let addr := takewhile (fun c => negb (isspace c)) s2 in
  let s3 := skip_ws (dropwhile (fun c => negb (isspace c)) s2) in
  match scan_arg_vals s3 n with
  | Ok (vs, r) => Ok (addr, vs, r)
  | Null => Null | Unmod => Unmod | NoFuel => NoFuel
  end.
End Recognisers.
