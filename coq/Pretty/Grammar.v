(* C11 - the constructive grammar of the modelled fragment: a sentence is a
   list of words; a word is a value, the spelling chosen for it (here: the
   spelling the printer uses under some option record at some column - this
   fixes where a long string is split into concatenated pieces) and the white
   space that follows it.  No proofs in this file. *)
From Coq Require Import List ZArith Bool.
From RtoscV Require Import Pretty.Tok Pretty.FloatFmt Pretty.PrintModel.
Import ListNotations.
Local Open Scope Z_scope.

Record word := { w_val : av; w_opts : popts; w_cols : Z; w_sep : list Z }.

Definition spell_word (w : word) : option (list Z) :=
  match print_scalar (w_opts w) (w_val w) (w_cols w) with
  | Some (t, _, _) => Some t
  | None => None
  end.

(* the text of a sentence: words joined by their separators *)
Fixpoint spell (s : list word) : option (list Z) :=
  match s with
  | [] => Some []
  | w :: rest =>
      match rest with
      | [] => spell_word w
      | _ :: _ => match spell_word w, spell rest with
                  | Some t, Some T => Some (t ++ w_sep w ++ T)
                  | _, _ => None
                  end
      end
  end.

(* the values a sentence denotes *)
Definition denote (s : list word) : list av := map w_val s.

(* ------------------------------------------------------------------------- *)
(* The widened grammar (doc/Guide.adoc, "Pretty-printing Messages"): beside the
   printer's own spelling of a value
     - decimal integers with the suffix i            -12i
     - hexadecimal integers, plain or with i / h     0x1f  -0x1fi  0xffh
     - decimal floating point literals without the exact value, plain or with
       the suffix f / d                                1.5  -0.25f  3.0d
     - (the h suffix of decimal 64-bit integers, character escapes, true false
        nil inf are spellings of the printer already)
   and between two words white space that may hold comments
     "%" any characters but a line break, line break.
   A hexadecimal literal is given by its digits; its value is positional. *)
Definition hexval (ds : list Z) : Z := fst (read_digs isxdigit 16 ds 0).

Inductive isuf := SufNone | SufI | SufH.
Definition isuf_text (s : isuf) : list Z :=
  match s with SufNone => [] | SufI => [105] | SufH => [104] end.

Inductive fsuf := FsNone | FsF | FsD.
Definition fsuf_text (s : fsuf) : list Z :=
  match s with FsNone => [] | FsF => [102] | FsD => [100] end.

(* a decimal floating point literal "[-]<digits>.<digits>" *)
Definition dec_literal (neg : bool) (n1 : Z) (fr : list Z) : list Z :=
  (if neg then [45] else []) ++ dec_nat n1 ++ 46 :: fr.

Inductive gtok :=
| GPrinted (v : av) (o : popts) (cols : Z)
| GDecI (v : Z)
| GHex (neg : bool) (ds : list Z) (suf : isuf)
| GFlt (neg : bool) (n1 : Z) (fr : list Z) (suf : fsuf).   (* 1.5  -0.25f  3.0d : no exact value *)

Definition gtok_text (g : gtok) : option (list Z) :=
  match g with
  | GPrinted v o cols => match print_scalar o v cols with Some (t, _, _) => Some t | None => None end
  | GDecI v => Some (print_d v ++ [105])
  | GHex neg ds suf => Some ((if neg then [45] else []) ++ [48; 120] ++ ds ++ isuf_text suf)
  | GFlt neg n1 fr suf => Some (dec_literal neg n1 fr ++ fsuf_text suf)
  end.

(* the value a word denotes; a 32-bit hexadecimal literal above 0x7fffffff
   denotes the negative number with that bit pattern *)
(* dec2f / dec2d: the float / double libc gives a decimal literal (oracles) *)
Definition gtok_val (dec2f dec2d : list Z -> Z) (g : gtok) : av :=
  match g with
  | GPrinted v _ _ => v
  | GDecI v => VI v
  | GHex neg ds SufH => VH (sgn neg (hexval ds))
  | GHex neg ds _ => VI (wrap32 (sgn neg (hexval ds)))
  | GFlt neg n1 fr FsD => VD (dec2d (dec_literal neg n1 fr))
  | GFlt neg n1 fr _ => VFl (dec2f (dec_literal neg n1 fr))
  end.

(* separators: non-empty white space, then any number of comments, each followed
   by its line break and more white space *)
Inductive cmts : list Z -> Prop :=
| CM_nil : cmts []
| CM_cons body ws rest :
    Forall (fun c => c <> 10) body -> Forall (fun c => isspace c = true) ws -> cmts rest ->
    cmts (37 :: body ++ 10 :: ws ++ rest).

Record gword := { g_tok : gtok; g_ws : list Z; g_cmts : list Z }.
Definition g_sep (w : gword) : list Z := g_ws w ++ g_cmts w.

Fixpoint gspell (s : list gword) : option (list Z) :=
  match s with
  | [] => Some []
  | w :: rest =>
      match rest with
      | [] => gtok_text (g_tok w)
      | _ :: _ => match gtok_text (g_tok w), gspell rest with
                  | Some t, Some T => Some (t ++ g_sep w ++ T)
                  | _, _ => None
                  end
      end
  end.

Definition gdenote (dec2f dec2d : list Z -> Z) (s : list gword) : list av :=
  map (fun w => gtok_val dec2f dec2d (g_tok w)) s.
