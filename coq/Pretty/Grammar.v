(* C11 - the constructive grammar of the modelled fragment: a sentence is a
   list of words; a word is a value, the spelling chosen for it (here: the
   spelling the printer uses under some option record at some column - this
   fixes where a long string is split into concatenated pieces) and the white
   space that follows it.  No proofs in this file. *)
From Coq Require Import List ZArith Bool.
From RtoscV Require Import Pretty.Tok Pretty.FloatFmt Pretty.PrintModel.
Import ListNotations.
Local Open Scope Z_scope.

Record word := { w_val : av; w_opts : popts; w_cols : Z; w_sep : list Z }.

Definition spell_word (w : word) : option (list Z) :=
  match print_scalar (w_opts w) (w_val w) (w_cols w) with
  | Some (t, _, _) => Some t
  | None => None
  end.

(* the text of a sentence: words joined by their separators *)
Fixpoint spell (s : list word) : option (list Z) :=
  match s with
  | [] => Some []
  | w :: rest =>
      match rest with
      | [] => spell_word w
      | _ :: _ => match spell_word w, spell rest with
                  | Some t, Some T => Some (t ++ w_sep w ++ T)
                  | _, _ => None
                  end
      end
  end.

(* the values a sentence denotes *)
Definition denote (s : list word) : list av := map w_val s.
