(* C10/C11 - arrays among other values of a list: both recognisers read a
   sequence of items (values, repetitions, range tails - ListProofs) and
   non-empty arrays of items (ArrayProofs), separated by white space, provided
   that NO RANGE TAIL "b ... c" DIRECTLY FOLLOWS AN ARRAY.  That exclusion is the
   finding class range-after-array: the checker looks for the left neighbour of
   the tail in the text of the array, the scanner in the slots before. *)
From Coq Require Import List ZArith Bool Lia.
From RtoscV Require Import Pretty.Tok Pretty.FloatFmt Pretty.PrintModel Pretty.ScanModel
  Pretty.PrettyProofs Pretty.RangeProofs Pretty.RunProofs Pretty.FloatProofs Pretty.ListProofs Pretty.ArrayProofs.
Import ListNotations.
Local Open Scope Z_scope.

Inductive mi :=
| MI (it : item)
| MA (its : list item) (T : list Z)             (* "[" T "]" *)
| MR (n : Z) (its : list item) (T : list Z).    (* n "x[" T "]" *)

Definition arr_text (T : list Z) : list Z := 91 :: T ++ [93].
Definition arr_slots (its : list item) : list av :=
  VArr (lty 32 its) (Z.of_nat (length (islots its))) :: islots its.

Definition m_text (m : mi) : list Z :=
  match m with
  | MI it => item_text it
  | MA _ T => arr_text T
  | MR n _ T => dec_nat n ++ 120 :: arr_text T
  end.
Definition m_slots (m : mi) : list av :=
  match m with
  | MI it => item_slots it
  | MA its _ => arr_slots its
  | MR n its _ => VRep n 0 :: arr_slots its
  end.
Definition is_tail (it : item) : bool := match it with ITail _ _ _ _ _ _ => true | _ => false end.

(* the context: CItem p = the element before was an item (p its last original
   value, None at the start of the text); CArr q = it was an array or a
   repetition of an array, q the last original value in it (None: "[]") *)
Inductive mctx := CItem (p : option av) | CArr (q : option av).
Definition m_next (m : mi) : mctx :=
  match m with MI it => CItem (Some (item_last it)) | MA its _ | MR _ its _ => CArr (ilast its) end.

(* a range tail "b ... c" directly after an array: the checker takes the array
   as a whole for the left neighbour (no neighbour: unit step), the scanner the
   slot before, the array's last value - they agree unless that value has the
   tail's type and differs from b (finding class range-after-array) *)
Definition aft_ok (q : option av) (it : item) : Prop :=
  match it, q with
  | ITail k b _ _ _ _, Some pv => types_match (av_type pv) (av_type (mk k b)) = false \/ pv = mk k b
  | _, _ => True
  end.

Section Mixed.
Variables dec2f dec2d : list Z -> Z.
Notation item_ok := (item_ok dec2f dec2d).
Notation iseq := (iseq dec2f dec2d).

Definition arr_ok (its : list item) (T : list Z) : Prop :=
  (its = [] /\ T = []) \/ (iseq None its T /\ its <> [] /\ atys_ok 0 its).

Definition m_ok (c : mctx) (m : mi) : Prop :=
  match m with
  | MI it => match c with
             | CItem p => item_ok p it
             | CArr q => item_ok None it /\ aft_ok q it
             end
  | MA its T => arr_ok its T
  | MR n its T => 1 <= n < 2 ^ 31 /\ arr_ok its T
  end.

Inductive mseq : mctx -> list mi -> list Z -> Prop :=
| MS_nil c : mseq c [] []
| MS_one c m : m_ok c m -> mseq c [m] (m_text m)
| MS_cons c m sep m' ms T :
    m_ok c m -> sepw sep -> mseq (m_next m) (m' :: ms) T ->
    mseq c (m :: m' :: ms) (m_text m ++ sep ++ T).

Definition mslots (ms : list mi) : list av := concat (map m_slots ms).

Lemma m_item_ok c it : m_ok c (MI it) -> exists p, item_ok p it.
Proof. destruct c as [p|q]; cbn [m_ok]; [eauto|intros [H _]; eauto]. Qed.

Lemma m_first c m : m_ok c m -> exists x r, m_text m = x :: r /\ first_ok x.
Proof.
  destruct m as [it|its T|n its T]; cbn [m_text].
  - intros H. destruct (m_item_ok _ _ H) as [p Hp]. exact (item_first _ _ _ _ Hp).
  - intros _. eexists _, _. split; [reflexivity|]. unfold first_ok, isspace, in_range. lia.
  - intros [Hn _]. destruct (dec_nat_hd n ltac:(lia)) as (d & tl & E & Hd). rewrite E.
    eexists _, _. split; [reflexivity|]. apply first_ok_num. lia.
Qed.

Lemma mseq_first c m ms T : mseq c (m :: ms) T -> exists x r, T = x :: r /\ first_ok x.
Proof.
  intros H. inversion H as [|? ? Hok|? ? ? ? ? ? Hok _ _]; subst.
  - exact (m_first _ _ Hok).
  - destruct (m_first _ _ Hok) as (x & r & E & Hx). rewrite E. eexists _, _. split; [reflexivity|exact Hx].
Qed.

Lemma m_slots_offset c m : m_ok c m -> slots_offset (m_slots m) = Z.of_nat (length (m_slots m)).
Proof.
  destruct m as [it|its T|n its T]; cbn [m_slots].
  - intros H. destruct (m_item_ok _ _ H) as [p Hp]. exact (item_slots_offset _ _ _ _ Hp).
  - intros _. unfold arr_slots. cbn [slots_offset length]. lia.
  - intros _. unfold arr_slots. cbn [slots_offset length]. lia.
Qed.

Lemma m_slots_pos m : (1 <= length (m_slots m))%nat.
Proof. destruct m as [[| |]| |]; cbn; lia. Qed.

(* ---- the bracketed forms -------------------------------------------------------------------- *)
Lemma arr_reads its T rest : arr_ok its T -> rest_ok rest ->
  (forall f ll fe ib, (length T <= f \/ 2 <= f)%nat ->
     skip_next dec2f dec2d (S f) (arr_text T ++ rest) ll fe ib
     = Ok (rest, Z.of_nat (length (arr_slots its)), 97)) /\
  (forall f before nb fe, (length T <= f)%nat ->
     scan_arg_val dec2f dec2d (S f) (arr_text T ++ rest) before nb fe = Ok (arr_slots its, rest)).
Proof.
  intros Hok Hr.
  assert (E : arr_text T ++ rest = 91 :: T ++ 93 :: rest) by (unfold arr_text; cbn [app]; now rewrite <- app_assoc).
  rewrite E. destruct Hok as [[-> ->]|(HL & Hne & Hty)].
  - destruct (empty_array_reads dec2f dec2d rest Hr) as [Hs Hc]. split; intros; [apply Hs|apply Hc].
  - destruct (array_reads dec2f dec2d its T HL Hne Hty rest Hr) as [Hs Hc]. split; intros.
    + replace (Z.of_nat (length (arr_slots its))) with (1 + Z.of_nat (length (islots its)))
        by (unfold arr_slots; cbn [length]; lia).
      destruct H as [H|H]; [now apply Hs|now apply (array_skip2 dec2f dec2d its T HL Hne Hty rest Hr)].
    + now apply Hc.
Qed.

Lemma rep_arr_reads n its T rest : 1 <= n < 2 ^ 31 -> arr_ok its T -> rest_ok rest ->
  (forall f ll fe ib, (length T <= f \/ 2 <= f)%nat ->
     skip_next dec2f dec2d (S (S f)) ((dec_nat n ++ 120 :: arr_text T) ++ rest) ll fe ib
     = Ok (rest, 1 + Z.of_nat (length (arr_slots its)), 45)) /\
  (forall f before nb fe, (length T <= f)%nat ->
     scan_arg_val dec2f dec2d (S (S f)) ((dec_nat n ++ 120 :: arr_text T) ++ rest) before nb fe
     = Ok (VRep n 0 :: arr_slots its, rest)).
Proof.
  intros Hn Hok Hr.
  destruct (dec_nat_hd n ltac:(lia)) as (d & tl & E & Hd).
  destruct (rep_mult n (arr_text T) rest ltac:(lia)) as (Hmult & Hax & _).
  assert (Esrc : (dec_nat n ++ 120 :: arr_text T) ++ rest = dec_nat n ++ 120 :: arr_text T ++ rest)
    by (rewrite <- app_assoc; reflexivity).
  rewrite Esrc.
  assert (Hfc : first_class (48 + d) = FC_other) by (apply first_class_num; lia).
  destruct (arr_reads its T rest Hok Hr) as [Hs Hsn]. destruct Hr as [Hr0 He].
  split; intros.
  - remember (S f) as f1 eqn:Ef. cbn [skip_next]. unfold skip_core. rewrite Hmult, Hax. rewrite E at 1. cbn [app]. rewrite Hfc.
    subst f1. rewrite (Hs f None false ib H). rewrite He, andb_false_r. reflexivity.
  - remember (S f) as f1 eqn:Ef. cbn [scan_arg_val]. unfold scan_core. rewrite Hmult. rewrite E at 1. cbn [app]. rewrite Hfc.
    cbn [run_fmt]. rewrite sc_d_nat' by (try lia; reflexivity). cbn [lit]. rewrite Z.eqb_refl. cbn [run_fmt rev app].
    subst f1. rewrite (Hsn f [] 0 false H). rewrite st32_id by lia. rewrite He, andb_false_r. reflexivity.
Qed.

(* ---- the invariant of the scanner on the slots written ---------------------------- *)
Definition Jm (acc : list av) : Prop :=
  match rev acc with
  | [] => True
  | x :: r => (forall n h, x <> VRep n h) /\
              match r with y :: _ => forall n h, y = VRep n h -> h = 0 | [] => True end
  end.
Definition Jw (acc : list av) : Prop :=
  match rev acc with [] => True | y :: _ => forall n h, y <> VRep n h end.

Lemma J_Jm acc : J acc -> Jm acc.
Proof.
  unfold J, Jm. destruct (rev acc) as [|x r]; [auto|]. intros [Hx Hr]. split; [|exact Hr].
  intros n h ->. exact Hx.
Qed.
Lemma Jm_Jw acc : Jm acc -> Jw acc.
Proof. unfold Jm, Jw. destruct (rev acc) as [|x r]; [auto|]. intros [Hx _]. exact Hx. Qed.

Lemma J_step_w p it acc : item_ok p it -> Jw acc -> J (acc ++ item_slots it).
Proof.
  intros Hok HJ. pose proof (item_scalar_last _ _ _ _ Hok) as Hsl.
  destruct it as [v t|n v t|k b d m last sp]; cbn [item_slots item_last] in *;
    unfold J; rewrite rev_app_distr; cbn [rev app].
  - split; [exact Hsl|]. unfold Jw in HJ. destruct (rev acc) as [|y r]; [exact I|].
    intros n h E. exfalso. exact (HJ n h E).
  - split; [exact Hsl|]. intros n0 h E. now inversion E.
  - split; [now destruct k|]. intros n0 h E. destruct k; discriminate.
Qed.

(* after an item's slots the scanner's left neighbour is the item's last value *)
Lemma scan_llhs_item_m p it acc : item_ok p it -> Jm acc ->
  scan_llhs (acc ++ item_slots it) (Z.of_nat (length (acc ++ item_slots it))) = Some (item_last it).
Proof.
  intros Hok HJ. destruct it as [v t|n v t|k b d m last sp]; cbn [item_slots item_last] in *.
  - unfold scan_llhs. rewrite (back_app acc [v] 1) by (cbn; lia). cbn [rev app nth_error Nat.pred].
    destruct (2 <? Z.of_nat (length (acc ++ [v]))); [|reflexivity].
    rewrite (back_app2 acc [v] 3) by (cbn; lia). cbn [length Nat.sub].
    unfold back. cbn [Nat.pred]. unfold Jm in HJ.
    destruct (rev acc) as [|x [|y r]]; try reflexivity. cbn [nth_error].
    destruct y; try reflexivity. destruct HJ as [_ Hy]. rewrite (Hy _ _ eq_refl). reflexivity.
  - unfold scan_llhs. rewrite (back_app acc [VRep n 0; v] 1) by (cbn; lia). cbn [rev app nth_error Nat.pred].
    destruct (2 <? Z.of_nat (length (acc ++ [VRep n 0; v]))); [|reflexivity].
    rewrite (back_app2 acc [VRep n 0; v] 3) by (cbn; lia). cbn [length Nat.sub].
    unfold back. cbn [Nat.pred]. unfold Jm in HJ.
    destruct (rev acc) as [|x r]; [reflexivity|]. cbn [nth_error]. destruct HJ as [Hx _].
    destruct x; try reflexivity. exfalso. exact (Hx _ _ eq_refl).
  - destruct Hok as ((Hsb & Hsla & Hlast & Hm & Hd0 & Hdr) & _ & _).
    unfold scan_llhs. rewrite app_length. cbn [length].
    match goal with |- context [2 <? ?x] => assert (E23 : (2 <? x) = true) by (apply Z.ltb_lt; lia); rewrite E23 end.
    rewrite (back_app acc _ 3), (back_app acc _ 2), (back_app acc _ 1) by (cbn; lia).
    cbn [rev app nth_error Nat.pred]. replace (1 =? 0) with false by reflexivity. cbn [negb].
    rewrite range_arg_x_mk, range_arg_mk by lia. f_equal. f_equal. rewrite <- Hlast.
    replace (b + (m - 1) * d) with last by lia. apply wr_id. now apply small_inr.
Qed.

Lemma Jm_islots its : Forall (fun it => exists p, item_ok p it) its -> forall acc, Jm acc -> Jm (acc ++ islots its).
Proof.
  induction 1 as [|it its [p Hok] _ IH]; intros acc HJ.
  - unfold islots. cbn [map concat]. now rewrite app_nil_r.
  - unfold islots. cbn [map concat]. rewrite app_assoc. apply IH. apply J_Jm.
    exact (J_step_w _ _ _ Hok (Jm_Jw _ HJ)).
Qed.

(* an array's slots, behind the header [VArr] or [VRep n 0; VArr] *)
Definition arr_hdr (hdr : list av) : Prop :=
  (exists ty z, hdr = [VArr ty z]) \/ (exists n ty z, hdr = [VRep n 0; VArr ty z]).

Lemma Jm_hdr acc hdr : Jm acc -> arr_hdr hdr -> Jm (acc ++ hdr).
Proof.
  intros HJ [(ty & z & ->)|(n & ty & z & ->)]; unfold Jm in *; rewrite rev_app_distr; cbn [rev app].
  - split; [discriminate|]. destruct (rev acc) as [|x r]; [exact I|]. intros n h ->. exfalso. exact (proj1 HJ n h eq_refl).
  - split; [discriminate|]. intros n0 h E. now inversion E.
Qed.

Lemma llhs_hdr acc hdr : Jm acc -> arr_hdr hdr ->
  exists l, scan_llhs (acc ++ hdr) (Z.of_nat (length (acc ++ hdr))) = Some l /\ av_type l = 97.
Proof.
  intros HJ [(ty & z & ->)|(n & ty & z & ->)].
  - exists (VArr ty z). split; [|reflexivity].
    unfold scan_llhs. rewrite (back_app acc [VArr ty z] 1) by (cbn; lia). cbn [rev app nth_error Nat.pred].
    destruct (2 <? Z.of_nat (length (acc ++ [VArr ty z]))); [|reflexivity].
    rewrite (back_app2 acc [VArr ty z] 3) by (cbn; lia). cbn [length Nat.sub].
    unfold back. cbn [Nat.pred]. unfold Jm in HJ.
    destruct (rev acc) as [|x [|y r]]; try reflexivity. cbn [nth_error].
    destruct y; try reflexivity. destruct HJ as [_ Hy]. rewrite (Hy _ _ eq_refl). reflexivity.
  - exists (VArr ty z). split; [|reflexivity].
    unfold scan_llhs. rewrite (back_app acc [VRep n 0; VArr ty z] 1) by (cbn; lia). cbn [rev app nth_error Nat.pred].
    destruct (2 <? Z.of_nat (length (acc ++ [VRep n 0; VArr ty z]))); [|reflexivity].
    rewrite (back_app2 acc [VRep n 0; VArr ty z] 3) by (cbn; lia). cbn [length Nat.sub].
    unfold back. cbn [Nat.pred]. unfold Jm in HJ.
    destruct (rev acc) as [|x r]; [reflexivity|]. cbn [nth_error]. destruct HJ as [Hx _].
    destruct x; try reflexivity. exfalso. exact (Hx _ _ eq_refl).
Qed.

Lemma arr_after acc hdr its T :
  arr_ok its T -> Jm acc -> arr_hdr hdr ->
  Jm ((acc ++ hdr) ++ islots its) /\
  exists l, scan_llhs ((acc ++ hdr) ++ islots its) (Z.of_nat (length ((acc ++ hdr) ++ islots its))) = Some l /\
            match ilast its with Some pv => l = pv | None => av_type l = 97 end.
Proof.
  intros Hok HJ Hh. pose proof (Jm_hdr acc hdr HJ Hh) as HJh. destruct Hok as [[-> ->]|(HL & Hnn & _)].
  - unfold islots. cbn [map concat]. rewrite app_nil_r. split; [exact HJh|]. cbn [ilast rev].
    exact (llhs_hdr acc hdr HJ Hh).
  - pose proof (iseq_items_ok dec2f dec2d _ _ _ HL) as Hall.
    split; [now apply Jm_islots|].
    destruct (exists_last Hnn) as (its0 & it & ->).
    apply Forall_app in Hall as [H0 Hl]. inversion Hl as [|? ? [p' Hokl] _]; subst.
    exists (item_last it). split.
    + unfold islots. rewrite map_app, concat_app. cbn [map concat]. rewrite app_nil_r, app_assoc.
      apply (scan_llhs_item_m p' it _ Hokl). now apply Jm_islots.
    + unfold ilast. rewrite rev_app_distr. reflexivity.
Qed.

(* ---- items that are no tails need no context ------------------------------------------- *)
Lemma item_scan_nt it rest fuel before nb :
  is_tail it = false -> item_ok None it -> rest_ok rest -> (length (item_text it) <= fuel)%nat ->
  scan_arg_val dec2f dec2d fuel (item_text it ++ rest) before nb true = Ok (item_slots it, rest).
Proof.
  intros Hnt Hok Hr Hf.
  destruct it as [v t|n v t|k b d m last sp]; cbn [item_ok item_text item_slots] in *; [| |discriminate].
  - destruct Hok as [(Hrd & (c & r & -> & _) & _) _]. destruct fuel; [cbn in Hf; lia|]. apply (Hrd rest Hr).
  - destruct Hok as (Hn & Htk & _).
    destruct (elof_rep dec2f dec2d n v t Hn Htk) as (He & _ & _). apply (proj2 (He rest Hr)). exact Hf.
Qed.

Lemma item_skip_nt it rest recent fuel :
  is_tail it = false -> item_ok None it -> rest_ok rest -> (length (item_text it) <= fuel)%nat ->
  exists ty, skip_next dec2f dec2d fuel (item_text it ++ rest) recent true false
             = Ok (rest, Z.of_nat (length (item_slots it)), ty).
Proof.
  intros Hnt Hok Hr Hf.
  destruct it as [v t|n v t|k b d m last sp]; cbn [item_ok item_text item_slots] in *; [| |discriminate].
  - destruct Hok as [(Hrd & (c & r & -> & _) & _) _]. destruct fuel; [cbn in Hf; lia|].
    exists (av_type v). apply (Hrd rest Hr).
  - destruct Hok as (Hn & Htk & _).
    destruct (elof_rep dec2f dec2d n v t Hn Htk) as (He & _ & _). apply (proj1 (He rest Hr)). exact Hf.
Qed.

Definition mprev (c : mctx) (acc : list av) : Prop :=
  match c with
  | CItem p => prevrel p acc
  | CArr q => acc <> [] /\
              exists l, scan_llhs acc (Z.of_nat (length acc)) = Some l /\
                        match q with Some pv => l = pv | None => av_type l = 97 end
  end.

(* the checker's pointer to the previous value: an item, or an array / "Nx" array *)
Definition mrecent (c : mctx) (recent : option (list Z)) (T0 : list Z) : Prop :=
  match c with
  | CItem p => recentrel dec2f dec2d p recent T0
  | CArr _ => exists pre its T sepp,
                (pre = [] \/ exists n, 1 <= n /\ pre = dec_nat n ++ [120]) /\ arr_ok its T /\ sepw sepp /\
                recent = Some (pre ++ arr_text T ++ sepp ++ T0)
  end.

Lemma types_match_arr k b : types_match 97 (av_type (mk k b)) = false.
Proof. now destruct k. Qed.
Lemma types_match_refl_mk k b : types_match (av_type (mk k b)) (av_type (mk k b)) = true.
Proof. now destruct k. Qed.

Lemma tail_len6 k b last sp : (sp = [32] \/ sp = nl4) -> (5 <= length (tail_text k b last sp))%nat.
Proof. intros [->| ->]; unfold tail_text, ell4, nl4; rewrite !app_length; cbn [length]; lia. Qed.

(* a range tail directly after an array, scanner *)
Lemma tail_scan_arr q k b d m last sp rest acc fuel :
  item_ok None (ITail k b d m last sp) -> aft_ok q (ITail k b d m last sp) -> rest_ok rest ->
  mprev (CArr q) acc -> (length (tail_text k b last sp) <= fuel)%nat ->
  scan_arg_val dec2f dec2d fuel (tail_text k b last sp ++ rest) acc (Z.of_nat (length acc)) true
  = Ok ([VRep m 1; mk k d; mk k b], rest).
Proof.
  intros (Hrun & Hsp & Hunit) Haft Hr (Hne & l & Hl & Hq) Hf. pose proof (tail_len k b last sp).
  destruct fuel as [|[|f]]; try lia. cbn [ctx_ok] in Hunit.
  assert (Hu : scan_useless acc (Z.of_nat (length acc)) (mk k b) = Some (true, l)).
  { unfold scan_useless.
    replace (Z.of_nat (length acc) <? 1) with false by (symmetry; apply Z.ltb_ge; destruct acc; [congruence|cbn [length]; lia]).
    rewrite Hl. destruct q as [pv|].
    - subst l. cbn [aft_ok] in Haft. destruct Haft as [Ht| ->].
      + now rewrite Ht.
      + rewrite types_match_refl_mk. cbn [negb]. now rewrite cmp_mk, cmp3_0, Z.eqb_refl.
    - unfold types_match. rewrite Hq. now destruct k. }
  apply (scan_tail dec2f dec2d k b d m last sp rest f acc _ true l Hrun Hsp Hr Hu).
  left. split; [reflexivity|]. destruct Hunit. auto.
Qed.

(* a range tail directly after an array, checker: the array as a whole is the neighbour *)
Lemma chk_after_arr pre its T sepp k b last sp rest f ib :
  (pre = [] \/ exists n, 1 <= n /\ pre = dec_nat n ++ [120]) -> arr_ok its T -> sepw sepp ->
  small_k k b -> rest_ok rest -> (2 <= f)%nat ->
  chk_llhs dec2f dec2d (skip_next dec2f dec2d (S f)) (S f)
           (Some (pre ++ arr_text T ++ sepp ++ tail_text k b last sp ++ rest)) (ell_text k last sp rest)
           (av_type (mk k b)) (Some (mk k b)) ib = Ok (true, None).
Proof.
  intros Hpre Hok Hsepp Hsb Hr Hf.
  destruct (tok_k_first dec2f dec2d k b (small_good _ _ Hsb)) as (c1 & r1 & E1 & Hc1).
  assert (Hro : rest_ok (sepp ++ tail_text k b last sp ++ rest)).
  { unfold tail_text. rewrite E1. rewrite <- !app_assoc. cbn [app]. now apply rest_ok_sep. }
  destruct (arr_reads its T _ Hok Hro) as [Hs _].
  assert (Hcmp : chk_cmp dec2f dec2d (skip_next dec2f dec2d (S f)) (S f)
                   (arr_text T ++ sepp ++ tail_text k b last sp ++ rest) (av_type (mk k b)) (Some (mk k b)) ib
                 = Ok (true, None)).
  { unfold chk_cmp. rewrite (Hs f None false ib (or_intror Hf)). now rewrite types_match_arr. }
  cbn [chk_llhs]. destruct Hpre as [->|(n & Hn & ->)].
  - cbn [app]. unfold chk_l1, arr_text. cbn [app is_range_multiplier].
    change (isdigit 91) with false. cbn [andb]. rewrite hd0_cons. change (91 =? 91) with true. cbv iota. exact Hcmp.
  - rewrite <- app_assoc. cbn [app].
    destruct (rep_mult n (arr_text T) (sepp ++ tail_text k b last sp ++ rest) Hn) as (Hm1 & Hax & _).
    unfold chk_l1. rewrite Hm1, Hax. unfold arr_text at 1. cbn [app]. rewrite hd0_cons. change (91 =? 91) with true. cbv iota.
    exact Hcmp.
Qed.

Lemma tail_skip_arr q k b d m last sp rest recent fuel :
  item_ok None (ITail k b d m last sp) -> rest_ok rest ->
  mrecent (CArr q) recent (tail_text k b last sp ++ rest) -> (length (tail_text k b last sp) <= fuel)%nat ->
  skip_next dec2f dec2d fuel (tail_text k b last sp ++ rest) recent true false = Ok (rest, 3, 45).
Proof.
  intros (Hrun & Hsp & Hunit) Hr (pre & its & T & sepp & Hpre & Hok & Hsepp & ->) Hf.
  pose proof (tail_len6 k b last sp Hsp).
  destruct fuel as [|[|[|[|f]]]]; try lia. cbn [ctx_ok] in Hunit.
  pose proof (chk_after_arr pre its T sepp k b last sp rest (S (S f)) false Hpre Hok Hsepp (proj1 Hrun) Hr ltac:(lia)) as Hchk.
  apply (skip_tail dec2f dec2d k b d m last sp rest (S (S f)) _ false true None Hrun Hsp Hr Hchk).
  left. split; [reflexivity|]. destruct Hunit. auto.
Qed.

(* one element, scanner *)
Lemma m_scan c m rest acc fuel :
  m_ok c m -> rest_ok rest -> mprev c acc -> (length (m_text m) <= fuel)%nat ->
  scan_arg_val dec2f dec2d fuel (m_text m ++ rest) acc (Z.of_nat (length acc)) true = Ok (m_slots m, rest).
Proof.
  intros Hok Hr Hp Hf. destruct m as [it|its T|n its T]; cbn [m_ok m_text m_slots] in *.
  - destruct c as [p|q].
    + exact (item_scan dec2f dec2d p it rest acc fuel Hok Hr Hp Hf).
    + destruct Hok as [Hok Haft]. destruct (is_tail it) eqn:Et.
      * destruct it as [| |k b d m last sp]; try discriminate. cbn [item_text item_slots] in *.
        exact (tail_scan_arr q k b d m last sp rest acc fuel Hok Haft Hr Hp Hf).
      * exact (item_scan_nt it rest fuel acc _ Et Hok Hr Hf).
  - destruct fuel; [cbn in Hf; lia|]. destruct (arr_reads its T rest Hok Hr) as [_ Hs].
    apply Hs. unfold arr_text in Hf. cbn [length] in Hf. rewrite app_length in Hf. cbn [length] in Hf. lia.
  - destruct Hok as [Hn Hok]. destruct (rep_arr_reads n its T rest Hn Hok Hr) as [_ Hs].
    destruct (dec_nat_hd n ltac:(lia)) as (d & tl & E & Hd).
    assert (Hl : (length T + 4 <= fuel)%nat).
    { rewrite E in Hf. unfold arr_text in Hf. cbn [length app] in Hf. rewrite app_length in Hf. cbn [length] in Hf.
      rewrite app_length in Hf. cbn [length] in Hf. lia. }
    destruct fuel as [|[|f]]; try lia. apply Hs. lia.
Qed.

(* one element, checker *)
Lemma m_skip c m rest recent fuel :
  m_ok c m -> rest_ok rest -> mrecent c recent (m_text m ++ rest) -> (length (m_text m) <= fuel)%nat ->
  exists ty, skip_next dec2f dec2d fuel (m_text m ++ rest) recent true false
             = Ok (rest, Z.of_nat (length (m_slots m)), ty).
Proof.
  intros Hok Hr Hrec Hf. destruct m as [it|its T|n its T]; cbn [m_ok m_text m_slots] in *.
  - destruct c as [p|q].
    + exact (item_skip dec2f dec2d p it rest recent fuel Hok Hr Hrec Hf).
    + destruct Hok as [Hok Haft]. destruct (is_tail it) eqn:Et.
      * destruct it as [| |k b d m last sp]; try discriminate. cbn [item_text item_slots] in *.
        exists 45. exact (tail_skip_arr q k b d m last sp rest recent fuel Hok Hr Hrec Hf).
      * exact (item_skip_nt it rest recent fuel Et Hok Hr Hf).
  - destruct fuel; [cbn in Hf; lia|]. destruct (arr_reads its T rest Hok Hr) as [Hs _].
    exists 97. apply Hs. left. unfold arr_text in Hf. cbn [length] in Hf. rewrite app_length in Hf. cbn [length] in Hf. lia.
  - destruct Hok as [Hn Hok]. destruct (rep_arr_reads n its T rest Hn Hok Hr) as [Hs _].
    destruct (dec_nat_hd n ltac:(lia)) as (d & tl & E & Hd).
    assert (Hl : (length T + 4 <= fuel)%nat).
    { rewrite E in Hf. unfold arr_text in Hf. cbn [length app] in Hf. rewrite app_length in Hf. cbn [length] in Hf.
      rewrite app_length in Hf. cbn [length] in Hf. lia. }
    destruct fuel as [|[|f]]; try lia. exists 45. rewrite Hs by lia. f_equal. f_equal. f_equal. cbn [length]. lia.
Qed.

(* after an element: the invariant and the scanner's left neighbour *)
Lemma m_after c m acc : m_ok c m -> Jm acc ->
  Jm (acc ++ m_slots m) /\ mprev (m_next m) (acc ++ m_slots m).
Proof.
  intros Hok HJ.
  destruct m as [it|its T|n its T]; cbn [m_slots m_next] in *.
  - destruct (m_item_ok _ _ Hok) as (p & Hokp).
    split; [apply J_Jm; exact (J_step_w _ _ _ Hokp (Jm_Jw _ HJ))|].
    cbn [mprev]. split; [discriminate|]. intros pv Epv. inversion Epv; subst pv.
    split; [exact (item_scalar_last _ _ _ _ Hokp)|]. split; [|exact (scan_llhs_item_m p it acc Hokp HJ)].
    destruct (item_slots it) eqn:E; [destruct it; discriminate|]. intros E0. apply app_eq_nil in E0 as [_ E0]. discriminate.
  - cbn [m_ok] in Hok. unfold arr_slots.
    set (h := VArr (lty 32 its) (Z.of_nat (length (islots its)))).
    change (acc ++ h :: islots its) with (acc ++ [h] ++ islots its). rewrite app_assoc.
    destruct (arr_after acc [h] its T Hok HJ (or_introl (ex_intro _ _ (ex_intro _ _ eq_refl)))) as [HJ' Hl].
    split; [exact HJ'|]. cbn [mprev]. split; [|exact Hl].
    intros E0. apply app_eq_nil in E0 as [E0 _]. apply app_eq_nil in E0 as [_ E0]. discriminate.
  - cbn [m_ok] in Hok. destruct Hok as [Hn Hok]. unfold arr_slots.
    set (h := VArr (lty 32 its) (Z.of_nat (length (islots its)))).
    change (acc ++ VRep n 0 :: h :: islots its) with (acc ++ [VRep n 0; h] ++ islots its). rewrite app_assoc.
    destruct (arr_after acc [VRep n 0; h] its T Hok HJ (or_intror (ex_intro _ _ (ex_intro _ _ (ex_intro _ _ eq_refl))))) as [HJ' Hl].
    split; [exact HJ'|]. cbn [mprev]. split; [|exact Hl].
    intros E0. apply app_eq_nil in E0 as [E0 _]. apply app_eq_nil in E0 as [_ E0]. discriminate.
Qed.

(* the checker's pointer after an element *)
Lemma m_recent_next c m sep T0 : m_ok c m -> sepw sep -> mrecent (m_next m) (Some (m_text m ++ sep ++ T0)) T0.
Proof.
  intros Hok Hsep. destruct m as [it|its T|n its T]; cbn [m_next m_text mrecent m_ok] in *.
  - destruct (m_item_ok _ _ Hok) as (p & Hokp). cbn [recentrel]. exists p, it, sep. repeat split; try assumption; apply Hsep.
  - exists [], its, T, sep. split; [now left|]. split; [exact Hok|]. split; [exact Hsep|]. reflexivity.
  - destruct Hok as [Hn Hok]. exists (dec_nat n ++ [120]), its, T, sep.
    split; [right; exists n; split; [lia|reflexivity]|]. split; [exact Hok|]. split; [exact Hsep|].
    rewrite <- !app_assoc. reflexivity.
Qed.

Lemma scan_loop_mseq ms T c : mseq c ms T ->
  forall fuel i n acc, i = Z.of_nat (length acc) -> Jm acc -> mprev c acc ->
  n = i + Z.of_nat (length (mslots ms)) -> (length ms < fuel)%nat ->
  scan_loop dec2f dec2d fuel T i n acc = Ok (acc ++ mslots ms, []).
Proof.
  induction 1 as [c|c m Hok|c m sep m' ms T Hok Hsep HL IH]; intros fuel i n acc Hi HJ Hprev Hn Hf.
  - destruct fuel; [lia|]. cbn [scan_loop]. cbn in Hn. replace (n <=? i) with true by lia.
    unfold mslots. cbn. now rewrite app_nil_r.
  - destruct fuel; [lia|]. unfold mslots in *. cbn [map concat] in *. rewrite app_nil_r in *.
    pose proof (m_slots_pos m) as Hpos.
    cbn [scan_loop]. replace (n <=? i) with false by lia.
    pose proof (m_scan c m [] acc (length (m_text m)) Hok rest_ok_nil Hprev ltac:(lia)) as Hs.
    rewrite app_nil_r in Hs. subst i. rewrite Hs.
    rewrite (m_slots_offset _ _ Hok).
    destruct fuel; [cbn in Hf; lia|]. cbn [scan_loop length skip_ws_comments skip_ws dropwhile].
    cbn [hd0 at_ nth Z.eqb]. replace (n <=? Z.of_nat (length acc) + Z.of_nat (length (m_slots m))) with true by lia.
    reflexivity.
  - destruct fuel; [lia|].
    destruct (mseq_first _ _ _ _ HL) as (c' & r' & -> & Hc').
    pose proof (rest_ok_sep sep c' r' Hsep Hc') as Hro.
    pose proof (m_slots_pos m) as Hpos.
    unfold mslots in *. cbn [map concat] in Hn |- *. rewrite app_length in Hn.
    cbn [scan_loop]. replace (n <=? i) with false by lia.
    pose proof (m_scan c m _ acc (length (m_text m ++ sep ++ c' :: r')) Hok Hro Hprev
                  ltac:(rewrite app_length; lia)) as Hs.
    subst i. rewrite Hs. rewrite (m_slots_offset _ _ Hok).
    rewrite skip_ws_comments_tok by (try apply Hsep; assumption).
    destruct (m_after c m acc Hok HJ) as [HJ' Hp'].
    rewrite (IH fuel _ n (acc ++ m_slots m)).
    + now rewrite <- app_assoc.
    + rewrite app_length. lia.
    + exact HJ'.
    + exact Hp'.
    + cbn [map concat]. lia.
    + cbn [length] in *. lia.
Qed.

Lemma count_loop_mseq ms T c : mseq c ms T ->
  forall fuel recent num, mrecent c recent T -> (length T < fuel)%nat ->
  count_loop dec2f dec2d fuel T recent num = Ok (true, num + Z.of_nat (length (mslots ms))).
Proof.
  induction 1 as [c|c m Hok|c m sep m' ms T Hok Hsep HL IH]; intros fuel recent num Hrec Hf.
  - destruct fuel; [cbn in Hf; lia|]. cbn. f_equal. f_equal. lia.
  - destruct fuel; [lia|]. destruct (m_first _ _ Hok) as (x & r & E & Hx).
    destruct Hx as (H0 & H47 & H37 & Hsp & H46 & H40).
    assert (Hh : hd0 (m_text m) = x) by (rewrite E; reflexivity).
    cbn [count_loop]. rewrite !Hh. replace ((x =? 0) || (x =? 47)) with false by lia.
    rewrite <- (app_nil_r (m_text m)) in Hrec.
    destruct (m_skip c m [] recent (length (m_text m)) Hok rest_ok_nil Hrec ltac:(lia)) as [ty Es].
    rewrite app_nil_r in Es. rewrite Es.
    cbn [skip_ws dropwhile]. cbn [hd0 at_ nth Z.eqb negb andb].
    destruct fuel; [rewrite E in Hf; cbn in Hf; lia|]. cbn [count_loop hd0 at_ nth Z.eqb orb].
    f_equal. f_equal. unfold mslots. cbn [map concat]. now rewrite app_nil_r.
  - destruct fuel; [lia|]. destruct (m_first _ _ Hok) as (x & r & E & Hx).
    destruct (mseq_first _ _ _ _ HL) as (c' & r' & -> & Hc').
    pose proof (rest_ok_sep sep c' r' Hsep Hc') as Hro.
    destruct Hx as (H0 & H47 & H37 & Hsp & H46 & H40).
    assert (Hh : forall X, hd0 (m_text m ++ X) = x) by (intros; rewrite E; reflexivity).
    cbn [count_loop]. rewrite !Hh. replace ((x =? 0) || (x =? 47)) with false by lia.
    destruct (m_skip c m _ recent (length (m_text m ++ sep ++ c' :: r')) Hok Hro Hrec
                ltac:(rewrite app_length; lia)) as [ty Es].
    rewrite Es.
    destruct Hc' as (H0' & H47' & H37' & Hsp' & H46' & H40').
    rewrite skip_ws_sep by (try apply Hsep; now rewrite hd0_cons).
    rewrite hd0_cons. replace (negb (c' =? 0) && negb (isspace c')) with true
      by (rewrite Hsp'; symmetry; lia).
    rewrite skip_comments_ws_no by assumption.
    rewrite (IH fuel).
    + f_equal. f_equal. unfold mslots. cbn [map concat]. rewrite !app_length. lia.
    + exact (m_recent_next c m sep (c' :: r') Hok Hsep).
    + rewrite !app_length in Hf. rewrite E in Hf. cbn [length] in *. lia.
Qed.

Lemma mslots_len ms : (length ms <= length (mslots ms))%nat.
Proof.
  unfold mslots. induction ms as [|m ms IH]; [cbn; lia|].
  cbn [map concat length]. rewrite app_length. pose proof (m_slots_pos m). lia.
Qed.

(* both recognisers read a mixed sequence back *)
Theorem mseq_reads ms T :
  mseq (CItem None) ms T ->
  count_printed_arg_vals dec2f dec2d T = Ok (true, Z.of_nat (length (mslots ms))) /\
  scan_arg_vals dec2f dec2d T (Z.of_nat (length (mslots ms))) = Ok (mslots ms, []).
Proof.
  intros HL. split.
  - unfold count_printed_arg_vals.
    assert (E : skip_comments_ws (S (length (skip_ws T))) (skip_ws T) = T).
    { destruct ms as [|m ms].
      - inversion HL; subst. reflexivity.
      - destruct (mseq_first _ _ _ _ HL) as (x & r & -> & Hx).
        destruct Hx as (H0 & H47 & H37 & Hsp & H46 & H40).
        rewrite skip_ws_nonspace by now rewrite hd0_cons. now apply skip_comments_ws_no. }
    rewrite E. rewrite (count_loop_mseq _ _ _ HL); [reflexivity|reflexivity|lia].
  - unfold scan_arg_vals.
    rewrite (scan_loop_mseq _ _ _ HL _ 0 _ []); try reflexivity; try exact I.
    + split; [reflexivity|discriminate].
    + pose proof (mslots_len ms). rewrite Nat2Z.id. lia.
Qed.
End Mixed.

(* non-vacuity: "[1 ... 6 9] true 3 ... 7" - an array with a range inside, a value
   of another type, then a range tail (the tail does not follow the array directly) *)
Section Example.
Variables dec2f dec2d : list Z -> Z.

Lemma ival_ok p z : - 2 ^ 31 <= z < 2 ^ 31 -> item_ok dec2f dec2d p (IVal (VI z) (print_d z)).
Proof.
  intros Hz. cbn [item_ok]. split; [exact (tok_k_tokof dec2f dec2d KI z Hz)|].
  apply nodot_sdots. eapply Forall_impl; [|apply print_d_chars]. cbn. lia.
Qed.

Lemma itail_ok p b m : - 2 ^ 30 <= b < 2 ^ 30 -> 2 <= m < 1000 ->
  (forall pv, p = Some pv -> types_match (av_type pv) 105 = false) ->
  item_ok dec2f dec2d p (ITail KI b 1 m (b + (m - 1)) [32]).
Proof.
  intros Hb Hm Hp. cbn [item_ok]. split; [|split; [now left|]].
  - unfold run_ok, small_k, good_k, inr. repeat split; try lia.
  - unfold ctx_ok. destruct p as [pv|]; [|unfold unit_step; lia].
    cbn [mk av_type]. rewrite (Hp pv eq_refl). unfold unit_step. lia.
Qed.

Definition ex_inner : list item := [ITail KI 1 1 6 6 [32]; IVal (VI 9) (print_d 9)].
Definition ex_mixed : list mi :=
  [MA ex_inner (tail_text KI 1 6 [32] ++ [32] ++ print_d 9);
   MI (ITail KI 9 1 5 13 [32]); MI (IVal VT kw_true); MR 3 [] []].

(* "[1 ... 6 9] 9 ... 13 true 3x[]": the tail 9 ... 13 directly follows the array,
   whose last value is the tail's first *)
Lemma mixed_example :
  exists T, mseq dec2f dec2d (CItem None) ex_mixed T /\
            T = [91; 49; 32; 46; 46; 46; 32; 54; 32; 57; 93; 32; 57; 32; 46; 46; 46; 32; 49; 51; 32;
                 116; 114; 117; 101; 32; 51; 120; 91; 93].
Proof.
  eexists. split; [|reflexivity].
  unfold ex_mixed.
  apply (MS_cons dec2f dec2d (CItem None) (MA ex_inner (tail_text KI 1 6 [32] ++ [32] ++ print_d 9)) [32]
           (MI (ITail KI 9 1 5 13 [32])) [MI (IVal VT kw_true); MR 3 [] []]
           (tail_text KI 9 13 [32] ++ [32] ++ kw_true ++ [32] ++ dec_nat 3 ++ 120 :: arr_text []));
    [|apply sepw_32|].
  - cbn [m_ok]. right. split; [|split; [discriminate|cbn; tauto]].
    unfold ex_inner.
    apply (IS_cons dec2f dec2d None (ITail KI 1 1 6 6 [32]) [32] (IVal (VI 9) (print_d 9)) [] (print_d 9));
      [|apply sepw_32|].
    + exact (itail_ok None 1 6 ltac:(lia) ltac:(lia) ltac:(discriminate)).
    + apply (IS_one dec2f dec2d (Some (mk KI 6)) (IVal (VI 9) (print_d 9))). apply ival_ok. lia.
  - apply (MS_cons dec2f dec2d (CArr (Some (VI 9))) (MI (ITail KI 9 1 5 13 [32])) [32] (MI (IVal VT kw_true)) [MR 3 [] []]
             (kw_true ++ [32] ++ dec_nat 3 ++ 120 :: arr_text [])); [|apply sepw_32|].
    + cbn [m_ok]. split; [|right; reflexivity].
      exact (itail_ok None 9 5 ltac:(lia) ltac:(lia) ltac:(discriminate)).
    + apply (MS_cons dec2f dec2d (CItem (Some (mk KI 13))) (MI (IVal VT kw_true)) [32] (MR 3 [] []) []
               (dec_nat 3 ++ 120 :: arr_text [])); [|apply sepw_32|].
      * cbn [m_ok item_ok]. split.
        -- exact (proj1 (scalar_tok dec2f dec2d {| lossless := true; prec := 2; linelength := 80; compress := false |}
                          VT 0 _ _ _ I eq_refl)).
        -- apply nodot_sdots. repeat constructor; lia.
      * apply (MS_one dec2f dec2d (CItem (Some VT)) (MR 3 [] [])). cbn [m_ok]. split; [lia|]. left. split; reflexivity.
Qed.
(* white space between tokens is arbitrary: "1" newline four blanks "true" tab "-7" *)
Lemma linebreak_example :
  lang dec2f dec2d [VI 1; VT; VI (-7)] ([49] ++ nl4 ++ kw_true ++ [9] ++ [45; 55]).
Proof.
  apply (L_cons dec2f dec2d (VI 1) [49] nl4 VT [VI (-7)] (kw_true ++ [9] ++ [45; 55])); [|apply sepw_nl4|].
  - exact (tok_k_tokof dec2f dec2d KI 1 ltac:(cbn; lia)).
  - apply (L_cons dec2f dec2d VT kw_true [9] (VI (-7)) [] [45; 55]).
    + exact (proj1 (scalar_tok dec2f dec2d {| lossless := true; prec := 2; linelength := 80; compress := false |}
                      VT 0 _ _ _ I eq_refl)).
    + split; [discriminate|]. repeat constructor.
    + apply L_one. exact (tok_k_tokof dec2f dec2d KI (-7) ltac:(cbn; lia)).
Qed.
End Example.
