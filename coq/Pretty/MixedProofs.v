(* C10/C11 - arrays among other values of a list: both recognisers read a
   sequence of items (values, repetitions, range tails - ListProofs) and
   non-empty arrays of items (ArrayProofs), separated by white space, provided
   that NO RANGE TAIL "b ... c" DIRECTLY FOLLOWS AN ARRAY.  That exclusion is the
   finding class range-after-array: the checker looks for the left neighbour of
   the tail in the text of the array, the scanner in the slots before. *)
From Coq Require Import List ZArith Bool Lia.
From RtoscV Require Import Pretty.Tok Pretty.FloatFmt Pretty.PrintModel Pretty.ScanModel
  Pretty.PrettyProofs Pretty.RangeProofs Pretty.RunProofs Pretty.FloatProofs Pretty.ListProofs Pretty.ArrayProofs.
Import ListNotations.
Local Open Scope Z_scope.

Inductive mi :=
| MI (it : item)
| MA (its : list item) (T : list Z).      (* "[" T "]" *)

Definition m_text (m : mi) : list Z :=
  match m with MI it => item_text it | MA _ T => 91 :: T ++ [93] end.
Definition m_slots (m : mi) : list av :=
  match m with
  | MI it => item_slots it
  | MA its _ => VArr (lty 32 its) (Z.of_nat (length (islots its))) :: islots its
  end.
Definition is_tail (it : item) : bool := match it with ITail _ _ _ _ _ _ => true | _ => false end.

(* the context: Some p = the element before was an item (p its last original
   value, None at the start of the text), None = it was an array *)
Definition mctx := option (option av).
Definition m_next (m : mi) : mctx := match m with MI it => Some (Some (item_last it)) | MA _ _ => None end.

Section Mixed.
Variables dec2f dec2d : list Z -> Z.
Notation item_ok := (item_ok dec2f dec2d).
Notation iseq := (iseq dec2f dec2d).

Definition m_ok (c : mctx) (m : mi) : Prop :=
  match m with
  | MI it => match c with
             | Some p => item_ok p it
             | None => is_tail it = false /\ item_ok None it     (* no range tail after an array *)
             end
  | MA its T => iseq None its T /\ its <> [] /\ atys_ok 0 its
  end.

Inductive mseq : mctx -> list mi -> list Z -> Prop :=
| MS_nil c : mseq c [] []
| MS_one c m : m_ok c m -> mseq c [m] (m_text m)
| MS_cons c m sep m' ms T :
    m_ok c m -> sepw sep -> mseq (m_next m) (m' :: ms) T ->
    mseq c (m :: m' :: ms) (m_text m ++ sep ++ T).

Definition mslots (ms : list mi) : list av := concat (map m_slots ms).

Lemma m_first c m : m_ok c m -> exists x r, m_text m = x :: r /\ first_ok x.
Proof.
  destruct m as [it|its T]; cbn [m_ok m_text].
  - destruct c as [p|]; [apply item_first|intros [_ H]; exact (item_first _ _ _ _ H)].
  - intros _. eexists _, _. split; [reflexivity|]. unfold first_ok, isspace, in_range. lia.
Qed.

Lemma mseq_first c m ms T : mseq c (m :: ms) T -> exists x r, T = x :: r /\ first_ok x.
Proof.
  intros H. inversion H as [|? ? Hok|? ? ? ? ? ? Hok _ _]; subst.
  - exact (m_first _ _ Hok).
  - destruct (m_first _ _ Hok) as (x & r & E & Hx). rewrite E. eexists _, _. split; [reflexivity|exact Hx].
Qed.

Lemma m_slots_offset c m : m_ok c m -> slots_offset (m_slots m) = Z.of_nat (length (m_slots m)).
Proof.
  destruct m as [it|its T]; cbn [m_ok m_slots].
  - destruct c as [p|]; [apply item_slots_offset|intros [_ H]; exact (item_slots_offset _ _ _ _ H)].
  - intros _. cbn [slots_offset length]. lia.
Qed.

Lemma m_slots_pos m : (1 <= length (m_slots m))%nat.
Proof. destruct m as [[| |]|]; cbn; lia. Qed.

(* ---- the invariant of the scanner: J on the slots written ---------------------------- *)
Definition Jw (acc : list av) : Prop :=
  match rev acc with [] => True | y :: _ => forall n h, y <> VRep n h end.

Lemma J_Jw acc : J acc -> Jw acc.
Proof.
  unfold J, Jw. destruct (rev acc) as [|x r]; [auto|]. intros [Hx _] n h ->. exact Hx.
Qed.

Lemma J_step_w p it acc : item_ok p it -> Jw acc -> J (acc ++ item_slots it).
Proof.
  intros Hok HJ. pose proof (item_scalar_last _ _ _ _ Hok) as Hsl.
  destruct it as [v t|n v t|k b d m last sp]; cbn [item_slots item_last] in *;
    unfold J; rewrite rev_app_distr; cbn [rev app].
  - split; [exact Hsl|]. unfold Jw in HJ. destruct (rev acc) as [|y r]; [exact I|].
    intros n h E. exfalso. exact (HJ n h E).
  - split; [exact Hsl|]. intros n0 h E. now inversion E.
  - split; [now destruct k|]. intros n0 h E. destruct k; discriminate.
Qed.

Lemma J_islots its T p : iseq p its T -> its <> [] -> forall acc, Jw acc -> J (acc ++ islots its).
Proof.
  induction 1 as [p|p it Hok|p it sep it' its T Hok Hsep HL IH]; intros Hne acc HJ; [congruence| |].
  - unfold islots. cbn [map concat]. rewrite app_nil_r. exact (J_step_w _ _ _ Hok HJ).
  - unfold islots. cbn [map concat]. rewrite app_assoc. apply IH; [discriminate|].
    apply J_Jw. exact (J_step_w _ _ _ Hok HJ).
Qed.

Lemma J_array acc its T : iseq None its T -> its <> [] ->
  J (acc ++ VArr (lty 32 its) (Z.of_nat (length (islots its))) :: islots its).
Proof.
  intros HL Hne. change (acc ++ ?h :: islots its) with (acc ++ [h] ++ islots its). rewrite app_assoc.
  apply (J_islots _ _ _ HL Hne). unfold Jw. rewrite rev_app_distr. cbn [rev app]. intros n h. discriminate.
Qed.

(* ---- items that are no tails need no context ------------------------------------------- *)
Lemma item_scan_nt it rest fuel before nb :
  is_tail it = false -> item_ok None it -> rest_ok rest -> (length (item_text it) <= fuel)%nat ->
  scan_arg_val dec2f dec2d fuel (item_text it ++ rest) before nb true = Ok (item_slots it, rest).
Proof.
  intros Hnt Hok Hr Hf.
  destruct it as [v t|n v t|k b d m last sp]; cbn [item_ok item_text item_slots] in *; [| |discriminate].
  - destruct Hok as [(Hrd & (c & r & -> & _) & _) _]. destruct fuel; [cbn in Hf; lia|]. apply (Hrd rest Hr).
  - destruct Hok as (Hn & Htk & _).
    destruct (elof_rep dec2f dec2d n v t Hn Htk) as (He & _ & _). apply (proj2 (He rest Hr)). exact Hf.
Qed.

Lemma item_skip_nt it rest recent fuel :
  is_tail it = false -> item_ok None it -> rest_ok rest -> (length (item_text it) <= fuel)%nat ->
  exists ty, skip_next dec2f dec2d fuel (item_text it ++ rest) recent true false
             = Ok (rest, Z.of_nat (length (item_slots it)), ty).
Proof.
  intros Hnt Hok Hr Hf.
  destruct it as [v t|n v t|k b d m last sp]; cbn [item_ok item_text item_slots] in *; [| |discriminate].
  - destruct Hok as [(Hrd & (c & r & -> & _) & _) _]. destruct fuel; [cbn in Hf; lia|].
    exists (av_type v). apply (Hrd rest Hr).
  - destruct Hok as (Hn & Htk & _).
    destruct (elof_rep dec2f dec2d n v t Hn Htk) as (He & _ & _). apply (proj1 (He rest Hr)). exact Hf.
Qed.

Definition mprev (c : mctx) (acc : list av) : Prop := forall p, c = Some p -> prevrel p acc.
Definition mrecent (c : mctx) (recent : option (list Z)) (T : list Z) : Prop :=
  forall p, c = Some p -> recentrel dec2f dec2d p recent T.

(* one element, scanner *)
Lemma m_scan c m rest acc fuel :
  m_ok c m -> rest_ok rest -> mprev c acc -> (length (m_text m) <= fuel)%nat ->
  scan_arg_val dec2f dec2d fuel (m_text m ++ rest) acc (Z.of_nat (length acc)) true = Ok (m_slots m, rest).
Proof.
  intros Hok Hr Hp Hf. destruct m as [it|its T]; cbn [m_ok m_text m_slots] in *.
  - destruct c as [p|].
    + exact (item_scan dec2f dec2d p it rest acc fuel Hok Hr (Hp p eq_refl) Hf).
    + destruct Hok as [Hnt Hok]. exact (item_scan_nt it rest fuel acc _ Hnt Hok Hr Hf).
  - destruct Hok as (HL & Hne & Hty). destruct fuel; [cbn in Hf; lia|].
    destruct (array_reads dec2f dec2d its T HL Hne Hty rest Hr) as [_ Hs].
    replace ((91 :: T ++ [93]) ++ rest) with (91 :: T ++ 93 :: rest) by (cbn [app]; now rewrite <- app_assoc).
    apply Hs. cbn [length] in Hf. rewrite app_length in Hf. cbn [length] in Hf. lia.
Qed.

(* one element, checker *)
Lemma m_skip c m rest recent fuel :
  m_ok c m -> rest_ok rest -> mrecent c recent (m_text m ++ rest) -> (length (m_text m) <= fuel)%nat ->
  exists ty, skip_next dec2f dec2d fuel (m_text m ++ rest) recent true false
             = Ok (rest, Z.of_nat (length (m_slots m)), ty).
Proof.
  intros Hok Hr Hrec Hf. destruct m as [it|its T]; cbn [m_ok m_text m_slots] in *.
  - destruct c as [p|].
    + exact (item_skip dec2f dec2d p it rest recent fuel Hok Hr (Hrec p eq_refl) Hf).
    + destruct Hok as [Hnt Hok]. exact (item_skip_nt it rest recent fuel Hnt Hok Hr Hf).
  - destruct Hok as (HL & Hne & Hty). destruct fuel; [cbn in Hf; lia|].
    destruct (array_reads dec2f dec2d its T HL Hne Hty rest Hr) as [Hs _].
    replace ((91 :: T ++ [93]) ++ rest) with (91 :: T ++ 93 :: rest) by (cbn [app]; now rewrite <- app_assoc).
    exists 97. rewrite Hs by (cbn [length] in Hf; rewrite app_length in Hf; cbn [length] in Hf; lia).
    f_equal. f_equal. f_equal. cbn [length]. lia.
Qed.

(* after an element: J and the scanner's left neighbour *)
Lemma m_after c m acc : m_ok c m -> J acc \/ acc = [] ->
  J (acc ++ m_slots m) /\ mprev (m_next m) (acc ++ m_slots m).
Proof.
  intros Hok HJ. assert (HJw : Jw acc) by (destruct HJ as [HJ| ->]; [now apply J_Jw|exact I]).
  assert (HJ' : J acc) by (destruct HJ as [HJ| ->]; [exact HJ|exact I]).
  destruct m as [it|its T]; cbn [m_ok m_slots m_next] in *.
  - assert (Hok' : exists p, item_ok p it) by (destruct c as [p|]; [eauto|destruct Hok; eauto]).
    destruct Hok' as (p & Hokp).
    destruct (scan_llhs_item dec2f dec2d p it acc Hokp HJ') as [HJ2 Hll]. split; [exact HJ2|].
    intros q Eq. inversion Eq; subst q. split; [discriminate|]. intros pv Epv. inversion Epv; subst pv.
    split; [exact (item_scalar_last _ _ _ _ Hokp)|]. split; [|exact Hll].
    destruct (item_slots it) eqn:E; [destruct it; discriminate|]. intros E0. apply app_eq_nil in E0 as [_ E0]. discriminate.
  - destruct Hok as (HL & Hne & _). split; [now apply (J_array acc its T)|]. intros q Eq. discriminate.
Qed.

Lemma scan_loop_mseq ms T c : mseq c ms T ->
  forall fuel i n acc, i = Z.of_nat (length acc) -> J acc \/ acc = [] -> mprev c acc ->
  n = i + Z.of_nat (length (mslots ms)) -> (length ms < fuel)%nat ->
  scan_loop dec2f dec2d fuel T i n acc = Ok (acc ++ mslots ms, []).
Proof.
  induction 1 as [c|c m Hok|c m sep m' ms T Hok Hsep HL IH]; intros fuel i n acc Hi HJ Hprev Hn Hf.
  - destruct fuel; [lia|]. cbn [scan_loop]. cbn in Hn. replace (n <=? i) with true by lia.
    unfold mslots. cbn. now rewrite app_nil_r.
  - destruct fuel; [lia|]. unfold mslots in *. cbn [map concat] in *. rewrite app_nil_r in *.
    pose proof (m_slots_pos m) as Hpos.
    cbn [scan_loop]. replace (n <=? i) with false by lia.
    pose proof (m_scan c m [] acc (length (m_text m)) Hok rest_ok_nil Hprev ltac:(lia)) as Hs.
    rewrite app_nil_r in Hs. subst i. rewrite Hs.
    rewrite (m_slots_offset _ _ Hok).
    destruct fuel; [cbn in Hf; lia|]. cbn [scan_loop length skip_ws_comments skip_ws dropwhile].
    cbn [hd0 at_ nth Z.eqb]. replace (n <=? Z.of_nat (length acc) + Z.of_nat (length (m_slots m))) with true by lia.
    reflexivity.
  - destruct fuel; [lia|].
    destruct (mseq_first _ _ _ _ HL) as (c' & r' & -> & Hc').
    pose proof (rest_ok_sep sep c' r' Hsep Hc') as Hro.
    pose proof (m_slots_pos m) as Hpos.
    unfold mslots in *. cbn [map concat] in Hn |- *. rewrite app_length in Hn.
    cbn [scan_loop]. replace (n <=? i) with false by lia.
    pose proof (m_scan c m _ acc (length (m_text m ++ sep ++ c' :: r')) Hok Hro Hprev
                  ltac:(rewrite app_length; lia)) as Hs.
    subst i. rewrite Hs. rewrite (m_slots_offset _ _ Hok).
    rewrite skip_ws_comments_tok by (try apply Hsep; assumption).
    destruct (m_after c m acc Hok HJ) as [HJ' Hp'].
    rewrite (IH fuel _ n (acc ++ m_slots m)).
    + now rewrite <- app_assoc.
    + rewrite app_length. lia.
    + now left.
    + exact Hp'.
    + cbn [map concat]. lia.
    + cbn [length] in *. lia.
Qed.

Lemma count_loop_mseq ms T c : mseq c ms T ->
  forall fuel recent num, mrecent c recent T -> (length T < fuel)%nat ->
  count_loop dec2f dec2d fuel T recent num = Ok (true, num + Z.of_nat (length (mslots ms))).
Proof.
  induction 1 as [c|c m Hok|c m sep m' ms T Hok Hsep HL IH]; intros fuel recent num Hrec Hf.
  - destruct fuel; [cbn in Hf; lia|]. cbn. f_equal. f_equal. lia.
  - destruct fuel; [lia|]. destruct (m_first _ _ Hok) as (x & r & E & Hx).
    destruct Hx as (H0 & H47 & H37 & Hsp & H46 & H40).
    assert (Hh : hd0 (m_text m) = x) by (rewrite E; reflexivity).
    cbn [count_loop]. rewrite !Hh. replace ((x =? 0) || (x =? 47)) with false by lia.
    rewrite <- (app_nil_r (m_text m)) in Hrec.
    destruct (m_skip c m [] recent (length (m_text m)) Hok rest_ok_nil Hrec ltac:(lia)) as [ty Es].
    rewrite app_nil_r in Es. rewrite Es.
    cbn [skip_ws dropwhile]. cbn [hd0 at_ nth Z.eqb negb andb].
    destruct fuel; [rewrite E in Hf; cbn in Hf; lia|]. cbn [count_loop hd0 at_ nth Z.eqb orb].
    f_equal. f_equal. unfold mslots. cbn [map concat]. now rewrite app_nil_r.
  - destruct fuel; [lia|]. destruct (m_first _ _ Hok) as (x & r & E & Hx).
    destruct (mseq_first _ _ _ _ HL) as (c' & r' & -> & Hc').
    pose proof (rest_ok_sep sep c' r' Hsep Hc') as Hro.
    destruct Hx as (H0 & H47 & H37 & Hsp & H46 & H40).
    assert (Hh : forall X, hd0 (m_text m ++ X) = x) by (intros; rewrite E; reflexivity).
    cbn [count_loop]. rewrite !Hh. replace ((x =? 0) || (x =? 47)) with false by lia.
    destruct (m_skip c m _ recent (length (m_text m ++ sep ++ c' :: r')) Hok Hro Hrec
                ltac:(rewrite app_length; lia)) as [ty Es].
    rewrite Es.
    destruct Hc' as (H0' & H47' & H37' & Hsp' & H46' & H40').
    rewrite skip_ws_sep by (try apply Hsep; now rewrite hd0_cons).
    rewrite hd0_cons. replace (negb (c' =? 0) && negb (isspace c')) with true
      by (rewrite Hsp'; symmetry; lia).
    rewrite skip_comments_ws_no by assumption.
    rewrite (IH fuel).
    + f_equal. f_equal. unfold mslots. cbn [map concat]. rewrite !app_length. lia.
    + intros p Ep. destruct m as [it|its0 T0]; cbn [m_next] in Ep; [|discriminate]. inversion Ep; subst p.
      cbn [m_text m_ok] in *. cbn [recentrel].
      assert (Hok' : exists p, item_ok p it) by (destruct c as [p|]; [eauto|destruct Hok; eauto]).
      destruct Hok' as (p & Hokp). exists p, it, sep. repeat split; try assumption; apply Hsep.
    + rewrite !app_length in Hf. rewrite E in Hf. cbn [length] in *. lia.
Qed.

(* both recognisers read a mixed sequence back *)
Theorem mseq_reads ms T :
  mseq (Some None) ms T ->
  count_printed_arg_vals dec2f dec2d T = Ok (true, Z.of_nat (length (mslots ms))) /\
  scan_arg_vals dec2f dec2d T (Z.of_nat (length (mslots ms))) = Ok (mslots ms, []).
Proof.
  intros HL. split.
  - unfold count_printed_arg_vals.
    assert (E : skip_comments_ws (S (length (skip_ws T))) (skip_ws T) = T).
    { destruct ms as [|m ms].
      - inversion HL; subst. reflexivity.
      - destruct (mseq_first _ _ _ _ HL) as (x & r & -> & Hx).
        destruct Hx as (H0 & H47 & H37 & Hsp & H46 & H40).
        rewrite skip_ws_nonspace by now rewrite hd0_cons. now apply skip_comments_ws_no. }
    rewrite E. rewrite (count_loop_mseq _ _ _ HL); [reflexivity| |lia].
    intros p Ep. inversion Ep; subst p. reflexivity.
  - unfold scan_arg_vals.
    rewrite (scan_loop_mseq _ _ _ HL _ 0 _ []); try reflexivity.
    + now right.
    + intros p Ep. inversion Ep; subst p. split; [reflexivity|discriminate].
    + assert (Hle : (length ms <= length (mslots ms))%nat).
      { clear HL. unfold mslots. induction ms as [|m ms IH]; [cbn; lia|].
        cbn [map concat length]. rewrite app_length. pose proof (m_slots_pos m). lia. }
      rewrite Nat2Z.id. lia.
Qed.
End Mixed.

(* non-vacuity: "[1 ... 6 9] true 3 ... 7" - an array with a range inside, a value
   of another type, then a range tail (the tail does not follow the array directly) *)
Section Example.
Variables dec2f dec2d : list Z -> Z.

Lemma ival_ok p z : - 2 ^ 31 <= z < 2 ^ 31 -> item_ok dec2f dec2d p (IVal (VI z) (print_d z)).
Proof.
  intros Hz. cbn [item_ok]. split; [exact (tok_k_tokof dec2f dec2d KI z Hz)|].
  apply nodot_sdots. eapply Forall_impl; [|apply print_d_chars]. cbn. lia.
Qed.

Lemma itail_ok p b m : - 2 ^ 30 <= b < 2 ^ 30 -> 2 <= m < 1000 ->
  (forall pv, p = Some pv -> types_match (av_type pv) 105 = false) ->
  item_ok dec2f dec2d p (ITail KI b 1 m (b + (m - 1)) [32]).
Proof.
  intros Hb Hm Hp. cbn [item_ok]. split; [|split; [now left|]].
  - unfold run_ok, small_k, good_k, inr. repeat split; try lia.
  - unfold ctx_ok. destruct p as [pv|]; [|unfold unit_step; lia].
    cbn [mk av_type]. rewrite (Hp pv eq_refl). unfold unit_step. lia.
Qed.

Definition ex_inner : list item := [ITail KI 1 1 6 6 [32]; IVal (VI 9) (print_d 9)].
Definition ex_mixed : list mi :=
  [MA ex_inner (tail_text KI 1 6 [32] ++ [32] ++ print_d 9);
   MI (IVal VT kw_true); MI (ITail KI 3 1 5 7 [32])].

Lemma mixed_example :
  exists T, mseq dec2f dec2d (Some None) ex_mixed T /\
            T = [91; 49; 32; 46; 46; 46; 32; 54; 32; 57; 93; 32; 116; 114; 117; 101; 32; 51; 32; 46; 46; 46; 32; 55].
Proof.
  eexists. split; [|reflexivity].
  unfold ex_mixed.
  apply (MS_cons dec2f dec2d (Some None) (MA ex_inner (tail_text KI 1 6 [32] ++ [32] ++ print_d 9)) [32]
           (MI (IVal VT kw_true)) [MI (ITail KI 3 1 5 7 [32])] (kw_true ++ [32] ++ tail_text KI 3 7 [32]));
    [|apply sepw_32|].
  - cbn [m_ok]. split; [|split; [discriminate|cbn; tauto]].
    unfold ex_inner.
    apply (IS_cons dec2f dec2d None (ITail KI 1 1 6 6 [32]) [32] (IVal (VI 9) (print_d 9)) [] (print_d 9));
      [|apply sepw_32|].
    + exact (itail_ok None 1 6 ltac:(lia) ltac:(lia) ltac:(discriminate)).
    + apply (IS_one dec2f dec2d (Some (mk KI 6)) (IVal (VI 9) (print_d 9))). apply ival_ok. lia.
  - apply (MS_cons dec2f dec2d None (MI (IVal VT kw_true)) [32] (MI (ITail KI 3 1 5 7 [32])) []
             (tail_text KI 3 7 [32])); [|apply sepw_32|].
    + cbn [m_ok]. split; [reflexivity|]. cbn [item_ok]. split.
      * exact (proj1 (scalar_tok dec2f dec2d {| lossless := true; prec := 2; linelength := 80; compress := false |}
                        VT 0 _ _ _ I eq_refl)).
      * apply nodot_sdots. repeat constructor; lia.
    + apply (MS_one dec2f dec2d (Some (Some VT)) (MI (ITail KI 3 1 5 7 [32]))). cbn [m_ok].
      exact (itail_ok (Some VT) 3 5 ltac:(lia) ltac:(lia) ltac:(intros pv E; inversion E; reflexivity)).
Qed.
End Example.
