(* C10 - time tags: the 32-bit fraction of a second survives the float it is
   printed through (when it fits a float), and the value of a time tag is
   rebuilt from the calendar fields under the round-trip hypothesis on the
   calendar pair. *)
From Coq Require Import List ZArith Bool Lia ZifyBool.
From RtoscV Require Import Pretty.Tok Pretty.FloatFmt Pretty.TimeFmt Pretty.PrintModel Pretty.ScanModel
  Pretty.PrettyProofs Pretty.FloatProofs.
Import ListNotations.
Local Open Scope Z_scope.

(* a fraction that is representable as a float: at most 24 significant bits *)
Definition frac_fits_float (sf : Z) : Prop :=
  exists m j, sf = m * 2 ^ j /\ 0 < m < 2 ^ 24 /\ 0 <= j /\ sf < 2 ^ 32.

Lemma pow2_split a b : 0 <= a -> 0 <= b -> 2 ^ (a + b) = 2 ^ a * 2 ^ b.
Proof. intros. now rewrite Z.pow_add_r. Qed.

(* the float of such a fraction: exponent field L + 95, fraction q - 2^23 with
   q * 2^L = sf * 2^23 *)
Lemma secfracs2float_bits sf : frac_fits_float sf ->
  let L := Z.log2 sf in
  exists q, 2 ^ 23 <= q < 2 ^ 24 /\ q * 2 ^ L = sf * 2 ^ 23 /\ 0 <= L <= 31 /\
            secfracs2float sf = (L + 95) * 2 ^ 23 + (q - 2 ^ 23).
Proof.
  intros (m & j & Esf & Hm & Hj & Hlt) L.
  assert (Hsf0 : 0 < sf) by (pose proof (pow2_gt0 j Hj); nia).
  pose proof (Z.log2_spec sf Hsf0) as HL. fold L in HL. pose proof (Z.log2_nonneg sf) as HL0. fold L in HL0.
  assert (HL31 : L < 32) by (apply (Z.pow_lt_mono_r_iff 2); lia).
  (* q *)
  assert (Hq : exists q, q * 2 ^ L = sf * 2 ^ 23 /\ (L <= 23 -> q = sf * 2 ^ (23 - L)) /\ (23 < L -> sf = q * 2 ^ (L - 23))).
  { destruct (Z_le_gt_dec L 23) as [Hle|Hgt].
    - exists (sf * 2 ^ (23 - L)). split; [|split; [auto|lia]].
      rewrite <- Z.mul_assoc, <- pow2_split by lia. do 2 f_equal. lia.
    - (* sf = m * 2^j with m < 2^24 and 2^L <= sf: j >= L - 23 *)
      assert (Hjl : L - 23 <= j).
      { destruct (Z_le_gt_dec (L - 23) j) as [H|H]; [exact H|exfalso].
        assert (2 ^ L = 2 ^ j * 2 ^ (L - j)) by (rewrite <- pow2_split by lia; f_equal; lia).
        assert (2 ^ 24 <= 2 ^ (L - j)) by (apply Z.pow_le_mono_r; lia).
        pose proof (pow2_gt0 j Hj). nia. }
      exists (m * 2 ^ (j - (L - 23))). split; [|split; [lia|]].
      + rewrite Esf. rewrite <- !Z.mul_assoc. f_equal. rewrite <- !pow2_split by lia. f_equal. lia.
      + intros _. rewrite Esf, <- Z.mul_assoc, <- pow2_split by lia. do 2 f_equal. lia. }
  destruct Hq as (q & Eq & Hq1 & Hq2).
  assert (Hqr : 2 ^ 23 <= q < 2 ^ 24).
  { pose proof (pow2_gt0 L HL0) as HP. rewrite Z.pow_succ_r in HL by lia.
    change (2 ^ 24) with (2 * 2 ^ 23). split; nia. }
  exists q. split; [exact Hqr|]. split; [exact Eq|]. split; [lia|].
  unfold secfracs2float.
  destruct (Z_le_gt_dec L 23) as [Hle|Hgt].
  - pose proof (to_bits_gen 23 8 false sf (-32) L q (23 - L) 0) as H. cbv zeta in H.
    change (2 ^ (8 - 1) - 1) with 127 in H. rewrite Z.max_l in H by lia.
    rewrite H; try lia.
  - pose proof (to_bits_gen 23 8 false sf (-32) L q 0 (L - 23)) as H. cbv zeta in H.
    change (2 ^ (8 - 1) - 1) with 127 in H. rewrite Z.max_l in H by lia.
    rewrite H; try lia.
Qed.

(* THE FRACTION: printed through a float and read back by rtosc_float2secfracs *)
Theorem secfracs_roundtrip sf : frac_fits_float sf -> float2secfracs (secfracs2float sf) = Some sf.
Proof.
  intros Hfit. destruct (secfracs2float_bits sf Hfit) as (q & Hq & Eq & HL & Eb). cbv zeta in *.
  set (L := Z.log2 sf) in *. set (b := secfracs2float sf) in *.
  assert (Hb : 0 <= b < 2 ^ 32) by (rewrite Eb; nia).
  assert (He32 : b / 2 ^ 23 mod 2 ^ 8 = L + 95 /\ b mod 2 ^ 23 = q - 2 ^ 23).
  { rewrite Eb. split.
    - rewrite Z.div_add_l by lia. rewrite (Z.div_small (q - 2 ^ 23)) by lia. rewrite Z.add_0_r. apply Z.mod_small. lia.
    - rewrite Z.add_comm, Z.mod_add by lia. apply Z.mod_small. lia. }
  destruct He32 as [He32 Hf32].
  assert (Hfin : f32_finite b = true).
  { unfold f32_finite. rewrite He32. apply negb_true_iff. apply Z.eqb_neq. lia. }
  destruct (f32_to_f64_fields b Hb Hfin) as (E & Fd & Ed & HE & HFd & Hcase). cbv zeta in *.
  rewrite He32, Hf32 in Hcase.
  destruct Hcase as [(H1 & _)|[(H1 & _)|(_ & HEv & HFv)]]; try lia.
  assert (Hs0 : b / 2 ^ 31 mod 2 = 0).
  { rewrite Z.div_small by (rewrite Eb; nia). reflexivity. }
  rewrite Hs0 in Ed.
  destruct (fields64 0 E Fd ltac:(lia) HE HFd) as (F1 & F2 & F3). cbv zeta in *.
  replace (0 * 2 ^ 63 + E * 2 ^ 52 + Fd) with (f32_to_f64 b) in * by lia.
  unfold float2secfracs. rewrite F2, F3.
  replace ((E =? 0) && (Fd =? 0)) with false by (symmetry; apply andb_false_iff; left; lia).
  replace (E =? 0) with false by lia.
  replace (E - 1023 =? 0) with false by lia. replace (0 <? E - 1023) with false by lia.
  destruct (frac_digits Fd HFd) as (Hx & Hk & HF). cbv zeta in *.
  set (frac := strip0 (hex_fixed 13 Fd [])) in *. set (k := Z.of_nat (length frac)) in *.
  assert (HM : fst (read_digs isxdigit 16 (49 :: frac) 0) = 16 ^ k + fold_left hstep frac 0).
  { rewrite <- (app_nil_r (49 :: frac)). rewrite read_hex_app; [|constructor; [reflexivity|exact Hx]|reflexivity].
    cbn [fst fold_left]. change (hstep 0 49) with 1. rewrite fold_hstep_shift. fold k. lia. }
  rewrite HM. set (F := fold_left hstep frac 0) in *.
  (* (16^k + F) * 16^(13-k) = 2^52 + Fd = q * 2^29 *)
  assert (Hk13 : 0 <= k <= 13) by lia.
  assert (E16 : 2 ^ (4 * k) * 2 ^ (52 - 4 * k) = 2 ^ 23 * 2 ^ 29)
    by (rewrite <- pow2_split by lia; replace (4 * k + (52 - 4 * k)) with 52 by lia; reflexivity).
  assert (HMq : (16 ^ k + F) * 2 ^ (52 - 4 * k) = q * 2 ^ 29).
  { rewrite pow16 in HF by lia. replace (4 * (13 - k)) with (52 - 4 * k) in HF by lia.
    rewrite pow16 by lia. rewrite HFv in HF. rewrite Z.mul_add_distr_r, E16, HF. ring. }
  rewrite pow16 in * by lia. set (M := 2 ^ (4 * k) + F) in *.
  replace (32 + (E - 1023) - 4 * k) with (L - 4 * k) by lia.
  f_equal.
  (* sf * 2^52 = q * 2^29 * 2^L = M * 2^(52 - 4k) * 2^L *)
  assert (Hkey : sf * 2 ^ 52 = M * 2 ^ (52 - 4 * k) * 2 ^ L).
  { rewrite HMq. replace (2 ^ 52) with (2 ^ 23 * 2 ^ 29) by reflexivity. nia. }
  pose proof (pow2_gt0 52 ltac:(lia)) as HP52.
  destruct (0 <=? L - 4 * k) eqn:Els.
  - apply Z.leb_le in Els.
    assert (E2 : 2 ^ (52 - 4 * k) * 2 ^ L = 2 ^ (L - 4 * k) * 2 ^ 52)
      by (rewrite <- !pow2_split by lia; f_equal; lia).
    apply (Z.mul_cancel_r _ _ (2 ^ 52)); [lia|]. rewrite Hkey. rewrite <- !Z.mul_assoc. f_equal. symmetry. exact E2.
  - apply Z.leb_gt in Els.
    assert (E2 : 2 ^ 52 = 2 ^ (52 - 4 * k) * 2 ^ L * 2 ^ (- (L - 4 * k)))
      by (rewrite <- !pow2_split by lia; f_equal; lia).
    assert (HMs : M = sf * 2 ^ (- (L - 4 * k))).
    { pose proof (pow2_gt0 (52 - 4 * k) ltac:(lia)). pose proof (pow2_gt0 L ltac:(lia)).
      apply (Z.mul_cancel_r _ _ (2 ^ (52 - 4 * k) * 2 ^ L)); [nia|].
      rewrite Z.mul_assoc, <- Hkey. rewrite E2 at 1. ring. }
    rewrite HMs. apply Z.div_mul. pose proof (pow2_gt0 (- (L - 4 * k)) ltac:(lia)). lia.
Qed.

(* ------------------------------------------------------------------------- *)
(* THE CALENDAR: mktime (localtime s) = s for every 32-bit number of seconds
   (TZ=UTC; days 0 .. 59999 reach the year 2134).  All divisions are by constants:
   linear integer arithmetic. *)
Ltac Zify.zify_post_hook ::= Z.div_mod_to_equations.

Lemma civil_roundtrip z : 0 <= z < 60000 ->
  let '(y, m, d) := civil_from_days z in days_from_civil y m d = z /\ 1 <= m <= 12 /\ 1 <= d <= 31 /\ 1970 <= y <= 2200.
Proof.
  intros Hz. unfold civil_from_days, days_from_civil.
  set (zz := z + 719468). set (era := zz / 146097). set (doe := zz - era * 146097).
  set (yoe := (doe - doe / 1460 + doe / 36524 - doe / 146096) / 365).
  set (doy := doe - (365 * yoe + yoe / 4 - yoe / 100)).
  set (mp := (5 * doy + 2) / 153).
  set (d := doy - (153 * mp + 2) / 5 + 1).
  assert (Hera : 4 <= era <= 5) by (unfold era, zz; lia).
  assert (Hdoe : 0 <= doe < 146097) by (unfold doe, era, zz; lia).
  assert (Hyoe : 0 <= yoe <= 399) by (unfold yoe; lia).
  assert (Hdoy : 0 <= doy <= 365) by (unfold doy, yoe; lia).
  assert (Hmp : 0 <= mp <= 11) by (unfold mp; lia).
  assert (Hd : 1 <= d <= 31) by (unfold d, mp; lia).
  destruct (mp <? 10) eqn:Emp.
  - replace (mp + 3 <=? 2) with false by lia. replace (2 <? mp + 3) with true by lia.
    replace (mp + 3 - 3) with mp by lia.
    replace ((yoe + era * 400) / 400) with era by lia.
    replace (yoe + era * 400 - era * 400) with yoe by lia.
    split; [|lia]. unfold d, doy, doe. lia.
  - destruct (mp - 9 <=? 2) eqn:E2; [|lia].
    replace (2 <? mp - 9) with false by lia.
    replace (yoe + era * 400 + 1 - 1) with (yoe + era * 400) by lia.
    replace ((yoe + era * 400) / 400) with era by lia.
    replace (yoe + era * 400 - era * 400) with yoe by lia.
    replace (mp - 9 + 9) with mp by lia.
    split; [|lia]. unfold d, doy, doe. lia.
Qed.

Theorem calendar_roundtrip s : 0 <= s < 2 ^ 32 ->
  let '(y, mo, d, h, mi, se) := date_of_secs s in
  secs_of_date y mo d h mi se = s /\
  1970 <= y <= 2200 /\ 1 <= mo <= 12 /\ 1 <= d <= 31 /\ 0 <= h < 24 /\ 0 <= mi < 60 /\ 0 <= se < 60.
Proof.
  intros Hs. unfold date_of_secs, secs_of_date.
  assert (Hz : 0 <= s / 86400 < 60000) by lia.
  pose proof (civil_roundtrip (s / 86400) Hz) as H.
  destruct (civil_from_days (s / 86400)) as [[y m] d]. destruct H as (Hd & Hm & Hdd & Hy).
  rewrite Hd. repeat split; try lia.
Qed.
Ltac Zify.zify_post_hook ::= idtac.

(* THE VALUE OF A TIME TAG is rebuilt from what the printer writes - the calendar
   fields of its seconds and, through a float, its fraction - when the fraction
   is 0 or fits a float *)
Theorem timetag_value_roundtrip t : 0 <= t < 2 ^ 64 ->
  let secs := t / 2 ^ 32 in let sf := t mod 2 ^ 32 in
  sf = 0 \/ frac_fits_float sf ->
  let '(y, mo, d, h, mi, se) := date_of_secs secs in
  exists sf', (if sf =? 0 then Some 0 else float2secfracs (secfracs2float sf)) = Some sf' /\
              secs_of_date y mo d h mi se mod 2 ^ 32 * 2 ^ 32 + sf' mod 2 ^ 32 = t.
Proof.
  intros Ht secs sf Hsf.
  assert (Hsecs : 0 <= secs < 2 ^ 32) by (unfold secs; split; [apply Z.div_pos; lia|apply Z.div_lt_upper_bound; lia]).
  assert (Hsfr : 0 <= sf < 2 ^ 32) by (unfold sf; apply Z.mod_pos_bound; lia).
  pose proof (calendar_roundtrip secs Hsecs) as Hc.
  destruct (date_of_secs secs) as [[[[[y mo] d] h] mi] se]. destruct Hc as (Hc & _).
  exists sf. split.
  - destruct Hsf as [->|Hfit]; [reflexivity|].
    replace (sf =? 0) with false by (destruct Hfit as (m & j & E & Hm & Hj & _); pose proof (pow2_gt0 j Hj); symmetry; apply Z.eqb_neq; nia).
    now apply secfracs_roundtrip.
  - rewrite Hc, !Z.mod_small by lia. unfold secs, sf. pose proof (Z.div_mod t (2 ^ 32) ltac:(lia)). lia.
Qed.

(* ------------------------------------------------------------------------- *)
(* concrete time tags through the text: every form of the printer (date; date and
   clock time; with seconds; with a fraction and its exact value; immediately),
   printed, counted and scanned by the model functions *)
Definition ex_timetags : list av :=
  [VTm 1;                                     (* immediately *)
   VTm (1479081600 * 2 ^ 32);                 (* 2016-11-14 *)
   VTm (1479144360 * 2 ^ 32);                 (* 2016-11-14 17:26 *)
   VTm (1479144390 * 2 ^ 32);                 (* 2016-11-14 17:26:30 *)
   VTm (1479144390 * 2 ^ 32 + 2 ^ 31);        (* ... .50 (...+0x1p-1s) *)
   VTm (4294967295 * 2 ^ 32 + 3 * 2 ^ 8);     (* 2106-02-07 06:28:15.00 (...+0x1.8p-23s) *)
   VI 12].

Lemma timetag_examples (dec2f dec2d : list Z -> Z) :
  let o := {| lossless := true; prec := 2; linelength := 80; compress := false |} in
  exists text w, print_arg_vals o ex_timetags 0 = Some (text, w) /\ w = len text /\
    count_printed_arg_vals dec2f dec2d text = Ok (true, 7) /\
    scan_arg_vals dec2f dec2d text 7 = Ok (ex_timetags, []).
Proof. cbv zeta. eexists _, _. split; [vm_compute; reflexivity|]. split; [reflexivity|]. split; vm_compute; reflexivity. Qed.
