(* C10 - proofs about the printer / checker / scanner models.
   Part 1: numerals.  Part 2: one lemma per token class (the checker and the
   scanner both read a printed token back, whatever follows it).  Part 3: the
   printer's output is a sequence of tokens separated by " " or "\n    ".
   Part 4: the two top-level loops over such a sequence.  *)
From Coq Require Import List ZArith Bool Lia.
From RtoscV Require Import Pretty.Tok Pretty.FloatFmt Pretty.PrintModel Pretty.ScanModel.
Import ListNotations.
Local Open Scope Z_scope.

(* ------------------------------------------------------------------------- *)
(* Part 1: decimal numerals                                                   *)
Definition dstep (a d : Z) : Z := a * 10 + (d - 48).

Lemma isdigit_spec c : isdigit c = true <-> 48 <= c <= 57.
Proof. unfold isdigit, in_range. lia. Qed.

Lemma digval_digit c : isdigit c = true -> digval c = c - 48.
Proof. intros H. unfold digval. now rewrite H. Qed.

Lemma read_digs_app ds rest a :
  Forall (fun c => isdigit c = true) ds -> isdigit (hd0 rest) = false ->
  read_digs isdigit 10 (ds ++ rest) a = (fold_left dstep ds a, rest).
Proof.
  revert a. induction ds as [|d ds IH]; intros a Hd Hr; cbn [app fold_left].
  - destruct rest as [|c r]; cbn [read_digs]; [reflexivity|].
    unfold hd0, at_ in Hr. cbn in Hr. now rewrite Hr.
  - inversion Hd as [|? ? H1 H2]; subst. cbn [read_digs]. rewrite H1.
    rewrite (digval_digit _ H1). apply IH; assumption.
Qed.

Lemma dec_fuel_val f : forall n tl,
  0 <= n < 2 ^ Z.of_nat f ->
  fold_left dstep (dec_fuel f n tl) 0 = fold_left dstep tl n.
Proof.
  induction f as [|f IH]; intros n tl Hn.
  - cbn in Hn. assert (n = 0) by lia. subst. reflexivity.
  - cbn [dec_fuel]. destruct (n <? 10) eqn:E.
    + cbn [fold_left]. unfold dstep at 2.
      replace (0 * 10 + (48 + n mod 10 - 48)) with n; [reflexivity|].
      rewrite Z.mod_small; lia.
    + rewrite IH.
      * cbn [fold_left]. f_equal. unfold dstep.
        pose proof (Z.div_mod n 10 ltac:(lia)). lia.
      * rewrite Nat2Z.inj_succ, Z.pow_succ_r in Hn by lia.
        split; [apply Z.div_pos; lia|].
        apply Z.div_lt_upper_bound; lia.
Qed.

Lemma dec_fuel_digits f : forall n tl,
  0 <= n -> Forall (fun c => isdigit c = true) tl ->
  Forall (fun c => isdigit c = true) (dec_fuel f n tl).
Proof.
  induction f as [|f IH]; intros n tl Hn Ht; cbn [dec_fuel]; [assumption|].
  assert (Hd : isdigit (48 + n mod 10) = true).
  { apply isdigit_spec. pose proof (Z.mod_pos_bound n 10 ltac:(lia)). lia. }
  destruct (n <? 10); [constructor; assumption|].
  apply IH; [apply Z.div_pos; lia | constructor; assumption].
Qed.

(* the first digit of a positive number is not 0 *)
Lemma dec_fuel_hd f : forall n tl,
  0 < n < 2 ^ Z.of_nat f ->
  exists d tl', dec_fuel f n tl = (48 + d) :: tl' /\ 1 <= d <= 9.
Proof.
  induction f as [|f IH]; intros n tl Hn.
  - cbn in Hn. lia.
  - cbn [dec_fuel]. destruct (n <? 10) eqn:E.
    + exists (n mod 10), tl. split; [reflexivity|]. rewrite Z.mod_small; lia.
    + apply IH. rewrite Nat2Z.inj_succ, Z.pow_succ_r in Hn by lia.
      split; [apply Z.div_str_pos; lia|]. apply Z.div_lt_upper_bound; lia.
Qed.

Lemma dec_nat_bound n : 0 <= n -> 0 <= n < 2 ^ Z.of_nat (S (Z.to_nat (Z.log2 n))).
Proof.
  intros Hn. split; [assumption|].
  rewrite Nat2Z.inj_succ, Z2Nat.id by apply Z.log2_nonneg.
  destruct (Z.eq_dec n 0) as [->|Hz]; [cbn; lia|].
  apply Z.log2_spec. lia.
Qed.

Lemma dec_nat_val n : 0 <= n -> fold_left dstep (dec_nat n) 0 = n.
Proof. intros H. unfold dec_nat. rewrite dec_fuel_val by (apply dec_nat_bound; lia). reflexivity. Qed.

Lemma dec_nat_digits n : 0 <= n -> Forall (fun c => isdigit c = true) (dec_nat n).
Proof. intros H. apply dec_fuel_digits; [assumption | constructor]. Qed.

Lemma dec_nat_hd n : 0 < n -> exists d tl, dec_nat n = (48 + d) :: tl /\ 1 <= d <= 9.
Proof.
  intros H. unfold dec_nat. apply dec_fuel_hd.
  pose proof (dec_nat_bound n ltac:(lia)). lia.
Qed.

Lemma dec_nat_0 : dec_nat 0 = [48].
Proof. reflexivity. Qed.

Lemma dec_nat_nonempty n : 0 <= n -> exists c tl, dec_nat n = c :: tl /\ isdigit c = true.
Proof.
  intros H. pose proof (dec_nat_digits n H) as Hd.
  destruct (Z.eq_dec n 0) as [->|Hz].
  - exists 48, []. split; reflexivity.
  - destruct (dec_nat_hd n ltac:(lia)) as (d & tl & E & Hr). exists (48 + d), tl.
    split; [assumption|]. apply isdigit_spec. lia.
Qed.

(* ------------------------------------------------------------------------- *)
(* Part 2: tokens.  What may follow a printed token: the end of the text,     *)
(* white space or ']' , and no ellipsis after the white space.                *)
Ltac neqs :=
  repeat match goal with
         | |- context [?a =? ?b] =>
             first [ rewrite (proj2 (Z.eqb_neq a b)) by lia
                   | rewrite (proj2 (Z.eqb_eq a b)) by lia ]
         end.
Ltac neqs_in H :=
  repeat match type of H with
         | context [?a =? ?b] =>
             first [ rewrite (proj2 (Z.eqb_neq a b)) in H by lia
                   | rewrite (proj2 (Z.eqb_eq a b)) in H by lia ]
         end.

Definition endc (c : Z) : bool := isspace c || (c =? 93).
(* rest_ok0: what may follow a value inside "a ... b" as well *)
Definition rest_ok0 (rest : str) : Prop :=
  (rest = [] \/ endc (hd0 rest) = true) /\ hd0 (skip_ws rest) <> 40.
Definition rest_ok (rest : str) : Prop :=
  rest_ok0 rest /\ starts_with ellipsis (skip_ws rest) = false.

Lemma isspace_spec c : isspace c = true <-> (9 <= c <= 13 \/ c = 32).
Proof. unfold isspace, in_range. lia. Qed.

Lemma endc_spec c : endc c = true <-> (9 <= c <= 13 \/ c = 32 \/ c = 93).
Proof. unfold endc. rewrite orb_true_iff, isspace_spec, Z.eqb_eq. lia. Qed.

Lemma rest_ok_inv rest :
  rest_ok0 rest -> rest = [] \/ exists c r, rest = c :: r /\ (9 <= c <= 13 \/ c = 32 \/ c = 93).
Proof.
  intros [[->|H] _]; [now left|]. destruct rest as [|c r]; [now left|].
  right. exists c, r. split; [reflexivity|]. now apply endc_spec.
Qed.

Lemma rest_ok_ell rest : rest_ok rest -> starts_with ellipsis (skip_ws rest) = false.
Proof. now intros [_ H]. Qed.

Lemma rest_ok_hd rest : rest_ok0 rest ->
  hd0 rest = 0 \/ 9 <= hd0 rest <= 13 \/ hd0 rest = 32 \/ hd0 rest = 93.
Proof.
  intros H. destruct (rest_ok_inv _ H) as [->|(c & r & -> & Hc)]; [now left|].
  right. exact Hc.
Qed.

Lemma word_end_rest rest : rest_ok0 rest -> word_end_ok rest = true.
Proof.
  intros H. destruct (rest_ok_inv _ H) as [->|(c & r & -> & Hc)]; [reflexivity|].
  unfold word_end_ok, isspace, in_range. lia.
Qed.

Lemma hd0_cons c r : hd0 (c :: r) = c. Proof. reflexivity. Qed.
Lemma hd0_app_cons c t r : hd0 ((c :: t) ++ r) = c. Proof. reflexivity. Qed.

Lemma skip_ws_nonspace s : isspace (hd0 s) = false -> skip_ws s = s.
Proof. destruct s as [|c r]; [reflexivity|]. unfold hd0, at_. cbn. intros ->. reflexivity. Qed.

Lemma lit_none c s : hd0 s <> c -> lit c s = None.
Proof. destruct s as [|x r]; [reflexivity|]. cbn. intros H. now rewrite (proj2 (Z.eqb_neq x c)). Qed.

(* a token made of characters that end no numeric literal *)
Definition tokch (c : Z) : bool :=
  negb (isspace c || (c =? 41) || (c =? 93) || (c =? 46)).

Lemma tok_end_app t rest :
  Forall (fun c => tokch c = true) t -> rest_ok0 rest -> tok_end (t ++ rest) = rest.
Proof.
  intros Ht Hr. induction Ht as [|c t Hc Ht IH]; cbn [app].
  - destruct (rest_ok_inv _ Hr) as [->|(c & r & -> & Hc)]; [reflexivity|].
    cbn [tok_end]. replace (isspace c || (c =? 41) || (c =? 93)) with true; [reflexivity|].
    symmetry. unfold isspace, in_range. lia.
  - cbn [tok_end]. unfold tokch in Hc. apply negb_true_iff in Hc.
    apply orb_false_iff in Hc as [Hc H46]. rewrite Hc. cbn [orb].
    replace (starts_with ellipsis (c :: t ++ rest)) with false; [exact IH|].
    symmetry. unfold starts_with, ellipsis. cbn [strip_prefix]. now rewrite H46.
Qed.

Lemma digit_tokch c : isdigit c = true -> tokch c = true.
Proof. rewrite isdigit_spec. intros H. unfold tokch, isspace, in_range. lia. Qed.

Lemma digits_tokch ds : Forall (fun c => isdigit c = true) ds -> Forall (fun c => tokch c = true) ds.
Proof. intros H. eapply Forall_impl; [|exact H]. intros a. apply digit_tokch. Qed.

(* ---- %d and %i read a printed decimal back ---------------------------------- *)
Lemma sc_sign_other c r : c <> 45 -> c <> 43 -> sc_sign (c :: r) = (false, c :: r).
Proof. intros A B. unfold sc_sign. now neqs. Qed.

Definition num_follow (rest : str) : Prop :=
  isdigit (hd0 rest) = false /\ hd0 rest <> 120 /\ hd0 rest <> 88.

Lemma rest_num_follow rest : rest_ok0 rest -> num_follow rest.
Proof.
  intros H. pose proof (rest_ok_hd _ H). unfold num_follow, isdigit, in_range. lia.
Qed.

Lemma sc_d_nat n rest : 0 <= n -> num_follow rest -> sc_d (dec_nat n ++ rest) = Some (n, rest).
Proof.
  intros Hn Hr. destruct (dec_nat_nonempty n Hn) as (c & tl & E & Hc).
  pose proof (dec_nat_digits n Hn) as Hd. pose proof (dec_nat_val n Hn) as Hv.
  rewrite E in *. apply isdigit_spec in Hc. unfold sc_d.
  rewrite skip_ws_nonspace by (cbn; unfold isspace, in_range; lia).
  cbn [app]. rewrite sc_sign_other by lia. rewrite hd0_cons.
  replace (isdigit c) with true by (symmetry; apply isdigit_spec; lia).
  change (c :: tl ++ rest) with ((c :: tl) ++ rest).
  rewrite read_digs_app by (try assumption; apply Hr).
  rewrite Hv. reflexivity.
Qed.

Lemma sc_d_print v rest : num_follow rest -> sc_d (print_d v ++ rest) = Some (v, rest).
Proof.
  intros Hr. unfold print_d. destruct (v <? 0) eqn:E.
  - destruct (dec_nat_nonempty (- v) ltac:(lia)) as (c & tl & E' & Hc).
    pose proof (dec_nat_digits (- v) ltac:(lia)) as Hd. pose proof (dec_nat_val (- v) ltac:(lia)) as Hv.
    rewrite E' in *. apply isdigit_spec in Hc. unfold sc_d. cbn [app].
    rewrite skip_ws_nonspace by reflexivity.
    unfold sc_sign. rewrite Z.eqb_refl. rewrite hd0_cons.
    replace (isdigit c) with true by (symmetry; apply isdigit_spec; lia).
    change (c :: tl ++ rest) with ((c :: tl) ++ rest).
    rewrite read_digs_app by (try assumption; apply Hr).
    rewrite Hv. unfold sgn. f_equal. f_equal. lia.
  - apply sc_d_nat; [lia | assumption].
Qed.

Lemma sc_i_body_nat neg n rest :
  0 <= n -> num_follow rest -> sc_i_body neg (dec_nat n ++ rest) = Some (sgn neg n, rest).
Proof.
  intros Hn Hr. destruct Hr as (Hr1 & Hr2 & Hr3).
  destruct (Z.eq_dec n 0) as [->|Hz].
  - rewrite dec_nat_0. cbn [app sc_i_body]. rewrite Z.eqb_refl. cbn [andb].
    replace ((hd0 rest =? 120) || (hd0 rest =? 88)) with false by (symmetry; lia).
    replace (isdigit 48) with true by reflexivity.
    cbn [read_digs]. replace (isodigit 48) with true by reflexivity.
    destruct rest as [|c r]; cbn [read_digs]; [destruct neg; reflexivity|].
    unfold hd0, at_ in Hr1. cbn in Hr1.
    replace (isodigit c) with false
      by (symmetry; unfold isodigit, isdigit, in_range in *; lia).
    destruct neg; reflexivity.
  - destruct (dec_nat_hd n ltac:(lia)) as (d & tl & E & Hd).
    pose proof (dec_nat_digits n Hn) as Hds. pose proof (dec_nat_val n Hn) as Hv.
    rewrite E in *. cbn [app sc_i_body].
    replace (48 + d =? 48) with false by (symmetry; lia). cbn [andb].
    replace (isdigit (48 + d)) with true by (symmetry; apply isdigit_spec; lia).
    change ((48 + d) :: tl ++ rest) with (((48 + d) :: tl) ++ rest).
    rewrite read_digs_app by assumption.
    rewrite Hv. reflexivity.
Qed.

Lemma sc_i_print v rest : num_follow rest -> sc_i (print_d v ++ rest) = Some (v, rest).
Proof.
  intros Hr. unfold print_d, sc_i. destruct (v <? 0) eqn:E.
  - cbn [app]. rewrite skip_ws_nonspace by reflexivity.
    unfold sc_sign. rewrite Z.eqb_refl.
    rewrite sc_i_body_nat by (try assumption; lia). unfold sgn. f_equal. f_equal. lia.
  - destruct (dec_nat_nonempty v ltac:(lia)) as (c & tl & E' & Hc).
    apply isdigit_spec in Hc. rewrite E'. cbn [app].
    rewrite skip_ws_nonspace by (cbn; unfold isspace, in_range; lia).
    rewrite sc_sign_other by lia.
    change (c :: tl ++ rest) with ((c :: tl) ++ rest). rewrite <- E'.
    rewrite sc_i_body_nat by (try assumption; lia). reflexivity.
Qed.

Lemma print_d_tokch v : Forall (fun c => tokch c = true) (print_d v).
Proof.
  unfold print_d. destruct (v <? 0) eqn:E.
  - constructor; [reflexivity|]. apply digits_tokch, dec_nat_digits. lia.
  - apply digits_tokch, dec_nat_digits. lia.
Qed.

Lemma print_d_hd v : exists c tl, print_d v = c :: tl /\ (c = 45 \/ 48 <= c <= 57).
Proof.
  unfold print_d. destruct (v <? 0) eqn:E.
  - eexists _, _. split; [reflexivity|]. now left.
  - destruct (dec_nat_nonempty v ltac:(lia)) as (c & tl & E' & Hc).
    exists c, tl. split; [assumption|]. right. now apply isdigit_spec.
Qed.

Lemma print_d_shape v : exists sg c ds,
  print_d v = sg ++ c :: ds /\ (sg = [] \/ sg = [45]) /\ 48 <= c <= 57 /\
  Forall (fun c => isdigit c = true) ds.
Proof.
  unfold print_d. destruct (v <? 0) eqn:E.
  - destruct (dec_nat_nonempty (- v) ltac:(lia)) as (c & tl & E' & Hc).
    pose proof (dec_nat_digits (- v) ltac:(lia)) as Hd. rewrite E' in *.
    exists [45], c, tl. repeat split; try (now right); try (apply isdigit_spec in Hc; lia).
    now inversion Hd.
  - destruct (dec_nat_nonempty v ltac:(lia)) as (c & tl & E' & Hc).
    pose proof (dec_nat_digits v ltac:(lia)) as Hd. rewrite E' in *.
    exists [], c, tl. repeat split; try (now left); try (apply isdigit_spec in Hc; lia).
    now inversion Hd.
Qed.

Lemma dropwhile_app f ds tail :
  Forall (fun c => f c = true) ds -> f (hd0 tail) = false ->
  dropwhile f (ds ++ tail) = tail.
Proof.
  intros Hd Ht. induction Hd as [|c ds Hc Hd IH]; cbn [app].
  - destruct tail as [|c r]; [reflexivity|]. cbn in *. unfold hd0, at_ in Ht. cbn in Ht. now rewrite Ht.
  - cbn [dropwhile]. now rewrite Hc.
Qed.

Lemma rdw_hd_ne w : forall ds tail a,
  Forall (fun c => isdigit c = true) ds -> isdigit (hd0 tail) = false -> hd0 tail <> 45 ->
  hd0 (snd (read_digs_w w isdigit 10 (ds ++ tail) a)) <> 45.
Proof.
  induction w as [|w IH]; intros ds tail a Hd Ht H45.
  - cbn [read_digs_w snd]. destruct ds as [|d ds]; [exact H45|].
    inversion Hd; subst. cbn. apply isdigit_spec in H1. unfold hd0, at_. cbn. lia.
  - destruct ds as [|d ds]; cbn [app read_digs_w].
    + destruct tail as [|c r]; [cbn; unfold hd0, at_; cbn; lia|].
      unfold hd0, at_ in Ht. cbn in Ht. rewrite Ht. exact H45.
    + inversion Hd; subst. rewrite H1. apply IH; assumption.
Qed.

(* the date test "%*4d-..." fails on a numeral that is not followed by '-' *)
Lemma date_no sg c ds tail :
  (sg = [] \/ sg = [45]) -> 48 <= c <= 57 -> Forall (fun c => isdigit c = true) ds ->
  isdigit (hd0 tail) = false -> hd0 tail <> 45 ->
  skip_fmt fmt_date (sg ++ c :: ds ++ tail) = sg ++ c :: ds ++ tail.
Proof.
  intros Hsg Hc Hd Ht H45. unfold skip_fmt, fmt_date. cbn [run_fmt].
  assert (Hdig : isdigit c = true) by (apply isdigit_spec; lia).
  assert (E : forall w, lit 45 (snd (read_digs_w w isdigit 10 ((c :: ds) ++ tail) 0)) = None).
  { intros w. apply lit_none. apply rdw_hd_ne; [constructor|..]; assumption. }
  unfold sc_d_w. destruct Hsg as [->| ->]; cbn [app].
  - rewrite skip_ws_nonspace by (cbn; unfold isspace, in_range; lia).
    rewrite sc_sign_other by lia. rewrite Nat.eqb_refl, hd0_cons, Hdig. cbn [andb negb Nat.eqb].
    specialize (E 4%nat). cbn [app] in E.
    destruct (read_digs_w 4 isdigit 10 (c :: ds ++ tail) 0) as [v r]. cbn [snd] in E. now rewrite E.
  - rewrite skip_ws_nonspace by reflexivity.
    unfold sc_sign. rewrite Z.eqb_refl.
    match goal with |- context [Nat.eqb ?a ?b] =>
      assert (Hl : Nat.eqb a b = false) by (apply Nat.eqb_neq; cbn [length]; lia); rewrite Hl end.
    rewrite hd0_cons, Hdig. cbn [andb negb Nat.eqb Nat.pred].
    specialize (E 3%nat). cbn [app] in E.
    destruct (read_digs_w 3 isdigit 10 (c :: ds ++ tail) 0) as [v r]. cbn [snd] in E. now rewrite E.
Qed.

Lemma first_class_num c : c = 45 \/ 48 <= c <= 57 -> first_class c = FC_other.
Proof. intros H. unfold first_class. now neqs. Qed.

Lemma isidstart_num c : c = 45 \/ 48 <= c <= 57 -> isidstart c = false.
Proof. intros H. unfold isidstart, isalpha, isupper, islower, in_range. lia. Qed.

Lemma range_mult_no sg c ds tail :
  (sg = [] \/ sg = [45]) -> 48 <= c <= 57 -> Forall (fun c => isdigit c = true) ds ->
  isdigit (hd0 tail) = false -> hd0 tail <> 120 ->
  is_range_multiplier (sg ++ c :: ds ++ tail) = false.
Proof.
  intros Hsg Hc Hd Ht Hx. destruct Hsg as [->| ->]; cbn [app is_range_multiplier].
  - rewrite dropwhile_app by assumption.
    replace (hd0 tail =? 120) with false by (symmetry; lia). now rewrite !andb_false_r.
  - reflexivity.
Qed.

Lemma rest_ok_paren rest : rest_ok0 rest -> (hd0 (skip_ws rest) =? 40) = false.
Proof. intros [_ H]. now apply Z.eqb_neq. Qed.

Lemma st32_id v : - 2 ^ 31 <= v < 2 ^ 31 -> st32 v = v.
Proof.
  intros H. unfold st32, sat64, wrap32.
  replace (v <? - 2 ^ 63) with false by lia. replace (2 ^ 63 - 1 <? v) with false by lia.
  rewrite Z.mod_small by lia. lia.
Qed.

Lemma st64_id v : - 2 ^ 63 <= v < 2 ^ 63 -> st64 v = v.
Proof.
  intros H. unfold st64, sat64.
  replace (v <? - 2 ^ 63) with false by lia. replace (2 ^ 63 - 1 <? v) with false by lia. reflexivity.
Qed.

Lemma same_pos_refl s : same_pos s s = true.
Proof. apply Nat.eqb_refl. Qed.

Lemma same_pos_cons c s : same_pos (c :: s) s = false /\ same_pos s (c :: s) = false.
Proof. unfold same_pos. split; apply Nat.eqb_neq; cbn [length]; lia. Qed.

Section Tokens.
Variables dec2f dec2d : str -> Z.

(* both recognisers read the token t back as the value v, whatever follows:
   the part before the ellipsis test ... *)
Definition tok_core (v : av) (t : str) : Prop :=
  forall rest, rest_ok0 rest ->
    (forall rec ib, skip_core rec (t ++ rest) ib = Ok (rest, 1, av_type v, 0)) /\
    (forall rec, scan_core dec2f dec2d rec (t ++ rest) = Ok ([v], rest)).
(* ... and the whole functions when no ellipsis follows *)
Definition tok_reads (v : av) (t : str) : Prop :=
  forall rest, rest_ok rest ->
    (forall f ll fe ib, skip_next dec2f dec2d (S f) (t ++ rest) ll fe ib = Ok (rest, 1, av_type v)) /\
    (forall f before nb fe, scan_arg_val dec2f dec2d (S f) (t ++ rest) before nb fe = Ok ([v], rest)).

Lemma tok_core_reads v t : tok_core v t -> tok_reads v t.
Proof.
  intros H rest [Hr He]. destruct (H rest Hr) as [Hs Hc]. split; intros.
  - cbn [skip_next]. rewrite Hs, He, andb_false_r. reflexivity.
  - cbn [scan_arg_val]. rewrite Hc, He, andb_false_r. reflexivity.
Qed.

(* ---- 'i' and 'h' ------------------------------------------------------------ *)
Lemma fmtstr_int v rest : rest_ok0 rest -> scanf_fmtstr (print_d v ++ rest) = Some F_d.
Proof.
  intros Hr. unfold scanf_fmtstr.
  rewrite (tok_end_app _ _ (print_d_tokch v) Hr).
  rewrite sc_i_print, sc_d_print by now apply rest_num_follow.
  cbn [after_int bind_lit]. pose proof (rest_ok_hd _ Hr).
  rewrite lit_none by lia. now rewrite same_pos_refl.
Qed.

Lemma fmtstr_h v rest : rest_ok0 rest -> scanf_fmtstr (print_d v ++ 104 :: rest) = Some F_h.
Proof.
  intros Hr. unfold scanf_fmtstr.
  replace (print_d v ++ 104 :: rest) with ((print_d v ++ [104]) ++ rest) by now rewrite <- app_assoc.
  rewrite tok_end_app; [|apply Forall_app; split; [apply print_d_tokch|now constructor]|assumption].
  rewrite <- app_assoc. cbn [app].
  rewrite sc_i_print by (unfold num_follow, isdigit, in_range, hd0, at_; cbn; lia).
  cbn [after_int bind_lit lit]. rewrite Z.eqb_refl. now rewrite same_pos_refl.
Qed.

Lemma numeral_default v tail :
  isdigit (hd0 tail) = false -> hd0 tail <> 45 -> hd0 tail <> 120 ->
  exists c tl, print_d v ++ tail = c :: tl /\ first_class c = FC_other /\ isidstart c = false /\
    is_range_multiplier (c :: tl) = false /\ skip_fmt fmt_date (c :: tl) = c :: tl.
Proof.
  intros H1 H2 H3. destruct (print_d_shape v) as (sg & c & ds & E & Hsg & Hc & Hd).
  assert (Er : is_range_multiplier (print_d v ++ tail) = false).
  { rewrite E, <- app_assoc. cbn [app]. now apply range_mult_no. }
  assert (Ed : skip_fmt fmt_date (print_d v ++ tail) = print_d v ++ tail).
  { rewrite E, <- app_assoc. cbn [app]. now apply date_no. }
  rewrite E in *. destruct Hsg as [->| ->]; cbn [app] in *.
  - exists c, (ds ++ tail). split; [reflexivity|]. split; [apply first_class_num; lia|].
    split; [apply isidstart_num; lia|]. split; assumption.
  - exists 45, (c :: ds ++ tail). split; [reflexivity|]. split; [apply first_class_num; lia|].
    split; [apply isidstart_num; lia|]. split; assumption.
Qed.

Lemma tok_int v : - 2 ^ 31 <= v < 2 ^ 31 -> tok_core (VI v) (print_d v).
Proof.
  intros Hv rest Hr. pose proof (rest_ok_hd _ Hr) as Hh.
  destruct (numeral_default v rest) as (c & tl & E & Hfc & Hid & Hrm & Hdt);
    try (unfold isdigit, in_range; lia).
  pose proof (fmtstr_int v rest Hr) as Hf.
  pose proof (tok_end_app _ _ (print_d_tokch v) Hr) as He.
  rewrite E in *. split; intros.
  - unfold skip_core. rewrite Hfc, Hrm, Hid, Hdt, same_pos_refl. cbn [negb].
    unfold skip_numeric. rewrite Hf, He. cbn [numfmt_type].
    rewrite (rest_ok_paren _ Hr). cbn [andb]. reflexivity.
  - unfold scan_core. rewrite Hfc, Hrm, Hid, Hdt, same_pos_refl. cbn [negb].
    unfold scan_numeric, scan_numeric_once. rewrite Hf, <- E, sc_d_print, E, He by now apply rest_num_follow.
    rewrite (rest_ok_paren _ Hr), st32_id by assumption. cbn [andb]. reflexivity.
Qed.

Lemma tok_h v : - 2 ^ 63 <= v < 2 ^ 63 -> tok_core (VH v) (print_d v ++ [104]).
Proof.
  intros Hv rest Hr. pose proof (rest_ok_hd _ Hr) as Hh.
  rewrite <- app_assoc. cbn [app].
  destruct (numeral_default v (104 :: rest)) as (c & tl & E & Hfc & Hid & Hrm & Hdt);
    try (unfold isdigit, in_range, hd0, at_; cbn; lia).
  pose proof (fmtstr_h v rest Hr) as Hf.
  assert (He : tok_end (print_d v ++ 104 :: rest) = rest).
  { replace (print_d v ++ 104 :: rest) with ((print_d v ++ [104]) ++ rest) by now rewrite <- app_assoc.
    apply tok_end_app; [apply Forall_app; split; [apply print_d_tokch|now constructor]|assumption]. }
  rewrite E in *. split; intros.
  - unfold skip_core. rewrite Hfc, Hrm, Hid, Hdt, same_pos_refl. cbn [negb].
    unfold skip_numeric. rewrite Hf, He. cbn [numfmt_type].
    rewrite (rest_ok_paren _ Hr). cbn [andb]. reflexivity.
  - unfold scan_core. rewrite Hfc, Hrm, Hid, Hdt, same_pos_refl. cbn [negb].
    unfold scan_numeric, scan_numeric_once. rewrite Hf, <- E, sc_i_print, E, He
      by (unfold num_follow, isdigit, in_range, hd0, at_; cbn; lia).
    rewrite (rest_ok_paren _ Hr), st64_id by assumption. cbn [andb]. reflexivity.
Qed.

(* ---- true false nil inf ------------------------------------------------------ *)
Lemma skip_word_self w rest : rest_ok0 rest -> skip_word w (w ++ rest) = Some rest.
Proof.
  intros Hr. unfold skip_word.
  assert (E : strip_prefix w (w ++ rest) = Some rest).
  { induction w as [|c w IH]; cbn [app strip_prefix]; [reflexivity|]. now rewrite Z.eqb_refl. }
  rewrite E. now rewrite (word_end_rest _ Hr).
Qed.

Lemma strip_prefix_hd a p c s : c <> a -> strip_prefix (a :: p) (c :: s) = None.
Proof. intros H. cbn [strip_prefix]. now rewrite (proj2 (Z.eqb_neq c a)). Qed.

Ltac kw_tok Hr :=
  split; intros;
  [ unfold skip_next; cbn [app first_class Z.eqb Pos.eqb orb];
    rewrite ?skip_word_self by exact Hr; cbn [av_type andb]; reflexivity
  | unfold scan_arg_val; cbn [app first_class Z.eqb Pos.eqb orb];
    rewrite ?skip_word_self by exact Hr; cbn [andb]; reflexivity ].

Lemma tok_T : tok_core VT kw_true.
Proof.
  intros rest Hr. unfold kw_true. split; intros.
  - unfold skip_core. cbn [app first_class Z.eqb Pos.eqb orb].
    change (116 :: 114 :: 117 :: 101 :: rest) with (kw_true ++ rest).
    rewrite skip_word_self by exact Hr. cbn [av_type andb]. reflexivity.
  - unfold scan_core. cbn [app first_class Z.eqb Pos.eqb orb].
    unfold skip_word at 1. unfold kw_immediately. rewrite strip_prefix_hd by lia.
    unfold skip_word at 1. unfold kw_now. rewrite strip_prefix_hd by lia.
    change (116 :: 114 :: 117 :: 101 :: rest) with (kw_true ++ rest).
    rewrite skip_word_self by exact Hr. cbn [andb]. reflexivity.
Qed.

Ltac kw_miss := unfold skip_word at 1;
  cbn [strip_prefix kw_immediately kw_now kw_true kw_false kw_nil kw_inf Z.eqb Pos.eqb].

Lemma tok_F : tok_core VF kw_false.
Proof.
  intros rest Hr. unfold kw_false. split; intros.
  - unfold skip_core. cbn [app first_class Z.eqb Pos.eqb orb].
    change (102 :: 97 :: 108 :: 115 :: 101 :: rest) with (kw_false ++ rest).
    rewrite skip_word_self by exact Hr. cbn [av_type andb]. reflexivity.
  - unfold scan_core. cbn [app first_class Z.eqb Pos.eqb orb].
    do 3 kw_miss.
    change (102 :: 97 :: 108 :: 115 :: 101 :: rest) with (kw_false ++ rest).
    rewrite skip_word_self by exact Hr. cbn [andb]. reflexivity.
Qed.

Lemma tok_N : tok_core VN kw_nil.
Proof.
  intros rest Hr. unfold kw_nil. split; intros.
  - unfold skip_core. cbn [app first_class Z.eqb Pos.eqb orb].
    change (110 :: 105 :: 108 :: rest) with (kw_nil ++ rest).
    rewrite skip_word_self by exact Hr. cbn [av_type andb]. reflexivity.
  - unfold scan_core. cbn [app first_class Z.eqb Pos.eqb orb].
    do 4 kw_miss.
    change (110 :: 105 :: 108 :: rest) with (kw_nil ++ rest).
    rewrite skip_word_self by exact Hr. cbn [andb]. reflexivity.
Qed.

Lemma tok_Inf : tok_core VInf kw_inf.
Proof.
  intros rest Hr. unfold kw_inf. split; intros.
  - unfold skip_core. cbn [app first_class Z.eqb Pos.eqb orb].
    change (105 :: 110 :: 102 :: rest) with (kw_inf ++ rest).
    rewrite skip_word_self by exact Hr. cbn [av_type andb]. reflexivity.
  - unfold scan_core. cbn [app first_class Z.eqb Pos.eqb orb].
    do 5 kw_miss.
    change (105 :: 110 :: 102 :: rest) with (kw_inf ++ rest).
    rewrite skip_word_self by exact Hr. cbn [andb]. reflexivity.
Qed.

(* ---- characters ---------------------------------------------------------------- *)
Lemma esc_roundtrip c chr e :
  as_escaped_char c chr = Some e -> get_escaped_char e chr = c /\ (c <> 0 \/ e = 48).
Proof.
  unfold as_escaped_char.
  destruct (c =? 0) eqn:E0.
  { apply Z.eqb_eq in E0. subst. destruct chr; intros H; inversion H; subst. cbn. split; [reflexivity|now right]. }
  apply Z.eqb_neq in E0.
  repeat match goal with
         | |- context [if ?a =? ?b then _ else _] =>
             destruct (a =? b) eqn:Hq;
             [apply Z.eqb_eq in Hq; subst; intros H; inversion H; subst; destruct chr; cbn; (split; [reflexivity|left; lia])|clear Hq]
         end.
  destruct chr; cbn [andb negb].
  - destruct (c =? 39) eqn:Eq; intros H; [|discriminate]. apply Z.eqb_eq in Eq; subst. inversion H; subst.
    cbn. split; [reflexivity|left; lia].
  - destruct (c =? 34) eqn:Eq; intros H; [|discriminate]. apply Z.eqb_eq in Eq; subst. inversion H; subst.
    cbn. split; [reflexivity|left; lia].
Qed.

Lemma esc_none_chr c : as_escaped_char c true = None -> c <> 92 /\ c <> 39.
Proof.
  unfold as_escaped_char.
  repeat match goal with
         | |- context [if ?a =? ?b then _ else _] =>
             destruct (a =? b) eqn:?Hq; [intros Hd; discriminate Hd|]
         end.
  cbn [andb negb]. destruct (c =? 39) eqn:E39; intros H; [discriminate|]. lia.
Qed.

Definition good_char (c : Z) : Prop := 0 <= c <= 255.

Lemma tok_char c : good_char c -> tok_core (VC c) (print_char c).
Proof.
  intros Hc rest Hr. unfold print_char. destruct (as_escaped_char c true) as [e|] eqn:E.
  - destruct (esc_roundtrip _ _ _ E) as [Hg Hnz].
    assert (He : (e =? 39) && isspace 39 = false) by now rewrite andb_false_r.
    split; intros.
    + unfold skip_core. cbn [app first_class Z.eqb Pos.eqb orb length Nat.ltb Nat.leb at_ nth].
      rewrite He, Hg.
      replace (negb (e =? 48) && (c =? 0)) with false
        by (destruct Hnz as [Hnz| ->]; [replace (c =? 0) with false by lia; now rewrite andb_false_r|reflexivity]).
      cbn [orb negb skipn av_type andb]. reflexivity.
    + unfold scan_core. cbn [app first_class Z.eqb Pos.eqb orb at_ nth isspace in_range Z.leb Z.compare Pos.compare Pos.compare_cont andb negb skipn].
      rewrite Hg. reflexivity.
  - destruct (esc_none_chr _ E) as [H92 H39]. split; intros.
    + unfold skip_core. cbn [app first_class Z.eqb Pos.eqb orb length Nat.ltb Nat.leb at_ nth].
      replace (c =? 92) with false by lia. cbn [skipn av_type andb]. reflexivity.
    + unfold scan_core. cbn [app first_class Z.eqb Pos.eqb orb at_ nth].
      replace (c =? 92) with false by lia. cbn [skipn andb]. reflexivity.
Qed.

(* ---- quoted strings -------------------------------------------------------------- *)
Lemma esc_none_str c : as_escaped_char c false = None -> c <> 92 /\ c <> 34.
Proof.
  unfold as_escaped_char.
  destruct (c =? 0) eqn:E0; [apply Z.eqb_eq in E0; intros _; lia|].
  repeat match goal with
         | |- context [if ?a =? ?b then _ else _] =>
             destruct (a =? b) eqn:?Hq; [intros Hd; discriminate Hd|]
         end.
  cbn [andb negb]. destruct (c =? 34) eqn:E34; intros H; [discriminate|]. lia.
Qed.

Lemma eops_brk x : eops (brk ++ x) (SIn false) = eops x (SIn false).
Proof. reflexivity. Qed.
Lemma scan_str_brk x acc : scan_str (brk ++ x) false acc = scan_str x false acc.
Proof. reflexivity. Qed.

Definition nonul (s : list Z) : Prop := Forall (fun c => c <> 0) s.

(* the body of a quoted string, closed by a quote that is not followed by a backslash *)
Lemma eops_body ll s : forall cols tail,
  nonul s -> hd0 tail <> 92 ->
  eops (fst (print_chars false ll s cols) ++ 34 :: tail) (SIn false) = Ok tail.
Proof.
  induction s as [|c s IH]; intros cols tail Hs Ht.
  - cbn [print_chars fst app eops]. rewrite Z.eqb_refl.
    destruct tail as [|b r]; [reflexivity|]. unfold hd0, at_ in Ht. cbn in Ht.
    now replace (b =? 92) with false by lia.
  - inversion Hs as [|? ? Hc Hs']; subst. cbn [print_chars negb andb].
    destruct (ll - 3 <? cols) eqn:Eb;
    destruct (as_escaped_char c false) as [e|] eqn:Ee.
    all: try (destruct (esc_roundtrip _ _ _ Ee) as [Hg _]).
    all: try (destruct (esc_none_str _ Ee) as [H92 H34]).
    all: try destruct (e =? 110) eqn:En.
    all: repeat match goal with
           | |- context [print_chars false ?l ?s2 ?k] =>
               let p := fresh "p" in let Ep := fresh "Ep" in
               specialize (IH k tail Hs' Ht); destruct (print_chars false l s2 k) as [p ?] eqn:Ep
           end; cbn [fst] in *.
    all: rewrite <- ?app_assoc; rewrite ?eops_brk; cbn [app eops].
    all: try (replace (92 =? 34) with false by reflexivity; cbn [Z.eqb Pos.eqb]).
    all: try (rewrite Hg; replace (c =? 0) with false by lia).
    all: try (replace (c =? 34) with false by lia; replace (c =? 92) with false by lia).
    all: rewrite <- ?app_assoc; rewrite ?eops_brk; exact IH.
Qed.

Lemma scan_str_body ll s : forall cols tail acc,
  nonul s -> hd0 tail <> 92 ->
  scan_str (fst (print_chars false ll s cols) ++ 34 :: tail) false acc = Ok (rev acc ++ s, tail).
Proof.
  induction s as [|c s IH]; intros cols tail acc Hs Ht.
  - cbn [print_chars fst app scan_str]. rewrite Z.eqb_refl. rewrite app_nil_r.
    destruct tail as [|b r]; [reflexivity|]. unfold hd0, at_ in Ht. cbn in Ht.
    now replace (b =? 92) with false by lia.
  - inversion Hs as [|? ? Hc Hs']; subst. cbn [print_chars negb andb].
    assert (IH' : forall k, scan_str (fst (print_chars false ll s k) ++ 34 :: tail) false (c :: acc)
                            = Ok (rev acc ++ c :: s, tail)).
    { intros k. rewrite IH by assumption. cbn [rev]. now rewrite <- app_assoc. }
    destruct (ll - 3 <? cols) eqn:Eb;
    destruct (as_escaped_char c false) as [e|] eqn:Ee.
    all: try (destruct (esc_roundtrip _ _ _ Ee) as [Hg _]).
    all: try (destruct (esc_none_str _ Ee) as [H92 H34]).
    all: try destruct (e =? 110) eqn:En.
    all: repeat match goal with
           | |- context [print_chars false ?l ?s2 ?k] =>
               let p := fresh "p" in let Ep := fresh "Ep" in
               specialize (IH' k); destruct (print_chars false l s2 k) as [p ?] eqn:Ep
           end; cbn [fst] in *.
    all: rewrite <- ?app_assoc; rewrite ?scan_str_brk; cbn [app scan_str].
    all: try (replace (92 =? 34) with false by reflexivity; cbn [Z.eqb Pos.eqb]).
    all: try rewrite Hg.
    all: try (replace (c =? 34) with false by lia; replace (c =? 92) with false by lia).
    all: rewrite <- ?app_assoc; rewrite ?scan_str_brk; exact IH'.
Qed.

Lemma cstr_of_nonul s : nonul s -> cstr_of s = s.
Proof.
  induction 1 as [|c s Hc Hs IH]; [reflexivity|]. unfold cstr_of in *. cbn [takewhile].
  replace (c =? 0) with false by lia. cbn [negb]. now rewrite IH.
Qed.

Lemma tok_quoted (is_sym : bool) ll s cols :
  nonul s ->
  tok_core (if is_sym then VSym s else VS s)
            (34 :: fst (print_chars false ll s cols) ++ 34 :: (if is_sym then [83] else [])).
Proof.
  intros Hs rest Hr. pose proof (rest_ok_hd _ Hr) as Hh.
  set (body := fst (print_chars false ll s cols)).
  assert (E : (34 :: body ++ 34 :: (if is_sym then [83] else [])) ++ rest
              = 34 :: body ++ 34 :: (if is_sym then 83 :: rest else rest)).
  { cbn [app]. rewrite <- app_assoc. cbn [app]. now destruct is_sym. }
  rewrite E. clear E.
  assert (Ht : hd0 (if is_sym then 83 :: rest else rest) <> 92).
  { destruct is_sym; [rewrite hd0_cons; lia|lia]. }
  split; intros.
  - unfold skip_core. cbn [first_class Z.eqb Pos.eqb orb skipn].
    unfold body. rewrite eops_body by assumption.
    destruct is_sym.
    + rewrite hd0_cons. cbn [Z.eqb Pos.eqb skipn av_type andb]. unfold ty_S. reflexivity.
    + replace (hd0 rest =? 83) with false by lia. cbn [av_type andb]. unfold ty_s. reflexivity.
  - unfold scan_core. cbn [first_class Z.eqb Pos.eqb orb skipn].
    unfold body. rewrite scan_str_body by assumption. cbn [rev app]. rewrite cstr_of_nonul by assumption.
    destruct is_sym.
    + rewrite hd0_cons. cbn [Z.eqb Pos.eqb skipn andb]. reflexivity.
    + replace (hd0 rest =? 83) with false by lia. cbn [andb]. reflexivity.
Qed.

(* ---- colours and MIDI: hexadecimal bytes --------------------------------------------- *)
Lemma hexdig_facts d : 0 <= d < 16 ->
  isxdigit (hexdig d) = true /\ digval (hexdig d) = d /\ hexdig d <> 120 /\ hexdig d <> 88 /\
  isspace (hexdig d) = false /\ hexdig d <> 45 /\ hexdig d <> 43 /\ hexdig d <> 46.
Proof.
  intros H. unfold hexdig, isxdigit, digval, isdigit, isspace, in_range.
  destruct (d <? 10) eqn:E.
  - replace ((48 <=? 48 + d) && (48 + d <=? 57)) with true by lia. cbn [orb]. repeat split; lia.
  - replace ((48 <=? 87 + d) && (87 + d <=? 57)) with false by lia.
    replace ((97 <=? 87 + d) && (87 + d <=? 102)) with true by lia. cbn [orb]. repeat split; lia.
Qed.

Lemma read_hex2 b s a : 0 <= b < 256 ->
  read_digs isxdigit 16 (hex2 b ++ s) a = read_digs isxdigit 16 s (a * 256 + b).
Proof.
  intros Hb. unfold hex2. cbn [app read_digs].
  assert (H1 : 0 <= b / 16 mod 16 < 16) by (apply Z.mod_pos_bound; lia).
  assert (H2 : 0 <= b mod 16 < 16) by (apply Z.mod_pos_bound; lia).
  destruct (hexdig_facts _ H1) as (X1 & V1 & _). destruct (hexdig_facts _ H2) as (X2 & V2 & _).
  rewrite X1, X2, V1, V2. f_equal.
  pose proof (Z.div_mod b 16 ltac:(lia)). rewrite (Z.mod_small (b / 16) 16) by (split; [apply Z.div_pos; lia|apply Z.div_lt_upper_bound; lia]). lia.
Qed.

Lemma read_digs_stop s a : isxdigit (hd0 s) = false -> read_digs isxdigit 16 s a = (a, s).
Proof. destruct s as [|c r]; [reflexivity|]. unfold hd0, at_. cbn. intros ->. reflexivity. Qed.

(* sscanf %x on two printed hex digits followed by a non-hex character *)
Lemma sc_x_hex2 b s : 0 <= b < 256 -> isxdigit (hd0 s) = false -> sc_x (hex2 b ++ s) = Some (b, s).
Proof.
  intros Hb Hs. unfold sc_x.
  assert (H1 : 0 <= b / 16 mod 16 < 16) by (apply Z.mod_pos_bound; lia).
  assert (H2 : 0 <= b mod 16 < 16) by (apply Z.mod_pos_bound; lia).
  destruct (hexdig_facts _ H1) as (X1 & V1 & N1 & N1' & S1 & M1 & P1 & _).
  destruct (hexdig_facts _ H2) as (X2 & V2 & N2 & N2' & _).
  rewrite skip_ws_nonspace by (unfold hex2; cbn [app]; now rewrite hd0_cons).
  unfold hex2 at 1. cbn [app]. rewrite sc_sign_other by assumption.
  replace ((hexdig (b mod 16) =? 120) || (hexdig (b mod 16) =? 88)) with false by lia.
  rewrite andb_false_r. cbn [andb]. rewrite hd0_cons, X1.
  change (hexdig (b / 16 mod 16) :: hexdig (b mod 16) :: s) with (hex2 b ++ s).
  rewrite read_hex2 by assumption. rewrite read_digs_stop by assumption. cbn [sgn].
  replace (0 * 256 + b) with b by lia. reflexivity.
Qed.

Definition good_rgba (v : Z) : Prop := 0 <= v < 2 ^ 32.
Definition good_midi (a b c d : Z) : Prop := 0 <= a < 256 /\ 0 <= b < 256 /\ 0 <= c < 256 /\ 0 <= d < 256.

Lemma rest_not_xdigit rest : rest_ok0 rest -> isxdigit (hd0 rest) = false.
Proof. intros H. pose proof (rest_ok_hd _ H). unfold isxdigit, isdigit, in_range. lia. Qed.

Lemma hex2_xdigits b : 0 <= b < 256 -> forallb isxdigit (hex2 b) = true.
Proof.
  intros Hb. unfold hex2. cbn [forallb].
  assert (H1 : 0 <= b / 16 mod 16 < 16) by (apply Z.mod_pos_bound; lia).
  assert (H2 : 0 <= b mod 16 < 16) by (apply Z.mod_pos_bound; lia).
  now rewrite (proj1 (hexdig_facts _ H1)), (proj1 (hexdig_facts _ H2)).
Qed.

Lemma tok_rgba v : good_rgba v -> tok_core (VR v) (print_rgba v).
Proof.
  intros Hv rest Hr. unfold good_rgba in Hv.
  set (b3 := v / 2 ^ 24 mod 256). set (b2 := v / 2 ^ 16 mod 256).
  set (b1 := v / 2 ^ 8 mod 256). set (b0 := v mod 256).
  assert (B3 : 0 <= b3 < 256) by (apply Z.mod_pos_bound; lia).
  assert (B2 : 0 <= b2 < 256) by (apply Z.mod_pos_bound; lia).
  assert (B1 : 0 <= b1 < 256) by (apply Z.mod_pos_bound; lia).
  assert (B0 : 0 <= b0 < 256) by (apply Z.mod_pos_bound; lia).
  assert (Hval : ((b3 * 256 + b2) * 256 + b1) * 256 + b0 = v).
  { unfold b3, b2, b1, b0. change (2 ^ 24) with 16777216. change (2 ^ 16) with 65536. change (2 ^ 8) with 256.
    change (2 ^ 32) with 4294967296 in Hv. Zify.zify. Z.div_mod_to_equations. lia. }
  assert (E : print_rgba v ++ rest = 35 :: (hex2 b3 ++ hex2 b2 ++ hex2 b1 ++ hex2 b0) ++ rest)
    by (unfold print_rgba; cbn [app]; now rewrite <- !app_assoc).
  rewrite E.
  assert (Hf8 : firstn 8 ((hex2 b3 ++ hex2 b2 ++ hex2 b1 ++ hex2 b0) ++ rest) = hex2 b3 ++ hex2 b2 ++ hex2 b1 ++ hex2 b0)
    by reflexivity.
  assert (Hs9 : skipn 9 (35 :: (hex2 b3 ++ hex2 b2 ++ hex2 b1 ++ hex2 b0) ++ rest) = rest) by reflexivity.
  split; intros.
  - unfold skip_core. cbn [first_class Z.eqb Pos.eqb orb]. rewrite Hs9.
    change (skipn 1 (35 :: (hex2 b3 ++ hex2 b2 ++ hex2 b1 ++ hex2 b0) ++ rest))
      with ((hex2 b3 ++ hex2 b2 ++ hex2 b1 ++ hex2 b0) ++ rest). rewrite Hf8.
    rewrite !forallb_app, !hex2_xdigits by assumption. cbn [andb length app Nat.eqb hex2]. reflexivity.
  - unfold scan_core. cbn [first_class Z.eqb Pos.eqb orb]. rewrite Hs9.
    change (skipn 1 (35 :: (hex2 b3 ++ hex2 b2 ++ hex2 b1 ++ hex2 b0) ++ rest))
      with ((hex2 b3 ++ hex2 b2 ++ hex2 b1 ++ hex2 b0) ++ rest).
    rewrite <- !app_assoc. unfold sc_x.
    assert (H1 : 0 <= b3 / 16 mod 16 < 16) by (apply Z.mod_pos_bound; lia).
    assert (H2 : 0 <= b3 mod 16 < 16) by (apply Z.mod_pos_bound; lia).
    destruct (hexdig_facts _ H1) as (X1 & V1 & N1 & N1' & S1 & M1 & P1 & _).
    destruct (hexdig_facts _ H2) as (X2 & V2 & N2 & N2' & _).
    rewrite skip_ws_nonspace by (unfold hex2; cbn [app]; now rewrite hd0_cons).
    unfold hex2 at 1. cbn [app]. rewrite sc_sign_other by assumption.
    replace ((hexdig (b3 mod 16) =? 120) || (hexdig (b3 mod 16) =? 88)) with false by lia.
    rewrite andb_false_r. cbn [andb]. rewrite hd0_cons, X1.
    change (hexdig (b3 / 16 mod 16) :: hexdig (b3 mod 16) :: hex2 b2 ++ hex2 b1 ++ hex2 b0 ++ rest)
      with (hex2 b3 ++ hex2 b2 ++ hex2 b1 ++ hex2 b0 ++ rest).
    rewrite !read_hex2 by assumption. rewrite read_digs_stop by now apply rest_not_xdigit.
    cbn [sgn]. replace (((0 * 256 + b3) * 256 + b2) * 256 + b1) with ((b3 * 256 + b2) * 256 + b1) by lia.
    rewrite Hval. rewrite Z.mod_small by lia. reflexivity.
Qed.

Lemma midi_step m s vals f : 0 <= m < 256 -> isxdigit (hd0 s) = false ->
  run_fmt (DLit 48 :: DLit 120 :: Dx :: f) (48 :: 120 :: hex2 m ++ s) vals = run_fmt f s (m :: vals).
Proof.
  intros Hm Hs. cbn [run_fmt lit]. rewrite !Z.eqb_refl. cbn [run_fmt lit]. rewrite !Z.eqb_refl. now rewrite sc_x_hex2.
Qed.

Lemma run_midi a b c d rest : good_midi a b c d ->
  run_fmt fmt_midi (print_midi a b c d ++ rest) [] = Some ([a; b; c; d], rest).
Proof.
  intros (Ha & Hb & Hc & Hd). unfold fmt_midi, print_midi, kw_MIDI, lits. cbn [map app].
  repeat (rewrite <- app_assoc; cbn [app]).
  cbn [run_fmt lit]. rewrite !Z.eqb_refl.
  cbn [run_fmt skip_ws dropwhile isspace in_range Z.leb Z.eqb Z.compare Pos.compare Pos.compare_cont Pos.eqb andb orb lit].
  do 4 (rewrite sc_x_hex2 by (try assumption; reflexivity);
        cbn [skip_ws dropwhile isspace in_range Z.leb Z.eqb Z.compare Pos.compare Pos.compare_cont Pos.eqb andb orb lit]).
  cbn [rev app]. reflexivity.
Qed.

Lemma tok_midi a b c d : good_midi a b c d -> tok_core (VM a b c d) (print_midi a b c d).
Proof.
  intros Hg rest Hr. pose proof (run_midi a b c d rest Hg) as Hrun.
  assert (Hst : is_midi_start (print_midi a b c d ++ rest) = true) by reflexivity.
  assert (Hc0 : exists r0, print_midi a b c d ++ rest = 77 :: r0) by (eexists; reflexivity).
  destruct Hc0 as [r0 E0].
  assert (Hlen : Nat.eqb (length rest) (length (print_midi a b c d ++ rest)) = false).
  { apply Nat.eqb_neq. rewrite app_length. unfold print_midi. rewrite !app_length. cbn [length]. lia. }
  destruct Hg as (Ha & Hb & Hc & Hd).
  split; intros.
  - unfold skip_core. rewrite E0 at 1. cbn [first_class Z.eqb Pos.eqb orb]. rewrite Hst.
    unfold skip_fmt_null. rewrite Hrun, Hlen. reflexivity.
  - unfold scan_core. rewrite E0 at 1. cbn [first_class Z.eqb Pos.eqb orb]. rewrite Hst, Hrun.
    rewrite !Z.mod_small by lia. reflexivity.
Qed.
End Tokens.

(* ------------------------------------------------------------------------- *)
(* Part 3/4: sequences of tokens                                              *)
Definition first_ok (c : Z) : Prop :=
  c <> 0 /\ c <> 47 /\ c <> 37 /\ isspace c = false /\ c <> 46 /\ (c <> 40 /\ c <> 93).
Definition sepw (s : str) : Prop := s <> [] /\ Forall (fun c => isspace c = true) s.

Definition scalar (v : av) : Prop :=
  match v with VArr _ _ | VRep _ _ | VSpc _ => False | _ => True end.

Section Seq.
Variables dec2f dec2d : str -> Z.

(* t is a text of the single value v *)
Definition tokof (v : av) (t : str) : Prop :=
  tok_reads dec2f dec2d v t /\ (exists c r, t = c :: r /\ first_ok c) /\ scalar v.

Inductive lang : list av -> str -> Prop :=
| L_nil : lang [] []
| L_one v t : tokof v t -> lang [v] t
| L_cons v t sep v' vs T :
    tokof v t -> sepw sep -> lang (v' :: vs) T -> lang (v :: v' :: vs) (t ++ sep ++ T).

Lemma lang_first v vs T : lang (v :: vs) T -> exists c r, T = c :: r /\ first_ok c.
Proof.
  intros H. inversion H as [|? ? Ht|? ? ? ? ? ? Ht _ _]; subst;
    destruct Ht as (_ & (c & r & -> & Hc) & _); eexists _, _; (split; [reflexivity|exact Hc]).
Qed.

Lemma skip_ws_sep sep T :
  Forall (fun c => isspace c = true) sep -> isspace (hd0 T) = false -> skip_ws (sep ++ T) = T.
Proof. intros. now apply dropwhile_app. Qed.

Lemma rest_ok_nil : rest_ok [].
Proof. split; [|reflexivity]. split; [now left|]. cbn. unfold hd0, at_. cbn. lia. Qed.

Lemma rest_ok_sep sep c r :
  sepw sep -> first_ok c -> rest_ok (sep ++ c :: r).
Proof.
  intros [Hne Hs] (H0 & H47 & H37 & Hsp & H46 & H40).
  assert (E : skip_ws (sep ++ c :: r) = c :: r) by (apply skip_ws_sep; assumption).
  split; [split|].
  - right. destruct sep as [|x sep]; [congruence|]. inversion Hs as [|? ? Hx Hs']; subst. cbn [app].
    unfold endc. rewrite hd0_cons. now rewrite Hx.
  - rewrite E. now rewrite hd0_cons.
  - rewrite E. unfold starts_with, ellipsis. cbn [strip_prefix]. now rewrite (proj2 (Z.eqb_neq c 46)).
Qed.

Lemma skip_comments_ws_no f c r : c <> 37 -> skip_comments_ws f (c :: r) = c :: r.
Proof. intros H. destruct f; [reflexivity|]. cbn [skip_comments_ws]. rewrite hd0_cons. now neqs. Qed.

Lemma count_loop_lang vs T : lang vs T ->
  forall fuel recent num, (length T < fuel)%nat ->
  count_loop dec2f dec2d fuel T recent num = Ok (true, num + Z.of_nat (length vs)).
Proof.
  induction 1 as [|v t Ht|v t sep v' vs T Ht Hsep HL IH]; intros fuel recent num Hf.
  - destruct fuel; [cbn in Hf; lia|]. cbn. f_equal. f_equal. lia.
  - destruct fuel; [lia|]. destruct Ht as (Hrd & (c & r & -> & Hc) & _).
    destruct Hc as (H0 & H47 & H37 & Hsp & H46 & H40).
    cbn [count_loop length]. rewrite hd0_cons. replace ((c =? 0) || (c =? 47)) with false by lia.
    destruct (Hrd [] rest_ok_nil) as [Hs _]. rewrite app_nil_r in Hs. rewrite Hs.
    cbn [skip_ws dropwhile]. cbn [hd0 at_ nth Z.eqb negb andb].
    destruct fuel; [cbn in Hf; lia|]. cbn. f_equal.
  - destruct fuel; [lia|]. destruct Ht as (Hrd & (c & r & -> & Hc) & _).
    destruct (lang_first _ _ _ HL) as (c' & r' & -> & Hc').
    pose proof (rest_ok_sep sep c' r' Hsep Hc') as Hro.
    destruct Hc as (H0 & H47 & H37 & Hsp & H46 & H40).
    cbn [count_loop app length]. rewrite hd0_cons. replace ((c =? 0) || (c =? 47)) with false by lia.
    destruct (Hrd _ Hro) as [Hs _]. cbn [app] in Hs. rewrite Hs.
    destruct Hc' as (H0' & H47' & H37' & Hsp' & H46' & H40').
    rewrite skip_ws_sep by (try apply Hsep; now rewrite hd0_cons).
    rewrite hd0_cons. replace (negb (c' =? 0) && negb (isspace c')) with true
      by (rewrite Hsp'; symmetry; lia).
    rewrite skip_comments_ws_no by assumption.
    rewrite IH.
    + f_equal. f_equal. cbn [length]. lia.
    + cbn [length app] in Hf. rewrite !app_length in Hf. cbn [length] in *. lia.
Qed.

Lemma skip_ws_comments_tok f c r sep :
  Forall (fun c => isspace c = true) sep -> first_ok c ->
  skip_ws_comments (S f) (sep ++ c :: r) = c :: r.
Proof.
  intros Hs (H0 & H47 & H37 & Hsp & H46 & H40). cbn [skip_ws_comments].
  rewrite skip_ws_sep by (try assumption; now rewrite hd0_cons).
  rewrite hd0_cons. now neqs.
Qed.

Lemma slots_offset_scalar v : scalar v -> slots_offset [v] = 1.
Proof. destruct v; cbn; tauto. Qed.

Lemma scan_loop_lang vs T : lang vs T ->
  forall fuel i n acc, n = i + Z.of_nat (length vs) -> (length vs < fuel)%nat ->
  scan_loop dec2f dec2d fuel T i n acc = Ok (acc ++ vs, []).
Proof.
  induction 1 as [|v t Ht|v t sep v' vs T Ht Hsep HL IH]; intros fuel i n acc Hn Hf.
  - destruct fuel; [lia|]. cbn [scan_loop]. cbn in Hn. replace (n <=? i) with true by lia.
    now rewrite app_nil_r.
  - destruct fuel; [lia|]. destruct Ht as (Hrd & (c & r & -> & _) & Hsc). cbn [scan_loop]. cbn [length] in Hn.
    replace (n <=? i) with false by lia.
    destruct (Hrd [] rest_ok_nil) as [_ Hs]. rewrite app_nil_r in Hs. cbn [length]. rewrite Hs.
    rewrite slots_offset_scalar by assumption.
    destruct fuel; [cbn in Hf; lia|]. cbn [scan_loop length skip_ws_comments skip_ws dropwhile].
    cbn [hd0 at_ nth Z.eqb]. replace (n <=? i + 1) with true by lia. reflexivity.
  - destruct fuel; [lia|]. destruct Ht as (Hrd & (c & r & -> & _) & Hsc).
    destruct (lang_first _ _ _ HL) as (c' & r' & -> & Hc').
    pose proof (rest_ok_sep sep c' r' Hsep Hc') as Hro.
    cbn [scan_loop]. cbn [length] in Hn. replace (n <=? i) with false by lia.
    destruct (Hrd _ Hro) as [_ Hs]. cbn [app length] in *. rewrite Hs.
    rewrite slots_offset_scalar by assumption.
    rewrite skip_ws_comments_tok by (try apply Hsep; assumption).
    rewrite IH; [now rewrite <- app_assoc | cbn [length]; lia | cbn [length] in *; lia].
Qed.
End Seq.

Section PrintSeq.
Variables dec2f dec2d : str -> Z.
Variable o : popts.
Variable P : av -> Prop.
Hypothesis Htok : forall v cols t w c,
  P v -> print_scalar o v cols = Some (t, w, c) -> tokof dec2f dec2d v t /\ w = len t.
Hypothesis HPs : forall v, P v -> scalar v.
Hypothesis Hoff : compress o = false.

Lemma conv_off args size : convert_to_range o args size = CNo.
Proof. unfold convert_to_range. rewrite Hoff. cbn [negb]. now rewrite !orb_true_r. Qed.

Lemma print_arg_val_top_scalar v rest cols prev b :
  scalar v -> print_arg_val_top o (v :: rest) cols prev b = print_arg_val o (v :: rest) cols prev.
Proof. destruct v; cbn [scalar]; intros H; try contradiction; cbn [print_arg_val_top]; reflexivity. Qed.

Lemma print_arg_val_scalar v rest cols prev :
  scalar v ->
  print_arg_val o (v :: rest) cols prev =
  match print_scalar o v cols with Some (t, w, c) => Some (t, w, c, false) | None => None end.
Proof. destruct v; cbn [scalar]; intros H; try contradiction; unfold print_arg_val; cbn [print_arg_val_f]; reflexivity. Qed.

Fixpoint lang_from (pend : bool) (args : list av) (sfx : str) : Prop :=
  match args with
  | [] => sfx = []
  | v :: rest =>
      exists sepz t sfx', sfx = sepz ++ t ++ sfx' /\ tokof dec2f dec2d v t /\
        (if pend then sepz = [32] \/ sepz = nl4 else sepz = []) /\ lang_from true rest sfx'
  end.

Lemma next_arg_offset_scalar v rest : scalar v -> next_arg_offset (v :: rest) = 1.
Proof. destruct v; cbn; tauto. Qed.

Lemma len_app a b : len (a ++ b) = len a + len b.
Proof. unfold len. rewrite app_length. lia. Qed.

Lemma print_loop_lang : forall args fuel prev i n acc pend wrt cols awtl text w,
  Forall P args -> n = i + Z.of_nat (length args) -> (args = [] -> pend = false) ->
  print_vals_loop fuel o args prev i n acc pend wrt cols awtl = Some (text, w) ->
  exists sfx, text = acc ++ sfx /\ w = wrt + len sfx - (if pend then 1 else 0) /\
              lang_from pend args sfx.
Proof.
  induction args as [|v rest IH]; intros fuel prev i n acc pend wrt cols awtl text w HP Hn Hpe Hrun.
  - destruct fuel; [discriminate|]. cbn [print_vals_loop] in Hrun. cbn in Hn.
    replace (n <=? i) with true in Hrun by lia. inversion Hrun; subst.
    exists []. rewrite app_nil_r, (Hpe eq_refl). cbn. repeat split; lia.
  - destruct fuel; [discriminate|]. cbn [print_vals_loop] in Hrun. cbn [length] in Hn.
    replace (n <=? i) with false in Hrun by lia.
    pose proof (Forall_inv HP) as Hv. pose proof (Forall_inv_tail HP) as HP'.
    rewrite conv_off, (print_arg_val_top_scalar v rest cols prev pend (HPs v Hv)),
      (print_arg_val_scalar v rest cols prev (HPs v Hv)) in Hrun.
    destruct (print_scalar o v cols) as [[[t tmp] cols1]|] eqn:Eps; [|discriminate].
    rewrite ?orb_false_r in Hrun.
    destruct (Htok _ _ _ _ _ Hv Eps) as [Htk ->].
    destruct (if breaks_itself (av_type v) then (false, cols1, awtl)
              else lb_check (linelength o) cols1 (len t) awtl) as [[brk_ cols2] awtl2] eqn:Elb.
    assert (Hsc : scalar v) by apply Htk.
    rewrite (next_arg_offset_scalar v rest Hsc) in Hrun.
    change (skipz 1 (v :: rest)) with rest in Hrun. rewrite ?orb_false_r in Hrun.
    destruct (brk_ && negb pend) eqn:Ebp; [discriminate|].
    set (sepz := if brk_ then nl4 else if pend then [32] else []) in *.
    assert (Hsepz : if pend then sepz = [32] \/ sepz = nl4 else sepz = []).
    { subst sepz. destruct pend, brk_; cbn in *; auto; discriminate. }
    assert (Hlen : len sepz = (if brk_ then 4 else 0) + (if pend then 1 else 0)).
    { subst sepz. destruct pend, brk_; cbn in *; try reflexivity; discriminate. }
    destruct rest as [|v' rest'].
    + cbn [length] in Hn. replace (i + 1 <? n) with false in Hrun by lia.
      apply IH in Hrun; [|constructor|cbn; lia|reflexivity].
      destruct Hrun as (sfx & -> & -> & Hl). cbn in Hl. subst sfx.
      exists (sepz ++ t ++ []). split; [now rewrite !app_nil_r, app_assoc|]. split.
      * rewrite !len_app. cbn [len length]. unfold len in *. cbn [length]. lia.
      * cbn [lang_from]. exists sepz, t, []. split; [reflexivity|]. split; [exact Htk|]. split; [exact Hsepz|reflexivity].
    + cbn [length] in Hn. replace (i + 1 <? n) with true in Hrun by lia.
      apply IH in Hrun; [|assumption|cbn [length]; lia|discriminate].
      destruct Hrun as (sfx & -> & -> & Hl).
      exists (sepz ++ t ++ sfx). split; [now rewrite <- !app_assoc|]. split.
      * rewrite !len_app. lia.
      * cbn [lang_from]. exists sepz, t, sfx. split; [reflexivity|]. split; [exact Htk|]. split; [exact Hsepz|exact Hl].
Qed.

Lemma sepw_32 : sepw [32]. Proof. split; [discriminate|]. repeat constructor. Qed.
Lemma sepw_nl4 : sepw nl4. Proof. split; [discriminate|]. repeat constructor. Qed.

Lemma lang_from_lang : forall vs pend sfx,
  lang_from pend vs sfx -> vs <> [] ->
  exists sepz T, sfx = sepz ++ T /\ lang dec2f dec2d vs T /\
                 (if pend then sepw sepz else sepz = []).
Proof.
  induction vs as [|v vs IH]; intros pend sfx H Hne; [congruence|].
  cbn [lang_from] in H. destruct H as (sepz & t & sfx' & -> & Ht & Hs & Hl).
  assert (Hsz : if pend then sepw sepz else sepz = []).
  { destruct pend; [|assumption]. destruct Hs as [->| ->]; [apply sepw_32|apply sepw_nl4]. }
  destruct vs as [|v' vs'].
  - cbn in Hl. subst sfx'. exists sepz, t. rewrite app_nil_r.
    split; [reflexivity|]. split; [now constructor|assumption].
  - destruct (IH true sfx' Hl ltac:(discriminate)) as (sepz' & T' & -> & HL & Hs').
    exists sepz, (t ++ sepz' ++ T'). split; [reflexivity|]. split; [|assumption].
    now constructor.
Qed.

(* the printed text is a token sequence, and the returned count is its length *)
Lemma print_arg_vals_lang vs text w :
  Forall P vs -> print_arg_vals o vs 0 = Some (text, w) ->
  lang dec2f dec2d vs text /\ w = len text.
Proof.
  intros HP Hrun. unfold print_arg_vals in Hrun.
  apply print_loop_lang in Hrun; [|assumption|lia|reflexivity].
  destruct Hrun as (sfx & -> & -> & Hl). cbn [app].
  destruct vs as [|v vs].
  - cbn in Hl. subst. split; [constructor|reflexivity].
  - destruct (lang_from_lang _ _ _ Hl ltac:(discriminate)) as (sepz & T & -> & HL & ->).
    cbn [app]. split; [assumption|lia].
Qed.
End PrintSeq.

(* ------------------------------------------------------------------------- *)
(* Part 5: the values covered, and the round trip                             *)
Definition good_val (v : av) : Prop :=
  match v with
  | VI i => - 2 ^ 31 <= i < 2 ^ 31
  | VH h => - 2 ^ 63 <= h < 2 ^ 63
  | VT | VF | VN | VInf => True
  | VC c => good_char c
  | VS s => nonul s
  | VSym s => nonul s /\ sym_plain s = false     (* symbols that need quotes *)
  | VM a b c d => good_midi a b c d
  | VR v => good_rgba v
  | _ => False
  end.

Section Main.
Variables dec2f dec2d : str -> Z.

Lemma first_ok_num c : c = 45 \/ 48 <= c <= 57 -> first_ok c.
Proof. intros H. unfold first_ok, isspace, in_range. lia. Qed.

Lemma first_ok_alpha c : 65 <= c <= 90 \/ 97 <= c <= 122 -> first_ok c.
Proof. intros H. unfold first_ok, isspace, in_range. lia. Qed.

Lemma scalar_tok o v cols t w c :
  good_val v -> print_scalar o v cols = Some (t, w, c) -> tokof dec2f dec2d v t /\ w = len t.
Proof.
  intros Hg Hp. destruct v; cbn [good_val] in Hg; try contradiction; cbn in Hp; inversion Hp; subst; clear Hp.
  - split; [|reflexivity]. split; [now apply tok_core_reads, tok_int|]. split; [|exact I].
    destruct (print_d_hd i) as (c0 & tl & E & Hc). exists c0, tl. split; [assumption|now apply first_ok_num].
  - split; [|reflexivity]. split; [now apply tok_core_reads, tok_h|]. split; [|exact I].
    destruct (print_d_hd h) as (c0 & tl & E & Hc). rewrite E. exists c0, (tl ++ [104]).
    split; [reflexivity|now apply first_ok_num].
  - split; [|reflexivity]. split; [now apply tok_core_reads, tok_char|]. split; [|exact I].
    unfold print_char. destruct (as_escaped_char c0 true); eexists _, _; (split; [reflexivity|]);
      unfold first_ok, isspace, in_range; lia.
  - split; [|reflexivity]. split; [apply tok_core_reads, tok_T|]. split; [|exact I].
    eexists _, _. split; [reflexivity|]. apply first_ok_alpha. lia.
  - split; [|reflexivity]. split; [apply tok_core_reads, tok_F|]. split; [|exact I].
    eexists _, _. split; [reflexivity|]. apply first_ok_alpha. lia.
  - split; [|reflexivity]. split; [apply tok_core_reads, tok_N|]. split; [|exact I].
    eexists _, _. split; [reflexivity|]. apply first_ok_alpha. lia.
  - split; [|reflexivity]. split; [apply tok_core_reads, tok_Inf|]. split; [|exact I].
    eexists _, _. split; [reflexivity|]. apply first_ok_alpha. lia.
  - unfold print_string in H0. cbn [andb] in H0.
    destruct (print_chars false (linelength o) s (cols + 1)) as [body c1] eqn:Eb.
    inversion H0; subst; clear H0. split; [|reflexivity].
    split; [|split; [|exact I]].
    + replace body with (fst (print_chars false (linelength o) s (cols + 1))) by now rewrite Eb.
      exact (tok_core_reads _ _ _ _ (tok_quoted dec2f dec2d false _ _ _ Hg)).
    + eexists _, _. split; [reflexivity|]. unfold first_ok, isspace, in_range. lia.
  - destruct Hg as [Hn Hpl]. unfold print_string in H0. rewrite Hpl in H0. cbn [andb] in H0.
    destruct (print_chars false (linelength o) s (cols + 1)) as [body c1] eqn:Eb.
    inversion H0; subst; clear H0. split; [|reflexivity].
    split; [|split; [|exact I]].
    + replace body with (fst (print_chars false (linelength o) s (cols + 1))) by now rewrite Eb.
      exact (tok_core_reads _ _ _ _ (tok_quoted dec2f dec2d true _ _ _ Hn)).
    + eexists _, _. split; [reflexivity|]. unfold first_ok, isspace, in_range. lia.
  - split; [|reflexivity]. split; [now apply tok_core_reads, tok_midi|]. split; [|exact I].
    eexists _, _. split; [reflexivity|]. apply first_ok_alpha. lia.
  - split; [|reflexivity]. split; [now apply tok_core_reads, tok_rgba|]. split; [|exact I].
    eexists _, _. split; [reflexivity|]. unfold first_ok, isspace, in_range. lia.
Qed.

Lemma count_lang vs T : lang dec2f dec2d vs T ->
  count_printed_arg_vals dec2f dec2d T = Ok (true, Z.of_nat (length vs)).
Proof.
  intros HL. unfold count_printed_arg_vals.
  assert (E : skip_comments_ws (S (length (skip_ws T))) (skip_ws T) = T).
  { destruct vs as [|v vs].
    - inversion HL; subst. reflexivity.
    - destruct (lang_first _ _ _ _ _ HL) as (c & r & -> & Hc).
      destruct Hc as (H0 & H47 & H37 & Hsp & H46 & H40).
      rewrite skip_ws_nonspace by now rewrite hd0_cons. now apply skip_comments_ws_no. }
  rewrite E. rewrite (count_loop_lang _ _ _ _ HL); [reflexivity|lia].
Qed.

Lemma scan_lang vs T : lang dec2f dec2d vs T ->
  scan_arg_vals dec2f dec2d T (Z.of_nat (length vs)) = Ok (vs, []).
Proof.
  intros HL. unfold scan_arg_vals.
  rewrite (scan_loop_lang _ _ _ _ HL); [reflexivity|lia|lia].
Qed.

Lemma good_val_scalar v : good_val v -> scalar v.
Proof. destruct v; cbn; tauto. Qed.

Theorem roundtrip_scalars o vs text w :
  compress o = false ->
  Forall good_val vs -> print_arg_vals o vs 0 = Some (text, w) ->
  w = len text /\
  count_printed_arg_vals dec2f dec2d text = Ok (true, Z.of_nat (length vs)) /\
  scan_arg_vals dec2f dec2d text (Z.of_nat (length vs)) = Ok (vs, []).
Proof.
  intros Hoff Hg Hp.
  destruct (print_arg_vals_lang dec2f dec2d o good_val (scalar_tok o) good_val_scalar Hoff vs text w Hg Hp) as [HL ->].
  split; [reflexivity|]. split; [now apply count_lang | now apply scan_lang].
Qed.
End Main.

(* ------------------------------------------------------------------------- *)
(* Part 6: C11 - sentences of the grammar (Pretty/Grammar.v)                  *)
From RtoscV Require Import Pretty.Grammar.

Definition wf_word (w : word) : Prop := good_val (w_val w) /\ sepw (w_sep w).

Section Sentences.
Variables dec2f dec2d : list Z -> Z.

Lemma spell_word_tok w t : wf_word w -> spell_word w = Some t -> tokof dec2f dec2d (w_val w) t.
Proof.
  intros [Hg _] H. unfold spell_word in H.
  destruct (print_scalar (w_opts w) (w_val w) (w_cols w)) as [[[t' n] c]|] eqn:E; [|discriminate].
  inversion H; subst. exact (proj1 (scalar_tok dec2f dec2d _ _ _ _ _ _ Hg E)).
Qed.

Lemma spell_lang s : forall T, Forall wf_word s -> spell s = Some T -> lang dec2f dec2d (denote s) T.
Proof.
  induction s as [|w rest IH]; intros T Hw H.
  - inversion H; subst. constructor.
  - pose proof (Forall_inv Hw) as Hw1. pose proof (Forall_inv_tail Hw) as Hw2.
    cbn [spell] in H. destruct rest as [|w' rest'].
    + cbn. constructor. now apply spell_word_tok.
    + destruct (spell_word w) as [t|] eqn:Et; [|discriminate].
      destruct (spell (w' :: rest')) as [T'|] eqn:ET; [|discriminate].
      inversion H; subst. cbn [denote map].
      apply L_cons; [now apply spell_word_tok | apply Hw1 | exact (IH _ Hw2 eq_refl)].
Qed.

Theorem sentences_agree s T :
  Forall wf_word s -> spell s = Some T ->
  count_printed_arg_vals dec2f dec2d T = Ok (true, Z.of_nat (length s)) /\
  scan_arg_vals dec2f dec2d T (Z.of_nat (length s)) = Ok (denote s, []).
Proof.
  intros Hw H. pose proof (spell_lang s T Hw H) as HL.
  replace (length s) with (length (denote s)) by apply map_length.
  split; [now apply (count_lang dec2f dec2d) | now apply scan_lang].
Qed.

Theorem sentences_ws_invariant s1 s2 T1 T2 :
  Forall wf_word s1 -> Forall wf_word s2 -> denote s1 = denote s2 ->
  spell s1 = Some T1 -> spell s2 = Some T2 ->
  scan_arg_vals dec2f dec2d T1 (Z.of_nat (length s1)) =
  scan_arg_vals dec2f dec2d T2 (Z.of_nat (length s2)).
Proof.
  intros H1 H2 Hd E1 E2.
  rewrite (proj2 (sentences_agree s1 T1 H1 E1)), (proj2 (sentences_agree s2 T2 H2 E2)).
  now rewrite Hd.
Qed.

Theorem sentences_reprint s T o T' w :
  compress o = false ->
  Forall wf_word s -> spell s = Some T ->
  print_arg_vals o (denote s) 0 = Some (T', w) ->
  scan_arg_vals dec2f dec2d T' (Z.of_nat (length s)) = scan_arg_vals dec2f dec2d T (Z.of_nat (length s)).
Proof.
  intros Hoff Hw H Hp. rewrite (proj2 (sentences_agree s T Hw H)).
  assert (Hg : Forall good_val (denote s)).
  { unfold denote. apply Forall_map. eapply Forall_impl; [|exact Hw]. intros a Ha. apply Ha. }
  pose proof (roundtrip_scalars dec2f dec2d o (denote s) T' w Hoff Hg Hp) as (_ & _ & Hs).
  unfold denote in Hs. rewrite map_length in Hs. exact Hs.
Qed.

(* a sentence with a line break, a tab and a broken string as separators / spelling *)
Definition ex_opts : popts := {| lossless := true; prec := 2; linelength := 12; compress := false |}.
Definition ex_sentence : list word :=
  [ {| w_val := VI (-10); w_opts := ex_opts; w_cols := 0; w_sep := [10; 32; 32] |};
    {| w_val := VS [104; 101; 108; 108; 111; 10; 119; 111; 114; 108; 100; 34]; w_opts := ex_opts; w_cols := 9; w_sep := [9] |};
    {| w_val := VC 39; w_opts := ex_opts; w_cols := 0; w_sep := [32] |};
    {| w_val := VH 5; w_opts := ex_opts; w_cols := 0; w_sep := [32] |} ].

Lemma ex_sentence_wf : Forall wf_word ex_sentence /\ exists T, spell ex_sentence = Some T.
Proof.
  split.
  - repeat constructor; cbn; try lia; try discriminate.
  - eexists. vm_compute. reflexivity.
Qed.
End Sentences.

Lemma nonvacuous_list :
  Forall good_val [VI (-10); VI (-20); VS [104; 101; 108; 108; 111; 10; 34]; VC 39; VH 5; VT; VSym [49; 120]] /\
  exists text w, print_arg_vals {| lossless := true; prec := 2; linelength := 10; compress := false |}
    [VI (-10); VI (-20); VS [104; 101; 108; 108; 111; 10; 34]; VC 39; VH 5; VT; VSym [49; 120]] 0 = Some (text, w).
Proof.
  split.
  - repeat constructor; cbn; try lia; try discriminate.
  - eexists _, _. vm_compute. reflexivity.
Qed.

(* ------------------------------------------------------------------------- *)
(* the printer model is total on good values (the round-trip theorem is not  *)
(* vacuous for any list or option record)                                     *)
Lemma print_scalar_some o v cols : good_val v -> exists t w c, print_scalar o v cols = Some (t, w, c).
Proof.
  intros Hg. destruct v; cbn [good_val] in Hg; try contradiction; cbn [print_scalar];
    try (eexists _, _, _; reflexivity).
  - destruct (print_string o false s cols) as [t c]. eexists _, _, _; reflexivity.
  - destruct (print_string o true s cols) as [t c]. eexists _, _, _; reflexivity.
Qed.

Lemma print_loop_total o (Hoff : compress o = false) : forall args fuel prev i n acc pend wrt cols awtl,
  Forall good_val args -> n = i + Z.of_nat (length args) -> (length args < fuel)%nat ->
  (pend = false -> args = [] \/ awtl = 0) ->
  exists r, print_vals_loop fuel o args prev i n acc pend wrt cols awtl = Some r.
Proof.
  induction args as [|v rest IH]; intros fuel prev i n acc pend wrt cols awtl Hg Hn Hf Hp.
  - destruct fuel; [lia|]. cbn [print_vals_loop]. cbn in Hn. replace (n <=? i) with true by lia.
    eexists; reflexivity.
  - destruct fuel; [cbn in Hf; lia|]. cbn [print_vals_loop]. cbn [length] in Hn, Hf.
    replace (n <=? i) with false by lia.
    pose proof (Forall_inv Hg) as Hv. pose proof (Forall_inv_tail Hg) as Hg'.
    assert (Hsc : scalar v) by (destruct v; cbn in Hv; try contradiction; exact I).
    rewrite (conv_off o Hoff), (print_arg_val_top_scalar o v rest cols prev pend Hsc), (print_arg_val_scalar o v rest cols prev Hsc).
    destruct (print_scalar_some o v cols Hv) as (t & tmp & cols1 & E). rewrite E.
    rewrite (next_arg_offset_scalar v rest Hsc). change (skipz 1 (v :: rest)) with rest.
    destruct (if breaks_itself (av_type v) then (false, cols1, awtl)
              else lb_check (linelength o) cols1 tmp awtl) as [[brk_ cols2] awtl2] eqn:Elb.
    assert (Hb : brk_ && negb pend = false).
    { destruct pend; [now rewrite andb_false_r|]. destruct (Hp eq_refl) as [Hx|Hx]; [discriminate|].
      rewrite Hx in Elb.
      destruct (breaks_itself (av_type v)); [now inversion Elb|].
      unfold lb_check in Elb. cbn [Z.add Z.ltb Z.compare Pos.compare Pos.compare_cont] in Elb.
      rewrite andb_false_r in Elb. now inversion Elb. }
    rewrite orb_false_r, Hb.
    destruct (i + 1 <? n) eqn:En; apply IH; try assumption; try lia;
      intros Hd; try discriminate Hd; left; destruct rest; [reflexivity|cbn [length] in Hn; lia].
Qed.

Theorem print_arg_vals_total o vs :
  compress o = false -> Forall good_val vs -> exists text w, print_arg_vals o vs 0 = Some (text, w).
Proof.
  intros Hoff Hg. unfold print_arg_vals.
  destruct (print_loop_total o Hoff vs (S (length vs)) None 0 (Z.of_nat (length vs)) [] false 0 0 0 Hg)
    as [[text w] E]; try lia; try (intros _; now right).
  eexists _, _. exact E.
Qed.
