(* C10 - time tags with a fraction, the checker's half: fmt_date + skip_date step
   over "YYYY-MM-DD hh:mm:ss.dd (...+0x1.8p-3s)" as the printer writes it in
   lossless mode for every time tag whose fraction fits a float. *)
From Coq Require Import List ZArith Bool Lia ZifyBool.
From RtoscV Require Import Pretty.Tok Pretty.FloatFmt Pretty.TimeFmt Pretty.PrintModel Pretty.ScanModel
  Pretty.PrettyProofs Pretty.FloatProofs Pretty.TimeProofs .
From RtoscV Require Import Pretty.TimeTokProofs Pretty.TimeSkipProofs Pretty.TimeFracProofs.
Import ListNotations.
Local Open Scope Z_scope.

(* %d on a run of digits *)
Lemma sc_d_digits fr Y : Forall dig fr -> fr <> [] -> isdigit (hd0 Y) = false ->
  exists v, sc_d (fr ++ Y) = Some (v, Y).
Proof.
  intros Hfr Hne HY. destruct fr as [|c fr']; [contradiction|].
  inversion Hfr as [|? ? Hc Hfr']; subst. unfold dig in Hc. pose proof Hc as Hc'. apply isdigit_spec in Hc'.
  unfold sc_d. cbn [app]. rewrite skip_ws_nonspace by (rewrite hd0_cons; unfold isspace, in_range; lia).
  rewrite sc_sign_other by lia. rewrite hd0_cons, Hc.
  change (c :: fr' ++ Y) with ((c :: fr') ++ Y). rewrite read_digs_app by assumption.
  eexists. reflexivity.
Qed.

(* %x on a run of hexadecimal digits followed by '.' or 'p' *)
Lemma sc_x_digits ds Y : Forall xdig ds -> ds <> [] -> hd0 Y = 46 \/ hd0 Y = 112 ->
  exists v, sc_x (ds ++ Y) = Some (v, Y).
Proof.
  intros Hds Hne HY. destruct ds as [|c ds']; [contradiction|].
  inversion Hds as [|? ? Hc Hds']; subst. unfold xdig in Hc.
  assert (Hcr : isspace c = false /\ c <> 45 /\ c <> 43)
    by (unfold isxdigit, isdigit, isspace, in_range in *; lia).
  destruct Hcr as (Hsp & H45 & H43).
  assert (HYx : isxdigit (hd0 Y) = false) by (destruct HY as [-> | ->]; reflexivity).
  unfold sc_x. cbn [app]. rewrite skip_ws_nonspace by now rewrite hd0_cons.
  rewrite sc_sign_other by assumption.
  assert (Hno0x : match c :: ds' ++ Y with
                  | z :: x :: r => if (z =? 48) && ((x =? 120) || (x =? 88)) && isxdigit (hd0 r) then r else c :: ds' ++ Y
                  | _ => c :: ds' ++ Y end = c :: ds' ++ Y).
  { destruct ds' as [|d ds'']; cbn [app].
    - destruct Y as [|y Y']; [reflexivity|]. rewrite hd0_cons in HY.
      replace ((y =? 120) || (y =? 88)) with false by (destruct HY; subst; reflexivity).
      now rewrite andb_false_r.
    - inversion Hds' as [|? ? Hd _]; subst. unfold xdig in Hd.
      replace ((d =? 120) || (d =? 88)) with false by (unfold isxdigit, isdigit, in_range in Hd; lia).
      now rewrite andb_false_r. }
  rewrite Hno0x. rewrite hd0_cons, Hc.
  change (c :: ds' ++ Y) with ((c :: ds') ++ Y). rewrite read_hex_app by assumption.
  eexists. reflexivity.
Qed.

(* the hexadecimal text of the float a fraction goes through: positive, with a
   negative exponent between -32 and -1 *)
Ltac Zify.zify_post_hook ::= Z.div_mod_to_equations.
Lemma secfrac_hex_shape sf : frac_fits_float sf ->
  exists lead frac n, (lead = 48 \/ lead = 49) /\ Forall xdig frac /\ 1 <= n <= 32 /\
    fmt_a (f32_to_f64 (secfracs2float sf)) = hextext false lead frac (- n).
Proof.
  intros Hfit. destruct (secfracs2float_finite sf Hfit) as (Hb & Hfin).
  destruct (secfracs2float_bits sf Hfit) as (q & Hq & _ & HL & Ebits).
  set (L := Z.log2 sf) in *. set (b := secfracs2float sf) in *.
  destruct (f32_to_f64_fields b Hb Hfin) as (E & Fd & Eflt & HE & HFd & Hcases).
  assert (He32 : b / 2 ^ 23 mod 2 ^ 8 = L + 95) by (rewrite Ebits; lia).
  assert (Hs32 : b / 2 ^ 31 mod 2 = 0) by (rewrite Ebits; lia).
  rewrite He32, Hs32 in *.
  assert (HEv : E = L + 991) by (destruct Hcases as [(? & _)|[(? & _)|(_ & ? & _)]]; lia).
  set (flt := f32_to_f64 b) in *.
  pose proof (fmt_a_text flt) as T. cbv zeta in T. rewrite T.
  assert (Hsign : f64_sign flt = false) by (unfold f64_sign; rewrite Eflt; apply Z.eqb_neq; lia).
  assert (He64 : flt / 2 ^ 52 mod 2 ^ 11 = L + 991) by (rewrite Eflt; lia).
  rewrite Hsign, He64.
  replace (L + 991 =? 0) with false by lia.
  assert (Hf : 0 <= flt mod 2 ^ 52 < 2 ^ 52) by (apply Z.mod_pos_bound; lia).
  destruct (frac_digits (flt mod 2 ^ 52) Hf) as (Hx & _ & _).
  exists 49, (strip0 (hex_fixed 13 (flt mod 2 ^ 52) [])), (32 - L).
  split; [auto|]. split; [assumption|]. split; [lia|]. f_equal. lia.
Qed.
Ltac Zify.zify_post_hook ::= idtac.

(* ---- the stages of skip_date behind the seconds ------------------------------- *)
Lemma skip_dotdigits fr Y : Forall dig fr -> fr <> [] -> isdigit (hd0 Y) = false ->
  skip_fmt [DLit 46; Dd] (46 :: fr ++ Y) = Y.
Proof.
  intros Hfr Hne HY. unfold skip_fmt. cbn [run_fmt]. rewrite lit_eq.
  destruct (sc_d_digits fr Y Hfr Hne HY) as (v & ->). reflexivity.
Qed.

Lemma skip_paren Y :
  skip_fmt [DWs; DLit 40; DWs; DLit 46; DLit 46; DLit 46; DWs; DLit 43; DWs; DLit 48; DLit 120]
           (32 :: 40 :: 46 :: 46 :: 46 :: 43 :: 48 :: 120 :: Y) = Y.
Proof.
  unfold skip_fmt. cbn [run_fmt]. unfold skip_ws at 1. cbn [dropwhile].
  change (isspace 32) with true. change (isspace 40) with false. cbv iota. rewrite lit_eq.
  rewrite (skip_ws_nonspace (46 :: _)) by reflexivity. rewrite !lit_eq.
  rewrite (skip_ws_nonspace (43 :: _)) by reflexivity. rewrite lit_eq.
  rewrite (skip_ws_nonspace (48 :: _)) by reflexivity. rewrite !lit_eq. reflexivity.
Qed.

Lemma skip_x_lit ds c Y : Forall xdig ds -> ds <> [] -> c = 46 \/ c = 112 ->
  skip_fmt [Dx; DLit c] (ds ++ c :: Y) = Y.
Proof.
  intros Hds Hne Hc. unfold skip_fmt. cbn [run_fmt].
  destruct (sc_x_digits ds (c :: Y) Hds Hne) as (v & ->); [now rewrite hd0_cons|].
  rewrite lit_eq. reflexivity.
Qed.

Lemma skip_x_nodot ds Y : Forall xdig ds -> ds <> [] ->
  skip_fmt [Dx; DLit 46] (ds ++ 112 :: Y) = ds ++ 112 :: Y.
Proof.
  intros Hds Hne. unfold skip_fmt. cbn [run_fmt].
  destruct (sc_x_digits ds (112 :: Y) Hds Hne) as (v & ->); [right; reflexivity|].
  reflexivity.
Qed.

Lemma run_exponent n rest : 0 <= n ->
  run_fmt [DLit 45; Dd; DWs; DLit 115; DWs; DLit 41] (45 :: dec_nat n ++ 115 :: 41 :: rest) [] = Some ([n], rest).
Proof.
  intros Hn. cbn [run_fmt]. rewrite lit_eq.
  rewrite sc_d_nat by (try assumption; unfold num_follow; rewrite hd0_cons; repeat split; (reflexivity || lia)).
  rewrite (skip_ws_nonspace (115 :: _)) by reflexivity. rewrite lit_eq.
  rewrite (skip_ws_nonspace (41 :: _)) by reflexivity. rewrite lit_eq. reflexivity.
Qed.

(* positions: a proper suffix is at another position *)
Lemma same_pos_suffix (pre s : str) : pre <> [] -> same_pos s (pre ++ s) = false.
Proof. apply same_pos_shorter. Qed.

Ltac adv_tac := unfold same_pos; apply Nat.eqb_neq; unfold d2; repeat (rewrite app_length || cbn [length]); lia.
Ltac adv := match goal with |- context [negb (negb (same_pos ?a ?b))] =>
              replace (same_pos a b) with false by (symmetry; adv_tac); cbn [negb] end.

Theorem timetag_skip_fraction o secs sf rest :
  lossless o = true -> 0 <= secs < 2 ^ 32 -> frac_fits_float sf -> secs * 2 ^ 32 + sf <> 1 ->
  let text := print_timetag o (secs * 2 ^ 32 + sf) ++ rest in
  same_pos (skip_fmt fmt_date text) text = false /\
  skip_date (skip_fmt fmt_date text) = Ok (rest, 1, 116).
Proof.
  intros Hlo Hs Hfit Hne1. cbv zeta.
  assert (Hsf : 0 < sf < 2 ^ 32).
  { destruct Hfit as (m & j & E & Hm & Hj & Hlt). pose proof (pow2_gt0 j Hj). nia. }
  unfold print_timetag.
  replace (secs * 2 ^ 32 + sf =? 1) with false by (symmetry; now apply Z.eqb_neq).
  replace ((secs * 2 ^ 32 + sf) / 2 ^ 32) with secs
    by (rewrite Z.add_comm, Z.div_add by lia; rewrite Z.div_small by lia; reflexivity).
  replace ((secs * 2 ^ 32 + sf) mod 2 ^ 32) with sf
    by (rewrite Z.add_comm, Z.mod_add by lia; rewrite Z.mod_small by lia; reflexivity).
  pose proof (calendar_roundtrip secs Hs) as Hc.
  destruct (date_of_secs secs) as [[[[[y mo] d] h] mi] se].
  destruct Hc as (Esecs & Hy & Hmo & Hd & Hh & Hmi & Hse).
  replace (sf =? 0) with false by (symmetry; apply Z.eqb_neq; lia). cbn [negb orb]. cbv iota.
  rewrite Hlo.
  set (flt := f32_to_f64 (secfracs2float sf)).
  destruct (fmt_f_frac (Z.max (prec o) 1) flt ltac:(lia)) as (fr & -> & Hfr & Hfrne).
  destruct (secfrac_hex_shape sf Hfit) as (lead & frac & n & Hl & Hfrac & Hn & Ehex). fold flt in Ehex.
  rewrite Ehex. unfold hextext, print_exp.
  replace (- n <? 0) with true by lia. replace (Z.abs (- n)) with n by lia.
  assert (Hdate : forall tail, skip_fmt fmt_date (dec_nat y ++ 45 :: d2 mo ++ 45 :: d2 d ++ tail) = tail)
    by (intros tail; unfold skip_fmt; rewrite skip_date_head by lia; reflexivity).
  assert (Hadv : forall tail, same_pos tail (dec_nat y ++ 45 :: d2 mo ++ 45 :: d2 d ++ tail) = false).
  { intros tail. replace (dec_nat y ++ 45 :: d2 mo ++ 45 :: d2 d ++ tail)
      with ((dec_nat y ++ 45 :: d2 mo ++ 45 :: d2 d) ++ tail) by (norm_app; reflexivity).
    apply same_pos_shorter. destruct (dec_nat y); discriminate. }
  norm_app. rewrite Hdate, Hadv. split; [reflexivity|].
  assert (Hexp : run_fmt [DLit 45; Dd; DWs; DLit 115; DWs; DLit 41] (45 :: dec_nat n ++ 115 :: 41 :: rest) [] = Some ([n], rest))
    by (apply run_exponent; lia).
  assert (Hlead : Forall xdig [lead]) by (constructor; [destruct Hl as [->| ->]; reflexivity|constructor]).
  unfold skip_date. cbv zeta beta.
  rewrite skip_clock by lia. adv.
  rewrite skip_seconds by lia. adv.
  rewrite skip_dotdigits by (assumption || reflexivity). adv.
  rewrite skip_paren. adv.
  destruct frac as [|f0 frac'].
  - cbn [app].
    change (lead :: 112 :: 45 :: dec_nat n ++ 115 :: 41 :: rest) with ([lead] ++ 112 :: 45 :: dec_nat n ++ 115 :: 41 :: rest).
    rewrite skip_x_nodot by (assumption || discriminate).
    rewrite (skip_x_lit [lead] 112) by (assumption || discriminate || auto). adv.
    rewrite Hexp. replace ((0 <? n) && (n <=? 32)) with true by lia. reflexivity.
  - cbn [app].
    change (lead :: 46 :: f0 :: frac' ++ 112 :: 45 :: dec_nat n ++ 115 :: 41 :: rest)
      with ([lead] ++ 46 :: (f0 :: frac') ++ 112 :: 45 :: dec_nat n ++ 115 :: 41 :: rest).
    rewrite (skip_x_lit [lead] 46) by (assumption || discriminate || auto).
    rewrite (skip_x_lit (f0 :: frac') 112) by (assumption || discriminate || auto). adv.
    rewrite Hexp. replace ((0 <? n) && (n <=? 32)) with true by lia. reflexivity.
Qed.
