(* C10 - rtosc_convert_to_range: the range it writes expands to exactly the
   values it replaces (C10_range_expand), for runs of integers (i, h, c) with
   a step and for constant runs of every scalar type except floats. *)
From Coq Require Import List ZArith Bool Lia.
From RtoscV Require Import Pretty.Tok Pretty.FloatFmt Pretty.FloatArith Pretty.PrintModel Pretty.ScanModel Pretty.PrettyProofs.
Import ListNotations.
Local Open Scope Z_scope.

(* ---- the three integer kinds ---------------------------------------------------- *)
Inductive ikind := KI | KH | KC.
Definition mk (k : ikind) (z : Z) : av := match k with KI => VI z | KH => VH z | KC => VC z end.
Definition wr (k : ikind) : Z -> Z := match k with KH => wrap64 | _ => wrap32 end.
Definition inr (k : ikind) (z : Z) : Prop :=
  match k with KH => - 2 ^ 63 <= z < 2 ^ 63 | _ => - 2 ^ 31 <= z < 2 ^ 31 end.

Lemma wr_id k z : inr k z -> wr k z = z.
Proof. destruct k; cbn; unfold wrap32, wrap64; intros H; rewrite Z.mod_small; lia. Qed.

Lemma wr_add_l k a b : wr k (wr k a + b) = wr k (a + b).
Proof.
  destruct k; cbn; unfold wrap32, wrap64.
  - replace ((a + 2 ^ 31) mod 2 ^ 32 - 2 ^ 31 + b + 2 ^ 31) with ((a + 2 ^ 31) mod 2 ^ 32 + b) by lia.
    rewrite Zplus_mod_idemp_l. f_equal. f_equal. lia.
  - replace ((a + 2 ^ 63) mod 2 ^ 64 - 2 ^ 63 + b + 2 ^ 63) with ((a + 2 ^ 63) mod 2 ^ 64 + b) by lia.
    rewrite Zplus_mod_idemp_l. f_equal. f_equal. lia.
  - replace ((a + 2 ^ 31) mod 2 ^ 32 - 2 ^ 31 + b + 2 ^ 31) with ((a + 2 ^ 31) mod 2 ^ 32 + b) by lia.
    rewrite Zplus_mod_idemp_l. f_equal. f_equal. lia.
Qed.

Lemma wr_add_r k a b : wr k (a + wr k b) = wr k (a + b).
Proof. rewrite (Z.add_comm a), wr_add_l. f_equal. lia. Qed.

Lemma wr_inr k z : inr k (wr k z).
Proof.
  destruct k; cbn; unfold wrap32, wrap64.
  - pose proof (Z.mod_pos_bound (z + 2 ^ 31) (2 ^ 32) ltac:(lia)). lia.
  - pose proof (Z.mod_pos_bound (z + 2 ^ 63) (2 ^ 64) ltac:(lia)). lia.
  - pose proof (Z.mod_pos_bound (z + 2 ^ 31) (2 ^ 32) ltac:(lia)). lia.
Qed.

Lemma mk_inj k a b : mk k a = mk k b -> a = b.
Proof. destruct k; cbn; congruence. Qed.

Lemma add_mk k a b : av_add (mk k a) (mk k b) = Some (mk k (wr k (a + b))).
Proof. now destruct k. Qed.
Lemma sub_mk k a b : av_sub (mk k a) (mk k b) = Some (mk k (wr k (a - b))).
Proof. now destruct k. Qed.
Lemma eq_mk k a b : av_eq_single (mk k a) (mk k b) = Some (a =? b).
Proof. now destruct k. Qed.
Lemma type_mk_inj k z v : scalar v -> av_type v = av_type (mk k z) -> exists b, v = mk k b.
Proof. destruct k, v; cbn; intros Hs H; try discriminate; try contradiction; eexists; reflexivity. Qed.

Lemma type_mk_inj' k z v : av_type v = av_type (mk k z) -> exists b, v = mk k b.
Proof. destruct k, v; cbn; intros H; try discriminate; eexists; reflexivity. Qed.
Lemma exact_scalar v : (match v with VArr _ _ | VRep _ _ | VSpc _ => False | _ => True end) -> scalar v.
Proof. destruct v; cbn; tauto. Qed.

Lemma range_arg_mk k d s j :
  - 2 ^ 31 <= j < 2 ^ 31 ->
  range_arg (mk k d) (mk k s) j = Some (mk k (wr k (s + j * d))).
Proof.
  intros Hj. unfold range_arg.
  replace (av_from_int (av_type (mk k d)) j) with (Some (mk k j)) by now destruct k.
  replace (av_mult (mk k j) (mk k d)) with (Some (mk k (wr k (j * d)))) by now destruct k.
  rewrite add_mk. now rewrite wr_add_r.
Qed.

(* on the integer kinds the recognisers' arithmetic (FloatArith.delta_x,
   range_arg_x) is the integer arithmetic of Tok.v *)
Lemma delta_x_mk l k b r u : delta_x l (mk k b) r u = delta_from_arg_vals l (mk k b) r u.
Proof. now destruct k. Qed.
Lemma range_arg_x_mk k d s j : range_arg_x (mk k d) (mk k s) j = range_arg (mk k d) (mk k s) j.
Proof. now destruct k. Qed.

(* ---- lists as functions of the index ---------------------------------------------- *)
Lemma firstn_map_seq {A} (f : nat -> A) (l : list A) : forall n,
  (forall j, (j < n)%nat -> nth_error l j = Some (f j)) -> firstn n l = map f (seq 0 n).
Proof.
  intros n H.
  assert (G : forall m l' off, (forall j, (j < m)%nat -> nth_error l' j = Some (f (off + j)%nat)) ->
              firstn m l' = map f (seq off m)).
  { induction m as [|m IH]; intros l' off Hl; [reflexivity|].
    destruct l' as [|x l']; [specialize (Hl 0%nat ltac:(lia)); discriminate|].
    cbn [firstn seq map]. pose proof (Hl 0%nat ltac:(lia)) as H0. cbn in H0. inversion H0; subst.
    rewrite Nat.add_0_r. f_equal. apply IH. intros j Hj.
    specialize (Hl (S j) ltac:(lia)). cbn in Hl. rewrite Hl. f_equal. f_equal. lia. }
  apply G. intros j Hj. now apply H.
Qed.

Lemma skipz_nth (l : list av) (n : nat) : skipz (Z.of_nat n) l = skipn n l.
Proof. unfold skipz. now rewrite Nat2Z.id. Qed.

Lemma skipn_hd (l : list av) n : skipn n l = match nth_error l n with Some x => x :: skipn (S n) l | None => [] end.
Proof.
  revert l. induction n as [|n IH]; intros l; destruct l as [|x l]; try reflexivity.
  cbn [skipn nth_error]. apply IH.
Qed.

Lemma incsize_scalar v r : scalar v -> incsize (v :: r) = 1.
Proof. destruct v; cbn; tauto. Qed.

(* a slot of a list of values and arrays of values: a value, an array header or
   the filler behind a converted range *)
Definition sa (v : av) : Prop := match v with VRep _ _ => False | _ => True end.
Lemma scalar_sa v : scalar v -> sa v.
Proof. destruct v; cbn; tauto. Qed.

Lemma elem_eq_mk k x z r :
  sa z ->
  elem_eq [mk k x] (z :: r) =
  if av_type (mk k x) =? av_type z then av_eq_single (mk k x) z else Some false.
Proof. destruct k, z; cbn [sa]; intros Hs; try contradiction; reflexivity. Qed.

(* equality of rtosc_arg_vals_eq_single is identity - for floats and doubles
   when they are no NaN and one of the two zeroes does not occur (inrv below;
   signed-zero-run) *)
Definition exact (v : av) : Prop :=
  match v with VArr _ _ | VRep _ _ | VSpc _ => False | _ => True end.

(* z0: the zero pattern (+0.0 or -0.0) that does not occur *)
Definition flgood (mb eb z0 b : Z) : Prop :=
  0 <= b < 2 ^ (mb + eb + 1) /\ fl_isnan mb eb b = false /\ b <> z0.

Lemma fl_eq_id32 z0 a b : z0 = 0 \/ z0 = 2 ^ 31 ->
  flgood 23 8 z0 a -> flgood 23 8 z0 b -> fl_eq 23 8 a b = true -> b = a.
Proof.
  intros Hz0. unfold flgood, fl_eq, fl_key. change (23 + 8 + 1) with 32. change (23 + 8) with 31.
  intros (Ha & _ & Ha0) (Hb & _ & Hb0) H. apply andb_true_iff in H as [_ H]. apply Z.eqb_eq in H.
  pose proof (Z.div_mod a (2 ^ 31) ltac:(lia)). pose proof (Z.mod_pos_bound a (2 ^ 31) ltac:(lia)).
  pose proof (Z.div_mod b (2 ^ 31) ltac:(lia)). pose proof (Z.mod_pos_bound b (2 ^ 31) ltac:(lia)).
  assert (0 <= a / 2 ^ 31 < 2) by (split; [apply Z.div_pos; lia|apply Z.div_lt_upper_bound; lia]).
  assert (0 <= b / 2 ^ 31 < 2) by (split; [apply Z.div_pos; lia|apply Z.div_lt_upper_bound; lia]).
  rewrite (Z.mod_small (a / 2 ^ 31) 2), (Z.mod_small (b / 2 ^ 31) 2) in H by lia.
  destruct (a / 2 ^ 31 =? 1) eqn:E1; destruct (b / 2 ^ 31 =? 1) eqn:E2; lia.
Qed.

Lemma fl_eq_id64 z0 a b : z0 = 0 \/ z0 = 2 ^ 63 ->
  flgood 52 11 z0 a -> flgood 52 11 z0 b -> fl_eq 52 11 a b = true -> b = a.
Proof.
  intros Hz0. unfold flgood, fl_eq, fl_key. change (52 + 11 + 1) with 64. change (52 + 11) with 63.
  intros (Ha & _ & Ha0) (Hb & _ & Hb0) H. apply andb_true_iff in H as [_ H]. apply Z.eqb_eq in H.
  pose proof (Z.div_mod a (2 ^ 63) ltac:(lia)). pose proof (Z.mod_pos_bound a (2 ^ 63) ltac:(lia)).
  pose proof (Z.div_mod b (2 ^ 63) ltac:(lia)). pose proof (Z.mod_pos_bound b (2 ^ 63) ltac:(lia)).
  assert (0 <= a / 2 ^ 63 < 2) by (split; [apply Z.div_pos; lia|apply Z.div_lt_upper_bound; lia]).
  assert (0 <= b / 2 ^ 63 < 2) by (split; [apply Z.div_pos; lia|apply Z.div_lt_upper_bound; lia]).
  rewrite (Z.mod_small (a / 2 ^ 63) 2), (Z.mod_small (b / 2 ^ 63) 2) in H by lia.
  destruct (a / 2 ^ 63 =? 1) eqn:E1; destruct (b / 2 ^ 63 =? 1) eqn:E2; lia.
Qed.

Lemma strip_prefix_app a : forall b r, strip_prefix a b = Some r -> b = a ++ r.
Proof.
  induction a as [|x a IH]; intros b r H; cbn in H; [now inversion H|].
  destruct b as [|y b]; [discriminate|]. destruct (y =? x) eqn:E; [|discriminate].
  apply Z.eqb_eq in E. subst. cbn. f_equal. now apply IH.
Qed.

Lemma str_eqb_eq a b : str_eqb a b = true -> b = a.
Proof.
  unfold str_eqb, starts_with. intros H. apply andb_true_iff in H as [Hl Hp].
  destruct (strip_prefix a b) as [r|] eqn:E; [|discriminate].
  apply strip_prefix_app in E. subst b. apply Nat.eqb_eq in Hl. rewrite app_length in Hl.
  destruct r; [now rewrite app_nil_r|cbn in Hl; lia].
Qed.

(* ---- the zero of each floating point type that is absent ------------------------- *)
Section ZeroChoice.
Variables zf zd : Z.
Hypothesis Hzf : zf = 0 \/ zf = 2 ^ 31.
Hypothesis Hzd : zd = 0 \/ zd = 2 ^ 63.

(* values in the range of their type; floats and doubles: no NaN and not the
   zero pattern zf resp. zd *)
Definition inrv (v : av) : Prop :=
  match v with
  | VI z | VC z => - 2 ^ 31 <= z < 2 ^ 31
  | VH z => - 2 ^ 63 <= z < 2 ^ 63
  | VFl b => flgood 23 8 zf b
  | VD b => flgood 52 11 zd b
  | _ => True
  end.

Lemma eq_exact a z : exact a -> inrv a -> inrv z -> av_eq_single a z = Some true -> z = a.
Proof.
  destruct a, z; cbn [exact inrv av_eq_single]; intros Hex Ha Hz H;
    try contradiction; try discriminate; try reflexivity;
    try (inversion H as [E]; apply Z.eqb_eq in E; now subst);
    try (inversion H as [E]; apply str_eqb_eq in E; now subst).
  - inversion H as [E]. repeat (apply andb_true_iff in E as [E ?]).
    repeat match goal with Hq : (_ =? _) = true |- _ => apply Z.eqb_eq in Hq end. now subst.
  - inversion H as [E]. f_equal. now apply (fl_eq_id32 zf).
  - inversion H as [E]. f_equal. now apply (fl_eq_id64 zd).
Qed.

Lemma elem_eq_exact a0 z r1 r2 :
  exact a0 -> sa z ->
  elem_eq (a0 :: r1) (z :: r2) = if av_type a0 =? av_type z then av_eq_single a0 z else Some false.
Proof. destruct a0, z; cbn; intros H1 H2; try contradiction; reflexivity. Qed.

Section Conv.
Variable o : popts.
Variable args : list av.
Hypothesis Hsc : Forall sa args.
Hypothesis Hin : Forall inrv args.

Lemma nth_inrv j v : nth_error args j = Some v -> inrv v.
Proof. intros H. eapply Forall_forall; [exact Hin|]. eapply nth_error_In; exact H. Qed.

Lemma nth_scalar j v : nth_error args j = Some v -> sa v.
Proof. intros H. eapply Forall_forall; [exact Hsc|]. eapply nth_error_In; exact H. Qed.

Lemma incsize_skipn j v : nth_error args j = Some v -> scalar v -> incsize (skipn j args) = 1.
Proof. intros E Hs. rewrite skipn_hd, E. now apply incsize_scalar. Qed.

(* ---- runs with a step ---------------------------------------------------------------- *)
Section Delta.
Variables (k : ikind) (d x : Z).
Hypothesis Hx0 : nth_error args 0 = Some (mk k x).

(* the wrapped chain the loop verifies, each step with range_step_fits *)
Definition chained (s : nat) : Prop :=
  forall j, (j < s)%nat -> exists a, nth_error args j = Some (mk k a) /\
                            nth_error args (S j) = Some (mk k (wr k (a + d))) /\
                            range_step_fits (mk k x) (mk k a) (mk k (wr k (a + d))) (mk k d) = Some true.

Lemma run_loop_delta fuel size : forall s s' nc',
  run_loop fuel args size true (mk k d) (Z.of_nat s) (Z.of_nat s) = Some (s', nc') ->
  (1 <= s)%nat -> chained s -> Z.of_nat s < size ->
  exists n, s' = Z.of_nat n /\ nc' = Z.of_nat n /\ (s < n)%nat /\ chained (n - 1) /\ Z.of_nat n <= size.
Proof.
  induction fuel as [|fuel IH]; intros s s' nc' Hrun Hs Hch Hsz; [discriminate|].
  cbn [run_loop] in Hrun.
  destruct (Hch (s - 1)%nat ltac:(lia)) as (a0 & _ & Ha & _). replace (S (s - 1)) with s in Ha by lia.
  rewrite skipz_nth, (incsize_skipn s _ Ha ltac:(now destruct k)) in Hrun.
  set (a := wr k (a0 + d)) in *.
  rewrite (skipn_hd args s), Ha, add_mk in Hrun.
  destruct (size <=? Z.of_nat s + 1) eqn:Esz.
  - inversion Hrun; subst. exists (S s). repeat split; try lia. now replace (S s - 1)%nat with s by lia.
  - replace (Z.of_nat s + 1) with (Z.of_nat (S s)) in Hrun by lia. rewrite skipz_nth in Hrun.
    rewrite (skipn_hd args (S s)) in Hrun.
    destruct (nth_error args (S s)) as [z|] eqn:Ez; [|destruct k; discriminate].
    assert (Hzs : sa z) by (eapply nth_scalar; exact Ez).
    rewrite (elem_eq_mk k _ z _ Hzs) in Hrun.
    destruct (av_type (mk k (wr k (a + d))) =? av_type z) eqn:Et.
    + apply Z.eqb_eq in Et. symmetry in Et. destruct (type_mk_inj' _ _ _ Et) as (b & ->).
      rewrite eq_mk in Hrun. destruct (wr k (a + d) =? b) eqn:Eb.
      * apply Z.eqb_eq in Eb. subst b.
        destruct args as [|h0 t0] eqn:Eargs; [discriminate|]. cbn in Hx0. inversion Hx0; subst h0.
        rewrite <- Eargs in *.
        destruct (range_step_fits (mk k x) (mk k a) (mk k (wr k (a + d))) (mk k d)) as [[|]|] eqn:Ef;
          [| |discriminate].
        -- apply IH in Hrun; [|lia| |lia].
           ++ destruct Hrun as (n & -> & -> & Hn & Hc & Hle). exists n. repeat split; try lia. exact Hc.
           ++ intros j Hj. destruct (Nat.eq_dec j s) as [->|Hne].
              ** exists a. repeat split; assumption.
              ** apply Hch. lia.
        -- inversion Hrun; subst. exists (S s). repeat split; try lia. now replace (S s - 1)%nat with s by lia.
      * inversion Hrun; subst. exists (S s). repeat split; try lia. now replace (S s - 1)%nat with s by lia.
    + inversion Hrun; subst. exists (S s). repeat split; try lia. now replace (S s - 1)%nat with s by lia.
Qed.

Lemma fits_mk a t :
  range_step_fits (mk k x) (mk k a) (mk k t) (mk k d) =
  Some ((cmp3 t a =? cmp3 d 0) && (cmp3 (wr k (t - x)) 0 =? cmp3 d 0)).
Proof. destruct k; reflexivity. Qed.

Definition Mk' : Z := match k with KH => 2 ^ 64 | _ => 2 ^ 32 end.
Lemma wr_mod' z : exists q, wr k z = z + q * Mk'.
Proof.
  unfold Mk'. destruct k; cbn [wr]; unfold wrap32, wrap64.
  - exists (- ((z + 2 ^ 31) / 2 ^ 32)). pose proof (Z.div_mod (z + 2 ^ 31) (2 ^ 32) ltac:(lia)). lia.
  - exists (- ((z + 2 ^ 63) / 2 ^ 64)). pose proof (Z.div_mod (z + 2 ^ 63) (2 ^ 64) ltac:(lia)). lia.
  - exists (- ((z + 2 ^ 31) / 2 ^ 32)). pose proof (Z.div_mod (z + 2 ^ 31) (2 ^ 32) ltac:(lia)). lia.
Qed.
Lemma inr_M z : inr k z <-> - Mk' <= 2 * z < Mk'.
Proof. unfold Mk'. destruct k; cbn [inr]; split; intros; lia. Qed.

(* a verified step is exact, and the span stays in range *)
Lemma fits_arith a j :
  inr k x -> inr k a -> inr k d -> d <> 0 -> a = x + j * d -> 0 <= j ->
  (cmp3 (wr k (a + d)) a =? cmp3 d 0) && (cmp3 (wr k (wr k (a + d) - x)) 0 =? cmp3 d 0) = true ->
  wr k (a + d) = a + d /\ inr k ((j + 1) * d).
Proof.
  intros Hx Ha Hd Hd0 Ea Hj H. apply andb_true_iff in H as [H1 H2].
  apply Z.eqb_eq in H1. apply Z.eqb_eq in H2.
  pose proof (wr_inr k (a + d)) as Hi1. destruct (wr_mod' (a + d)) as [q Hq]. rewrite Hq in *.
  apply inr_M in Hx. apply inr_M in Ha. apply inr_M in Hd. apply inr_M in Hi1.
  assert (HM : 0 < Mk') by (unfold Mk'; destruct k; lia).
  assert (q = 0).
  { unfold cmp3 in H1. destruct (d =? 0) eqn:E0; [lia|]. destruct (0 <? d) eqn:Ed;
      destruct (a + d + q * Mk' =? a) eqn:E1; try lia; destruct (a <? a + d + q * Mk') eqn:E2; try lia; nia. }
  subst q. rewrite Z.mul_0_l, Z.add_0_r in *.
  split; [reflexivity|].
  pose proof (wr_inr k (a + d - x)) as Hi2. destruct (wr_mod' (a + d - x)) as [q2 Hq2]. rewrite Hq2 in *.
  apply inr_M in Hi2. apply inr_M.
  assert (Es : a + d - x = (j + 1) * d) by lia. rewrite Es in *.
  assert (q2 = 0).
  { unfold cmp3 in H2. destruct (d =? 0) eqn:E0; [lia|]. destruct (0 <? d) eqn:Ed;
      destruct ((j + 1) * d + q2 * Mk' =? 0) eqn:E1; try lia; destruct (0 <? (j + 1) * d + q2 * Mk') eqn:E2; try lia; nia. }
  subst q2. lia.
Qed.

(* closed, exact form of a verified chain *)
Lemma chained_exact n :
  inr k x -> inr k d -> d <> 0 -> chained n ->
  forall j, (j <= n)%nat -> nth_error args j = Some (mk k (x + Z.of_nat j * d)) /\
                           inr k (x + Z.of_nat j * d) /\ inr k (Z.of_nat j * d).
Proof.
  intros Hx Hd Hd0 Hch j. induction j as [|j IH]; intros Hj.
  - rewrite Hx0. replace (x + Z.of_nat 0 * d) with x by lia. split; [reflexivity|]. split; [exact Hx|].
    destruct k; cbn; lia.
  - destruct (IH ltac:(lia)) as (Hn & Hr & Hs). destruct (Hch j ltac:(lia)) as (a & Ha & Hb & Hf).
    rewrite Hn in Ha. assert (a = x + Z.of_nat j * d) by (apply (mk_inj k); congruence). subst a.
    rewrite fits_mk in Hf. inversion Hf as [Hf'].
    destruct (fits_arith (x + Z.of_nat j * d) (Z.of_nat j) Hx Hr Hd Hd0 eq_refl ltac:(lia) Hf') as [He Hsp].
    rewrite He in Hb. replace (x + Z.of_nat (S j) * d) with (x + Z.of_nat j * d + d) by lia.
    split; [exact Hb|]. split; [rewrite <- He; apply wr_inr|].
    replace (Z.of_nat (S j) * d) with ((Z.of_nat j + 1) * d) by lia. exact Hsp.
Qed.
End Delta.

(* ---- constant runs ------------------------------------------------------------------- *)
Definition const_run (a0 : av) (s : nat) : Prop :=
  forall j, (j <= s)%nat -> nth_error args j = Some a0.

Lemma run_loop_const fuel size a0 dl : forall s s' nc',
  exact a0 -> nth_error args 0 = Some a0 ->
  run_loop fuel args size false dl (Z.of_nat s) (Z.of_nat s) = Some (s', nc') ->
  (1 <= s)%nat -> const_run a0 s -> Z.of_nat s < size ->
  exists n, s' = Z.of_nat n /\ nc' = Z.of_nat n /\ (s < n)%nat /\ const_run a0 (n - 1) /\ Z.of_nat n <= size.
Proof.
  induction fuel as [|fuel IH]; intros s s' nc' Hex H0 Hrun Hs Hch Hsz; [discriminate|].
  cbn [run_loop] in Hrun.
  rewrite skipz_nth, (incsize_skipn s a0 (Hch s (Nat.le_refl s)) ltac:(destruct a0; cbn in Hex |- *; tauto)) in Hrun.
  destruct (size <=? Z.of_nat s + 1) eqn:Esz.
  - inversion Hrun; subst. exists (S s). repeat split; try lia. now replace (S s - 1)%nat with s by lia.
  - replace (Z.of_nat s + 1) with (Z.of_nat (S s)) in Hrun by lia. rewrite skipz_nth in Hrun.
    rewrite (skipn_hd args (S s)) in Hrun.
    pose proof H0 as H0'.
    destruct args as [|x rest] eqn:Ea; [discriminate|]. cbn in H0. inversion H0; subst x. rewrite <- Ea in *.
    destruct (nth_error args (S s)) as [z|] eqn:Ez.
    + assert (Hzs : sa z) by (eapply nth_scalar; exact Ez).
      rewrite Ea in Hrun at 1. rewrite (elem_eq_exact a0 z rest _ Hex Hzs) in Hrun.
      destruct (av_type a0 =? av_type z) eqn:Et.
      * destruct (av_eq_single a0 z) as [[|]|] eqn:Eq; [| |discriminate].
        -- apply (eq_exact _ _ Hex (nth_inrv _ _ H0') (nth_inrv _ _ Ez)) in Eq. subst z.
           apply IH in Hrun; try assumption; try lia.
           ++ destruct Hrun as (n & -> & -> & Hn & Hc & Hle). exists n. repeat split; try lia. exact Hc.
           ++ intros j Hj. destruct (Nat.eq_dec j (S s)) as [->|Hne]; [assumption|apply Hch; lia].
        -- inversion Hrun; subst. exists (S s). repeat split; try lia. now replace (S s - 1)%nat with s by lia.
      * inversion Hrun; subst. exists (S s). repeat split; try lia. now replace (S s - 1)%nat with s by lia.
    + rewrite Ea in Hrun at 1. destruct a0; cbn in Hex; try contradiction; discriminate.
Qed.
End Conv.

(* ---- C10_range_expand ---------------------------------------------------------------- *)
Lemma inrv_mk k z : inrv (mk k z) -> inr k z.
Proof. destruct k; cbn; tauto. Qed.

Lemma sub_kind k x a1 delta :
  av_sub a1 (mk k x) = Some delta -> range_convertible (av_type (mk k x)) = true ->
  exists y, a1 = mk k y /\ delta = mk k (wr k (y - x)).
Proof.
  destruct k, a1; cbn; intros H _; try discriminate; inversion H; eexists; split; reflexivity.
Qed.

Lemma concat_repeat_single {A} (a : A) n : concat (repeat [a] n) = repeat a n.
Proof. induction n; cbn; [reflexivity|now rewrite IHn]. Qed.

Lemma map_const_seq {A} (a : A) n off : map (fun _ => a) (seq off n) = repeat a n.
Proof. revert off. induction n; intros off; cbn; [reflexivity|now rewrite IHn]. Qed.

Lemma map_opt_map {A B} (f : A -> option B) (g : A -> B) l :
  (forall a, In a l -> f a = Some (g a)) -> map_opt f l = Some (map g l).
Proof.
  induction l as [|a l IH]; intros H; cbn; [reflexivity|].
  rewrite (H a) by now left. rewrite IH by (intros; apply H; now right). reflexivity.
Qed.

Lemma exact_kind a0 : exact a0 -> range_convertible (av_type a0) = true ->
  (exists k x, a0 = mk k x) \/ a0 = VT \/ a0 = VF.
Proof.
  destruct a0; cbn; intros H1 H2; try contradiction; try discriminate.
  - left. now exists KI, i.
  - left. now exists KH, h.
  - left. now exists KC, c.
  - right. now left.
  - right. now right.
Qed.

Lemma expand_const a0 n x :
  scalar a0 -> 0 < n -> expand [VRep n 0; a0; VSpc x] = Some (repeat a0 (Z.to_nat n)).
Proof.
  intros Hs Hn. unfold expand. cbn [length]. cbn [expand_f].
  replace (n <=? 0) with false by lia. cbn [Z.eqb].
  rewrite (incsize_scalar a0 _ Hs). change (Z.to_nat 1) with 1%nat. cbn [skipn firstn expand_f].
  now rewrite concat_repeat_single, app_nil_r.
Qed.

Lemma expand_delta k d x n y :
  0 < n < 2 ^ 31 ->
  expand [VRep n 1; mk k d; mk k x; VSpc y] =
  Some (map (fun j => mk k (wr k (x + Z.of_nat j * d))) (seq 0 (Z.to_nat n))).
Proof.
  intros Hn. unfold expand. cbn [length]. cbn [expand_f].
  replace (n <=? 0) with false by lia. cbn [Z.eqb Pos.eqb].
  rewrite (map_opt_map _ (fun j => mk k (wr k (x + Z.of_nat j * d)))).
  - now rewrite app_nil_r.
  - intros j Hj. apply in_seq in Hj. apply range_arg_mk. lia.
Qed.

Lemma count_common_second fuel ty a0 a1 r size :
  scalar a0 -> av_type a1 <> ty -> count_common fuel ty (a0 :: a1 :: r) 0 size 0 <= 1.
Proof.
  intros Hs Hne. destruct fuel as [|[|f]]; cbn [count_common]; try lia.
  - destruct (size <=? 0); [lia|]. destruct (av_type a0 =? ty); lia.
  - destruct (size <=? 0); [lia|]. destruct (av_type a0 =? ty); [|lia].
    rewrite (incsize_scalar a0 (a1 :: r) Hs). change (skipz 1 (a0 :: a1 :: r)) with (a1 :: r).
    destruct (size <=? 0 + 1); [lia|]. replace (av_type a1 =? ty) with false by (symmetry; now apply Z.eqb_neq). lia.
Qed.

Theorem range_expand_shape_sa o args size c kk :
  Forall sa args -> Forall inrv args -> exact (hd VN args) ->
  Z.of_nat (length args) < 2 ^ 31 ->
  convert_to_range o args size = CYes c kk ->
  exists n, kk = Z.of_nat n /\ (5 <= n <= length args)%nat /\ expand c = Some (firstn n args) /\
    ((exists y, c = [VRep (Z.of_nat n) 0; hd VN args; VSpc y]) /\ firstn n args = repeat (hd VN args) n \/
     (exists k d x y, c = [VRep (Z.of_nat n) 1; mk k d; mk k x; VSpc y] /\ inr k d /\ hd VN args = mk k x /\ d <> 0 /\
        forall j, (j < n)%nat -> nth_error args j = Some (mk k (x + Z.of_nat j * d)) /\
                                 inr k (x + Z.of_nat j * d) /\ inr k (Z.of_nat j * d))) /\
    Z.of_nat n <= size.
Proof.
  intros Hsc Hin Hex Hlen Hc. unfold convert_to_range in Hc.
  destruct (size <? 5) eqn:Esize5; [discriminate|]. apply Z.ltb_ge in Esize5. cbn [orb] in Hc.
  destruct ((hd_type args =? 45) || negb (compress o)); [discriminate|].
  destruct (count_common (length args) (hd_type args) args 0 size 0 <? 5) eqn:Ecc; [discriminate|].
  destruct args as [|a0 rest] eqn:Ea; [discriminate|]. cbn [hd] in Hex.
  assert (Hs0 : scalar a0) by (apply exact_scalar; exact Hex).
  rewrite (incsize_scalar a0 rest Hs0) in Hc. rewrite <- Ea in *.
  assert (H0 : nth_error args 0 = Some a0) by now rewrite Ea.
  change (skipz 1 args) with (skipn 1 args) in Hc. rewrite (skipn_hd args 1) in Hc.
  destruct (nth_error args 1) as [a1|] eqn:E1;
    [|rewrite Ea in Hc; destruct a0; cbn in Hex; try contradiction; discriminate].
  assert (Hs1 : sa a1) by (eapply nth_scalar; [exact Hsc|exact E1]).
  assert (Hty : av_type a1 = av_type a0).
  { destruct (Z.eq_dec (av_type a1) (av_type a0)) as [E|E]; [exact E|exfalso].
    rewrite Ea in Ecc, E1. destruct rest as [|a1' rest']; [discriminate|]. cbn in E1. inversion E1; subst a1'.
    pose proof (count_common_second (length (a0 :: a1 :: rest')) (av_type a0) a0 a1 rest' size Hs0 E).
    cbn [hd_type] in Ecc. lia. }
  rewrite Ea in Hc at 1. rewrite (elem_eq_exact a0 a1 rest _ Hex Hs1) in Hc.
  destruct (if av_type a0 =? av_type a1 then av_eq_single a0 a1 else Some false) as [e|] eqn:Ee;
    [|discriminate].
  destruct e.
  - (* a constant run *)
    cbn [negb andb] in Hc.
    destruct (run_loop (length args) args size false VN 1 1) as [[skipped nc]|] eqn:Er; [|discriminate].
    assert (Ha1 : a1 = a0).
    { destruct (av_type a0 =? av_type a1); [|discriminate]. apply (eq_exact _ _ Hex); [eapply Forall_forall; [exact Hin|]; eapply nth_error_In; exact H0|eapply Forall_forall; [exact Hin|]; eapply nth_error_In; exact E1|assumption]. }
    subst a1.
    destruct (run_loop_const args Hsc Hin (length args) size a0 VN 1 skipped nc Hex H0 Er ltac:(lia))
      as (n & -> & -> & Hn & Hcr & Hle).
    { intros j Hj. destruct j as [|[|j]]; [assumption|assumption|lia]. }
    { lia. }
    destruct (Z.of_nat n <? 5) eqn:E5; [discriminate|]. inversion Hc; subst c kk. clear Hc.
    assert (Hnl0 : (n <= length args)%nat).
    { assert (Hsome : nth_error args (n - 1) <> None) by (rewrite (Hcr (n - 1)%nat) by lia; discriminate).
      apply nth_error_Some in Hsome. lia. }
    exists n. split; [reflexivity|]. split; [lia|].
    assert (Hrep : firstn n args = repeat a0 n).
    { rewrite (firstn_map_seq (fun _ => a0) args n), map_const_seq; [reflexivity|].
      intros j Hj. apply Hcr. lia. }
    rewrite Ea. change (Z.to_nat 1) with 1%nat. cbn [firstn app hd]. rewrite <- Ea.
    rewrite expand_const by (try assumption; lia). rewrite Nat2Z.id.
    split; [now rewrite Hrep|]. split; [|exact Hle]. left. split; [eexists; reflexivity|exact Hrep].
  - (* a run with a step *)
    cbn [negb andb] in Hc.
    destruct (range_convertible (hd_type args)) eqn:Erc; [|discriminate]. cbn [negb] in Hc.
    rewrite Ea in Erc. cbn [hd_type] in Erc.
    destruct rest as [|a1' rest']; [rewrite Ea in E1; discriminate|].
    assert (a1' = a1) by (rewrite Ea in E1; cbn in E1; congruence). subst a1'.
    destruct (av_sub a1 a0) as [delta|] eqn:Esub; [|discriminate].
    destruct (exact_kind a0 Hex Erc) as [(k & x & ->)|[->| ->]];
      [|destruct a1; cbn in Hs1, Ee, Hty; try contradiction; discriminate
       |destruct a1; cbn in Hs1, Ee, Hty; try contradiction; discriminate].
    destruct (sub_kind k x a1 delta Esub Erc) as (y & -> & ->).
    assert (Hx : inr k x).
    { apply inrv_mk. eapply Forall_forall; [exact Hin|]. eapply nth_error_In. exact H0. }
    assert (Hy : inr k y).
    { apply inrv_mk. eapply Forall_forall; [exact Hin|]. eapply nth_error_In. exact E1. }
    assert (Hyx : wr k (x + wr k (y - x)) = y)
      by (rewrite wr_add_r; replace (x + (y - x)) with y by lia; now apply wr_id).
    destruct (range_step_fits (mk k x) (mk k x) (mk k y) (mk k (wr k (y - x)))) as [[|]|] eqn:Ef0;
      [| discriminate | discriminate].
    destruct (run_loop (length args) args size true (mk k (wr k (y - x))) 1 1) as [[skipped nc]|] eqn:Er;
      [|discriminate].
    destruct (run_loop_delta args Hsc Hin k (wr k (y - x)) x H0 (length args) size 1 skipped nc Er ltac:(lia))
      as (n & -> & -> & Hn & Hch & Hle).
    { intros j Hj. assert (j = 0)%nat by lia. subst j. exists x. split; [assumption|].
      rewrite Hyx. split; [exact E1|exact Ef0]. }
    { lia. }
    destruct (Z.of_nat n <? 5) eqn:E5; [discriminate|]. inversion Hc; subst c kk. clear Hc.
    (* the first two values differ, so the step is not 0 *)
    assert (Hd0 : wr k (y - x) <> 0).
    { rewrite Hty in Ee. rewrite Z.eqb_refl, eq_mk in Ee. inversion Ee as [Exy]. apply Z.eqb_neq in Exy.
      intros Hz. rewrite Hz, Z.add_0_r, (wr_id k x Hx) in Hyx. congruence. }
    pose proof (chained_exact args k (wr k (y - x)) x H0 (n - 1) Hx (wr_inr k _) Hd0 Hch) as Hcl.
    assert (Hnl : (n <= length args)%nat).
    { assert (Hsome : nth_error args (n - 1) <> None)
        by (rewrite (proj1 (Hcl (n - 1)%nat ltac:(lia))); discriminate).
      apply nth_error_Some in Hsome. lia. }
    exists n. split; [reflexivity|]. split; [lia|].
    rewrite Ea. change (Z.to_nat 1) with 1%nat. cbn [firstn app]. rewrite <- Ea.
    rewrite expand_delta by lia. rewrite Nat2Z.id.
    split.
    { f_equal. symmetry. apply firstn_map_seq. intros j Hj.
      destruct (Hcl j ltac:(lia)) as (Hnj & Hrj & _). rewrite Hnj. f_equal. f_equal. symmetry. now apply wr_id. }
    split; [|exact Hle].
    right. eexists _, _, _, _. split; [reflexivity|]. split; [apply wr_inr|]. split; [now rewrite Ea|].
    split; [exact Hd0|]. intros j Hj. apply Hcl. lia.
Qed.

Theorem range_expand_shape o args size c kk :
  Forall scalar args -> Forall inrv args -> exact (hd VN args) ->
  Z.of_nat (length args) < 2 ^ 31 ->
  convert_to_range o args size = CYes c kk ->
  exists n, kk = Z.of_nat n /\ (5 <= n <= length args)%nat /\ expand c = Some (firstn n args) /\
    ((exists y, c = [VRep (Z.of_nat n) 0; hd VN args; VSpc y]) /\ firstn n args = repeat (hd VN args) n \/
     (exists k d x y, c = [VRep (Z.of_nat n) 1; mk k d; mk k x; VSpc y] /\ inr k d /\ hd VN args = mk k x /\ d <> 0 /\
        forall j, (j < n)%nat -> nth_error args j = Some (mk k (x + Z.of_nat j * d)) /\
                                 inr k (x + Z.of_nat j * d) /\ inr k (Z.of_nat j * d))).
Proof.
  intros Hsc Hin Hex Hlen Hc.
  destruct (range_expand_shape_sa o args size c kk) as (n & A & B & C & D & _); try assumption.
  - eapply Forall_impl; [|exact Hsc]. exact scalar_sa.
  - exists n. auto.
Qed.

Theorem range_expand o args size c kk :
  Forall scalar args -> Forall inrv args -> exact (hd VN args) ->
  Z.of_nat (length args) < 2 ^ 31 ->
  convert_to_range o args size = CYes c kk ->
  exists n, kk = Z.of_nat n /\ (5 <= n)%nat /\ expand c = Some (firstn n args).
Proof.
  intros H1 H2 H3 H4 H5. destruct (range_expand_shape o args size c kk H1 H2 H3 H4 H5) as (n & A & B & C & _).
  exists n. repeat split; try assumption; lia.
Qed.
End ZeroChoice.
