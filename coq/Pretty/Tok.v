(* C10/C11 - character classes, escapes, words, identifiers, the decimal and
   hexadecimal integer conversions of printf/sscanf, and the flat arg-val
   layout shared by the printer and the scanner models
   (src/cpp/pretty-format.c).  Bytes are Z, strings are list Z without the
   terminator; a C pointer into a text is the suffix that starts at the
   pointee, the empty suffix standing at the terminating NUL.
   No proofs in this file. *)
From Coq Require Import List ZArith Bool String Ascii.
Import ListNotations.
Local Open Scope Z_scope.

Notation byte := Z (only parsing).
Notation str := (list Z) (only parsing).

Definition zs (s : string) : str :=
  map (fun a => Z.of_N (N_of_ascii a)) (list_ascii_of_string s).

(* ---- <ctype.h>, "C" locale ---------------------------------------------- *)
Definition in_range (lo hi c : Z) : bool := (lo <=? c) && (c <=? hi).
Definition isspace (c : Z) : bool := in_range 9 13 c || (c =? 32).
Definition isdigit (c : Z) : bool := in_range 48 57 c.
Definition isodigit (c : Z) : bool := in_range 48 55 c.
Definition isupper (c : Z) : bool := in_range 65 90 c.
Definition islower (c : Z) : bool := in_range 97 122 c.
Definition isalpha (c : Z) : bool := isupper c || islower c.
Definition isalnum (c : Z) : bool := isalpha c || isdigit c.
Definition isxdigit (c : Z) : bool := isdigit c || in_range 97 102 c || in_range 65 70 c.
Definition isidstart (c : Z) : bool := (c =? 95) || isalpha c.
Definition isidchar (c : Z) : bool := (c =? 95) || isalnum c.
Definition toupper (c : Z) : Z := if islower c then c - 32 else c.

Definition digval (c : Z) : Z :=
  if isdigit c then c - 48 else if in_range 97 102 c then c - 87 else c - 55.
Definition hexdig (v : Z) : Z := if v <? 10 then 48 + v else 87 + v.

(* the character at p[k]; past the terminator reads as 0 as well (the
   theorems only follow paths on which the code has checked the length) *)
Definition at_ (p : str) (k : nat) : Z := nth k p 0.
Definition hd0 (p : str) : Z := at_ p 0.

Fixpoint dropwhile (f : Z -> bool) (s : str) : str :=
  match s with
  | c :: r => if f c then dropwhile f r else s
  | [] => []
  end.
Fixpoint takewhile (f : Z -> bool) (s : str) : str :=
  match s with
  | c :: r => if f c then c :: takewhile f r else []
  | [] => []
  end.
Definition skip_ws (s : str) : str := dropwhile isspace s.

Fixpoint strip_prefix (p s : str) : option str :=
  match p with
  | [] => Some s
  | a :: p' => match s with
               | c :: s' => if c =? a then strip_prefix p' s' else None
               | [] => None
               end
  end.
Definition starts_with (p s : str) : bool :=
  match strip_prefix p s with Some _ => true | None => false end.

(* ---- escapes ------------------------------------------------------------ *)
(* as_escaped_char: None is the code's -1 *)
Definition as_escaped_char (c : Z) (chr : bool) : option Z :=
  if c =? 0 then (if chr then Some 48 else None)
  else if c =? 7 then Some 97 else if c =? 8 then Some 98 else if c =? 9 then Some 116
  else if c =? 10 then Some 110 else if c =? 11 then Some 118 else if c =? 12 then Some 102
  else if c =? 13 then Some 114 else if c =? 92 then Some 92
  else if chr && (c =? 39) then Some 39
  else if negb chr && (c =? 34) then Some 34 else None.

(* get_escaped_char: 0 if there is none *)
Definition get_escaped_char (c : Z) (chr : bool) : Z :=
  if c =? 97 then 7 else if c =? 98 then 8 else if c =? 116 then 9
  else if c =? 110 then 10 else if c =? 118 then 11 else if c =? 102 then 12
  else if c =? 114 then 13 else if c =? 92 then 92
  else if chr && (c =? 39) then 39
  else if negb chr && (c =? 34) then 34 else 0.

(* ---- words and identifiers ---------------------------------------------- *)
Definition word_end_ok (r : str) : bool :=
  match r with
  | [] => true
  | c :: _ => (c =? 47) || (c =? 93) || (c =? 46) || (c =? 37) || isspace c
  end.

(* skip_word: Some rest = position after the word, None = NULL *)
Definition skip_word (w s : str) : option str :=
  match strip_prefix w s with
  | Some r => if word_end_ok r then Some r else None
  | None => None
  end.

Definition skip_identifier (s : str) : option str :=
  match s with
  | c :: r => if isidstart c then Some (dropwhile isidchar r) else None
  | [] => None
  end.

Definition kw_true := Eval compute in zs "true".
Definition kw_false := Eval compute in zs "false".
Definition kw_nil := Eval compute in zs "nil".
Definition kw_inf := Eval compute in zs "inf".
Definition kw_now := Eval compute in zs "now".
Definition kw_immediately := Eval compute in zs "immediately".
Definition kw_MIDI := Eval compute in zs "MIDI".
Definition kw_BLOB := Eval compute in zs "BLOB".
Definition ellipsis := Eval compute in zs "...".

(* ---- printf %d, %02x ---------------------------------------------------- *)
Fixpoint dec_fuel (fuel : nat) (n : Z) (acc : str) : str :=
  match fuel with
  | O => acc
  | S f => let acc' := (48 + n mod 10) :: acc in
           if n <? 10 then acc' else dec_fuel f (n / 10) acc'
  end.
(* decimal digits of n >= 0 (a number has no more decimal digits than bits) *)
Definition dec_nat (n : Z) : str := dec_fuel (S (Z.to_nat (Z.log2 n))) n [].
Definition print_d (v : Z) : str := if v <? 0 then 45 :: dec_nat (- v) else dec_nat v.
Definition hex2 (b : Z) : str := [hexdig (b / 16 mod 16); hexdig (b mod 16)].

(* ---- sscanf integer conversions ------------------------------------------ *)
Fixpoint read_digs (isd : Z -> bool) (base : Z) (s : str) (acc : Z) : Z * str :=
  match s with
  | c :: r => if isd c then read_digs isd base r (acc * base + digval c) else (acc, s)
  | [] => (acc, s)
  end.
(* at most w characters *)
Fixpoint read_digs_w (w : nat) (isd : Z -> bool) (base : Z) (s : str) (acc : Z) : Z * str :=
  match w with
  | O => (acc, s)
  | S w' => match s with
            | c :: r => if isd c then read_digs_w w' isd base r (acc * base + digval c) else (acc, s)
            | [] => (acc, s)
            end
  end.

Definition sc_sign (s : str) : bool * str :=
  match s with
  | c :: r => if c =? 45 then (true, r) else if c =? 43 then (false, r) else (false, s)
  | [] => (false, s)
  end.
Definition sgn (neg : bool) (v : Z) : Z := if neg then - v else v.

(* the value sscanf stores: strtol saturates at the range of long, the store
   into an int32_t truncates *)
Definition sat64 (v : Z) : Z :=
  if v <? - 2 ^ 63 then - 2 ^ 63 else if 2 ^ 63 - 1 <? v then 2 ^ 63 - 1 else v.
Definition wrap32 (v : Z) : Z := (v + 2 ^ 31) mod 2 ^ 32 - 2 ^ 31.
Definition st32 (v : Z) : Z := wrap32 (sat64 v).
Definition st64 (v : Z) : Z := sat64 v.

(* %d: white space, optional sign, decimal digits *)
Definition sc_d (s : str) : option (Z * str) :=
  let (neg, s2) := sc_sign (skip_ws s) in
  if isdigit (hd0 s2) then let (v, r) := read_digs isdigit 10 s2 0 in Some (sgn neg v, r)
  else None.

(* %Nd with a field width of w characters (the sign counts) *)
Definition sc_d_w (w : nat) (s : str) : option (Z * str) :=
  let s1 := skip_ws s in
  let (neg, s2) := sc_sign s1 in
  let w2 := if Nat.eqb (List.length s2) (List.length s1) then w else Nat.pred w in
  if isdigit (hd0 s2) && negb (Nat.eqb w2 0)
  then let (v, r) := read_digs_w w2 isdigit 10 s2 0 in Some (sgn neg v, r)
  else None.

(* %x: white space, optional sign, optional 0x, hex digits *)
Definition sc_x (s : str) : option (Z * str) :=
  let (neg, s2) := sc_sign (skip_ws s) in
  let s3 := match s2 with
            | z :: x :: r => if (z =? 48) && ((x =? 120) || (x =? 88)) && isxdigit (hd0 r) then r else s2
            | _ => s2
            end in
  if isxdigit (hd0 s3) then let (v, r) := read_digs isxdigit 16 s3 0 in Some (sgn neg v, r)
  else None.
Definition sc_x_w (w : nat) (s : str) : option (Z * str) :=
  let (neg, s2) := sc_sign (skip_ws s) in
  if isxdigit (hd0 s2) then let (v, r) := read_digs_w w isxdigit 16 s2 0 in Some (sgn neg v, r)
  else None.

(* %i: white space, optional sign, then 0x hex | 0 octal | decimal *)
Definition sc_i_body (neg : bool) (s2 : str) : option (Z * str) :=
  match s2 with
  | c :: r0 =>
      if (c =? 48) && ((hd0 r0 =? 120) || (hd0 r0 =? 88))
      then (let r := skipn 1 r0 in
            if isxdigit (hd0 r) then let (v, r') := read_digs isxdigit 16 r 0 in Some (sgn neg v, r')
            else None)
      else if isdigit c
           then (if c =? 48 then let (v, r') := read_digs isodigit 8 s2 0 in Some (sgn neg v, r')
                 else let (v, r') := read_digs isdigit 10 s2 0 in Some (sgn neg v, r'))
           else None
  | [] => None
  end.
Definition sc_i (s : str) : option (Z * str) :=
  let (neg, s2) := sc_sign (skip_ws s) in sc_i_body neg s2.

(* a literal character of a format string *)
Definition lit (c : Z) (s : str) : option str :=
  match s with
  | x :: r => if x =? c then Some r else None
  | [] => None
  end.

(* ---- the flat arg-val layout (rtosc_arg_val_t arrays) -------------------- *)
Inductive av :=
| VI (i : Z)                      (* 'i' int32 *)
| VH (h : Z)                      (* 'h' int64 *)
| VC (c : Z)                      (* 'c' stored in val.i *)
| VT | VF | VN | VInf             (* 'T' 'F' 'N' 'I' *)
| VS (s : str) | VSym (s : str)   (* 's' 'S' *)
| VB (d : str)                    (* 'b' *)
| VM (m0 m1 m2 m3 : Z)            (* 'm' *)
| VR (rgba : Z)                   (* 'r' as unsigned 32 bit *)
| VFl (bits : Z)                  (* 'f' bit pattern *)
| VD (bits : Z)                   (* 'd' bit pattern *)
| VTm (t : Z)                     (* 't' uint64 *)
| VArr (ety : Z) (len : Z)        (* 'a' header: element type, number of slots that follow *)
| VRep (num : Z) (has_delta : Z)  (* '-' header: [delta] start follow *)
| VSpc (len : Z).                 (* ' ' filler written by the range conversion *)

Definition av_type (v : av) : Z :=
  match v with
  | VI _ => 105 | VH _ => 104 | VC _ => 99 | VT => 84 | VF => 70 | VN => 78 | VInf => 73
  | VS _ => 115 | VSym _ => 83 | VB _ => 98 | VM _ _ _ _ => 109 | VR _ => 114
  | VFl _ => 102 | VD _ => 100 | VTm _ => 116 | VArr _ _ => 97 | VRep _ _ => 45 | VSpc _ => 32
  end.

(* ---- strings as values ------------------------------------------------------ *)
Definition str_eqb (a b : str) : bool :=
  Nat.eqb (List.length a) (List.length b) && starts_with a b.
(* sign of strcmp *)
Fixpoint str_cmp (a b : str) : Z :=
  match a, b with
  | [], [] => 0
  | [], _ :: _ => -1
  | _ :: _, [] => 1
  | x :: a', y :: b' => if x =? y then str_cmp a' b' else if x <? y then -1 else 1
  end.

(* ---- arg-val-math.c / arg-val-cmp.c on single values ------------------------- *)
(* None = a case this model does not cover (float arithmetic, blobs, NULL
   strings, the code's assert(false) paths) *)
Definition wrap64 (v : Z) : Z := (v + 2 ^ 63) mod 2 ^ 64 - 2 ^ 63.
Definition cmp3 (a b : Z) : Z := if a =? b then 0 else if b <? a then 1 else -1.

(* IEEE comparison on bit patterns (ebits exponent bits, mbits fraction bits) *)
Definition fl_isnan (mbits ebits b : Z) : bool :=
  (b / 2 ^ mbits mod 2 ^ ebits =? 2 ^ ebits - 1) && negb (b mod 2 ^ mbits =? 0).
Definition fl_key (mbits ebits b : Z) : Z :=
  let mag := b mod 2 ^ (mbits + ebits) in
  if b / 2 ^ (mbits + ebits) mod 2 =? 1 then - mag else mag.
Definition fl_eq (mbits ebits a b : Z) : bool :=
  negb (fl_isnan mbits ebits a) && negb (fl_isnan mbits ebits b) &&
  (fl_key mbits ebits a =? fl_key mbits ebits b).

Definition av_from_int (ty : Z) (n : Z) : option av :=
  if ty =? 104 then Some (VH n) else if ty =? 105 then Some (VI n)
  else if ty =? 99 then Some (VC n)
  else if (ty =? 84) || (ty =? 70) then Some (if n =? 0 then VF else VT) else None.

Definition av_null (ty : Z) : option av :=
  if ty =? 104 then Some (VH 0) else if ty =? 105 then Some (VI 0)
  else if ty =? 99 then Some (VC 0) else if ty =? 114 then Some (VR 0)
  else if ty =? 116 then Some (VTm 0) else if ty =? 102 then Some (VFl 0)
  else if ty =? 100 then Some (VD 0)
  else if (ty =? 84) || (ty =? 70) then Some VF else None.

Definition av_negate (v : av) : option av :=
  match v with
  | VH h => Some (VH (wrap64 (- h))) | VI i => Some (VI (wrap32 (- i)))
  | VC c => Some (VC (wrap32 (- c))) | VT => Some VF | VF => Some VT
  | _ => None
  end.

Definition av_add (l r : av) : option av :=
  match l, r with
  | VH a, VH b => Some (VH (wrap64 (a + b)))
  | VI a, VI b => Some (VI (wrap32 (a + b)))
  | VC a, VC b => Some (VC (wrap32 (a + b)))
  | VT, VT | VF, VF => Some VF
  | VT, VF | VF, VT => Some VT
  | _, _ => None
  end.

Definition av_sub (l r : av) : option av :=
  match l, r with
  | VH a, VH b => Some (VH (wrap64 (a - b)))
  | VI a, VI b => Some (VI (wrap32 (a - b)))
  | VC a, VC b => Some (VC (wrap32 (a - b)))
  | VT, VT | VF, VF => Some VF
  | VT, VF | VF, VT => Some VT
  | _, _ => None
  end.

Definition av_mult (l r : av) : option av :=
  match l, r with
  | VH a, VH b => Some (VH (wrap64 (a * b)))
  | VI a, VI b => Some (VI (wrap32 (a * b)))
  | VC a, VC b => Some (VC (wrap32 (a * b)))
  | VT, VT => Some VT
  | VF, VF | VT, VF | VF, VT => Some VF
  | _, _ => None
  end.

(* C division truncates; division by zero and MIN / -1 trap *)
Definition cdiv (lo a b : Z) : option Z :=
  if (b =? 0) || ((a =? lo) && (b =? -1)) then None else Some (Z.quot a b).
Definition av_div (l r : av) : option av :=
  match l, r with
  | VH a, VH b => match cdiv (- 2 ^ 63) a b with Some q => Some (VH q) | None => None end
  | VI a, VI b => match cdiv (- 2 ^ 31) a b with Some q => Some (VI q) | None => None end
  | VC a, VC b => match cdiv (- 2 ^ 31) a b with Some q => Some (VC q) | None => None end
  | VT, VT => Some VT
  | _, _ => None
  end.

Definition av_to_int (v : av) : option Z :=
  match v with
  | VH h => Some (wrap32 h) | VI i => Some i | VC c => Some c
  | VT => Some 1 | VF => Some 0 | _ => None
  end.

(* rtosc_arg_vals_eq_single for values that are neither arrays nor ranges *)
Definition av_eq_single (l r : av) : option bool :=
  match l, r with
  | VI a, VI b | VC a, VC b | VR a, VR b | VH a, VH b | VTm a, VTm b => Some (a =? b)
  | VT, VT | VF, VF | VN, VN | VInf, VInf => Some true
  | VFl a, VFl b => Some (fl_eq 23 8 a b)
  | VD a, VD b => Some (fl_eq 52 11 a b)
  | VM a0 a1 a2 a3, VM b0 b1 b2 b3 => Some ((a0 =? b0) && (a1 =? b1) && (a2 =? b2) && (a3 =? b3))
  | VS a, VS b | VSym a, VSym b | VB a, VB b => Some (str_eqb a b)
  | VArr _ _, _ | _, VArr _ _ | VRep _ _, _ | _, VRep _ _ | VSpc _, _ | _, VSpc _ => None
  | _, _ => Some false
  end.

(* rtosc_arg_vals_cmp_single: only zero / sign are used by the callers *)
Definition av_cmp_single (l r : av) : option Z :=
  match l, r with
  | VI a, VI b | VC a, VC b | VR a, VR b | VH a, VH b => Some (cmp3 a b)
  | VT, VT | VF, VF | VN, VN | VInf, VInf => Some 0
  | VFl a, VFl b => if fl_isnan 23 8 a || fl_isnan 23 8 b then None
                    else Some (cmp3 (fl_key 23 8 a) (fl_key 23 8 b))
  | VD a, VD b => if fl_isnan 52 11 a || fl_isnan 52 11 b then None
                  else Some (cmp3 (fl_key 52 11 a) (fl_key 52 11 b))
  | VTm a, VTm b => Some (if a =? 1 then (if b =? 1 then 0 else -1)
                          else if b =? 1 then 1 else cmp3 a b)
  | VS a, VS b | VSym a, VSym b => Some (str_cmp a b)
  | VM _ _ _ _, VM _ _ _ _ | VB _, VB _ => None
  | VArr _ _, _ | _, VArr _ _ | VRep _ _, _ | _, VRep _ _ | VSpc _, _ | _, VSpc _ => None
  | _, _ => Some (if av_type r <? av_type l then 1 else -1)
  end.

Definition types_match (t1 t2 : Z) : bool :=
  (t1 =? t2) || ((t1 =? 84) && (t2 =? 70)) || ((t1 =? 70) && (t2 =? 84)).
Definition arraytypes_match (t1 t2 : Z) : bool :=
  (t1 =? 45) || (t2 =? 45) || types_match t1 t2.

(* rtosc_arg_val_range_arg(range, ith): start + ith * delta *)
Definition range_arg (delta start : av) (ith : Z) : option av :=
  match av_from_int (av_type delta) ith with
  | Some n => match av_mult n delta with
              | Some m => av_add start m
              | None => None end
  | None => None
  end.

(* the first half of delta_from_arg_vals: the step and its sign *)
Definition dfa_dc (llhs lhs : av) (rhs : option av) (must_be_unity : bool) : option (av * Z) :=
  if must_be_unity then
    match rhs with
    | Some r =>
        match av_cmp_single lhs r, av_from_int (av_type r) 1 with
        | Some c, Some one =>
            if 0 <? c then match av_negate one with Some d => Some (d, c) | None => None end
            else Some (one, c)
        | _, _ => None
        end
    | None => None
    end
  else
    match av_sub lhs llhs with
    | Some d => match av_null (av_type d) with
                | Some z => match av_cmp_single d z with Some c => Some (d, c) | None => None end
                | None => None end
    | None => None
    end.

(* delta_from_arg_vals: Some (returned number, delta) *)
Definition delta_from_arg_vals (llhs lhs : av) (rhs : option av) (must_be_unity : bool)
  : option (Z * av) :=
  match dfa_dc llhs lhs rhs must_be_unity with
  | None => None
  | Some (delta, c) =>
      if c =? 0 then Some (-1, delta) else
      match rhs with
      | None => Some (0, delta)
      | Some r =>
          match av_sub r lhs with
          | Some width =>
              match av_div width delta with
              | Some dv =>
                  match av_mult dv delta with
                  | Some width2 =>
                      match av_eq_single width width2, av_to_int dv with
                      | Some true, Some n => Some (n + 1, delta)
                      | Some false, _ => Some (-1, delta)
                      | _, _ => None
                      end
                  | None => None end
              | None => None end
          | None => None end
      end
  end.
