(* C10 - lists that mix arrays with other values, printer half: the loop of
   rtosc_print_arg_vals over such a list emits a mixed sequence (MixedProofs.mseq)
   whose originals are the input; with mseq_reads this is the round trip. *)
From Coq Require Import List ZArith Bool Lia.
From RtoscV Require Import Pretty.Tok Pretty.FloatFmt Pretty.PrintModel Pretty.ScanModel
  Pretty.PrettyProofs Pretty.RangeProofs Pretty.RunProofs Pretty.FloatProofs Pretty.ListProofs Pretty.ArrayProofs
  Pretty.MixedProofs.
Import ListNotations.
Local Open Scope Z_scope.

(* ------------------------------------------------------------------------- *)
(* Spec side: the value list as a list of values and arrays of values, and the
   values a scanned slot list stands for                                       *)
Inductive tv := TS (v : av) | TA (ty : Z) (elems : list av).

Definition tv_flat (t : tv) : list av :=
  match t with TS v => [v] | TA ty es => VArr ty (Z.of_nat (length es)) :: es end.
Definition flat (l : list tv) : list av := concat (map tv_flat l).

(* the scanner stores the type of the last element as the array's type (the
   blank for "[]"); the text does not hold more *)
Definition canon1 (t : tv) : tv := match t with TS v => TS v | TA _ es => TA (last_type es) es end.
Definition canon (l : list tv) : list tv := map canon1 l.

(* expansion of a slot list with arrays: ranges and repetitions expanded (also
   inside arrays and of arrays), the filler slots dropped, the element count of
   an array header adjusted to the expanded elements *)
Fixpoint expand_deep_f (fuel : nat) (l : list av) : option (list av) :=
  match fuel with
  | O => None
  | S f =>
      match l with
      | [] => Some []
      | VRep num hd :: r =>
          if num <=? 0 then None else
          if hd =? 0 then
            let k := Z.to_nat (incsize r) in
            match expand_deep_f f (firstn k r), expand_deep_f f (skipn k r) with
            | Some e, Some t => Some (concat (repeat e (Z.to_nat num)) ++ t)
            | _, _ => None end
          else
            match r with
            | delta :: start :: r' =>
                match map_opt (fun j => range_arg delta start (Z.of_nat j)) (seq 0 (Z.to_nat num)),
                      expand_deep_f f r' with
                | Some vs, Some t => Some (vs ++ t)
                | _, _ => None end
            | _ => None end
      | VArr ty n :: r =>
          match expand_deep_f f (firstn (Z.to_nat n) r), expand_deep_f f (skipn (Z.to_nat n) r) with
          | Some es, Some t => Some (VArr ty (Z.of_nat (length es)) :: es ++ t)
          | _, _ => None end
      | VSpc _ :: r => expand_deep_f f r
      | v :: r => match expand_deep_f f r with Some t => Some (v :: t) | None => None end
      end
  end.
Definition expand_deep (l : list av) : option (list av) := expand_deep_f (S (length l)) l.

(* ------------------------------------------------------------------------- *)
(* the fuel of expand_deep is a termination device                             *)
Lemma expand_deep_fuel : forall f f' l, (length l < f)%nat -> (length l < f')%nat ->
  expand_deep_f f l = expand_deep_f f' l.
Proof.
  induction f as [|f IH]; intros f' l Hf Hf'; [lia|]. destruct f' as [|f']; [lia|].
  destruct l as [|v r]; [reflexivity|]. cbn [length] in Hf, Hf'.
  assert (Hfn : forall k, (length (firstn k r) <= length r)%nat) by (intros; rewrite firstn_length; lia).
  assert (Hsn : forall k, (length (skipn k r) <= length r)%nat) by (intros; rewrite skipn_length; lia).
  destruct v as [i|h|c| | | | |s|s|d|m0 m1 m2 m3|rgba|bits|bits|t|ty n|num hd|sp]; cbn [expand_deep_f];
    try (rewrite (IH f' r) by lia; reflexivity).
  - (* VArr *)
    rewrite (IH f' (firstn (Z.to_nat n) r)) by (specialize (Hfn (Z.to_nat n)); lia).
    rewrite (IH f' (skipn (Z.to_nat n) r)) by (specialize (Hsn (Z.to_nat n)); lia). reflexivity.
  - (* VRep *)
    destruct (num <=? 0); [reflexivity|]. destruct (hd =? 0).
    + rewrite (IH f' (firstn (Z.to_nat (incsize r)) r)) by (specialize (Hfn (Z.to_nat (incsize r))); lia).
      rewrite (IH f' (skipn (Z.to_nat (incsize r)) r)) by (specialize (Hsn (Z.to_nat (incsize r))); lia). reflexivity.
    + destruct r as [|dl [|st r']]; try reflexivity. cbn [length] in *.
      rewrite (IH f' r') by lia. reflexivity.
Qed.

Lemma expand_deep_eq f l : (length l < f)%nat -> expand_deep_f f l = expand_deep l.
Proof. intros H. apply expand_deep_fuel; [exact H|lia]. Qed.

Lemma expand_deep_nil : expand_deep [] = Some [].
Proof. reflexivity. Qed.

Lemma expand_deep_val v l : scalar v ->
  expand_deep (v :: l) = match expand_deep l with Some t => Some (v :: t) | None => None end.
Proof.
  intros Hs. unfold expand_deep at 1. cbn [length].
  destruct v; cbn [scalar] in Hs; try contradiction; cbn [expand_deep_f]; reflexivity.
Qed.

Lemma expand_deep_single v : scalar v -> expand_deep [v] = Some [v].
Proof. intros Hs. now rewrite expand_deep_val, expand_deep_nil. Qed.

Lemma expand_deep_rep0 n v l : scalar v -> 0 < n ->
  expand_deep (VRep n 0 :: v :: l) =
  match expand_deep l with Some t => Some (repeat v (Z.to_nat n) ++ t) | None => None end.
Proof.
  intros Hs Hn. unfold expand_deep at 1. cbn [length]. remember (S (S (length l))) as f eqn:Ef. cbn [expand_deep_f].
  replace (n <=? 0) with false by lia. cbn [Z.eqb].
  rewrite (incsize_scalar v l Hs). change (Z.to_nat 1) with 1%nat. cbn [skipn firstn].
  rewrite (expand_deep_eq f [v]) by (cbn; lia). rewrite (expand_deep_single v Hs).
  rewrite (expand_deep_eq f l) by lia. now rewrite concat_repeat_single.
Qed.

Lemma expand_deep_rep1 m dl st l : 0 < m ->
  expand_deep (VRep m 1 :: dl :: st :: l) =
  match map_opt (fun j => range_arg dl st (Z.of_nat j)) (seq 0 (Z.to_nat m)), expand_deep l with
  | Some vs, Some t => Some (vs ++ t) | _, _ => None end.
Proof.
  intros Hm. unfold expand_deep at 1. cbn [length]. remember (S (S (S (length l)))) as f eqn:Ef. cbn [expand_deep_f].
  replace (m <=? 0) with false by lia.
  change (1 =? 0) with false. cbv iota. rewrite (expand_deep_eq f l) by lia. reflexivity.
Qed.

(* an array header followed by exactly its slots, then l *)
Lemma expand_deep_arr ty sl l es t :
  expand_deep sl = Some es -> expand_deep l = Some t ->
  expand_deep (VArr ty (Z.of_nat (length sl)) :: sl ++ l) = Some (VArr ty (Z.of_nat (length es)) :: es ++ t).
Proof.
  intros Hs Hl. unfold expand_deep at 1. cbn [length]. remember (S (length (sl ++ l))) as f eqn:Ef. cbn [expand_deep_f].
  rewrite Nat2Z.id.
  rewrite firstn_app, firstn_all, Nat.sub_diag. cbn [firstn]. rewrite app_nil_r.
  rewrite skipn_app, skipn_all, Nat.sub_diag. cbn [skipn app].
  rewrite (expand_deep_eq f sl) by (subst f; rewrite app_length; lia). rewrite Hs.
  rewrite (expand_deep_eq f l) by (subst f; rewrite app_length; lia). rewrite Hl. reflexivity.
Qed.

(* a repetition of such an array *)
Lemma expand_deep_reparr n ty sl l es t : 0 < n ->
  expand_deep sl = Some es -> expand_deep l = Some t ->
  expand_deep (VRep n 0 :: VArr ty (Z.of_nat (length sl)) :: sl ++ l)
  = Some (concat (repeat (VArr ty (Z.of_nat (length es)) :: es) (Z.to_nat n)) ++ t).
Proof.
  intros Hn Hs Hl. unfold expand_deep at 1. cbn [length]. remember (S (S (length (sl ++ l)))) as f eqn:Ef. cbn [expand_deep_f].
  replace (n <=? 0) with false by lia. cbn [Z.eqb incsize].
  replace (Z.to_nat (Z.of_nat (length sl) + 1)) with (S (length sl)) by lia.
  cbn [firstn skipn]. rewrite firstn_app, firstn_all, Nat.sub_diag. cbn [firstn]. rewrite app_nil_r.
  rewrite skipn_app, skipn_all, Nat.sub_diag. cbn [skipn app].
  rewrite (expand_deep_eq f (VArr ty (Z.of_nat (length sl)) :: sl)) by (subst f; cbn [length]; rewrite app_length; lia).
  pose proof (expand_deep_arr ty sl [] es [] Hs expand_deep_nil) as Ha. rewrite !app_nil_r in Ha. rewrite Ha.
  rewrite (expand_deep_eq f l) by (subst f; rewrite app_length; lia). rewrite Hl. reflexivity.
Qed.

(* ------------------------------------------------------------------------- *)
(* the originals of a mixed sequence, and the expansion of its slots          *)
Definition m_orig (m : mi) : list tv :=
  match m with
  | MI it => map TS (item_orig it)
  | MA its _ => [TA (lty 32 its) (iorig its)]
  | MR n its _ => repeat (TA (lty 32 its) (iorig its)) (Z.to_nat n)
  end.
Definition morig (ms : list mi) : list tv := concat (map m_orig ms).

Lemma flat_app a b : flat (a ++ b) = flat a ++ flat b.
Proof. unfold flat. now rewrite map_app, concat_app. Qed.
Lemma flat_scalars vs : flat (map TS vs) = vs.
Proof. induction vs as [|v vs IH]; [reflexivity|]. unfold flat in *. cbn [map concat tv_flat app]. now rewrite IH. Qed.
Lemma flat_repeat t n : flat (repeat t n) = concat (repeat (tv_flat t) n).
Proof. induction n as [|n IH]; [reflexivity|]. unfold flat in *. cbn [repeat map concat]. now rewrite IH. Qed.

Section ExpandMixed.
Variables dec2f dec2d : list Z -> Z.
Notation item_ok := (item_ok dec2f dec2d).

Lemma expand_deep_item p it l r :
  item_ok p it -> expand_deep l = Some r -> expand_deep (item_slots it ++ l) = Some (item_orig it ++ r).
Proof.
  intros Hok Hl.
  destruct it as [v t|n v t|k b d m last sp]; cbn [ListProofs.item_ok item_slots item_orig app] in *.
  - destruct Hok as [(_ & _ & Hs) _]. now rewrite (expand_deep_val v l Hs), Hl.
  - destruct Hok as (Hn & (_ & _ & Hs) & _). now rewrite (expand_deep_rep0 n v l Hs) by lia; rewrite Hl.
  - destruct Hok as (Hrun & _ & _). pose proof Hrun as (Hsb & Hsl & Hlast & Hm & Hd0 & Hdr).
    rewrite expand_deep_rep1 by lia.
    rewrite (map_opt_map _ (fun j => mk k (b + Z.of_nat j * d))).
    + now rewrite Hl.
    + intros j Hj. apply in_seq in Hj. rewrite range_arg_mk by lia. f_equal. f_equal.
      apply wr_id. apply (run_in_range k b d m last); [assumption|lia].
Qed.

Lemma expand_deep_items its : Forall (fun it => exists p, item_ok p it) its ->
  forall l r, expand_deep l = Some r -> expand_deep (islots its ++ l) = Some (iorig its ++ r).
Proof.
  induction 1 as [|it its [p Hok] _ IH]; intros l r Hl; [exact Hl|].
  unfold islots, iorig. cbn [map concat]. rewrite <- !app_assoc.
  apply (expand_deep_item p it); [exact Hok|]. now apply IH.
Qed.

Lemma arr_items_ok its T : arr_ok dec2f dec2d its T -> Forall (fun it => exists p, item_ok p it) its.
Proof. intros [[-> _]|(HL & _)]; [constructor|exact (iseq_items_ok dec2f dec2d _ _ _ HL)]. Qed.

Lemma expand_deep_m c m l r : m_ok dec2f dec2d c m -> expand_deep l = Some r ->
  expand_deep (m_slots m ++ l) = Some (flat (m_orig m) ++ r).
Proof.
  intros Hok Hl. destruct m as [it|its T|n its T]; cbn [m_slots m_orig].
  - destruct (m_item_ok dec2f dec2d _ _ Hok) as [p Hp]. rewrite flat_scalars. now apply (expand_deep_item p it).
  - cbn [m_ok] in Hok. pose proof (expand_deep_items its (arr_items_ok _ _ Hok) [] [] expand_deep_nil) as He.
    rewrite !app_nil_r in He. unfold arr_slots. cbn [app].
    rewrite (expand_deep_arr _ (islots its) l (iorig its) r He Hl).
    unfold flat. cbn [map concat tv_flat app]. now rewrite app_nil_r.
  - cbn [m_ok] in Hok. destruct Hok as [Hn Hok].
    pose proof (expand_deep_items its (arr_items_ok _ _ Hok) [] [] expand_deep_nil) as He.
    rewrite !app_nil_r in He. unfold arr_slots. cbn [app].
    rewrite (expand_deep_reparr n _ (islots its) l (iorig its) r ltac:(lia) He Hl).
    now rewrite flat_repeat.
Qed.

Lemma expand_deep_mseq ms T c : mseq dec2f dec2d c ms T -> expand_deep (mslots ms) = Some (flat (morig ms)).
Proof.
  induction 1 as [c|c m Hok|c m sep m' ms T Hok Hsep HL IH]; [reflexivity| |].
  - unfold mslots, morig. cbn [map concat]. rewrite !app_nil_r.
    pose proof (expand_deep_m c m [] [] Hok expand_deep_nil) as H. now rewrite !app_nil_r in H.
  - unfold mslots, morig in *. cbn [map concat] in *. rewrite flat_app. now apply (expand_deep_m c m).
Qed.
End ExpandMixed.

(* ------------------------------------------------------------------------- *)
(* the values of the theorems                                                 *)
Definition goodt (o : popts) (zf zd : Z) (t : tv) : Prop :=
  match t with
  | TS v => goodc o zf zd v
  | TA _ es => Forall (goodc o zf zd) es /\ homog es
  end.

Lemma goodt_flat o zf zd tvs : Forall (goodt o zf zd) tvs -> Forall (goodca o zf zd) (flat tvs).
Proof.
  induction 1 as [|t tvs Ht _ IH]; [constructor|].
  unfold flat in *. cbn [map concat]. apply Forall_app. split; [|exact IH].
  destruct t as [v|ty es]; cbn [tv_flat goodt] in *.
  - constructor; [now left|constructor].
  - constructor; [right; eauto|]. eapply Forall_impl; [|exact (proj1 Ht)]. intros a Ha. now left.
Qed.

Lemma flat_len tvs : (length tvs <= length (flat tvs))%nat.
Proof.
  induction tvs as [|t tvs IH]; [cbn; lia|]. unfold flat in *. cbn [map concat length]. rewrite app_length.
  destruct t; cbn [tv_flat length]; lia.
Qed.

(* ---- rtosc_convert_to_range on an array: five or more equal arrays become a
   repetition ------------------------------------------------------------------------------ *)
Definition arrs (es : list av) (tys : list Z) : list tv := map (fun t => TA t es) tys.

Section ConvArr.
Variable o : popts.
Variables zf zd : Z.
Hypothesis Hz : zchoice zf zd.
Variable es : list av.
Hypothesis Hes : Forall (goodc o zf zd) es.
Notation N := (S (length es)).

Lemma all_eq_same : forall (a e : list av), Forall (goodc o zf zd) a -> Forall (goodc o zf zd) e ->
  all_eq a e = Some true -> e = a.
Proof.
  induction a as [|x a IH]; intros e Ha He H; destruct e as [|y e]; cbn [all_eq] in H; try discriminate; [reflexivity|].
  destruct (av_eq_single x y) as [[|]|] eqn:E; try discriminate.
  destruct (goodc_facts o zf zd x (Forall_inv Ha)) as (_ & Hix & Hex).
  destruct (goodc_facts o zf zd y (Forall_inv He)) as (_ & Hiy & _).
  rewrite (eq_exact zf zd (proj1 Hz) (proj2 Hz) x y Hex Hix Hiy E).
  f_equal. exact (IH e (Forall_inv_tail Ha) (Forall_inv_tail He) H).
Qed.

Lemma skip_blocks tys X : skipn (length tys * N) (flat (arrs es tys ++ X)) = flat X.
Proof.
  induction tys as [|t tys IH]; [reflexivity|].
  unfold flat in *. cbn [arrs map app concat tv_flat length]. cbn [Nat.mul Nat.add skipn].
  rewrite skipn_app, skipn_all2 by lia.
  replace (length es + length tys * N - length es)%nat with (length tys * N)%nat by lia. cbn [app]. exact IH.
Qed.

Lemma elem_eq_arr ty0 X ty e Y :
  elem_eq (flat (TA ty0 es :: X)) (flat (TA ty e :: Y)) =
  if negb (types_match ty0 ty) then Some false
  else if negb (Z.of_nat (length es) =? Z.of_nat (length e)) then Some false
  else all_eq es e.
Proof.
  unfold flat. cbn [map concat tv_flat app elem_eq]. rewrite !Nat2Z.id.
  rewrite !firstn_app, !firstn_all, !Nat.sub_diag. cbn [firstn]. now rewrite !app_nil_r.
Qed.

Lemma elem_eq_arr_val ty0 X v Y : scalar v ->
  elem_eq (flat (TA ty0 es :: X)) (flat (TS v :: Y)) = Some false.
Proof.
  intros Hs. unfold flat. cbn [map concat tv_flat app elem_eq].
  destruct v; cbn [scalar] in Hs; try contradiction; reflexivity.
Qed.

(* the second loop of the conversion over arrays: pre are the arrays found equal so far *)
Lemma run_loop_arrs dl size : forall f t0 tl rest s' nc',
  Forall (goodt o zf zd) rest ->
  size <= Z.of_nat (length (flat (arrs es (t0 :: tl) ++ rest))) -> tl <> [] ->
  run_loop f (flat (arrs es (t0 :: tl) ++ rest)) size false dl
           (Z.of_nat ((length tl) * N)) (Z.of_nat (length tl)) = Some (s', nc') ->
  exists tys2 rest2, rest = arrs es tys2 ++ rest2 /\
    s' = Z.of_nat ((S (length tl) + length tys2) * N) /\ nc' = Z.of_nat (S (length tl) + length tys2).
Proof.
  induction f as [|f IH]; intros t0 tl rest s' nc' Hgr Hsz Hne Hrun; [discriminate|].
  cbn [run_loop] in Hrun.
  destruct (exists_last Hne) as (tl0 & tlast & Etl).
  set (args := flat (arrs es (t0 :: tl) ++ rest)) in *.
  assert (Hcur : skipz (Z.of_nat (length tl * N)) args = flat (TA tlast es :: rest)).
  { unfold skipz. rewrite Nat2Z.id. unfold args. rewrite Etl.
    replace (arrs es (t0 :: tl0 ++ [tlast]) ++ rest) with (arrs es (t0 :: tl0) ++ (TA tlast es :: rest))
      by (unfold arrs; rewrite app_comm_cons, map_app; cbn [map]; rewrite <- app_assoc; reflexivity).
    replace (length (tl0 ++ [tlast])) with (length (t0 :: tl0)) by (rewrite app_length; cbn [length]; lia).
    apply skip_blocks. }
  rewrite Hcur in Hrun.
  assert (Hinc : incsize (flat (TA tlast es :: rest)) = Z.of_nat N)
    by (unfold flat; cbn [map concat tv_flat app incsize]; lia).
  rewrite Hinc in Hrun.
  replace (Z.of_nat (length tl * N) + Z.of_nat N) with (Z.of_nat (S (length tl) * N)) in Hrun by lia.
  destruct (size <=? Z.of_nat (S (length tl) * N)) eqn:Esz.
  - inversion Hrun; subst. exists [], rest. split; [reflexivity|]. cbn [length]. split; f_equal; lia.
  - assert (Hnext : skipz (Z.of_nat (S (length tl) * N)) args = flat rest).
    { unfold skipz. rewrite Nat2Z.id. unfold args.
      replace (S (length tl)) with (length (t0 :: tl)) by reflexivity. apply skip_blocks. }
    rewrite Hnext in Hrun.
    assert (Hargs : args = flat (TA t0 es :: arrs es tl ++ rest)) by reflexivity.
    rewrite Hargs in Hrun at 1.
    destruct rest as [|[v|ty e] rest'].
    + (* nothing follows although size says so *)
      exfalso. apply Z.leb_gt in Esz. unfold args in Hsz. rewrite app_nil_r in Hsz.
      assert (Hbl : forall l, length (flat (arrs es l)) = (length l * N)%nat).
      { clear. intros l. induction l as [|t l IHl]; [reflexivity|].
        change (arrs es (t :: l)) with (TA t es :: arrs es l).
        unfold flat in *. cbn [map concat tv_flat length]. rewrite app_length, IHl. cbn [length]. lia. }
      rewrite (Hbl (t0 :: tl)) in Hsz. cbn [length] in *. lia.
    + pose proof (Forall_inv Hgr) as Hv. cbn [goodt] in Hv.
      rewrite (elem_eq_arr_val t0 _ v rest' (proj1 (goodc_facts o zf zd v Hv))) in Hrun.
      inversion Hrun; subst. exists [], (TS v :: rest'). split; [reflexivity|]. cbn [length]. split; f_equal; lia.
    + rewrite elem_eq_arr in Hrun.
      pose proof (Forall_inv Hgr) as [Hge _].
      destruct (negb (types_match t0 ty));
        [inversion Hrun; subst; exists [], (TA ty e :: rest'); split; [reflexivity|]; cbn [length]; split; f_equal; lia|].
      destruct (negb (Z.of_nat (length es) =? Z.of_nat (length e)));
        [inversion Hrun; subst; exists [], (TA ty e :: rest'); split; [reflexivity|]; cbn [length]; split; f_equal; lia|].
      destruct (all_eq es e) as [[|]|] eqn:Eall; [| |discriminate].
      * apply (all_eq_same es e Hes Hge) in Eall. subst e.
        replace (Z.of_nat (length tl) + 1) with (Z.of_nat (length (tl ++ [ty]))) in Hrun
          by (rewrite app_length; cbn [length]; lia).
        replace (S (length tl)) with (length (tl ++ [ty])) in Hrun by (rewrite app_length; cbn [length]; lia).
        assert (Ea : args = flat (arrs es (t0 :: tl ++ [ty]) ++ rest')).
        { unfold args, arrs. rewrite app_comm_cons, map_app. cbn [map]. now rewrite <- app_assoc. }
        rewrite Ea in Hrun. apply IH in Hrun.
        -- destruct Hrun as (tys2 & rest2 & -> & -> & ->). exists (ty :: tys2), rest2.
           split; [reflexivity|]. rewrite app_length. cbn [length]. split; f_equal; lia.
        -- exact (Forall_inv_tail Hgr).
        -- rewrite <- Ea. exact Hsz.
        -- intros E. apply app_eq_nil in E as [_ E]. discriminate.
      * inversion Hrun; subst. exists [], (TA ty e :: rest'). split; [reflexivity|]. cbn [length]. split; f_equal; lia.
Qed.
Fixpoint lead (tvs : list tv) : nat := match tvs with TA _ _ :: r => S (lead r) | _ => 0%nat end.

Lemma skip_block ty e X : skipz (incsize (flat (TA ty e :: X))) (flat (TA ty e :: X)) = flat X.
Proof.
  unfold flat, skipz. cbn [map concat tv_flat app incsize].
  replace (Z.to_nat (Z.of_nat (length e) + 1)) with (S (length e)) by lia. cbn [skipn].
  rewrite skipn_app, skipn_all, Nat.sub_diag. reflexivity.
Qed.

Definition tsok (t : tv) : Prop := match t with TS v => scalar v | TA _ _ => True end.
Lemma goodt_tsok t : goodt o zf zd t -> tsok t.
Proof. destruct t as [v|ty e]; cbn; [intros H; apply (goodc_facts o zf zd v H)|auto]. Qed.

Lemma cc_le : forall f tvs i size nc, Forall tsok tvs ->
  count_common f 97 (flat tvs) i size nc <= nc + Z.of_nat (lead tvs).
Proof.
  induction f as [|f IH]; intros tvs i size nc Hg; cbn [count_common]; [lia|].
  destruct (size <=? i); [lia|].
  destruct tvs as [|[v|ty e] r].
  - cbn. lia.
  - pose proof (Forall_inv Hg) as Hs. cbn [tsok] in Hs.
    unfold flat. cbn [map concat tv_flat app lead].
    replace (av_type v =? 97) with false by (destruct v; cbn in Hs; try contradiction; reflexivity). lia.
  - change (av_type (hd VN (flat (TA ty e :: r))) =? 97) with true.
    assert (E : flat (TA ty e :: r) = VArr ty (Z.of_nat (length e)) :: e ++ flat r) by reflexivity.
    rewrite E at 1. cbn [av_type Z.eqb Pos.eqb]. cbv iota. rewrite skip_block.
    specialize (IH r (i + incsize (flat (TA ty e :: r))) size (nc + 1) (Forall_inv_tail Hg)). cbn [lead]. lia.
Qed.

Lemma conv_array ty tvs size cv :
  Forall (goodt o zf zd) tvs -> size <= Z.of_nat (length (flat (TA ty es :: tvs))) ->
  convert_to_range o (flat (TA ty es :: tvs)) size = cv -> cv <> CUnmod ->
  cv = CNo \/
  exists tys rest y, tvs = arrs es tys ++ rest /\ (4 <= length tys)%nat /\
    cv = CYes (VRep (Z.of_nat (S (length tys))) 0 :: VArr ty (Z.of_nat (length es)) :: es ++ [VSpc y])
              (Z.of_nat (S (length tys) * N)).
Proof.
  intros Hg Hsz Hcv Hnu. unfold convert_to_range in Hcv.
  destruct ((size <? 5) || (hd_type (flat (TA ty es :: tvs)) =? 45) || negb (compress o)); [now left|].
  change (hd_type (flat (TA ty es :: tvs))) with 97 in Hcv.
  destruct (count_common (length (flat (TA ty es :: tvs))) 97 (flat (TA ty es :: tvs)) 0 size 0 <? 5) eqn:Ecc;
    [now left|].
  apply Z.ltb_ge in Ecc.
  assert (Hg' : Forall tsok (TA ty es :: tvs))
    by (constructor; [exact I|eapply Forall_impl; [|exact Hg]; exact goodt_tsok]).
  pose proof (cc_le (length (flat (TA ty es :: tvs))) (TA ty es :: tvs) 0 size 0 Hg') as Hle.
  cbn [lead] in Hle.
  destruct tvs as [|[v|t2 e2] tvs2]; try (cbn [lead] in Hle; lia).
  rewrite skip_block in Hcv. rewrite elem_eq_arr in Hcv.
  assert (Hinc : incsize (flat (TA ty es :: TA t2 e2 :: tvs2)) = Z.of_nat N)
    by (unfold flat; cbn [map concat tv_flat app incsize]; lia).
  rewrite Hinc in Hcv.
  destruct (if negb (types_match ty t2) then Some false
            else if negb (Z.of_nat (length es) =? Z.of_nat (length e2)) then Some false else all_eq es e2)
    as [[|]|] eqn:Ee; [| |congruence].
  2: { cbn [negb andb] in Hcv. change (range_convertible 97) with false in Hcv. cbn [negb] in Hcv. now left. }
  assert (e2 = es).
  { destruct (negb (types_match ty t2)); [discriminate|].
    destruct (negb (Z.of_nat (length es) =? Z.of_nat (length e2))); [discriminate|].
    exact (all_eq_same es e2 Hes (proj1 (Forall_inv Hg)) Ee). }
  subst e2. cbn [negb andb] in Hcv. cbv iota in Hcv.
  destruct (run_loop (length (flat (TA ty es :: TA t2 es :: tvs2))) (flat (TA ty es :: TA t2 es :: tvs2)) size false VN
              (Z.of_nat N) 1) as [[skipped nc]|] eqn:Er; [|congruence].
  change (flat (TA ty es :: TA t2 es :: tvs2)) with (flat (arrs es (ty :: [t2]) ++ tvs2)) in Er.
  replace (Z.of_nat N) with (Z.of_nat (length [t2] * N)) in Er by (cbn [length]; lia).
  change 1 with (Z.of_nat (length [t2])) in Er.
  apply run_loop_arrs in Er; [|exact (Forall_inv_tail Hg)|exact Hsz|discriminate].
  destruct Er as (tys2 & rest2 & -> & -> & ->).
  destruct (Z.of_nat (S (length [t2]) + length tys2) <? 5) eqn:E5; [now left|]. apply Z.ltb_ge in E5.
  right. exists (t2 :: tys2), rest2, (Z.of_nat ((S (length [t2]) + length tys2) * N) - (1 + 0 + Z.of_nat N) - 1).
  split; [reflexivity|]. split; [cbn [length] in *; lia|]. subst cv.
  replace (Z.to_nat (Z.of_nat N)) with N by lia.
  assert (Ef : firstn N (flat (TA ty es :: TA t2 es :: arrs es tys2 ++ rest2)) = VArr ty (Z.of_nat (length es)) :: es).
  { unfold flat. cbn [map concat tv_flat app firstn]. f_equal.
    rewrite firstn_app, firstn_all, Nat.sub_diag. cbn [firstn]. apply app_nil_r. }
  rewrite Ef. cbn [app length]. reflexivity.
Qed.
End ConvArr.

(* ------------------------------------------------------------------------- *)
(* the printer's loop over a list of values and arrays                        *)
Lemma canon_app a b : canon (a ++ b) = canon a ++ canon b.
Proof. unfold canon. apply map_app. Qed.
Lemma canon_scalars vs : canon (map TS vs) = map TS vs.
Proof. unfold canon. rewrite map_map. reflexivity. Qed.
Lemma canon_arrs es tys : canon (arrs es tys) = repeat (TA (last_type es) es) (length tys).
Proof. induction tys as [|t tys IH]; [reflexivity|]. unfold canon, arrs in *. cbn [map length repeat canon1]. now rewrite IH. Qed.

Lemma flat_split_scalars : forall vs tvs, Forall scalar vs -> (length vs <= length (flat tvs))%nat ->
  firstn (length vs) (flat tvs) = vs -> exists tvs2, tvs = map TS vs ++ tvs2.
Proof.
  induction vs as [|x vs IH]; intros tvs Hs Hl Hf; [exists tvs; reflexivity|].
  destruct tvs as [|[v|ty e] r]; [cbn in Hl; lia| |].
  - change (flat (TS v :: r)) with (v :: flat r) in *. cbn [length firstn] in *. inversion Hf as [[Ex Er]]. subst x.
    rewrite Er. destruct (IH r (Forall_inv_tail Hs) ltac:(lia) Er) as (tvs2 & ->). exists tvs2. reflexivity.
  - change (flat (TA ty e :: r)) with (VArr ty (Z.of_nat (length e)) :: e ++ flat r) in *.
    cbn [length firstn] in Hf. inversion Hf as [[Ex Er]].
    pose proof (Forall_inv Hs) as Hx. rewrite <- Ex in Hx. contradiction.
Qed.

Section PrintMixed.
Variables dec2f dec2d : list Z -> Z.
Variable o : popts.
Variables zf zd : Z.
Hypothesis Hz : zchoice zf zd.
Notation item_ok := (item_ok dec2f dec2d).
Notation iter_text := (iter_text dec2f dec2d).
Notation m_ok := (m_ok dec2f dec2d).

(* the printer's previous value against the reader's context *)
Definition pctx (c : mctx) (prev : option av) : Prop :=
  match c with
  | CItem p => prev = p
  | CArr (Some pv) => prev = Some pv
  | CArr None => exists ty z, prev = Some (VArr ty z)
  end.

Fixpoint mseq_from (pend : bool) (c : mctx) (ms : list mi) (sfx : list Z) : Prop :=
  match ms with
  | [] => sfx = []
  | m :: rest =>
      exists sepz sfx', sfx = sepz ++ m_text m ++ sfx' /\ m_ok c m /\
        (if pend then sepw sepz else sepz = []) /\ mseq_from true (m_next m) rest sfx'
  end.

Lemma item_orig_scalar p it : item_ok p it -> Forall scalar (item_orig it).
Proof.
  destruct it as [v t|n v t|k b d m last sp]; cbn [ListProofs.item_ok item_orig].
  - intros [(_ & _ & Hs) _]. now constructor.
  - intros (_ & (_ & _ & Hs) & _). apply Forall_forall. intros x Hx. apply repeat_spec in Hx. now subst.
  - intros _. apply Forall_forall. intros x Hx. apply in_map_iff in Hx as (j & <- & _). now destruct k.
Qed.

Lemma iter_orig_scalar prev its t : iter_text prev its t -> Forall scalar (iorig its).
Proof.
  intros H. destruct its as [|it1 [|it2 [|? ?]]]; cbn [ListProofs.iter_text] in H; try contradiction;
    unfold iorig; cbn [map concat]; rewrite ?app_nil_r.
  - exact (item_orig_scalar _ _ (proj2 H)).
  - destruct H as (_ & H1 & H2). apply Forall_app. split; [exact (item_orig_scalar _ _ H1)|exact (item_orig_scalar _ _ H2)].
Qed.

(* the first item of an iteration in the reader's context *)
Lemma m_ok_first c prev it rest :
  pctx c prev -> item_ok prev it -> first_notconf prev (it :: rest) -> m_ok c (MI it).
Proof.
  intros Hc Hok Hnc. destruct c as [p|q]; cbn [pctx MixedProofs.m_ok] in *.
  - now subst.
  - destruct it as [v t|n v t|k b d m last sp]; cbn [ListProofs.item_ok aft_ok first_notconf] in *.
    + split; [exact Hok|now destruct q].
    + split; [exact Hok|now destruct q].
    + destruct Hok as (Hrun & Hsp & _). destruct Hnc as [Hnc Hunit].
      split; [split; [exact Hrun|split; [exact Hsp|exact Hunit]]|].
      destruct q as [pv|]; [|exact I]. subst prev. cbn [notconf] in Hnc.
      destruct Hnc as [Hne| ->]; [left|now right].
      rewrite types_match_kind'. now apply Z.eqb_neq.
Qed.

Lemma morig_items its : morig (map MI its) = map TS (iorig its).
Proof.
  induction its as [|it its IH]; [reflexivity|].
  unfold morig, iorig in *. cbn [map concat m_orig]. now rewrite IH, map_app.
Qed.

(* what one iteration over a value emits joins what the later ones emit *)
Lemma mseq_join c prev its1 t ms2 sfx2 (pend : bool) sepz :
  pctx c prev -> iter_text prev its1 t -> first_notconf prev its1 ->
  mseq_from true (CItem (ilast its1)) ms2 sfx2 ->
  (if pend then sepw sepz else sepz = []) ->
  mseq_from pend c (map MI its1 ++ ms2) (sepz ++ t ++ sfx2).
Proof.
  intros Hc Hit Hnc Hseq Hsepz.
  destruct its1 as [|it1 [|it2 [|? ?]]]; cbn [ListProofs.iter_text] in Hit; try contradiction.
  - destruct Hit as (-> & Hok1). cbn [ilast rev app item_last] in Hseq. cbn [map app mseq_from].
    exists sepz, sfx2. split; [reflexivity|]. split; [exact (m_ok_first c prev it1 [] Hc Hok1 Hnc)|].
    split; [exact Hsepz|exact Hseq].
  - destruct Hit as (-> & Hok1 & Hok2). cbn [ilast rev app item_last] in Hseq. cbn [map app mseq_from].
    exists sepz, ([32] ++ item_text it2 ++ sfx2). split; [now rewrite <- !app_assoc|].
    split; [exact (m_ok_first c prev it1 [it2] Hc Hok1 Hnc)|].
    split; [exact Hsepz|]. exists [32], sfx2. split; [reflexivity|]. split; [exact Hok2|].
    split; [apply sepw_32|exact Hseq].
Qed.
(* one iteration of the loop of rtosc_print_arg_vals: what it emits (ms1, as the
   text sepz ++ t) and the state it leaves *)
Definition step_ok (c : mctx) (prev : option av) (tvs : list tv) (i n : Z) (acc : list Z) (pend : bool) (wrt : Z)
           (f : nat) (res : list Z * Z) : Prop :=
  exists ms1 t sepz tvs2 c2 prev2 inc (pend2 : bool) wrt2 cols2 awtl2,
    (forall ms2 sfx2, mseq_from true c2 ms2 sfx2 -> mseq_from pend c (ms1 ++ ms2) (sepz ++ t ++ sfx2)) /\
    ms1 <> [] /\ pctx c2 prev2 /\ canon tvs = morig ms1 ++ canon tvs2 /\ Forall (goodt o zf zd) tvs2 /\
    length (flat tvs) = (inc + length (flat tvs2))%nat /\ (1 <= inc)%nat /\
    (tvs2 = [] -> pend2 = false) /\ (pend2 = false -> tvs2 = []) /\
    wrt2 - (if pend2 then 1 else 0) = wrt + len sepz + len t - (if pend then 1 else 0) /\
    print_vals_loop f o (flat tvs2) prev2 (i + Z.of_nat inc) n (acc ++ sepz ++ t) pend2 wrt2 cols2 awtl2 = Some res.

Lemma step_val c f v tvs' prev i n acc pend wrt cols awtl res :
  goodc o zf zd v -> Forall (goodt o zf zd) tvs' -> Z.of_nat (length (flat (TS v :: tvs'))) < 2 ^ 31 ->
  n = i + Z.of_nat (length (flat (TS v :: tvs'))) -> pctx c prev ->
  print_vals_loop (S f) o (flat (TS v :: tvs')) prev i n acc pend wrt cols awtl = Some res ->
  step_ok c prev (TS v :: tvs') i n acc pend wrt f res.
Proof.
  intros Hgv Hg Hlen Hn Hc Hrun.
  change (flat (TS v :: tvs')) with (v :: flat tvs') in *. set (rest := flat tvs') in *.
  assert (Hgr : Forall (goodca o zf zd) rest) by (apply goodt_flat; exact Hg).
  cbn [print_vals_loop] in Hrun. cbn [length] in Hn. replace (n <=? i) with false in Hrun by lia.
  destruct (goodc_facts o zf zd v Hgv) as (Hs0 & _).
  destruct (convert_to_range o (v :: rest) (n - i)) as [|cc kk|] eqn:Ecv; [| |discriminate].
  1: rewrite top_plain in Hrun by (destruct v; cbn in Hs0; try contradiction; cbn; lia).
  2: destruct (conv_yes_head o _ _ _ _ Ecv) as (n0 & h0 & r0 & Ec0); rewrite Ec0 in Hrun;
     rewrite top_plain in Hrun by (cbn; lia); rewrite <- Ec0 in Hrun.
  all: match type of Hrun with context [print_arg_val ?oo ?inp ?cc0 ?pp] =>
         destruct (print_arg_val oo inp cc0 pp) as [[[[t tmp] cols1] bb]|] eqn:Epr; [|discriminate] end.
  all: match type of Ecv with _ = ?cv =>
         destruct (print_iter_any_sa dec2f dec2d o 4 zf zd Hz v rest (n - i) prev t tmp cols cols1 bb cv Hgv Hgr Hlen Ecv
                     ltac:(discriminate) Epr)
           as (its1 & inc & -> & -> & Hinc & Hrange & Horig & Hit & Hnth & _ & Hnc) end.
  all: destruct (if breaks_itself (av_type v) then (false, cols1, awtl)
                 else lb_check (linelength o) cols1 (len t) awtl) as [[brk_ cols2] awtl2] eqn:Elb.
  all: rewrite orb_false_r in Hrun; destruct (brk_ && negb pend) eqn:Ebp; [discriminate|].
  all: set (sepz := if brk_ then nl4 else if pend then [32] else []) in *.
  all: assert (Hsepz : if pend then sepw sepz else sepz = [])
         by (subst sepz; destruct pend, brk_; cbn in *; try reflexivity; try discriminate;
             [apply sepw_nl4|apply sepw_32]).
  all: assert (Hlz : len sepz = (if brk_ then 4 else 0) + (if pend then 1 else 0))
         by (subst sepz; destruct pend, brk_; cbn in *; try reflexivity; discriminate).
  all: rewrite <- Hinc in Hrun.
  all: assert (Hsk : skipz (Z.of_nat inc) (v :: rest) = skipn inc (v :: rest)) by (unfold skipz; now rewrite Nat2Z.id).
  all: assert (Hnt : nth_error (v :: rest) (Z.to_nat (Z.of_nat inc - 1)) = ilast its1)
         by (replace (Z.to_nat (Z.of_nat inc - 1)) with (inc - 1)%nat by lia; exact Hnth).
  all: rewrite Hsk, Hnt in Hrun.
  all: assert (Hli : length (iorig its1) = inc) by (rewrite Horig, firstn_length; lia).
  all: destruct (flat_split_scalars (iorig its1) (TS v :: tvs') (iter_orig_scalar _ _ _ Hit)
                   ltac:(change (flat (TS v :: tvs')) with (v :: rest); rewrite Hli; lia)
                   ltac:(change (flat (TS v :: tvs')) with (v :: rest); rewrite Hli; symmetry; exact Horig))
         as (tvs2 & Etv).
  all: assert (Hsk2 : skipn inc (v :: rest) = flat tvs2)
         by (change (v :: rest) with (flat (TS v :: tvs')); rewrite Etv, flat_app, flat_scalars, skipn_app, <- Hli,
             skipn_all, Nat.sub_diag; reflexivity).
  all: rewrite Hsk2 in Hrun.
  all: assert (Hlen2 : length (v :: rest) = (inc + length (flat tvs2))%nat)
         by (rewrite <- Hsk2, skipn_length; lia).
  all: assert (Hg2 : Forall (goodt o zf zd) tvs2)
         by (assert (Hall : Forall (goodt o zf zd) (TS v :: tvs')) by (constructor; assumption);
             rewrite Etv in Hall; now apply Forall_app in Hall as [_ Hall]).
  all: assert (Hil : exists lst, ilast its1 = Some (item_last lst))
         by (destruct its1 as [|it1 [|it2 [|? ?]]]; cbn [ListProofs.iter_text] in Hit; try contradiction; eexists; reflexivity).
  all: destruct Hil as (lst & Eil).
  all: destruct (i + Z.of_nat inc <? n) eqn:Ein.
  all: match type of Hrun with print_vals_loop _ _ _ _ _ _ _ ?pend2 ?wrt2 ?cols3 ?awtl3 = _ =>
         exists (map MI its1), t, sepz, tvs2, (CItem (ilast its1)), (ilast its1), inc, pend2, wrt2, cols3, awtl3 end.
  all: split; [intros ms2 sfx2 Hseq2; exact (mseq_join c prev its1 t ms2 sfx2 pend sepz Hc Hit Hnc Hseq2 Hsepz)|].
  all: split; [destruct its1; [cbn [ListProofs.iter_text] in Hit; contradiction|discriminate]|].
  all: split; [reflexivity|].
  all: split; [rewrite Etv, canon_app, canon_scalars, morig_items; reflexivity|].
  all: split; [exact Hg2|]. all: split; [exact Hlen2|]. all: split; [lia|].
  all: split; [first [intros _; reflexivity
                     |intros E2; exfalso; rewrite E2 in Hlen2; cbn [flat map concat length] in Hlen2;
                      apply Z.ltb_lt in Ein; cbn [length] in *; lia]|].
  all: split; [first [intros E; discriminate E
                     |intros _; apply length_zero_iff_nil; pose proof (flat_len tvs2); apply Z.ltb_ge in Ein;
                      cbn [length] in *; lia]|].
  all: split; [lia|exact Hrun].
Qed.
(* an array printed as an element of the list or behind "Nx" *)
Lemma print_arr_elem fu parr ty es more cols blank t tmp cols1 bb :
  Forall (goodc o zf zd) es -> homog es -> Forall (goodca o zf zd) more ->
  Z.of_nat (length (es ++ more)) < 2 ^ 31 ->
  print_array (print_arg_val_f (S (S fu))) parr o (VArr ty (Z.of_nat (length es)) :: es ++ more) cols blank
  = Some (t, tmp, cols1, bb) ->
  exists its T, t = (if bb then sp4 else []) ++ arr_text T /\ tmp = len t /\ arr_ok dec2f dec2d its T /\
    iorig its = es /\ lty 32 its = last_type es /\ (blank = false -> bb = false) /\
    match ilast its with
    | Some pv => nth_error (es ++ more) (length es - 1) = Some pv /\ es <> []
    | None => es = []
    end.
Proof.
  intros Hg Hh Hgm Hlen Hp. destruct es as [|a0 rest].
  - cbn in Hp. inversion Hp; subst. exists [], []. cbn [app]. repeat split; try reflexivity. now left.
  - destruct (print_array_iseq dec2f dec2d o parr fu zf zd Hz _ ty (a0 :: rest) more cols blank t tmp cols1 bb Hg Hgm Hlen eq_refl
                ltac:(discriminate) Hp) as (its & T0 & -> & -> & Hseq & Horig & Hne & Hlast & Hbb).
    destruct (iseq_from_iseq dec2f dec2d _ _ _ _ Hseq Hne) as (sepz & T & -> & HL & ->). cbn [app].
    assert (Hty : atys_ok 0 its).
    { apply (atys_from (a0 :: rest) Hh); [|left; reflexivity].
      intros v tt Hin. rewrite <- Horig. exact (ival_in _ _ _ Hin). }
    exists its, T. split; [reflexivity|]. split; [reflexivity|]. split; [right; auto|]. split; [exact Horig|].
    split; [rewrite <- Horig; exact (lty_last dec2f dec2d _ _ _ 32 HL Hne)|]. split; [exact Hbb|].
    destruct (ilast its) as [pv|] eqn:Eil.
    + split; [|discriminate]. change (a0 :: rest ++ more) with ((a0 :: rest) ++ more).
      rewrite nth_error_app1 by (cbn [length]; lia). exact Hlast.
    + exfalso. unfold ilast in Eil. destruct (rev its) eqn:Er; [|discriminate].
      apply (f_equal (@length _)) in Er. rewrite rev_length in Er. destruct its; [congruence|discriminate].
Qed.

Lemma nth_error_skipn {A} (l : list A) : forall a b, nth_error (skipn a l) b = nth_error l (a + b).
Proof. induction l as [|x l IH]; intros [|a] b; cbn [skipn Nat.add nth_error]; try reflexivity; [now destruct b|apply IH]. Qed.

Lemma last_of_blocks es tys0 tl X :
  nth_error (flat (arrs es (tys0 ++ [tl]) ++ X)) (length (tys0 ++ [tl]) * S (length es) - 1)
  = match es with [] => Some (VArr tl 0) | _ => nth_error es (length es - 1) end.
Proof.
  replace (length (tys0 ++ [tl]) * S (length es) - 1)%nat with (length tys0 * S (length es) + length es)%nat
    by (rewrite app_length; cbn [length]; lia).
  rewrite <- nth_error_skipn.
  replace (arrs es (tys0 ++ [tl]) ++ X) with (arrs es tys0 ++ (TA tl es :: X))
    by (unfold arrs; rewrite map_app; cbn [map]; now rewrite <- app_assoc).
  rewrite skip_blocks. unfold flat. cbn [map concat tv_flat app].
  destruct es as [|e0 er]; [reflexivity|].
  cbn [length nth_error]. rewrite nth_error_app1 by (cbn [length]; lia). f_equal. cbn [length]. lia.
Qed.

Lemma step_arr c f ty es tvs' prev i n acc pend wrt cols awtl res :
  Forall (goodc o zf zd) es -> homog es -> Forall (goodt o zf zd) tvs' ->
  Z.of_nat (length (flat (TA ty es :: tvs'))) < 2 ^ 31 ->
  n = i + Z.of_nat (length (flat (TA ty es :: tvs'))) -> pctx c prev ->
  print_vals_loop (S f) o (flat (TA ty es :: tvs')) prev i n acc pend wrt cols awtl = Some res ->
  step_ok c prev (TA ty es :: tvs') i n acc pend wrt f res.
Proof.
  intros Hges Hh Hg Hlen Hn Hc Hrun.
  assert (Eargs : flat (TA ty es :: tvs') = VArr ty (Z.of_nat (length es)) :: es ++ flat tvs') by reflexivity.
  assert (Hgm : Forall (goodca o zf zd) (flat tvs')) by (apply goodt_flat; exact Hg).
  assert (Hpos : (1 <= length (flat (TA ty es :: tvs')))%nat) by (rewrite Eargs; cbn [length]; lia).
  cbn [print_vals_loop] in Hrun. replace (n <=? i) with false in Hrun by lia.
  rewrite Eargs in Hrun at 1. cbv iota in Hrun.
  destruct (convert_to_range o (flat (TA ty es :: tvs')) (n - i)) as [|cc kk|] eqn:Ecv; [| |discriminate].
  - (* the array itself *)
    rewrite Eargs in Hrun. cbn [print_arg_val_top] in Hrun.
    match type of Hrun with context [print_array ?a ?b ?oo ?inp ?cc0 ?pp] =>
      destruct (print_array a b oo inp cc0 pp) as [[[[t tmp] cols1] bb]|] eqn:Epr; [|discriminate] end.
    destruct (print_arr_elem 4 print_arr ty es (flat tvs') cols pend t tmp cols1 bb Hges Hh Hgm
                ltac:(rewrite Eargs in Hlen; cbn [length] in Hlen; lia) Epr)
      as (its & T & -> & -> & Hok & Horig & Hlty & Hbb & Hlast).
    change (breaks_itself (av_type (VArr ty (Z.of_nat (length es))))) with true in Hrun. cbv iota in Hrun.
    cbn [orb] in Hrun. destruct (bb && negb pend) eqn:Ebp; [discriminate|].
    cbn [next_arg_offset] in Hrun.
    assert (Hsk : skipz (Z.of_nat (length es) + 1) (VArr ty (Z.of_nat (length es)) :: es ++ flat tvs') = flat tvs')
      by (rewrite <- Eargs; exact (skip_block ty es tvs')).
    rewrite Hsk in Hrun.
    replace (Z.to_nat (Z.of_nat (length es) + 1 - 1)) with (length es) in Hrun by lia.
    set (prev2 := nth_error (VArr ty (Z.of_nat (length es)) :: es ++ flat tvs') (length es)) in *.
    assert (Hp2 : pctx (CArr (ilast its)) prev2).
    { unfold prev2. destruct (ilast its) as [pv|]; cbn [pctx].
      - destruct Hlast as [Hl Hne]. destruct es as [|e0 er]; [congruence|]. cbn [length nth_error] in *.
        replace (S (length er) - 1)%nat with (length er) in Hl by lia. exact Hl.
      - rewrite Hlast. cbn [length nth_error]. eexists _, _. reflexivity. }
    set (sepz := if bb then nl4 else if pend then [32] else []).
    assert (Hsepz : if pend then sepw sepz else sepz = [])
      by (subst sepz; destruct pend, bb; cbn in *; try reflexivity; try discriminate; [apply sepw_nl4|apply sepw_32]).
    assert (Eacc : forall X, acc ++ (if bb then [10] else if pend then [32] else []) ++ ((if bb then sp4 else []) ++ arr_text T) ++ X
                   = acc ++ sepz ++ arr_text T ++ X)
      by (intros X; subst sepz; destruct bb; cbn [app]; [unfold nl4, sp4; cbn [app]|]; reflexivity).
    assert (Hlenargs : length (flat (TA ty es :: tvs')) = (S (length es) + length (flat tvs'))%nat)
      by (rewrite Eargs; cbn [length]; rewrite app_length; lia).
    destruct (i + (Z.of_nat (length es) + 1) <? n) eqn:Ein.
    all: match type of Hrun with print_vals_loop _ _ _ _ _ _ _ ?pend2 ?wrt2 ?cols3 ?awtl3 = _ =>
           exists [MA its T], (arr_text T), sepz, tvs', (CArr (ilast its)), prev2, (S (length es)), pend2, wrt2, cols3, awtl3 end.
    all: split; [intros ms2 sfx2 Hseq2; cbn [app mseq_from]; exists sepz, sfx2;
                 split; [reflexivity|]; split; [exact Hok|]; split; [exact Hsepz|exact Hseq2]|].
    all: split; [discriminate|]. all: split; [exact Hp2|].
    all: split; [unfold canon, morig; cbn [map concat m_orig canon1 app]; now rewrite Hlty, Horig|].
    all: split; [exact Hg|]. all: split; [exact Hlenargs|]. all: split; [lia|].
    all: split; [first [intros _; reflexivity
                       |intros E2; exfalso; apply Z.ltb_lt in Ein; rewrite Hlenargs, E2 in Hn;
                        cbn [flat map concat length] in Hn; lia]|].
    all: split; [first [intros E; discriminate E
                       |intros _; apply length_zero_iff_nil; pose proof (flat_len tvs'); apply Z.ltb_ge in Ein;
                        rewrite Hlenargs in Hn; lia]|].
    all: split; [subst sepz; destruct bb, pend; cbn in Ebp; try discriminate; unfold len, nl4, sp4; rewrite ?app_length; cbn [length]; lia|].
    all: replace (i + Z.of_nat (S (length es))) with (i + (Z.of_nat (length es) + 1)) by lia.
    all: rewrite <- (app_nil_r (arr_text T)) at 1; rewrite <- Eacc, app_nil_r; exact Hrun.
  - (* five or more equal arrays: a repetition *)
    destruct (conv_array o zf zd Hz es Hges ty tvs' (n - i) (CYes cc kk) Hg ltac:(lia) Ecv ltac:(discriminate))
      as [Hcn|(tys & rest2 & y & Etv & Hm4 & Ecy)]; [discriminate|].
    set (m := S (length tys)) in *.
    assert (Ecc : cc = VRep (Z.of_nat m) 0 :: VArr ty (Z.of_nat (length es)) :: es ++ [VSpc y]) by congruence.
    assert (Ekk : kk = Z.of_nat (m * S (length es))) by congruence.
    clear Ecy. subst cc kk tvs'.
    rewrite top_plain in Hrun by (cbn; lia). unfold print_arg_val in Hrun. rewrite pavf_rep in Hrun.
    unfold print_range in Hrun.
    destruct (compress o); cbn [negb orb] in Hrun; [|discriminate].
    assert (Em0 : (Z.of_nat m =? 0) = false) by (apply Z.eqb_neq; unfold m; lia).
    rewrite Em0 in Hrun.
    cbn [Z.eqb negb] in Hrun. cbv iota in Hrun.
    unfold print_arr_f in Hrun at 1. fold print_arr_f in Hrun.
    match type of Hrun with context [print_array ?a ?b ?oo ?inp ?cc0 ?pp] =>
      destruct (print_array a b oo inp cc0 pp) as [[[[t tmp] cols1] bb]|] eqn:Epr; [|discriminate] end.
    destruct (print_arr_elem 2 (print_arr_f 4) ty es [VSpc y] _ false t tmp cols1 bb Hges Hh
                ltac:(constructor; [right; right; eauto|constructor])
                ltac:(rewrite Eargs in Hlen; cbn [length] in Hlen; rewrite !app_length in *; cbn [length] in *; lia) Epr)
      as (its & T & -> & -> & Hok & Horig & Hlty & Hbb & Hlast).
    rewrite (Hbb eq_refl) in *. cbn [app] in Hrun. cbv iota in Hrun.
    change (breaks_itself (av_type (VArr ty (Z.of_nat (length es))))) with true in Hrun. cbv iota in Hrun.
    cbn [orb andb] in Hrun.
    assert (Hblk : forall l, length (flat (arrs es l)) = (length l * S (length es))%nat).
    { clear. intros l. induction l as [|t l IHl]; [reflexivity|].
      change (arrs es (t :: l)) with (TA t es :: arrs es l).
      unfold flat in *. cbn [map concat tv_flat length]. rewrite app_length, IHl. cbn [length]. lia. }
    assert (Eall : flat (TA ty es :: arrs es tys ++ rest2) = flat (arrs es (ty :: tys) ++ rest2)) by reflexivity.
    assert (Hlenargs : length (flat (TA ty es :: arrs es tys ++ rest2)) = (m * S (length es) + length (flat rest2))%nat)
      by (rewrite Eall, flat_app, app_length, Hblk; reflexivity).
    assert (Hsk : skipz (Z.of_nat (m * S (length es))) (flat (TA ty es :: arrs es tys ++ rest2)) = flat rest2)
      by (unfold skipz; rewrite Nat2Z.id, Eall; exact (skip_blocks es (ty :: tys) rest2)).
    rewrite Hsk in Hrun.
    replace (Z.to_nat (Z.of_nat (m * S (length es)) - 1)) with (m * S (length es) - 1)%nat in Hrun by lia.
    set (prev2 := nth_error (flat (TA ty es :: arrs es tys ++ rest2)) (m * S (length es) - 1)) in *.
    assert (Hp2 : pctx (CArr (ilast its)) prev2).
    { unfold prev2. rewrite Eall.
      assert (Hne : ty :: tys <> []) by discriminate.
      destruct (exists_last Hne) as (tys0 & tl & Et). rewrite Et.
      replace m with (length (tys0 ++ [tl])) by (rewrite <- Et; reflexivity).
      rewrite last_of_blocks. destruct (ilast its) as [pv|]; cbn [pctx].
      - destruct Hlast as [Hl Hnn]. destruct es as [|e0 er]; [congruence|].
        rewrite nth_error_app1 in Hl by (cbn [length]; lia). exact Hl.
      - rewrite Hlast. eexists _, _. reflexivity. }
    assert (Ed : print_d (Z.of_nat m) = dec_nat (Z.of_nat m))
      by (unfold print_d; now replace (Z.of_nat m <? 0) with false by lia).
    rewrite Ed in Hrun.
    set (sepz := if pend then [32] else []) in *.
    assert (Hsepz : if pend then sepw sepz else sepz = []) by (subst sepz; destruct pend; [apply sepw_32|reflexivity]).
    assert (Et : (dec_nat (Z.of_nat m) ++ [120]) ++ arr_text T = m_text (MR (Z.of_nat m) its T))
      by (cbn [m_text]; now rewrite <- app_assoc).
    rewrite Et in Hrun.
    assert (Hg2 : Forall (goodt o zf zd) rest2) by (now apply Forall_app in Hg as [_ Hg]).
    assert (Hm31 : Z.of_nat m < 2 ^ 31) by (rewrite Hlenargs in Hlen; nia).
    destruct (i + Z.of_nat (m * S (length es)) <? n) eqn:Ein.
    all: match type of Hrun with print_vals_loop _ _ _ _ _ _ _ ?pend2 ?wrt2 ?cols3 ?awtl3 = _ =>
           exists [MR (Z.of_nat m) its T], (m_text (MR (Z.of_nat m) its T)), sepz, rest2, (CArr (ilast its)), prev2,
                  (m * S (length es))%nat, pend2, wrt2, cols3, awtl3 end.
    all: split; [intros ms2 sfx2 Hseq2; cbn [app mseq_from]; exists sepz, sfx2;
                 split; [reflexivity|]; split; [cbn [MixedProofs.m_ok]; split; [subst m; lia|exact Hok]|];
                 split; [exact Hsepz|exact Hseq2]|].
    all: split; [discriminate|]. all: split; [exact Hp2|].
    all: split; [change (TA ty es :: arrs es tys ++ rest2) with (arrs es (ty :: tys) ++ rest2);
                 rewrite canon_app, canon_arrs; unfold morig; cbn [map concat m_orig app];
                 rewrite app_nil_r, Nat2Z.id, Hlty, Horig; reflexivity|].
    all: split; [exact Hg2|]. all: split; [exact Hlenargs|]. all: split; [subst m; lia|].
    all: split; [first [intros _; reflexivity
                       |intros E2; exfalso; apply Z.ltb_lt in Ein; rewrite Hlenargs, E2 in Hn;
                        cbn [flat map concat length] in Hn; lia]|].
    all: split; [first [intros E; discriminate E
                       |intros _; apply length_zero_iff_nil; pose proof (flat_len rest2); apply Z.ltb_ge in Ein;
                        rewrite Hlenargs in Hn; lia]|].
    all: split; [rewrite <- Et, !len_app; unfold sepz; destruct pend; change (len [32]) with 1; change (len []) with 0; lia|exact Hrun].
Qed.
(* the loop of rtosc_print_arg_vals emits a mixed sequence of the input *)
Lemma print_loop_mseq : forall fuel tvs prev c i n acc pend wrt cols awtl text w,
  Forall (goodt o zf zd) tvs -> Z.of_nat (length (flat tvs)) < 2 ^ 31 -> n = i + Z.of_nat (length (flat tvs)) ->
  (tvs = [] -> pend = false) -> pctx c prev ->
  print_vals_loop fuel o (flat tvs) prev i n acc pend wrt cols awtl = Some (text, w) ->
  exists ms sfx, text = acc ++ sfx /\ w = wrt + len sfx - (if pend then 1 else 0) /\
    mseq_from pend c ms sfx /\ morig ms = canon tvs /\ (tvs = [] -> ms = []).
Proof.
  induction fuel as [|fuel IH]; intros tvs prev c i n acc pend wrt cols awtl text w Hg Hlen Hn Hpe Hc Hrun;
    [discriminate|].
  destruct tvs as [|t tvs'].
  - cbn [flat map concat print_vals_loop] in Hrun. cbn in Hn. replace (n <=? i) with true in Hrun by lia.
    inversion Hrun; subst. exists [], []. rewrite app_nil_r, (Hpe eq_refl). cbn. repeat split; lia.
  - assert (Hstep : step_ok c prev (t :: tvs') i n acc pend wrt fuel (text, w)).
    { destruct t as [v|ty es].
      - exact (step_val c fuel v tvs' prev i n acc pend wrt cols awtl _ (Forall_inv Hg) (Forall_inv_tail Hg) Hlen Hn Hc Hrun).
      - destruct (Forall_inv Hg) as [Hges Hh].
        exact (step_arr c fuel ty es tvs' prev i n acc pend wrt cols awtl _ Hges Hh (Forall_inv_tail Hg) Hlen Hn Hc Hrun). }
    destruct Hstep as (ms1 & t1 & sepz & tvs2 & c2 & prev2 & inc & pend2 & wrt2 & cols2 & awtl2 & Hjoin & Hne & Hp2 & Hcan &
                       Hg2 & Hlen2 & Hinc & Hpe2 & Hpe3 & Hw & Hrun2).
    apply (IH tvs2 prev2 c2) in Hrun2; [|exact Hg2|lia|lia|exact Hpe2|exact Hp2].
    destruct Hrun2 as (ms2 & sfx2 & -> & -> & Hseq2 & Hor2 & Hnil2).
    exists (ms1 ++ ms2), (sepz ++ t1 ++ sfx2).
    split; [now rewrite <- !app_assoc|]. split; [rewrite !len_app; lia|].
    split; [|split].
    + apply Hjoin. destruct pend2; [exact Hseq2|].
      rewrite (Hnil2 (Hpe3 eq_refl)) in *. exact Hseq2.
    + unfold morig in *. rewrite map_app, concat_app. fold (morig ms1). rewrite Hcan. f_equal. exact Hor2.
    + discriminate.
Qed.
End PrintMixed.

(* ------------------------------------------------------------------------- *)
(* the round trip of lists of values and arrays                               *)
Section FinalMixed.
Variables dec2f dec2d : list Z -> Z.

Lemma mseq_from_mseq : forall ms pend c sfx,
  mseq_from dec2f dec2d pend c ms sfx -> ms <> [] ->
  exists sepz T, sfx = sepz ++ T /\ mseq dec2f dec2d c ms T /\ (if pend then sepw sepz else sepz = []).
Proof.
  induction ms as [|m ms IH]; intros pend c sfx H Hne; [congruence|].
  cbn [mseq_from] in H. destruct H as (sepz & sfx' & -> & Hok & Hs & Hl).
  destruct ms as [|m' ms'].
  - cbn in Hl. subst sfx'. exists sepz, (m_text m). rewrite app_nil_r.
    split; [reflexivity|]. split; [now constructor|assumption].
  - destruct (IH true _ sfx' Hl ltac:(discriminate)) as (sepz' & T' & -> & HL & Hs').
    exists sepz, (m_text m ++ sepz' ++ T'). split; [reflexivity|]. split; [|assumption].
    now constructor.
Qed.

Theorem roundtrip_mixed o zf zd tvs text w :
  zchoice zf zd -> Forall (goodt o zf zd) tvs -> Z.of_nat (length (flat tvs)) < 2 ^ 31 ->
  print_arg_vals o (flat tvs) 0 = Some (text, w) ->
  exists slots,
    w = len text /\
    count_printed_arg_vals dec2f dec2d text = Ok (true, Z.of_nat (length slots)) /\
    scan_arg_vals dec2f dec2d text (Z.of_nat (length slots)) = Ok (slots, []) /\
    expand_deep slots = Some (flat (canon tvs)).
Proof.
  intros Hz Hg Hlen Hp. unfold print_arg_vals in Hp.
  apply (print_loop_mseq dec2f dec2d o zf zd Hz _ tvs None (CItem None)) in Hp;
    try assumption; try lia; try reflexivity.
  destruct Hp as (ms & sfx & -> & -> & Hseq & Horig & Hnil). cbn [app].
  destruct ms as [|m ms].
  - cbn in Hseq. subst sfx. exists []. unfold morig in Horig. cbn [map concat] in Horig. rewrite <- Horig.
    repeat split; reflexivity.
  - destruct (mseq_from_mseq _ _ _ _ Hseq ltac:(discriminate)) as (sepz & T & -> & HL & ->). cbn [app].
    exists (mslots (m :: ms)). split; [lia|].
    destruct (mseq_reads dec2f dec2d _ _ HL) as [Hc Hs]. split; [exact Hc|]. split; [exact Hs|].
    rewrite <- Horig. exact (expand_deep_mseq dec2f dec2d _ _ _ HL).
Qed.

Theorem message_roundtrip_mixed o zf zd addr tvs text w :
  zchoice zf zd -> good_addr addr -> Forall (goodt o zf zd) tvs -> Z.of_nat (length (flat tvs)) < 2 ^ 31 ->
  print_message o addr (flat tvs) 0 = Some (text, w) ->
  exists slots,
    w = len text /\
    count_printed_arg_vals_of_msg dec2f dec2d text = Ok (true, Z.of_nat (length slots)) /\
    scan_message dec2f dec2d text (Z.of_nat (length slots)) = Ok (addr, slots, []) /\
    expand_deep slots = Some (flat (canon tvs)).
Proof.
  intros Hz [[ar Ea] Hns] Hg Hlen Hp. unfold print_message in Hp.
  destruct (print_vals_loop (S (length (flat tvs))) o (flat tvs) None 0 (Z.of_nat (length (flat tvs))) addr true 0
              (0 + (len addr + 1)) (if 0 + (len addr + 1) =? 0 then 0 else 1)) as [[t w']|] eqn:El;
    [|discriminate].
  inversion Hp; subst text w; clear Hp.
  assert (Hsk : forall tail f, skip_comments_ws f (addr ++ tail) = addr ++ tail)
    by (intros; rewrite Ea; cbn [app]; apply skip_comments_ws_no; lia).
  assert (Hhd : forall tail, hd0 (addr ++ tail) = 47) by (intros; rewrite Ea; reflexivity).
  assert (Hnw : forall tail, skip_ws (addr ++ tail) = addr ++ tail)
    by (intros; apply skip_ws_nonspace; rewrite Hhd; reflexivity).
  destruct tvs as [|tv0 tvs'].
  - cbn in El. inversion El; subst t w'. cbn [flat map concat length Z.of_nat Z.eqb].
    assert (Hd := dropwhile_nonspace addr [32] Hns (or_intror eq_refl)). destruct Hd as [Hd Ht].
    exists []. split; [rewrite len_app; cbn; unfold len; cbn; lia|].
    unfold count_printed_arg_vals_of_msg, scan_message.
    rewrite !Hnw, !Hsk, !Hhd. cbn [Z.eqb Pos.eqb negb]. rewrite Hd, Ht.
    repeat split; reflexivity.
  - assert (Hpos : (1 <= length (flat (tv0 :: tvs')))%nat)
      by (pose proof (flat_len (tv0 :: tvs')); cbn [length] in *; lia).
    apply (print_loop_mseq dec2f dec2d o zf zd Hz _ (tv0 :: tvs') None (CItem None)) in El;
      try assumption; try lia; try discriminate; try reflexivity.
    destruct El as (ms & sfx & -> & -> & Hseq & Horig & _).
    assert (Hne : ms <> []) by (intros ->; unfold morig, canon in Horig; cbn in Horig; discriminate).
    destruct (mseq_from_mseq _ _ _ _ Hseq Hne) as (sepz & T & -> & HL & Hsep).
    assert (Hz0 : (Z.of_nat (length (flat (tv0 :: tvs'))) =? 0) = false) by (apply Z.eqb_neq; lia). rewrite !Hz0.
    destruct ms as [|m ms']; [congruence|].
    destruct (mseq_first dec2f dec2d _ _ _ _ HL) as (c & r & -> & Hc).
    assert (Hsp : sepz ++ c :: r = [] \/ isspace (hd0 (sepz ++ c :: r)) = true).
    { right. destruct Hsep as [Hne' Hall]. destruct sepz as [|x s]; [congruence|]. now inversion Hall. }
    destruct (dropwhile_nonspace addr (sepz ++ c :: r) Hns Hsp) as [Hd Ht].
    assert (Hws : skip_ws (sepz ++ c :: r) = c :: r).
    { apply skip_ws_sep; [apply Hsep|]. rewrite hd0_cons. apply Hc. }
    exists (mslots (m :: ms')). split; [rewrite !len_app in *; lia|].
    destruct (mseq_reads dec2f dec2d _ _ HL) as [Hcnt Hscan].
    unfold count_printed_arg_vals_of_msg, scan_message.
    rewrite !Hnw, !Hsk, !Hhd. cbn [Z.eqb Pos.eqb negb]. rewrite Hd, Ht, Hws.
    split; [|split].
    + unfold count_printed_arg_vals in *. rewrite Hws.
      destruct Hc as (H0 & H47 & H37 & Hsp' & H46 & H40).
      rewrite skip_comments_ws_no by assumption.
      rewrite skip_ws_nonspace in Hcnt by now rewrite hd0_cons.
      rewrite skip_comments_ws_no in Hcnt by assumption.
      rewrite (count_loop_mseq dec2f dec2d _ _ _ HL); [reflexivity|reflexivity|].
      rewrite app_length. cbn [length]. lia.
    + now rewrite Hscan.
    + rewrite <- Horig. exact (expand_deep_mseq dec2f dec2d _ _ _ HL).
Qed.
End FinalMixed.

(* ------------------------------------------------------------------------- *)
(* with the condition on the zeroes at list level (nozmix over all values, also
   those inside arrays), as the classifier of the check states it              *)
Definition goodtv (o : popts) (t : tv) : Prop :=
  match t with
  | TS v => goodv o v
  | TA _ es => Forall (goodv o) es /\ homog es
  end.
Definition scalars (tvs : list tv) : list av :=
  concat (map (fun t => match t with TS v => [v] | TA _ es => es end) tvs).

Lemma goodtv_scalars o tvs : Forall (goodtv o) tvs -> Forall (goodv o) (scalars tvs).
Proof.
  induction 1 as [|t tvs Ht _ IH]; [constructor|]. unfold scalars in *. cbn [map concat].
  apply Forall_app. split; [|exact IH]. destruct t as [v|ty es]; cbn [goodtv] in Ht; [now constructor|apply Ht].
Qed.

Lemma goodt_of o zf zd tvs : Forall (goodtv o) tvs -> Forall (goodc o zf zd) (scalars tvs) -> Forall (goodt o zf zd) tvs.
Proof.
  induction 1 as [|t tvs Ht _ IH]; intros Hc; [constructor|]. unfold scalars in *. cbn [map concat] in Hc.
  apply Forall_app in Hc as [H1 H2]. constructor; [|now apply IH].
  destruct t as [v|ty es]; cbn [goodtv goodt] in *; [now inversion H1|split; [exact H1|apply Ht]].
Qed.

Theorem roundtrip_mixed_nz (dec2f dec2d : list Z -> Z) o tvs text w :
  Forall (goodtv o) tvs -> nozmix (scalars tvs) -> Z.of_nat (length (flat tvs)) < 2 ^ 31 ->
  print_arg_vals o (flat tvs) 0 = Some (text, w) ->
  exists slots,
    w = len text /\
    count_printed_arg_vals dec2f dec2d text = Ok (true, Z.of_nat (length slots)) /\
    scan_arg_vals dec2f dec2d text (Z.of_nat (length slots)) = Ok (slots, []) /\
    expand_deep slots = Some (flat (canon tvs)).
Proof.
  intros Hg Hnz. destruct (zero_choice o (scalars tvs) (goodtv_scalars o tvs Hg) Hnz) as (zf & zd & Hz & Hg').
  exact (roundtrip_mixed dec2f dec2d o zf zd tvs text w Hz (goodt_of o zf zd tvs Hg Hg')).
Qed.

Theorem message_roundtrip_mixed_nz (dec2f dec2d : list Z -> Z) o addr tvs text w :
  good_addr addr -> Forall (goodtv o) tvs -> nozmix (scalars tvs) -> Z.of_nat (length (flat tvs)) < 2 ^ 31 ->
  print_message o addr (flat tvs) 0 = Some (text, w) ->
  exists slots,
    w = len text /\
    count_printed_arg_vals_of_msg dec2f dec2d text = Ok (true, Z.of_nat (length slots)) /\
    scan_message dec2f dec2d text (Z.of_nat (length slots)) = Ok (addr, slots, []) /\
    expand_deep slots = Some (flat (canon tvs)).
Proof.
  intros Ha Hg Hnz. destruct (zero_choice o (scalars tvs) (goodtv_scalars o tvs Hg) Hnz) as (zf & zd & Hz & Hg').
  exact (message_roundtrip_mixed dec2f dec2d o zf zd addr tvs text w Hz Ha (goodt_of o zf zd tvs Hg Hg')).
Qed.

(* non-vacuity: [1 2 3 4 5 6 9] 9 10 11 12 13 true [] [] [] [] [] is printed
   "[1 ... 6 9] 9 ... 13 true 5x[]" - a range tail directly after an array that ends
   in the tail's first value, and a repetition of arrays *)
Definition ex_tvs : list tv :=
  [TA 105 (map VI [1; 2; 3; 4; 5; 6; 9])] ++ map TS (map VI [9; 10; 11; 12; 13]) ++ [TS VT] ++ repeat (TA 32 []) 5.

Lemma roundtrip_mixed_example : forall o,
  Forall (goodtv o) ex_tvs /\ nozmix (scalars ex_tvs) /\
  print_arg_vals {| lossless := true; prec := 2; linelength := 80; compress := true |} (flat ex_tvs) 0
  = Some ([91; 49; 32; 46; 46; 46; 32; 54; 32; 57; 93; 32; 57; 32; 46; 46; 46; 32; 49; 51; 32;
           116; 114; 117; 101; 32; 53; 120; 91; 93], 30).
Proof.
  intros o. split; [|split; [|vm_compute; reflexivity]].
  - assert (Hi : forall z, - 2 ^ 31 <= z < 2 ^ 31 -> goodv o (VI z))
      by (intros z Hz; left; cbn; unfold small_k, good_k, inr; lia).
    unfold ex_tvs. repeat (apply Forall_app; split).
    + constructor; [|constructor]. cbn [goodtv]. split.
      * apply Forall_forall. intros x Hx. cbn in Hx.
        repeat (destruct Hx as [<-|Hx]; [apply Hi; lia|]). contradiction.
      * intros a b Ha Hb. cbn in Ha, Hb.
        repeat (destruct Ha as [<-|Ha]; [repeat (destruct Hb as [<-|Hb]; [reflexivity|]); contradiction|]). contradiction.
    + apply Forall_forall. intros x Hx. cbn in Hx.
      repeat (destruct Hx as [<-|Hx]; [cbn [goodtv]; apply Hi; lia|]). contradiction.
    + constructor; [|constructor]. cbn [goodtv]. left. exact I.
    + apply Forall_forall. intros x Hx. apply repeat_spec in Hx. subst x. cbn [goodtv].
      split; [constructor|intros a b Ha; contradiction].
  - unfold nozmix. split; left; intros H; cbn in H;
      repeat (destruct H as [H|H]; [discriminate|]); contradiction.
Qed.
