(* C10 - the round trip of whole lists with range compression ON.
   Items: what one iteration of the printer's loop emits -
     a value, a repetition "NxV", or a range tail "b ... c" (the explicit form
     "a b ... c" is the value a followed by the tail starting at b).
   Part 1: integer kinds, their tokens, delta_from_arg_vals.
   Part 2: both recognisers read a range tail, given what precedes it.
   Part 3: the scanner's and the checker's loops over item sequences.
   Part 4: the printer's loop emits such a sequence; expansion. *)
From Coq Require Import List ZArith Bool Lia.
From RtoscV Require Import Pretty.Tok Pretty.FloatFmt Pretty.PrintModel Pretty.ScanModel Pretty.FloatProofs Pretty.SymBlobProofs
  Pretty.PrettyProofs Pretty.RangeProofs Pretty.RunProofs.
Import ListNotations.
Local Open Scope Z_scope.

(* ------------------------------------------------------------------------- *)
(* Part 1                                                                     *)
Definition tok_k (k : ikind) (z : Z) : list Z :=
  match k with KI => print_d z | KH => print_d z ++ [104] | KC => print_char z end.
Definition good_k (k : ikind) (z : Z) : Prop :=
  match k with KI => - 2 ^ 31 <= z < 2 ^ 31 | KH => - 2 ^ 63 <= z < 2 ^ 63 | KC => 0 <= z <= 255 end.
(* a value whose token the recognisers read back and which contains no '.' *)
Definition small_k (k : ikind) (z : Z) : Prop :=
  good_k k z /\ match k with KC => z <> 46 | _ => True end.

Lemma good_k_val k z : good_k k z -> good_val (mk k z).
Proof. destruct k; cbn; unfold good_char; tauto. Qed.
Lemma small_good k z : small_k k z -> good_k k z.
Proof. now intros [H _]. Qed.
Lemma small_inr k z : small_k k z -> inr k z.
Proof. intros [H _]. destruct k; cbn in *; lia. Qed.

Section Kinds.
Variables dec2f dec2d : list Z -> Z.

Lemma tok_k_core k z : good_k k z -> tok_core dec2f dec2d (mk k z) (tok_k k z).
Proof. destruct k; cbn [good_k mk tok_k]; intros H; [now apply tok_int|now apply tok_h|now apply tok_char]. Qed.

Lemma tok_k_tokof k z : good_k k z -> tokof dec2f dec2d (mk k z) (tok_k k z).
Proof.
  intros H.
  assert (E : print_scalar {| lossless := true; prec := 2; linelength := 80; compress := false |} (mk k z) 0
              = Some (tok_k k z, len (tok_k k z), 0 + len (tok_k k z))) by now destruct k.
  exact (proj1 (scalar_tok dec2f dec2d _ _ _ _ _ _ (good_k_val k z H) E)).
Qed.
End Kinds.

Lemma cmp_mk k a b : av_cmp_single (mk k a) (mk k b) = Some (cmp3 a b).
Proof. now destruct k. Qed.
Lemma from_int_mk k z n : av_from_int (av_type (mk k z)) n = Some (mk k n).
Proof. now destruct k. Qed.
Lemma null_mk k z : av_null (av_type (mk k z)) = Some (mk k 0).
Proof. now destruct k. Qed.
Lemma negate_mk k z : av_negate (mk k z) = Some (mk k (wr k (- z))).
Proof. now destruct k. Qed.
Lemma mult_mk k a b : av_mult (mk k a) (mk k b) = Some (mk k (wr k (a * b))).
Proof. now destruct k. Qed.
Definition lo_k (k : ikind) : Z := match k with KH => - 2 ^ 63 | _ => - 2 ^ 31 end.
Lemma div_mk k a b : av_div (mk k a) (mk k b) =
  match cdiv (lo_k k) a b with Some q => Some (mk k q) | None => None end.
Proof. now destruct k. Qed.
Lemma to_int_mk k q : - 2 ^ 31 <= q < 2 ^ 31 -> av_to_int (mk k q) = Some q.
Proof. destruct k; cbn; intros H; try reflexivity. unfold wrap32. rewrite Z.mod_small by lia. f_equal. lia. Qed.

Lemma cmp3_0 a b : (cmp3 a b =? 0) = (a =? b).
Proof. unfold cmp3. destruct (a =? b) eqn:E; [reflexivity|]. destruct (b <? a); reflexivity. Qed.

(* the count and the step delta_from_arg_vals finds for b, b+d, ..., last *)
Lemma dfa_common k b last d m llhs unity delta c :
  inr k b -> inr k last -> inr k d -> inr k (last - b) -> d <> 0 ->
  last = b + (m - 1) * d -> 1 <= m < 2 ^ 31 ->
  c <> 0 -> delta = mk k d ->
  dfa_dc llhs (mk k b) (Some (mk k last)) unity = Some (delta, c) ->
  delta_from_arg_vals llhs (mk k b) (Some (mk k last)) unity = Some (m, mk k d).
Proof.
  intros Hb Hl Hd Hw Hd0 Hlast Hm Hc Hdel Hdc. unfold delta_from_arg_vals. rewrite Hdc.
  replace (c =? 0) with false by lia. subst delta.
  rewrite sub_mk, (wr_id k _ Hw), div_mk.
  assert (Hq : cdiv (lo_k k) (last - b) d = Some (m - 1)).
  { unfold cdiv. replace (last - b) with ((m - 1) * d) by lia.
    replace (d =? 0) with false by lia. cbn [orb].
    replace (((m - 1) * d =? lo_k k) && (d =? -1)) with false.
    - now rewrite Z.quot_mul.
    - symmetry. apply andb_false_iff. destruct (d =? -1) eqn:E; [|now right]. left.
      apply Z.eqb_eq in E. subst d. apply Z.eqb_neq. destruct k; cbn; lia. }
  rewrite Hq, mult_mk. replace ((m - 1) * d) with (last - b) by lia. rewrite (wr_id k _ Hw), eq_mk, Z.eqb_refl.
  rewrite to_int_mk by lia. f_equal. f_equal. lia.
Qed.

Lemma dfa_unity k b last d m llhs :
  inr k b -> inr k last -> inr k (last - b) -> (d = 1 \/ d = -1) ->
  last = b + (m - 1) * d -> 2 <= m < 2 ^ 31 ->
  delta_from_arg_vals llhs (mk k b) (Some (mk k last)) true = Some (m, mk k d).
Proof.
  intros Hb Hl Hw Hd Hlast Hm.
  assert (Hdr : inr k d) by (destruct Hd; subst; destruct k; cbn; lia).
  eapply (dfa_common k b last d m llhs true (mk k d) (cmp3 b last)); try eassumption; try lia.
  - unfold cmp3. destruct (b =? last) eqn:E; [apply Z.eqb_eq in E; nia|]. destruct (last <? b); lia.
  - reflexivity.
  - unfold dfa_dc. rewrite cmp_mk, from_int_mk. unfold cmp3.
    destruct (b =? last) eqn:E; [apply Z.eqb_eq in E; nia|].
    destruct (last <? b) eqn:E2.
    + cbn [Z.ltb Z.compare]. rewrite negate_mk. assert (d = -1) by nia. subst d.
      replace (wr k (- (1))) with (-1) by (destruct k; reflexivity). reflexivity.
    + cbn [Z.ltb Z.compare]. assert (d = 1) by nia. subst d. reflexivity.
Qed.

Lemma dfa_delta k a b last d m :
  inr k b -> inr k last -> inr k (last - b) -> inr k d -> d = b - a -> d <> 0 ->
  last = b + (m - 1) * d -> 1 <= m < 2 ^ 31 ->
  delta_from_arg_vals (mk k a) (mk k b) (Some (mk k last)) false = Some (m, mk k d).
Proof.
  intros Hb Hl Hw Hdr Hd Hd0 Hlast Hm.
  eapply (dfa_common k b last d m (mk k a) false (mk k d) (cmp3 d 0)); try eassumption; try lia.
  - unfold cmp3. replace (d =? 0) with false by lia. destruct (0 <? d); lia.
  - reflexivity.
  - unfold dfa_dc. rewrite sub_mk. replace (b - a) with d by lia. rewrite (wr_id k d Hdr), null_mk, cmp_mk. reflexivity.
Qed.

(* ------------------------------------------------------------------------- *)
(* Part 2: a range tail  "b ... last"                                         *)
Definition ell4 : list Z := [32; 46; 46; 46].
Definition tail_text (k : ikind) (b last : Z) (sp : list Z) : list Z :=
  tok_k k b ++ ell4 ++ sp ++ tok_k k last.

(* the run b, b+d, ..., last of m values without wrap-around *)
Definition run_ok (k : ikind) (b d m last : Z) : Prop :=
  small_k k b /\ small_k k last /\ last = b + (m - 1) * d /\ 1 <= m < 2 ^ 31 /\ d <> 0 /\ inr k d /\
  inr k (last - b).

Section Tail.
Variables dec2f dec2d : list Z -> Z.

Lemma tok_k_first k z : good_k k z -> exists c r, tok_k k z = c :: r /\ first_ok c.
Proof. intros H. exact (proj1 (proj2 (tok_k_tokof dec2f dec2d k z H))). Qed.

Lemma tok_k_hd k z : exists c r, tok_k k z = c :: r /\ (c = 45 \/ 48 <= c <= 57 \/ c = 39).
Proof.
  destruct k; cbn [tok_k].
  - destruct (print_d_hd z) as (c & r & E & H). exists c, r. split; [assumption|lia].
  - destruct (print_d_hd z) as (c & r & E & H). rewrite E. exists c, (r ++ [104]). split; [reflexivity|lia].
  - unfold print_char. destruct (as_escaped_char z true); eexists _, _; (split; [reflexivity|lia]).
Qed.

Lemma sp_ws sp : sp = [32] \/ sp = nl4 -> Forall (fun c => isspace c = true) sp.
Proof. intros [->| ->]; repeat constructor. Qed.

(* after the left-hand side: white space, "...", white space, the right-hand side *)
Lemma after_lhs k last sp rest :
  good_k k last -> (sp = [32] \/ sp = nl4) ->
  let R := ell4 ++ sp ++ tok_k k last ++ rest in
  rest_ok0 R /\ starts_with ellipsis (skip_ws R) = true /\
  skip_ws (skipn 3 (skip_ws R)) = tok_k k last ++ rest /\
  (hd0 (tok_k k last ++ rest) =? 93) = false.
Proof.
  intros Hl Hsp R. destruct (tok_k_hd k last) as (c & r & E & Hc).
  assert (Hspc : isspace c = false) by (unfold isspace, in_range; lia).
  assert (Hws : skip_ws (sp ++ tok_k k last ++ rest) = tok_k k last ++ rest).
  { apply skip_ws_sep; [now apply sp_ws|]. rewrite E. cbn [app]. now rewrite hd0_cons. }
  subst R. unfold ell4. cbn [app skip_ws dropwhile isspace in_range Z.leb Z.eqb Z.compare Pos.compare
                             Pos.compare_cont Pos.eqb andb orb skipn].
  split; [|split; [|split]].
  - split; [right; reflexivity|]. cbn. unfold hd0, at_. cbn. lia.
  - reflexivity.
  - exact Hws.
  - rewrite E. cbn [app]. rewrite hd0_cons. apply Z.eqb_neq. lia.
Qed.

Lemma scan_tail k b d m last sp rest f before nb u l :
  run_ok k b d m last -> (sp = [32] \/ sp = nl4) -> rest_ok rest ->
  scan_useless before nb (mk k b) = Some (u, l) ->
  (u = true /\ (d = 1 \/ d = -1) /\ 2 <= m \/
   u = false /\ exists a, l = mk k a /\ d = b - a) ->
  scan_arg_val dec2f dec2d (S (S f)) (tail_text k b last sp ++ rest) before nb true
  = Ok ([VRep m 1; mk k d; mk k b], rest).
Proof.
  intros (Hsb & Hsl & Hlast & Hm & Hd0 & Hdr & Hw) Hsp Hr Hu Hctx.
  pose proof (small_good _ _ Hsb) as Hgb. pose proof (small_good _ _ Hsl) as Hgl.
  destruct (after_lhs k last sp rest Hgl Hsp) as (HR0 & Hell & Hs1 & H93).
  unfold tail_text. rewrite <- !app_assoc.
  remember (S f) as f1 eqn:Ef. cbn [scan_arg_val].
  destruct (tok_k_core dec2f dec2d k b Hgb _ HR0) as [_ Hc]. rewrite Hc, Hell. cbn [andb].
  unfold scan_ellipsis. rewrite Hs1, H93.
  destruct (tok_core_reads dec2f dec2d _ _ (tok_k_core dec2f dec2d k last Hgl) rest Hr) as [_ Hrd].
  subst f1. rewrite Hrd, Hu. cbn [andb].
  destruct Hctx as [(-> & Hd & Hm2)|(-> & a & -> & Hda)].
  - rewrite delta_x_mk, (dfa_unity k b last d m l); try assumption; try lia;
      try (now apply small_inr).
    replace (m =? -1) with false by lia. reflexivity.
  - rewrite delta_x_mk, (dfa_delta k a b last d m); try assumption; try lia;
      try (now apply small_inr).
    replace (m =? -1) with false by lia. reflexivity.
Qed.
End Tail.

Section TailChk.
Variables dec2f dec2d : list Z -> Z.

Lemma not_range_mult v t rest :
  tok_core dec2f dec2d v t -> rest_ok0 rest -> is_range_multiplier (t ++ rest) = false.
Proof.
  intros Hc Hr. destruct (is_range_multiplier (t ++ rest)) eqn:E; [exfalso|reflexivity].
  destruct (Hc rest Hr) as [Hs _]. specialize (Hs (fun _ _ _ _ => Null) false).
  destruct (t ++ rest) as [|c r] eqn:Esrc; [discriminate|].
  assert (Hdig : isdigit c = true).
  { cbn [is_range_multiplier] in E. apply andb_true_iff in E as [E _]. now apply andb_true_iff in E as [E _]. }
  unfold skip_core in Hs. rewrite (first_class_num c) in Hs by (apply isdigit_spec in Hdig; lia).
  rewrite E in Hs. discriminate.
Qed.

Definition ell_text (k : ikind) (last : Z) (sp rest : list Z) : list Z :=
  [46; 46; 46] ++ sp ++ tok_k k last ++ rest.

Lemma numeric_kind k z : numeric_range_type (av_type (mk k z)) = true.
Proof. now destruct k. Qed.

Lemma skip_tail k b d m last sp rest f llhs ib u la :
  run_ok k b d m last -> (sp = [32] \/ sp = nl4) -> rest_ok rest ->
  chk_llhs dec2f dec2d (skip_next dec2f dec2d (S f)) (S f) llhs (ell_text k last sp rest)
           (av_type (mk k b)) (Some (mk k b)) ib = Ok (u, la) ->
  (u = true /\ (d = 1 \/ d = -1) /\ 2 <= m \/
   u = false /\ exists a, la = Some (mk k a) /\ d = b - a) ->
  skip_next dec2f dec2d (S (S f)) (tail_text k b last sp ++ rest) llhs true ib = Ok (rest, 3, 45).
Proof.
  intros (Hsb & Hsl & Hlast & Hm & Hd0 & Hdr & Hw) Hsp Hr Hchk Hctx.
  pose proof (small_good _ _ Hsb) as Hgb. pose proof (small_good _ _ Hsl) as Hgl.
  destruct (after_lhs k last sp rest Hgl Hsp) as (HR0 & Hell & Hs1 & H93).
  assert (Hrm : is_range_multiplier (tok_k k b ++ ell4 ++ sp ++ tok_k k last ++ rest) = false)
    by (apply (not_range_mult (mk k b)); [now apply tok_k_core|assumption]).
  assert (Hws : skip_ws (ell4 ++ sp ++ tok_k k last ++ rest) = ell_text k last sp rest) by reflexivity.
  unfold tail_text. rewrite <- !app_assoc.
  remember (S f) as f1 eqn:Ef. cbn [skip_next].
  destruct (tok_k_core dec2f dec2d k b Hgb _ HR0) as [Hc Hcs]. rewrite Hc, Hell. cbn [andb].
  unfold skip_ellipsis. rewrite Hrm, Hws, Z.eqb_refl. fold (ell_text k last sp rest) in Hs1.
  rewrite Hws in Hs1. rewrite Hs1, H93, numeric_kind. cbn [negb andb].
  destruct (tok_core_reads dec2f dec2d _ _ (tok_k_core dec2f dec2d k last Hgl) rest Hr) as [Hrs Hrd].
  assert (Hsc1 : scan1 dec2f dec2d f1 (tok_k k last ++ rest) = Some (mk k last))
    by (unfold scan1; subst f1; now rewrite Hrd).
  assert (Hsc2 : scan1 dec2f dec2d f1 (tok_k k b ++ ell4 ++ sp ++ tok_k k last ++ rest) = Some (mk k b)).
  { unfold scan1. subst f1. cbn [scan_arg_val]. rewrite Hcs. reflexivity. }
  rewrite Hsc1, Hsc2. subst f1. rewrite Hrs.
  replace (av_type (mk k b) =? av_type (mk k last)) with true by (destruct k; reflexivity).
  cbn [negb andb]. rewrite Hchk. cbn [orb andb].
  destruct Hctx as [(-> & Hd & Hm2)|(-> & a & -> & Hda)].
  - rewrite delta_x_mk, (dfa_unity k b last d m (mk k b)); try assumption; try lia;
      try (now apply small_inr).
    replace (m =? -1) with false by lia. reflexivity.
  - rewrite delta_x_mk, (dfa_delta k a b last d m); try assumption; try lia;
      try (now apply small_inr).
    replace (m =? -1) with false by lia. reflexivity.
Qed.
End TailChk.

(* ---- what precedes a range tail --------------------------------------------------------- *)
Fixpoint lastns (u : list Z) (c0 : Z) : Z :=
  match u with [] => c0 | c :: r => lastns r (if isspace c then c0 else c) end.

Lemma find_ell_skip u E : forall c0,
  sdots u -> lastns u c0 <> 40 ->
  find_ellipsis (u ++ [46; 46; 46] ++ E) c0 = Some ([46; 46; 46] ++ E).
Proof.
  intros c0 Hu. revert c0. induction Hu as [|c u Hc Hu IH|c u Hc Hu IH]; intros c0 Hl.
  - cbn [app lastns] in *. cbn [find_ellipsis]. replace (c0 =? 40) with false by lia. reflexivity.
  - cbn [app find_ellipsis lastns] in *.
    assert (Hsw : forall t, starts_with ellipsis (c :: t) = false).
    { intros t. unfold starts_with, ellipsis. cbn [strip_prefix]. now replace (c =? 46) with false by lia. }
    rewrite Hsw. cbn [andb]. apply (IH _ Hl).
  - change ((46 :: c :: u) ++ [46; 46; 46] ++ E) with (46 :: (c :: u) ++ [46; 46; 46] ++ E).
    cbn [find_ellipsis].
    assert (Hsw : starts_with ellipsis (46 :: (c :: u) ++ [46; 46; 46] ++ E) = false).
    { unfold starts_with, ellipsis. cbn [strip_prefix app]. rewrite Z.eqb_refl. now replace (c =? 46) with false by lia. }
    rewrite Hsw. cbn [andb]. change (isspace 46) with false. cbv iota.
    apply IH. cbn [lastns] in Hl. exact Hl.
Qed.

Lemma lastns_app u v c0 : lastns (u ++ v) c0 = lastns v (lastns u c0).
Proof. revert c0. induction u as [|c u IH]; intros c0; cbn [app lastns]; [reflexivity|apply IH]. Qed.

(* the condition under which a tail after the original previous value p is
   read with step d: the unit step when p is no neighbour, b - a otherwise *)
Definition unit_step (d m : Z) : Prop := (d = 1 \/ d = -1) /\ 2 <= m.
Definition ctx_ok (p : option av) (k : ikind) (b d m : Z) : Prop :=
  match p with
  | None => unit_step d m
  | Some pv =>
      if types_match (av_type pv) (av_type (mk k b))
      then exists a, pv = mk k a /\ (a = b /\ unit_step d m \/ a <> b /\ d = b - a)
      else unit_step d m
  end.

Section Ctx.
Variables dec2f dec2d : list Z -> Z.

(* the comparison against a previous value whose token starts at l1 *)
Lemma chk_cmp_val p tp rest' k b f ib :
  tokof dec2f dec2d p tp -> rest_ok rest' ->
  chk_cmp dec2f dec2d (skip_next dec2f dec2d (S f)) (S f) (tp ++ rest') (av_type (mk k b)) (Some (mk k b)) ib =
  if types_match (av_type p) (av_type (mk k b))
  then match av_cmp_single p (mk k b) with Some c => Ok (c =? 0, Some p) | None => Unmod end
  else Ok (true, None).
Proof.
  intros (Hrd & _ & _) Hr. destruct (Hrd rest' Hr) as [Hs Hc].
  unfold chk_cmp. rewrite Hs. unfold scan1. rewrite Hc. reflexivity.
Qed.

Lemma ctx_result p k b d m (r : R (bool * option av)) :
  scalar p -> ctx_ok (Some p) k b d m ->
  r = (if types_match (av_type p) (av_type (mk k b))
       then match av_cmp_single p (mk k b) with Some c => Ok (c =? 0, Some p) | None => Unmod end
       else Ok (true, None)) ->
  exists u la, r = Ok (u, la) /\
    (u = true /\ (d = 1 \/ d = -1) /\ 2 <= m \/ u = false /\ exists a, la = Some (mk k a) /\ d = b - a).
Proof.
  intros Hs Hctx ->. unfold ctx_ok in Hctx.
  destruct (types_match (av_type p) (av_type (mk k b))) eqn:Et.
  - destruct Hctx as (a & -> & [[-> [Hd Hm]]|[Hne Hd]]).
    + rewrite cmp_mk, cmp3_0, Z.eqb_refl. eexists _, _. split; [reflexivity|]. left. auto.
    + rewrite cmp_mk, cmp3_0. replace (a =? b) with false by lia.
      eexists _, _. split; [reflexivity|]. right. split; [reflexivity|]. exists a. auto.
  - destruct Hctx as [Hd Hm]. eexists _, _. split; [reflexivity|]. left. auto.
Qed.
End Ctx.

(* ------------------------------------------------------------------------- *)
(* Part 3: item sequences                                                     *)
Definition nodot (t : list Z) : Prop := Forall (fun c => c <> 46) t.

Inductive item :=
| IVal (v : av) (t : list Z)
| IRep (n : Z) (v : av) (t : list Z)
| ITail (k : ikind) (b d m last : Z) (sp : list Z).

Definition item_text (it : item) : list Z :=
  match it with
  | IVal _ t => t
  | IRep n _ t => dec_nat n ++ 120 :: t
  | ITail k b _ _ last sp => tail_text k b last sp
  end.
Definition item_slots (it : item) : list av :=
  match it with
  | IVal v _ => [v]
  | IRep n v _ => [VRep n 0; v]
  | ITail k b d m _ _ => [VRep m 1; mk k d; mk k b]
  end.
Definition item_orig (it : item) : list av :=
  match it with
  | IVal v _ => [v]
  | IRep n v _ => repeat v (Z.to_nat n)
  | ITail k b d m _ _ => map (fun j => mk k (b + Z.of_nat j * d)) (seq 0 (Z.to_nat m))
  end.
Definition item_last (it : item) : av :=
  match it with
  | IVal v _ => v
  | IRep _ v _ => v
  | ITail k _ _ _ last _ => mk k last
  end.

Section Items.
Variables dec2f dec2d : list Z -> Z.

Definition item_ok (p : option av) (it : item) : Prop :=
  match it with
  | IVal v t => tokof dec2f dec2d v t /\ sdots t
  | IRep n v t => 1 <= n < 2 ^ 31 /\ tokof dec2f dec2d v t /\ sdots t
  | ITail k b d m last sp => run_ok k b d m last /\ (sp = [32] \/ sp = nl4) /\ ctx_ok p k b d m
  end.

Inductive iseq : option av -> list item -> list Z -> Prop :=
| IS_nil p : iseq p [] []
| IS_one p it : item_ok p it -> iseq p [it] (item_text it)
| IS_cons p it sep it' its T :
    item_ok p it -> sepw sep -> iseq (Some (item_last it)) (it' :: its) T ->
    iseq p (it :: it' :: its) (item_text it ++ sep ++ T).

Lemma item_first p it : item_ok p it -> exists c r, item_text it = c :: r /\ first_ok c.
Proof.
  destruct it as [v t|n v t|k b d m last sp]; cbn [item_ok item_text].
  - intros [Ht _]. apply Ht.
  - intros (Hn & Ht & _). destruct (dec_nat_hd n ltac:(lia)) as (d & tl & E & Hd). rewrite E.
    eexists _, _. split; [reflexivity|]. apply first_ok_num. lia.
  - intros ((Hsb & _) & _). unfold tail_text. destruct (tok_k_first dec2f dec2d k b (small_good _ _ Hsb)) as (c & r & E & Hc).
    rewrite E. eexists _, _. split; [reflexivity|exact Hc].
Qed.

Lemma item_scalar_last p it : item_ok p it -> scalar (item_last it).
Proof.
  destruct it as [v t|n v t|k b d m last sp]; cbn [item_ok item_last].
  - intros [Ht _]. apply Ht.
  - intros (_ & Ht & _). apply Ht.
  - intros _. now destruct k.
Qed.

Lemma iseq_first p it its T : iseq p (it :: its) T -> exists c r, T = c :: r /\ first_ok c.
Proof.
  intros H. inversion H as [|? ? Hok|? ? ? ? ? ? Hok _ _]; subst.
  - exact (item_first _ _ Hok).
  - destruct (item_first _ _ Hok) as (c & r & E & Hc). rewrite E. eexists _, _. split; [reflexivity|exact Hc].
Qed.

(* ---- the scanner's view of what precedes: the slots written so far ---------------------- *)
Definition J (acc : list av) : Prop :=
  match rev acc with
  | [] => True
  | x :: r => scalar x /\ match r with y :: _ => forall n h, y = VRep n h -> h = 0 | [] => True end
  end.

Lemma back_app acc s j : (1 <= j <= length s)%nat -> back (acc ++ s) j = nth_error (rev s) (Nat.pred j).
Proof.
  intros Hj. unfold back. rewrite rev_app_distr. apply nth_error_app1. rewrite rev_length. lia.
Qed.
Lemma back_app2 acc s j : (length s < j)%nat -> back (acc ++ s) j = back acc (j - length s).
Proof.
  intros Hj. unfold back. rewrite rev_app_distr, nth_error_app2 by (rewrite rev_length; lia).
  rewrite rev_length. f_equal. lia.
Qed.

(* after an item's slots the scanner's left neighbour is the item's last value *)
Lemma scan_llhs_item p it acc :
  item_ok p it -> J acc ->
  J (acc ++ item_slots it) /\
  scan_llhs (acc ++ item_slots it) (Z.of_nat (length (acc ++ item_slots it))) = Some (item_last it).
Proof.
  intros Hok HJ. pose proof (item_scalar_last _ _ Hok) as Hsl.
  destruct it as [v t|n v t|k b d m last sp]; cbn [item_slots item_last] in *.
  - split.
    + unfold J in *. rewrite rev_app_distr. cbn [rev app]. split; [exact Hsl|].
      destruct (rev acc) as [|y r]; [exact I|]. intros n h ->. destruct HJ as [Hy _]. contradiction.
    + unfold scan_llhs. rewrite (back_app acc [v] 1) by (cbn; lia). cbn [rev app nth_error Nat.pred].
      destruct (2 <? Z.of_nat (length (acc ++ [v]))); [|reflexivity].
      rewrite (back_app2 acc [v] 3) by (cbn; lia). cbn [length Nat.sub].
      unfold back. cbn [Nat.pred]. unfold J in HJ.
      destruct (rev acc) as [|x [|y r]]; try reflexivity. cbn [nth_error].
      destruct y; try reflexivity. destruct HJ as [_ Hy]. rewrite (Hy _ _ eq_refl). reflexivity.
  - split.
    + unfold J. rewrite rev_app_distr. cbn [rev app]. split; [exact Hsl|]. intros n0 h E. now inversion E.
    + unfold scan_llhs. rewrite (back_app acc [VRep n 0; v] 1) by (cbn; lia). cbn [rev app nth_error Nat.pred].
      destruct (2 <? Z.of_nat (length (acc ++ [VRep n 0; v]))); [|reflexivity].
      rewrite (back_app2 acc [VRep n 0; v] 3) by (cbn; lia). cbn [length Nat.sub].
      unfold back. cbn [Nat.pred]. unfold J in HJ.
      destruct (rev acc) as [|x r]; [reflexivity|]. cbn [nth_error]. destruct HJ as [Hx _].
      destruct x; try reflexivity; contradiction.
  - destruct Hok as ((Hsb & Hsla & Hlast & Hm & Hd0 & Hdr) & _ & _). split.
    + unfold J. rewrite rev_app_distr. cbn [rev app]. split; [now destruct k|]. intros n0 h E. destruct k; discriminate.
    + unfold scan_llhs. rewrite app_length. cbn [length].
      match goal with |- context [2 <? ?x] => assert (E23 : (2 <? x) = true) by (apply Z.ltb_lt; lia); rewrite E23 end.
      rewrite (back_app acc _ 3), (back_app acc _ 2), (back_app acc _ 1) by (cbn; lia).
      cbn [rev app nth_error Nat.pred]. replace (1 =? 0) with false by reflexivity. cbn [negb].
      rewrite range_arg_x_mk, range_arg_mk by lia. f_equal. f_equal. rewrite <- Hlast.
      replace (b + (m - 1) * d) with last by lia. apply wr_id. now apply small_inr.
Qed.

(* the usefulness test of the scanner agrees with ctx_ok *)
Lemma scan_useless_ctx p acc k b d m :
  ctx_ok p k b d m ->
  (p = None -> acc = []) ->
  (forall pv, p = Some pv -> scalar pv /\ acc <> [] /\ scan_llhs acc (Z.of_nat (length acc)) = Some pv) ->
  exists u l, scan_useless acc (Z.of_nat (length acc)) (mk k b) = Some (u, l) /\
    (u = true /\ (d = 1 \/ d = -1) /\ 2 <= m \/ u = false /\ exists a, l = mk k a /\ d = b - a).
Proof.
  intros Hctx Hn Hs. unfold scan_useless. destruct p as [pv|].
  - destruct (Hs pv eq_refl) as (Hsc & Hne & Hl).
    assert (E1 : (Z.of_nat (length acc) <? 1) = false)
      by (apply Z.ltb_ge; destruct acc; [congruence|cbn [length]; lia]).
    rewrite E1.
    rewrite Hl. unfold ctx_ok in Hctx.
    destruct (types_match (av_type pv) (av_type (mk k b))) eqn:Et; cbn [negb].
    + destruct Hctx as (a & -> & [[-> [Hd Hm]]|[Hne' Hd]]).
      * rewrite cmp_mk, cmp3_0, Z.eqb_refl. eexists _, _. split; [reflexivity|]. left. auto.
      * rewrite cmp_mk, cmp3_0. replace (a =? b) with false by lia.
        eexists _, _. split; [reflexivity|]. right. split; [reflexivity|]. exists a. auto.
    + destruct Hctx as [Hd Hm]. eexists _, _. split; [reflexivity|]. left. auto.
  - rewrite (Hn eq_refl). cbn [length Z.of_nat Z.ltb Z.compare]. destruct Hctx as [Hd Hm].
    eexists _, _. split; [reflexivity|]. left. auto.
Qed.
End Items.

(* ---- characters of integer tokens -------------------------------------------------------- *)
Lemma print_d_chars v : Forall (fun c => c = 45 \/ 48 <= c <= 57) (print_d v).
Proof.
  destruct (print_d_shape v) as (sg & c & ds & E & Hsg & Hc & Hd). rewrite E.
  apply Forall_app. split.
  - destruct Hsg as [->| ->]; repeat constructor.
  - constructor; [lia|]. eapply Forall_impl; [|exact Hd]. intros a Ha. apply isdigit_spec in Ha. lia.
Qed.

Lemma esc_chr_ne z e : as_escaped_char z true = Some e -> e <> 46 /\ e <> 40.
Proof.
  unfold as_escaped_char.
  repeat match goal with
         | |- context [if ?a =? ?b then _ else _] =>
             destruct (a =? b); [intros H; inversion H; lia|]
         end.
  cbn [andb negb]. destruct (z =? 39); intros H; inversion H; lia.
Qed.

Definition tokc (c : Z) : Prop := c <> 46 /\ c <> 40 /\ isspace c = false.

Lemma tok_k_chars k z : small_k k z ->
  Forall (fun c => c <> 46) (tok_k k z) /\
  exists i c, tok_k k z = i ++ [c] /\ c <> 40 /\ isspace c = false.
Proof.
  intros Hs. destruct k; cbn [tok_k small_k] in *.
  - pose proof (print_d_chars z) as Hc. split; [eapply Forall_impl; [|exact Hc]; cbn; lia|].
    destruct (print_d_hd z) as (c0 & r0 & E & _).
    destruct (exists_last (l := print_d z)) as (i & c & El); [rewrite E; discriminate|].
    exists i, c. split; [exact El|]. rewrite El in Hc. apply Forall_app in Hc as [_ Hc]. inversion Hc; subst.
    unfold isspace, in_range. lia.
  - pose proof (print_d_chars z) as Hc. split.
    + apply Forall_app. split; [eapply Forall_impl; [|exact Hc]; cbn; lia|repeat constructor; lia].
    + exists (print_d z), 104. split; [reflexivity|]. split; [lia|reflexivity].
  - destruct Hs as [_ Hz]. unfold print_char. destruct (as_escaped_char z true) as [e|] eqn:E.
    + destruct (esc_chr_ne _ _ E). split; [repeat (constructor; [lia|]); constructor|].
      exists [39; 92; e], 39. split; [reflexivity|]. split; [lia|reflexivity].
    + split; [repeat (constructor; [lia|]); constructor|]. exists [39; z], 39. split; [reflexivity|]. split; [lia|reflexivity].
Qed.

Lemma lastns_end i c sp c0 :
  isspace c = false -> Forall (fun x => isspace x = true) sp -> lastns (i ++ [c] ++ sp) c0 = c.
Proof.
  intros Hc Hsp. rewrite !lastns_app. cbn [lastns]. rewrite Hc.
  induction Hsp as [|x sp Hx Hsp IH]; cbn [lastns]; [reflexivity|]. now rewrite Hx.
Qed.

Lemma sepw_nodot sep : Forall (fun c => isspace c = true) sep -> nodot sep.
Proof. intros H. eapply Forall_impl; [|exact H]. intros a Ha. apply isspace_spec in Ha. lia. Qed.

Section Loops.
Variables dec2f dec2d : list Z -> Z.
Notation item_ok := (item_ok dec2f dec2d).
Notation iseq := (iseq dec2f dec2d).

Lemma not_range_mult_reads v t rest :
  tokof dec2f dec2d v t -> rest_ok rest -> is_range_multiplier (t ++ rest) = false.
Proof.
  intros (Hrd & _ & Hsc) Hr. destruct (is_range_multiplier (t ++ rest)) eqn:E; [exfalso|reflexivity].
  destruct (Hrd rest Hr) as [Hs _]. specialize (Hs 0%nat None false false).
  destruct (t ++ rest) as [|c r] eqn:Esrc; [discriminate|].
  assert (Hdig : isdigit c = true).
  { cbn [is_range_multiplier] in E. apply andb_true_iff in E as [E _]. now apply andb_true_iff in E as [E _]. }
  cbn [skip_next] in Hs. unfold skip_core in Hs.
  rewrite (first_class_num c) in Hs by (apply isdigit_spec in Hdig; lia).
  rewrite E in Hs. cbn [skip_next] in Hs. discriminate.
Qed.

(* the token of a scalar value does not start with a bracket *)
Lemma tok_not_lb v t rest :
  tokof dec2f dec2d v t -> rest_ok rest -> (hd0 (t ++ rest) =? 91) = false.
Proof.
  intros (Hrd & _ & Hsc) Hr. apply Z.eqb_neq. intros Hh.
  destruct (Hrd rest Hr) as [Hs _]. specialize (Hs 0%nat None false false).
  destruct (t ++ rest) as [|c r] eqn:Esrc; [discriminate|]. rewrite hd0_cons in Hh. subst c.
  cbn [skip_next] in Hs. unfold skip_core in Hs. change (first_class 91) with FC_lb in Hs. cbv iota in Hs.
  match type of Hs with context [skip_array_loop ?a ?b ?c ?d ?e ?f] =>
    destruct (skip_array_loop a b c d e f) as [[r' k]| | |]; try discriminate end.
  destruct (hd0 r' =? 93); try discriminate. cbn [andb] in Hs. inversion Hs as [[E1 E2 E3]].
  destruct v; cbn in E3; try discriminate. exact Hsc.
Qed.

Lemma rep_mult n t rest : 1 <= n ->
  is_range_multiplier (dec_nat n ++ 120 :: t ++ rest) = true /\
  after_x (dec_nat n ++ 120 :: t ++ rest) = t ++ rest /\ nodot (dec_nat n ++ [120]).
Proof.
  intros Hn. destruct (dec_nat_hd n ltac:(lia)) as (d & tl & E & Hd).
  pose proof (dec_nat_digits n ltac:(lia)) as Hds. rewrite E in *.
  assert (Htl : Forall (fun c => isdigit c = true) tl) by now inversion Hds.
  split; [|split].
  - cbn [app is_range_multiplier]. rewrite dropwhile_app by (try assumption; reflexivity). rewrite hd0_cons.
    replace (isdigit (48 + d)) with true by (symmetry; apply isdigit_spec; lia).
    now replace (48 + d =? 48) with false by lia.
  - unfold after_x. change ((48 + d :: tl) ++ 120 :: t ++ rest) with (((48 + d) :: tl) ++ 120 :: t ++ rest).
    rewrite dropwhile_notx by assumption. reflexivity.
  - apply Forall_app. split; [|repeat constructor; lia].
    eapply Forall_impl; [|exact Hds]. intros a Ha. apply isdigit_spec in Ha. lia.
Qed.

Definition recentrel (p : option av) (recent : option (list Z)) (T0 : list Z) : Prop :=
  match p with
  | None => recent = None
  | Some pv => exists pp pit sepp, item_ok pp pit /\ item_last pit = pv /\ sepw sepp /\
                                  recent = Some (item_text pit ++ sepp ++ T0)
  end.

Lemma chk_recent k b d m last sp rest p recent f ib :
  run_ok k b d m last -> (sp = [32] \/ sp = nl4) -> rest_ok rest ->
  recentrel p recent (tail_text k b last sp ++ rest) -> ctx_ok p k b d m ->
  exists u la,
    chk_llhs dec2f dec2d (skip_next dec2f dec2d (S f)) (S f) recent (ell_text k last sp rest)
             (av_type (mk k b)) (Some (mk k b)) ib = Ok (u, la) /\
    (u = true /\ (d = 1 \/ d = -1) /\ 2 <= m \/ u = false /\ exists a, la = Some (mk k a) /\ d = b - a).
Proof.
  intros Hrun Hsp Hr Hrec Hctx. destruct Hrun as (Hsb & Hsl & Hrest).
  destruct p as [pv|]; cbn [recentrel] in Hrec.
  2:{ subst recent. cbn [chk_llhs]. eexists _, _. split; [reflexivity|]. left. destruct Hctx. auto. }
  destruct Hrec as (pp & pit & sepp & Hpok & Hplast & Hsepp & ->).
  set (X := sp ++ tok_k k last ++ rest).
  assert (ET0 : tail_text k b last sp ++ rest = tok_k k b ++ [32] ++ [46; 46; 46] ++ X).
  { unfold tail_text, ell4, X. rewrite <- !app_assoc. reflexivity. }
  assert (Eell : ell_text k last sp rest = [46; 46; 46] ++ X) by reflexivity.
  destruct (tok_k_chars k b Hsb) as (Hnd & ib' & cb & Etb & Hcb40 & Hcbs).
  destruct (tok_k_first dec2f dec2d k b (small_good _ _ Hsb)) as (c1 & r1 & E1 & Hc1).
  assert (Hro : rest_ok (sepp ++ tail_text k b last sp ++ rest)).
  { rewrite ET0, E1. cbn [app]. now apply rest_ok_sep. }
  assert (Hspc : Forall (fun c => isspace c = true) sepp) by apply Hsepp.
  assert (Hndi : Forall (fun c => c <> 46) ib') by (rewrite Etb in Hnd; now apply Forall_app in Hnd as [Hnd _]).
  assert (Hndc : Forall (fun c => c <> 46) [cb]) by (rewrite Etb in Hnd; now apply Forall_app in Hnd as [_ Hnd]).
  assert (Hnds : Forall (fun c => c <> 46) sepp) by now apply sepw_nodot.
  assert (Hnd32 : Forall (fun c => c <> 46) [32]) by (repeat constructor; lia).
  (* the value the checker compares with *)
  assert (Hgoal : forall tp l1,
            tokof dec2f dec2d pv tp -> l1 = tp ++ sepp ++ tail_text k b last sp ++ rest ->
            chk_l1 (item_text pit ++ sepp ++ tail_text k b last sp ++ rest) (ell_text k last sp rest) = Some l1 ->
            exists u la,
              chk_llhs dec2f dec2d (skip_next dec2f dec2d (S f)) (S f)
                (Some (item_text pit ++ sepp ++ tail_text k b last sp ++ rest))
                (ell_text k last sp rest) (av_type (mk k b)) (Some (mk k b)) ib = Ok (u, la) /\
              (u = true /\ (d = 1 \/ d = -1) /\ 2 <= m \/ u = false /\ exists a, la = Some (mk k a) /\ d = b - a)).
  { intros tp l1 Htp -> Hl1. cbn [chk_llhs]. rewrite Hl1.
    eapply (ctx_result pv k b d m); [apply Htp|exact Hctx|].
    now apply chk_cmp_val. }
  destruct pit as [v t|n v t|k' b' d' m' last' sp']; cbn [item_ok item_text item_last] in *.
  - (* a value *)
    destruct Hpok as [Htk Hnt]. subst v.
    apply (Hgoal t _ Htk eq_refl). unfold chk_l1.
    rewrite (not_range_mult_reads pv t _ Htk Hro), (tok_not_lb pv t _ Htk Hro).
    replace (t ++ sepp ++ tail_text k b last sp ++ rest)
      with ((t ++ sepp ++ ib' ++ [cb] ++ [32]) ++ [46; 46; 46] ++ X)
      by (rewrite ET0, Etb, <- !app_assoc; reflexivity).
    rewrite find_ell_skip.
    + rewrite Eell, Nat.ltb_irrefl.
      replace ((t ++ sepp ++ ib' ++ [cb] ++ [32]) ++ [46; 46; 46] ++ X)
        with (t ++ sepp ++ tail_text k b last sp ++ rest)
        by (rewrite ET0, Etb, <- !app_assoc; reflexivity).
      reflexivity.
    + apply sdots_app; [exact Hnt|]. apply nodot_sdots. repeat (apply Forall_app; split); assumption.
    + rewrite !app_assoc. rewrite <- (app_assoc _ [cb] [32]). rewrite lastns_end; [assumption|assumption|repeat constructor].
  - (* a repetition *)
    destruct Hpok as (Hn & Htk & Hnt). subst v.
    destruct (rep_mult n t (sepp ++ tail_text k b last sp ++ rest) ltac:(lia)) as (Hm1 & Hax & Hnd1).
    apply Forall_app in Hnd1 as [Hn1a Hn1b].
    apply (Hgoal t _ Htk eq_refl). unfold chk_l1.
    replace ((dec_nat n ++ 120 :: t) ++ sepp ++ tail_text k b last sp ++ rest)
      with (dec_nat n ++ 120 :: t ++ sepp ++ tail_text k b last sp ++ rest)
      by (rewrite <- app_assoc; reflexivity).
    rewrite Hm1, Hax, (tok_not_lb pv t _ Htk Hro).
    replace (dec_nat n ++ 120 :: t ++ sepp ++ tail_text k b last sp ++ rest)
      with (((dec_nat n ++ [120]) ++ t ++ sepp ++ ib' ++ [cb] ++ [32]) ++ [46; 46; 46] ++ X)
      by (rewrite ET0, Etb, <- !app_assoc; reflexivity).
    rewrite find_ell_skip.
    + rewrite Eell, Nat.ltb_irrefl. reflexivity.
    + apply sdots_app; [apply nodot_sdots; apply Forall_app; split; assumption|].
      apply sdots_app; [exact Hnt|]. apply nodot_sdots. repeat (apply Forall_app; split); assumption.
    + rewrite !app_assoc. rewrite <- (app_assoc _ [cb] [32]). rewrite lastns_end; [assumption|assumption|repeat constructor].
  - (* a range tail: the neighbour is its last value *)
    destruct Hpok as ((Hsb' & Hsl' & _) & Hsp' & _). subst pv.
    destruct (tok_k_chars k' b' Hsb') as (Hnd' & i2 & c2 & Et2 & Hc240 & Hc2s).
    assert (Htl : tokof dec2f dec2d (mk k' last') (tok_k k' last')) by (apply tok_k_tokof; now apply small_good).
    apply (Hgoal (tok_k k' last') _ Htl eq_refl). unfold chk_l1.
    assert (Hnm : is_range_multiplier (tail_text k' b' last' sp' ++ sepp ++ tail_text k b last sp ++ rest) = false).
    { unfold tail_text at 1. unfold ell4. rewrite <- app_assoc.
      apply (not_range_mult dec2f dec2d (mk k' b') (tok_k k' b')); [apply tok_k_core; now apply small_good|].
      split; [right; reflexivity|cbn; lia]. }
    assert (Hnb : (hd0 (tail_text k' b' last' sp' ++ sepp ++ tail_text k b last sp ++ rest) =? 91) = false).
    { unfold tail_text at 1. destruct (tok_k_hd k' b') as (c0 & r0 & E0 & Hc0). rewrite E0. cbn [app]. rewrite hd0_cons. lia. }
    rewrite Hnm, Hnb. unfold tail_text at 1, ell4.
    replace ((tok_k k' b' ++ [32; 46; 46; 46] ++ sp' ++ tok_k k' last') ++ sepp ++ tail_text k b last sp ++ rest)
      with ((i2 ++ [c2] ++ [32]) ++ [46; 46; 46] ++ (sp' ++ tok_k k' last' ++ sepp ++ tail_text k b last sp ++ rest))
      by (rewrite Et2, <- !app_assoc; reflexivity).
    rewrite find_ell_skip.
    + assert (Hlt : Nat.ltb (length (ell_text k last sp rest))
                      (length ([46; 46; 46] ++ sp' ++ tok_k k' last' ++ sepp ++ tail_text k b last sp ++ rest)) = true).
      { apply Nat.ltb_lt. rewrite ET0, Eell. rewrite !app_length. cbn [length].
        destruct Hsp' as [->| ->]; cbn [length]; lia. }
      rewrite Hlt. cbn [app skipn]. f_equal.
      destruct (tok_k_first dec2f dec2d k' last' (small_good _ _ Hsl')) as (c3 & r3 & E3 & Hc3).
      apply skip_ws_sep; [now apply sp_ws|]. rewrite E3. cbn [app]. rewrite hd0_cons. apply Hc3.
    + apply nodot_sdots. rewrite Et2 in Hnd'. apply Forall_app. split; [now apply Forall_app in Hnd' as [Hnd' _]|].
      apply Forall_app. split; [now apply Forall_app in Hnd' as [_ Hnd']|repeat constructor; lia].
    + rewrite lastns_end; [assumption|assumption|repeat constructor].
Qed.

Definition prevrel (p : option av) (acc : list av) : Prop :=
  (p = None -> acc = []) /\
  (forall pv, p = Some pv -> scalar pv /\ acc <> [] /\ scan_llhs acc (Z.of_nat (length acc)) = Some pv).

Lemma tail_len k b last sp : (2 <= length (tail_text k b last sp))%nat.
Proof. unfold tail_text, ell4. rewrite !app_length. cbn [length]. lia. Qed.

Lemma item_skip p it rest recent fuel :
  item_ok p it -> rest_ok rest -> recentrel p recent (item_text it ++ rest) ->
  (length (item_text it) <= fuel)%nat ->
  exists ty, skip_next dec2f dec2d fuel (item_text it ++ rest) recent true false
             = Ok (rest, Z.of_nat (length (item_slots it)), ty).
Proof.
  intros Hok Hr Hrec Hf. destruct it as [v t|n v t|k b d m last sp]; cbn [item_ok item_text item_slots] in *.
  - destruct Hok as [(Hrd & (c & r & -> & _) & _) _]. destruct fuel; [cbn in Hf; lia|].
    exists (av_type v). apply (Hrd rest Hr).
  - destruct Hok as (Hn & Htk & _).
    destruct (elof_rep dec2f dec2d n v t Hn Htk) as (He & _ & _). apply (proj1 (He rest Hr)). exact Hf.
  - destruct Hok as (Hrun & Hsp & Hctx). pose proof (tail_len k b last sp).
    destruct fuel as [|[|f]]; try lia. exists 45.
    destruct (chk_recent k b d m last sp rest p recent f false Hrun Hsp Hr Hrec Hctx) as (u & la & Hchk & Hdis).
    exact (skip_tail dec2f dec2d k b d m last sp rest f recent false u la Hrun Hsp Hr Hchk Hdis).
Qed.

Lemma item_scan p it rest acc fuel :
  item_ok p it -> rest_ok rest -> prevrel p acc ->
  (length (item_text it) <= fuel)%nat ->
  scan_arg_val dec2f dec2d fuel (item_text it ++ rest) acc (Z.of_nat (length acc)) true
  = Ok (item_slots it, rest).
Proof.
  intros Hok Hr [Hp1 Hp2] Hf. destruct it as [v t|n v t|k b d m last sp]; cbn [item_ok item_text item_slots] in *.
  - destruct Hok as [(Hrd & (c & r & -> & _) & _) _]. destruct fuel; [cbn in Hf; lia|]. apply (Hrd rest Hr).
  - destruct Hok as (Hn & Htk & _).
    destruct (elof_rep dec2f dec2d n v t Hn Htk) as (He & _ & _). apply (proj2 (He rest Hr)). exact Hf.
  - destruct Hok as (Hrun & Hsp & Hctx). pose proof (tail_len k b last sp).
    destruct fuel as [|[|f]]; try lia.
    destruct (scan_useless_ctx p acc k b d m Hctx Hp1 Hp2) as (u & l & Hu & Hdis).
    exact (scan_tail dec2f dec2d k b d m last sp rest f acc _ u l Hrun Hsp Hr Hu Hdis).
Qed.

Definition islots (its : list item) : list av := concat (map item_slots its).

Lemma item_slots_offset p it : item_ok p it -> slots_offset (item_slots it) = Z.of_nat (length (item_slots it)).
Proof.
  destruct it as [v t|n v t|k b d m last sp]; cbn [item_ok item_slots].
  - intros [(_ & _ & Hs) _]. destruct v; cbn in Hs; try contradiction; reflexivity.
  - intros (_ & (_ & _ & Hs) & _). destruct v; cbn in Hs; try contradiction; reflexivity.
  - intros _. destruct k; reflexivity.
Qed.

Lemma scan_loop_iseq its T p : iseq p its T ->
  forall fuel i n acc, i = Z.of_nat (length acc) -> J acc -> prevrel p acc ->
  n = i + Z.of_nat (length (islots its)) -> (length its < fuel)%nat ->
  scan_loop dec2f dec2d fuel T i n acc = Ok (acc ++ islots its, []).
Proof.
  induction 1 as [p|p it Hok|p it sep it' its T Hok Hsep HL IH]; intros fuel i n acc Hi HJ Hprev Hn Hf.
  - destruct fuel; [lia|]. cbn [scan_loop]. cbn in Hn. replace (n <=? i) with true by lia.
    unfold islots. cbn. now rewrite app_nil_r.
  - destruct fuel; [lia|]. unfold islots in *. cbn [map concat] in *. rewrite app_nil_r in *.
    destruct (item_first _ _ _ _ Hok) as (c & r & E & _).
    assert (Hpos : (1 <= length (item_slots it))%nat) by (destruct it; cbn; lia).
    cbn [scan_loop]. replace (n <=? i) with false by lia.
    pose proof (item_scan p it [] acc (length (item_text it)) Hok rest_ok_nil Hprev ltac:(lia)) as Hs.
    rewrite app_nil_r in Hs. subst i. rewrite Hs.
    rewrite (item_slots_offset _ _ Hok).
    destruct fuel; [cbn in Hf; lia|]. cbn [scan_loop length skip_ws_comments skip_ws dropwhile].
    cbn [hd0 at_ nth Z.eqb]. replace (n <=? Z.of_nat (length acc) + Z.of_nat (length (item_slots it))) with true by lia.
    reflexivity.
  - destruct fuel; [lia|].
    destruct (iseq_first _ _ _ _ _ _ HL) as (c' & r' & -> & Hc').
    pose proof (rest_ok_sep sep c' r' Hsep Hc') as Hro.
    assert (Hpos : (1 <= length (item_slots it))%nat) by (destruct it; cbn; lia).
    unfold islots in *. cbn [map concat] in Hn |- *. rewrite app_length in Hn.
    cbn [scan_loop]. replace (n <=? i) with false by lia.
    pose proof (item_scan p it _ acc (length (item_text it ++ sep ++ c' :: r')) Hok Hro Hprev
                  ltac:(rewrite app_length; lia)) as Hs.
    subst i. rewrite Hs. rewrite (item_slots_offset _ _ Hok).
    rewrite skip_ws_comments_tok by (try apply Hsep; assumption).
    destruct (scan_llhs_item dec2f dec2d p it acc Hok HJ) as [HJ' Hll].
    rewrite (IH fuel _ n (acc ++ item_slots it)).
    + now rewrite <- app_assoc.
    + rewrite app_length. lia.
    + exact HJ'.
    + split; [discriminate|]. intros pv Epv. inversion Epv; subst pv.
      split; [exact (item_scalar_last _ _ _ _ Hok)|]. split; [|exact Hll].
      destruct (item_slots it); [cbn in Hpos; lia|]. intros E0. apply app_eq_nil in E0 as [_ E0]. discriminate.
    + cbn [map concat]. lia.
    + cbn [length] in *. lia.
Qed.

Lemma count_loop_iseq its T p : iseq p its T ->
  forall fuel recent num, recentrel p recent T -> (length T < fuel)%nat ->
  count_loop dec2f dec2d fuel T recent num = Ok (true, num + Z.of_nat (length (islots its))).
Proof.
  induction 1 as [p|p it Hok|p it sep it' its T Hok Hsep HL IH]; intros fuel recent num Hrec Hf.
  - destruct fuel; [cbn in Hf; lia|]. cbn. f_equal. f_equal. lia.
  - destruct fuel; [lia|]. destruct (item_first _ _ _ _ Hok) as (c & r & E & Hc).
    destruct Hc as (H0 & H47 & H37 & Hsp & H46 & H40).
    assert (Hh : hd0 (item_text it) = c) by (rewrite E; reflexivity).
    cbn [count_loop]. rewrite !Hh. replace ((c =? 0) || (c =? 47)) with false by lia.
    rewrite <- (app_nil_r (item_text it)) in Hrec.
    destruct (item_skip p it [] recent (length (item_text it)) Hok rest_ok_nil Hrec ltac:(lia)) as [ty Es].
    rewrite app_nil_r in Es. rewrite Es.
    cbn [skip_ws dropwhile]. cbn [hd0 at_ nth Z.eqb negb andb].
    destruct fuel; [rewrite E in Hf; cbn in Hf; lia|]. cbn [count_loop hd0 at_ nth Z.eqb orb].
    f_equal. f_equal. unfold islots. cbn [map concat]. now rewrite app_nil_r.
  - destruct fuel; [lia|]. destruct (item_first _ _ _ _ Hok) as (c & r & E & Hc).
    destruct (iseq_first _ _ _ _ _ _ HL) as (c' & r' & -> & Hc').
    pose proof (rest_ok_sep sep c' r' Hsep Hc') as Hro.
    destruct Hc as (H0 & H47 & H37 & Hsp & H46 & H40).
    assert (Hh : forall X, hd0 (item_text it ++ X) = c) by (intros; rewrite E; reflexivity).
    cbn [count_loop]. rewrite !Hh. replace ((c =? 0) || (c =? 47)) with false by lia.
    destruct (item_skip p it _ recent (length (item_text it ++ sep ++ c' :: r')) Hok Hro Hrec
                ltac:(rewrite app_length; lia)) as [ty Es].
    rewrite Es.
    destruct Hc' as (H0' & H47' & H37' & Hsp' & H46' & H40').
    rewrite skip_ws_sep by (try apply Hsep; now rewrite hd0_cons).
    rewrite hd0_cons. replace (negb (c' =? 0) && negb (isspace c')) with true
      by (rewrite Hsp'; symmetry; lia).
    rewrite skip_comments_ws_no by assumption.
    rewrite (IH fuel).
    + f_equal. f_equal. unfold islots. cbn [map concat]. rewrite !app_length. lia.
    + cbn [recentrel]. exists p, it, sep. repeat split; try assumption; apply Hsep.
    + rewrite !app_length in Hf. rewrite E in Hf. cbn [length] in *. lia.
Qed.

(* both recognisers read an item sequence back *)
Theorem iseq_reads its T :
  iseq None its T ->
  count_printed_arg_vals dec2f dec2d T = Ok (true, Z.of_nat (length (islots its))) /\
  scan_arg_vals dec2f dec2d T (Z.of_nat (length (islots its))) = Ok (islots its, []).
Proof.
  intros HL. split.
  - unfold count_printed_arg_vals.
    assert (E : skip_comments_ws (S (length (skip_ws T))) (skip_ws T) = T).
    { destruct its as [|it its].
      - inversion HL; subst. reflexivity.
      - destruct (iseq_first _ _ _ _ _ _ HL) as (c & r & -> & Hc).
        destruct Hc as (H0 & H47 & H37 & Hsp & H46 & H40).
        rewrite skip_ws_nonspace by now rewrite hd0_cons. now apply skip_comments_ws_no. }
    rewrite E. rewrite (count_loop_iseq _ _ _ HL); [reflexivity|reflexivity|lia].
  - unfold scan_arg_vals.
    rewrite (scan_loop_iseq _ _ _ HL _ 0 _ []); try reflexivity; try exact I.
    + split; [reflexivity|discriminate].
    + assert (Hle : (length its <= length (islots its))%nat).
      { clear HL. unfold islots. induction its as [|it its IH]; [cbn; lia|].
        cbn [map concat length]. rewrite app_length. destruct it; cbn [item_slots length]; lia. }
      rewrite Nat2Z.id. lia.
Qed.
End Loops.

(* ------------------------------------------------------------------------- *)
(* expansion of the scanned slots                                             *)
Lemma expand_f_mono f : forall l r f', expand_f f l = Some r -> (f <= f')%nat -> expand_f f' l = Some r.
Proof.
  induction f as [|f IH]; intros l r f' H Hle; [discriminate|].
  destruct f' as [|f']; [lia|]. cbn [expand_f] in *.
  destruct l as [|v l]; [assumption|].
  destruct v as [| | | | | | | | | | | | | | |? ?|num has_delta|?];
    try (destruct (expand_f f l) as [tt|] eqn:E; [|discriminate]; rewrite (IH _ _ f' E) by lia; assumption).
  - (* VRep *)
    destruct (_ <=? 0); [discriminate|]. destruct (_ =? 0).
    + destruct (expand_f f (skipn (Z.to_nat (incsize l)) l)) as [t|] eqn:E; [|discriminate].
      rewrite (IH _ _ f' E) by lia. assumption.
    + destruct l as [|dl [|st l']]; try discriminate.
      destruct (map_opt _ _); [|discriminate].
      destruct (expand_f f l') as [t|] eqn:E; [|discriminate].
      rewrite (IH _ _ f' E) by lia. assumption.
Qed.

Lemma expand_f_val f v l : scalar v ->
  expand_f (S f) (v :: l) = match expand_f f l with Some t => Some (v :: t) | None => None end.
Proof. destruct v; cbn [scalar]; try tauto; reflexivity. Qed.

Lemma expand_f_rep0 f n v l : scalar v -> 0 < n ->
  expand_f (S f) (VRep n 0 :: v :: l) =
  match expand_f f l with Some t => Some (repeat v (Z.to_nat n) ++ t) | None => None end.
Proof.
  intros Hs Hn. cbn [expand_f]. replace (n <=? 0) with false by lia. cbn [Z.eqb].
  rewrite (incsize_scalar v l Hs). change (Z.to_nat 1) with 1%nat. cbn [skipn firstn].
  now rewrite concat_repeat_single.
Qed.

Lemma expand_f_rep1 f m dl st l : 0 < m ->
  expand_f (S f) (VRep m 1 :: dl :: st :: l) =
  match map_opt (fun j => range_arg dl st (Z.of_nat j)) (seq 0 (Z.to_nat m)), expand_f f l with
  | Some vs, Some t => Some (vs ++ t) | _, _ => None end.
Proof. intros Hm. cbn [expand_f]. replace (m <=? 0) with false by lia. reflexivity. Qed.

Definition iorig (its : list item) : list av := concat (map item_orig its).

Section Expand.
Variables dec2f dec2d : list Z -> Z.

Lemma run_in_range k b d m last j :
  run_ok k b d m last -> 0 <= j < m -> inr k (b + j * d).
Proof.
  intros (Hsb & Hsl & Hlast & Hm & Hd0 & Hdr) Hj. apply small_inr in Hsb. apply small_inr in Hsl.
  assert (b <= b + j * d <= last \/ last <= b + j * d <= b) by nia.
  destruct k; cbn in *; lia.
Qed.

Lemma expand_item p it l r :
  item_ok dec2f dec2d p it -> expand l = Some r ->
  expand (item_slots it ++ l) = Some (item_orig it ++ r).
Proof.
  intros Hok Hl. unfold expand in *.
  destruct it as [v t|n v t|k b d m last sp]; cbn [item_ok item_slots item_orig app length] in *;
    remember (S (length l)) as fl eqn:Efl.
  - destruct Hok as [(_ & _ & Hs) _]. rewrite (expand_f_val fl v l Hs), Hl. reflexivity.
  - destruct Hok as (Hn & (_ & _ & Hs) & _). rewrite (expand_f_rep0 (S fl) n v l Hs) by lia.
    rewrite (expand_f_mono _ _ _ (S fl) Hl) by lia. reflexivity.
  - destruct Hok as (Hrun & _ & _). pose proof Hrun as (Hsb & Hsl & Hlast & Hm & Hd0 & Hdr).
    rewrite (expand_f_rep1 (S (S fl))) by lia.
    rewrite (map_opt_map _ (fun j => mk k (b + Z.of_nat j * d))).
    + rewrite (expand_f_mono _ _ _ (S (S fl)) Hl) by lia. reflexivity.
    + intros j Hj. apply in_seq in Hj. rewrite range_arg_mk by lia. f_equal. f_equal.
      apply wr_id. apply (run_in_range k b d m last); [assumption|lia].
Qed.

Lemma expand_items its : forall p T, iseq dec2f dec2d p its T -> expand (islots its) = Some (iorig its).
Proof.
  induction its as [|it its IH]; intros p T H; [reflexivity|].
  unfold islots, iorig. cbn [map concat].
  inversion H as [|? ? Hok|? ? ? ? ? ? Hok _ HL]; subst.
  - apply (expand_item p it [] []); [assumption|reflexivity].
  - apply (expand_item p it); [assumption|]. exact (IH _ _ HL).
Qed.
End Expand.

(* ------------------------------------------------------------------------- *)
(* Part 4: the printer                                                        *)
(* strings and quoted symbols: no two dots in a row (a single dot also at the
   end: the closing quote follows).  Only three dots in a row are misread by
   the checker (finding ellipsis-in-string-before-range, D28); two are excluded
   with them because the lemma on the checker's search (find_ell_skip) is
   stated for texts in which a dot is followed by another character. *)
Definition sdotsv (s : list Z) : Prop := sdots (s ++ [34]).

Definition goodc0 (v : av) : Prop :=
  match v with
  | VI i => small_k KI i | VH h => small_k KH h | VC c => small_k KC c
  | VT | VF | VN | VInf => True
  | VS s => nonul s /\ sdotsv s
  | VSym s => nonul s /\ sym_plain s = false /\ sdotsv s
  | VM a b c d => good_midi a b c d
  | VR v => good_rgba v
  | _ => False
  end.

(* floats and doubles: finite, and not the negative zero (a run of zeroes of
   both signs is compressed to one of them: finding signed-zero-run) *)
Definition zchoice (zf zd : Z) : Prop := (zf = 0 \/ zf = 2 ^ 31) /\ (zd = 0 \/ zd = 2 ^ 63).
Definition goodfl (zf zd : Z) (v : av) : Prop :=
  match v with
  | VFl b => 0 <= b < 2 ^ 32 /\ f32_finite b = true /\ b <> zf
  | VD b => 0 <= b < 2 ^ 64 /\ f64_finite b = true /\ b <> zd
  | _ => False
  end.

(* the values of the list-level theorems; floats and doubles only with the
   lossless option (the hexadecimal value in parentheses) *)
(* symbols printed bare (identifier-shaped, no reserved word) and blobs *)
Definition goodx (v : av) : Prop :=
  match v with
  | VSym s => sym_plain s = true
  | VB d => Forall byte_ok d
  | _ => False
  end.

Definition goodc (o : popts) (zf zd : Z) (v : av) : Prop :=
  goodc0 v \/ goodx v \/ (lossless o = true /\ goodfl zf zd v).

(* the same with the condition on the zeroes at list level (nozmix), as the
   classifier of the check states it *)
Definition goodfin (v : av) : Prop :=
  match v with
  | VFl b => 0 <= b < 2 ^ 32 /\ f32_finite b = true
  | VD b => 0 <= b < 2 ^ 64 /\ f64_finite b = true
  | _ => False
  end.
Definition goodv (o : popts) (v : av) : Prop := goodc0 v \/ goodx v \/ (lossless o = true /\ goodfin v).
Definition nozmix (vs : list av) : Prop :=
  (~ In (VFl 0) vs \/ ~ In (VFl (2 ^ 31)) vs) /\ (~ In (VD 0) vs \/ ~ In (VD (2 ^ 63)) vs).

Lemma goodc0_good v : goodc0 v -> good_val v.
Proof. destruct v; cbn; unfold small_k, good_k, good_char; try tauto; lia. Qed.

Lemma finite_notnan32 b : f32_finite b = true -> fl_isnan 23 8 b = false.
Proof.
  unfold f32_finite, fl_isnan. change (2 ^ 8 - 1) with 255. intros H. apply negb_true_iff in H. now rewrite H.
Qed.
Lemma finite_notnan64 b : f64_finite b = true -> fl_isnan 52 11 b = false.
Proof.
  unfold f64_finite, fl_isnan. change (2 ^ 11 - 1) with 2047. intros H. apply negb_true_iff in H. now rewrite H.
Qed.

Lemma goodc_facts o zf zd v : goodc o zf zd v -> scalar v /\ inrv zf zd v /\ exact v.
Proof.
  intros [H|[H|[_ H]]].
  - destruct v; cbn in *; unfold small_k, good_k in *; try tauto; lia.
  - destruct v; cbn [goodx] in H; try contradiction; cbn; tauto.
  - destruct v; cbn [goodfl] in H; try contradiction; cbn [scalar inrv exact]; unfold flgood;
      destruct H as (Hb & Hf & Hz).
    + split; [exact I|]. split; [|exact I]. split; [exact Hb|]. split; [now apply finite_notnan32|exact Hz].
    + split; [exact I|]. split; [|exact I]. split; [exact Hb|]. split; [now apply finite_notnan64|exact Hz].
Qed.
(* a slot of a list of such values and arrays of them *)
Definition goodca (o : popts) (zf zd : Z) (v : av) : Prop :=
  goodc o zf zd v \/ (exists ty n, v = VArr ty n) \/ exists y, v = VSpc y.
Lemma goodca_sa o zf zd v : goodca o zf zd v -> sa v.
Proof. intros [H|[(ty & n & ->)|(y & ->)]]; [apply scalar_sa; apply (goodc_facts o zf zd v H)|exact I|exact I]. Qed.
Lemma goodca_inrv o zf zd v : goodca o zf zd v -> inrv zf zd v.
Proof. intros [H|[(ty & n & ->)|(y & ->)]]; [apply (goodc_facts o zf zd v H)|exact I|exact I]. Qed.
Lemma goodca_mk o zf zd k z : goodca o zf zd (mk k z) -> goodc o zf zd (mk k z).
Proof. intros [H|[(ty & n & E)|(y & E)]]; [exact H|destruct k; discriminate|destruct k; discriminate]. Qed.

Lemma goodc_mk o zf zd k z : goodc o zf zd (mk k z) -> small_k k z.
Proof. intros [H|[H|[_ H]]]; destruct k; cbn in H; tauto. Qed.

Lemma pav_mk o k z cols f :
  print_arg_val_f (S f) o [mk k z] cols None = Some (tok_k k z, len (tok_k k z), cols + len (tok_k k z), false).
Proof. destruct k; cbn [mk print_arg_val_f]; reflexivity. Qed.

Lemma types_match_kind pv k b : scalar pv ->
  types_match (av_type pv) (av_type (mk k b)) = (av_type pv =? av_type (mk k b)).
Proof. intros _. unfold types_match. destruct k; cbn; destruct (av_type pv =? _) eqn:E; try reflexivity; lia. Qed.

Lemma types_match_kind' pv k b :
  types_match (av_type pv) (av_type (mk k b)) = (av_type pv =? av_type (mk k b)).
Proof. unfold types_match. destruct k; cbn; destruct (av_type pv =? _) eqn:E; try reflexivity; lia. Qed.

Lemma pav_scalar o v rest cols prev f : scalar v ->
  print_arg_val_f (S f) o (v :: rest) cols prev =
  match print_scalar o v cols with Some (t, w, c) => Some (t, w, c, false) | None => None end.
Proof. destruct v; cbn [scalar]; intros H; try contradiction; cbn [print_arg_val_f]; reflexivity. Qed.

Lemma pavf_rep o n h r cols prev f :
  print_arg_val_f (S f) o (VRep n h :: r) cols prev
  = print_range (print_arg_val_f f) (print_arr_f f) o (VRep n h :: r) cols prev.
Proof. reflexivity. Qed.

Lemma print_range_const fu o n a0 y0 cols prev t w c' :
  compress o = true -> 0 < n -> scalar a0 ->
  print_scalar o a0 (cols + len (print_d n ++ [120])) = Some (t, w, c') ->
  print_arg_val_f (S (S fu)) o [VRep n 0; a0; VSpc y0] cols prev
  = Some ((print_d n ++ [120]) ++ t, len (print_d n ++ [120]) + w, c', false).
Proof.
  intros Hon Hn Hs Hp. rewrite pavf_rep. unfold print_range. cbv beta iota.
  rewrite Hon. replace (n =? 0) with false by lia. cbn [negb orb Z.eqb].
  assert (Hm : forall (A : Type) (x y : A), match a0 :: [VSpc y0] with VArr _ _ :: _ => x | _ => y end = y)
    by (intros; destruct a0; cbn in Hs; try contradiction; reflexivity).
  rewrite Hm. rewrite (pav_scalar o a0 _ _ None fu Hs), Hp. reflexivity.
Qed.

Definition notconf (prev : option av) (k : ikind) (x : Z) : Prop :=
  match prev with None => True | Some p => av_type p <> av_type (mk k x) \/ p = mk k x end.

Lemma print_range_delta fu o k d x n y cols prev last :
  compress o = true -> 2 <= n < 2 ^ 31 -> d <> 0 ->
  wr k (x + 1 * d) = x + d -> wr k (x + (n - 1) * d) = last ->
  exists sp t c',
    (sp = [32] \/ sp = nl4) /\
    print_arg_val_f (S (S fu)) o [VRep n 1; mk k d; mk k x; VSpc y] cols prev = Some (t, len t, c', false) /\
    (t = tail_text k x last sp /\ (d = 1 \/ d = -1) /\ notconf prev k x \/
     t = tok_k k x ++ [32] ++ tail_text k (x + d) last sp).
Proof.
  intros Hon Hn Hd0 Hsec Hlast. rewrite pavf_rep. unfold print_range. cbv beta iota.
  rewrite Hon. replace (n =? 0) with false by lia. cbn [negb orb]. replace (1 =? 0) with false by reflexivity.
  cbn [negb]. rewrite pav_mk, !from_int_mk, !eq_mk.
  rewrite !range_arg_mk by lia. rewrite Hsec, Hlast.
  set (c1 := cols + len (tok_k k x)).
  (* confusing previous argument? *)
  assert (Hcf : exists cf,
     match prev with
     | Some p => if av_type p =? av_type (mk k x)
                 then match av_eq_single (mk k x) p with Some b => Some (negb b) | None => None end
                 else Some false
     | None => Some false end = Some cf /\ (cf = false -> notconf prev k x)).
  { destruct prev as [p|]; [|exists false; split; [reflexivity|intros _; exact I]].
    destruct (av_type p =? av_type (mk k x)) eqn:Et.
    - apply Z.eqb_eq in Et. destruct (type_mk_inj' k x p Et) as (a & ->).
      rewrite eq_mk. exists (negb (x =? a)). split; [reflexivity|]. intros Hf. right.
      apply negb_false_iff, Z.eqb_eq in Hf. now subst.
    - exists false. split; [reflexivity|]. intros _. left. now apply Z.eqb_neq. }
  destruct Hcf as (cf & Ecf & Hnc). rewrite Ecf.
  destruct (((d =? 1) || (d =? -1)) && negb cf) eqn:Eel.
  - (* first ... last *)
    rewrite pav_mk.
    destruct (lb_check (linelength o) (c1 + 5 + len (tok_k k last)) (len (tok_k k last)) 1) as [[brk_ c4] a4] eqn:Elb.
    exists (if brk_ then nl4 else [32]), (tail_text k x last (if brk_ then nl4 else [32])), (c4 + 1).
    split; [destruct brk_; auto|]. split.
    + f_equal. f_equal. f_equal. f_equal.
      all: unfold tail_text, ell4; rewrite <- ?app_assoc; cbn [app]; try reflexivity.
      all: rewrite ?len_app; destruct brk_; unfold len, nl4; cbn [length]; rewrite ?app_length; cbn [length]; rewrite ?app_length; cbn [length]; lia.
    + left. apply andb_true_iff in Eel as [E1 E2]. split; [reflexivity|]. split.
      * apply orb_true_iff in E1 as [E1|E1]; apply Z.eqb_eq in E1; auto.
      * apply Hnc. now apply negb_true_iff in E2.
  - (* first second ... last *)
    rewrite !pav_mk.
    destruct (lb_check (linelength o) (c1 + 1 + len (tok_k k (x + d)) + 5 + len (tok_k k last))
                       (len (tok_k k last)) 1) as [[brk_ c4] a4] eqn:Elb.
    exists (if brk_ then nl4 else [32]),
           (tok_k k x ++ [32] ++ tail_text k (x + d) last (if brk_ then nl4 else [32])), (c4 + 1).
    split; [destruct brk_; auto|]. split.
    + f_equal. f_equal. f_equal. f_equal.
      all: unfold tail_text, ell4; rewrite <- ?app_assoc; cbn [app]; try reflexivity.
      all: rewrite ?len_app; destruct brk_; unfold len, nl4; cbn [length]; rewrite ?app_length; cbn [length]; rewrite ?app_length; cbn [length]; lia.
    + right. reflexivity.
Qed.

(* ---- tokens of goodc values contain no '.' ------------------------------------------------ *)
Lemma esc_str_ne c e : as_escaped_char c false = Some e -> e <> 46.
Proof.
  unfold as_escaped_char.
  repeat match goal with
         | |- context [if ?a =? ?b then _ else _] =>
             destruct (a =? b); [intros H; try discriminate H; inversion H; lia|]
         end.
  cbn [andb negb]. destruct (c =? 34); intros H; inversion H; lia.
Qed.

(* the text of a quoted string keeps the property: a line break between two
   characters and the escapes bring no dots *)
Lemma print_chars_hd ll c s cols X : c <> 46 ->
  exists x r, fst (print_chars false ll (c :: s) cols) ++ X = x :: r /\ x <> 46.
Proof.
  intros Hc. cbn [print_chars negb andb].
  destruct (ll - 3 <? cols); destruct (as_escaped_char c false) as [e|]; try destruct (e =? 110);
    repeat match goal with
           | |- context [print_chars false ll s ?k] => destruct (print_chars false ll s k) as [? ?]
           end; cbn [fst app brk]; eexists _, _; (split; [reflexivity|lia]).
Qed.

Lemma sdots_inv_dot l : sdots (46 :: l) -> exists c r, l = c :: r /\ c <> 46 /\ sdots (c :: r).
Proof. intros H. inversion H; subst; [congruence|eauto]. Qed.
Lemma sdots_inv_other c l : sdots (c :: l) -> c <> 46 -> sdots l.
Proof. intros H Hc. inversion H; subst; [assumption|congruence]. Qed.

Lemma print_chars_sdots ll s : forall cols, sdots (s ++ [34]) -> sdots (fst (print_chars false ll s cols) ++ [34]).
Proof.
  induction s as [|c s IH]; intros cols Hs; [exact Hs|].
  assert (Hb : sdots brk) by (apply nodot_sdots; repeat constructor; lia).
  cbn [app] in Hs. destruct (Z.eq_dec c 46) as [->|Hc].
  2: { (* no dot: break, character or escape, the rest *)
    pose proof (sdots_inv_other _ _ Hs Hc) as Hs'.
    cbn [print_chars negb andb].
    destruct (ll - 3 <? cols); destruct (as_escaped_char c false) as [e|] eqn:Ee;
      try (pose proof (esc_str_ne _ _ Ee)); try destruct (e =? 110);
      repeat match goal with
             | |- context [print_chars false ll s ?k] =>
                 let H := fresh "Hk" in pose proof (IH k Hs') as H; destruct (print_chars false ll s k) as [? ?]
             end; cbn [fst] in *; rewrite <- ?app_assoc;
      repeat (apply sdots_app; [first [exact Hb|apply nodot_sdots; repeat constructor; lia]|]); assumption. }
  (* a dot: the next character is no dot *)
  destruct (sdots_inv_dot _ Hs) as (c1 & r1 & E & Hc1 & Hs').
  - destruct s as [|c' s']; cbn [app] in E.
    + inversion E; subst. cbn [print_chars negb andb]. change (as_escaped_char 46 false) with (@None Z).
      destruct (ll - 3 <? cols); cbn [fst app]; rewrite <- ?app_assoc;
        [apply sdots_app; [exact Hb|]|]; cbn [app]; (apply sd_dot; [lia|repeat constructor; lia]).
    + inversion E; subst c1 r1.
      assert (Hnext : forall k, exists x r, fst (print_chars false ll (c' :: s') k) ++ [34] = x :: r /\ x <> 46 /\
                                           sdots (x :: r)).
      { intros k. destruct (print_chars_hd ll c' s' k [34] Hc1) as (x & r & Ex & Hx).
        exists x, r. split; [exact Ex|]. split; [exact Hx|]. rewrite <- Ex. apply IH. exact Hs'. }
      set (s2 := c' :: s') in *.
      cbn [print_chars negb andb]. change (as_escaped_char 46 false) with (@None Z).
      destruct (ll - 3 <? cols).
      * destruct (Hnext (5 + 1)) as (x & r & Ex & Hx & Hsx).
        destruct (print_chars false ll s2 (5 + 1)) as [t1 k1]. cbn [fst] in *.
        rewrite <- !app_assoc. apply sdots_app; [exact Hb|]. cbn [app]. rewrite Ex. now apply sd_dot.
      * destruct (Hnext (cols + 1)) as (x & r & Ex & Hx & Hsx).
        destruct (print_chars false ll s2 (cols + 1)) as [t1 k1]. cbn [fst] in *.
        cbn [app]. rewrite Ex. now apply sd_dot.
Qed.

Lemma print_chars_nodot ll s : forall cols, nodot s -> nodot (fst (print_chars false ll s cols)).
Proof.
  induction s as [|c s IH]; intros cols Hs; [constructor|].
  inversion Hs as [|? ? Hc Hs']; subst. cbn [print_chars negb andb].
  assert (Hb : nodot brk) by (repeat constructor; lia).
  destruct (ll - 3 <? cols); destruct (as_escaped_char c false) as [e|] eqn:Ee;
    try (pose proof (esc_str_ne _ _ Ee)); try destruct (e =? 110);
    repeat match goal with
           | |- context [print_chars false ll s ?k] =>
               let H := fresh "Hk" in pose proof (IH k Hs') as H; destruct (print_chars false ll s k) as [? ?]
           end; cbn [fst] in *;
    repeat (apply Forall_app; split); try assumption; try (repeat constructor; lia).
Qed.

Lemma hexdig_ne46 x : hexdig (x mod 16) <> 46.
Proof. unfold hexdig. pose proof (Z.mod_pos_bound x 16 ltac:(lia)). destruct (x mod 16 <? 10); lia. Qed.

Lemma hex2_nodot b : nodot (hex2 b).
Proof.
  unfold hex2, hexdig. repeat constructor.
  - destruct (b / 16 mod 16 <? 10) eqn:E; pose proof (Z.mod_pos_bound (b / 16) 16 ltac:(lia)); lia.
  - destruct (b mod 16 <? 10) eqn:E; pose proof (Z.mod_pos_bound b 16 ltac:(lia)); lia.
Qed.

Section GoodcTok.
Variables dec2f dec2d : list Z -> Z.

Lemma goodc0_tok o v cols t w c :
  goodc0 v -> print_scalar o v cols = Some (t, w, c) ->
  tokof dec2f dec2d v t /\ sdots t /\ w = len t.
Proof.
  intros Hg Hp. destruct (scalar_tok dec2f dec2d o v cols t w c (goodc0_good v Hg) Hp) as [Htk Hw].
  split; [exact Htk|]. split; [|exact Hw].
  destruct v; cbn [goodc0] in Hg; try contradiction; cbn in Hp.
  - inversion Hp; subst. exact (nodot_sdots _ (proj1 (tok_k_chars KI i Hg))).
  - inversion Hp; subst. exact (nodot_sdots _ (proj1 (tok_k_chars KH h Hg))).
  - inversion Hp; subst. exact (nodot_sdots _ (proj1 (tok_k_chars KC c0 Hg))).
  - inversion Hp; subst. apply nodot_sdots. repeat constructor; lia.
  - inversion Hp; subst. apply nodot_sdots. repeat constructor; lia.
  - inversion Hp; subst. apply nodot_sdots. repeat constructor; lia.
  - inversion Hp; subst. apply nodot_sdots. repeat constructor; lia.
  - destruct Hg as [_ Hnd]. unfold print_string in Hp. cbn [andb] in Hp.
    pose proof (print_chars_sdots (linelength o) s (cols + 1) Hnd) as Hb.
    destruct (print_chars false (linelength o) s (cols + 1)) as [body c1]. inversion Hp; subst. cbn [fst] in Hb.
    apply sd_other; [lia|exact Hb].
  - destruct Hg as (_ & Hpl & Hnd). unfold print_string in Hp. rewrite Hpl in Hp. cbn [andb] in Hp.
    pose proof (print_chars_sdots (linelength o) s (cols + 1) Hnd) as Hb.
    destruct (print_chars false (linelength o) s (cols + 1)) as [body c1]. inversion Hp; subst. cbn [fst] in Hb.
    apply sd_other; [lia|]. change (body ++ [34; 83]) with (body ++ [34] ++ [83]). rewrite app_assoc.
    apply sdots_app; [exact Hb|apply nodot_sdots; repeat constructor; lia].
  - inversion Hp; subst. apply nodot_sdots. repeat constructor; try lia; apply hexdig_ne46.
  - inversion Hp; subst. apply nodot_sdots. repeat constructor; try lia; apply hexdig_ne46.
Qed.

Lemma goodc_tok o zf zd v cols t w c :
  goodc o zf zd v -> print_scalar o v cols = Some (t, w, c) ->
  tokof dec2f dec2d v t /\ sdots t /\ w = len t.
Proof.
  intros [Hg|[Hg|[Hl Hg]]] Hp.
  - exact (goodc0_tok o v cols t w c Hg Hp).
  - destruct v; cbn [goodx] in Hg; try contradiction; cbn [print_scalar] in Hp.
    + (* a bare symbol *)
      destruct (sym_plain_facts s Hg) as (c0 & r0 & Es & Hc0 & Hs & _).
      unfold print_string in Hp. rewrite Hg in Hp. cbn [andb] in Hp.
      rewrite (print_chars_plain (linelength o) s cols Hs) in Hp. inversion Hp; subst t w c. clear Hp.
      split; [|split; [|reflexivity]].
      * split; [apply tok_core_reads; now apply tok_plainsym|]. split; [|exact I].
        exists c0, r0. split; [exact Es|].
        unfold isidstart, isalpha, isupper, islower, in_range in Hc0. unfold first_ok, isspace, in_range. lia.
      * apply nodot_sdots. eapply Forall_impl; [|exact Hs]. intros a Ha. apply (idch_facts a Ha).
    + (* a blob *)
      destruct (print_blob o d cols) as [[t0 w0] c0] eqn:Eb. inversion Hp; subst t0 w0 c0. clear Hp.
      destruct (print_blob_text o d cols t w c Eb) as (T & HT & -> & Hw).
      split; [|split; [|exact Hw]].
      * split; [apply tok_core_reads; now apply tok_blob|]. split; [|exact I].
        eexists _, _. split; [reflexivity|]. unfold first_ok, isspace, in_range. lia.
      * apply nodot_sdots. unfold blob_text. apply Forall_app. split; [repeat constructor; lia|].
        apply Forall_app. split; [repeat constructor; lia|].
        apply Forall_app. split; [eapply Forall_impl; [|apply print_d_chars]; cbn; lia|].
        apply Forall_app. split; [|repeat constructor; lia].
        clear -HT. induction HT as [|b d sep T Hsep HT IH]; [constructor|].
        apply Forall_app. split; [destruct Hsep as [->| ->]; repeat constructor; lia|].
        apply Forall_app. split; [repeat constructor; lia|].
        apply Forall_app. split; [apply hex2_nodot|exact IH].
  - destruct v; cbn [goodfl] in Hg; try contradiction; destruct Hg as (Hb & Hf & _);
      cbn [print_scalar] in Hp; rewrite Hl in Hp; inversion Hp; subst; clear Hp.
    + split; [|split; [apply (flt_text_sdots (prec o) (f32_to_f64 bits))|reflexivity]].
      split; [apply tok_core_reads; now apply tok_float|]. split; [|exact I].
      destruct (flt_text_first (prec o) (f32_to_f64 bits) []) as (c0 & tl & E & Hc).
      rewrite app_nil_r in E. unfold flt_text in E. eauto.
    + split; [|split; [apply (dbl_text_sdots (prec o) bits)|reflexivity]].
      split; [apply tok_core_reads; now apply tok_double|]. split; [|exact I].
      destruct (dbl_text_first (prec o) bits []) as (c0 & tl & E & Hc).
      rewrite app_nil_r in E. unfold dbl_text in E. eauto.
Qed.
End GoodcTok.

(* ---- one iteration of the printer's loop ---------------------------------------------------- *)
Lemma nth_firstn {A} (l l' : list A) m j : firstn m l = l' -> (j < m)%nat -> nth_error l j = nth_error l' j.
Proof.
  intros <- Hj. revert l j Hj. induction m as [|m IH]; intros l j Hj; [lia|].
  destruct l as [|x l]; [now destruct j|]. destruct j as [|j]; [reflexivity|]. cbn. apply IH. lia.
Qed.

Definition ilast (its : list item) : option av :=
  match rev its with it :: _ => Some (item_last it) | [] => None end.

Section PrintLoop.
Variables dec2f dec2d : list Z -> Z.
Variable o : popts.
Hypothesis Hon : compress o = true.
Variables zf zd : Z.
Hypothesis Hz : zchoice zf zd.
Notation item_ok := (item_ok dec2f dec2d).

Definition iter_text (p : option av) (its : list item) (t : list Z) : Prop :=
  match its with
  | [it] => t = item_text it /\ item_ok p it
  | [it1; it2] => t = item_text it1 ++ [32] ++ item_text it2 /\ item_ok p it1 /\
                  item_ok (Some (item_last it1)) it2
  | _ => False
  end.

Lemma print_range_const_eq fu n a0 y cols prev :
  0 < n -> scalar a0 ->
  print_arg_val_f (S (S fu)) o [VRep n 0; a0; VSpc y] cols prev =
  match print_scalar o a0 (cols + len (dec_nat n ++ [120])) with
  | Some (t, w, c') => Some ((dec_nat n ++ [120]) ++ t, len (dec_nat n ++ [120]) + w, c', false)
  | None => None end.
Proof.
  intros Hn Hs. assert (Ed : print_d n = dec_nat n) by (unfold print_d; now replace (n <? 0) with false by lia).
  destruct (print_scalar o a0 (cols + len (dec_nat n ++ [120]))) as [[[t w] c']|] eqn:E.
  - rewrite <- Ed in *. now apply print_range_const.
  - rewrite pavf_rep. unfold print_range. cbv beta iota.
    rewrite Hon. replace (n =? 0) with false by lia. cbn [negb orb Z.eqb].
    assert (Hm : forall (A : Type) (x z : A), match a0 :: [VSpc y] with VArr _ _ :: _ => x | _ => z end = z)
      by (intros; destruct a0; cbn in Hs; try contradiction; reflexivity).
    rewrite Hm. rewrite (pav_scalar o a0 _ _ None fu Hs). rewrite Ed, E. reflexivity.
Qed.

Definition first_notconf (prev : option av) (its : list item) : Prop :=
  match its with
  | ITail k b d m _ _ :: _ => notconf prev k b /\ unit_step d m
  | _ => True
  end.

Lemma print_iter_sa fu a0 rest size prev t tmp cols cols1 bb cv :
  goodc o zf zd a0 -> Forall (goodca o zf zd) rest -> Z.of_nat (length (a0 :: rest)) < 2 ^ 31 ->
  convert_to_range o (a0 :: rest) size = cv -> cv <> CUnmod ->
  print_arg_val_f (S (S fu)) o (match cv with CYes c _ => c | _ => a0 :: rest end) cols prev = Some (t, tmp, cols1, bb) ->
  exists its inc,
    bb = false /\ tmp = len t /\
    Z.of_nat inc = (match cv with CYes _ kk => kk | _ => next_arg_offset (a0 :: rest) end) /\
    (1 <= inc <= length (a0 :: rest))%nat /\
    iorig its = firstn inc (a0 :: rest) /\ iter_text prev its t /\
    nth_error (a0 :: rest) (inc - 1) = ilast its /\
    (match cv with CYes _ _ => Z.of_nat inc <= size | _ => inc = 1%nat end) /\ first_notconf prev its.
Proof.
  intros Hg0 Hgr Hlen Hcv Hnu Hp.
  destruct (goodc_facts o zf zd a0 Hg0) as (Hs0 & _ & Hex0).
  assert (Hg : Forall (goodca o zf zd) (a0 :: rest)) by (constructor; [now left|exact Hgr]).
  assert (Hsc : Forall sa (a0 :: rest)) by (eapply Forall_impl; [|exact Hg]; exact (goodca_sa o zf zd)).
  assert (Hin : Forall (inrv zf zd) (a0 :: rest)) by (eapply Forall_impl; [|exact Hg]; exact (goodca_inrv o zf zd)).
  destruct cv as [|c kk|]; [| |congruence].
  - (* no conversion: one value *)
    rewrite (pav_scalar o a0 rest cols prev (S fu) Hs0) in Hp.
    destruct (print_scalar o a0 cols) as [[[t' w'] c']|] eqn:Eps; [|discriminate]. inversion Hp; subst.
    destruct (goodc_tok dec2f dec2d o zf zd a0 cols t tmp cols1 Hg0 Eps) as (Htk & Hnd & Hw).
    exists [IVal a0 t], 1%nat. split; [reflexivity|]. split; [exact Hw|].
    split; [destruct a0; cbn in Hs0; try contradiction; reflexivity|]. split; [cbn [length]; lia|].
    split; [reflexivity|]. split; [split; [reflexivity|split; assumption]|]. split; [reflexivity|]. split; [reflexivity|exact I].
  - destruct (range_expand_shape_sa zf zd (proj1 Hz) (proj2 Hz) o (a0 :: rest) size c kk Hsc Hin Hex0 Hlen Hcv) as (n & -> & Hn5 & Hexp & Hshape & Hle).
    destruct Hn5 as [Hn5 Hnl].
    destruct Hshape as [[[y Ec] Hrep]|(k & d & x & y & Ec & Hdr & Hhd & Hd0 & Hexj)]; subst c; cbn [hd] in *.
    + (* N x value *)
      rewrite (print_range_const_eq fu (Z.of_nat n) a0 y cols prev ltac:(lia) Hs0) in Hp.
      destruct (print_scalar o a0 (cols + len (dec_nat (Z.of_nat n) ++ [120]))) as [[[t' w'] c']|] eqn:Eps;
        [|discriminate]. inversion Hp; subst.
      destruct (goodc_tok dec2f dec2d o zf zd a0 _ t' w' cols1 Hg0 Eps) as (Htk & Hnd & Hw).
      exists [IRep (Z.of_nat n) a0 t'], n. split; [reflexivity|].
      split; [rewrite !len_app; lia|]. split; [reflexivity|]. split; [lia|].
      split; [unfold iorig; cbn [map concat item_orig]; now rewrite app_nil_r, Nat2Z.id|].
      split.
      * cbn [iter_text item_text item_ok]. split; [now rewrite <- app_assoc|]. split; [lia|]. split; assumption.
      * split; [|split; [exact Hle|exact I]].
        rewrite (nth_firstn (a0 :: rest) _ n (n - 1) Hrep) by lia. cbn [ilast rev app item_last].
        clear -Hn5. assert (n = S (n - 1)) by lia. rewrite H at 1. cbn [repeat]. generalize (n - 1)%nat. intros m.
        induction m as [|m IH]; [reflexivity|exact IH].
    + (* a run with a step *)
      subst a0. rewrite expand_delta in Hexp by lia. rewrite Nat2Z.id in Hexp. inversion Hexp as [Hm]. clear Hexp.
      assert (Hsx : small_k k x) by (apply (goodc_mk o zf zd); exact Hg0).
      assert (Hex : forall j, (j < n)%nat -> wr k (x + Z.of_nat j * d) = x + Z.of_nat j * d)
        by (intros j Hj; apply wr_id; apply (Hexj j Hj)).
      assert (Hsm : forall j, (j < n)%nat -> small_k k (wr k (x + Z.of_nat j * d))).
      { intros j Hj. rewrite Hex by assumption. apply (goodc_mk o zf zd). apply goodca_mk. eapply Forall_forall; [exact Hg|].
        eapply nth_error_In. exact (proj1 (Hexj j Hj)). }
      set (last := x + (Z.of_nat n - 1) * d).
      assert (Hlast : wr k (x + (Z.of_nat n - 1) * d) = last).
      { replace (Z.of_nat n - 1) with (Z.of_nat (n - 1)) by lia. rewrite Hex by lia. unfold last. f_equal. f_equal. lia. }
      assert (Hsec : wr k (x + 1 * d) = x + d).
      { replace 1 with (Z.of_nat 1) by reflexivity. rewrite Hex by lia. lia. }
      destruct (print_range_delta fu o k d x (Z.of_nat n) y cols prev last Hon ltac:(lia) Hd0 Hsec Hlast)
        as (sp & t' & c' & Hsp & Hpr & Hshape).
      rewrite Hpr in Hp. inversion Hp; subst t' tmp c' bb. clear Hp.
      assert (Hslast : small_k k last).
      { unfold last. specialize (Hsm (n - 1)%nat ltac:(lia)). rewrite Hex in Hsm by lia.
        replace (Z.of_nat (n - 1)) with (Z.of_nat n - 1) in Hsm by lia. exact Hsm. }
      assert (Hnth : nth_error (mk k x :: rest) (n - 1) = Some (mk k last)).
      { rewrite (nth_firstn (mk k x :: rest) _ n (n - 1) (eq_sym Hm)) by lia.
        rewrite nth_error_map, nth_error_nth' with (d := 0%nat) by (rewrite seq_length; lia).
        rewrite seq_nth by lia. cbn [option_map]. rewrite Hex by lia. unfold last. do 3 f_equal. lia. }
      destruct Hshape as [(Et & Hd1 & Hnc)|Et]; subst t.
      * exists [ITail k x d (Z.of_nat n) last sp], n. split; [reflexivity|]. split; [reflexivity|].
        split; [reflexivity|]. split; [lia|]. split.
        { unfold iorig. cbn [map concat item_orig]. rewrite app_nil_r, Nat2Z.id, <- Hm.
          apply map_ext_in. intros j Hj. apply in_seq in Hj. now rewrite Hex by lia. }
        split; [|split; [exact Hnth|split; [exact Hle|cbn [first_notconf]; unfold unit_step; split; [exact Hnc|split; [exact Hd1|lia]]]]].
        cbn [iter_text item_text item_ok]. split; [reflexivity|]. split; [|split; [exact Hsp|]].
        { unfold run_ok. split; [exact Hsx|]. split; [exact Hslast|]. split; [unfold last; lia|]. split; [lia|].
          split; [exact Hd0|]. split; [exact Hdr|].
          replace (last - x) with (Z.of_nat (n - 1) * d) by (unfold last; lia). apply (Hexj (n - 1)%nat). lia. }
        unfold ctx_ok, unit_step. destruct prev as [p|]; [|split; [assumption|lia]].
        rewrite (types_match_kind' p k x). cbn [notconf] in Hnc.
        destruct Hnc as [Hne| ->].
        -- replace (av_type p =? av_type (mk k x)) with false by (symmetry; now apply Z.eqb_neq). split; [assumption|lia].
        -- rewrite Z.eqb_refl. exists x. split; [reflexivity|]. left. split; [reflexivity|]. split; [assumption|lia].
      * exists [IVal (mk k x) (tok_k k x); ITail k (x + d) d (Z.of_nat n - 1) last sp], n.
        split; [reflexivity|]. split; [reflexivity|]. split; [reflexivity|]. split; [lia|]. split.
        { unfold iorig. cbn [map concat item_orig]. rewrite app_nil_r, <- Hm.
          rewrite (map_ext_in _ (fun j => mk k (x + Z.of_nat j * d)) (seq 0 n))
            by (intros j Hj; apply in_seq in Hj; now rewrite Hex by lia).
          clear - Hn5. destruct n as [|m]; [lia|]. replace (Z.to_nat (Z.of_nat (S m) - 1)) with m by lia.
          cbn [seq map app]. f_equal; [f_equal; lia|].
          rewrite <- seq_shift, map_map. apply map_ext. intros j. f_equal. lia. }
        split; [|split; [exact Hnth|split; [exact Hle|exact I]]].
        cbn [iter_text item_text item_ok item_last]. split; [reflexivity|].
        assert (Hsxd : small_k k (x + d)).
        { specialize (Hsm 1%nat ltac:(lia)). rewrite Hex in Hsm by lia. now replace (x + Z.of_nat 1 * d) with (x + d) in Hsm by lia. }
        split; [split; [apply tok_k_tokof; now apply small_good|exact (nodot_sdots _ (proj1 (tok_k_chars k x Hsx)))]|].
        split; [|split; [exact Hsp|]].
        { unfold run_ok. split; [exact Hsxd|]. split; [exact Hslast|]. split; [unfold last; lia|]. split; [lia|].
          split; [exact Hd0|]. split; [exact Hdr|].
          replace (last - (x + d)) with (Z.of_nat (n - 2) * d) by (unfold last; lia). apply (Hexj (n - 2)%nat). lia. }
        unfold ctx_ok. rewrite (types_match_kind (mk k x) k (x + d)) by now destruct k.
        replace (av_type (mk k x) =? av_type (mk k (x + d))) with true by (destruct k; reflexivity).
        exists x. split; [reflexivity|]. right. split; lia.
Qed.

Lemma print_iter a0 rest size prev t tmp cols cols1 bb cv :
  Forall (goodc o zf zd) (a0 :: rest) -> Z.of_nat (length (a0 :: rest)) < 2 ^ 31 ->
  (forall p, prev = Some p -> scalar p) ->
  convert_to_range o (a0 :: rest) size = cv -> cv <> CUnmod ->
  print_arg_val o (match cv with CYes c _ => c | _ => a0 :: rest end) cols prev = Some (t, tmp, cols1, bb) ->
  exists its inc,
    bb = false /\ tmp = len t /\
    Z.of_nat inc = (match cv with CYes _ kk => kk | _ => next_arg_offset (a0 :: rest) end) /\
    (1 <= inc <= length (a0 :: rest))%nat /\
    iorig its = firstn inc (a0 :: rest) /\ iter_text prev its t /\
    nth_error (a0 :: rest) (inc - 1) = ilast its.
Proof.
  intros Hg Hlen _ Hcv Hnu Hp.
  destruct (print_iter_sa 4 a0 rest size prev t tmp cols cols1 bb cv (Forall_inv Hg)) as (its & inc & A & B & C & D & E & F & G & _);
    try assumption.
  - eapply Forall_impl; [|exact (Forall_inv_tail Hg)]. intros a Ha. now left.
  - exists its, inc. auto 10.
Qed.

Fixpoint iseq_from (pend : bool) (p : option av) (its : list item) (sfx : list Z) : Prop :=
  match its with
  | [] => sfx = []
  | it :: rest =>
      exists sepz sfx', sfx = sepz ++ item_text it ++ sfx' /\ item_ok p it /\
        (if pend then sepw sepz else sepz = []) /\ iseq_from true (Some (item_last it)) rest sfx'
  end.

Lemma iorig_app a b : iorig (a ++ b) = iorig a ++ iorig b.
Proof. unfold iorig. now rewrite map_app, concat_app. Qed.

Lemma conv_yes_head args size c kk :
  convert_to_range o args size = CYes c kk -> exists n h r, c = VRep n h :: r.
Proof.
  unfold convert_to_range.
  repeat match goal with
         | |- context [if ?b then _ else _] => destruct b
         | |- context [match ?x with _ => _ end] => destruct x
         end; intros H; inversion H; eauto.
Qed.

Lemma top_plain inp cols prev b : hd_type inp <> 97 -> print_arg_val_top o inp cols prev b = print_arg_val o inp cols prev.
Proof.
  destruct inp as [|v r]; [reflexivity|].
  destruct v; cbn [hd_type av_type]; intros H; try (exfalso; apply H; reflexivity); cbn [print_arg_val_top]; reflexivity.
Qed.

Lemma print_loop_iseq : forall fuel args prev i n acc pend wrt cols awtl text w,
  Forall (goodc o zf zd) args -> Z.of_nat (length args) < 2 ^ 31 -> n = i + Z.of_nat (length args) ->
  (args = [] -> pend = false) -> (forall p, prev = Some p -> scalar p) ->
  print_vals_loop fuel o args prev i n acc pend wrt cols awtl = Some (text, w) ->
  exists its sfx, text = acc ++ sfx /\ w = wrt + len sfx - (if pend then 1 else 0) /\
    iseq_from pend prev its sfx /\ iorig its = args /\ (args = [] -> its = []).
Proof.
  induction fuel as [|fuel IH]; intros args prev i n acc pend wrt cols awtl text w Hg Hlen Hn Hpe Hprev Hrun;
    [discriminate|].
  cbn [print_vals_loop] in Hrun.
  destruct args as [|a0 rest].
  - cbn in Hn. replace (n <=? i) with true in Hrun by lia. inversion Hrun; subst.
    exists [], []. rewrite app_nil_r, (Hpe eq_refl). cbn. repeat split; lia.
  - cbn [length] in Hn. replace (n <=? i) with false in Hrun by lia.
    destruct (convert_to_range o (a0 :: rest) (n - i)) as [|c kk|] eqn:Ecv; [| |discriminate].
    1: rewrite top_plain in Hrun
         by (destruct (goodc_facts o zf zd a0 (Forall_inv Hg)) as (Hs0 & _); destruct a0; cbn in Hs0; try contradiction; cbn; lia).
    2: destruct (conv_yes_head _ _ _ _ Ecv) as (n0 & h0 & r0 & Ec0); rewrite Ec0 in Hrun;
       rewrite top_plain in Hrun by (cbn; lia); rewrite <- Ec0 in Hrun.
    all: match type of Hrun with context [print_arg_val ?oo ?inp ?cc ?pp] =>
           destruct (print_arg_val oo inp cc pp) as [[[[t tmp] cols1] bb]|] eqn:Epr; [|discriminate] end.
    all: match type of Ecv with _ = ?cv =>
           destruct (print_iter a0 rest (n - i) prev t tmp cols cols1 bb cv Hg Hlen Hprev Ecv ltac:(discriminate) Epr)
             as (its1 & inc & -> & -> & Hinc & Hrange & Horig & Hit & Hnth) end.
    all: destruct (if breaks_itself (av_type a0) then (false, cols1, awtl)
                   else lb_check (linelength o) cols1 (len t) awtl) as [[brk_ cols2] awtl2] eqn:Elb.
    all: rewrite orb_false_r in Hrun; destruct (brk_ && negb pend) eqn:Ebp; [discriminate|].
    all: set (sepz := if brk_ then nl4 else if pend then [32] else []) in *.
    all: assert (Hsepz : if pend then sepw sepz else sepz = [])
           by (subst sepz; destruct pend, brk_; cbn in *; try reflexivity; try discriminate;
               [apply sepw_nl4|apply sepw_32]).
    all: assert (Hlz : len sepz = (if brk_ then 4 else 0) + (if pend then 1 else 0))
           by (subst sepz; destruct pend, brk_; cbn in *; try reflexivity; discriminate).
    all: rewrite <- Hinc in Hrun.
    all: assert (Hsk : skipz (Z.of_nat inc) (a0 :: rest) = skipn inc (a0 :: rest)) by (unfold skipz; now rewrite Nat2Z.id).
    all: assert (Hnt : nth_error (a0 :: rest) (Z.to_nat (Z.of_nat inc - 1)) = ilast its1)
           by (replace (Z.to_nat (Z.of_nat inc - 1)) with (inc - 1)%nat by lia; exact Hnth).
    all: rewrite Hsk, Hnt in Hrun.
    all: assert (Hl2 : length (skipn inc (a0 :: rest)) = (length (a0 :: rest) - inc)%nat) by apply skipn_length.
    all: assert (Hil : exists lst, ilast its1 = Some (item_last lst) /\ exists pp, item_ok pp lst)
           by (destruct its1 as [|it1 [|it2 [|? ?]]]; cbn [iter_text] in Hit; try contradiction;
               [exists it1; split; [reflexivity|exists prev; apply Hit]
               |exists it2; split; [reflexivity|exists (Some (item_last it1)); apply Hit]]).
    all: destruct Hil as (lst & Eil & pp & Hokl).
    all: assert (Hprev2 : forall p, ilast its1 = Some p -> scalar p)
           by (intros p Ep; rewrite Eil in Ep; inversion Ep; subst; exact (item_scalar_last _ _ _ _ Hokl)).
    all: assert (Hg2 : Forall (goodc o zf zd) (skipn inc (a0 :: rest)))
           by (rewrite <- (firstn_skipn inc (a0 :: rest)) in Hg; now apply Forall_app in Hg as [_ Hg]).
    all: destruct (i + Z.of_nat inc <? n) eqn:Ein;
         (apply IH in Hrun; [|exact Hg2|rewrite Hl2; cbn [length] in *; lia|rewrite Hl2; cbn [length] in *; lia
                             |intros Es; first [reflexivity|exfalso; rewrite Es in Hl2; cbn [length] in *; lia]|exact Hprev2]).
    all: destruct Hrun as (its2 & sfx2 & -> & -> & Hseq2 & Horig2 & Hnil2).
    all: assert (Hseq2' : iseq_from true (ilast its1) its2 sfx2)
           by (first [exact Hseq2
                     |assert (E0 : skipn inc (a0 :: rest) = [])
                        by (apply length_zero_iff_nil; rewrite Hl2; cbn [length] in *; lia);
                      rewrite (Hnil2 E0) in *; exact Hseq2]).
    all: exists (its1 ++ its2), (sepz ++ t ++ sfx2).
    all: split; [now rewrite <- !app_assoc|].
    all: split; [rewrite !len_app; lia|].
    all: split; [|split; [rewrite iorig_app, Horig, Horig2; apply firstn_skipn|discriminate]].
    all: rewrite Eil in Hseq2'.
    all: destruct its1 as [|it1 [|it2 [|? ?]]]; cbn [iter_text] in Hit; try contradiction.
    all: cbn [app iseq_from].
    all: try (destruct Hit as (-> & Hok1); cbn [ilast rev app] in Eil; inversion Eil as [El]; rewrite <- El in Hseq2';
              exists sepz, sfx2; (split; [reflexivity|]); (split; [exact Hok1|]); split; [exact Hsepz|exact Hseq2']).
    all: destruct Hit as (-> & Hok1 & Hok2); cbn [ilast rev app] in Eil; inversion Eil as [El]; rewrite <- El in Hseq2';
         exists sepz, ([32] ++ item_text it2 ++ sfx2); (split; [now rewrite <- !app_assoc|]); (split; [exact Hok1|]);
         (split; [exact Hsepz|]); exists [32], sfx2; (split; [reflexivity|]); (split; [exact Hok2|]);
         split; [apply sepw_32|exact Hseq2'].
Qed.
End PrintLoop.

Section Final.
Variables dec2f dec2d : list Z -> Z.

Lemma iseq_from_iseq : forall its pend p sfx,
  iseq_from dec2f dec2d pend p its sfx -> its <> [] ->
  exists sepz T, sfx = sepz ++ T /\ iseq dec2f dec2d p its T /\ (if pend then sepw sepz else sepz = []).
Proof.
  induction its as [|it its IH]; intros pend p sfx H Hne; [congruence|].
  cbn [iseq_from] in H. destruct H as (sepz & sfx' & -> & Hok & Hs & Hl).
  destruct its as [|it' its'].
  - cbn in Hl. subst sfx'. exists sepz, (item_text it). rewrite app_nil_r.
    split; [reflexivity|]. split; [now constructor|assumption].
  - destruct (IH true _ sfx' Hl ltac:(discriminate)) as (sepz' & T' & -> & HL & Hs').
    exists sepz, (item_text it ++ sepz' ++ T'). split; [reflexivity|]. split; [|assumption].
    now constructor.
Qed.

(* the round trip with range compression on: the scanned slots expand to the values *)
Theorem roundtrip_compressed o zf zd vs text w :
  zchoice zf zd -> compress o = true -> Forall (goodc o zf zd) vs -> Z.of_nat (length vs) < 2 ^ 31 ->
  print_arg_vals o vs 0 = Some (text, w) ->
  exists slots,
    w = len text /\
    count_printed_arg_vals dec2f dec2d text = Ok (true, Z.of_nat (length slots)) /\
    scan_arg_vals dec2f dec2d text (Z.of_nat (length slots)) = Ok (slots, []) /\
    expand slots = Some vs.
Proof.
  intros Hz Hon Hg Hlen Hp. unfold print_arg_vals in Hp.
  apply (print_loop_iseq dec2f dec2d o Hon zf zd Hz) in Hp; try assumption; try lia; try reflexivity; try discriminate.
  destruct Hp as (its & sfx & -> & -> & Hseq & Horig & Hnil). cbn [app].
  destruct its as [|it its].
  - cbn in Hseq. subst sfx. exists []. cbn in Horig. subst vs.
    repeat split; reflexivity.
  - destruct (iseq_from_iseq _ _ _ _ Hseq ltac:(discriminate)) as (sepz & T & -> & HL & ->). cbn [app].
    exists (islots (it :: its)). split; [lia|].
    destruct (iseq_reads dec2f dec2d _ _ HL) as [Hc Hs]. split; [exact Hc|]. split; [exact Hs|].
    rewrite <- Horig. exact (expand_items dec2f dec2d _ _ _ HL).
Qed.
End Final.

Lemma expand_scalars vs : Forall scalar vs -> expand vs = Some vs.
Proof.
  unfold expand. induction 1 as [|v vs Hv Hs IH]; [reflexivity|].
  cbn [length]. rewrite (expand_f_val (S (length vs)) v vs Hv), IH. reflexivity.
Qed.

(* for every option record - compression on or off *)
Theorem roundtrip_any (dec2f dec2d : list Z -> Z) o zf zd vs text w :
  zchoice zf zd ->
  Forall (goodc o zf zd) vs -> Z.of_nat (length vs) < 2 ^ 31 ->
  print_arg_vals o vs 0 = Some (text, w) ->
  exists slots,
    w = len text /\
    count_printed_arg_vals dec2f dec2d text = Ok (true, Z.of_nat (length slots)) /\
    scan_arg_vals dec2f dec2d text (Z.of_nat (length slots)) = Ok (slots, []) /\
    expand slots = Some vs.
Proof.
  intros Hz Hg Hlen Hp. destruct (compress o) eqn:Ec.
  - exact (roundtrip_compressed dec2f dec2d o zf zd vs text w Hz Ec Hg Hlen Hp).
  - assert (Htok : forall v cols t w c, goodc o zf zd v -> print_scalar o v cols = Some (t, w, c) ->
                     tokof dec2f dec2d v t /\ w = len t).
    { intros v cols t w0 c Hv Hps. destruct (goodc_tok dec2f dec2d o zf zd v cols t w0 c Hv Hps) as (A & _ & B). now split. }
    destruct (print_arg_vals_lang dec2f dec2d o (goodc o zf zd) Htok (fun v Hv => proj1 (goodc_facts o zf zd v Hv)) Ec vs text w Hg Hp)
      as [HL Hw].
    exists vs. split; [exact Hw|]. split; [now apply count_lang|]. split; [now apply scan_lang|]. apply expand_scalars.
    eapply Forall_impl; [|exact Hg]. intros a Ha. apply (goodc_facts o zf zd a Ha).
Qed.

Lemma roundtrip_any_example : forall o,
  Forall (goodv o) ([VT; VT; VT; VT; VT; VI 7] ++ map VI [1; 2; 3; 4; 5; 6] ++ map VH [10; 20; 30; 40; 50]) /\
  exists text w, print_arg_vals {| lossless := true; prec := 2; linelength := 20; compress := true |}
    ([VT; VT; VT; VT; VT; VI 7] ++ map VI [1; 2; 3; 4; 5; 6] ++ map VH [10; 20; 30; 40; 50]) 0 = Some (text, w).
Proof.
  intros o. split.
  - cbn [app map]. repeat (constructor; [left; cbn; unfold small_k, good_k; try exact I; lia|]). constructor.
  - eexists _, _. vm_compute. reflexivity.
Qed.

(* floats in a list: a constant run, a double, a subnormal; a bare symbol, a blob *)
Definition ex_fl_opts : popts := {| lossless := true; prec := 2; linelength := 30; compress := true |}.
Definition ex_fl_list : list av :=
  repeat (VFl 1069547520) 6 ++ [VD 4591870180066957722; VFl 1; VI 3; VSym [97; 95; 49]; VB [1; 255; 16]].
Lemma float_list_example :
  Forall (goodv ex_fl_opts) ex_fl_list /\ nozmix ex_fl_list /\
  exists text w, print_arg_vals ex_fl_opts ex_fl_list 0 = Some (text, w).
Proof.
  split; [|split].
  - unfold ex_fl_list. cbn [repeat app].
    repeat (constructor; [first [left; cbn; unfold small_k, good_k; lia
                                |right; left; cbn [goodx]; first [reflexivity|repeat constructor; unfold byte_ok; lia]
                                |right; right; split; [reflexivity|]; cbn [goodfin]; split; [lia|reflexivity]]|]).
    constructor.
  - split; left; unfold ex_fl_list; cbn [repeat app In]; intros H;
      repeat (destruct H as [H|H]; [discriminate H|]); exact H.
  - eexists _, _. vm_compute. reflexivity.
Qed.

(* ------------------------------------------------------------------------- *)
(* whole messages, compression on or off                                      *)
Section MsgAny.
Variables dec2f dec2d : list Z -> Z.

Theorem message_roundtrip_compressed o zf zd addr vs text w :
  zchoice zf zd -> compress o = true -> good_addr addr -> Forall (goodc o zf zd) vs -> Z.of_nat (length vs) < 2 ^ 31 ->
  print_message o addr vs 0 = Some (text, w) ->
  exists slots,
    w = len text /\
    count_printed_arg_vals_of_msg dec2f dec2d text = Ok (true, Z.of_nat (length slots)) /\
    scan_message dec2f dec2d text (Z.of_nat (length slots)) = Ok (addr, slots, []) /\
    expand slots = Some vs.
Proof.
  intros Hz Hon [[ar Ea] Hns] Hg Hlen Hp. unfold print_message in Hp.
  destruct (print_vals_loop (S (length vs)) o vs None 0 (Z.of_nat (length vs)) addr true 0
              (0 + (len addr + 1)) (if 0 + (len addr + 1) =? 0 then 0 else 1)) as [[t w']|] eqn:El;
    [|discriminate].
  inversion Hp; subst text w; clear Hp.
  assert (Hsk : forall tail f, skip_comments_ws f (addr ++ tail) = addr ++ tail)
    by (intros; rewrite Ea; cbn [app]; apply skip_comments_ws_no; lia).
  assert (Hhd : forall tail, hd0 (addr ++ tail) = 47) by (intros; rewrite Ea; reflexivity).
  assert (Hnw : forall tail, skip_ws (addr ++ tail) = addr ++ tail)
    by (intros; apply skip_ws_nonspace; rewrite Hhd; reflexivity).
  destruct vs as [|v vs'].
  - cbn in El. inversion El; subst t w'. cbn [length Z.of_nat Z.eqb].
    assert (Hd := dropwhile_nonspace addr [32] Hns (or_intror eq_refl)). destruct Hd as [Hd Ht].
    exists []. split; [rewrite len_app; cbn; unfold len; cbn; lia|].
    unfold count_printed_arg_vals_of_msg, scan_message.
    rewrite !Hnw, !Hsk, !Hhd. cbn [Z.eqb Pos.eqb negb]. rewrite Hd, Ht.
    repeat split; reflexivity.
  - apply (print_loop_iseq dec2f dec2d o Hon zf zd Hz) in El; try assumption; try lia; try discriminate.
    destruct El as (its & sfx & -> & -> & Hseq & Horig & _).
    assert (Hne : its <> []) by (intros ->; cbn in Horig; discriminate).
    destruct (iseq_from_iseq dec2f dec2d _ _ _ _ Hseq Hne) as (sepz & T & -> & HL & Hsep).
    assert (Hz0 : (Z.of_nat (length (v :: vs')) =? 0) = false) by (apply Z.eqb_neq; cbn [length]; lia). rewrite !Hz0.
    destruct its as [|it its']; [congruence|].
    destruct (iseq_first dec2f dec2d _ _ _ _ HL) as (c & r & -> & Hc).
    assert (Hsp : sepz ++ c :: r = [] \/ isspace (hd0 (sepz ++ c :: r)) = true).
    { right. destruct Hsep as [Hne' Hall]. destruct sepz as [|x s]; [congruence|]. now inversion Hall. }
    destruct (dropwhile_nonspace addr (sepz ++ c :: r) Hns Hsp) as [Hd Ht].
    assert (Hws : skip_ws (sepz ++ c :: r) = c :: r).
    { apply skip_ws_sep; [apply Hsep|]. rewrite hd0_cons. apply Hc. }
    exists (islots (it :: its')). split; [rewrite !len_app in *; lia|].
    destruct (iseq_reads dec2f dec2d _ _ HL) as [Hcnt Hscan].
    unfold count_printed_arg_vals_of_msg, scan_message.
    rewrite !Hnw, !Hsk, !Hhd. cbn [Z.eqb Pos.eqb negb]. rewrite Hd, Ht, Hws.
    split; [|split].
    + unfold count_printed_arg_vals in *. rewrite Hws.
      destruct Hc as (H0 & H47 & H37 & Hsp' & H46 & H40).
      rewrite skip_comments_ws_no by assumption.
      rewrite skip_ws_nonspace in Hcnt by now rewrite hd0_cons.
      rewrite skip_comments_ws_no in Hcnt by assumption.
      rewrite (count_loop_iseq dec2f dec2d _ _ _ HL); [reflexivity|reflexivity|].
      rewrite app_length. cbn [length]. lia.
    + now rewrite Hscan.
    + rewrite <- Horig. exact (expand_items dec2f dec2d _ _ _ HL).
Qed.

Theorem message_roundtrip_any o zf zd addr vs text w :
  zchoice zf zd ->
  good_addr addr -> Forall (goodc o zf zd) vs -> Z.of_nat (length vs) < 2 ^ 31 ->
  print_message o addr vs 0 = Some (text, w) ->
  exists slots,
    w = len text /\
    count_printed_arg_vals_of_msg dec2f dec2d text = Ok (true, Z.of_nat (length slots)) /\
    scan_message dec2f dec2d text (Z.of_nat (length slots)) = Ok (addr, slots, []) /\
    expand slots = Some vs.
Proof.
  intros Hz Ha Hg Hlen Hp. destruct (compress o) eqn:Ec.
  - exact (message_roundtrip_compressed o zf zd addr vs text w Hz Ec Ha Hg Hlen Hp).
  - assert (Htok : forall v cols t w c, goodc o zf zd v -> print_scalar o v cols = Some (t, w, c) ->
                     tokof dec2f dec2d v t /\ w = len t).
    { intros v cols t w0 c Hv Hps. destruct (goodc_tok dec2f dec2d o zf zd v cols t w0 c Hv Hps) as (A & _ & B). now split. }
    destruct (message_roundtrip_gen dec2f dec2d o (goodc o zf zd) Htok (fun v Hv => proj1 (goodc_facts o zf zd v Hv))
                addr vs text w Ec Ha Hg Hp) as (Hw & Hc & Hs).
    exists vs. repeat split; try assumption. apply expand_scalars.
    eapply Forall_impl; [|exact Hg]. intros a Hx. apply (goodc_facts o zf zd a Hx).
Qed.
End MsgAny.

(* ------------------------------------------------------------------------- *)
(* the side condition in the form the classifier of the check uses it:        *)
(* +0.0 and -0.0 of one type do not both occur (signed-zero-run)              *)
Lemma zero_choice o vs : Forall (goodv o) vs -> nozmix vs ->
  exists zf zd, zchoice zf zd /\ Forall (goodc o zf zd) vs.
Proof.
  intros Hg [Hf Hd].
  assert (Ef : exists zf, (zf = 0 \/ zf = 2 ^ 31) /\ ~ In (VFl zf) vs) by (destruct Hf; eauto).
  assert (Ed : exists zd, (zd = 0 \/ zd = 2 ^ 63) /\ ~ In (VD zd) vs) by (destruct Hd; eauto).
  destruct Ef as (zf & Hzf & Hnf). destruct Ed as (zd & Hzd & Hnd).
  exists zf, zd. split; [split; assumption|].
  apply Forall_forall. intros v Hin. pose proof (proj1 (Forall_forall _ _) Hg v Hin) as [H0|[H0|[Hl Hv]]]; [now left|right; now left|right].
  right. split; [exact Hl|]. destruct v; cbn [goodfin] in Hv; try contradiction; cbn [goodfl]; destruct Hv as [Hb Hfin].
  - split; [exact Hb|]. split; [exact Hfin|]. intros ->. contradiction.
  - split; [exact Hb|]. split; [exact Hfin|]. intros ->. contradiction.
Qed.

Theorem roundtrip_any_nz (dec2f dec2d : list Z -> Z) o vs text w :
  Forall (goodv o) vs -> nozmix vs -> Z.of_nat (length vs) < 2 ^ 31 ->
  print_arg_vals o vs 0 = Some (text, w) ->
  exists slots,
    w = len text /\
    count_printed_arg_vals dec2f dec2d text = Ok (true, Z.of_nat (length slots)) /\
    scan_arg_vals dec2f dec2d text (Z.of_nat (length slots)) = Ok (slots, []) /\
    expand slots = Some vs.
Proof.
  intros Hg Hnz. destruct (zero_choice o vs Hg Hnz) as (zf & zd & Hz & Hg').
  exact (roundtrip_any dec2f dec2d o zf zd vs text w Hz Hg').
Qed.

Theorem message_roundtrip_any_nz (dec2f dec2d : list Z -> Z) o addr vs text w :
  good_addr addr -> Forall (goodv o) vs -> nozmix vs -> Z.of_nat (length vs) < 2 ^ 31 ->
  print_message o addr vs 0 = Some (text, w) ->
  exists slots,
    w = len text /\
    count_printed_arg_vals_of_msg dec2f dec2d text = Ok (true, Z.of_nat (length slots)) /\
    scan_message dec2f dec2d text (Z.of_nat (length slots)) = Ok (addr, slots, []) /\
    expand slots = Some vs.
Proof.
  intros Ha Hg Hnz. destruct (zero_choice o vs Hg Hnz) as (zf & zd & Hz & Hg').
  exact (message_roundtrip_any dec2f dec2d o zf zd addr vs text w Hz Ha Hg').
Qed.
