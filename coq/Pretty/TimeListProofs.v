(* C10 - lists WITH time tags, printer to scanner: for every option record with
   compression off, every list of the proved scalar values and of time tags that
   are "immediately", whole seconds with a clock time other than 00:00:00, or -
   lossless option - have a fraction that fits a float: the returned length is the
   length of the text, the checker counts the values, the scanner consumes the
   whole text and returns exactly the list. *)
From Coq Require Import List ZArith Bool Lia ZifyBool.
From RtoscV Require Import Pretty.Tok Pretty.FloatFmt Pretty.TimeFmt Pretty.PrintModel Pretty.ScanModel
  Pretty.PrettyProofs Pretty.FloatProofs Pretty.TimeProofs Pretty.RangeProofs Pretty.RunProofs.
From RtoscV Require Import Pretty.TimeTokProofs Pretty.TimeSkipProofs Pretty.TimeFracProofs Pretty.TimeFracSkipProofs Pretty.TimeTokofProofs.
Import ListNotations.
Local Open Scope Z_scope.

Definition good_timetag (o : popts) (t : Z) : Prop :=
  t = 1 \/
  (exists secs, 0 <= secs < 2 ^ 32 /\ secs mod 86400 <> 0 /\ t = secs * 2 ^ 32) \/
  (lossless o = true /\ exists secs sf, 0 <= secs < 2 ^ 32 /\ frac_fits_float sf /\ t = secs * 2 ^ 32 + sf /\ t <> 1).

Definition good_val_tt (o : popts) (v : av) : Prop :=
  good_val v \/ match v with VTm t => good_timetag o t | _ => False end.

Section Lists.
Variables dec2f dec2d : str -> Z.

Lemma tt_scalar_tok o v cols t w c :
  good_val_tt o v -> print_scalar o v cols = Some (t, w, c) -> tokof dec2f dec2d v t /\ w = len t.
Proof.
  intros [Hg|Ht] Hp; [now apply (scalar_tok dec2f dec2d o v cols t w c)|].
  destruct v; try contradiction. cbn [print_scalar] in Hp. inversion Hp; subst. split; [|reflexivity].
  destruct Ht as [->|[(secs & Hs & Hclk & ->)|(Hlo & secs & sf & Hs & Hfit & -> & Hne)]].
  - apply timetag_tokof_immediately.
  - now apply timetag_tokof_clock.
  - now apply timetag_tokof_fraction.
Qed.

Lemma good_val_tt_scalar o v : good_val_tt o v -> scalar v.
Proof. intros [Hg|Ht]; [now apply good_val_scalar|]. destruct v; try contradiction. exact I. Qed.

Theorem roundtrip_with_timetags o vs text w :
  compress o = false ->
  Forall (good_val_tt o) vs -> print_arg_vals o vs 0 = Some (text, w) ->
  w = len text /\
  count_printed_arg_vals dec2f dec2d text = Ok (true, Z.of_nat (length vs)) /\
  scan_arg_vals dec2f dec2d text (Z.of_nat (length vs)) = Ok (vs, []).
Proof.
  intros Hoff Hg Hp.
  destruct (print_arg_vals_lang dec2f dec2d o (good_val_tt o) (tt_scalar_tok o) (good_val_tt_scalar o) Hoff vs text w Hg Hp) as [HL ->].
  split; [reflexivity|]. split; [now apply count_lang | now apply scan_lang].
Qed.

(* ... and whole messages: address, then such values *)
Theorem message_roundtrip_with_timetags o addr vs text w :
  compress o = false -> good_addr addr -> Forall (good_val_tt o) vs ->
  print_message o addr vs 0 = Some (text, w) ->
  w = len text /\
  count_printed_arg_vals_of_msg dec2f dec2d text = Ok (true, Z.of_nat (length vs)) /\
  scan_message dec2f dec2d text (Z.of_nat (length vs)) = Ok (addr, vs, []).
Proof.
  exact (message_roundtrip_gen dec2f dec2d o (good_val_tt o) (tt_scalar_tok o) (good_val_tt_scalar o) addr vs text w).
Qed.
End Lists.

(* the class is inhabited and the printer answers on it: 1, 2016-11-14 17:26,
   2016-11-14 17:26:30.375, immediately, true, "a b" *)
Definition ex_tt_list : list av := [VI 1; VTm ex_t1; VTm ex_t2; VTm 1; VT; VS [97; 32; 98]].
Lemma ex_tt_list_good : Forall (good_val_tt ex_o) ex_tt_list.
Proof.
  assert (H1 : good_val_tt ex_o (VI 1)) by (left; cbn; lia).
  assert (H2 : good_val_tt ex_o (VTm ex_t1)).
  { right. right. left. exists 1479144360. split; [lia|]. split; [discriminate|reflexivity]. }
  assert (H3 : good_val_tt ex_o (VTm ex_t2)).
  { right. right. right. split; [reflexivity|]. exists 1479144390, (3 * 2 ^ 29).
    split; [lia|]. split; [exists 3, 29; lia|]. split; [reflexivity|unfold ex_t2; lia]. }
  assert (H4 : good_val_tt ex_o (VTm 1)) by (right; left; reflexivity).
  assert (H5 : good_val_tt ex_o VT) by (left; exact I).
  assert (H6 : good_val_tt ex_o (VS [97; 32; 98])) by (left; cbn; repeat constructor; lia).
  unfold ex_tt_list. repeat (apply Forall_cons; [assumption|]). apply Forall_nil.
Qed.
Lemma ex_tt_list_prints : exists text w, print_arg_vals ex_o ex_tt_list 0 = Some (text, w).
Proof. eexists _, _. vm_compute. reflexivity. Qed.
