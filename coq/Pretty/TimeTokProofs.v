(* C10 - time tags at the level of the text: the date branch of the scanner
   (scan_date = the sscanf calls of case 't' in rtosc_scan_arg_val) reads the text
   the printer writes for a time tag of whole seconds (strftime with one of its
   three formats: date / date and clock / date, clock and seconds) back to exactly
   that time tag and stops exactly behind it - for EVERY 32-bit number of seconds
   and whatever follows the token, as long as what follows cannot be taken for a
   continuation of the token (a clock time, ":", "."). *)
From Coq Require Import List ZArith Bool Lia ZifyBool.
From RtoscV Require Import Pretty.Tok Pretty.FloatFmt Pretty.TimeFmt Pretty.PrintModel Pretty.ScanModel
  Pretty.PrettyProofs Pretty.FloatProofs Pretty.TimeProofs.
Import ListNotations.
Local Open Scope Z_scope.

(* ---- digits --------------------------------------------------------------- *)
Lemma digit_not_space c : isdigit c = true -> isspace c = false.
Proof. unfold isdigit, isspace, in_range. lia. Qed.
Lemma digit_eqb45 c : isdigit c = true -> (c =? 45) = false.
Proof. unfold isdigit, in_range. lia. Qed.
Lemma digit_eqb43 c : isdigit c = true -> (c =? 43) = false.
Proof. unfold isdigit, in_range. lia. Qed.
Lemma digit_val c : isdigit c = true -> digval c = c - 48.
Proof. intros H. unfold digval. now rewrite H. Qed.

Lemma sc_d_w_head w a r : isdigit a = true -> w <> O ->
  sc_d_w w (a :: r) = let (v, r') := read_digs_w w isdigit 10 (a :: r) 0 in Some (v, r').
Proof.
  intros Ha Hw. unfold sc_d_w, skip_ws. cbn [dropwhile]. rewrite (digit_not_space a Ha).
  unfold sc_sign. rewrite (digit_eqb45 a Ha), (digit_eqb43 a Ha). rewrite Nat.eqb_refl.
  unfold hd0, at_. cbn [nth]. rewrite Ha.
  destruct w as [|w']; [contradiction|]. cbn [Nat.eqb negb andb].
  destruct (read_digs_w (S w') isdigit 10 (a :: r) 0) as [v r']. reflexivity.
Qed.

Lemma sc_d_w_2 a b r : isdigit a = true -> isdigit b = true ->
  sc_d_w 2 (a :: b :: r) = Some ((a - 48) * 10 + (b - 48), r).
Proof.
  intros Ha Hb. rewrite sc_d_w_head by (assumption || discriminate).
  cbn [read_digs_w]. rewrite Ha, Hb, (digit_val a Ha), (digit_val b Hb). reflexivity.
Qed.

Lemma sc_d_w_4 a b c d r : isdigit a = true -> isdigit b = true -> isdigit c = true -> isdigit d = true ->
  sc_d_w 4 (a :: b :: c :: d :: r) = Some ((((a - 48) * 10 + (b - 48)) * 10 + (c - 48)) * 10 + (d - 48), r).
Proof.
  intros Ha Hb Hc Hd. rewrite sc_d_w_head by (assumption || discriminate).
  cbn [read_digs_w]. rewrite Ha, Hb, Hc, Hd, (digit_val a Ha), (digit_val b Hb), (digit_val c Hc), (digit_val d Hd).
  reflexivity.
Qed.

Ltac Zify.zify_post_hook ::= Z.div_mod_to_equations.
Lemma d2_digits n : 0 <= n < 100 ->
  exists a b, d2 n = [a; b] /\ isdigit a = true /\ isdigit b = true /\ (a - 48) * 10 + (b - 48) = n.
Proof.
  intros Hn. exists (48 + n / 10 mod 10), (48 + n mod 10). split; [reflexivity|].
  unfold isdigit, in_range. repeat split; lia.
Qed.
Ltac Zify.zify_post_hook ::= idtac.

(* the years a 32-bit number of seconds reaches have four digits (finite sweep,
   lifted) *)
Definition year_digits (y : Z) : str :=
  [48 + y / 1000; 48 + y / 100 mod 10; 48 + y / 10 mod 10; 48 + y mod 10].
Definition year_ok (k : nat) : bool :=
  let y := 1970 + Z.of_nat k in
  if list_eq_dec Z.eq_dec (dec_nat y) (year_digits y) then forallb isdigit (year_digits y) else false.
Lemma years_sweep : forallb year_ok (seq 0 231) = true.
Proof. vm_compute. reflexivity. Qed.
Lemma dec_nat_year y : 1970 <= y <= 2200 ->
  exists a b c d, dec_nat y = [a; b; c; d] /\ isdigit a = true /\ isdigit b = true /\ isdigit c = true /\
                  isdigit d = true /\ (((a - 48) * 10 + (b - 48)) * 10 + (c - 48)) * 10 + (d - 48) = y.
Proof.
  intros Hy. pose proof years_sweep as H. rewrite forallb_forall in H.
  specialize (H (Z.to_nat (y - 1970))). unfold year_ok in H.
  replace (1970 + Z.of_nat (Z.to_nat (y - 1970))) with y in H by lia.
  assert (Hin : In (Z.to_nat (y - 1970)) (seq 0 231)) by (apply in_seq; lia).
  specialize (H Hin). destruct (list_eq_dec Z.eq_dec (dec_nat y) (year_digits y)) as [E|]; [|discriminate].
  unfold year_digits in *. cbn [forallb] in H. rewrite !andb_true_iff in H. destruct H as (Ha & Hb & Hc & Hd & _).
  eexists _, _, _, _. split; [exact E|]. repeat split; try assumption.
  Ltac Zify.zify_post_hook ::= Z.div_mod_to_equations. lia.
Qed.
Ltac Zify.zify_post_hook ::= idtac.

(* ---- the three sscanf calls on the fields -------------------------------- *)
Lemma lit_eq c r : lit c (c :: r) = Some r.
Proof. unfold lit. now rewrite Z.eqb_refl. Qed.

Lemma run_date_head y mo d tail : 1970 <= y <= 2200 -> 0 <= mo < 100 -> 0 <= d < 100 ->
  run_fmt [Ddw 4; DLit 45; Ddw 2; DLit 45; Ddw 2] (dec_nat y ++ 45 :: d2 mo ++ 45 :: d2 d ++ tail) [] =
  Some ([y; mo; d], tail).
Proof.
  intros Hy Hmo Hd.
  destruct (dec_nat_year y Hy) as (a & b & c & e & -> & Ha & Hb & Hc & He & Ey).
  destruct (d2_digits mo Hmo) as (m1 & m0 & -> & Hm1 & Hm0 & Em).
  destruct (d2_digits d Hd) as (d1 & d0 & -> & Hd1 & Hd0 & Ed).
  cbn [app run_fmt]. rewrite (sc_d_w_4 a b c e) by assumption. rewrite lit_eq.
  rewrite (sc_d_w_2 m1 m0) by assumption. rewrite lit_eq. rewrite (sc_d_w_2 d1 d0) by assumption.
  cbn [rev app]. now rewrite Ey, Em, Ed.
Qed.

Lemma run_clock h mi tail : 0 <= h < 100 -> 0 <= mi < 100 ->
  run_fmt [DWs; Ddw 2; DLit 58; Ddw 2] (32 :: d2 h ++ 58 :: d2 mi ++ tail) [] = Some ([h; mi], tail).
Proof.
  intros Hh Hmi.
  destruct (d2_digits h Hh) as (h1 & h0 & -> & Hh1 & Hh0 & Eh).
  destruct (d2_digits mi Hmi) as (m1 & m0 & -> & Hm1 & Hm0 & Em).
  cbn [app run_fmt]. unfold skip_ws. cbn [dropwhile]. change (isspace 32) with true. cbv iota.
  rewrite (digit_not_space h1 Hh1). rewrite (sc_d_w_2 h1 h0) by assumption. rewrite lit_eq.
  rewrite (sc_d_w_2 m1 m0) by assumption. cbn [rev app]. now rewrite Eh, Em.
Qed.

Lemma run_seconds se tail : 0 <= se < 100 ->
  run_fmt [DLit 58; Ddw 2] (58 :: d2 se ++ tail) [] = Some ([se], tail).
Proof.
  intros Hse. destruct (d2_digits se Hse) as (s1 & s0 & -> & Hs1 & Hs0 & Es).
  cbn [app run_fmt]. rewrite lit_eq. rewrite (sc_d_w_2 s1 s0) by assumption. cbn [rev app]. now rewrite Es.
Qed.

Lemma run_seconds_none rest : hd0 rest <> 58 -> run_fmt [DLit 58; Ddw 2] rest [] = None.
Proof.
  intros H. cbn [run_fmt]. unfold lit. destruct rest as [|x r]; [reflexivity|].
  unfold hd0, at_ in H. cbn [nth] in H. destruct (Z.eqb_spec x 58); [contradiction|reflexivity].
Qed.

(* what may follow the token: nothing the three optional sscanf calls would take *)
Definition tt_rest_ok (rest : str) : Prop :=
  run_fmt [DWs; Ddw 2; DLit 58; Ddw 2] rest [] = None /\ hd0 rest <> 58 /\ hd0 rest <> 46.

Ltac norm_app := repeat (rewrite <- app_assoc || rewrite <- app_comm_cons || rewrite app_nil_r || rewrite app_nil_l).

(* ---- THE TOKEN ------------------------------------------------------------ *)
(* the clock clause of tt_rest_ok is needed only behind a date that stands alone
   (midnight) *)
Theorem timetag_token_whole_seconds_gen (dec2f : list Z -> Z) o secs rest : 0 <= secs < 2 ^ 32 ->
  (secs mod 86400 = 0 -> run_fmt [DWs; Ddw 2; DLit 58; Ddw 2] rest [] = None) ->
  hd0 rest <> 58 -> hd0 rest <> 46 ->
  scan_date dec2f (print_timetag o (secs * 2 ^ 32) ++ rest) = Ok ([VTm (secs * 2 ^ 32)], rest).
Proof.
  intros Hs Hclock0 H58 H46.
  assert (Hdot : (hd0 rest =? 46) = false) by (now apply Z.eqb_neq).
  unfold print_timetag.
  replace (secs * 2 ^ 32 =? 1) with false by (symmetry; apply Z.eqb_neq; lia).
  rewrite Z.div_mul by lia. rewrite Z.mod_mul by lia.
  pose proof (calendar_roundtrip secs Hs) as Hc.
  destruct (date_of_secs secs) as [[[[[y mo] d] h] mi] se].
  destruct Hc as (Esecs & Hy & Hmo & Hd & Hh & Hmi & Hse).
  change (0 =? 0) with true. cbn [negb orb].
  assert (Eval_ : forall sf', sf' = 0 ->
            secs_of_date y mo d h mi se mod 2 ^ 32 * 2 ^ 32 + sf' mod 2 ^ 32 = secs * 2 ^ 32).
  { intros sf' ->. rewrite Esecs, Z.mod_small by lia. rewrite Z.mod_0_l by lia. lia. }
  destruct (se =? 0) eqn:Ese; cbn [negb].
  - apply Z.eqb_eq in Ese. destruct (negb (h =? 0) || negb (mi =? 0)) eqn:Ehm.
    + (* date and clock *)
      unfold scan_date. norm_app.
      rewrite run_date_head by lia. cbv beta iota.
      rewrite run_clock by lia. cbv beta iota.
      rewrite run_seconds_none by assumption. cbv beta iota. rewrite Hdot. cbv beta iota.
      subst se. rewrite Eval_ by reflexivity. reflexivity.
    + (* the date alone *)
      apply orb_false_iff in Ehm. destruct Ehm as (Eh & Emi).
      apply negb_false_iff in Eh, Emi. apply Z.eqb_eq in Eh, Emi.
      assert (Hclock : run_fmt [DWs; Ddw 2; DLit 58; Ddw 2] rest [] = None).
      { apply Hclock0. rewrite <- Esecs. unfold secs_of_date. subst h mi se.
        rewrite !Z.mul_0_l, !Z.add_0_r. apply Z.mod_mul. lia. }
      unfold scan_date. norm_app.
      rewrite run_date_head by lia. cbv beta iota.
      rewrite Hclock. cbv beta iota.
      rewrite run_seconds_none by assumption. cbv beta iota. rewrite Hdot. cbv beta iota.
      subst se h mi. rewrite Eval_ by reflexivity. reflexivity.
  - (* date, clock and seconds *)
    unfold scan_date. norm_app.
    rewrite run_date_head by lia. cbv beta iota.
    rewrite run_clock by lia. cbv beta iota.
    rewrite run_seconds by lia. cbv beta iota. rewrite Hdot. cbv beta iota.
    rewrite Eval_ by reflexivity. reflexivity.
Qed.

Theorem timetag_token_whole_seconds (dec2f : list Z -> Z) o secs rest : 0 <= secs < 2 ^ 32 -> tt_rest_ok rest ->
  scan_date dec2f (print_timetag o (secs * 2 ^ 32) ++ rest) = Ok ([VTm (secs * 2 ^ 32)], rest).
Proof. intros Hs (Hclock & H58 & H46). now apply timetag_token_whole_seconds_gen. Qed.

(* the premise on what follows is met by the end of the text, by a following
   value and by the closing bracket of an array *)
Example tt_rest_ok_examples :
  tt_rest_ok [] /\ tt_rest_ok [32; 49; 50] /\ tt_rest_ok [93] /\ tt_rest_ok [32; 46; 46; 46; 32].
Proof. repeat split; (vm_compute; congruence) || (vm_compute; reflexivity). Qed.

