(* C10 - time tags as TOKENS of the list-level theorems: the printed text of a
   time tag is a token (tokof) of the whole-function recognisers - so every text
   made of such tokens and the other proved tokens, separated by any white space,
   is counted and scanned back (C10_linebreak_transparent) - for
     (A) whole seconds with a clock time other than 00:00:00, any options;
     (B) a fraction that fits a float, lossless option.
   A date that stands alone (midnight) is a token only where no "hh:mm" follows:
   timetag_token_whole_seconds. *)
From Coq Require Import List ZArith Bool Lia ZifyBool.
From RtoscV Require Import Pretty.Tok Pretty.FloatFmt Pretty.TimeFmt Pretty.PrintModel Pretty.ScanModel
  Pretty.PrettyProofs Pretty.FloatProofs Pretty.TimeProofs Pretty.RangeProofs Pretty.ListProofs.
From RtoscV Require Import Pretty.TimeTokProofs Pretty.TimeSkipProofs Pretty.TimeFracProofs Pretty.TimeFracSkipProofs.
Import ListNotations.
Local Open Scope Z_scope.

Lemma rest_ok0_hd rest : rest_ok0 rest -> hd0 rest <> 58 /\ hd0 rest <> 46.
Proof.
  intros H. destruct (rest_ok_inv rest H) as [->|(c & r & -> & Hc)]; [split; discriminate|].
  rewrite hd0_cons. lia.
Qed.

(* every printed time tag other than "immediately" starts with the four digits
   of its year and a '-' *)
Lemma timetag_text_head o t : 0 <= t < 2 ^ 64 -> t <> 1 ->
  exists a b c d tail, print_timetag o t = a :: b :: c :: d :: 45 :: tail /\
    isdigit a = true /\ isdigit b = true /\ isdigit c = true /\ isdigit d = true.
Proof.
  intros Ht Hne. unfold print_timetag. replace (t =? 1) with false by (symmetry; now apply Z.eqb_neq).
  assert (Hs : 0 <= t / 2 ^ 32 < 2 ^ 32) by (split; [apply Z.div_pos; lia|apply Z.div_lt_upper_bound; lia]).
  pose proof (calendar_roundtrip (t / 2 ^ 32) Hs) as Hc.
  destruct (date_of_secs (t / 2 ^ 32)) as [[[[[y mo] d] h] mi] se].
  destruct Hc as (_ & Hy & _).
  destruct (dec_nat_year y Hy) as (a & b & c & e & -> & Ha & Hb & Hc & He & _).
  destruct (negb (t mod 2 ^ 32 =? 0) || negb (se =? 0)); [|destruct (negb (h =? 0) || negb (mi =? 0))];
    cbn [app]; eexists _, _, _, _, _; (split; [reflexivity|tauto]).
Qed.

Section Tokens.
Variables dec2f dec2d : str -> Z.

(* the two recognisers reach their date branches on such a text *)
Lemma date_dispatch a b c d tail :
  isdigit a = true -> isdigit b = true -> isdigit c = true -> isdigit d = true ->
  let T := a :: b :: c :: d :: 45 :: tail in
  same_pos (skip_fmt fmt_date T) T = false ->
  (forall rec ib, skip_core rec T ib =
     match skip_date (skip_fmt fmt_date T) with Ok (r, k, ty) => Ok (r, k, ty, 0) | Null => Null | Unmod => Unmod | NoFuel => NoFuel end) /\
  (forall rec, scan_core dec2f dec2d rec T = scan_date dec2f T) /\ first_ok a.
Proof.
  intros Ha Hb Hc Hd T Hadv.
  pose proof Ha as Ha'. apply isdigit_spec in Ha'.
  assert (Hfc : first_class a = FC_other).
  { unfold first_class.
    repeat match goal with |- context [a =? ?k] => replace (a =? k) with false by lia end. reflexivity. }
  assert (Hid : isidstart a = false) by (unfold isidstart, isalpha, isupper, islower, in_range; lia).
  assert (Hrm : is_range_multiplier T = false).
  { unfold T. cbn [is_range_multiplier dropwhile]. rewrite Hb, Hc, Hd. change (isdigit 45) with false. cbv iota.
    rewrite hd0_cons. change (45 =? 120) with false. now rewrite andb_false_r. }
  split; [|split].
  - intros rec ib. unfold skip_core. fold T. unfold T at 1. rewrite Hfc. fold T. rewrite Hrm, Hid, Hadv. reflexivity.
  - intros rec. unfold scan_core. fold T. unfold T at 1. rewrite Hfc. fold T. rewrite Hrm, Hid, Hadv. reflexivity.
  - apply first_ok_num. lia.
Qed.

Lemma timetag_tok_core_of o t :
  0 <= t < 2 ^ 64 -> t <> 1 ->
  (forall rest, rest_ok0 rest ->
     scan_date dec2f (print_timetag o t ++ rest) = Ok ([VTm t], rest) /\
     same_pos (skip_fmt fmt_date (print_timetag o t ++ rest)) (print_timetag o t ++ rest) = false /\
     skip_date (skip_fmt fmt_date (print_timetag o t ++ rest)) = Ok (rest, 1, 116)) ->
  tokof dec2f dec2d (VTm t) (print_timetag o t).
Proof.
  intros Ht Hne H.
  destruct (timetag_text_head o t Ht Hne) as (a & b & c & d & tail & E & Ha & Hb & Hc & Hd).
  split; [|split; [|exact I]].
  - apply tok_core_reads. intros rest Hr. destruct (H rest Hr) as (Hscan & Hadv & Hskip).
    rewrite E in *. cbn [app] in *.
    destruct (date_dispatch a b c d (tail ++ rest) Ha Hb Hc Hd Hadv) as (Dk & Dc & _).
    split; intros.
    + rewrite Dk, Hskip. reflexivity.
    + rewrite Dc. exact Hscan.
  - exists a, (b :: c :: d :: 45 :: tail). split; [exact E|].
    apply first_ok_num. apply isdigit_spec in Ha. lia.
Qed.

(* (A) whole seconds, clock time other than 00:00:00 *)
Theorem timetag_tokof_clock o secs : 0 <= secs < 2 ^ 32 -> secs mod 86400 <> 0 ->
  tokof dec2f dec2d (VTm (secs * 2 ^ 32)) (print_timetag o (secs * 2 ^ 32)).
Proof.
  intros Hs Hclk. apply timetag_tok_core_of; [lia|lia|].
  intros rest Hr. destruct (rest_ok0_hd rest Hr) as (H58 & H46).
  split; [apply timetag_token_whole_seconds_gen; (assumption || (intros; contradiction))|].
  apply (timetag_skip_whole_seconds_gen o secs rest); (assumption || (intros; contradiction)).
Qed.

(* (B) a fraction that fits a float, lossless option *)
Theorem timetag_tokof_fraction o secs sf :
  lossless o = true -> 0 <= secs < 2 ^ 32 -> frac_fits_float sf -> secs * 2 ^ 32 + sf <> 1 ->
  tokof dec2f dec2d (VTm (secs * 2 ^ 32 + sf)) (print_timetag o (secs * 2 ^ 32 + sf)).
Proof.
  intros Hlo Hs Hfit Hne.
  assert (Hsf : 0 < sf < 2 ^ 32).
  { destruct Hfit as (m & j & E & Hm & Hj & Hlt). pose proof (pow2_gt0 j Hj). nia. }
  apply timetag_tok_core_of; [lia|assumption|].
  intros rest Hr. split; [now apply timetag_token_fraction|].
  now apply (timetag_skip_fraction o secs sf rest).
Qed.


(* (C) "immediately" *)
Lemma tok_immediately : tok_core dec2f dec2d (VTm 1) kw_immediately.
Proof.
  intros rest Hr. unfold kw_immediately. split; intros.
  - unfold skip_core. cbn [app first_class Z.eqb Pos.eqb orb].
    unfold skip_word at 1. cbn [strip_prefix kw_inf Z.eqb Pos.eqb].
    change (105 :: 109 :: 109 :: 101 :: 100 :: 105 :: 97 :: 116 :: 101 :: 108 :: 121 :: rest) with (kw_immediately ++ rest).
    rewrite skip_word_self by exact Hr. cbn [av_type andb]. reflexivity.
  - unfold scan_core. cbn [app first_class Z.eqb Pos.eqb orb].
    change (105 :: 109 :: 109 :: 101 :: 100 :: 105 :: 97 :: 116 :: 101 :: 108 :: 121 :: rest) with (kw_immediately ++ rest).
    rewrite skip_word_self by exact Hr. reflexivity.
Qed.

Theorem timetag_tokof_immediately o : tokof dec2f dec2d (VTm 1) (print_timetag o 1).
Proof.
  change (print_timetag o 1) with kw_immediately.
  split; [apply tok_core_reads, tok_immediately|]. split; [|exact I].
  eexists _, _. split; [reflexivity|]. apply first_ok_alpha. lia.
Qed.

(* a list with both kinds of time tag between other values, separated by a line
   break and a tab, is a sentence of the language the recognisers read back *)
Definition ex_o := {| lossless := true; prec := 2; linelength := 80; compress := false |}.
Definition ex_t1 := 1479144360 * 2 ^ 32.                (* 2016-11-14 17:26 *)
Definition ex_t2 := 1479144390 * 2 ^ 32 + 3 * 2 ^ 29.   (* 2016-11-14 17:26:30.375 *)
Lemma timetag_in_list :
  lang dec2f dec2d [VI 1; VTm ex_t1; VTm ex_t2; VT]
       ([49] ++ nl4 ++ print_timetag ex_o ex_t1 ++ [9] ++ print_timetag ex_o ex_t2 ++ [32] ++ kw_true).
Proof.
  apply (L_cons dec2f dec2d (VI 1) [49] nl4 (VTm ex_t1) [VTm ex_t2; VT]
           (print_timetag ex_o ex_t1 ++ [9] ++ print_timetag ex_o ex_t2 ++ [32] ++ kw_true)); [|apply sepw_nl4|].
  - exact (tok_k_tokof dec2f dec2d KI 1 ltac:(cbn; lia)).
  - apply (L_cons dec2f dec2d (VTm ex_t1) (print_timetag ex_o ex_t1) [9] (VTm ex_t2) [VT]
             (print_timetag ex_o ex_t2 ++ [32] ++ kw_true)).
    + apply timetag_tokof_clock; [lia|discriminate].
    + split; [discriminate|]. repeat constructor.
    + apply (L_cons dec2f dec2d (VTm ex_t2) (print_timetag ex_o ex_t2) [32] VT [] kw_true).
      * apply timetag_tokof_fraction; [reflexivity|lia|exists 3, 29; lia|lia].
      * split; [discriminate|]. repeat constructor.
      * apply L_one. exact (proj1 (scalar_tok dec2f dec2d ex_o VT 0 _ _ _ I eq_refl)).
Qed.
End Tokens.
