(* C10 - time tags at the level of the text, the checker's half: the date branch
   of rtosc_skip_next_printed_arg (fmt_date, then skip_date) steps over the text
   the printer writes for a time tag of whole seconds, counts one value of type
   't' and stops exactly behind it. *)
From Coq Require Import List ZArith Bool Lia ZifyBool.
From RtoscV Require Import Pretty.Tok Pretty.FloatFmt Pretty.TimeFmt Pretty.PrintModel Pretty.ScanModel
  Pretty.PrettyProofs Pretty.FloatProofs Pretty.TimeProofs .
From RtoscV Require Import Pretty.TimeTokProofs.
Import ListNotations.
Local Open Scope Z_scope.

Lemma sc_d_w_1 a r : isdigit a = true -> sc_d_w 1 (a :: r) = Some (a - 48, r).
Proof.
  intros Ha. rewrite sc_d_w_head by (assumption || discriminate).
  cbn [read_digs_w]. rewrite Ha, (digit_val a Ha). reflexivity.
Qed.

Lemma same_pos_shorter (pre rest : str) : pre <> [] -> same_pos rest (pre ++ rest) = false.
Proof.
  intros Hp. unfold same_pos. apply Nat.eqb_neq. rewrite app_length.
  destruct pre; [contradiction|]. cbn [length]. lia.
Qed.
Lemma same_pos_refl (s : str) : same_pos s s = true.
Proof. apply Nat.eqb_refl. Qed.

Lemma skip_date_head y mo d tail : 1970 <= y <= 2200 -> 0 <= mo < 100 -> 0 <= d < 100 ->
  run_fmt fmt_date (dec_nat y ++ 45 :: d2 mo ++ 45 :: d2 d ++ tail) [] = Some ([y; mo / 10; mo mod 10; d / 10; d mod 10], tail).
Proof.
  intros Hy Hmo Hd. unfold fmt_date.
  destruct (dec_nat_year y Hy) as (a & b & c & e & -> & Ha & Hb & Hc & He & Ey).
  destruct (d2_digits mo Hmo) as (m1 & m0 & -> & Hm1 & Hm0 & Em).
  destruct (d2_digits d Hd) as (d1 & d0 & -> & Hd1 & Hd0 & Ed).
  cbn [app run_fmt]. rewrite (sc_d_w_4 a b c e) by assumption. rewrite lit_eq.
  rewrite (sc_d_w_1 m1), (sc_d_w_1 m0) by assumption. rewrite lit_eq.
  rewrite (sc_d_w_1 d1), (sc_d_w_1 d0) by assumption.
  cbn [rev app]. rewrite Ey. unfold isdigit, in_range in *.
  Ltac Zify.zify_post_hook ::= Z.div_mod_to_equations.
  assert (m1 - 48 = mo / 10 /\ m0 - 48 = mo mod 10 /\ d1 - 48 = d / 10 /\ d0 - 48 = d mod 10) as (-> & -> & -> & ->) by lia. reflexivity.
Qed.
Ltac Zify.zify_post_hook ::= idtac.

Lemma skip_clock h mi tail : 0 <= h < 100 -> 0 <= mi < 100 ->
  skip_fmt [DWs; Ddw 2; DLit 58; Ddw 1; Ddw 1] (32 :: d2 h ++ 58 :: d2 mi ++ tail) = tail.
Proof.
  intros Hh Hmi. unfold skip_fmt.
  destruct (d2_digits h Hh) as (h1 & h0 & -> & Hh1 & Hh0 & Eh).
  destruct (d2_digits mi Hmi) as (m1 & m0 & -> & Hm1 & Hm0 & Em).
  cbn [app run_fmt]. unfold skip_ws. cbn [dropwhile]. change (isspace 32) with true. cbv iota.
  rewrite (digit_not_space h1 Hh1). rewrite (sc_d_w_2 h1 h0) by assumption. rewrite lit_eq.
  rewrite (sc_d_w_1 m1), (sc_d_w_1 m0) by assumption. reflexivity.
Qed.

Lemma skip_seconds se tail : 0 <= se < 100 ->
  skip_fmt [DLit 58; Ddw 1; Ddw 1] (58 :: d2 se ++ tail) = tail.
Proof.
  intros Hse. unfold skip_fmt. destruct (d2_digits se Hse) as (s1 & s0 & -> & Hs1 & Hs0 & Es).
  cbn [app run_fmt]. rewrite lit_eq. rewrite (sc_d_w_1 s1), (sc_d_w_1 s0) by assumption. reflexivity.
Qed.

Lemma skip_lit_none c f rest : hd0 rest <> c -> skip_fmt (DLit c :: f) rest = rest.
Proof.
  intros H. unfold skip_fmt. cbn [run_fmt]. unfold lit. destruct rest as [|x r]; [reflexivity|].
  unfold hd0, at_ in H. cbn [nth] in H. destruct (Z.eqb_spec x c); [contradiction|reflexivity].
Qed.

(* what may follow the token, for the checker *)
Definition tt_rest_ok_skip (rest : str) : Prop :=
  run_fmt [DWs; Ddw 2; DLit 58; Ddw 1; Ddw 1] rest [] = None /\ hd0 rest <> 58 /\ hd0 rest <> 46.

Theorem timetag_skip_whole_seconds_gen o secs rest : 0 <= secs < 2 ^ 32 ->
  (secs mod 86400 = 0 -> run_fmt [DWs; Ddw 2; DLit 58; Ddw 1; Ddw 1] rest [] = None) ->
  hd0 rest <> 58 -> hd0 rest <> 46 ->
  let text := print_timetag o (secs * 2 ^ 32) ++ rest in
  same_pos (skip_fmt fmt_date text) text = false /\
  skip_date (skip_fmt fmt_date text) = Ok (rest, 1, 116).
Proof.
  intros Hs Hclock0 H58 H46. cbv zeta.
  unfold print_timetag.
  replace (secs * 2 ^ 32 =? 1) with false by (symmetry; apply Z.eqb_neq; lia).
  rewrite Z.div_mul by lia. rewrite Z.mod_mul by lia.
  pose proof (calendar_roundtrip secs Hs) as Hc.
  destruct (date_of_secs secs) as [[[[[y mo] d] h] mi] se].
  destruct Hc as (Esecs & Hy & Hmo & Hd & Hh & Hmi & Hse).
  change (0 =? 0) with true. cbn [negb orb].
  assert (Hdate : forall tail, skip_fmt fmt_date (dec_nat y ++ 45 :: d2 mo ++ 45 :: d2 d ++ tail) = tail)
    by (intros tail; unfold skip_fmt; rewrite skip_date_head by lia; reflexivity).
  assert (Hadv : forall tail, same_pos tail (dec_nat y ++ 45 :: d2 mo ++ 45 :: d2 d ++ tail) = false).
  { intros tail. replace (dec_nat y ++ 45 :: d2 mo ++ 45 :: d2 d ++ tail)
      with ((dec_nat y ++ 45 :: d2 mo ++ 45 :: d2 d) ++ tail) by (norm_app; reflexivity).
    apply same_pos_shorter. destruct (dec_nat y); discriminate. }
  destruct (se =? 0) eqn:Ese; cbn [negb].
  - destruct (negb (h =? 0) || negb (mi =? 0)) eqn:Ehm.
    + norm_app. rewrite Hdate, Hadv. split; [reflexivity|].
      unfold skip_date. rewrite skip_clock by lia.
      replace (same_pos rest (32 :: d2 h ++ 58 :: d2 mi ++ rest)) with false
        by (symmetry; replace (32 :: d2 h ++ 58 :: d2 mi ++ rest) with ((32 :: d2 h ++ 58 :: d2 mi) ++ rest)
              by (norm_app; reflexivity); apply same_pos_shorter; discriminate).
      cbn [negb]. rewrite (skip_lit_none 58) by assumption. rewrite same_pos_refl. reflexivity.
    + apply orb_false_iff in Ehm. destruct Ehm as (Eh & Emi).
      apply negb_false_iff in Eh, Emi. apply Z.eqb_eq in Eh, Emi, Ese.
      assert (Hnoclock : skip_fmt [DWs; Ddw 2; DLit 58; Ddw 1; Ddw 1] rest = rest).
      { unfold skip_fmt. rewrite Hclock0; [reflexivity|]. rewrite <- Esecs. unfold secs_of_date. subst h mi se.
        rewrite !Z.mul_0_l, !Z.add_0_r. apply Z.mod_mul. lia. }
      norm_app. rewrite Hdate, Hadv. split; [reflexivity|].
      unfold skip_date. rewrite Hnoclock, same_pos_refl. reflexivity.
  - norm_app. rewrite Hdate, Hadv. split; [reflexivity|].
    unfold skip_date. rewrite skip_clock by lia.
    replace (same_pos (58 :: d2 se ++ rest) (32 :: d2 h ++ 58 :: d2 mi ++ 58 :: d2 se ++ rest)) with false
      by (symmetry; replace (32 :: d2 h ++ 58 :: d2 mi ++ 58 :: d2 se ++ rest)
            with ((32 :: d2 h ++ 58 :: d2 mi) ++ 58 :: d2 se ++ rest) by (norm_app; reflexivity);
          apply same_pos_shorter; discriminate).
    cbn [negb]. rewrite skip_seconds by lia.
    replace (same_pos rest (58 :: d2 se ++ rest)) with false
      by (symmetry; replace (58 :: d2 se ++ rest) with ((58 :: d2 se) ++ rest) by (norm_app; reflexivity);
          apply same_pos_shorter; discriminate).
    cbn [negb]. rewrite (skip_lit_none 46) by assumption. rewrite same_pos_refl. reflexivity.
Qed.

Theorem timetag_skip_whole_seconds o secs rest : 0 <= secs < 2 ^ 32 -> tt_rest_ok_skip rest ->
  let text := print_timetag o (secs * 2 ^ 32) ++ rest in
  same_pos (skip_fmt fmt_date text) text = false /\
  skip_date (skip_fmt fmt_date text) = Ok (rest, 1, 116).
Proof. intros Hs (Hclock & H58 & H46). now apply timetag_skip_whole_seconds_gen. Qed.

Example tt_rest_ok_skip_examples :
  tt_rest_ok_skip [] /\ tt_rest_ok_skip [32; 49; 50] /\ tt_rest_ok_skip [93] /\ tt_rest_ok_skip [32; 46; 46; 46; 32].
Proof. repeat split; (vm_compute; congruence) || (vm_compute; reflexivity). Qed.
