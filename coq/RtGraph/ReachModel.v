(* C03 - call-graph reachability, the executable part (generic; no proofs in
   this file).

   A call graph is a list of (node, successors); nodes are numbers (N).  The
   relation the property is about is [step direct table excluded]:
     a -> b  iff  (b is a direct callee of a in the compiled code
                   \/ the indirect-call table sends a call site of a to b)
                  /\ (a,b) is not one of the excluded abort-only edges.
   [reach] computes the set of nodes reachable from a list of roots by a
   fuelled depth-first search over positive maps; running out of fuel is the
   explicit result None (the theorems exclude it). *)
From Coq Require Import List NArith PArith FMapPositive Bool.
Import ListNotations.
Local Open Scope N_scope.

Definition graph := list (N * list N).

(* ---- the relation (Spec side) ------------------------------------------- *)
Definition edge (g : graph) (a b : N) : Prop := exists l, In (a, l) g /\ In b l.

Definition defined (g : graph) (a : N) : Prop := exists l, In (a, l) g.

Definition step (d t : graph) (ex : list (N * N)) (a b : N) : Prop :=
  (edge d a b \/ edge t a b) /\ ~ In (a, b) ex.

Inductive path (R : N -> N -> Prop) : N -> N -> Prop :=
| path_refl : forall a, path R a a
| path_step : forall a b c, R a b -> path R b c -> path R a c.

(* ---- executable side ---------------------------------------------------- *)
Definition key (n : N) : positive := N.succ_pos n.

Definition pmap := PositiveMap.t (list N).
Definition pset := PositiveMap.t unit.

Definition lookup (m : pmap) (a : N) : list N :=
  match PositiveMap.find (key a) m with Some l => l | None => [] end.

(* successor map of a graph; a node listed twice gets both lists *)
Fixpoint build (g : graph) : pmap :=
  match g with
  | [] => PositiveMap.empty (list N)
  | (a, l) :: r => let m := build r in PositiveMap.add (key a) (l ++ lookup m a) m
  end.

Definition pair_eqb (p q : N * N) : bool :=
  N.eqb (fst p) (fst q) && N.eqb (snd p) (snd q).

Definition excludedb (ex : list (N * N)) (a b : N) : bool :=
  existsb (pair_eqb (a, b)) ex.

Definition succs (dm tm : pmap) (ex : list (N * N)) (a : N) : list N :=
  filter (fun b => negb (excludedb ex a b)) (lookup dm a ++ lookup tm a).

Definition memb (x : N) (s : pset) : bool := PositiveMap.mem (key x) s.

(* depth-first search; one unit of fuel per popped work item *)
Fixpoint dfs (fuel : nat) (succ : N -> list N) (work : list N) (seen : pset) : option pset :=
  match work with
  | [] => Some seen
  | x :: w =>
      match fuel with
      | O => None
      | S f =>
          if memb x seen then dfs f succ w seen
          else dfs f succ (succ x ++ w) (PositiveMap.add (key x) tt seen)
      end
  end.

Definition edge_count (g : graph) : nat :=
  fold_right (fun al n => (length (snd al) + n)%nat) O g.

(* every pop is either a root or the target of one edge occurrence *)
Definition fuel_for (d t : graph) (roots : list N) : nat :=
  S (length roots + edge_count d + edge_count t).

Definition reach (d t : graph) (ex : list (N * N)) (roots : list N) : option pset :=
  dfs (fuel_for d t roots) (succs (build d) (build t) ex) roots (PositiveMap.empty unit).

(* ---- the checks that Properties_C03 evaluates on the regenerated graph -- *)
Definition mem_list (x : N) (l : list N) : bool := existsb (N.eqb x) l.

(* no forbidden symbol in the reachable set *)
Definition check_forbidden (d t : graph) (ex : list (N * N)) (roots forbidden : list N) : bool :=
  match reach d t ex roots with
  | None => false
  | Some s => forallb (fun f => negb (memb f s)) forbidden
  end.

Definition definedb (dm : pmap) (a : N) : bool :=
  match PositiveMap.find (key a) dm with Some _ => true | None => false end.

(* closed world: every node of the graph that is reachable is either defined
   in the analysed code or an allowed external leaf.  [nodes] = all numbers
   that occur anywhere in d or t. *)
Definition nodes_of (g : graph) : list N :=
  flat_map (fun al => fst al :: snd al) g.

Definition check_closed (d t : graph) (ex : list (N * N)) (roots allowed : list N) : bool :=
  match reach d t ex roots with
  | None => false
  | Some s =>
      let dm := build d in
      forallb (fun x => negb (memb x s) || definedb dm x || mem_list x allowed)
              (roots ++ nodes_of d ++ nodes_of t)
  end.

(* every root is a function whose body is part of the graph *)
Definition check_roots_defined (d : graph) (roots : list N) : bool :=
  let dm := build d in forallb (definedb dm) roots.

(* every group is non-empty and consists of roots *)
Definition check_groups (groups : list (N * list N)) (roots : list N) : bool :=
  forallb (fun gl => match snd gl with [] => false | _ => forallb (fun e => mem_list e roots) (snd gl) end) groups.

(* every excluded edge points into the abort-only set *)
Definition check_excluded (ex : list (N * N)) (abort_only : list N) : bool :=
  forallb (fun p => mem_list (snd p) abort_only) ex.

(* a concrete path, as the list of its nodes *)
Fixpoint is_path (dm tm : pmap) (ex : list (N * N)) (p : list N) : bool :=
  match p with
  | a :: ((b :: _) as r) => mem_list b (succs dm tm ex a) && is_path dm tm ex r
  | _ => true
  end.

Definition check_path (d t : graph) (ex : list (N * N)) (p : list N) : bool :=
  is_path (build d) (build t) ex p.

(* the reachable nodes as a list (for the driver and for counting) *)
Definition reach_list (d t : graph) (ex : list (N * N)) (roots : list N) : option (list N) :=
  match reach d t ex roots with
  | None => None
  | Some s => Some (filter (fun x => memb x s) (roots ++ nodes_of d ++ nodes_of t))
  end.

(* verdict for one group of entry points, as the correspondence driver
   prints it: Some true = clean (no forbidden symbol reachable),
   Some false = some forbidden symbol reachable, None = out of fuel *)
Definition group_clean (d t : graph) (ex : list (N * N)) (forbidden roots : list N) : option bool :=
  match reach d t ex roots with
  | None => None
  | Some s => Some (forallb (fun f => negb (memb f s)) forbidden)
  end.

Fixpoint assoc_group (groups : list (N * list N)) (g : N) : list N :=
  match groups with
  | [] => []
  | (k, l) :: r => if N.eqb k g then l else assoc_group r g
  end.
