(* C03 - the facts about the *regenerated* call graph (RtGraph/Graph_gen.v is
   rewritten by tools/callgraph.py from the compiled source on every check).
   Each is a boolean check evaluated by vm_compute and lifted to a statement
   about paths with the generic theorems of RtGraph/Reach.v. *)
From Coq Require Import List NArith Bool.
From RtoscV Require Import RtGraph.ReachModel RtGraph.Reach RtGraph.Graph_gen.
Import ListNotations.
Local Open Scope N_scope.

(* the relation the property is about *)
Definition calls : N -> N -> Prop := step direct indirect_table excluded.

Lemma forbidden_checked :
  check_forbidden direct indirect_table excluded entries forbidden = true.
Proof. vm_compute. reflexivity. Qed.

Lemma no_forbidden_reachable :
  forall e f, In e entries -> In f forbidden -> ~ path calls e f.
Proof. exact (check_forbidden_ok _ _ _ _ _ forbidden_checked). Qed.

Lemma reachable_set_exact :
  exists s, reach direct indirect_table excluded entries = Some s /\
    forall x, memb x s = true <-> exists e, In e entries /\ path calls e x.
Proof. exact (reach_exact _ _ _ _ _ forbidden_checked). Qed.

Lemma closed_checked :
  check_closed direct indirect_table excluded entries allowed_external = true.
Proof. vm_compute. reflexivity. Qed.

Lemma reachable_closed_world :
  forall e x, In e entries -> path calls e x ->
    defined direct x \/ In x allowed_external.
Proof. exact (check_closed_ok _ _ _ _ _ closed_checked). Qed.

Lemma unresolved_is_forbidden : In unresolved_indirect forbidden.
Proof. apply mem_list_In. vm_compute. reflexivity. Qed.

Lemma indirect_calls_resolved :
  forall e, In e entries -> ~ path calls e unresolved_indirect.
Proof.
  intros e He. apply (no_forbidden_reachable e unresolved_indirect He unresolved_is_forbidden).
Qed.

Lemma excluded_checked : check_excluded excluded abort_only = true.
Proof. vm_compute. reflexivity. Qed.

Lemma excluded_abort_only : forall a b, In (a, b) excluded -> In b abort_only.
Proof. exact (check_excluded_ok _ _ excluded_checked). Qed.

(* every entry point is a function whose body is in the graph *)
Lemma entries_defined_checked : check_roots_defined direct entries = true.
Proof. vm_compute. reflexivity. Qed.

Lemma entries_defined : forall e, In e entries -> defined direct e.
Proof. exact (check_roots_defined_ok _ _ entries_defined_checked). Qed.

(* the seven groups (build, read, match, dispatch, sugar, reply, link) are
   non-empty and consist of entries *)
Lemma groups_checked : check_groups entry_groups entries = true.
Proof. vm_compute. reflexivity. Qed.

Lemma group_ids : map fst entry_groups = [1; 2; 3; 4; 5; 6; 7].
Proof. vm_compute. reflexivity. Qed.

Lemma groups_are_entries :
  map fst entry_groups = [1; 2; 3; 4; 5; 6; 7] /\
  forall g l, In (g, l) entry_groups -> l <> [] /\ forall e, In e l -> In e entries.
Proof. exact (conj group_ids (check_groups_ok _ _ groups_checked)). Qed.

(* non-vacuity: the graph is not empty where it matters - Ports::dispatch is an
   entry and reaches rtosc_amessage by a path that goes through the
   indirect-call table (dispatch -> sugar callback -> RtData::reply ->
   rtosc_vmessage -> rtosc_amessage); its first edge is not a direct one *)
Definition witness_second : N := hd 0 (tl witness_path).

Lemma witness_path_checked : check_path direct indirect_table excluded witness_path = true.
Proof. vm_compute. reflexivity. Qed.

Lemma witness_head : hd_error witness_path = Some dispatch_entry.
Proof. vm_compute. reflexivity. Qed.

Lemma witness_last : last witness_path dispatch_entry = witness_target.
Proof. vm_compute. reflexivity. Qed.

Lemma witness_not_direct : mem_list witness_second (lookup (build direct) dispatch_entry) = false.
Proof. vm_compute. reflexivity. Qed.

Lemma dispatch_is_entry : mem_list dispatch_entry entries = true.
Proof. vm_compute. reflexivity. Qed.

Lemma dispatch_reaches_builder :
  In dispatch_entry entries /\ path calls dispatch_entry witness_target /\
  ~ edge direct dispatch_entry witness_second /\ witness_target <> dispatch_entry.
Proof.
  split; [apply mem_list_In; exact dispatch_is_entry |]. split.
  - exact (check_path_ends _ _ _ _ _ _ witness_path_checked witness_head witness_last).
  - split; [exact (not_edge_ok _ _ _ witness_not_direct) |].
    vm_compute. discriminate.
Qed.
