(* C03 - generic facts about the reachability checker of ReachModel.v, proved
   once for every graph: the computed set is exactly the set of nodes
   reachable from the roots ([reachable_complete], [reachable_sound]), and the
   boolean checks evaluated on the regenerated graph imply the statements
   about paths ([check_forbidden_ok], [check_closed_ok], ...). *)
From Coq Require Import List NArith PArith FMapPositive Bool Lia.
From RtoscV Require Import RtGraph.ReachModel.
Import ListNotations.
Local Open Scope N_scope.

(* ---- keys and sets ------------------------------------------------------ *)
Lemma key_inj : forall a b, key a = key b -> a = b.
Proof.
  unfold key. intros a b H.
  apply N.succ_inj. rewrite <- !N.succ_pos_spec. now rewrite H.
Qed.

Lemma memb_empty : forall x, memb x (PositiveMap.empty unit) = false.
Proof.
  intros x. unfold memb. rewrite PositiveMap.mem_find, PositiveMap.gempty. reflexivity.
Qed.

Lemma memb_add : forall x y s,
  memb x (PositiveMap.add (key y) tt s) = true <-> x = y \/ memb x s = true.
Proof.
  intros x y s. unfold memb. rewrite !PositiveMap.mem_find.
  destruct (Pos.eq_dec (key x) (key y)) as [E | NE].
  - rewrite E, PositiveMap.gss. apply key_inj in E. split; intros; auto.
  - rewrite PositiveMap.gso by exact NE. split.
    + intros H. right. exact H.
    + intros [H | H].
      * subst. contradiction NE. reflexivity.
      * exact H.
Qed.

Lemma mem_list_In : forall x l, mem_list x l = true <-> In x l.
Proof.
  intros x l. unfold mem_list. rewrite existsb_exists. split.
  - intros [y [Hy E]]. apply N.eqb_eq in E. subst. exact Hy.
  - intros H. exists x. split; [exact H | apply N.eqb_refl].
Qed.

(* ---- the successor map -------------------------------------------------- *)
Lemma lookup_build : forall g a b, In b (lookup (build g) a) <-> edge g a b.
Proof.
  induction g as [| [a0 l0] r IH]; intros a b.
  - cbn. unfold lookup. rewrite PositiveMap.gempty. split.
    + intros [].
    + intros [l [[] _]].
  - cbn [build]. unfold lookup at 1.
    destruct (Pos.eq_dec (key a) (key a0)) as [E | NE].
    + rewrite E, PositiveMap.gss. apply key_inj in E. subst a0.
      rewrite in_app_iff, IH. split.
      * intros [H | [l [Hl Hb]]].
        -- exists l0. split; [left; reflexivity | exact H].
        -- exists l. split; [right; exact Hl | exact Hb].
      * intros [l [[Hl | Hl] Hb]].
        -- inversion Hl. subst. left. exact Hb.
        -- right. exists l. split; assumption.
    + rewrite PositiveMap.gso by exact NE.
      fold (lookup (build r) a). rewrite IH. split.
      * intros [l [Hl Hb]]. exists l. split; [right; exact Hl | exact Hb].
      * intros [l [[Hl | Hl] Hb]].
        -- inversion Hl. subst. contradiction NE. reflexivity.
        -- exists l. split; assumption.
Qed.

Lemma definedb_build : forall g a, definedb (build g) a = true <-> defined g a.
Proof.
  induction g as [| [a0 l0] r IH]; intros a.
  - cbn. unfold definedb. rewrite PositiveMap.gempty. split.
    + discriminate.
    + intros [l []].
  - cbn [build]. unfold definedb at 1.
    destruct (Pos.eq_dec (key a) (key a0)) as [E | NE].
    + rewrite E, PositiveMap.gss. apply key_inj in E. subst a0. split.
      * intros _. exists l0. left. reflexivity.
      * reflexivity.
    + rewrite PositiveMap.gso by exact NE.
      fold (definedb (build r) a). rewrite IH. split.
      * intros [l Hl]. exists l. right. exact Hl.
      * intros [l [Hl | Hl]].
        -- inversion Hl. subst. contradiction NE. reflexivity.
        -- exists l. exact Hl.
Qed.

Lemma excludedb_In : forall ex a b, excludedb ex a b = true <-> In (a, b) ex.
Proof.
  intros ex a b. unfold excludedb. rewrite existsb_exists. split.
  - intros [[a' b'] [Hin E]]. unfold pair_eqb in E. cbn in E.
    apply andb_true_iff in E. destruct E as [E1 E2].
    apply N.eqb_eq in E1. apply N.eqb_eq in E2. subst. exact Hin.
  - intros H. exists (a, b). split; [exact H |].
    unfold pair_eqb. cbn. now rewrite !N.eqb_refl.
Qed.

Lemma succs_step : forall d t ex a b,
  In b (succs (build d) (build t) ex a) <-> step d t ex a b.
Proof.
  intros d t ex a b. unfold succs, step.
  rewrite filter_In, in_app_iff, !lookup_build, negb_true_iff.
  split.
  - intros [H E]. split; [exact H |]. intros Hin.
    apply excludedb_In in Hin. congruence.
  - intros [H NE]. split; [exact H |].
    destruct (excludedb ex a b) eqn:E; [| reflexivity].
    apply excludedb_In in E. contradiction.
Qed.

(* ---- paths -------------------------------------------------------------- *)
Lemma path_snoc : forall R a b c, path R a b -> R b c -> path R a c.
Proof.
  intros R a b c H. induction H as [a | a b' c' Hab Hp IH]; intros Hbc.
  - eapply path_step; [exact Hbc | apply path_refl].
  - eapply path_step; [exact Hab | apply IH; exact Hbc].
Qed.

Lemma path_end : forall R a b, path R a b -> b = a \/ exists x, R x b.
Proof.
  intros R a b H. induction H as [a | a b c Hab Hp IH].
  - left. reflexivity.
  - right. destruct IH as [E | [x Hx]].
    + subst. exists a. exact Hab.
    + exists x. exact Hx.
Qed.

(* ---- the search --------------------------------------------------------- *)
Section Dfs.
  Variable succ : N -> list N.
  Variable R : N -> N -> Prop.
  Hypothesis succ_R : forall a b, In b (succ a) <-> R a b.

  Lemma dfs_closed : forall fuel work seen s,
    dfs fuel succ work seen = Some s ->
    (forall x, memb x seen = true -> memb x s = true) /\
    (forall x, In x work -> memb x s = true) /\
    (forall x y, memb x s = true -> memb x seen = false -> R x y -> memb y s = true).
  Proof.
    induction fuel as [| f IH]; intros work seen s H.
    - destruct work as [| x w]; cbn in H; [| discriminate].
      inversion H. subst. repeat split.
      + auto.
      + intros x [].
      + intros x y H1 H2. congruence.
    - destruct work as [| x w]; cbn [dfs] in H.
      + inversion H. subst. repeat split.
        * auto.
        * intros x [].
        * intros x y H1 H2. congruence.
      + destruct (memb x seen) eqn:Hx.
        * apply IH in H. destruct H as [H1 [H2 H3]]. repeat split.
          -- exact H1.
          -- intros z [E | Hz]; [subst; apply H1; exact Hx | apply H2; exact Hz].
          -- exact H3.
        * apply IH in H. destruct H as [H1 [H2 H3]]. repeat split.
          -- intros z Hz. apply H1. apply memb_add. right. exact Hz.
          -- intros z [E | Hz].
             ++ subst. apply H1. apply memb_add. left. reflexivity.
             ++ apply H2. apply in_or_app. right. exact Hz.
          -- intros z y Hzs Hzseen Hzy.
             destruct (N.eq_dec z x) as [E | NE].
             ++ subst. apply H2. apply in_or_app. left. apply succ_R. exact Hzy.
             ++ apply (H3 z y Hzs); [| exact Hzy].
                destruct (memb z (PositiveMap.add (key x) tt seen)) eqn:E; [| reflexivity].
                apply memb_add in E. destruct E as [E | E]; [contradiction | congruence].
  Qed.

  Lemma dfs_sound : forall (P : N -> Prop),
    (forall a b, P a -> R a b -> P b) ->
    forall fuel work seen s,
    dfs fuel succ work seen = Some s ->
    (forall x, memb x seen = true -> P x) ->
    (forall x, In x work -> P x) ->
    forall x, memb x s = true -> P x.
  Proof.
    intros P HP. induction fuel as [| f IH]; intros work seen s H Hseen Hwork.
    - destruct work as [| x w]; cbn in H; [| discriminate].
      inversion H. subst. exact Hseen.
    - destruct work as [| x w]; cbn [dfs] in H.
      + inversion H. subst. exact Hseen.
      + destruct (memb x seen) eqn:Hx.
        * apply (IH _ _ _ H Hseen). intros z Hz. apply Hwork. right. exact Hz.
        * apply (IH _ _ _ H).
          -- intros z Hz. apply memb_add in Hz. destruct Hz as [E | Hz].
             ++ subst. apply Hwork. left. reflexivity.
             ++ apply Hseen. exact Hz.
          -- intros z Hz. apply in_app_or in Hz. destruct Hz as [Hz | Hz].
             ++ apply (HP x z); [apply Hwork; left; reflexivity | apply succ_R; exact Hz].
             ++ apply Hwork. right. exact Hz.
  Qed.
End Dfs.

(* every node reachable by a path from a root is in the computed set *)
Theorem reachable_complete : forall d t ex roots s,
  reach d t ex roots = Some s ->
  forall e x, In e roots -> path (step d t ex) e x -> memb x s = true.
Proof.
  intros d t ex roots s H e x He Hp. unfold reach in H.
  apply (dfs_closed _ (step d t ex)) in H; [| intros a b; apply succs_step].
  destruct H as [_ [Hroots Hclosed]].
  assert (He' : memb e s = true) by (apply Hroots; exact He).
  clear He. induction Hp as [a | a b c Hab Hp IH].
  - exact He'.
  - apply IH. apply (Hclosed a b He'); [apply memb_empty | exact Hab].
Qed.

(* and nothing else is *)
Theorem reachable_sound : forall d t ex roots s,
  reach d t ex roots = Some s ->
  forall x, memb x s = true -> exists e, In e roots /\ path (step d t ex) e x.
Proof.
  intros d t ex roots s H x Hx. unfold reach in H.
  eapply (dfs_sound _ (step d t ex) (fun a b => succs_step d t ex a b)
            (fun x => exists e, In e roots /\ path (step d t ex) e x));
    [ | exact H | | | exact Hx].
  - intros a b [e [He Hp]] Hab. exists e. split; [exact He |].
    eapply path_snoc; [exact Hp | exact Hab].
  - intros y Hy. rewrite memb_empty in Hy. discriminate.
  - intros y Hy. exists y. split; [exact Hy | apply path_refl].
Qed.

(* ---- from the boolean checks to the statements -------------------------- *)
Theorem check_forbidden_ok : forall d t ex roots forbidden,
  check_forbidden d t ex roots forbidden = true ->
  forall e f, In e roots -> In f forbidden -> ~ path (step d t ex) e f.
Proof.
  intros d t ex roots forbidden H e f He Hf Hp. unfold check_forbidden in H.
  destruct (reach d t ex roots) as [s |] eqn:Hr; [| discriminate].
  rewrite forallb_forall in H. specialize (H f Hf).
  rewrite (reachable_complete _ _ _ _ _ Hr e f He Hp) in H. discriminate.
Qed.

(* the search did not run out of fuel, and its result is exactly the set of
   nodes reachable from the roots *)
Theorem reach_exact : forall d t ex roots forbidden,
  check_forbidden d t ex roots forbidden = true ->
  exists s, reach d t ex roots = Some s /\
    forall x, memb x s = true <-> exists e, In e roots /\ path (step d t ex) e x.
Proof.
  intros d t ex roots forbidden H. unfold check_forbidden in H.
  destruct (reach d t ex roots) as [s |] eqn:Hr; [| discriminate].
  exists s. split; [reflexivity |]. intros x. split.
  - apply (reachable_sound _ _ _ _ _ Hr).
  - intros [e [He Hp]]. exact (reachable_complete _ _ _ _ _ Hr e x He Hp).
Qed.

Lemma edge_nodes : forall g a b, edge g a b -> In b (nodes_of g).
Proof.
  intros g a b [l [Hl Hb]]. unfold nodes_of. apply in_flat_map.
  exists (a, l). split; [exact Hl | right; exact Hb].
Qed.

Theorem check_closed_ok : forall d t ex roots allowed,
  check_closed d t ex roots allowed = true ->
  forall e x, In e roots -> path (step d t ex) e x -> defined d x \/ In x allowed.
Proof.
  intros d t ex roots allowed H e x He Hp. unfold check_closed in H.
  destruct (reach d t ex roots) as [s |] eqn:Hr; [| discriminate].
  rewrite forallb_forall in H.
  assert (Hx : In x (roots ++ nodes_of d ++ nodes_of t)).
  { destruct (path_end _ _ _ Hp) as [E | [a [[Ha | Ha] _]]].
    - subst. apply in_or_app. left. exact He.
    - apply in_or_app. right. apply in_or_app. left. eapply edge_nodes. exact Ha.
    - apply in_or_app. right. apply in_or_app. right. eapply edge_nodes. exact Ha. }
  specialize (H x Hx).
  rewrite (reachable_complete _ _ _ _ _ Hr e x He Hp) in H. cbn in H.
  apply orb_true_iff in H. destruct H as [H | H].
  - left. apply definedb_build. exact H.
  - right. apply mem_list_In. exact H.
Qed.

Theorem check_roots_defined_ok : forall d roots,
  check_roots_defined d roots = true -> forall e, In e roots -> defined d e.
Proof.
  intros d roots H e He. unfold check_roots_defined in H.
  rewrite forallb_forall in H. apply definedb_build. apply H. exact He.
Qed.

Theorem check_groups_ok : forall groups roots,
  check_groups groups roots = true ->
  forall g l, In (g, l) groups -> l <> [] /\ forall e, In e l -> In e roots.
Proof.
  intros groups roots H g l Hg. unfold check_groups in H.
  rewrite forallb_forall in H. specialize (H (g, l) Hg).
  change (match l with [] => false | _ => forallb (fun e => mem_list e roots) l end = true) in H.
  destruct l as [| x r]; [discriminate |]. split; [discriminate |].
  intros e He. rewrite forallb_forall in H. apply mem_list_In. apply H. exact He.
Qed.

Theorem check_excluded_ok : forall ex abort_only,
  check_excluded ex abort_only = true ->
  forall a b, In (a, b) ex -> In b abort_only.
Proof.
  intros ex abort_only H a b Hin. unfold check_excluded in H.
  rewrite forallb_forall in H. specialize (H (a, b) Hin).
  apply mem_list_In in H. exact H.
Qed.

Lemma last_cons_default : forall (l : list N) x a b, last (x :: l) a = last (x :: l) b.
Proof.
  induction l as [| y l IH]; intros x a b.
  - reflexivity.
  - change (last (y :: l) a = last (y :: l) b). apply IH.
Qed.

Theorem check_path_ok : forall d t ex p a,
  check_path d t ex (a :: p) = true -> path (step d t ex) a (last p a).
Proof.
  intros d t ex. unfold check_path.
  induction p as [| b r IH]; intros a H.
  - apply path_refl.
  - cbn [is_path] in H. apply andb_true_iff in H. destruct H as [H1 H2].
    apply mem_list_In in H1. apply succs_step in H1.
    eapply path_step; [exact H1 |].
    specialize (IH b H2).
    destruct r as [| c r']; [apply path_refl |].
    change (path (step d t ex) b (last (c :: r') a)).
    rewrite (last_cons_default r' c a b). exact IH.
Qed.

Theorem check_path_ends : forall d t ex p a b,
  check_path d t ex p = true -> hd_error p = Some a -> last p a = b ->
  path (step d t ex) a b.
Proof.
  intros d t ex p a b H Hh Hl. destruct p as [| a' r]; [discriminate |].
  inversion Hh. subst a'. apply check_path_ok in H. rewrite <- Hl.
  destruct r as [| c r']; [exact H |].
  change (last (a :: c :: r') a) with (last (c :: r') a). exact H.
Qed.

Theorem not_edge_ok : forall g a b,
  mem_list b (lookup (build g) a) = false -> ~ edge g a b.
Proof.
  intros g a b H He. apply lookup_build in He. apply mem_list_In in He. congruence.
Qed.

Theorem group_clean_ok : forall d t ex forbidden roots,
  group_clean d t ex forbidden roots = Some true ->
  forall e f, In e roots -> In f forbidden -> ~ path (step d t ex) e f.
Proof.
  intros d t ex forbidden roots H. apply check_forbidden_ok.
  unfold check_forbidden. unfold group_clean in H.
  destruct (reach d t ex roots); [| discriminate]. inversion H. reflexivity.
Qed.
