(* C05 - Path-pattern matching follows the documented pattern language.
   Only the property theorems, each closed by [exact]; proofs live in
   Match/MatchProofs.v, the model in Match/MatchModel.v, the Spec in
   Match/PatSpec.v. *)
From Coq Require Import List ZArith.
From RtoscV Require Import Match.PatSpec Match.MatchModel Match.MatchProofs.
Import ListNotations.
Local Open Scope Z_scope.

(* a type string equal to one of the alternatives is admitted *)
Theorem C05_types_complete : forall l ty,
  types_ok (Some l) -> In ty l -> match_args (render_types (Some l)) ty = true.
Proof. exact types_complete. Qed.

(* an admitted type string is one of the alternatives or a proper extension
   of the last one: "no type string that is neither equal to nor an extension
   of an alternative ever matches" *)
Theorem C05_types_sound : forall l ty,
  types_ok (Some l) -> nul_free ty -> match_args (render_types (Some l)) ty = true ->
  In ty l \/ (last l [] <> [] /\ prefix (last l []) ty /\ last l [] <> ty).
Proof. exact types_sound. Qed.

(* the two copies in ports.cpp compute the same function *)
Theorem C05_copies_agree : forall p args,
  arg_matcher p args = match_args p args /\ pm_match_args p args = match_args p args.
Proof. exact copies_agree. Qed.

Theorem C05_types_nonvacuous :
  types_ok (Some [[105; 105]; []; [105]]) /\
  match_args (render_types (Some [[105; 105]; []; [105]])) [] = true /\
  match_args (render_types (Some [[105; 105]; []; [105]])) [105; 102] = true /\
  match_args (render_types (Some [[105; 105]; []; [105]])) [102] = false.
Proof. exact types_nonvacuous. Qed.
