(* C05 - Path-pattern matching follows the documented pattern language.
   Only the property theorems, each closed by [exact]; proofs live in
   Match/MatchProofs.v, the model in Match/MatchModel.v, the Spec in
   Match/PatSpec.v.

   Full statement (property text): for every well-formed pattern p, address
   and type string,
       rtosc_match (render p) addr ty = true  <->  matches_spec p addr ty.
   It is FALSE of the faithful model (C05_path_refuted, C05_enum_refuted: the
   code never backtracks).  Proved instead:
   - path, "only if" half, no side condition: C05_no_spurious, C05_index_bound,
     C05_callback_index_bound (EVERY NUL- and ':'-free address, no bound on its
     digits);
   - path, "if" half, under the two named side conditions alts_prefix_free /
     enum_delimited: C05_path_partial, C05_match_partial;
   - types: a type string EQUAL to an alternative is admitted
     (C05_types_complete); one that is neither equal to nor an extension of an
     alternative is rejected (C05_types_sound, C05_match_sound - the last
     sentence of the property text).  These two do NOT make the types half an
     equivalence with "equals one of them": the code also admits every proper
     extension of the LAST alternative (a:i accepts "if") and of no other one
     (a:i:f rejects "is").  The property text tolerates extensions, so this is
     no violation; the exact set is C05_types_ext_last_only /
     C05_match_types_exact, "every alternative is extensible" is
     C05_types_ext_every_refuted, and under the two side conditions rtosc_match
     as a whole is decided by C05_match_exact_partial. *)
From Coq Require Import List ZArith.
From RtoscV Require Import Match.PatSpec Match.MatchModel Match.MatchProofs Match.MatchRegress
     Match.StarProofs Match.TypesExact.
Import ListNotations.
Local Open Scope Z_scope.

(* under prefix-free alternatives and delimited enumerations the matcher
   decides the path language exactly, and reports where the path ended *)
Theorem C05_path_partial : forall p addr,
  wf_pat p -> alts_prefix_free p -> enum_delimited (segs p) -> addr_ok addr ->
  forall rest, match_path (render p) addr = MRet (render_types (types p)) rest <-> path_spec p addr rest.
Proof. exact path_partial. Qed.

(* D4: {a,ab}c is spelled by abc and does not match it *)
Theorem C05_path_refuted : exists p addr,
  wf_pat p /\ addr_ok addr /\ enum_delimited (segs p) /\
  path_spec p addr [] /\ match_path (render p) addr = MNull.
Proof. exact path_refuted. Qed.

(* #2{1,a} is spelled by 01 (index 0, alternative 1) and does not match it *)
Theorem C05_enum_refuted : exists p addr,
  wf_pat p /\ addr_ok addr /\ alts_prefix_free p /\
  path_spec p addr [] /\ match_path (render p) addr = MNull.
Proof. exact enum_refuted. Qed.

(* no side condition: whatever matches spells the pattern (literals verbatim,
   one of the alternatives, an index below N, ends / continues after '/' as
   the pattern says) and the returned pointer is the ':types' part *)
Theorem C05_no_spurious : forall p addr r rest,
  wf_pat p -> addr_ok addr -> match_path (render p) addr = MRet r rest ->
  r = render_types (types p) /\ path_spec p addr rest.
Proof. exact path_sound. Qed.

(* no side condition: one choice per segment, every index strictly below N *)
Theorem C05_index_bound : forall p addr r rest,
  wf_pat p -> addr_ok addr -> match_path (render p) addr = MRet r rest ->
  exists cs, Forall2 choice_ok (segs p) cs /\
             addr = concat cs ++ (if subtree p then 47 :: rest else []).
Proof. exact index_bound. Qed.

(* the number an array callback reads (first digit run of the address, atoi)
   is below N for the usual shape  text#N...  - for EVERY address, no
   precondition on its digits *)
Theorem C05_callback_index_bound : forall p s ds rest addr r pe,
  wf_pat p -> segs p = Lit s :: Enum ds :: rest -> Forall (fun c => isdigit c = false) s ->
  match_path (render p) addr = MRet r pe ->
  atoi_u (skip_nondigits addr) < dec ds.
Proof. exact callback_index_bound. Qed.

(* the loop always terminates within the model's fuel, for every pattern
   string (well-formed or not) and every address *)
Theorem C05_path_total : forall pat addr,
  match_path pat addr = MNull \/ exists r rest, match_path pat addr = MRet r rest.
Proof. exact path_total. Qed.

(* a type string equal to one of the alternatives is admitted *)
Theorem C05_types_complete : forall l ty,
  types_ok (Some l) -> In ty l -> match_args (render_types (Some l)) ty = true.
Proof. exact types_complete. Qed.

(* an admitted type string is one of the alternatives or a proper extension
   of the last one: "no type string that is neither equal to nor an extension
   of an alternative ever matches" *)
Theorem C05_types_sound : forall l ty,
  types_ok (Some l) -> nul_free ty -> match_args (render_types (Some l)) ty = true ->
  In ty l \/ (last l [] <> [] /\ prefix (last l []) ty /\ last l [] <> ty).
Proof. exact types_sound. Qed.

(* the two copies in ports.cpp compute the same function *)
Theorem C05_copies_agree : forall p args,
  arg_matcher p args = match_args p args /\ pm_match_args p args = match_args p args.
Proof. exact copies_agree. Qed.

(* rtosc_match = path and types; whatever matches spells the path and has a
   type string equal to or extending SOME alternative (which one may be
   extended: C05_match_types_exact below) *)
Theorem C05_match_sound : forall p addr ty pe,
  wf_pat p -> addr_ok addr -> nul_free ty ->
  rtosc_match (render p) addr ty = Some (true, pe) ->
  exists rest, pe = Some rest /\ path_spec p addr rest /\ types_equal_or_ext p ty.
Proof. exact match_sound. Qed.

(* "if" under the side conditions *)
Theorem C05_match_partial : forall p addr ty,
  wf_pat p -> alts_prefix_free p -> enum_delimited (segs p) -> addr_ok addr -> nul_free ty ->
  matches_spec p addr ty ->
  exists rest, rtosc_match (render p) addr ty = Some (true, Some rest) /\ path_spec p addr rest.
Proof. exact match_complete. Qed.

Theorem C05_types_nonvacuous :
  types_ok (Some [[105; 105]; []; [105]]) /\
  match_args (render_types (Some [[105; 105]; []; [105]])) [] = true /\
  match_args (render_types (Some [[105; 105]; []; [105]])) [105; 102] = true /\
  match_args (render_types (Some [[105; 105]; []; [105]])) [102] = false.
Proof. exact types_nonvacuous. Qed.

(* foo#16/bar:i:f satisfies every hypothesis; foo15/bar matches with f, not
   with s; foo16/bar does not match *)
Theorem C05_path_nonvacuous :
  wf_pat pat_doc /\ alts_prefix_free pat_doc /\ enum_delimited (segs pat_doc) /\
  addr_ok [102; 111; 111; 49; 53; 47; 98; 97; 114] /\
  rtosc_match (render pat_doc) [102; 111; 111; 49; 53; 47; 98; 97; 114] [102] = Some (true, Some []) /\
  rtosc_match (render pat_doc) [102; 111; 111; 49; 54; 47; 98; 97; 114] [102] = Some (false, None) /\
  rtosc_match (render pat_doc) [102; 111; 111; 49; 53; 47; 98; 97; 114] [115] = Some (false, Some []).
Proof. exact path_nonvacuous. Qed.

(* ---- indices of more than 9 digits ---------------------------------------- *)
(* The theorems above carry no bound on the digits of the address any more:
   the model follows the repaired rtosc_match_number (saturating decimal
   reader).  The pinned function (atoi into an unsigned) needed the side
   condition digit_runs_ok; without it: a#3 matched a4294967296. *)
Theorem C05_long_index_refuted : exists p addr,
  wf_pat p /\ addr_ok addr /\ ~ digit_runs_ok addr /\
  match_path_old (render p) addr = MRet [] [] /\ ~ path_spec p addr [].
Proof. exact long_index_refuted. Qed.

Theorem C05_long_index_repaired : match_path (render pat_a3) addr_2p32 = MNull.
Proof. exact long_index_repaired. Qed.

(* ---- '*' (outside the documented form) -------------------------------------- *)
(* pattern = segments '*' tail; Spec: '*' stands for any text without '/'.
   No side condition: a match spells the segments followed by '/'-free text *)
Theorem C05_star_sound : forall pre p addr r rest,
  star_wf pre p -> addr_ok addr ->
  match_path (render_star pre p) addr = MRet r rest ->
  r = render_types (types p) /\ star_spec pre p addr rest.
Proof. exact star_sound. Qed.

(* when '/' or ':types' follows the '*' every such address is matched (side
   conditions of C05_path_partial; the '*' text does not begin with a digit) *)
Theorem C05_star_partial : forall pre p x y rest,
  star_wf pre p -> enum_delimited pre -> (forall a, In (Alt a) pre -> prefix_free a) ->
  (subtree p = true \/ types p <> None) ->
  spells pre x -> ~ In 47 y -> starts_with_digit (y ++ [47]) = false ->
  let addr := if subtree p then x ++ y ++ 47 :: rest else x ++ y in
  addr_ok addr -> (subtree p = false -> rest = []) ->
  match_path (render_star pre p) addr = MRet (render_types (types p)) rest.
Proof. exact star_complete. Qed.

(* a '*' at the very end of the pattern stands for the empty text only: a*
   does not match ab, although a*: matches ab and a*/ matches ab/ *)
Theorem C05_star_at_end_refuted :
  star_wf [Lit [97]] (pat_a_star false None) /\
  star_spec [Lit [97]] (pat_a_star false None) [97; 98] [] /\
  match_path (render_star [Lit [97]] (pat_a_star false None)) [97; 98] = MNull /\
  match_path (render_star [Lit [97]] (pat_a_star false (Some [[]]))) [97; 98] = MRet [58] [] /\
  match_path (render_star [Lit [97]] (pat_a_star true None)) [97; 98; 47] = MRet [] [].
Proof. exact star_at_end_refuted. Qed.

(* text between '*' and the next '/' or ':' is skipped: a*b/ accepts ax/ *)
Theorem C05_star_text_ignored : match_path [97; 42; 98; 47] [97; 120; 47] = MRet [] [].
Proof. exact star_text_ignored. Qed.

(* ---- which type strings are admitted, exactly -------------------------------- *)
(* the alternatives themselves and the extensions of the LAST (non-empty)
   alternative, nothing else *)
Theorem C05_types_ext_last_only : forall l ty,
  types_ok (Some l) -> nul_free ty ->
  match_args (render_types (Some l)) ty = true <-> equal_or_ext_last l ty.
Proof. exact types_ext_last_only. Qed.

(* "an extension of ANY alternative is admitted" is false: a:i:f rejects "is" *)
Theorem C05_types_ext_every_refuted : exists l a ty,
  types_ok (Some l) /\ nul_free ty /\ In a l /\ prefix a ty /\
  match_args (render_types (Some l)) ty = false.
Proof. exact types_ext_every_refuted. Qed.

(* C05_match_sound with the exact type condition *)
Theorem C05_match_types_exact : forall p addr ty pe,
  wf_pat p -> addr_ok addr -> nul_free ty ->
  rtosc_match (render p) addr ty = Some (true, pe) ->
  exists rest, pe = Some rest /\ path_spec p addr rest /\ types_exact p ty.
Proof. exact match_types_exact. Qed.

(* under the two side conditions rtosc_match is decided: path spelled and type
   string an alternative or an extension of the last one *)
Theorem C05_match_exact_partial : forall p addr ty,
  wf_pat p -> alts_prefix_free p -> enum_delimited (segs p) -> addr_ok addr -> nul_free ty ->
  (exists rest, rtosc_match (render p) addr ty = Some (true, Some rest)) <->
  ((exists rest, path_spec p addr rest) /\ types_exact p ty).
Proof. exact match_exact_partial. Qed.

(* x{ab,cd}#4/y:i satisfies every hypothesis of the partial theorems; xcd3/y
   and xab0/y match, xcd4/y, xad3/y and xabcd3/y do not *)
Theorem C05_path_alt_nonvacuous :
  wf_pat pat_alt /\ alts_prefix_free pat_alt /\ enum_delimited (segs pat_alt) /\
  addr_ok [120; 99; 100; 51; 47; 121] /\
  path_spec pat_alt [120; 99; 100; 51; 47; 121] [] /\
  rtosc_match (render pat_alt) [120; 99; 100; 51; 47; 121] [105] = Some (true, Some []) /\
  rtosc_match (render pat_alt) [120; 97; 98; 48; 47; 121] [105] = Some (true, Some []) /\
  rtosc_match (render pat_alt) [120; 99; 100; 52; 47; 121] [105] = Some (false, None) /\
  rtosc_match (render pat_alt) [120; 97; 100; 51; 47; 121] [105] = Some (false, None) /\
  rtosc_match (render pat_alt) [120; 97; 98; 99; 100; 51; 47; 121] [105] = Some (false, None).
Proof. exact path_alt_nonvacuous. Qed.
