(* C12 - proofs about the abstract application and its savefile pipeline
   (model: SaveModel.v) *)
From Coq Require Import List ZArith Bool Lia Arith.
From RtoscV Require Ports.SugarModel Ports.SugarProofs.
From RtoscV Require Import Save.TopoModel Save.SaveModel.
Import ListNotations.
Local Open Scope Z_scope.

(* ---- minimal: a parameter is saved exactly when it is live and differs ---- *)
Definition the_line (a : app) (st : state) (i : nat) : line :=
  let p := port_at a i in
  {| l_path := p_path p; l_array := p_array p;
     l_vals := if p_array p then trim (map (shown p) (val_at st i)) (default_of a st i)
               else map (shown p) (val_at st i) |}.

Lemma line_of_spec : forall a st i l,
  In l (line_of a st i) <->
  (p_nodef (port_at a i) = false /\ live a st i = true /\
   same_value (val_at st i) (default_of a st i) = false /\ l = the_line a st i).
Proof.
  intros a st i l. unfold line_of, the_line.
  destruct (p_nodef (port_at a i)); destruct (live a st i);
    destruct (same_value (val_at st i) (default_of a st i)); simpl; split;
    try tauto; try (intros [H|H]; [subst l; auto | contradiction]);
    try (intros (H0 & H1 & H2 & H3); try discriminate; left; symmetry; assumption).
Qed.

Lemma save_lines_spec : forall a st l,
  In l (save_lines a st) <->
  exists i, (i < length a)%nat /\ p_nodef (port_at a i) = false /\ live a st i = true /\
            same_value (val_at st i) (default_of a st i) = false /\ l = the_line a st i.
Proof.
  intros a st l. unfold save_lines. rewrite in_flat_map. split.
  - intros [i [Hi Hl]]. apply in_seq in Hi. apply line_of_spec in Hl. exists i. split; [lia|assumption].
  - intros [i [Hi Hl]]. exists i. split; [apply in_seq; lia | apply line_of_spec; assumption].
Qed.

(* ---- untouched: a default-initialised instance saves no line ------------- *)
(* well-formedness: a preset selector is a port of the application with a
   plain default of its own, and no default is a NaN *)
Definition selectors_plain (a : app) : Prop :=
  forall i s, (i < length a)%nat -> p_sel (port_at a i) = Some s ->
              (s < length a)%nat /\ p_sel (port_at a s) = None /\ p_nodef (port_at a s) = false.
Definition defaults_comparable (a : app) : Prop :=
  forall i, (i < length a)%nat -> same_value (initial_of a i) (initial_of a i) = true.

Lemma val_at_initial : forall a i, (i < length a)%nat -> val_at (initial a) i = initial_of a i.
Proof.
  intros a i Hi. unfold val_at, initial.
  rewrite nth_indep with (d' := initial_of a 0%nat) by (rewrite map_length, seq_length; assumption).
  rewrite map_nth with (d := 0%nat). rewrite seq_nth by assumption. reflexivity.
Qed.

Lemma default_of_initial : forall a i,
  selectors_plain a -> (i < length a)%nat -> p_nodef (port_at a i) = false ->
  default_of a (initial a) i = initial_of a i.
Proof.
  intros a i Hs Hi Hd. unfold default_of, initial_of. rewrite Hd.
  destruct (p_sel (port_at a i)) as [s|] eqn:E; simpl; [|reflexivity].
  destruct (Hs i s Hi E) as (Hlt & Hnone & Hnd).
  rewrite val_at_initial by assumption. unfold initial_of. rewrite Hnd, Hnone. simpl. reflexivity.
Qed.

Theorem untouched_saves_nothing : forall a,
  selectors_plain a -> defaults_comparable a -> save_lines a (initial a) = [].
Proof.
  intros a Hs Hc.
  destruct (save_lines a (initial a)) as [|l r] eqn:E; [reflexivity|].
  assert (Hin : In l (save_lines a (initial a))) by (rewrite E; left; reflexivity).
  apply save_lines_spec in Hin. destruct Hin as (i & Hi & Hn & _ & Hd & _).
  rewrite val_at_initial, default_of_initial in Hd by assumption.
  rewrite Hc in Hd by assumption. discriminate.
Qed.

(* ---- rejection ------------------------------------------------------------ *)
Definition rd_nonneg (its : list item) : Prop :=
  forall l rd, In (Msg l rd) its -> 0 <= rd.

Lemma scan_items_spec : forall its ls tot ok,
  rd_nonneg its -> scan_items its = (ls, tot, ok) ->
  0 <= tot /\ (ok = false <-> In Junk its).
Proof.
  induction its as [|it its IH]; intros ls tot ok Hnn H; simpl in H.
  - inversion H; subst. split; [lia|]. split; [discriminate | intros []].
  - destruct it as [l rd|].
    + destruct (scan_items its) as [[ls' tot'] ok'] eqn:E. inversion H; subst.
      assert (Hnn' : rd_nonneg its) by (intros l0 rd0 Hin; apply (Hnn l0 rd0); right; assumption).
      destruct (IH ls' tot' ok Hnn' eq_refl) as [Ht Hok].
      assert (0 <= rd) by (apply (Hnn l rd); left; reflexivity).
      split; [lia|]. rewrite Hok. split.
      * intro Hin. right. assumption.
      * intros [Hin|Hin]; [discriminate | assumption].
    + inversion H; subst. split; [lia|]. split; [intros _; left; reflexivity | reflexivity].
Qed.

Section Reject.
  Variable apropos : str -> option pmeta.
  Variable fuel : nat.

  Theorem reject_header : forall a name f st,
    f_h1 f = None -> load_file apropos fuel a name f st = Some (-1, st).
  Proof. intros a name f st H. unfold load_file. rewrite H. reflexivity. Qed.

  Theorem reject_appname : forall a name f st n1,
    f_h1 f = Some n1 -> 0 <= n1 ->
    (f_h2 f = None \/ exists nm n2, f_h2 f = Some (nm, n2) /\ str_eqb nm name = false) ->
    exists r, load_file apropos fuel a name f st = Some (r, st) /\ r < 0.
  Proof.
    intros a name f st n1 H1 Hn H2. unfold load_file. rewrite H1.
    destruct H2 as [H2 | (nm & n2 & H2 & Hne)]; rewrite H2.
    - exists (- n1 - 1). split; [reflexivity | lia].
    - rewrite Hne. exists (- n1 - 1). split; [reflexivity | lia].
  Qed.

  Theorem reject_unparsable : forall a its st,
    rd_nonneg its -> In Junk its ->
    exists r, dispatch_printed apropos fuel a its st = Some (r, st) /\ r < 0.
  Proof.
    intros a its st Hnn Hj. unfold dispatch_printed.
    destruct (scan_items its) as [[ls tot] ok] eqn:E.
    destruct (scan_items_spec its ls tot ok Hnn E) as [Ht Hok].
    assert (ok = false) by (apply Hok; assumption). subst ok.
    exists (- tot - 1). split; [reflexivity | lia].
  Qed.

  Lemma apply_all_unaccepted : forall a ls st l,
    In l ls -> (forall st', apply_line a l st' = None) -> snd (apply_all a ls st) = false.
  Proof.
    induction ls as [|x ls IH]; intros st l Hin Hno; simpl.
    - contradiction.
    - destruct (apply_line a x st) as [st'|] eqn:E; [|reflexivity].
      destruct Hin as [Hin|Hin].
      + subst x. rewrite Hno in E. discriminate.
      + eapply IH; eassumption.
  Qed.

  (* a line no port accepts, wherever the sort places it *)
  Theorem reject_unmatched : forall a its st ls tot order l r st',
    rd_nonneg its -> scan_items its = (ls, tot, true) ->
    load_order apropos fuel (map (fun l => (l_path l, l)) ls) = Some order ->
    In l (pick ls dummy_line order) -> find_port a (l_path l) = None ->
    dispatch_printed apropos fuel a its st = Some (r, st') -> r < 0.
  Proof.
    intros a its st ls tot order l r st' Hnn Hs Ho Hin Hf H.
    unfold dispatch_printed in H. rewrite Hs, Ho in H.
    destruct (apply_all a (pick ls dummy_line order) st) as [st2 good] eqn:E.
    assert (Hg : good = false).
    { change good with (snd (st2, good)). rewrite <- E.
      eapply apply_all_unaccepted; [exact Hin|]. intro s. unfold apply_line. rewrite Hf. reflexivity. }
    subst good. inversion H; subst.
    destruct (scan_items_spec its ls tot true Hnn Hs) as [Ht _]. lia.
  Qed.

  (* ... in general: a line that no port accepts WHEN ITS TURN COMES (unknown address, an
     argument the port's specification does not take, an element index beyond '#N', a port
     below a pointer sub-tree that is absent at that moment) makes the result negative, and
     the lines behind it are not dispatched; of an array line the elements in front of the
     one that is not accepted have been applied (partial_line) *)
  Lemma apply_all_stops : forall a pre l post st s,
    apply_all a pre st = (s, true) -> apply_line a l s = None ->
    apply_all a (pre ++ l :: post) st = (partial_line a l s, false).
  Proof.
    induction pre as [|x pre IH]; intros l post st s Hp Hl; simpl in *.
    - inversion Hp; subst. rewrite Hl. reflexivity.
    - destruct (apply_line a x st) as [st1|]; [|discriminate]. exact (IH _ _ _ _ Hp Hl).
  Qed.

  Theorem reject_unaccepted : forall a its st ls tot order pre l post s r st',
    rd_nonneg its -> scan_items its = (ls, tot, true) ->
    load_order apropos fuel (map (fun l => (l_path l, l)) ls) = Some order ->
    pick ls dummy_line order = pre ++ l :: post ->
    apply_all a pre st = (s, true) -> apply_line a l s = None ->
    dispatch_printed apropos fuel a its st = Some (r, st') -> r < 0 /\ st' = partial_line a l s.
  Proof.
    intros a its st ls tot order pre l post s r st' Hnn Hs Ho Hpk Hpre Hl H.
    unfold dispatch_printed in H. rewrite Hs, Ho, Hpk in H.
    rewrite (apply_all_stops a pre l post st s Hpre Hl) in H. inversion H; subst.
    destruct (scan_items_spec its ls tot true Hnn Hs) as [Ht _]. split; [lia | reflexivity].
  Qed.

  (* a scalar line that is not accepted leaves the state as it was *)
  Lemma partial_line_scalar : forall a l s, l_array l = false -> partial_line a l s = s.
  Proof.
    intros a l s H. unfold partial_line. destruct (find_port a (l_path l)); [|reflexivity].
    rewrite H, andb_false_r. reflexivity.
  Qed.

  (* the causes that do not depend on the state *)
  Lemma unaccepted_wrong_argument : forall a l i v s,
    find_port a (l_path l) = Some i -> l_array l = false -> l_vals l = [v] ->
    store (port_at a i) v = None -> apply_line a l s = None.
  Proof.
    intros a l i v s Hf Ha Hv Hst. unfold apply_line. rewrite Hf, Ha, Hv.
    destruct (Bool.eqb false (p_array (port_at a i))); [|reflexivity].
    unfold set_elem. destruct (0 <? p_len (port_at a i))%nat; [|reflexivity]. rewrite Hst. reflexivity.
  Qed.
  Lemma unaccepted_array_mismatch : forall a l i s,
    find_port a (l_path l) = Some i -> l_array l <> p_array (port_at a i) -> apply_line a l s = None.
  Proof.
    intros a l i s Hf Hne. unfold apply_line. rewrite Hf.
    destruct (Bool.eqb (l_array l) (p_array (port_at a i))) eqn:E; [|reflexivity].
    apply Bool.eqb_prop in E. contradiction.
  Qed.
  (* ... and the one that does: the port lies below a pointer sub-tree whose switch is off *)
  Lemma unaccepted_absent : forall a l i v s,
    find_port a (l_path l) = Some i -> l_array l = false -> l_vals l = [v] ->
    exists_ a s i = false -> apply_line a l s = None.
  Proof.
    intros a l i v s Hf Ha Hv He. unfold apply_line. rewrite Hf, Ha, Hv.
    destruct (Bool.eqb false (p_array (port_at a i))); [|reflexivity].
    unfold set_elem. destruct (0 <? p_len (port_at a i))%nat; [|reflexivity].
    destruct (store (port_at a i) v); [|reflexivity]. rewrite He. reflexivity.
  Qed.

  (* a negative result of the body makes load_from_file's result negative *)
  Theorem reject_propagates : forall a name f st n1 n2 r st',
    f_h1 f = Some n1 -> f_h2 f = Some (name, n2) -> 0 <= n1 -> 0 <= n2 ->
    dispatch_printed apropos fuel a (f_items f) st = Some (r, st') -> r < 0 ->
    load_file apropos fuel a name f st = Some (r - (n1 + n2), st') /\ r - (n1 + n2) < 0.
  Proof.
    intros a name f st n1 n2 r st' H1 H2 Hn1 Hn2 Hd Hr. unfold load_file. rewrite H1, H2.
    assert (He : str_eqb name name = true).
    { clear. induction name as [|c t IH]; simpl; [reflexivity|]. rewrite Z.eqb_refl. assumption. }
    rewrite He, Hd. assert (r <? 0 = true) by (apply Z.ltb_lt; assumption).
    rewrite H. split; [reflexivity | lia].
  Qed.
End Reject.

Lemma unaccepted_causes : forall a l i v s,
  find_port a (l_path l) = Some i ->
  (l_array l = false -> l_vals l = [v] -> store (port_at a i) v = None -> apply_line a l s = None) /\
  (l_array l <> p_array (port_at a i) -> apply_line a l s = None) /\
  (l_array l = false -> l_vals l = [v] -> exists_ a s i = false -> apply_line a l s = None).
Proof.
  intros a l i v s Hf. split; [|split].
  - intros Ha Hv Hs. exact (unaccepted_wrong_argument a l i v s Hf Ha Hv Hs).
  - intros Hne. exact (unaccepted_array_mismatch a l i s Hf Hne).
  - intros Ha Hv He. exact (unaccepted_absent a l i v s Hf Ha Hv He).
Qed.

(* ---- the callbacks store a fixed point of themselves (from C14) ---------- *)
Lemma store_idem : forall p v v', store p v = Some v' ->
  match p_kind p with KO => True | _ => store p v' = Some v' end.
Proof.
  intros p v v' H. unfold store in *.
  destruct (p_kind p) eqn:K; destruct v; try discriminate; inversion H; subst; clear H; try exact I.
  - (* KC *)
    f_equal. f_equal.
    set (mn := omap SugarModel.wrap8 (p_min p)). set (mx := omap SugarModel.wrap8 (p_max p)).
    assert (Hw : forall x, -128 <= x <= 127 -> SugarModel.wrap8 x = x).
    { intros x Hx. unfold SugarModel.wrap8.
      replace ((x + 128) mod 256) with (x + 128) by (symmetry; apply Z.mod_small; lia). lia. }
    assert (Hr : -128 <= SugarModel.clampK zkey mn mx (SugarModel.wrap8 z) <= 127).
    { assert (Hz : -128 <= SugarModel.wrap8 z <= 127).
      { unfold SugarModel.wrap8. pose proof (Z.mod_pos_bound (z + 128) 256). lia. }
      assert (Hmn : forall lo, mn = Some lo -> -128 <= lo <= 127).
      { intros lo E. unfold mn in E. destruct (p_min p); simpl in E; inversion E.
        unfold SugarModel.wrap8. pose proof (Z.mod_pos_bound (z0 + 128) 256). lia. }
      assert (Hmx : forall hi, mx = Some hi -> -128 <= hi <= 127).
      { intros hi E. unfold mx in E. destruct (p_max p); simpl in E; inversion E.
        unfold SugarModel.wrap8. pose proof (Z.mod_pos_bound (z0 + 128) 256). lia. }
      unfold SugarModel.clampK, zkey.
      destruct mn as [lo|]; destruct mx as [hi|];
        repeat match goal with |- context [if ?c then _ else _] => destruct c end;
        try (specialize (Hmn _ eq_refl)); try (specialize (Hmx _ eq_refl)); lia. }
    rewrite (Hw _ Hr). apply SugarProofs.clampK_idem.
  - (* KI *) f_equal. f_equal. apply SugarProofs.clampK_idem.
  - (* KB *)
    f_equal. f_equal.
    set (mn := omap SugarModel.wrap8 (p_min p)). set (mx := omap SugarModel.wrap8 (p_max p)).
    assert (Hw : forall x, -128 <= x <= 127 -> SugarModel.wrap8 x = x).
    { intros x Hx. unfold SugarModel.wrap8.
      replace ((x + 128) mod 256) with (x + 128) by (symmetry; apply Z.mod_small; lia). lia. }
    assert (Hr : -128 <= SugarModel.clampK zkey mn mx (SugarModel.wrap8 z) <= 127).
    { assert (Hz : -128 <= SugarModel.wrap8 z <= 127).
      { unfold SugarModel.wrap8. pose proof (Z.mod_pos_bound (z + 128) 256). lia. }
      assert (Hmn : forall lo, mn = Some lo -> -128 <= lo <= 127).
      { intros lo E. unfold mn in E. destruct (p_min p); simpl in E; inversion E.
        unfold SugarModel.wrap8. pose proof (Z.mod_pos_bound (z0 + 128) 256). lia. }
      assert (Hmx : forall hi, mx = Some hi -> -128 <= hi <= 127).
      { intros hi E. unfold mx in E. destruct (p_max p); simpl in E; inversion E.
        unfold SugarModel.wrap8. pose proof (Z.mod_pos_bound (z0 + 128) 256). lia. }
      unfold SugarModel.clampK, zkey.
      destruct mn as [lo|]; destruct mx as [hi|];
        repeat match goal with |- context [if ?c then _ else _] => destruct c end;
        try (specialize (Hmn _ eq_refl)); try (specialize (Hmx _ eq_refl)); lia. }
    rewrite (Hw _ Hr). apply SugarProofs.clampK_idem.
  - (* KF *) f_equal. f_equal. apply SugarProofs.clampK_idem.
  - (* KT *) reflexivity.
  - (* KS *)
    f_equal. f_equal. generalize (Nat.pred cap). clear.
    intro n. revert s. induction n as [|n IH]; intros s; destruct s; simpl; try reflexivity.
    rewrite IH. reflexivity.
Qed.
