(* C13 - regression witness: scan_deps before the fix looked every parent up
   without a trailing '/'.  Ports::apropos("sub0") finds no port "sub#3/"
   (it finds it for "sub0/"), so a dependency declared on an enumerated
   sub-tree gave no edge. *)
From Coq Require Import List ZArith Bool.
From RtoscV Require Import Save.TopoModel.
Import ListNotations.
Local Open Scope Z_scope.

Section Old.
  Variable apropos : str -> option pmeta.
  Variable keys : list str.
  Fixpoint scan_deps_old (fuel : nat) (cur : str) : option (list str) :=
    match fuel with
    | O => None
    | S f =>
        fold_left
          (fun acc c =>
             match apropos c with
             | None => acc
             | Some m =>
                 fold_left
                   (fun acc e =>
                      match acc, rel2abs e c with
                      | Some l, Some a =>
                          if has_key keys a then Some (l ++ [a])
                          else match scan_deps_old f a with
                               | Some l' => Some (l ++ l')
                               | None => None
                               end
                      | _, _ => None
                      end)
                   (dep_values m) acc
             end)
          (ancestors cur) (Some [])
    end.
End Old.

(* "/v0/x" below the enumerated sub-tree "v#3/" which is enabled by "on":
   what the real apropos answers: the leaf, and the sub-tree only for "/v0/" *)
Definition p_v0x : str := [47; 118; 48; 47; 120].     (* /v0/x *)
Definition p_v0s : str := [47; 118; 48; 47].           (* /v0/  *)
Definition p_on  : str := [47; 111; 110].              (* /on   *)
Definition none_meta : pmeta := {| enabled_by := None; depends := None; default_depends := None |}.
Definition apropos_ex (p : str) : option pmeta :=
  if str_eqb p p_v0x then Some none_meta
  else if str_eqb p p_v0s then Some {| enabled_by := Some [111; 110]; depends := None; default_depends := None |}
  else if str_eqb p p_on then Some none_meta
  else None.

Theorem edge_of_enumerated_subtree_before_fix_refuted :
  exists apropos keys cur,
    scan_deps apropos keys 8 cur = Some [p_on] /\ scan_deps_old apropos keys 8 cur = Some [].
Proof. exists apropos_ex, [p_on; p_v0x], p_v0x. split; vm_compute; reflexivity. Qed.
