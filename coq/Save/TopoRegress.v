(* C13 - regression witness: scan_deps before the fix looked every parent up
   without a trailing '/'.  Ports::apropos("sub0") finds no port "sub#3/"
   (it finds it for "sub0/"), so a dependency declared on an enumerated
   sub-tree gave no edge. *)
From Coq Require Import List ZArith Bool.
From RtoscV Require Import Save.TopoModel.
Import ListNotations.
Local Open Scope Z_scope.

Section Old.
  Variable apropos : str -> option pmeta.
  Variable keys : list str.
  Fixpoint scan_deps_old (fuel : nat) (cur : str) : option (list str) :=
    match fuel with
    | O => None
    | S f =>
        fold_left
          (fun acc c =>
             match apropos c with
             | None => acc
             | Some m =>
                 fold_left
                   (fun acc e =>
                      match acc, rel2abs e c with
                      | Some l, Some a =>
                          if has_key keys a then Some (l ++ [a])
                          else match scan_deps_old f a with
                               | Some l' => Some (l ++ l')
                               | None => None
                               end
                      | _, _ => None
                      end)
                   (dep_values m) acc
             end)
          (ancestors cur) (Some [])
    end.
End Old.

(* "/v0/x" below the enumerated sub-tree "v#3/" which is enabled by "on":
   what the real apropos answers: the leaf, and the sub-tree only for "/v0/" *)
Definition p_v0x : str := [47; 118; 48; 47; 120].     (* /v0/x *)
Definition p_v0s : str := [47; 118; 48; 47].           (* /v0/  *)
Definition p_on  : str := [47; 111; 110].              (* /on   *)
Definition none_meta : pmeta := {| enabled_by := None; depends := None; default_depends := None |}.
Definition apropos_ex (p : str) : option pmeta :=
  if str_eqb p p_v0x then Some none_meta
  else if str_eqb p p_v0s then Some {| enabled_by := Some [111; 110]; depends := None; default_depends := None |}
  else if str_eqb p p_on then Some none_meta
  else None.

Theorem edge_of_enumerated_subtree_before_fix_refuted :
  exists apropos keys cur,
    scan_deps apropos keys 8 cur cur = Some [p_on] /\ scan_deps_old apropos keys 8 cur = Some [].
Proof. exists apropos_ex, [p_on; p_v0x], p_v0x. split; vm_compute; reflexivity. Qed.

(* ---- second witness: before fix d5aff4d the empty rest behind the trailing
   ',' of an rDepends list ("q,") was one more entry.  It resolves to the
   directory itself ("/d/"), whose "enabled by" = "p" is then resolved against
   the wrong base ("/d/p"); if that port carries an rDepends list again the
   scan never ends. *)
Fixpoint entries_from_old (fuel : nat) (e : str) : list str :=
  match fuel with
  | O => []
  | S f =>
      let e1 := skip_comma e in
      e1 :: match e1 with
            | [] => []
            | _ :: rest => match after_comma rest with
                           | Some t => entries_from_old f (comma :: t)
                           | None => []
                           end
            end
  end.
Definition entries_old (v : str) : list str := entries_from_old (S (length v)) v.
Definition dep_values_old (m : pmeta) : list str :=
  flat_map (fun o => match o with Some v => entries_old v | None => [] end)
           [enabled_by m; depends m; default_depends m].

Section Old2.
  Variable apropos : str -> option pmeta.
  Variable keys : list str.
  Fixpoint scan_deps_old2 (fuel : nat) (cur : str) : option (list str) :=
    match fuel with
    | O => None
    | S f =>
        fold_left
          (fun acc (ic : bool * str) =>
             let c := snd ic in
             match apropos (if fst ic then c ++ [slash] else c) with
             | None => acc
             | Some m =>
                 fold_left
                   (fun acc e =>
                      match acc, rel2abs e c with
                      | Some l, Some a =>
                          if has_key keys a then Some (l ++ [a])
                          else match scan_deps_old2 f a with
                               | Some l' => Some (l ++ l')
                               | None => None
                               end
                      | _, _ => None
                      end)
                   (dep_values_old m) acc
             end)
          (flagged (ancestors cur)) (Some [])
    end.
End Old2.

Definition p_d  : str := [47; 100; 47].            (* /d/  *)
Definition p_dp : str := [47; 100; 47; 112].       (* /d/p *)
Definition apropos_ex2 (p : str) : option pmeta :=
  if str_eqb p p_d then Some {| enabled_by := Some [112]; depends := None; default_depends := None |}
  else if str_eqb p p_dp then Some {| enabled_by := None; depends := Some [113; 44]; default_depends := None |}
  else None.

Theorem trailing_comma_entry_before_fix_refuted :
  entries_old [113; 44] = [[113; 44]; []] /\ entries [113; 44] = [[113; 44]] /\
  exists apropos cur,
    scan_deps apropos [] 40 cur cur = Some [] /\ scan_deps_old2 apropos [] 40 cur = None.
Proof.
  split; [reflexivity|]. split; [reflexivity|].
  exists apropos_ex2, p_dp. split; vm_compute; reflexivity.
Qed.
