(* C13 - regression witness: scan_deps before the fix looked every parent up
   without a trailing '/'.  Ports::apropos("sub0") finds no port "sub#3/"
   (it finds it for "sub0/"), so a dependency declared on an enumerated
   sub-tree gave no edge. *)
From Coq Require Import List ZArith Bool.
From RtoscV Require Import Save.TopoModel.
Import ListNotations.
Local Open Scope Z_scope.

Section Old.
  Variable apropos : str -> option pmeta.
  Variable keys : list str.
  Fixpoint scan_deps_old (fuel : nat) (cur : str) : option (list str) :=
    match fuel with
    | O => None
    | S f =>
        fold_left
          (fun acc c =>
             match apropos c with
             | None => acc
             | Some m =>
                 fold_left
                   (fun acc e =>
                      match acc, rel2abs e c with
                      | Some l, Some a =>
                          if has_key keys a then Some (l ++ [a])
                          else match scan_deps_old f a with
                               | Some l' => Some (l ++ l')
                               | None => None
                               end
                      | _, _ => None
                      end)
                   (dep_values m) acc
             end)
          (ancestors cur) (Some [])
    end.
End Old.

(* "/v0/x" below the enumerated sub-tree "v#3/" which is enabled by "on":
   what the real apropos answers: the leaf, and the sub-tree only for "/v0/" *)
Definition p_v0x : str := [47; 118; 48; 47; 120].     (* /v0/x *)
Definition p_v0s : str := [47; 118; 48; 47].           (* /v0/  *)
Definition p_on  : str := [47; 111; 110].              (* /on   *)
Definition none_meta : pmeta := {| enabled_by := None; depends := None; default_depends := None; port_name := [] |}.
Definition apropos_ex (p : str) : option pmeta :=
  if str_eqb p p_v0x then Some none_meta
  else if str_eqb p p_v0s then Some {| enabled_by := Some [111; 110]; depends := None; default_depends := None; port_name := [] |}
  else if str_eqb p p_on then Some none_meta
  else None.

Theorem edge_of_enumerated_subtree_before_fix_refuted :
  exists apropos keys cur,
    scan_deps apropos keys 8 cur cur = Some [p_on] /\ scan_deps_old apropos keys 8 cur = Some [].
Proof. exists apropos_ex, [p_on; p_v0x], p_v0x. split; vm_compute; reflexivity. Qed.

(* ---- second witness: before fix d5aff4d the empty rest behind the trailing
   ',' of an rDepends list ("q,") was one more entry.  It resolves to the
   directory itself ("/d/"), whose "enabled by" = "p" is then resolved against
   the wrong base ("/d/p"); if that port carries an rDepends list again the
   scan never ends. *)
Fixpoint entries_from_old (fuel : nat) (e : str) : list str :=
  match fuel with
  | O => []
  | S f =>
      let e1 := skip_comma e in
      e1 :: match e1 with
            | [] => []
            | _ :: rest => match after_comma rest with
                           | Some t => entries_from_old f (comma :: t)
                           | None => []
                           end
            end
  end.
Definition entries_old (v : str) : list str := entries_from_old (S (length v)) v.
Definition dep_values_old (m : pmeta) : list str :=
  flat_map (fun o => match o with Some v => entries_old v | None => [] end)
           [enabled_by m; depends m; default_depends m].

Section Old2.
  Variable apropos : str -> option pmeta.
  Variable keys : list str.
  Fixpoint scan_deps_old2 (fuel : nat) (cur : str) : option (list str) :=
    match fuel with
    | O => None
    | S f =>
        fold_left
          (fun acc (ic : bool * str) =>
             let c := snd ic in
             match apropos (if fst ic then c ++ [slash] else c) with
             | None => acc
             | Some m =>
                 fold_left
                   (fun acc e =>
                      match acc, rel2abs e c with
                      | Some l, Some a =>
                          if has_key keys a then Some (l ++ [a])
                          else match scan_deps_old2 f a with
                               | Some l' => Some (l ++ l')
                               | None => None
                               end
                      | _, _ => None
                      end)
                   (dep_values_old m) acc
             end)
          (flagged (ancestors cur)) (Some [])
    end.
End Old2.

Definition p_d  : str := [47; 100; 47].            (* /d/  *)
Definition p_dp : str := [47; 100; 47; 112].       (* /d/p *)
Definition apropos_ex2 (p : str) : option pmeta :=
  if str_eqb p p_d then Some {| enabled_by := Some [112]; depends := None; default_depends := None; port_name := [] |}
  else if str_eqb p p_dp then Some {| enabled_by := None; depends := Some [113; 44]; default_depends := None; port_name := [] |}
  else None.

Theorem trailing_comma_entry_before_fix_refuted :
  entries_old [113; 44] = [[113; 44]; []] /\ entries [113; 44] = [[113; 44]] /\
  exists apropos cur,
    scan_deps apropos [] 40 cur cur = Some [] /\ scan_deps_old2 apropos [] 40 cur = None.
Proof.
  split; [reflexivity|]. split; [reflexivity|].
  exists apropos_ex2, p_dp. split; vm_compute; reflexivity.
Qed.

(* ---- third witness (D28): before fix a3fd6a3 an "enabled by" entry that names a
   port INSIDE the sub-tree it enables ("s/on" on "s/") was a dependency of
   every message below "/s" - also of "/s/on" itself.  Without a line for
   "/s/on" the scan continued at "/s/on", whose parent names "/s/on" again:
   it never ended (stack overflow while loading).  With a line, "/s/on" was
   recorded as waiting for itself and dropped by the sort. *)
Section Old3.
  Variable apropos : str -> option pmeta.
  Variable keys : list str.
  Fixpoint scan_deps_old3 (fuel : nat) (cur : str) : option (list str) :=
    match fuel with
    | O => None
    | S f =>
        fold_left
          (fun acc (ic : bool * str) =>
             let c := snd ic in
             match apropos (if fst ic then c ++ [slash] else c) with
             | None => acc
             | Some m =>
                 fold_left
                   (fun acc e =>
                      match acc, rel2abs e c with
                      | Some l, Some a =>
                          if has_key keys a then Some (l ++ [a])
                          else match scan_deps_old3 f a with
                               | Some l' => Some (l ++ l')
                               | None => None
                               end
                      | _, _ => None
                      end)
                   (dep_values m) acc
             end)
          (flagged (ancestors cur)) (Some [])
    end.
End Old3.

Definition p_s   : str := [47; 115; 47].                 (* /s/   *)
Definition p_son : str := [47; 115; 47; 111; 110].       (* /s/on *)
Definition p_sx  : str := [47; 115; 47; 120].            (* /s/x  *)
Definition p_sp  : str := [47; 115; 47; 112].            (* /s/p  *)
Definition apropos_ex3 (p : str) : option pmeta :=
  if str_eqb p p_s then Some {| enabled_by := Some [115; 47; 111; 110]; depends := None; default_depends := None; port_name := [] |}
  else if str_eqb p p_son then Some none_meta
  else if str_eqb p p_sx then Some none_meta
  else None.

Theorem inner_switch_before_fix_refuted :
  (* no line for the switch: the old scan of "/s/x" does not end, the fixed one finds no dependency *)
  scan_deps_old3 apropos_ex3 [p_sx] 60 p_sx = None /\
  scan_deps apropos_ex3 [p_sx] 60 p_sx p_sx = Some [] /\
  (* a line for the switch: the old scan makes it wait for itself, the fixed one makes "/s/x" wait for it only *)
  scan_deps_old3 apropos_ex3 [p_son; p_sx] 60 p_son = Some [p_son] /\
  scan_deps apropos_ex3 [p_son; p_sx] 60 p_son p_son = Some [] /\
  scan_deps apropos_ex3 [p_son; p_sx] 60 p_sx p_sx = Some [p_son].
Proof. repeat split; vm_compute; reflexivity. Qed.

(* ---- what remains (D31, notes/C12.md stage 4): metadata that is cyclic.  The switch
   inside the sub-tree declares a dependency on a port of that sub-tree
   ("/s/on" depends on "p"; "/s/p" lies below "/s/", enabled by "/s/on"): every
   order is wrong for one of the two, and without lines for them the scan - also
   the fixed one - does not end.  C13_topo excludes it ([pushes = Some _], [ranked]). *)
Definition apropos_ex4 (p : str) : option pmeta :=
  if str_eqb p p_s then Some {| enabled_by := Some [115; 47; 111; 110]; depends := None; default_depends := None; port_name := [] |}
  else if str_eqb p p_son then Some {| enabled_by := None; depends := Some [112; 44]; default_depends := None; port_name := [] |}
  else if str_eqb p p_sp then Some none_meta
  else if str_eqb p p_sx then Some none_meta
  else None.

Theorem cyclic_metadata_scan_does_not_end :
  scan_deps apropos_ex4 [p_sx] 200 p_sx p_sx = None /\
  (* with lines for both ports of the cycle the scan ends and each waits for the other *)
  scan_deps apropos_ex4 [p_son; p_sp] 200 p_son p_son = Some [p_sp] /\
  scan_deps apropos_ex4 [p_son; p_sp] 200 p_sp p_sp = Some [p_son].
Proof. repeat split; vm_compute; reflexivity. Qed.

(* ---- fifth witness (stage 5): before fix 8301891 the scan read the metadata of
   the port and of its parents ("name/") only.  A directory that is enabled as a
   whole by one of its own ports - rSelf(.., rEnabledBy(on)): the metadata sits
   on the directory's "self:" port - gave no edge: "/s/x" could be applied
   before "/s/on".  [scan_deps_old4] is the loop without the second lookup. *)
Section Old4.
  Variable apropos : str -> option pmeta.
  Variable keys : list str.
  Fixpoint scan_deps_old4 (fuel : nat) (orig cur : str) : option (list str) :=
    match fuel with
    | O => None
    | S f =>
        fold_left
          (fun acc (ic : bool * str) =>
             let c := snd ic in
             match apropos (if fst ic then c ++ [slash] else c) with
             | None => acc
             | Some m =>
                 fold_left
                   (fun acc e =>
                      match acc, rel2abs e c with
                      | Some l, Some a =>
                          if str_eqb a orig || str_eqb a cur then Some l
                          else if has_key keys a then Some (l ++ [a])
                          else match scan_deps_old4 f orig a with
                               | Some l' => Some (l ++ l')
                               | None => None
                               end
                      | _, _ => None
                      end)
                   (dep_values m) acc
             end)
          (flagged (ancestors cur)) (Some [])
    end.
End Old4.

Definition p_sself : str := p_s ++ self_name.                       (* /s/self: *)
Definition p_ssubx : str := p_s ++ [116; 47; 120].                   (* /s/t/x   *)
Definition apropos_ex5 (p : str) : option pmeta :=
  if str_eqb p p_sself then Some {| enabled_by := Some [111; 110]; depends := None; default_depends := None; port_name := [] |}
  else if str_eqb p p_s then Some none_meta
  else if str_eqb p p_son then Some none_meta
  else if str_eqb p p_sx then Some none_meta
  else if str_eqb p p_ssubx then Some none_meta
  else None.

Theorem rself_switch_before_fix_refuted :
  (* the old scan: no edge for the ports of the directory, at any depth *)
  scan_deps_old4 apropos_ex5 [p_son; p_sx; p_ssubx] 60 p_sx p_sx = Some [] /\
  scan_deps_old4 apropos_ex5 [p_son; p_sx; p_ssubx] 60 p_ssubx p_ssubx = Some [] /\
  (* the fixed scan: both wait for the switch, the switch does not wait for itself *)
  scan_deps apropos_ex5 [p_son; p_sx; p_ssubx] 60 p_sx p_sx = Some [p_son] /\
  scan_deps apropos_ex5 [p_son; p_sx; p_ssubx] 60 p_ssubx p_ssubx = Some [p_son] /\
  scan_deps apropos_ex5 [p_son; p_sx; p_ssubx] 60 p_son p_son = Some [].
Proof. repeat split; vm_compute; reflexivity. Qed.

(* ---- sixth witness (stage 5): before fix fb0c466 every entry was resolved beside the
   port (rel2abs(entry, cur)).  An entry that names a port INSIDE an ENUMERATED
   sub-tree - "a#3/on" on the port "a#3/" - became the literal "/a#3/on", an
   address no message has: "/a1/on" was not ordered before "/a1/x".
   [scan_deps_old5] is the loop with rel2abs in place of resolve_entry. *)
Section Old5.
  Variable apropos : str -> option pmeta.
  Variable keys : list str.
  Fixpoint scan_deps_old5 (fuel : nat) (orig cur : str) : option (list str) :=
    match fuel with
    | O => None
    | S f =>
        fold_left
          (fun acc (lc : lookup) =>
             let c := lk_base lc in
             match apropos (lk_path lc) with
             | None => acc
             | Some m =>
                 fold_left
                   (fun acc e =>
                      match acc, rel2abs e c with
                      | Some l, Some a =>
                          if str_eqb a orig || str_eqb a cur then Some l
                          else if has_key keys a then Some (l ++ [a])
                          else match scan_deps_old5 f orig a with
                               | Some l' => Some (l ++ l')
                               | None => None
                               end
                      | _, _ => None
                      end)
                   (dep_values m) acc
             end)
          (lookups cur) (Some [])
    end.
End Old5.

Definition p_a1   : str := [47; 97; 49; 47].                    (* /a1/    *)
Definition p_a1on : str := p_a1 ++ [111; 110].                  (* /a1/on  *)
Definition p_a1x  : str := p_a1 ++ [120].                       (* /a1/x   *)
Definition p_a1tx : str := p_a1 ++ [116; 47; 120].              (* /a1/t/x *)
Definition apropos_ex6 (p : str) : option pmeta :=
  if str_eqb p p_a1 then Some {| enabled_by := Some [97; 35; 51; 47; 111; 110]; depends := None;
                                 default_depends := None; port_name := [97; 35; 51; 47] |}   (* "a#3/" enabled by "a#3/on" *)
  else if str_eqb p p_a1on then Some none_meta
  else if str_eqb p p_a1x then Some none_meta
  else if str_eqb p p_a1tx then Some none_meta
  else None.

Theorem enumerated_inner_switch_before_fix_refuted :
  (* the old scan: no edge *)
  scan_deps_old5 apropos_ex6 [p_a1on; p_a1x; p_a1tx] 60 p_a1x p_a1x = Some [] /\
  scan_deps_old5 apropos_ex6 [p_a1on; p_a1x; p_a1tx] 60 p_a1tx p_a1tx = Some [] /\
  (* the fixed scan: the lines below "/a1/" wait for "/a1/on", which does not wait for itself *)
  scan_deps apropos_ex6 [p_a1on; p_a1x; p_a1tx] 60 p_a1x p_a1x = Some [p_a1on] /\
  scan_deps apropos_ex6 [p_a1on; p_a1x; p_a1tx] 60 p_a1tx p_a1tx = Some [p_a1on] /\
  scan_deps apropos_ex6 [p_a1on; p_a1x; p_a1tx] 60 p_a1on p_a1on = Some [] /\
  (* the plain form resolves as before: "s/on" on "s/" *)
  resolve_entry true [115; 47] [115; 47; 111; 110] [47; 115] = rel2abs [115; 47; 111; 110] [47; 115].
Proof. repeat split; vm_compute; reflexivity. Qed.
