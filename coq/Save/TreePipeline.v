(* C12 - the round trip through the pipeline with the walk and the dispatch stages
   instantiated by the port tree.  What is left as a premise about a stage is
   print/scan (C10).  switches_ok: the decidable conditions on the 'enabled by' properties of
   the sub-tree ports (TreeApp.v) - the walk stage needs them, wf_app gives the distinct
   addresses. *)
From Coq Require Import List ZArith Bool Lia Arith Permutation.
From RtoscV Require Import Ports.NameModel Ports.WalkModel Ports.DispatchModel Ports.TreeProofs
     Ports.DispatchWalk Ports.NamesModel.
From RtoscV Require Import Save.TopoModel Save.TopoProofs Save.SaveModel Save.SaveProofs Save.RoundProofs Save.RoundFull
     Save.PermApp Save.SortStage Save.EqStage Save.TreeApp Save.DispatchStage Save.TreeStage Save.WalkStage.
Import ListNotations.

(* C10: a printed body scans back line by line, every line with the bytes it took *)
Definition print_scan_hypothesis (text : Type) (print_lines : list line -> text) (scan_text : text -> list item) : Prop :=
  forall ls, exists rds, length rds = length ls /\ Forall (fun rd => (0 <= rd)%Z) rds /\
             scan_text (print_lines ls) = map (fun lr => Msg (fst lr) (snd lr)) (combine ls rds).

Theorem roundtrip_pipeline_tree_walk :
  forall text print_lines scan_text hp tid t apropos fuel F st ps,
    let a := app_of_tree t in
    names_ok (sports_of t) = true -> tree_ok (to_tree hp tid (sports_of t)) -> Forall pt_wf t ->
    switches_ok t = true ->
    NoDup (map dir_addr (dirs_root t)) -> NoDup (app_addresses a) ->
    print_scan_hypothesis text print_lines scan_text ->
    full_conditions a st -> comparable a st -> cstrings st ->
    declared a apropos ->
    pushes line apropos fuel (msgs (save_lines a st)) = Some ps -> ranked ps ->
    exists fin,
      real_load text scan_text (fun _ l s => tree_apply_line hp tid t l s)
                (fun _ ls => sort_by_load_order apropos fuel ls) a
                (real_save text (fun _ s => walk_tree t s) (av_eq_real F) print_lines a st) (initial a)
      = Some (Z.of_nat (length (save_lines a st)), fin) /\
      forall q, (q < length a)%nat -> p_nodef (port_at a q) = false -> live a st q = true ->
                restored_val (port_at a q) (val_at st q) (val_at fin q).
Proof.
  intros text print_lines scan_text hp tid t apropos fuel F st ps a
         Hnames Htree Hwf Hsw Hdirs Haddr H10 Hfull Hcmp Hstr Hdecl Hp Hr.
  apply (roundtrip_pipeline_tree text (fun _ s => walk_tree t s) print_lines scan_text hp tid t apropos fuel F st ps);
    try assumption.
  split; [|exact H10].
  destruct Hfull as (WF & _).
  apply walk_stage; try assumption; [exact (w_paths _ WF)|].
  intros i Hi. apply (w_shape _ WF i Hi).
Qed.

(* the example of TreeStage.v satisfies the two further hypotheses, and the walk with
   the runtime object of fx_state reaches all three ports; with the switch off, not
   the port below the pointer *)
Theorem pipeline_tree_walk_nonvacuous :
  NoDup (map dir_addr (dirs_root fx_tree)) /\ NoDup (app_addresses (app_of_tree fx_tree)) /\
  walk_tree fx_tree fx_state = [0; 1; 2; 3]%nat /\
  walk_tree fx_tree (initial (app_of_tree fx_tree)) = [0; 2; 3]%nat.
Proof.
  split; [vm_compute; repeat constructor; simpl; intuition discriminate|].
  split; [vm_compute; repeat constructor; simpl; intuition discriminate|].
  split; vm_compute; reflexivity.
Qed.

(* ---- the inner-switch form of 'enabled by' ------------------------------------------------------
   { sub/ (enabled by "sub/on") -> { on::T:F, x::i },  a#2/ (enabled by "a#2/on") -> { y::i, on::T:F } }:
   a0/ is switched by a0/on, a1/ by a1/on.  The side conditions of walk_stage hold.  While a switch
   is off the walk does not descend but is applied to the switch itself: from a default-initialised
   instance it reaches /sub/on, /a0/on, /a1/on only; with /sub/on and /a1/on on also /sub/x and
   /a1/y, not /a0/y - in both states exactly the live ports. *)
Local Open Scope Z_scope.
Definition sw_tree : list pt :=
  [ PSub [115; 117; 98] None None (Some [115; 117; 98; 47; 111; 110])
      [ PLeaf [111; 110] None (ld KT [VT false]); PLeaf [120] None (ld KI [VI 3]) ];
    PSub [97] (Some 2%nat) None (Some [97; 35; 50; 47; 111; 110])
      [ PLeaf [121] None (ld KI [VI 3]); PLeaf [111; 110] None (ld KT [VT false]) ] ].
Definition sw_state : state := [[VT true]; [VI 3]; [VI 3]; [VT false]; [VI 4]; [VT true]].

Theorem walk_inner_switch_nonvacuous :
  let a := app_of_tree sw_tree in
  names_ok (sports_of sw_tree) = true /\ switches_ok sw_tree = true /\
  NoDup (map dir_addr (dirs_root sw_tree)) /\ NoDup (map p_path a) /\ NoDup (app_addresses a) /\
  (forall i, (i < length a)%nat -> (0 < p_len (port_at a i))%nat) /\
  map (fun p => (p_path p, p_soft p)) a =
    [ ([47; 115; 117; 98; 47; 111; 110], []);       ([47; 115; 117; 98; 47; 120], [0%nat]);
      ([47; 97; 48; 47; 121], [3%nat]);             ([47; 97; 48; 47; 111; 110], []);
      ([47; 97; 49; 47; 121], [5%nat]);             ([47; 97; 49; 47; 111; 110], []) ] /\
  walk_tree sw_tree (initial a) = [0; 3; 5]%nat /\
  filter (live a (initial a)) (seq 0 (length a)) = [0; 3; 5]%nat /\
  walk_tree sw_tree sw_state = [0; 1; 3; 4; 5]%nat /\
  filter (live a sw_state) (seq 0 (length a)) = [0; 1; 3; 4; 5]%nat.
Proof.
  intros a. unfold a.
  split; [vm_compute; reflexivity|]. split; [vm_compute; reflexivity|].
  split; [vm_compute; repeat constructor; simpl; intuition discriminate|].
  split; [vm_compute; repeat constructor; simpl; intuition discriminate|].
  split; [vm_compute; repeat constructor; simpl; intuition discriminate|].
  split.
  { intros i Hi. change (length (app_of_tree sw_tree)) with 6%nat in Hi.
    do 6 (destruct i as [|i]; [vm_compute; lia|]). lia. }
  repeat split; vm_compute; reflexivity.
Qed.

(* ---- the rSelf form of 'enabled by' ---------------------------------------------------------------
   { x::i,
     d/ -> { self: (enabled by "on"), on::T:F, y::i, e/ -> { z::i } },
     b/ (enabled by "b/on") -> { self: (enabled by "on"), w::i, on::T:F } }   (both forms, one switch)
   The non-parameter port "self:" has an entry without default.  While /d/on is off the walk does not
   look at the table of d/ but is applied to /d/on; /b/on is reported by the walk of the root table
   (inner switch) - in both states exactly the live ports. *)
Definition self_tree : list pt :=
  [ PLeaf [120] None (ld KI [VI 3]);
    PSub [100] None None None
      [ PAux [115; 101; 108; 102] (Some [111; 110]); PLeaf [111; 110] None (ld KT [VT false]);
        PLeaf [121] None (ld KI [VI 3]);
        PSub [101] None None None [ PLeaf [122] None (ld KI [VI 3]) ] ];
    PSub [98] None None (Some [98; 47; 111; 110])
      [ PAux [115; 101; 108; 102] (Some [111; 110]); PLeaf [119] None (ld KI [VI 3]);
        PLeaf [111; 110] None (ld KT [VT false]) ] ].
Definition self_state : state := [[VI 3]; [VI 0]; [VT true]; [VI 3]; [VI 3]; [VI 0]; [VI 3]; [VT false]].

Theorem walk_rself_nonvacuous :
  let a := app_of_tree self_tree in
  names_ok (sports_of self_tree) = true /\ switches_ok self_tree = true /\
  NoDup (map dir_addr (dirs_root self_tree)) /\ NoDup (map p_path a) /\ NoDup (app_addresses a) /\
  (forall i, (i < length a)%nat -> (0 < p_len (port_at a i))%nat) /\
  map (fun p => (p_path p, p_soft p, p_nodef p)) a =
    [ ([47; 120], [], false);
      ([47; 100; 47; 115; 101; 108; 102], [2%nat], true);    ([47; 100; 47; 111; 110], [], false);
      ([47; 100; 47; 121], [2%nat], false);                  ([47; 100; 47; 101; 47; 122], [2%nat], false);
      ([47; 98; 47; 115; 101; 108; 102], [7%nat; 7%nat], true);
      ([47; 98; 47; 119], [7%nat; 7%nat], false);            ([47; 98; 47; 111; 110], [], false) ] /\
  walk_tree self_tree (initial a) = [0; 2; 7]%nat /\
  filter (live a (initial a)) (seq 0 (length a)) = [0; 2; 7]%nat /\
  walk_tree self_tree self_state = [0; 1; 2; 3; 4; 7]%nat /\
  filter (live a self_state) (seq 0 (length a)) = [0; 1; 2; 3; 4; 7]%nat.
Proof.
  intros a. unfold a.
  split; [vm_compute; reflexivity|]. split; [vm_compute; reflexivity|].
  split; [vm_compute; repeat constructor; simpl; intuition discriminate|].
  split; [vm_compute; repeat constructor; simpl; intuition discriminate|].
  split; [vm_compute; repeat constructor; simpl; intuition discriminate|].
  split.
  { intros i Hi. change (length (app_of_tree self_tree)) with 8%nat in Hi.
    do 8 (destruct i as [|i]; [vm_compute; lia|]). lia. }
  repeat split; vm_compute; reflexivity.
Qed.
