(* C12 - the round trip through the pipeline with the walk and the dispatch stages
   instantiated by the port tree.  What is left as a premise about a stage is
   print/scan (C10). *)
From Coq Require Import List ZArith Bool Lia Arith Permutation.
From RtoscV Require Import Ports.NameModel Ports.WalkModel Ports.DispatchModel Ports.TreeProofs
     Ports.DispatchWalk Ports.NamesModel.
From RtoscV Require Import Save.TopoModel Save.TopoProofs Save.SaveModel Save.SaveProofs Save.RoundProofs Save.RoundFull
     Save.PermApp Save.SortStage Save.EqStage Save.TreeApp Save.DispatchStage Save.TreeStage Save.WalkStage.
Import ListNotations.

(* C10: a printed body scans back line by line, every line with the bytes it took *)
Definition print_scan_hypothesis (text : Type) (print_lines : list line -> text) (scan_text : text -> list item) : Prop :=
  forall ls, exists rds, length rds = length ls /\ Forall (fun rd => (0 <= rd)%Z) rds /\
             scan_text (print_lines ls) = map (fun lr => Msg (fst lr) (snd lr)) (combine ls rds).

Theorem roundtrip_pipeline_tree_walk :
  forall text print_lines scan_text hp tid t apropos fuel F st ps,
    let a := app_of_tree t in
    names_ok (sports_of t) = true -> tree_ok (to_tree hp tid (sports_of t)) -> Forall pt_wf t ->
    NoDup (map dir_addr (dirs_root t)) -> NoDup (app_addresses a) ->
    print_scan_hypothesis text print_lines scan_text ->
    full_conditions a st -> comparable a st -> cstrings st ->
    declared a apropos ->
    pushes line apropos fuel (msgs (save_lines a st)) = Some ps -> ranked ps ->
    exists fin,
      real_load text scan_text (fun _ l s => tree_apply_line hp tid t l s)
                (fun _ ls => sort_by_load_order apropos fuel ls) a
                (real_save text (fun _ s => walk_tree t s) (av_eq_real F) print_lines a st) (initial a)
      = Some (Z.of_nat (length (save_lines a st)), fin) /\
      forall q, (q < length a)%nat -> p_nodef (port_at a q) = false -> live a st q = true ->
                restored_val (port_at a q) (val_at st q) (val_at fin q).
Proof.
  intros text print_lines scan_text hp tid t apropos fuel F st ps a
         Hnames Htree Hwf Hdirs Haddr H10 Hfull Hcmp Hstr Hdecl Hp Hr.
  apply (roundtrip_pipeline_tree text (fun _ s => walk_tree t s) print_lines scan_text hp tid t apropos fuel F st ps);
    try assumption.
  split; [|exact H10].
  apply walk_stage; try assumption.
  destruct Hfull as (WF & _). intros i Hi. apply (w_shape _ WF i Hi).
Qed.

(* the example of TreeStage.v satisfies the two further hypotheses, and the walk with
   the runtime object of fx_state reaches all three ports; with the switch off, not
   the port below the pointer *)
Theorem pipeline_tree_walk_nonvacuous :
  NoDup (map dir_addr (dirs_root fx_tree)) /\ NoDup (app_addresses (app_of_tree fx_tree)) /\
  walk_tree fx_tree fx_state = [0; 1; 2; 3]%nat /\
  walk_tree fx_tree (initial (app_of_tree fx_tree)) = [0; 2; 3]%nat.
Proof.
  split; [vm_compute; repeat constructor; simpl; intuition discriminate|].
  split; [vm_compute; repeat constructor; simpl; intuition discriminate|].
  split; vm_compute; reflexivity.
Qed.
