(* C12 - the abstract application of a PORT TREE.

   [pt] is a tree of ports as the sugar macros of include/rtosc/port-sugar.h make
   them (the ones C14 models): parameter leaves
       rParam rParamI rParamF rToggle rOption rString          name "::c" ...
       rArrayI rArrayF rArrayT rArrayOption                    name "#N" "::i" ...
   and sub-tree ports of one component
       rRecur (embedded object)      name "/"
       rRecurs (array of objects)    name "#N/"
       rRecurp (pointer)             name "/", the object exists while a toggle of the
                                     parent table is on (rChangeCb of the harness family)
   each optionally carrying  enabled by <toggle>: the property's value is either the
   name of a toggle of the parent table ("tg") or - the inner-switch form - the
   sub-tree's own name followed by a toggle INSIDE it ("name/tg", for an enumerated
   sub-tree "name#N/tg": element name<i>/ is switched by name<i>/tg).  The code tells the
   two apart by comparing the property with the port's name (port_is_enabled:
   WalkModel.subport_split).

   A table may also hold non-parameter ports "name:" ([PAux]: rSelf's "self:", the
   object pointer "name:" of rRecur).  rSelf(.., rEnabledBy(x)): the metadata of the
   table's "self:" port names a toggle x of the same table; while x is off walk_ports
   does not look at the table but is applied to x (WalkModel.self_toggle).

   [sports_of] gives the names (the structured port tree of C09 / C04: NameModel
   segments + argument part), [app_of_tree] the flat abstract application of
   SaveModel.v: one port per leaf under every expansion of the '#N' of the
   sub-trees above it - address, kind, range, options, default(s), selector,
   the switches of the pointer sub-trees above (p_hard), the 'enabled by'
   toggles above (p_soft; an inner switch is not governed by itself: while it is
   off the walk does not descend but still reports the switch; likewise the switch
   an rSelf names).  The order is the walk's (C09: table order, leftmost index
   slowest).  A non-parameter port is walked like a leaf and never saved: it has an
   entry without default (p_nodef) - no theorem sends a message to it.

   [run_events] interprets the callbacks a dispatch invoked (the events of C04's
   tree model, one per level): a sub-tree port descends (rRecurCb / rRecursCb) -
   a pointer sub-tree only while its switch is on (rRecurpCb: if(!obj->ptr) return) -,
   a leaf runs the callback of its macro (C14: SugarModel.step) on its field.
   The runtime objects are keyed by address: the field of a leaf is the state's
   entry for the port of that address.

   No proofs in this file. *)
From Coq Require Import List ZArith Bool.
From RtoscV Require Import Match.PatSpec Match.MatchModel Ports.NameModel Ports.PathModel Ports.WalkModel Ports.DispatchModel.
From RtoscV Require Ports.MetaModel.
From RtoscV Require Ports.SugarModel.
From RtoscV Require Import Save.TopoModel Save.SaveModel.
Import ListNotations.
Local Open Scope Z_scope.


(* ---- the tree ---------------------------------------------------------------- *)
Record leafdata := {
  ld_kind : skind;
  ld_min : option Z; ld_max : option Z;         (* "min" / "max", converted *)
  ld_opts : list (Z * str);                      (* "map N" *)
  ld_default : value;                            (* "default" *)
  ld_sel : option str;                           (* "default depends": name of a port of the same table *)
  ld_table : list (Z * value);                   (* "default N" *)
  ld_nodef : bool; ld_init : value
}.

Inductive pt :=
| PLeaf (nm : str) (arr : option nat) (d : leafdata)
| PSub (nm : str) (enum : option nat)
       (ptr : option str)          (* rRecurp: name of the switch in the parent table *)
       (sw : option str)           (* "enabled by": the literal value of the property - "tg" (a toggle
                                      of the parent table) or "name/tg" / "name#N/tg" (a toggle inside) *)
       (sub : list pt)
| PAux (nm : str)                  (* a non-parameter port "nm:" - "self:" is the table's rSelf port *)
       (sw : option str).          (* its "enabled by" property (rSelf: a toggle of the same table) *)

(* ---- names (C09's structured port tree) ----------------------------------------- *)
Definition leaf_segs (nm : str) (arr : option nat) : list seg :=
  Lit nm :: match arr with Some n => [Enum (Z.of_nat n)] | None => [] end.
Definition sub_segs (nm : str) (enum : option nat) : list seg :=
  match enum with
  | None => [Lit (nm ++ [47])]
  | Some n => [Lit nm; Enum (Z.of_nat n); Lit [47]]
  end.

(* the argument part the macro writes: "::c", "::i", "::f", "::T:F", "::i:c:S", "::s" *)
Definition kind_types (k : skind) : list str :=
  match k with
  | KC => [[]; [99]]
  | KI | KB => [[]; [105]]
  | KF => [[]; [102]]
  | KT => [[]; [84]; [70]]
  | KO => [[]; [105]; [99]; [83]]
  | KS _ => [[]; [115]]
  end.

(* the name of a sub-tree port as the table holds it: "name/" or "name#N/" *)
Definition sub_name (nm : str) (enum : option nat) : str := render_name (sub_segs nm enum) [].

(* the metadata block of a sub-tree port: ":enabled by\0=<value>\0" (rEnabledBy) *)
Definition sub_meta (sw : option str) : option (list byte) :=
  match sw with
  | Some g => Some (MetaModel.render [(WalkModel.enabled_by, Some g)])
  | None => None
  end.

Fixpoint sport_of (p : pt) : sport :=
  match p with
  | PLeaf nm arr d => SPort (leaf_segs nm arr) (render_types (Some (kind_types (ld_kind d)))) None None
  | PSub nm enum _ sw sub => SPort (sub_segs nm enum) [] (sub_meta sw) (Some (map sport_of sub))
  | PAux nm sw => SPort [Lit nm] [58] (sub_meta sw) None
  end.
Definition sports_of (t : list pt) : list sport := map sport_of t.

(* ---- flattening ------------------------------------------------------------------ *)
Record fport := {
  f_id : list nat;             (* index path of the leaf *)
  f_port : port;               (* p_sel / p_hard / p_soft still empty *)
  f_sel : option str;          (* address of the selector *)
  f_hard : list str;           (* addresses of the switches of the pointer sub-trees above, outermost first *)
  f_soft : list str            (* addresses of the "enabled by" toggles above *)
}.

Definition is_some {A} (o : option A) : bool := match o with Some _ => true | None => false end.
Definition olist {A} (o : option A) : list A := match o with Some x => [x] | None => [] end.

Definition leaf_port (path : str) (arr : option nat) (d : leafdata) : port :=
  {| p_path := path; p_kind := ld_kind d; p_array := is_some arr;
     p_len := match arr with Some n => n | None => 1%nat end;
     p_min := ld_min d; p_max := ld_max d; p_opts := ld_opts d; p_default := ld_default d;
     p_sel := None; p_table := ld_table d; p_hard := []; p_soft := [];
     p_nodef := ld_nodef d; p_init := ld_init d |}.

(* the address of the toggle that enables the sub-tree port [qn] of the table at [dir],
   for the expansion x of its name ("name/", "name<i>/"), g = the 'enabled by' property:
   the port behind "name/" below the sub-tree's own expanded address (inner form), or
   the port g of the parent table *)
Definition sw_addr (dir qn x g : str) : str :=
  match subport_split qn g with
  | Some e => dir ++ x ++ e
  | None => dir ++ g
  end.

(* the toggles that govern a port: those above it, except the port itself (the inner
   switch of a sub-tree stands below the sub-tree it switches) *)
Definition soft_of (path : str) (soft : list str) : list str :=
  filter (fun g => negb (str_eqb g path)) soft.

(* rSelf(.., rEnabledBy(x)): what the first port "self:" of a table says *)
Definition self_name : str := [115; 101; 108; 102].
Fixpoint self_sw (l : list pt) : option str :=
  match l with
  | [] => None
  | PAux nm sw :: r => if str_eqb nm self_name then sw else self_sw r
  | _ :: r => self_sw r
  end.
(* the toggle the table at address [dir] is enabled by *)
Definition self_soft (dir : str) (l : list pt) : list str :=
  olist (option_map (fun v => dir ++ v) (self_sw l)).

(* the entry of a non-parameter port: no default, never saved *)
Definition aux_ld : leafdata :=
  {| ld_kind := KI; ld_min := None; ld_max := None; ld_opts := []; ld_default := []; ld_sel := None;
     ld_table := []; ld_nodef := true; ld_init := [VI 0] |}.

(* ids = the index path of p itself, dir = the address of the table that holds it *)
Fixpoint flat_pt (ids : list nat) (dir : str) (hard soft : list str) (p : pt) {struct p} : list fport :=
  match p with
  | PLeaf nm arr d =>
      [ {| f_id := ids; f_port := leaf_port (dir ++ nm) arr d;
           f_sel := option_map (fun x => dir ++ x) (ld_sel d); f_hard := hard;
           f_soft := soft_of (dir ++ nm) soft |} ]
  | PSub nm enum ptr sw sub =>
      let hard' := hard ++ olist (option_map (fun x => dir ++ x) ptr) in
      flat_map (fun x =>
        let soft' := (soft ++ olist (option_map (sw_addr dir (sub_name nm enum) x) sw))
                     ++ self_soft (dir ++ x) sub in
        (fix go (l : list pt) (i : nat) : list fport :=
           match l with
           | [] => []
           | q :: r => flat_pt (ids ++ [i]) (dir ++ x) hard' soft' q ++ go r (S i)
           end) sub 0%nat) (expand (sub_segs nm enum))
  | PAux nm _ =>
      [ {| f_id := ids; f_port := leaf_port (dir ++ nm) None aux_ld;
           f_sel := None; f_hard := hard; f_soft := soft_of (dir ++ nm) soft |} ]
  end.

Fixpoint flat_tbl (ids : list nat) (dir : str) (hard soft : list str) (l : list pt) (i : nat) : list fport :=
  match l with
  | [] => []
  | q :: r => flat_pt (ids ++ [i]) dir hard soft q ++ flat_tbl ids dir hard soft r (S i)
  end.

Definition flat_root (t : list pt) : list fport := flat_tbl [] [47] [] (self_soft [47] t) t 0%nat.

(* an address as the index of the port that has it (length = none) *)
Fixpoint idx_of (ps : list str) (q : str) : nat :=
  match ps with
  | [] => O
  | p :: r => if str_eqb p q then O else S (idx_of r q)
  end.

Definition fpaths (fs : list fport) : list str := map (fun f => p_path (f_port f)) fs.

Definition resolve (ps : list str) (f : fport) : port :=
  let p := f_port f in
  {| p_path := p_path p; p_kind := p_kind p; p_array := p_array p; p_len := p_len p;
     p_min := p_min p; p_max := p_max p; p_opts := p_opts p; p_default := p_default p;
     p_sel := option_map (idx_of ps) (f_sel f); p_table := p_table p;
     p_hard := map (idx_of ps) (f_hard f); p_soft := map (idx_of ps) (f_soft f);
     p_nodef := p_nodef p; p_init := p_init p |}.

Definition app_of_tree (t : list pt) : app :=
  let fs := flat_root t in map (resolve (fpaths fs)) fs.

(* the address of element k of a port *)
Definition elem_addr (p : port) (k : nat) : str :=
  if p_array p then p_path p ++ dec (Z.of_nat k) else p_path p.

(* ---- one message: value <-> OSC argument, field <-> the callback's variable -------- *)
Definition enc_arg (v : scalar) : SugarModel.arg :=
  match v with
  | VI z => SugarModel.Ai z | VC z => SugarModel.Ac z | VF b => SugarModel.Af b
  | VT true => SugarModel.ATrue | VT false => SugarModel.AFalse
  | VS s => SugarModel.As s | VSym s => SugarModel.ASy s
  end.
Definition tag_of (v : scalar) : str := [SugarModel.tag (enc_arg v)].

(* which macro made the leaf *)
Definition ckind (k : skind) (arr : bool) : SugarModel.kind :=
  match k with
  | KC => SugarModel.KP
  | KI => SugarModel.KI
  | KB => SugarModel.KAI
  | KF => if arr then SugarModel.KAF else SugarModel.KF
  | KT => if arr then SugarModel.KAT else SugarModel.KT
  | KO => if arr then SugarModel.KAO else SugarModel.KO
  | KS cap => SugarModel.KS (Z.of_nat cap)
  end.
(* kinds and '#N' as the macros combine them *)
Definition kind_shape (k : skind) (arr : bool) : bool :=
  match k with
  | KC | KI | KS _ => negb arr
  | KB => arr
  | _ => true
  end.

Definition cenv (nm : str) (arr : option nat) (d : leafdata) : SugarModel.penv :=
  {| SugarModel.p_name := nm; SugarModel.p_hash := is_some arr; SugarModel.p_min := ld_min d; SugarModel.p_max := ld_max d;
     SugarModel.p_map := ld_opts d |}.

(* the variable behind a port as the callback model sees it: numbers (toggles 0/1,
   floats as bit patterns), a string as its buffer of [cap] bytes *)
Definition enc_scalar (v : scalar) : Z :=
  match v with
  | VI z | VC z | VF z => z
  | VT b => if b then 1 else 0
  | _ => 0
  end.
Definition enc_field (k : skind) (v : value) : list Z :=
  match k with
  | KS cap =>
      let s := take_str (pred cap) (match v with [VS s] => s | _ => [] end) in
      s ++ repeat 0 (cap - length s)
  | _ => map enc_scalar v
  end.
Definition dec_elem (k : skind) (zs : list Z) (j : nat) : option scalar :=
  match k with
  | KS _ => match SugarModel.cstr zs with Some s => Some (VS s) | None => None end
  | KC => option_map VC (nth_error zs j)
  | KF => option_map VF (nth_error zs j)
  | KT => option_map (fun z => VT (negb (z =? 0))) (nth_error zs j)
  | _ => option_map VI (nth_error zs j)
  end.

(* what SaveModel.set_elem does once the callback has produced the stored value:
   the assignment, then rChangeCb (preset selector: its dependents re-initialise;
   switch of a pointer sub-tree going on: a new default-initialised object) *)
Definition commit (a : app) (st : state) (i k : nat) (v' : scalar) : state :=
  let old := val_at st i in
  let st1 := upd st i (upd old k v') in
  let st2 := if is_selector a i then reset_dependents a i st1 else st1 in
  if is_enabler a i && negb (is_on old) && is_on (val_at st2 i) then allocate a i st2 else st2.

(* the callback of a leaf: the macro's callback (C14) on the field of the object the
   descent arrived at - the state's entry for the address [path]; loc = d.loc,
   msg = the message as the callback sees it (for "name#N": "name<idx>") *)
Definition leaf_cb (a : app) (path nm : str) (arr : option nat) (d : leafdata)
           (loc msg : str) (arg : scalar) (s : state) : option state :=
  let i := idx_of (map p_path a) path in
  let k := ld_kind d in
  let e := cenv nm arr d in
  match SugarModel.step (ckind k (is_some arr)) e loc msg (enc_field k (val_at s i)) [enc_arg arg] with
  | None => None
  | Some (zs, _) =>
      let j := match arr with Some _ => Z.to_nat (SugarModel.boils_idx e msg) | None => O end in
      match dec_elem k zs j with
      | Some v' => Some (commit a s i j v')
      | None => None
      end
  end.

(* the callbacks of one dispatch, in the order they ran: the event of level n names
   port [idx] of the table the descent is in; its loc is the address so far *)
Fixpoint run_events (a : app) (tbl : list pt) (dir : str) (evs : list event)
         (arg : scalar) (s : state) {struct evs} : option state :=
  match evs with
  | Ev _ i msg _ (Some loc) _ _ :: rest =>
      match nth_error tbl (Z.to_nat i) with
      | Some (PLeaf nm arr d) => leaf_cb a (dir ++ nm) nm arr d loc msg arg s
      | Some (PSub nm enum ptr sw sub) =>
          (* rRecurpCb: if(!obj->ptr) return;  - no port below is reached, d.matches stays 0 *)
          let absent := match ptr with
                        | Some g => negb (is_on (val_at s (idx_of (map p_path a) (dir ++ g))))
                        | None => false
                        end in
          if absent then None else run_events a sub loc rest arg s
      | Some (PAux _ _) => Some s           (* rSelf's callback replies the object pointer: the state stays *)
      | None => None
      end
  | _ => None        (* no leaf callback ran: dispatch reports no match *)
  end.

(* a switch / toggle (by address) is on in state s *)
Definition sw_on (a : app) (s : state) (g : str) : bool := is_on (val_at s (idx_of (map p_path a) g)).

(* ---- the names as C04's tree (the construction of DispatchWalk.to_tree, restated here
   because that file holds proofs; hp = what the perfect-hash search returned for a
   table, tid = the identity of the Ports object: inputs of C04's model) --------------------- *)
Definition sp_is_sub (p : sport) : bool := match p with SPort _ _ _ (Some _) => true | _ => false end.
Definition sp_name (p : sport) : list Z := match p with SPort sg a _ _ => render_name sg a end.

Section CTree.
  Variable hp : list sport -> list Z * list Z.
  Variable tid : list sport -> Z.

  Definition c_table (l : list sport) : table :=
    {| t_id := tid l; t_dflt := false;
       t_ports := map (fun p => (sp_name p, sp_is_sub p)) l;
       t_pos := fst (hp l); t_assoc := snd (hp l) |}.

  Fixpoint c_tree_port (p : sport) : option tree :=
    match p with
    | SPort _ _ _ None => None
    | SPort _ _ _ (Some l) =>
        Some (Node (c_table l)
                   ((fix go (l : list sport) : list (option tree) :=
                       match l with [] => [] | x :: r => c_tree_port x :: go r end) l))
    end.

  Definition c_tree (root : list sport) : tree := Node (c_table root) (map c_tree_port root).

  (* Ports::dispatch of the message (addr, one argument) at the root with a location
     buffer; the callbacks it invokes run in order *)
  Definition tree_dispatch (t : list pt) (addr : str) (v : scalar) (s : state) : option state :=
    run_events (app_of_tree t) t [47]
               (rev (log (dispatch (c_tree (sports_of t)) addr (tag_of v) true 0))) v s.

  (* dispatch_printed_messages hands a line out as one message, an array line
     ("[v0 v1 ...]") element by element at "path<idx>" *)
  Fixpoint tree_elems (t : list pt) (path : str) (k : nat) (vs : value) (s : state) : option state :=
    match vs with
    | [] => Some s
    | v :: r => match tree_dispatch t (path ++ dec (Z.of_nat k)) v s with
                | Some s' => tree_elems t path (S k) r s'
                | None => None
                end
    end.
  Definition tree_apply_line (t : list pt) (l : line) (s : state) : option state :=
    if l_array l then tree_elems t (l_path l) 0 (l_vals l) s
    else match l_vals l with [v] => tree_dispatch t (l_path l) v s | _ => None end.
End CTree.

(* tables served by the linear scan, numbered by their length *)
Definition nohash (l : list sport) : list Z * list Z := ([], []).
Definition len_id (l : list sport) : Z := Z.of_nat (length l).

(* ---- the walk with the runtime object of a state ---------------------------------------------- *)
(* the tables - the root and the sub-tree ports under every expansion: address (with the
   trailing '/'), switch of the pointer, 'enabled by' toggle (addresses; the inner form: the
   toggle below that expansion), the toggle the table's rSelf names *)
Definition dir_entry := (str * option str * option str * option str)%type.

Fixpoint dirs_pt (dir : str) (p : pt) {struct p} : list dir_entry :=
  match p with
  | PLeaf _ _ _ | PAux _ _ => []
  | PSub nm enum ptr sw sub =>
      flat_map (fun x =>
        (dir ++ x, option_map (fun g => dir ++ g) ptr, option_map (sw_addr dir (sub_name nm enum) x) sw,
         option_map (fun v => (dir ++ x) ++ v) (self_sw sub)) ::
        (fix go (l : list pt) : list dir_entry :=
           match l with [] => [] | q :: r => dirs_pt (dir ++ x) q ++ go r end) sub)
        (expand (sub_segs nm enum))
  end.
Fixpoint dirs_tbl (dir : str) (l : list pt) : list dir_entry :=
  match l with [] => [] | q :: r => dirs_pt dir q ++ dirs_tbl dir r end.
Definition dirs_root (t : list pt) : list dir_entry :=
  ([47], None, None, option_map (fun v => [47] ++ v) (self_sw t)) :: dirs_tbl [47] t.

Definition dir_addr (d : dir_entry) : str := fst (fst (fst d)).
Definition dir_find (ds : list dir_entry) (b : str) : option dir_entry :=
  find (fun d => str_eqb (dir_addr d) b) ds.

(* the oracle C09's walk model asks: o_null b - the sub-tree at address b is a pointer
   whose switch is off (the object does not exist); o_disabled b - its 'enabled by'
   toggle answers false; o_selfoff b - the toggle the rSelf port of the table at b names
   answers false *)
Definition oracle_of (a : app) (ds : list dir_entry) (s : state) : oracle :=
  {| o_null := fun b => match dir_find ds b with
                        | Some (_, Some g, _, _) => negb (sw_on a s g)
                        | _ => false
                        end;
     o_disabled := fun b => match dir_find ds b with
                            | Some (_, _, Some g, _) => negb (sw_on a s g)
                            | _ => false
                            end;
     o_selfoff := fun b => match dir_find ds b with
                           | Some (_, _, _, Some g) => negb (sw_on a s g)
                           | _ => false
                           end |}.

(* the ports the walker was called for: those whose (first element's) address it was given *)
Definition reported (out : list report) (addr : str) : bool := existsb (fun r => str_eqb (snd r) addr) out.
Definition walk_tree (t : list pt) (st : state) : list nat :=
  let a := app_of_tree t in
  match walk (Some (oracle_of a (dirs_root t) st)) (map render_port (sports_of t)) [] with
  | WOk out _ => filter (fun i => reported out (elem_addr (port_at a i) 0)) (seq 0 (length a))
  | WFail => []
  end.

(* ---- side conditions on the 'enabled by' properties (decidable) --------------------------------- *)
Definition nonul_b (s : str) : bool := forallb (fun c => negb (c =? 0)) s.

(* the inner form: what stands behind "name/" is, for Ports::operator[] on the sub-table
   (ask_ports[ask_port_str]), a toggle leaf of that name *)
Definition inner_ok (sub : list pt) (e : str) : bool :=
  match index_op (map render_port (sports_of sub)) e with
  | Some j =>
      match nth_error sub j with
      | Some (PLeaf nm None d) => str_eqb nm e && match ld_kind d with KT => true | _ => false end
      | _ => false
      end
  | None => false
  end.

(* rSelf(.., rEnabledBy(x)) on a table: Ports::operator[]("self:") finds that port, and x is a
   toggle leaf of the same table *)
Definition self_ok (l : list pt) : bool :=
  match self_sw l with
  | None => true
  | Some x =>
      nonul_b x && inner_ok l x &&
      match index_op (map render_port (sports_of l)) self_key with
      | Some i =>
          match nth_error l i with
          | Some (PAux nm (Some x')) => str_eqb nm self_name && str_eqb x' x
          | _ => false
          end
      | None => false
      end
  end.

(* every 'enabled by' value is a C string; one of the inner form names a toggle of the
   sub-tree's own table - the same toggle as that table's rSelf if it has one (else the inner
   switch would be reported while it is off whatever the rSelf switch says, and only with
   the rSelf switch on while it is on: no conjunction of toggles) -, the other form is one
   name (port_is_enabled: assert(!strchr(ask_port_str, '/'))) *)
Fixpoint sw_ok (p : pt) : bool :=
  match p with
  | PLeaf _ _ _ => true
  | PSub nm enum _ sw sub =>
      match sw with
      | Some g => nonul_b g && match subport_split (sub_name nm enum) g with
                               | Some e => inner_ok sub e &&
                                           match self_sw sub with Some x => str_eqb x e | None => true end
                               | None => negb (has_char 47 g)
                               end
      | None => true
      end && self_ok sub && forallb sw_ok sub
  | PAux _ sw => match sw with Some g => nonul_b g | None => true end
  end.
Definition switches_ok (t : list pt) : bool := self_ok t && forallb sw_ok t.
