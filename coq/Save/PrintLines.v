(* C12 - print/scan stage, part 2: the body of a savefile and the first loop of
   dispatch_printed_messages.  "Lines do not interfere": if every line, printed and
   followed by a line feed, is read back whatever message follows it, the loop reads
   the body back line by line, each line with the bytes it took (text + line feed).
   For scalar lines whose values are in C10's goodc0 fragment (int, char, T/F, strings
   and quoted symbols without '.') that is message_reads_tl (Save/PrintStage.v); lines
   outside the fragment - floats, plain option symbols, "[...]" array lines - enter as
   the named premise [line_reads]. *)
From Coq Require Import List ZArith Bool Lia.
From RtoscV Require Import Pretty.Tok Pretty.FloatFmt Pretty.PrintModel Pretty.ScanModel
  Pretty.PrettyProofs Pretty.RangeProofs Pretty.RunProofs Pretty.ListProofs Pretty.ArrayProofs.
From RtoscV Require Import Save.PrintStage Save.PrintTotal.
From RtoscV Require Import Save.TopoModel Save.SaveModel.
Import ListNotations.
Local Open Scope Z_scope.

From RtoscV Require Export Save.LinesModel.

Lemma scalar_of_av : forall x, scalar_of (av_of x) = Some x.
Proof. intros [z|z|b|[|]|s|s]; reflexivity. Qed.

Lemma map_opt_av : forall vs, map_opt' scalar_of (map av_of vs) = Some vs.
Proof. induction vs as [|x vs IH]; [reflexivity|]. cbn. rewrite scalar_of_av, IH. reflexivity. Qed.

Section Body.
Variables dec2f dec2d : list Z -> Z.
Variable o : popts.
Local Notation scan_body := (LinesModel.scan_body dec2f dec2d).
Local Notation print_line := (LinesModel.print_line o).
Local Notation print_body := (LinesModel.print_body o).

Lemma scan_body_step : forall f txt, txt <> [] ->
  scan_body (S f) txt =
  match count_printed_arg_vals_of_msg dec2f dec2d txt with
  | Ok (true, n) =>
      match scan_message dec2f dec2d txt n with
      | Ok (addr, slots, r) =>
          match line_of_slots addr slots with
          | Some l => Msg l (len txt - len r) :: scan_body f r
          | None => [Junk]
          end
      | _ => [Junk]
      end
  | Ok (false, n) => if n =? 2 ^ 31 then [] else [Junk]
  | _ => [Junk]
  end.
Proof. intros f [|c r] H; [congruence | reflexivity]. Qed.

(* the property of one line: printed, a line feed behind it, it is read back whatever
   message follows *)
Definition line_reads (l : line) : Prop :=
  exists t w slots, print_message o (l_path l) (line_avs l) 0 = Some (t, w) /\
    (exists r, t = 47 :: r) /\
    line_of_slots (l_path l) slots = Some l /\
    forall tl, tail_ok tl ->
      count_printed_arg_vals_of_msg dec2f dec2d (t ++ 10 :: tl) = Ok (true, Z.of_nat (length slots)) /\
      scan_message dec2f dec2d (t ++ 10 :: tl) (Z.of_nat (length slots)) = Ok (l_path l, slots, tl).

(* lines inside the fragment: a scalar line, address without white space, goodc values *)
Definition goodc_line (l : line) : Prop :=
  l_array l = false /\ good_addr (l_path l) /\ Forall goodc0 (map av_of (l_vals l)) /\
  Z.of_nat (length (l_vals l)) < 2 ^ 31.

Theorem goodc_line_reads : forall l t w,
  compress o = true -> goodc_line l ->
  print_message o (l_path l) (line_avs l) 0 = Some (t, w) -> line_reads l.
Proof.
  intros l t w Hon (Harr & Haddr & Hg & Hlen) Hp.
  assert (Eav : line_avs l = map av_of (l_vals l)) by (unfold line_avs; rewrite Harr; reflexivity).
  rewrite Eav in Hp.
  assert (Hlen' : Z.of_nat (length (map av_of (l_vals l))) < 2 ^ 31) by (rewrite map_length; exact Hlen).
  destruct (message_reads_tl dec2f dec2d o _ _ t w Hon Haddr Hg Hlen' Hp) as (slots & Hex & [sfx Hsfx] & Hrd).
  exists t, w, slots. rewrite Eav. split; [exact Hp|].
  split; [destruct Haddr as [[ar Ea] _]; rewrite Hsfx, Ea; eexists; reflexivity|].
  split; [|exact Hrd].
  unfold line_of_slots.
  assert (Hnarr : match slots with Tok.VArr _ _ :: _ => False | _ => True end).
  { destruct slots as [|[] ?]; try exact I.
    (* an 'a' header does not expand to values of a scalar line *)
    exfalso. unfold expand in Hex. cbn [length] in Hex.
    change (expand_f (S (S (length slots))) (VArr ety len :: slots))
      with (match expand_f (S (length slots)) slots with Some t => Some (VArr ety len :: t) | None => None end) in Hex.
    destruct (expand_f (S (length slots)) slots) as [t0|]; [|discriminate]. inversion Hex as [E].
    destruct (l_vals l) as [|x xs]; [discriminate|]. cbn [map] in E. inversion E as [[E1 E2]].
    destruct x as [z|z|b|[|]|s0|s0]; discriminate. }
  destruct slots as [|[] ?]; try contradiction; rewrite Hex, map_opt_av; destruct l; cbn in *; subst; reflexivity.
Qed.

(* ---- stage 6: the lines of every parameter kind ------------------------------------------------
   A scalar port's line carries ONE value.  Fewer than five values are never compressed and no
   range tail can follow, so C10's token theorems apply as they are: *)
Definition good_scalar1 (x : scalar) : Prop :=
  match x with
  | SaveModel.VI z => - 2 ^ 31 <= z < 2 ^ 31
  | SaveModel.VC z => 0 <= z <= 255
  | SaveModel.VF b => 0 <= b < 2 ^ 32 /\ f32_finite b = true          (* no NaN, no infinity; both zeroes *)
  | SaveModel.VT _ => True
  | SaveModel.VS s => nonul s
  | SaveModel.VSym s => sym_plain s = true \/ nonul s                  (* printed bare / in quotes *)
  end.
(* the elements of a "name#N" port's line, "[e1 e2 ...]": runs are compressed, so C10's list-level
   conditions apply - no '.' in a quoted symbol (finding ellipsis-in-string-before-range) - and for the
   line as a whole: +0.0 and -0.0 not both (finding signed-zero-run), one element type *)
Definition good_elem (x : scalar) : Prop :=
  match x with
  | SaveModel.VI z => - 2 ^ 31 <= z < 2 ^ 31
  | SaveModel.VC z => 0 <= z <= 255 /\ z <> 46
  | SaveModel.VF b => 0 <= b < 2 ^ 32 /\ f32_finite b = true
  | SaveModel.VT _ => True
  | SaveModel.VS s => nonul s /\ nodot s
  | SaveModel.VSym s => sym_plain s = true \/ (nonul s /\ nodot s)
  end.

Lemma av_of_good1 : forall x, lossless o = true -> good_scalar1 x -> good1 o (av_of x).
Proof.
  intros [z|z|b|[|]|s|s] Hl H; cbn [good_scalar1 av_of] in *.
  - left. exact H.
  - left. exact H.
  - right. right. split; [exact Hl | exact H].
  - left. exact I.
  - left. exact I.
  - left. exact H.
  - destruct (sym_plain s) eqn:E; [right; left; exact E|].
    destruct H as [H|H]; [discriminate|]. left. split; [exact H | exact E].
Qed.

(* C10's class asks "no two dots in a row" (sdotsv) of strings and quoted symbols since its
   stage 7; "no dot" is inside that *)
Lemma nodot_sdotsv (s : list Z) : nodot s -> sdotsv s.
Proof.
  intros H. unfold sdotsv. apply FloatProofs.nodot_sdots. apply Forall_app. split; [exact H|].
  constructor; [discriminate|constructor].
Qed.

Lemma av_of_goodv : forall x, lossless o = true -> good_elem x -> goodv o (av_of x).
Proof.
  intros [z|z|b|[|]|s|s] Hl H; cbn [good_elem av_of] in *.
  - left. cbn. unfold small_k, good_k. split; [exact H | exact I].
  - left. cbn. unfold small_k, good_k. exact H.
  - right. right. split; [exact Hl | exact H].
  - left. exact I.
  - left. exact I.
  - left. cbn. split; [exact (proj1 H) | exact (nodot_sdotsv s (proj2 H))].
  - destruct (sym_plain s) eqn:E; [right; left; exact E|].
    destruct H as [H|[H1 H2]]; [discriminate|]. left. cbn. split; [exact H1|]. split; [exact E | exact (nodot_sdotsv s H2)].
Qed.

Definition good_line (l : line) : Prop :=
  good_addr (l_path l) /\
  if l_array l
  then l_vals l <> [] /\ Forall good_elem (l_vals l) /\ nozmix (map av_of (l_vals l)) /\
       homog (map av_of (l_vals l)) /\ Z.of_nat (length (l_vals l)) + 1 < 2 ^ 31
  else exists x, l_vals l = [x] /\ good_scalar1 x.

(* the printer's model is total on one-value lines: every value of the abstract application
   has a text, and a single value is never handed to the range conversion *)
Lemma print_scalar_av_of : forall x cols, exists t w c, print_scalar o (av_of x) cols = Some (t, w, c).
Proof.
  intros [z|z|b|[|]|s|s] cols; cbn [av_of print_scalar]; try (eexists _, _, _; reflexivity).
  - destruct (print_string o false s cols) as [t c]. eexists _, _, _; reflexivity.
  - destruct (print_string o true s cols) as [t c]. eexists _, _, _; reflexivity.
Qed.
Lemma scalar_av_of : forall x, PrettyProofs.scalar (av_of x).
Proof. intros [z|z|b|[|]|s|s]; exact I. Qed.

Theorem scalar_line_prints : forall l x, l_array l = false -> l_vals l = [x] ->
  exists t w, print_message o (l_path l) (line_avs l) 0 = Some (t, w).
Proof.
  intros l x Ha Hv. unfold line_avs. rewrite Ha, Hv. cbn [map].
  pose proof (scalar_av_of x) as Hs. destruct (print_scalar_av_of x (0 + (len (l_path l) + 1))) as (t & w & c & E).
  unfold print_message. cbn [length]. cbn [print_vals_loop].
  change (Z.of_nat 1 <=? 0) with false. cbv iota.
  replace (convert_to_range o [av_of x] (Z.of_nat 1 - 0)) with CNo by reflexivity.
  rewrite (print_arg_val_top_scalar o (av_of x) [] _ None true Hs), (print_arg_val_scalar o (av_of x) [] _ None Hs).
  rewrite E. rewrite (next_arg_offset_scalar (av_of x) [] Hs).
  destruct (if breaks_itself (av_type (av_of x)) then _ else _) as [[brk_ cols2] awtl2].
  rewrite orb_false_r, andb_false_r.
  change (0 + 1 <? Z.of_nat 1) with false. cbv iota.
  change (Z.of_nat 1 <=? 0 + 1) with true. cbv iota.
  eexists _, _. reflexivity.
Qed.

(* C12_good_line_reads: a line of the class reads back whatever follows it; for an array line given
   that the printer's model returns (scalar lines: scalar_line_prints) *)
Theorem good_line_reads : forall l,
  lossless o = true -> good_line l ->
  (l_array l = true -> exists t w, print_message o (l_path l) (line_avs l) 0 = Some (t, w)) ->
  line_reads l.
Proof.
  intros l Hl [Haddr Hg] Hpr. destruct (l_array l) eqn:Harr.
  - destruct Hg as (Hne & Hel & Hnz & Hh & Hlen). destruct (Hpr eq_refl) as (t & w & Hp).
    assert (Eav : line_avs l = VArr (match map av_of (l_vals l) with e :: _ => av_type e | [] => 105 end)
                                    (Z.of_nat (length (map av_of (l_vals l)))) :: map av_of (l_vals l))
      by (unfold line_avs; rewrite Harr; reflexivity).
    rewrite Eav in Hp.
    assert (Hgv : Forall (goodv o) (map av_of (l_vals l))).
    { apply Forall_forall. intros v Hv. apply in_map_iff in Hv as (x & <- & Hx).
      apply av_of_goodv; [exact Hl|]. exact (proj1 (Forall_forall _ _) Hel x Hx). }
    assert (Hne' : map av_of (l_vals l) <> []) by (destruct (l_vals l); [congruence | discriminate]).
    assert (Hlen' : Z.of_nat (length (map av_of (l_vals l))) + 1 < 2 ^ 31) by (rewrite map_length; exact Hlen).
    destruct (array_message_reads_tl_nz dec2f dec2d o _ _ _ t w Haddr Hgv Hnz Hh Hne' Hlen' Hp)
      as (ty' & slots & Hex & [sfx Hsfx] & Hrd).
    exists t, w, (VArr ty' (Z.of_nat (length slots)) :: slots). rewrite Eav.
    split; [exact Hp|].
    split; [destruct Haddr as [[ar Ea] _]; rewrite Hsfx, Ea; eexists; reflexivity|].
    split.
    + unfold line_of_slots. rewrite Hex, map_opt_av. destruct l; cbn in *; subst; reflexivity.
    + intros tl Htl. replace (Z.of_nat (length (VArr ty' (Z.of_nat (length slots)) :: slots)))
        with (1 + Z.of_nat (length slots)) by (cbn [length]; lia).
      exact (Hrd tl Htl).
  - destruct Hg as (x & Hv & Hx).
    destruct (scalar_line_prints l x Harr Hv) as (t & w & Hp).
    assert (Eav : line_avs l = [av_of x]) by (unfold line_avs; rewrite Harr, Hv; reflexivity).
    rewrite Eav in Hp.
    destruct (one_message_reads_tl dec2f dec2d o _ _ t w Haddr (av_of_good1 x Hl Hx) Hp) as ([sfx Hsfx] & Hrd).
    exists t, w, [av_of x]. rewrite Eav. split; [exact Hp|].
    split; [destruct Haddr as [[ar Ea] _]; rewrite Hsfx, Ea; eexists; reflexivity|].
    split; [|exact Hrd].
    unfold line_of_slots.
    assert (Hexp : expand [av_of x] = Some [av_of x]) by (destruct x as [z|z|b|[|]|s|s]; reflexivity).
    destruct x as [z|z|b|[|]|s|s]; cbn [av_of] in *; rewrite Hexp; cbn [map_opt' scalar_of];
      destruct l; cbn in *; subst; reflexivity.
Qed.

(* the printer's model is total on the lines of the class, compression on or off
   (Save/PrintTotal.v: the array loop with the range conversion never takes a path the
   model does not cover) *)
Theorem good_line_prints : forall l,
  lossless o = true -> good_line l -> exists t w, print_message o (l_path l) (line_avs l) 0 = Some (t, w).
Proof.
  intros l Hl [Haddr Hg]. destruct (l_array l) eqn:Harr.
  - destruct Hg as (Hne & Hel & Hnz & Hh & Hlen).
    assert (Hgv : Forall (goodv o) (map av_of (l_vals l))).
    { apply Forall_forall. intros v Hv. apply in_map_iff in Hv as (x & <- & Hx).
      apply av_of_goodv; [exact Hl|]. exact (proj1 (Forall_forall _ _) Hel x Hx). }
    destruct (zero_choice o _ Hgv Hnz) as (zf & zd & Hz & Hgc).
    unfold line_avs. rewrite Harr.
    apply (array_message_prints_any o zf zd _ _ (map av_of (l_vals l)) Hz Hgc).
    rewrite map_length. exact Hlen.
  - destruct Hg as (x & Hv & _). exact (scalar_line_prints l x Harr Hv).
Qed.

(* C12_good_line_reads: no premise about the printer is left *)
Theorem good_line_reads_total : forall l, lossless o = true -> good_line l -> line_reads l.
Proof.
  intros l Hl Hg. apply good_line_reads; [exact Hl | exact Hg|]. intros _. exact (good_line_prints l Hl Hg).
Qed.

(* ---- lines do not interfere ----------------------------------------------------------------- *)
Lemma print_body_tail : forall ls b, Forall line_reads ls -> print_body ls = Some b -> tail_ok b.
Proof.
  intros [|l r] b Hall H; cbn [print_body] in H.
  - inversion H. left. reflexivity.
  - inversion Hall as [|? ? (t & w & slots & Hp & [r0 Hr0] & _) _]; subst.
    unfold print_line in H. rewrite Hp in H. destruct (print_body r) as [b'|]; [|discriminate].
    inversion H; subst. right. eexists. reflexivity.
Qed.

(* C12_body_scans *)
Theorem body_scans : forall ls b,
  Forall line_reads ls -> print_body ls = Some b ->
  exists rds, length rds = length ls /\ Forall (fun rd => 0 <= rd) rds /\
    forall fuel, (length ls < fuel)%nat ->
      scan_body fuel b = map (fun lr => Msg (fst lr) (snd lr)) (combine ls rds).
Proof.
  induction ls as [|l r IH]; intros b Hall Hb.
  - cbn in Hb. inversion Hb; subst. exists []. split; [reflexivity|]. split; [constructor|].
    intros [|f] Hf; [cbn in Hf; lia | reflexivity].
  - inversion Hall as [|? ? Hl Hr]; subst. cbn [print_body] in Hb.
    destruct Hl as (t & w & slots & Hp & [r0 Hr0] & Hdec & Hrd).
    unfold print_line in Hb. rewrite Hp in Hb.
    destruct (print_body r) as [b'|] eqn:Eb; [|discriminate]. inversion Hb; subst b. clear Hb.
    pose proof (print_body_tail r b' Hr Eb) as Htl.
    destruct (IH b' Hr eq_refl) as (rds & Hlen & Hpos & Hscan).
    destruct (Hrd b' Htl) as [Hc Hs].
    exists ((len t + 1) :: rds). split; [cbn; rewrite Hlen; reflexivity|].
    split; [constructor; [unfold len; lia | exact Hpos]|].
    intros [|f] Hf; [cbn in Hf; lia|].
    rewrite <- app_assoc. change ([10] ++ b') with (10 :: b').
    assert (Hne : t ++ 10 :: b' <> []) by (rewrite Hr0; discriminate).
    rewrite (scan_body_step f _ Hne).
    rewrite Hc, Hs, Hdec. cbn [combine map fst snd]. f_equal.
    + f_equal. unfold len. rewrite app_length. cbn [length]. lia.
    + apply Hscan. cbn [length] in Hf. lia.
Qed.
End Body.

(* ---- the decidable form of the class (evaluated by the tie on every saved line) ---------- *)
Lemma nonul_b_sound s : nonul_b s = true -> nonul s.
Proof.
  unfold nonul_b, nonul. rewrite forallb_forall, Forall_forall. intros H c Hc.
  specialize (H c Hc). apply negb_true_iff, Z.eqb_neq in H. exact H.
Qed.
Lemma nodot_b_sound s : nodot_b s = true -> nodot s.
Proof.
  unfold nodot_b, nodot. rewrite forallb_forall, Forall_forall. intros H c Hc.
  specialize (H c Hc). apply negb_true_iff, Z.eqb_neq in H. exact H.
Qed.
Lemma good_addr_b_sound a : good_addr_b a = true -> good_addr a.
Proof.
  unfold good_addr_b, good_addr. destruct a as [|c r]; [discriminate|].
  destruct (Z.eq_dec c 47) as [->|Hn].
  - intros H. split; [eexists; reflexivity|]. rewrite forallb_forall in H. apply Forall_forall.
    intros x Hx. specialize (H x Hx). now apply negb_true_iff in H.
  - destruct c as [|p|p]; try discriminate. repeat (destruct p as [p|p|]; try discriminate). congruence.
Qed.
Lemma good_scalar1_b_sound x : good_scalar1_b x = true -> good_scalar1 x.
Proof.
  destruct x as [z|z|b|t|s|s]; cbn [good_scalar1_b good_scalar1]; intros H.
  - lia.
  - lia.
  - apply andb_true_iff in H as [H Hf]. split; [lia | exact Hf].
  - exact I.
  - now apply nonul_b_sound.
  - apply orb_true_iff in H as [H|H]; [now left | right; now apply nonul_b_sound].
Qed.
Lemma good_elem_b_sound x : good_elem_b x = true -> good_elem x.
Proof.
  destruct x as [z|z|b|t|s|s]; cbn [good_elem_b good_elem]; intros H.
  - lia.
  - lia.
  - apply andb_true_iff in H as [H Hf]. split; [lia | exact Hf].
  - exact I.
  - apply andb_true_iff in H as [H1 H2]. split; [now apply nonul_b_sound | now apply nodot_b_sound].
  - apply orb_true_iff in H as [H|H]; [now left | right].
    apply andb_true_iff in H as [H1 H2]. split; [now apply nonul_b_sound | now apply nodot_b_sound].
Qed.
Lemma in_fzero z xs : In (VFl z) (map av_of xs) -> existsb (is_fzero z) xs = true.
Proof.
  intros H. apply in_map_iff in H as (x & E & Hx). apply existsb_exists. exists x. split; [exact Hx|].
  destruct x as [a|a|b|[|]|s|s]; cbn [av_of] in E; try discriminate. inversion E; subst. cbn. apply Z.eqb_refl.
Qed.
Lemma nozmix_b_sound xs : nozmix_b xs = true -> nozmix (map av_of xs).
Proof.
  unfold nozmix_b, nozmix. intros H. split.
  - apply orb_true_iff in H as [H|H]; [left|right]; intros Hin; apply in_fzero in Hin; rewrite Hin in H; discriminate.
  - left. intros Hin. apply in_map_iff in Hin as (x & E & _). destruct x as [a|a|b|[|]|s|s]; discriminate.
Qed.
Lemma types_match_trans a b c : types_match a b = true -> types_match a c = true -> types_match b c = true.
Proof. unfold types_match. intros H1 H2. lia. Qed.
Lemma homog_b_sound xs : homog_b xs = true -> homog (map av_of xs).
Proof.
  unfold homog_b, homog. destruct xs as [|x0 r]; [intros _ a b []|].
  intros H a b Ha Hb. rewrite forallb_forall in H.
  apply in_map_iff in Ha as (xa & <- & Ha). apply in_map_iff in Hb as (xb & <- & Hb).
  exact (types_match_trans _ _ _ (H xa Ha) (H xb Hb)).
Qed.

Theorem good_line_b_sound : forall l, good_line_b l = true -> good_line l.
Proof.
  intros l H. unfold good_line_b in H. apply andb_true_iff in H as [Ha H]. split; [now apply good_addr_b_sound|].
  destruct (l_array l).
  - apply andb_true_iff in H as [H H5]. apply andb_true_iff in H as [H H4]. apply andb_true_iff in H as [H H3].
    apply andb_true_iff in H as [H1 H2].
    split; [destruct (l_vals l); discriminate|].
    split; [apply Forall_forall; intros x Hx; apply good_elem_b_sound; rewrite forallb_forall in H2; now apply H2|].
    split; [now apply nozmix_b_sound|]. split; [now apply homog_b_sound | lia].
  - destruct (l_vals l) as [|x [|y r]]; try discriminate. exists x. split; [reflexivity | now apply good_scalar1_b_sound].
Qed.
