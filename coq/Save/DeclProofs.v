(* soundness of the computed form of `declared` *)
From Coq Require Import List ZArith Bool Lia Arith.
From RtoscV Require Import Save.TopoModel Save.TopoEdges Save.SaveModel Save.SaveProofs Save.RoundProofs
                           Save.RoundFull Save.PermApp Save.DeclModel.
Import ListNotations.

Theorem declared_b_sound : forall a apropos, declared_b a apropos = true -> declared a apropos.
Proof.
  intros a apropos H i j Hi Hj Hm.
  unfold declared_b in H. rewrite forallb_forall in H.
  assert (Hin : In j (seq 0 (length a))) by (apply in_seq; lia).
  specialize (H j Hin). unfold declared_for in H. rewrite forallb_forall in H.
  assert (Hw : In i (waits_for a j)).
  { unfold waits_for. apply in_or_app. destruct Hm as [Hs|Hh].
    - left. rewrite Hs. left. reflexivity.
    - right. assumption. }
  specialize (H i Hw). apply existsb_exists in H. destruct H as [ic [Hic Hn]].
  unfold names_it in Hn.
  destruct (apropos (if fst ic then snd ic ++ [slash] else snd ic)) as [m|] eqn:Ea; [|discriminate].
  apply existsb_exists in Hn. destruct Hn as [e [He Hr]].
  destruct (resolve_entry (fst ic) (port_name m) e (snd ic)) as [t|] eqn:Er; [|discriminate].
  apply streqb_true in Hr. subst t.
  exists ic, m, e. repeat split; assumption.
Qed.

(* the other direction, for applications whose selector / switch indices lie inside
   the table (part of wf_app): what is declared is found by the computation *)
Theorem declared_b_complete : forall a apropos,
  (forall i j, (j < length a)%nat -> must_precede a i j -> (i < length a)%nat) ->
  declared a apropos -> declared_b a apropos = true.
Proof.
  intros a apropos Hidx H. unfold declared_b. apply forallb_forall. intros j Hj. apply in_seq in Hj.
  unfold declared_for. apply forallb_forall. intros i Hw.
  assert (Hm : must_precede a i j).
  { unfold waits_for in Hw. apply in_app_or in Hw. destruct Hw as [Hw|Hw].
    - left. destruct (p_sel (port_at a j)) as [s|]; [|contradiction].
      destruct Hw as [Hw|[]]. subst s. reflexivity.
    - right. assumption. }
  assert (Hi : (i < length a)%nat) by (apply (Hidx i j); [lia | assumption]).
  destruct (H i j Hi ltac:(lia) Hm) as (ic & m & e & Hic & Hap & He & Hr).
  apply existsb_exists. exists ic. split; [assumption|]. unfold names_it. rewrite Hap.
  apply existsb_exists. exists e. split; [assumption|]. rewrite Hr. apply streqb_true. reflexivity.
Qed.
