(* C12 - the dispatch stage of the round-trip pipeline instantiated:
   "dispatching a savefile line's message to the tree stores exactly that value in
   exactly that port" is proved for the abstract application [app_of_tree t] of a
   port tree [t] (Save/TreeApp.v) from
     C04  exactly one leaf callback runs, the one on the index path, each callback's
          loc is the address so far          (TreeProofs.tree_exactly_one_leaf via
          C09's walk_dispatchable_names / reaches_addressed)
     C14  the macro's callback stores clamp(v) (SugarProofs.rLIMIT_clampK, the core of
          C14_clamp), a symbol the number of its first "map" entry, a string cut to
          the declared length (C14_string_trunc), an array port reads its index from
          the address (boils_idx).                                                    *)
From Coq Require Import List ZArith Bool Lia Arith Permutation.
From RtoscV Require Import Match.PatSpec Match.MatchModel Match.MatchProofs
     Ports.NameModel Ports.WalkModel Ports.DispatchModel Ports.DispatchProofs Ports.TreeProofs
     Ports.EnumProofs Ports.DispatchWalk Ports.NamesModel Ports.NamesOk.
From RtoscV Require Ports.SugarModel Ports.SugarProofs.
From RtoscV Require Import Save.TopoModel Save.SaveModel Save.SaveProofs Save.RoundProofs Save.RoundFull
     Save.TreeApp.
Import ListNotations.
Local Open Scope Z_scope.

Module SM := SugarModel.
Module SP := SugarProofs.

(* ======================================================================== *)
(* A. the callback of a leaf stores what SaveModel.store says (C14)           *)
(* ======================================================================== *)
Definition leaf_wf (arr : option nat) (d : leafdata) : Prop :=
  kind_shape (ld_kind d) (is_some arr) = true /\
  match ld_kind d with
  | KS cap => (1 <= cap)%nat
  | KF => SM.onan (ld_min d) /\ SM.onan (ld_max d)
  | _ => True
  end.

(* a float argument is no NaN, a string argument a C string *)
Definition arg_wf (v : scalar) : Prop :=
  match v with VF b => SM.nonan b | VS s => SM.nul_free s | _ => True end.

Lemma enum_key_same : forall mp s, SaveModel.enum_key mp s = SM.enum_key mp s.
Proof.
  induction mp as [|[k v] r IH]; intros s; [reflexivity|]. cbn.
  assert (E : forall a b, TopoModel.str_eqb a b = SM.str_eqb a b).
  { induction a as [|x a IHa]; destruct b as [|y b]; cbn; try rewrite IHa; reflexivity. }
  rewrite E, IH. reflexivity.
Qed.

Lemma take_str_firstn : forall n s, take_str n s = firstn n s.
Proof. induction n as [|n IH]; destruct s as [|c s]; cbn; try rewrite IH; reflexivity. Qed.

Lemma omap_option_map : forall A B (f : A -> B) o, omap f o = option_map f o.
Proof. intros A B f [x|]; reflexivity. Qed.

Lemma zlimit : forall mn mx v, SM.rLIMIT Z.ltb mn mx v = SM.clampK zkey mn mx v.
Proof.
  intros. apply (SP.rLIMIT_clampK Z SM.zkey Z.ltb SP.anyZ SP.z_ltb_key); try exact I; apply SP.ogood_any.
Qed.

Lemma flimit : forall mn mx v, SM.nonan v -> SM.onan mn -> SM.onan mx ->
  SM.rLIMIT SM.fltb mn mx v = SM.clampK SM.fkey mn mx v.
Proof. intros. apply (SP.rLIMIT_clampK Z SM.fkey SM.fltb SM.nonan SP.f_ltb_key); assumption. Qed.

Lemma nth_error_map_enc : forall old j, (j < length old)%nat ->
  exists x, nth_error (map enc_scalar old) j = Some (enc_scalar x).
Proof.
  intros old j H. destruct (nth_error old j) as [x|] eqn:E.
  - exists x. rewrite nth_error_map, E. reflexivity.
  - apply nth_error_None in E. lia.
Qed.

Lemma nth_error_upd_same : forall A (l : list A) n v, (n < length l)%nat -> nth_error (SM.upd l n v) n = Some v.
Proof. intros. apply SP.nth_error_upd_same. assumption. Qed.

Section LeafStore.
  Variables (nm : str) (arr : option nat) (d : leafdata) (path loc msg : str).
  Let p := leaf_port path arr d.
  Let e := cenv nm arr d.
  Let k := ld_kind d.

  Lemma cb_store : forall v v' old j,
    leaf_wf arr d -> arg_wf v -> store p v = Some v' ->
    length old = p_len p -> (j < length old)%nat ->
    match arr with Some _ => Z.to_nat (SM.boils_idx e msg) = j | None => j = O end ->
    exists zs o,
      SM.step (ckind k (is_some arr)) e loc msg (enc_field k old) [enc_arg v] = Some (zs, o) /\
      dec_elem k zs j = Some v'.
  Proof.
    intros v v' old j [Hshape Hk] Hv Hst Hlen Hj Hidx.
    unfold store in Hst. subst p. cbn [leaf_port p_kind p_min p_max p_opts p_len] in *. fold k in Hst, Hshape, Hk |- *.
    (* scalar ports hold one value *)
    assert (Hone : arr = None -> exists x, old = [x]).
    { intros ->. destruct old as [|x [|y r]]; cbn in Hlen; try lia. exists x. reflexivity. }
    (* the element an array callback reads *)
    assert (Helem : forall a, arr = Some a -> exists x, nth_error (map enc_scalar old) (Z.to_nat (SM.boils_idx e msg)) = Some (enc_scalar x)).
    { intros a ->. rewrite Hidx. apply nth_error_map_enc. assumption. }
    destruct k eqn:Ek; destruct v as [z|z|b|b|s|s]; try discriminate; inversion Hst; subst v'; clear Hst.
    - (* KC: rParam *)
      destruct arr as [a|]; [discriminate|]. destruct (Hone eq_refl) as [x ->]. subst j.
      cbn. rewrite zlimit. eexists. eexists. split; reflexivity.
    - (* KI *)
      destruct arr as [a|]; [discriminate|]. destruct (Hone eq_refl) as [x ->]. subst j.
      cbn. rewrite zlimit. eexists. eexists. split; reflexivity.
    - (* KB: rArrayI *)
      destruct arr as [a|]; [|discriminate]. destruct (Helem a eq_refl) as [x Hx].
      cbn [ckind is_some SM.step enc_field]. unfold SM.rArrayICb. rewrite (SP.at_idx_elem _ _ _ _ _ Hx), Hidx.
      cbn. rewrite zlimit. eexists. eexists. split; [reflexivity|].
      cbn [dec_elem]. rewrite nth_error_upd_same by (rewrite map_length; assumption). reflexivity.
    - (* KF *)
      destruct Hk as [Hmn Hmx]. cbn in Hv.
      destruct arr as [a|].
      + destruct (Helem a eq_refl) as [x Hx].
        cbn [ckind is_some SM.step enc_field]. unfold SM.rArrayFCb. rewrite (SP.at_idx_elem _ _ _ _ _ Hx), Hidx.
        cbn. rewrite flimit by assumption. eexists. eexists. split; [reflexivity|].
        cbn [dec_elem]. rewrite nth_error_upd_same by (rewrite map_length; assumption). reflexivity.
      + destruct (Hone eq_refl) as [x ->]. subst j. cbn. rewrite flimit by assumption.
        eexists. eexists. split; reflexivity.
    - (* KT *)
      destruct arr as [a|].
      + destruct (Helem a eq_refl) as [x Hx].
        cbn [ckind is_some SM.step enc_field]. unfold SM.rArrayTCb. rewrite (SP.at_idx_elem _ _ _ _ _ Hx), Hidx.
        destruct b; cbn; (eexists; eexists; split; [reflexivity|]);
          cbn [dec_elem]; rewrite nth_error_upd_same by (rewrite map_length; assumption); reflexivity.
      + destruct (Hone eq_refl) as [x ->]. subst j.
        destruct b; cbn; destruct (enc_scalar x =? _) eqn:E; cbn; (eexists; eexists; split; [reflexivity|]); cbn;
          try reflexivity; apply Z.eqb_eq in E; rewrite E; reflexivity.
    - (* KO, 'i' *)
      destruct arr as [a|].
      + destruct (Helem a eq_refl) as [x Hx].
        cbn [ckind is_some SM.step enc_field]. unfold SM.rArrayOptionCb. rewrite (SP.at_idx_elem _ _ _ _ _ Hx), Hidx.
        cbn. rewrite zlimit. eexists. eexists. split; [reflexivity|].
        cbn [dec_elem]. rewrite nth_error_upd_same by (rewrite map_length; assumption). reflexivity.
      + destruct (Hone eq_refl) as [x ->]. subst j. cbn. rewrite zlimit. eexists. eexists. split; reflexivity.
    - (* KO, 'c' *)
      destruct arr as [a|].
      + destruct (Helem a eq_refl) as [x Hx].
        cbn [ckind is_some SM.step enc_field]. unfold SM.rArrayOptionCb. rewrite (SP.at_idx_elem _ _ _ _ _ Hx), Hidx.
        cbn. rewrite zlimit. eexists. eexists. split; [reflexivity|].
        cbn [dec_elem]. rewrite nth_error_upd_same by (rewrite map_length; assumption). reflexivity.
      + destruct (Hone eq_refl) as [x ->]. subst j. cbn. rewrite zlimit. eexists. eexists. split; reflexivity.
    - (* KO, symbol *)
      destruct arr as [a|].
      + destruct (Helem a eq_refl) as [x Hx].
        cbn [ckind is_some SM.step enc_field]. unfold SM.rArrayOptionCb. rewrite (SP.at_idx_elem _ _ _ _ _ Hx), Hidx.
        cbn. eexists. eexists. split; [reflexivity|].
        cbn [dec_elem]. rewrite nth_error_upd_same by (rewrite map_length; assumption). reflexivity.
      + destruct (Hone eq_refl) as [x ->]. subst j. cbn. eexists. eexists. split; reflexivity.
    - (* KS *)
      cbn in Hv. cbn [ckind SM.step enc_field].
      set (buf := take_str (pred cap) match old with [VS s0] => s0 | _ => [] end ++ repeat 0 (cap - length (take_str (pred cap) match old with [VS s0] => s0 | _ => [] end))).
      assert (Hbuf : Z.of_nat (length buf) = Z.of_nat cap).
      { unfold buf. rewrite app_length, repeat_length.
        assert (length (take_str (pred cap) match old with [VS s0] => s0 | _ => [] end) <= pred cap)%nat
          by (rewrite take_str_firstn; apply firstn_le_length). lia. }
      destruct (SP.rStringCb_set (Z.of_nat cap) e loc buf s ltac:(lia) Hbuf Hv) as (buf' & Hr & Hc & _).
      cbn [enc_arg]. rewrite Hr. eexists. eexists. split; [reflexivity|]. cbn [dec_elem]. rewrite Hc.
      f_equal. f_equal. change (take_str (pred cap) s) with (firstn (pred cap) s). f_equal. lia.
  Qed.
End LeafStore.

(* ======================================================================== *)
(* B. the callbacks of one dispatch, level by level (C04)                      *)
(* ======================================================================== *)
(* the text a matching port appends to loc is the expansion of its name that the
   address spells (TreeProofs.app_is_matched) *)
Lemma sub_app_of : forall cs x rest,
  cs <> [] -> Forall dcomp cs -> In x (expand (comps_segs cs)) ->
  app_of (flatten (comps_segs cs) ++ []) (x ++ rest) rest = x.
Proof.
  intros cs x rest Hne Hc Hx.
  destruct (comps_expand cs Hne x Hx) as [y [Hy ->]].
  pose proof (comps_conv_wf cs Hc) as Hw.
  set (p := {| segs := map conv (comps_conv cs); subtree := true; types := None |}).
  assert (Hr : flatten (comps_segs cs) ++ [] = PatSpec.render p).
  { unfold PatSpec.render, render_tail, p. cbn [segs subtree types render_types app].
    rewrite render_conv, (comps_flatten cs Hne), !app_nil_r. reflexivity. }
  assert (Hwf : wf_pat p).
  { unfold wf_pat, p. cbn [segs subtree types]. repeat split;
      [apply conv_seg_ok; exact Hw | apply conv_enum_sep; exact Hw | intros E; discriminate]. }
  assert (Ha : no_alt p).
  { unfold no_alt, p. cbn [segs]. apply Forall_forall. intros s Hs. destruct s; try exact I.
    exact (conv_no_alt _ _ Hs). }
  assert (Sp : path_spec p ((y ++ [47]) ++ rest) rest).
  { unfold path_spec, p. cbn [subtree segs]. exists y. split; [apply expand_spells; assumption|].
    rewrite <- app_assoc. reflexivity. }
  destruct (app_is_matched p _ _ Hwf Ha Sp) as [Em _]. rewrite Hr.
  apply app_inv_tail in Em. symmetry. exact Em.
Qed.

Lemma leaf_app_of : forall sg tys a,
  dsegs_wf sg -> last_not_slash (map conv sg) -> types_ok tys -> In a (expand sg) ->
  app_of (flatten sg ++ render_types tys) a [] = a.
Proof.
  intros sg tys a Hw Hl Ht Ha.
  set (p := {| segs := map conv sg; subtree := false; types := tys |}).
  assert (Hr : flatten sg ++ render_types tys = PatSpec.render p).
  { unfold PatSpec.render, render_tail, p. cbn [segs subtree types app]. rewrite render_conv. reflexivity. }
  assert (Hwf : wf_pat p).
  { unfold wf_pat, p. cbn [segs subtree types]. repeat split;
      [apply conv_seg_ok; exact Hw | apply conv_enum_sep; exact Hw | intros _; exact Hl | exact Ht]. }
  assert (Hna : no_alt p).
  { unfold no_alt, p. cbn [segs]. apply Forall_forall. intros s Hs. destruct s; try exact I.
    exact (conv_no_alt _ _ Hs). }
  assert (Sp : path_spec p a []).
  { unfold path_spec, p. cbn [subtree segs]. split; [apply expand_spells; assumption | reflexivity]. }
  destruct (app_is_matched p _ _ Hwf Hna Sp) as [Em _]. rewrite Hr.
  rewrite app_nil_r in Em. symmetry. exact Em.
Qed.

(* the leaf at index path [id] of the table [tbl] that stands at address [dir] is
   reached by the relative address [a]: the table of the leaf stands at [dirF], the
   switches of the pointer sub-trees passed on the way are [extra] (outermost
   first), the part of [a] the leaf's own name spells is [aL] *)
Fixpoint descends (tbl : list pt) (id : list nat) (dir a dirF : str) (extra : list str)
         (nm : str) (arr : option nat) (d : leafdata) (aL : str) {struct id} : Prop :=
  match id with
  | [] => False
  | j :: rest =>
      match nth_error tbl j with
      | Some (PLeaf nm' arr' d') =>
          rest = [] /\ In a (expand (leaf_segs nm' arr')) /\
          dirF = dir /\ extra = [] /\ nm' = nm /\ arr' = arr /\ d' = d /\ aL = a
      | Some (PSub nm' enum ptr sw sub) =>
          exists x a' extra', In x (expand (sub_segs nm' enum)) /\ a = x ++ a' /\
            extra = olist (option_map (fun g => dir ++ g) ptr) ++ extra' /\
            descends sub rest (dir ++ x) a' dirF extra' nm arr d aL
      | Some (PAux _ _) => False
      | None => False
      end
  end.

Definition leaf_args (d : leafdata) : str := render_types (Some (kind_types (ld_kind d))).

Lemma descends_reaches : forall id tbl dir a dirF extra nm arr d aL ty,
  descends tbl id dir a dirF extra nm arr d aL -> admits (leaf_args d) ty ->
  reaches (sports_of tbl) id a ty.
Proof.
  induction id as [|j rest IH]; intros tbl dir a dirF extra nm arr d aL ty H Hty; [contradiction|].
  cbn [descends] in H. cbn [reaches]. unfold sports_of. rewrite nth_error_map.
  destruct (nth_error tbl j) as [[nm' arr' d'|nm' enum ptr sw sub|nm' sw]|]; [| |contradiction|contradiction].
  - destruct H as (-> & Ha & _ & _ & _ & _ & -> & _). cbn [option_map sport_of]. auto.
  - destruct H as (x & a' & extra' & Hx & -> & _ & H). cbn [option_map sport_of].
    exists x, a'. split; [exact Hx|]. split; [reflexivity|]. exact (IH sub _ _ _ _ _ _ _ _ ty H Hty).
Qed.

Lemma kind_types_ok : forall k, types_ok (Some (kind_types k)).
Proof.
  intros k. unfold types_ok. split; [destruct k; discriminate|].
  destruct k; repeat constructor; cbn; lia.
Qed.

Section Tree.
  Variable hp : list sport -> list Z * list Z.
  Variable tid : list sport -> Z.
  Variable A : app.


  Lemma to_tree_ports : forall l j q,
    nth_error l j = Some q ->
    nth_error (t_ports (tab_of (to_tree hp tid l))) j = Some (sname q, is_sub q).
  Proof. intros l j q E. unfold to_tree. cbn [tab_of mk_table t_ports]. rewrite nth_error_map, E. reflexivity. Qed.

  Lemma to_tree_subs : forall l j q,
    nth_error l j = Some q -> nth_error (subs_of (to_tree hp tid l)) j = Some (to_tree_port hp tid q).
  Proof. intros l j q E. unfold to_tree. cbn [subs_of]. rewrite nth_error_map, E. reflexivity. Qed.

  Lemma run_chain : forall id tbl dir a dirF extra nm arr d aL ty o arg s,
    descends tbl id dir a dirF extra nm arr d aL ->
    Forall dok (sports_of tbl) -> admits (leaf_args d) ty ->
    run_events A tbl dir (chain id (to_tree hp tid (sports_of tbl)) a ty o (Some dir)) arg s =
    if forallb (sw_on A s) extra then leaf_cb A (dirF ++ nm) nm arr d (dirF ++ aL) aL arg s else None.
  Proof.
    induction id as [|j rest IH]; intros tbl dir a dirF extra nm arr d aL ty o arg s H Hok Hty; [contradiction|].
    pose proof (reaches_chars (sports_of tbl) (j :: rest) a ty Hok
                  (descends_reaches _ _ _ _ _ _ _ _ _ _ ty H Hty)) as Hch.
    assert (Hnul : nul_free ty) by (destruct Hty as (tys & _ & _ & Hn & _); exact Hn).
    cbn [descends] in H.
    destruct (nth_error tbl j) as [[nm' arr' d'|nm' enum ptr sw sub|nm' sw]|] eqn:E; [| |contradiction|contradiction].
    - (* the leaf *)
      destruct H as (-> & Ha & -> & -> & -> & -> & -> & ->).
      assert (Es : nth_error (sports_of tbl) j = Some (sport_of (PLeaf nm arr d)))
        by (unfold sports_of; rewrite nth_error_map, E; reflexivity).
      rewrite Forall_forall in Hok. pose proof (Hok _ (nth_error_In _ _ Es)) as Hq.
      cbn [sport_of dok] in Hq. destruct Hq as [Hw Hls].
      pose proof (leaf_matches _ _ ty a Hw Hls Hty Ha) as Hm. unfold leaf_args in Hm.
      cbn [chain]. rewrite (to_tree_ports _ _ _ Es). cbn [sport_of sname is_sub].
      change (render_name (leaf_segs nm arr) (render_types (Some (kind_types (ld_kind d)))))
        with (flatten (leaf_segs nm arr) ++ render_types (Some (kind_types (ld_kind d)))).
      rewrite Hm. rewrite (to_tree_subs _ _ _ Es). cbn [sport_of to_tree_port].
      rewrite leaf_app_of; [|assumption|assumption| |assumption].
      + cbn [option_map run_events forallb]. rewrite Nat2Z.id, E. reflexivity.
      + apply kind_types_ok.
    - (* a sub-tree port *)
      destruct H as (x & a' & extra' & Hx & -> & -> & H).
      assert (Es : nth_error (sports_of tbl) j = Some (sport_of (PSub nm' enum ptr sw sub)))
        by (unfold sports_of; rewrite nth_error_map, E; reflexivity).
      rewrite Forall_forall in Hok. pose proof (Hok _ (nth_error_In _ _ Es)) as Hq.
      cbn [sport_of dok] in Hq. destruct Hq as [_ [[cs [Ecs [Hne Hc]]] [_ Hall]]].
      assert (Haddr : addr_ok (x ++ a')) by (eapply Forall_impl; [|exact Hch]; intros ch Hc'; apply Hc').
      rewrite Ecs in Hx.
      destruct (subtree_matches cs ty x a' Hne Hc Hx Haddr Hnul) as [Hm Hs].
      cbn [chain]. rewrite (to_tree_ports _ _ _ Es). cbn [sport_of sname is_sub].
      change (render_name (sub_segs nm' enum) []) with (flatten (sub_segs nm' enum) ++ []).
      rewrite Ecs, Hm, Hs. rewrite (to_tree_subs _ _ _ Es). cbn [sport_of]. rewrite (to_tree_port_sub hp tid).
      rewrite (sub_app_of cs x a' Hne Hc Hx).
      cbn [option_map run_events]. rewrite Nat2Z.id, E.
      fold (sports_of sub).
      rewrite (IH sub (dir ++ x) a' dirF extra' nm arr d aL ty _ arg s H (dok_all _ Hall) Hty).
      destruct ptr as [g|]; cbn [option_map olist app forallb]; [|reflexivity].
      change ([dir ++ g] ++ extra') with ((dir ++ g) :: extra'). cbn [forallb]. unfold sw_on.
      destruct (is_on (val_at s (idx_of (map p_path A) (dir ++ g)))); cbn [negb andb]; reflexivity.
  Qed.
End Tree.

(* ======================================================================== *)
(* C. the flat application, leaf by leaf                                       *)
(* ======================================================================== *)
Section PtInd.
  Variable P : pt -> Prop.
  Hypothesis Hleaf : forall nm arr d, P (PLeaf nm arr d).
  Hypothesis Hsub : forall nm enum ptr sw sub, Forall P sub -> P (PSub nm enum ptr sw sub).
  Hypothesis Haux : forall nm sw, P (PAux nm sw).
  Fixpoint pt_ind2 (p : pt) : P p.
  Proof.
    destruct p as [nm arr d|nm enum ptr sw sub|nm sw]; [apply Hleaf| |apply Haux]. apply Hsub.
    exact ((fix go (l : list pt) : Forall P l :=
              match l with
              | [] => Forall_nil P
              | x :: r => Forall_cons x (pt_ind2 x) (go r)
              end) sub).
  Defined.
End PtInd.

Lemma flat_pt_sub : forall ids dir hard soft nm enum ptr sw sub,
  flat_pt ids dir hard soft (PSub nm enum ptr sw sub) =
  flat_map (fun x => flat_tbl ids (dir ++ x) (hard ++ olist (option_map (fun g => dir ++ g) ptr))
                              ((soft ++ olist (option_map (sw_addr dir (sub_name nm enum) x) sw))
                               ++ self_soft (dir ++ x) sub) sub 0%nat)
           (expand (sub_segs nm enum)).
Proof.
  intros. cbn [flat_pt]. apply flat_map_ext. intros x.
  generalize ((soft ++ olist (option_map (sw_addr dir (sub_name nm enum) x) sw)) ++ self_soft (dir ++ x) sub).
  intros soft'.
  generalize 0%nat. induction sub as [|q r IH]; intros i; [reflexivity|].
  cbn [flat_tbl]. rewrite <- IH. reflexivity.
Qed.

Lemma in_flat_tbl : forall l ids dir hard soft i f,
  In f (flat_tbl ids dir hard soft l i) ->
  exists j q, nth_error l j = Some q /\ In f (flat_pt (ids ++ [(i + j)%nat]) dir hard soft q).
Proof.
  induction l as [|q r IH]; intros ids dir hard soft i f H; [contradiction|].
  cbn [flat_tbl] in H. apply in_app_or in H. destruct H as [H|H].
  - exists O, q. rewrite Nat.add_0_r. split; [reflexivity | exact H].
  - destruct (IH _ _ _ _ _ _ H) as (j & q' & E & Hin). exists (S j), q'. split; [exact E|].
    replace (i + S j)%nat with (S i + j)%nat by lia. exact Hin.
Qed.

(* the address of element k, relative to the leaf's table *)
Definition leaf_rel (nm : str) (arr : option nat) (k : nat) : str :=
  match arr with Some _ => nm ++ dec (Z.of_nat k) | None => nm end.

Lemma leaf_rel_expand : forall nm arr k,
  (k < match arr with Some n => n | None => 1 end)%nat ->
  In (leaf_rel nm arr k) (expand (leaf_segs nm arr)).
Proof.
  intros nm [n|] k Hk; cbn [leaf_segs leaf_rel expand].
  - apply in_map. apply in_flat_map. exists k. split; [apply in_seq; rewrite Nat2Z.id; lia|].
    cbn. left. rewrite app_nil_r. reflexivity.
  - cbn. left. rewrite app_nil_r. reflexivity.
Qed.

Lemma elem_addr_leaf : forall dir nm arr d k,
  elem_addr (leaf_port (dir ++ nm) arr d) k = dir ++ leaf_rel nm arr k.
Proof.
  intros dir nm [n|] d k; unfold elem_addr, leaf_rel; cbn [leaf_port p_array p_path is_some];
    [rewrite app_assoc|]; reflexivity.
Qed.

(* every port of the flat application with a default is a leaf of the tree: its index
   path, the table it stands in, the switches above it (the entry of a non-parameter port
   has none) *)
Lemma flat_pt_descends : forall p ids dir hard soft f k,
  In f (flat_pt ids dir hard soft p) -> (k < p_len (f_port f))%nat -> p_nodef (f_port f) = false ->
  exists rest a dirF extra nm arr d,
    f_id f = ids ++ rest /\ f_port f = leaf_port (dirF ++ nm) arr d /\
    f_hard f = hard ++ extra /\ dir ++ a = elem_addr (f_port f) k /\
    forall tbl j, nth_error tbl j = Some p ->
      descends tbl (j :: rest) dir a dirF extra nm arr d (leaf_rel nm arr k).
Proof.
  induction p as [nm arr d|nm enum ptr sw sub IHs|nm sw] using pt_ind2; intros ids dir hard soft f k Hin Hk Hnd.
  3:{ cbn [flat_pt] in Hin. destruct Hin as [<-|[]]. discriminate Hnd. }
  - cbn [flat_pt] in Hin. destruct Hin as [<-|[]]. cbn [f_port f_id f_hard] in *.
    exists [], (leaf_rel nm arr k), dir, [], nm, arr, d.
    rewrite !app_nil_r. repeat split; try reflexivity.
    + rewrite elem_addr_leaf. reflexivity.
    + intros tbl j E. cbn [descends]. rewrite E. repeat split; try reflexivity.
      apply leaf_rel_expand. exact Hk.
  - rewrite flat_pt_sub in Hin. apply in_flat_map in Hin. destruct Hin as (x & Hx & Hin).
    destruct (in_flat_tbl _ _ _ _ _ _ _ Hin) as (j' & q & Eq & Hq). cbn [Nat.add] in Hq.
    rewrite Forall_forall in IHs.
    destruct (IHs q (nth_error_In _ _ Eq) _ _ _ _ f k Hq Hk Hnd) as (rest & a & dirF & extra & nm' & arr & d & Hid & Hp & Hh & Ha & Hd).
    exists (j' :: rest), (x ++ a), dirF, (olist (option_map (fun g => dir ++ g) ptr) ++ extra), nm', arr, d.
    split; [rewrite Hid, <- app_assoc; reflexivity|]. split; [exact Hp|].
    split; [rewrite Hh, <- app_assoc; reflexivity|]. split; [rewrite <- Ha, <- app_assoc; reflexivity|].
    intros tbl j E. cbn [descends]. rewrite E. exists x, a, extra. repeat split; try assumption.
    apply Hd. exact Eq.
Qed.

Lemma flat_root_descends : forall t f k,
  In f (flat_root t) -> (k < p_len (f_port f))%nat -> p_nodef (f_port f) = false ->
  exists a dirF nm arr d,
    f_port f = leaf_port (dirF ++ nm) arr d /\ 47 :: a = elem_addr (f_port f) k /\
    descends t (f_id f) [47] a dirF (f_hard f) nm arr d (leaf_rel nm arr k).
Proof.
  intros t f k Hin Hk Hnd. unfold flat_root in Hin.
  destruct (in_flat_tbl _ _ _ _ _ _ _ Hin) as (j & q & Eq & Hq). cbn [Nat.add app] in Hq.
  destruct (flat_pt_descends q _ _ _ _ f k Hq Hk Hnd) as (rest & a & dirF & extra & nm & arr & d & Hid & Hp & Hh & Ha & Hd).
  exists a, dirF, nm, arr, d. split; [exact Hp|]. split; [exact Ha|].
  rewrite Hid, Hh. cbn [app]. apply Hd. exact Eq.
Qed.

(* ======================================================================== *)
(* D. dispatching one parameter message to the tree = SaveModel.set_elem       *)
(* ======================================================================== *)
From RtoscV Require Import Save.TopoEdges Ports.DecProofs.

Lemma idx_of_nodup : forall ps i q, NoDup ps -> nth_error ps i = Some q -> idx_of ps q = i.
Proof.
  induction ps as [|p r IH]; intros i q Hnd E; [destruct i; discriminate|].
  inversion Hnd as [|? ? Hnot Hnd']; subst. destruct i as [|i]; cbn in E |- *.
  - inversion E; subst. rewrite (proj2 (streqb_true q q) eq_refl). reflexivity.
  - destruct (str_eqb p q) eqn:Eq.
    + apply streqb_true in Eq. subst q. exfalso. apply Hnot. eapply nth_error_In. exact E.
    + f_equal. apply IH; assumption.
Qed.

Lemma forallb_map' : forall A B (f : A -> B) (g : B -> bool) l, forallb g (map f l) = forallb (fun x => g (f x)) l.
Proof. induction l as [|x l IH]; cbn; [reflexivity|]. rewrite IH. reflexivity. Qed.

Lemma paths_app : forall t, map p_path (app_of_tree t) = fpaths (flat_root t).
Proof. intros t. unfold app_of_tree, fpaths. rewrite map_map. reflexivity. Qed.

Lemma port_at_app : forall t i f, nth_error (flat_root t) i = Some f ->
  port_at (app_of_tree t) i = resolve (fpaths (flat_root t)) f.
Proof.
  intros t i f E. unfold port_at, app_of_tree. apply nth_error_nth.
  rewrite nth_error_map, E. reflexivity.
Qed.

Lemma sm_atoi : forall s acc, SM.atoi_acc acc s = MatchModel.atoi_acc acc s.
Proof.
  induction s as [|c s IH]; intros acc; [reflexivity|]. cbn [SM.atoi_acc MatchModel.atoi_acc].
  change (SM.is_digit c) with (isdigit c). destruct (isdigit c); [|reflexivity].
  rewrite IH. f_equal. lia.
Qed.

Lemma boils_idx_leaf : forall nm n d k,
  Z.to_nat (SM.boils_idx (cenv nm (Some n) d) (nm ++ dec (Z.of_nat k))) = k.
Proof.
  intros nm n d k. unfold SM.boils_idx. cbn [cenv SM.p_hash SM.p_name is_some].
  rewrite SP.skipn_length_app.
  destruct (atoi_dec (Z.of_nat k) [] ltac:(lia) eq_refl) as (Ha & _ & Hd).
  rewrite app_nil_r in Ha, Hd.
  assert (Hs : SM.skip_nondigit (dec (Z.of_nat k)) = dec (Z.of_nat k)).
  { destruct (dec (Z.of_nat k)) as [|c r]; [reflexivity|]. cbn in Hd |- *.
    change (SM.is_digit c) with (isdigit c). rewrite Hd. reflexivity. }
  rewrite Hs, sm_atoi. unfold atoi in Ha. rewrite Ha. apply Nat2Z.id.
Qed.

(* the type tag of a value the port's argument specification accepts is one of
   the alternatives the macro wrote behind the name *)
Lemma store_admits : forall path arr d v v',
  store (leaf_port path arr d) v = Some v' -> admits (leaf_args d) (tag_of v).
Proof.
  intros path arr d v v' H. unfold admits, leaf_args. exists (Some (kind_types (ld_kind d))).
  split; [reflexivity|]. split; [apply kind_types_ok|].
  unfold store in H. cbn [leaf_port p_kind] in H.
  split.
  - unfold tag_of. destruct v as [z|z|b|[|]|s|s]; repeat constructor; cbn; lia.
  - destruct (ld_kind d); destruct v as [z|z|b|[|]|s|s]; try discriminate; cbn; tauto.
Qed.

(* set_elem, with the rChangeCb part named *)
Lemma set_elem_commit : forall a st i k v,
  set_elem a st i k v =
  if (k <? p_len (port_at a i))%nat then
    match store (port_at a i) v with
    | None => None
    | Some v' => if exists_ a st i then Some (commit a st i k v') else None
    end
  else None.
Proof. reflexivity. Qed.

(* a state with one value per element (ports without default are not saved and
   not written by a savefile: nothing is asked of them) *)
Definition shaped (a : app) (s : state) : Prop :=
  length s = length a /\
  forall i, (i < length a)%nat -> p_nodef (port_at a i) = false ->
            length (val_at s i) = p_len (port_at a i).

(* the leaves are made by the macros C14 models *)
Fixpoint pt_wf (p : pt) : Prop :=
  match p with
  | PLeaf nm arr d => leaf_wf arr d
  | PSub _ _ _ _ sub => (fix all (l : list pt) : Prop := match l with [] => True | x :: r => pt_wf x /\ all r end) sub
  | PAux _ _ => True
  end.

Lemma pt_wf_all : forall l,
  (fix all (l : list pt) : Prop := match l with [] => True | x :: r => pt_wf x /\ all r end) l -> Forall pt_wf l.
Proof. induction l as [|x r IH]; intros H; [constructor|]. destruct H. constructor; auto. Qed.

Lemma descends_wf : forall id tbl dir a dirF extra nm arr d aL,
  Forall pt_wf tbl -> descends tbl id dir a dirF extra nm arr d aL -> leaf_wf arr d.
Proof.
  induction id as [|j rest IH]; intros tbl dir a dirF extra nm arr d aL Hw H; [contradiction|].
  cbn [descends] in H. destruct (nth_error tbl j) as [[nm' arr' d'|nm' enum ptr sw sub|nm' sw]|] eqn:E; [| |contradiction|contradiction].
  - destruct H as (_ & _ & _ & _ & _ & <- & <- & _).
    rewrite Forall_forall in Hw. exact (Hw _ (nth_error_In _ _ E)).
  - destruct H as (x & a' & extra' & _ & _ & _ & H).
    rewrite Forall_forall in Hw. pose proof (Hw _ (nth_error_In _ _ E)) as Hq. cbn [pt_wf] in Hq.
    exact (IH _ _ _ _ _ _ _ _ _ (pt_wf_all _ Hq) H).
Qed.

Lemma c_tree_eq : forall hp tid l, c_tree hp tid l = to_tree hp tid l.
Proof. reflexivity. Qed.

Section Dispatch.
  Variable hp : list sport -> list Z * list Z.
  Variable tid : list sport -> Z.
  Variable t : list pt.
  Let A := app_of_tree t.
  Let T := to_tree hp tid (sports_of t).

  Hypothesis Hnames : names_ok (sports_of t) = true.
  Hypothesis Htree : tree_ok T.
  Hypothesis Hwf : Forall pt_wf t.
  Hypothesis Hpaths : NoDup (map p_path A).

  Theorem dispatch_elem : forall i k v s,
    (i < length A)%nat -> (k < p_len (port_at A i))%nat -> p_nodef (port_at A i) = false ->
    arg_wf v -> store (port_at A i) v <> None -> shaped A s ->
    tree_dispatch hp tid t (elem_addr (port_at A i) k) v s = set_elem A s i k v.
  Proof.
    intros i k v s Hi Hk Hnd Hv Hst [Hlen Hsh].
    destruct (nth_error (flat_root t) i) as [f|] eqn:Ef.
    2:{ apply nth_error_None in Ef. unfold A, app_of_tree in Hi. rewrite map_length in Hi. lia. }
    pose proof (port_at_app t i f Ef) as Hp. fold A in Hp.
    assert (Hlenf : p_len (f_port f) = p_len (port_at A i)) by (rewrite Hp; reflexivity).
    assert (Hndf : p_nodef (f_port f) = false) by (rewrite Hp in Hnd; exact Hnd).
    destruct (flat_root_descends t f k (nth_error_In _ _ Ef) ltac:(lia) Hndf) as (a & dirF & nm & arr & d & Hfp & Ha & Hd).
    assert (Hstore : store (port_at A i) v = store (leaf_port (dirF ++ nm) arr d) v).
    { rewrite Hp. unfold store, resolve. rewrite Hfp. reflexivity. }
    destruct (store (port_at A i) v) as [v'|] eqn:Es; [|congruence]. symmetry in Hstore.
    assert (Haddr : elem_addr (port_at A i) k = 47 :: a).
    { rewrite Ha. rewrite Hp. unfold elem_addr, resolve. cbn [p_array p_path]. reflexivity. }
    pose proof (store_admits _ _ _ _ _ Hstore) as Hty.
    destruct (names_ok_sound _ Hnames) as (_ & Hdok & Hdis & _).
    pose proof (descends_reaches _ _ _ _ _ _ _ _ _ _ _ Hd Hty) as Hr.
    pose proof (reaches_chars _ _ _ _ Hdok Hr) as Hch.
    (* C04: exactly the chain of callbacks along the index path runs *)
    assert (Hlog : rev (log (dispatch T (47 :: a) (tag_of v) true 0)) = chain (f_id f) T a (tag_of v) 0 (Some [47])).
    { assert (Hroot : root_ok T (47 :: a)).
      { unfold root_ok. split; [exact Htree|]. cbn [strip Z.eqb Pos.eqb].
        split; (eapply Forall_impl; [|exact Hch]; intros c Hc; unfold achar in Hc; lia). }
      pose proof (tree_exactly_one_leaf (f_id f) T (47 :: a) (tag_of v) 0 Hroot) as H1.
      cbn [strip Z.eqb Pos.eqb] in H1.
      exact (proj1 (H1 (reaches_addressed hp tid _ _ _ _ Hdis Hdok Hr))). }
    unfold tree_dispatch. rewrite c_tree_eq. fold T. fold A. rewrite Haddr, Hlog. unfold T.
    rewrite (run_chain hp tid A _ _ _ _ _ _ _ _ _ _ _ _ v s Hd Hdok Hty).
    (* the switches on the way are the port's p_hard *)
    assert (Hex : forallb (sw_on A s) (f_hard f) = exists_ A s i).
    { unfold exists_, all_on. rewrite Hp. unfold resolve. cbn [p_hard]. rewrite forallb_map'.
      unfold sw_on. fold A. rewrite <- (paths_app t). reflexivity. }
    rewrite Hex, set_elem_commit, Es.
    destruct (k <? p_len (port_at A i))%nat eqn:Ek; [|apply Nat.ltb_ge in Ek; lia].
    destruct (exists_ A s i); [|reflexivity].
    (* C14: the callback stores what store says *)
    unfold leaf_cb.
    assert (Hidx : idx_of (map p_path A) (dirF ++ nm) = i).
    { apply idx_of_nodup; [exact Hpaths|]. unfold A at 1. rewrite paths_app. unfold fpaths.
      rewrite nth_error_map, Ef. cbn [option_map]. rewrite Hfp. reflexivity. }
    rewrite Hidx.
    assert (Hlf : leaf_wf arr d) by (eapply descends_wf; eassumption).
    assert (Hplen : p_len (leaf_port (dirF ++ nm) arr d) = p_len (port_at A i)) by (rewrite <- Hfp; exact Hlenf).
    destruct (cb_store nm arr d (dirF ++ nm) (dirF ++ leaf_rel nm arr k) (leaf_rel nm arr k) v v' (val_at s i) k
                Hlf Hv Hstore) as (zs & o & Hstep & Hdec).
    - rewrite Hplen. apply Hsh; assumption.
    - rewrite (Hsh i Hi Hnd). exact Hk.
    - destruct arr as [n|]; [apply boils_idx_leaf|].
      cbn [leaf_port p_len] in Hplen. lia.
    - rewrite Hstep.
      assert (Hj : match arr with Some _ => Z.to_nat (SM.boils_idx (cenv nm arr d) (leaf_rel nm arr k)) | None => O end = k).
      { destruct arr as [n|]; [apply boils_idx_leaf|]. cbn [leaf_port p_len] in Hplen. lia. }
      rewrite Hj, Hdec. reflexivity.
  Qed.
End Dispatch.

(* ======================================================================== *)
(* E. one savefile line                                                        *)
(* ======================================================================== *)
(* the state keeps its shape under every accepted message *)
Lemma val_at_map_seq : forall (f : nat -> value) n q, (q < n)%nat -> val_at (map f (seq 0 n)) q = f q.
Proof. exact map_seq_nth. Qed.

Lemma shaped_commit : forall a s i k v',
  wf_app a -> shaped a s -> (i < length a)%nat -> shaped a (commit a s i k v').
Proof.
  intros a s i k v' WF [Hlen Hsh] Hi. unfold commit.
  set (st1 := upd s i (upd (val_at s i) k v')).
  assert (S1 : shaped a st1).
  { split; [unfold st1; rewrite upd_length; exact Hlen|].
    intros q Hq Hnd. unfold st1. rewrite val_at_upd by lia.
    destruct (Nat.eq_dec q i) as [->|]; [rewrite upd_length|]; apply Hsh; assumption. }
  set (st2 := if is_selector a i then reset_dependents a i st1 else st1).
  assert (S2 : shaped a st2).
  { unfold st2. destruct (is_selector a i); [|exact S1]. destruct S1 as [L1 Sh1].
    split; [unfold reset_dependents; rewrite map_length, seq_length; reflexivity|].
    intros q Hq Hnd. unfold reset_dependents. rewrite val_at_map_seq by assumption.
    destruct (p_sel (port_at a q)) as [s'|]; [|apply Sh1; assumption].
    destruct (Nat.eqb s' i); [|apply Sh1; assumption].
    unfold default_of. apply (w_shape a WF q Hq). exact Hnd. }
  destruct (is_enabler a i && negb (is_on (val_at s i)) && is_on (val_at st2 i)); [|exact S2].
  destruct S2 as [L2 Sh2].
  split; [unfold allocate; rewrite map_length, seq_length; reflexivity|].
  intros q Hq Hnd. unfold allocate. rewrite val_at_map_seq by assumption.
  destruct (mem_nat i (p_hard (port_at a q))); [|apply Sh2; assumption].
  unfold initial_of. rewrite Hnd. apply (w_shape a WF q Hq). exact Hnd.
Qed.

Lemma shaped_set_elem : forall a s i k v s',
  wf_app a -> shaped a s -> (i < length a)%nat -> set_elem a s i k v = Some s' -> shaped a s'.
Proof.
  intros a s i k v s' WF Hs Hi H. rewrite set_elem_commit in H.
  destruct (k <? p_len (port_at a i))%nat; [|discriminate].
  destruct (store (port_at a i) v) as [v'|]; [|discriminate].
  destruct (exists_ a s i); [|discriminate]. inversion H; subst. apply shaped_commit; assumption.
Qed.

Lemma shaped_initial : forall a, wf_app a -> shaped a (initial a).
Proof.
  intros a WF. split; [unfold initial; rewrite map_length, seq_length; reflexivity|].
  intros i Hi Hnd. rewrite val_at_initial by assumption. unfold initial_of. rewrite Hnd.
  apply (w_shape a WF i Hi). exact Hnd.
Qed.

Section Line.
  Variable hp : list sport -> list Z * list Z.
  Variable tid : list sport -> Z.
  Variable t : list pt.
  Local Notation A := (app_of_tree t).

  Hypothesis Hnames : names_ok (sports_of t) = true.
  Hypothesis Htree : tree_ok (to_tree hp tid (sports_of t)).
  Hypothesis Hwf : Forall pt_wf t.
  Hypothesis WF : wf_app A.

  (* a line for port i whose values the port's argument specification accepts
     (what save_lines produces, C12_line_ok below) *)
  Definition line_for (i : nat) (l : line) : Prop :=
    (i < length A)%nat /\ l_path l = p_path (port_at A i) /\ l_array l = p_array (port_at A i) /\
    p_nodef (port_at A i) = false /\
    (length (l_vals l) <= p_len (port_at A i))%nat /\
    Forall (fun v => arg_wf v /\ store (port_at A i) v <> None) (l_vals l).

  Lemma tree_elems_spec : forall i vs k s,
    (i < length A)%nat -> p_array (port_at A i) = true -> p_nodef (port_at A i) = false ->
    (k + length vs <= p_len (port_at A i))%nat ->
    Forall (fun v => arg_wf v /\ store (port_at A i) v <> None) vs -> shaped A s ->
    tree_elems hp tid t (p_path (port_at A i)) k vs s = apply_elems A i k vs s.
  Proof.
    intros i vs. induction vs as [|v r IH]; intros k s Hi Ha Hnd Hk Hvs Hs; [reflexivity|].
    inversion Hvs as [|? ? [Hv Hst] Hr]; subst. cbn [length] in Hk. cbn [tree_elems apply_elems].
    assert (Eaddr : p_path (port_at A i) ++ dec (Z.of_nat k) = elem_addr (port_at A i) k)
      by (unfold elem_addr; rewrite Ha; reflexivity).
    rewrite Eaddr.
    assert (Hk' : (k < p_len (port_at A i))%nat) by lia.
    rewrite (dispatch_elem hp tid t Hnames Htree Hwf (w_paths A WF) i k v s Hi Hk' Hnd Hv Hst Hs).
    destruct (set_elem A s i k v) as [s'|] eqn:E; [|reflexivity].
    apply IH; try assumption; [lia|]. eapply shaped_set_elem; eassumption.
  Qed.

  Theorem dispatch_line : forall i l s,
    line_for i l -> shaped A s -> tree_apply_line hp tid t l s = apply_line A l s.
  Proof.
    intros i l s (Hi & Hp & Ha & Hnd & Hlen & Hvs) Hs.
    unfold tree_apply_line, apply_line. rewrite Hp.
    rewrite (find_port_at A i (w_paths A WF) Hi). rewrite Ha, Bool.eqb_reflx.
    destruct (p_array (port_at A i)) eqn:Ea.
    - apply tree_elems_spec; assumption.
    - destruct (l_vals l) as [|v [|w r]]; try reflexivity.
      inversion Hvs as [|? ? [Hv Hst] _]; subst.
      assert (Eaddr : p_path (port_at A i) = elem_addr (port_at A i) 0)
        by (unfold elem_addr; rewrite Ea; reflexivity).
      rewrite Eaddr.
      assert (H0 : (0 < p_len (port_at A i))%nat) by (apply (w_shape A WF i Hi)).
      exact (dispatch_elem hp tid t Hnames Htree Hwf (w_paths A WF) i 0 v s Hi H0 Hnd Hv Hst Hs).
  Qed.

End Line.
