(* C12 - "for any state an application can reach through its parameter ports": the states
   reached from a default-initialised instance by parameter messages satisfy the conditions the
   round-trip theorems ask of the state (full_conditions: shape, saved values stable).
   What is asked of the application: wf_app and that its defaults are values its own callbacks
   store (defaults inside the declared range); of a message: that the value it stores is stored
   again when it is sent as the file shows it (msg_ok) - true of EVERY message to a port that is
   no option port (stable_non_option, from C14's clamp idempotence); for an option port it excludes
   exactly the messages of the finding class option-outside-range. *)
From Coq Require Import List ZArith Bool Lia Arith.
From RtoscV Require Import Save.TopoModel Save.SaveModel Save.SaveProofs Save.RoundProofs Save.RoundFull
     Save.TreeApp Save.DispatchStage Save.CondModel Save.CondProofs.
Import ListNotations.

Definition elem_stable (p : port) (x : scalar) : Prop := store p (shown p x) = Some x.

Definition defaults_stable (a : app) : Prop :=
  forall i, (i < length a)%nat -> p_nodef (port_at a i) = false ->
    forall selv x, In x (default_with (port_at a i) selv) -> elem_stable (port_at a i) x.

Definition msg_ok (p : port) (v : scalar) : Prop := forall v', store p v = Some v' -> elem_stable p v'.

Lemma msg_ok_non_option : forall p v, p_kind p <> KO -> msg_ok p v.
Proof. intros p v Hk v' Hs. exact (stable_non_option p v v' Hk Hs). Qed.

Inductive reachable (a : app) : state -> Prop :=
| RC_init : reachable a (initial a)
| RC_send : forall s i k v, reachable a s -> (i < length a)%nat -> msg_ok (port_at a i) v ->
                            reachable a (send a i k v s).

Definition Inv (a : app) (s : state) : Prop :=
  length s = length a /\
  (forall i, (i < length a)%nat -> length (val_at s i) = p_len (port_at a i)) /\
  (forall i, (i < length a)%nat -> p_nodef (port_at a i) = false ->
             forall x, In x (val_at s i) -> elem_stable (port_at a i) x).

Lemma in_upd : forall A (l : list A) n v x, In x (upd l n v) -> x = v \/ In x l.
Proof.
  induction l as [|h t IH]; intros n v x H; destruct n; simpl in *; try contradiction.
  - destruct H as [H|H]; [left; congruence | right; right; assumption].
  - destruct H as [H|H]; [right; left; assumption|]. destruct (IH _ _ _ H); [left | right; right]; assumption.
Qed.

Section Reach.
  Variable a : app.
  Hypothesis WF : wf_app a.
  Hypothesis DS : defaults_stable a.

  Lemma initial_of_ok : forall j, (j < length a)%nat ->
    length (initial_of a j) = p_len (port_at a j) /\
    (p_nodef (port_at a j) = false -> forall x, In x (initial_of a j) -> elem_stable (port_at a j) x).
  Proof.
    intros j Hj. destruct (w_shape a WF j Hj) as (_ & _ & Hd & Hn). unfold initial_of.
    destruct (p_nodef (port_at a j)) eqn:E.
    - split; [exact (proj1 (Hn eq_refl)) | intros H; discriminate].
    - split; [apply Hd; reflexivity|]. intros _ x Hx. exact (DS j Hj E _ x Hx).
  Qed.

  Lemma default_of_ok : forall s j, (j < length a)%nat -> p_nodef (port_at a j) = false ->
    length (default_of a s j) = p_len (port_at a j) /\
    (forall x, In x (default_of a s j) -> elem_stable (port_at a j) x).
  Proof.
    intros s j Hj E. destruct (w_shape a WF j Hj) as (_ & _ & Hd & _). unfold default_of.
    split; [apply Hd; exact E|]. intros x Hx. exact (DS j Hj E _ x Hx).
  Qed.

  Lemma inv_initial : Inv a (initial a).
  Proof.
    split; [unfold initial; rewrite map_length, seq_length; reflexivity|]. split.
    - intros i Hi. rewrite val_at_initial by assumption. exact (proj1 (initial_of_ok i Hi)).
    - intros i Hi E x Hx. rewrite val_at_initial in Hx by assumption. exact (proj2 (initial_of_ok i Hi) E x Hx).
  Qed.

  Lemma inv_commit : forall s i k v', Inv a s -> (i < length a)%nat -> elem_stable (port_at a i) v' ->
    Inv a (commit a s i k v').
  Proof.
    intros s i k v' (Hlen & Hsh & Hst) Hi Hv. unfold commit.
    set (st1 := upd s i (upd (val_at s i) k v')).
    assert (I1 : Inv a st1).
    { split; [unfold st1; rewrite upd_length; exact Hlen|]. split.
      - intros q Hq. unfold st1. rewrite val_at_upd by lia.
        destruct (Nat.eq_dec q i) as [->|]; [rewrite upd_length|]; apply Hsh; assumption.
      - intros q Hq E x Hx. unfold st1 in Hx. rewrite val_at_upd in Hx by lia.
        destruct (Nat.eq_dec q i) as [->|]; [|exact (Hst q Hq E x Hx)].
        destruct (in_upd _ _ _ _ _ Hx) as [->|Hx']; [exact Hv | exact (Hst i Hq E x Hx')]. }
    set (st2 := if is_selector a i then reset_dependents a i st1 else st1).
    assert (I2 : Inv a st2).
    { unfold st2. destruct (is_selector a i); [|exact I1]. destruct I1 as (L1 & Sh1 & St1).
      split; [unfold reset_dependents; rewrite map_length, seq_length; reflexivity|]. split.
      - intros q Hq. unfold reset_dependents. rewrite val_at_map_seq by assumption.
        destruct (p_sel (port_at a q)) as [s'|] eqn:Es; [|apply Sh1; assumption].
        destruct (Nat.eqb s' i); [|apply Sh1; assumption].
        destruct (p_nodef (port_at a q)) eqn:E.
        + destruct (w_shape a WF q Hq) as (_ & _ & _ & Hn). destruct (Hn E) as [_ Hnone]. congruence.
        + exact (proj1 (default_of_ok st1 q Hq E)).
      - intros q Hq E x Hx. unfold reset_dependents in Hx. rewrite val_at_map_seq in Hx by assumption.
        destruct (p_sel (port_at a q)) as [s'|]; [|exact (St1 q Hq E x Hx)].
        destruct (Nat.eqb s' i); [|exact (St1 q Hq E x Hx)].
        exact (proj2 (default_of_ok st1 q Hq E) x Hx). }
    destruct (is_enabler a i && negb (is_on (val_at s i)) && is_on (val_at st2 i)); [|exact I2].
    destruct I2 as (L2 & Sh2 & St2).
    split; [unfold allocate; rewrite map_length, seq_length; reflexivity|]. split.
    - intros q Hq. unfold allocate. rewrite val_at_map_seq by assumption.
      destruct (mem_nat i (p_hard (port_at a q))); [|apply Sh2; assumption].
      exact (proj1 (initial_of_ok q Hq)).
    - intros q Hq E x Hx. unfold allocate in Hx. rewrite val_at_map_seq in Hx by assumption.
      destruct (mem_nat i (p_hard (port_at a q))); [|exact (St2 q Hq E x Hx)].
      exact (proj2 (initial_of_ok q Hq) E x Hx).
  Qed.

  Lemma inv_send : forall s i k v, Inv a s -> (i < length a)%nat -> msg_ok (port_at a i) v -> Inv a (send a i k v s).
  Proof.
    intros s i k v HI Hi Hm. unfold send. rewrite set_elem_commit.
    destruct (k <? p_len (port_at a i))%nat; [|exact HI].
    destruct (store (port_at a i) v) as [v'|] eqn:Es; [|exact HI].
    destruct (exists_ a s i); [|exact HI].
    apply inv_commit; [exact HI | exact Hi | exact (Hm v' Es)].
  Qed.

  Theorem reachable_inv : forall s, reachable a s -> Inv a s.
  Proof. induction 1; [exact inv_initial | apply inv_send; assumption]. Qed.

  (* C12_reachable_full_conditions *)
  Theorem reachable_full_conditions : forall s, reachable a s -> full_conditions a s.
  Proof.
    intros s H. destruct (reachable_inv s H) as (Hlen & Hsh & Hst).
    split; [exact WF|]. split; [exact Hlen|]. split; [exact Hsh|].
    intros i x Hi Hx. unfold saved in Hi. apply filter_In in Hi as [Hin Hsv].
    apply in_seq in Hin. unfold is_saved in Hsv.
    apply andb_true_iff in Hsv as [Hsv _]. apply andb_true_iff in Hsv as [Hnd _]. apply negb_true_iff in Hnd.
    exact (Hst i ltac:(lia) Hnd x Hx).
  Qed.
End Reach.

(* ---- decidable forms (evaluated by the tie) ------------------------------------------------------ *)
Lemma elem_stable_b_sound : forall p x, elem_stable_b p x = true -> elem_stable p x.
Proof.
  intros p x H. unfold elem_stable_b in H. unfold elem_stable.
  destruct (store p (shown p x)) as [y|]; [|discriminate]. apply scalar_eqb_eq in H. now subst.
Qed.

Theorem defaults_stable_b_sound : forall a, defaults_stable_b a = true -> defaults_stable a.
Proof.
  intros a H i Hi End selv x Hx. pose proof (all_idx_spec _ _ H i Hi) as Hb. cbv beta zeta in Hb.
  rewrite End in Hb. cbn [orb] in Hb. apply andb_true_iff in Hb as [Hd Ht].
  rewrite forallb_forall in Hd, Ht. apply elem_stable_b_sound.
  unfold default_with in Hx.
  destruct selv as [v|]; [|exact (Hd x Hx)].
  destruct (sel_key v) as [k|]; [|exact (Hd x Hx)].
  destruct (lookup_table (p_table (port_at a i)) k) as [d|] eqn:El; [|exact (Hd x Hx)].
  destruct (lookup_table_in _ _ _ El) as [k' Hk]. specialize (Ht _ Hk). cbn [snd] in Ht.
  rewrite forallb_forall in Ht. exact (Ht x Hx).
Qed.

Theorem msg_ok_b_sound : forall p v, msg_ok_b p v = true -> msg_ok p v.
Proof.
  intros p v H v' Hs. unfold msg_ok_b in H. rewrite Hs in H. exact (elem_stable_b_sound p v' H).
Qed.

(* ---- non-vacuity: the state of RoundFull's example is reached by four messages -------------------- *)
Theorem reachable_nonvacuous :
  wf_app fx_app /\ defaults_stable fx_app /\ reachable fx_app fx_state /\ full_conditions fx_app fx_state.
Proof.
  assert (WF : wf_app fx_app) by (exact (proj1 (proj1 roundtrip_full_nonvacuous))).
  assert (DS : defaults_stable fx_app) by (apply defaults_stable_b_sound; vm_compute; reflexivity).
  assert (R : reachable fx_app fx_state).
  { change fx_state with
      (send fx_app 3 0 (VI 8) (send fx_app 2 1 (VI 5) (send fx_app 1 0 (VI 9) (send fx_app 0 0 (VT true) (initial fx_app))))).
    repeat (apply RC_send; [| simpl; lia | apply msg_ok_non_option; discriminate]). apply RC_init. }
  split; [exact WF|]. split; [exact DS|]. split; [exact R|].
  exact (reachable_full_conditions fx_app WF DS fx_state R).
Qed.
