(* C12 - the round trip of the abstract application at full generality of the
   model: pointer sub-trees (a switch allocates / frees the objects below it)
   and "#N" leaf arrays (lines trimmed by first_equal_index) included. *)
From Coq Require Import List ZArith Bool Lia Arith Permutation.
From RtoscV Require Import Save.TopoModel Save.TopoProofs Save.SaveModel Save.SaveProofs Save.RoundProofs.
Import ListNotations.

(* ---- lists ----------------------------------------------------------------- *)
Lemma upd_split : forall (A : Type) (l : list A) k x, (k < length l)%nat ->
  upd l k x = firstn k l ++ x :: skipn (S k) l.
Proof.
  induction l as [|h t IH]; intros k x H; simpl in H; [lia|].
  destruct k as [|k]; simpl; [reflexivity|]. rewrite IH by lia. reflexivity.
Qed.

Lemma same_value_length : forall u w, same_value u w = true -> length u = length w.
Proof.
  induction u as [|x u IH]; destruct w as [|y w]; simpl; intro H; try discriminate; [reflexivity|].
  apply andb_true_iff in H. destruct H as [_ H]. rewrite (IH _ H). reflexivity.
Qed.

Lemma same_value_nth : forall u w j d, same_value u w = true -> (j < length u)%nat ->
  same_scalar (nth j u d) (nth j w d) = true.
Proof.
  induction u as [|x u IH]; destruct w as [|y w]; simpl; intros j d H Hj; try discriminate; try lia.
  apply andb_true_iff in H. destruct H as [H1 H2].
  destruct j as [|j]; [assumption | apply IH; [assumption | lia]].
Qed.

Lemma same_value_is_on : forall u w, same_value u w = true -> is_on u = is_on w.
Proof.
  intros u w H. destruct u as [|x [|x' u]]; destruct w as [|y [|y' w]]; simpl in H; try discriminate; try reflexivity.
  - rewrite andb_true_r in H. destruct x; destruct y; simpl in H; try discriminate; simpl; try reflexivity.
    + apply Z.eqb_eq in H. subst. reflexivity.
    + apply eqb_prop in H. subst. reflexivity.
  - apply andb_true_iff in H. destruct H as [_ H]. simpl in H. destruct y'; discriminate.
  - apply andb_true_iff in H. destruct H as [_ H]. simpl in H. destruct x'; discriminate.
  - destruct x; destruct y; reflexivity.
Qed.

(* first_equal_index: the line is a prefix of the shown values; behind it every
   shown element compares equal to the default's *)
Lemma trim_spec : forall c d dflt, exists m, (m <= length c)%nat /\ trim c d = firstn m c /\
  forall j, (m <= j < length c)%nat -> (j < length d)%nat ->
            same_scalar (nth j c dflt) (nth j d dflt) = true.
Proof.
  induction c as [|x c IH]; intros d dflt.
  - exists 0%nat. simpl. split; [lia|]. split; [destruct d; reflexivity|]. intros; lia.
  - destruct d as [|y d].
    + exists (S (length c)). simpl. split; [lia|]. split; [rewrite firstn_all; reflexivity|]. intros; lia.
    + destruct (IH d dflt) as (m & Hm & Ht & Htail). simpl.
      destruct (trim c d) as [|r0 r] eqn:E.
      * assert (Hall : forall j, (j < length c)%nat -> (j < length d)%nat ->
                                 same_scalar (nth j c dflt) (nth j d dflt) = true).
        { intros j Hj Hd. apply Htail; [|assumption]. split; [|assumption].
          destruct m as [|m]; [lia|]. destruct c; [simpl in Hj; lia | simpl in Ht; discriminate]. }
        destruct (same_scalar x y) eqn:Es.
        -- exists 0%nat. split; [lia|]. split; [reflexivity|].
           intros j Hj Hd. destruct j as [|j]; [assumption|]. simpl. apply Hall; simpl in *; lia.
        -- exists 1%nat. split; [simpl; lia|]. split; [reflexivity|].
           intros j Hj Hd. destruct j as [|j]; [lia|]. simpl. apply Hall; simpl in *; lia.
      * exists (S m). split; [simpl; lia|]. split; [simpl; rewrite <- Ht; reflexivity|].
        intros j Hj Hd. destruct j as [|j]; [lia|]. simpl. apply Htail; simpl in *; lia.
Qed.

(* ---- one message, in general -------------------------------------------------- *)
Section SetFull.
  Variable a : app.

  Definition st2v (cur : state) (i k : nat) (v' : scalar) (q : nat) : value :=
    let st1 := upd cur i (upd (val_at cur i) k v') in
    match p_sel (port_at a q) with
    | Some s' => if Nat.eqb s' i then default_of a st1 q else val_at st1 q
    | None => val_at st1 q
    end.

  Definition st3v (cur : state) (i k : nat) (v' : scalar) (q : nat) : value :=
    if negb (is_on (val_at cur i)) && is_on (st2v cur i k v' i) && mem_nat i (p_hard (port_at a q))
    then initial_of a q else st2v cur i k v' q.

  Lemma allocate_pointwise : forall g s q, (q < length a)%nat ->
    val_at (allocate a g s) q = if mem_nat g (p_hard (port_at a q)) then initial_of a q else val_at s q.
  Proof. intros. unfold allocate. rewrite map_seq_nth by assumption. reflexivity. Qed.

  Lemma reset_pointwise' : forall s cur q, (q < length a)%nat ->
    val_at (reset_dependents a s cur) q =
    match p_sel (port_at a q) with
    | Some s' => if Nat.eqb s' s then default_of a cur q else val_at cur q
    | None => val_at cur q
    end.
  Proof. intros. unfold reset_dependents. rewrite map_seq_nth by assumption. reflexivity. Qed.

  Lemma not_selector_none : forall i q, is_selector a i = false -> (q < length a)%nat ->
    p_sel (port_at a q) <> Some i.
  Proof.
    intros i q Hs Hq Hc. unfold is_selector in Hs.
    assert (existsb (fun p => match p_sel p with Some s => Nat.eqb s i | None => false end) a = true).
    { apply existsb_exists. exists (port_at a q). split; [apply nth_In; assumption|]. rewrite Hc. apply Nat.eqb_refl. }
    congruence.
  Qed.

  Lemma not_enabler_none : forall i q, is_enabler a i = false -> (q < length a)%nat ->
    mem_nat i (p_hard (port_at a q)) = false.
  Proof.
    intros i q He Hq. destruct (mem_nat i (p_hard (port_at a q))) eqn:E; [|reflexivity].
    unfold is_enabler in He.
    assert (existsb (fun p => mem_nat i (p_hard p)) a = true).
    { apply existsb_exists. exists (port_at a q). split; [apply nth_In; assumption | assumption]. }
    congruence.
  Qed.

  Lemma set_full : forall cur i k v v', length cur = length a -> (i < length a)%nat ->
    (k < p_len (port_at a i))%nat -> store (port_at a i) v = Some v' -> exists_ a cur i = true ->
    exists cur', set_elem a cur i k v = Some cur' /\ length cur' = length a /\
                 forall q, (q < length a)%nat -> val_at cur' q = st3v cur i k v' q.
  Proof.
    intros cur i k v v' Hl Hi Hk Hs He. unfold set_elem.
    assert (E : (k <? p_len (port_at a i))%nat = true) by (apply Nat.ltb_lt; assumption).
    rewrite E, Hs, He.
    set (st1 := upd cur i (upd (val_at cur i) k v')).
    assert (Hl1 : length st1 = length a) by (unfold st1; rewrite upd_length; assumption).
    set (st2 := if is_selector a i then reset_dependents a i st1 else st1).
    assert (Hl2 : length st2 = length a).
    { unfold st2. destruct (is_selector a i); [|assumption].
      unfold reset_dependents. rewrite map_length, seq_length. reflexivity. }
    assert (H2 : forall q, (q < length a)%nat -> val_at st2 q = st2v cur i k v' q).
    { intros q Hq. unfold st2, st2v. fold st1. destruct (is_selector a i) eqn:Es.
      - apply reset_pointwise'. assumption.
      - destruct (p_sel (port_at a q)) as [s'|] eqn:Eq; [|reflexivity].
        destruct (Nat.eqb s' i) eqn:En; [|reflexivity].
        apply Nat.eqb_eq in En. subst s'. exfalso. eapply not_selector_none; eassumption. }
    cbv zeta. fold st1. fold st2.
    destruct (is_enabler a i) eqn:Een; simpl.
    - destruct (negb (is_on (val_at cur i)) && is_on (val_at st2 i)) eqn:Eal.
      + exists (allocate a i st2). split; [reflexivity|]. split.
        * unfold allocate. rewrite map_length, seq_length. reflexivity.
        * intros q Hq. rewrite allocate_pointwise by assumption. unfold st3v.
          rewrite <- (H2 i Hi), Eal. simpl. rewrite (H2 q Hq). reflexivity.
      + exists st2. split; [reflexivity|]. split; [assumption|].
        intros q Hq. unfold st3v. rewrite <- (H2 i Hi), Eal. simpl. apply H2. assumption.
    - exists st2. split; [reflexivity|]. split; [assumption|].
      intros q Hq. unfold st3v. rewrite (not_enabler_none i q Een Hq), andb_false_r. apply H2. assumption.
  Qed.
End SetFull.

Lemma nth_upd : forall (A : Type) (l : list A) k x j d, (k < length l)%nat ->
  nth j (upd l k x) d = if Nat.eq_dec j k then x else nth j l d.
Proof.
  induction l as [|h t IH]; intros k x j d H; simpl in H; [lia|].
  destruct k as [|k]; destruct j as [|j]; simpl; try reflexivity.
  rewrite IH by lia. destruct (Nat.eq_dec j k); destruct (Nat.eq_dec (S j) (S k)); try lia; reflexivity.
Qed.

Lemma all_on_ext : forall s s' gs, (forall g, In g gs -> val_at s g = val_at s' g) -> all_on s gs = all_on s' gs.
Proof.
  induction gs as [|g gs IH]; intros H; simpl; [reflexivity|].
  rewrite (H g (or_introl eq_refl)), IH; [reflexivity|]. intros g' Hg'. apply H. right. assumption.
Qed.

Lemma all_on_incl : forall s gs gs', incl gs' gs -> all_on s gs = true -> all_on s gs' = true.
Proof.
  intros s gs gs' Hi H. unfold all_on in *. rewrite forallb_forall in *. intros g Hg. apply H. apply Hi. assumption.
Qed.

Lemma all_on_in : forall s gs g, all_on s gs = true -> In g gs -> is_on (val_at s g) = true.
Proof. intros s gs g H Hg. unfold all_on in H. rewrite forallb_forall in H. apply H. assumption. Qed.

Lemma mem_nat_in : forall x l, mem_nat x l = true <-> In x l.
Proof.
  intros x l. unfold mem_nat. rewrite existsb_exists. split.
  - intros [y [Hy He]]. apply Nat.eqb_eq in He. subst. assumption.
  - intros H. exists x. split; [assumption | apply Nat.eqb_refl].
Qed.

(* ---- well-formed applications ---------------------------------------------------- *)
Record wf_app (a : app) : Prop := {
  w_paths : NoDup (map p_path a);
  w_sel : selectors_plain a;
  (* a preset selector is a scalar port of the same object as its dependents *)
  w_beside : forall q s, (q < length a)%nat -> p_sel (port_at a q) = Some s ->
     p_soft (port_at a s) = p_soft (port_at a q) /\ p_hard (port_at a s) = p_hard (port_at a q) /\
     p_array (port_at a s) = false;
  (* the switch of a pointer sub-tree is a scalar port with a plain default that
     lies outside the sub-tree, below the same outer switches *)
  w_guard : forall q g, (q < length a)%nat -> In g (p_hard (port_at a q)) ->
     (g < length a)%nat /\ p_sel (port_at a g) = None /\ p_nodef (port_at a g) = false /\
     p_array (port_at a g) = false /\ incl (p_hard (port_at a g)) (p_hard (port_at a q)) /\
     incl (p_soft (port_at a g)) (p_soft (port_at a q)) /\ ~ In g (p_hard (port_at a g));
  (* every default holds as many values as the port has elements; a port without a
     default (p_nodef: no rDefault - it is never saved, p_default is empty) is initialised
     with that many values *)
  w_shape : forall i, (i < length a)%nat ->
     (0 < p_len (port_at a i))%nat /\ (p_array (port_at a i) = false -> p_len (port_at a i) = 1%nat) /\
     (p_nodef (port_at a i) = false -> forall selv, length (default_with (port_at a i) selv) = p_len (port_at a i)) /\
     (p_nodef (port_at a i) = true ->
        length (p_init (port_at a i)) = p_len (port_at a i) /\ p_sel (port_at a i) = None)
}.

(* x has to be applied after y: y selects x's default, or allocates the object x lives in *)
Definition must_precede (a : app) (y x : nat) : Prop :=
  p_sel (port_at a x) = Some y \/ In y (p_hard (port_at a x)).

(* what the loaded instance holds for a parameter of the saved state: per element
   the saved value, or one the library's comparison identifies with it (as stored,
   or as shown in the file) *)
Definition restored_val (p : port) (u w : value) : Prop :=
  length u = length w /\
  forall j, (j < length u)%nat ->
    nth j u (VI 0) = nth j w (VI 0) \/ same_scalar (nth j u (VI 0)) (nth j w (VI 0)) = true \/
    same_scalar (shown p (nth j u (VI 0))) (nth j w (VI 0)) = true.

Section Full.
  Variable a : app.
  Variable st : state.
  Hypothesis WF : wf_app a.
  Hypothesis state_length : length st = length a.
  Hypothesis state_shape : forall i, (i < length a)%nat -> length (val_at st i) = p_len (port_at a i).
  Hypothesis state_stable : forall i x, In i (saved a st) -> In x (val_at st i) ->
    store (port_at a i) (shown (port_at a i) x) = Some x.

  Lemma saved_facts' : forall i, In i (saved a st) ->
    (i < length a)%nat /\ p_nodef (port_at a i) = false /\ live a st i = true /\
    same_value (val_at st i) (default_of a st i) = false.
  Proof.
    intros i H. unfold saved in H. apply filter_In in H. destruct H as [H1 H2].
    apply in_seq in H1. unfold is_saved in H2.
    apply andb_true_iff in H2. destruct H2 as [H2 H3]. apply andb_true_iff in H2. destruct H2 as [H2 H4].
    apply negb_true_iff in H2. apply negb_true_iff in H3. repeat split; try assumption; lia.
  Qed.

  Lemma not_saved' : forall q, (q < length a)%nat -> ~ In q (saved a st) ->
    p_nodef (port_at a q) = false -> live a st q = true ->
    same_value (val_at st q) (default_of a st q) = true.
  Proof.
    intros q Hq Hn Hd Hl.
    destruct (same_value (val_at st q) (default_of a st q)) eqn:E; [reflexivity|].
    exfalso. apply Hn. unfold saved. apply filter_In. split; [apply in_seq; lia|].
    unfold is_saved. rewrite Hd, Hl, E. reflexivity.
  Qed.

  Lemma default_plain : forall g s, p_sel (port_at a g) = None -> default_of a s g = p_default (port_at a g).
  Proof. intros g s H. unfold default_of. rewrite H. reflexivity. Qed.

  Lemma initial_plain : forall g, p_sel (port_at a g) = None -> p_nodef (port_at a g) = false ->
    initial_of a g = p_default (port_at a g).
  Proof. intros g H Hd. unfold initial_of. rewrite Hd, H. reflexivity. Qed.

  Lemma live_sel : forall q s, (q < length a)%nat -> p_sel (port_at a q) = Some s ->
    live a st q = true -> live a st s = true.
  Proof.
    intros q s Hq Hs Hl. destruct (w_beside a WF q s Hq Hs) as (H1 & H2 & _).
    unfold live, exists_ in *. rewrite H1, H2. assumption.
  Qed.

  Lemma live_guard : forall q g, (q < length a)%nat -> In g (p_hard (port_at a q)) ->
    live a st q = true -> live a st g = true /\ is_on (val_at st g) = true.
  Proof.
    intros q g Hq Hg Hl. destruct (w_guard a WF q g Hq Hg) as (_ & _ & _ & _ & Hh & Hs & _).
    unfold live, exists_ in *. apply andb_true_iff in Hl. destruct Hl as [L1 L2]. split.
    - apply andb_true_iff. split.
      + exact (all_on_incl st _ _ Hh L1).
      + exact (all_on_incl st _ _ Hs L2).
    - exact (all_on_in st _ g L1 Hg).
  Qed.

  (* the state of the loader between two lines *)
  Record Inv (cur : state) (done pending : list nat) : Prop := {
    v_len : length cur = length a;
    v_cover : forall y, In y (saved a st) -> In y done \/ In y pending;
    v_done_lt : forall q, In q done -> (q < length a)%nat;
    v_indep : forall q, In q done -> forall j, In j pending -> ~ must_precede a j q;
    v_scalar : forall q, In q done -> p_array (port_at a q) = false -> val_at cur q = val_at st q;
    v_array : forall q, In q done -> p_array (port_at a q) = true ->
                restored_val (port_at a q) (val_at st q) (val_at cur q);
    v_default : forall q, (q < length a)%nat -> ~ In q done -> p_nodef (port_at a q) = false ->
                  val_at cur q = default_of a cur q
  }.

  (* a port that is neither done nor pending and that the saved state shows live
     holds what the saved state holds, up to the library's comparison *)
  Lemma settled_scalar : forall cur done pending s,
    Inv cur done pending -> (s < length a)%nat -> ~ In s pending ->
    p_sel (port_at a s) = None -> p_nodef (port_at a s) = false -> p_array (port_at a s) = false ->
    live a st s = true ->
    val_at cur s = val_at st s \/ same_value (val_at st s) (val_at cur s) = true.
  Proof.
    intros cur done pending s I Hs Hnp Hsel Hnd Harr Hl.
    destruct (in_dec Nat.eq_dec s done) as [Hd|Hd].
    - left. apply (v_scalar _ _ _ I); assumption.
    - right. rewrite (v_default _ _ _ I s Hs Hd Hnd). rewrite default_plain by assumption.
      assert (Hns : ~ In s (saved a st)).
      { intro Hc. destruct (v_cover _ _ _ I s Hc); contradiction. }
      pose proof (not_saved' s Hs Hns Hnd Hl) as H. rewrite default_plain in H by assumption. assumption.
  Qed.

  Lemma agree_default : forall cur done pending q,
    Inv cur done pending -> (q < length a)%nat -> live a st q = true ->
    (forall y, must_precede a y q -> ~ In y pending) ->
    default_of a cur q = default_of a st q.
  Proof.
    intros cur done pending q I Hq Hl Hpre. unfold default_of.
    destruct (p_sel (port_at a q)) as [s|] eqn:Es; simpl; [|reflexivity].
    destruct (w_sel a WF q s Hq Es) as (Hsl & Hsn & Hsd).
    destruct (w_beside a WF q s Hq Es) as (_ & _ & Hsa).
    assert (Hnp : ~ In s pending) by (apply Hpre; left; assumption).
    destruct (settled_scalar cur done pending s I Hsl Hnp Hsn Hsd Hsa (live_sel q s Hq Es Hl)) as [H|H].
    - rewrite H. reflexivity.
    - apply default_with_key. symmetry. apply same_value_sel_key. assumption.
  Qed.

  Lemma agree_exists : forall cur done pending q,
    Inv cur done pending -> (q < length a)%nat -> live a st q = true ->
    (forall y, must_precede a y q -> ~ In y pending) ->
    exists_ a cur q = true.
  Proof.
    intros cur done pending q I Hq Hl Hpre. unfold exists_, all_on. apply forallb_forall. intros g Hg.
    destruct (w_guard a WF q g Hq Hg) as (Hgl & Hgs & Hgd & Hga & _).
    destruct (live_guard q g Hq Hg Hl) as [Hlg Hon].
    assert (Hnp : ~ In g pending) by (apply Hpre; right; assumption).
    destruct (settled_scalar cur done pending g I Hgl Hnp Hgs Hgd Hga Hlg) as [H|H].
    - rewrite H. assumption.
    - rewrite <- (same_value_is_on _ _ H). assumption.
  Qed.

  Lemma not_self : forall i, (i < length a)%nat -> ~ must_precede a i i.
  Proof.
    intros i Hi [H|H].
    - destruct (w_sel a WF i i Hi H) as (_ & Hn & _). congruence.
    - destruct (w_guard a WF i i Hi H) as (_ & _ & _ & _ & _ & _ & Hn). contradiction.
  Qed.

  Lemma restored_refl : forall p u, restored_val p u u.
  Proof. intros p u. split; [reflexivity|]. intros j _. left. reflexivity. Qed.

  Lemma restored_same : forall p u w, same_value u w = true -> restored_val p u w.
  Proof.
    intros p u w H. split; [apply same_value_length; assumption|].
    intros j Hj. right. left. apply same_value_nth; assumption.
  Qed.

  (* ---- a scalar line ------------------------------------------------------------ *)
  Lemma step_scalar : forall cur done i rest,
    Inv cur done (i :: rest) -> In i (saved a st) -> ~ In i done ->
    (forall y, In y rest -> ~ must_precede a y i) -> p_array (port_at a i) = false ->
    exists cur', apply_line a (the_line a st i) cur = Some cur' /\ Inv cur' (i :: done) rest.
  Proof.
    intros cur done i rest I Hsv Hnd Hhead Harr.
    destruct (saved_facts' i Hsv) as (Hi & Hnodef & Hlive & _).
    destruct (w_shape a WF i Hi) as (_ & Hone & Hdl0 & _). specialize (Hone Harr). pose proof (Hdl0 Hnodef) as Hdl.
    assert (Hsti : exists v, val_at st i = [v]).
    { pose proof (state_shape i Hi) as H. rewrite Hone in H.
      destruct (val_at st i) as [|v [|]]; simpl in H; try lia. exists v. reflexivity. }
    destruct Hsti as [v Hv].
    assert (Hstore : store (port_at a i) (shown (port_at a i) v) = Some v).
    { apply state_stable; [assumption | rewrite Hv; left; reflexivity]. }
    assert (Hpre : forall y, must_precede a y i -> ~ In y (i :: rest)).
    { intros y Hy [Hc|Hc]; [subst y; exact (not_self i Hi Hy) | exact (Hhead y Hc Hy)]. }
    pose proof (agree_exists cur done (i :: rest) i I Hi Hlive Hpre) as Hex.
    destruct (set_full a cur i 0 (shown (port_at a i) v) v (v_len _ _ _ I) Hi ltac:(lia) Hstore Hex)
      as (cur' & Hset & Hl' & Hpt).
    exists cur'. split.
    { unfold apply_line, the_line. simpl. rewrite find_port_at by (apply (w_paths a WF) || assumption).
      rewrite Harr. simpl. rewrite Hv. simpl. exact Hset. }
    assert (Hcur_i : exists w, val_at cur i = [w]).
    { rewrite (v_default _ _ _ I i Hi Hnd Hnodef). unfold default_of.
      pose proof (Hdl (omap (val_at cur) (p_sel (port_at a i)))) as H. rewrite Hone in H.
      destruct (default_with _ _) as [|w [|]]; simpl in H; try lia. exists w. reflexivity. }
    destruct Hcur_i as [w Hw].
    set (st1 := upd cur i (upd (val_at cur i) 0 v)).
    assert (Hst1_i : val_at st1 i = [v]).
    { unfold st1. rewrite val_at_upd by (rewrite (v_len _ _ _ I); assumption).
      destruct (Nat.eq_dec i i); [|congruence]. rewrite Hw. reflexivity. }
    assert (Hst1_o : forall q, q <> i -> val_at st1 q = val_at cur q).
    { intros q Hq. unfold st1. rewrite val_at_upd by (rewrite (v_len _ _ _ I); assumption).
      destruct (Nat.eq_dec q i); [congruence|reflexivity]. }
    assert (Hseli : p_sel (port_at a i) <> Some i) by (intro Hc; apply (not_self i Hi); left; assumption).
    assert (Hhardi : mem_nat i (p_hard (port_at a i)) = false).
    { destruct (mem_nat i (p_hard (port_at a i))) eqn:E; [|reflexivity].
      apply mem_nat_in in E. exfalso. apply (not_self i Hi). right. assumption. }
    assert (H2i : st2v a cur i 0 v i = [v]).
    { unfold st2v. fold st1. destruct (p_sel (port_at a i)) as [s'|] eqn:Es; [|assumption].
      destruct (Nat.eqb s' i) eqn:En; [|assumption]. apply Nat.eqb_eq in En. subst s'. congruence. }
    (* st2v away from i *)
    assert (H2o : forall q, q <> i -> p_sel (port_at a q) <> Some i -> st2v a cur i 0 v q = val_at cur q).
    { intros q Hq Hs. unfold st2v. fold st1. destruct (p_sel (port_at a q)) as [s'|] eqn:Es.
      - destruct (Nat.eqb s' i) eqn:En; [apply Nat.eqb_eq in En; subst s'; congruence|]. apply Hst1_o. assumption.
      - apply Hst1_o. assumption. }
    assert (H2d : forall q, p_sel (port_at a q) = Some i ->
                            st2v a cur i 0 v q = default_with (port_at a q) (Some [v])).
    { intros q Hs. unfold st2v. fold st1. rewrite Hs, Nat.eqb_refl. unfold default_of. rewrite Hs. simpl.
      rewrite Hst1_i. reflexivity. }
    set (A := negb (is_on (val_at cur i)) && is_on (st2v a cur i 0 v i)).
    assert (H3 : forall q, (q < length a)%nat ->
                           val_at cur' q = if A && mem_nat i (p_hard (port_at a q)) then initial_of a q
                                           else st2v a cur i 0 v q).
    { intros q Hq. rewrite (Hpt q Hq). unfold st3v. fold A. reflexivity. }
    assert (Hcur'_i : val_at cur' i = [v]).
    { rewrite (H3 i Hi), Hhardi, andb_false_r. assumption. }
    assert (Hkeep : forall q, (q < length a)%nat -> q <> i -> ~ must_precede a i q -> val_at cur' q = val_at cur q).
    { intros q Hq Hqi Hn. rewrite (H3 q Hq).
      assert (Em : mem_nat i (p_hard (port_at a q)) = false).
      { destruct (mem_nat i (p_hard (port_at a q))) eqn:E; [|reflexivity].
        apply mem_nat_in in E. exfalso. apply Hn. right. assumption. }
      rewrite Em, andb_false_r. apply H2o; [assumption|]. intro Hc. apply Hn. left. assumption. }
    constructor.
    - assumption.
    - intros y Hy. destruct (v_cover _ _ _ I y Hy) as [H|[H|H]];
        [left; right; assumption | left; left; assumption | right; assumption].
    - intros q [Hq|Hq]; [subst q; assumption | apply (v_done_lt _ _ _ I); assumption].
    - intros q [Hq|Hq] j Hj.
      + subst q. apply Hhead. assumption.
      + apply (v_indep _ _ _ I q Hq). right. assumption.
    - intros q [Hq|Hq] Ha.
      + subst q. rewrite Hcur'_i. symmetry. assumption.
      + assert (Hqi : q <> i) by (intro; subst; contradiction).
        rewrite Hkeep; [apply (v_scalar _ _ _ I); assumption | apply (v_done_lt _ _ _ I); assumption | assumption |].
        apply (v_indep _ _ _ I q Hq). left. reflexivity.
    - intros q [Hq|Hq] Ha.
      + subst q. congruence.
      + assert (Hqi : q <> i) by (intro; subst; contradiction).
        rewrite Hkeep; [apply (v_array _ _ _ I); assumption | apply (v_done_lt _ _ _ I); assumption | assumption |].
        apply (v_indep _ _ _ I q Hq). left. reflexivity.
    - intros q Hq Hnq Hd.
      assert (Hqi : q <> i) by (intro; subst; apply Hnq; left; reflexivity).
      assert (Hqd : ~ In q done) by (intro; apply Hnq; right; assumption).
      pose proof (v_default _ _ _ I q Hq Hqd Hd) as Hold.
      destruct (in_dec Nat.eq_dec i (p_hard (port_at a q))) as [Hin|Hnin].
      + (* q lies below the switch i *)
        assert (Em : mem_nat i (p_hard (port_at a q)) = true) by (apply mem_nat_in; assumption).
        assert (Hnsel : p_sel (port_at a q) <> Some i).
        { intro Hc. destruct (w_beside a WF q i Hq Hc) as (_ & Hh & _). rewrite <- Hh in Hin.
          apply (not_self i Hi). right. assumption. }
        rewrite (H3 q Hq), Em, andb_true_r. unfold default_of.
        destruct (p_sel (port_at a q)) as [s|] eqn:Es; simpl.
        * destruct (w_sel a WF q s Hq Es) as (Hsl & Hsn & Hsd).
          destruct (w_beside a WF q s Hq Es) as (_ & Hh & _).
          assert (Hsi : s <> i) by (intro; subst; congruence).
          assert (Ems : mem_nat i (p_hard (port_at a s)) = true) by (rewrite Hh; assumption).
          rewrite (H3 s Hsl), Ems, andb_true_r.
          destruct A.
          -- rewrite (initial_plain s Hsn Hsd). unfold initial_of. rewrite Hd, Es. reflexivity.
          -- rewrite (H2o q Hqi) by (rewrite Es; assumption).
             rewrite Hold. unfold default_of. rewrite Es. simpl.
             rewrite (H2o s Hsi); [reflexivity | rewrite Hsn; discriminate].
        * destruct A.
          -- unfold initial_of. rewrite Hd, Es. reflexivity.
          -- rewrite (H2o q Hqi) by (rewrite Es; discriminate).
             rewrite Hold. unfold default_of. rewrite Es. reflexivity.
      + assert (Em : mem_nat i (p_hard (port_at a q)) = false).
        { destruct (mem_nat i (p_hard (port_at a q))) eqn:E; [|reflexivity]. apply mem_nat_in in E. contradiction. }
        rewrite (H3 q Hq), Em, andb_false_r. unfold default_of.
        destruct (p_sel (port_at a q)) as [s|] eqn:Es; simpl.
        * destruct (Nat.eq_dec s i) as [Hsi|Hsi].
          -- subst s. rewrite (H2d q Es), Hcur'_i. reflexivity.
          -- destruct (w_sel a WF q s Hq Es) as (Hsl & Hsn & Hsd).
             destruct (w_beside a WF q s Hq Es) as (_ & Hh & _).
             rewrite (H2o q Hqi) by (rewrite Es; congruence).
             rewrite Hold. unfold default_of. rewrite Es. simpl.
             rewrite (H3 s Hsl), Hh, Em, andb_false_r.
             rewrite (H2o s Hsi); [reflexivity | rewrite Hsn; discriminate].
        * rewrite (H2o q Hqi) by (rewrite Es; discriminate).
          rewrite Hold. unfold default_of. rewrite Es. reflexivity.
  Qed.

  (* ---- an array line --------------------------------------------------------------- *)
  Lemma array_unrelated : forall i q, (i < length a)%nat -> (q < length a)%nat ->
    p_array (port_at a i) = true -> ~ must_precede a i q.
  Proof.
    intros i q Hi Hq Ha [H|H].
    - destruct (w_beside a WF q i Hq H) as (_ & _ & Hc). congruence.
    - destruct (w_guard a WF q i Hq H) as (_ & _ & _ & Hc & _). congruence.
  Qed.

  Lemma array_set_pointwise : forall cur i k v' q, (i < length a)%nat -> (q < length a)%nat ->
    p_array (port_at a i) = true ->
    st3v a cur i k v' q = val_at (upd cur i (upd (val_at cur i) k v')) q.
  Proof.
    intros cur i k v' q Hi Hq Ha. unfold st3v.
    assert (Em : mem_nat i (p_hard (port_at a q)) = false).
    { destruct (mem_nat i (p_hard (port_at a q))) eqn:E; [|reflexivity]. apply mem_nat_in in E.
      exfalso. apply (array_unrelated i q Hi Hq Ha). right. assumption. }
    rewrite Em, andb_false_r. unfold st2v.
    destruct (p_sel (port_at a q)) as [s'|] eqn:Es; [|reflexivity].
    destruct (Nat.eqb s' i) eqn:En; [|reflexivity]. apply Nat.eqb_eq in En. subst s'.
    exfalso. apply (array_unrelated i q Hi Hq Ha). left. assumption.
  Qed.

  Lemma apply_elems_array : forall i, (i < length a)%nat -> p_array (port_at a i) = true ->
    forall xs k cur, length cur = length a -> exists_ a cur i = true ->
      (k + length xs <= length (val_at cur i))%nat -> length (val_at cur i) = p_len (port_at a i) ->
      (forall x, In x xs -> store (port_at a i) (shown (port_at a i) x) = Some x) ->
      exists cur', apply_elems a i k (map (shown (port_at a i)) xs) cur = Some cur' /\
        length cur' = length a /\
        (forall q, (q < length a)%nat -> q <> i -> val_at cur' q = val_at cur q) /\
        length (val_at cur' i) = length (val_at cur i) /\
        forall j, nth j (val_at cur' i) (VI 0) =
                  if (k <=? j)%nat && (j <? k + length xs)%nat then nth (j - k) xs (VI 0)
                  else nth j (val_at cur i) (VI 0).
  Proof.
    intros i Hi Ha. induction xs as [|x xs IH]; intros k cur Hl Hex Hk Hlen Hst.
    - exists cur. simpl. split; [reflexivity|]. split; [assumption|]. split; [reflexivity|]. split; [reflexivity|].
      intros j. destruct (k <=? j)%nat eqn:E1; destruct (j <? k + 0)%nat eqn:E2; simpl; try reflexivity.
      apply Nat.leb_le in E1. apply Nat.ltb_lt in E2. lia.
    - simpl in Hk. simpl map. simpl apply_elems.
      destruct (set_full a cur i k (shown (port_at a i) x) x Hl Hi ltac:(lia) (Hst x (or_introl eq_refl)) Hex)
        as (cur1 & Hset & Hl1 & Hpt).
      rewrite Hset.
      assert (Hp1 : forall q, (q < length a)%nat -> val_at cur1 q = val_at (upd cur i (upd (val_at cur i) k x)) q).
      { intros q Hq. rewrite (Hpt q Hq). apply array_set_pointwise; assumption. }
      assert (H1i : val_at cur1 i = upd (val_at cur i) k x).
      { rewrite (Hp1 i Hi), val_at_upd by (rewrite Hl; assumption). destruct (Nat.eq_dec i i); [reflexivity|congruence]. }
      assert (H1o : forall q, (q < length a)%nat -> q <> i -> val_at cur1 q = val_at cur q).
      { intros q Hq Hqi. rewrite (Hp1 q Hq), val_at_upd by (rewrite Hl; assumption).
        destruct (Nat.eq_dec q i); [congruence|reflexivity]. }
      assert (Hex1 : exists_ a cur1 i = true).
      { rewrite <- Hex. unfold exists_. apply all_on_ext. intros g Hg.
        destruct (w_guard a WF i g Hi Hg) as (Hgl & _ & _ & Hga & _).
        apply H1o; [assumption|]. intro Hc. subst g. congruence. }
      destruct (IH (S k) cur1 Hl1 Hex1) as (cur' & Happ & Hl' & Ho & Hlen' & Hnth).
      + rewrite H1i, upd_length. lia.
      + rewrite H1i, upd_length. assumption.
      + intros y Hy. apply Hst. right. assumption.
      + exists cur'. split; [assumption|]. split; [assumption|]. split.
        * intros q Hq Hqi. rewrite (Ho q Hq Hqi). apply H1o; assumption.
        * split; [rewrite Hlen', H1i, upd_length; reflexivity|].
          intros j. rewrite Hnth, H1i. rewrite nth_upd by lia. simpl length.
          destruct (S k <=? j)%nat eqn:E1; destruct (j <? S k + length xs)%nat eqn:E2;
            destruct (k <=? j)%nat eqn:E3; destruct (j <? k + S (length xs))%nat eqn:E4; simpl;
            try apply Nat.leb_le in E1; try apply Nat.leb_gt in E1;
            try apply Nat.ltb_lt in E2; try apply Nat.ltb_ge in E2;
            try apply Nat.leb_le in E3; try apply Nat.leb_gt in E3;
            try apply Nat.ltb_lt in E4; try apply Nat.ltb_ge in E4; try lia.
          all: try (replace (j - k)%nat with (S (j - S k)) by lia; reflexivity).
          all: destruct (Nat.eq_dec j k) as [Ej|Ej]; try lia; try reflexivity.
          all: subst j; rewrite Nat.sub_diag; reflexivity.
  Qed.

  Lemma nth_firstn_lt : forall (A : Type) (l : list A) m j d, (j < m)%nat -> nth j (firstn m l) d = nth j l d.
  Proof.
    induction l as [|h t IH]; intros m j d H; destruct m; simpl; try lia; try reflexivity.
    destruct j; [reflexivity|]. apply IH. lia.
  Qed.

  Lemma step_array : forall cur done i rest,
    Inv cur done (i :: rest) -> In i (saved a st) -> ~ In i done ->
    (forall y, In y rest -> ~ must_precede a y i) -> p_array (port_at a i) = true ->
    exists cur', apply_line a (the_line a st i) cur = Some cur' /\ Inv cur' (i :: done) rest.
  Proof.
    intros cur done i rest I Hsv Hnd Hhead Harr.
    destruct (saved_facts' i Hsv) as (Hi & Hnodef & Hlive & _).
    destruct (w_shape a WF i Hi) as (_ & _ & Hdl0 & _). pose proof (Hdl0 Hnodef) as Hdl.
    set (p := port_at a i) in *.
    assert (Hpre : forall y, must_precede a y i -> ~ In y (i :: rest)).
    { intros y Hy [Hc|Hc]; [subst y; exact (not_self i Hi Hy) | exact (Hhead y Hc Hy)]. }
    pose proof (agree_exists cur done (i :: rest) i I Hi Hlive Hpre) as Hex.
    pose proof (agree_default cur done (i :: rest) i I Hi Hlive Hpre) as Hdf.
    pose proof (v_default _ _ _ I i Hi Hnd Hnodef) as Hcur_i.
    set (sti := val_at st i) in *. set (dfl := default_of a st i) in *.
    assert (Hlen_d : length dfl = p_len p) by (unfold dfl, default_of; apply Hdl).
    assert (Hlen_s : length sti = p_len p) by (apply state_shape; assumption).
    destruct (trim_spec (map (shown p) sti) dfl (shown p (VI 0))) as (m & Hm & Htrim & Htail).
    rewrite map_length in Hm.
    set (xs := firstn m sti).
    assert (Hxs_len : length xs = m) by (unfold xs; apply firstn_length_le; assumption).
    assert (Hline : l_vals (the_line a st i) = map (shown p) xs).
    { unfold the_line. fold p. simpl. rewrite Harr. fold sti. fold dfl. rewrite Htrim. unfold xs.
      apply firstn_map. }
    destruct (apply_elems_array i Hi Harr xs 0 cur (v_len _ _ _ I) Hex) as (cur' & Happ & Hl' & Ho & Hlen' & Hnth).
    - rewrite Hcur_i, Hdf. fold dfl. rewrite Hlen_d, Hxs_len. lia.
    - rewrite Hcur_i, Hdf. fold dfl. assumption.
    - intros x Hx. apply state_stable; [assumption|]. fold sti. unfold xs in Hx.
      eapply (In_nth _ _ (VI 0)) in Hx. destruct Hx as (n & Hn & Hx). subst x.
      rewrite firstn_length_le in Hn by assumption. rewrite nth_firstn_lt by assumption.
      apply nth_In. lia.
    - exists cur'. split.
      { unfold apply_line. rewrite Hline. unfold the_line. simpl.
        rewrite find_port_at by (apply (w_paths a WF) || assumption). fold p. rewrite Harr. simpl. exact Happ. }
      assert (Hkeep : forall q, (q < length a)%nat -> q <> i -> val_at cur' q = val_at cur q) by exact Ho.
      assert (Hdef_keep : forall q, (q < length a)%nat -> q <> i -> default_of a cur' q = default_of a cur q).
      { intros q Hq Hqi. unfold default_of. destruct (p_sel (port_at a q)) as [s|] eqn:Es; simpl; [|reflexivity].
        destruct (w_sel a WF q s Hq Es) as (Hsl & _ & _).
        rewrite Hkeep; [reflexivity | assumption |].
        intro Hc. subst s. apply (array_unrelated i q Hi Hq Harr). left. assumption. }
      constructor.
      + assumption.
      + intros y Hy. destruct (v_cover _ _ _ I y Hy) as [H|[H|H]];
          [left; right; assumption | left; left; assumption | right; assumption].
      + intros q [Hq|Hq]; [subst q; assumption | apply (v_done_lt _ _ _ I); assumption].
      + intros q [Hq|Hq] j Hj.
        * subst q. apply Hhead. assumption.
        * apply (v_indep _ _ _ I q Hq). right. assumption.
      + intros q [Hq|Hq] Ha.
        * subst q. fold p in Ha. congruence.
        * assert (Hqi : q <> i) by (intro Hc; rewrite Hc in Hq; contradiction).
          rewrite Hkeep; [apply (v_scalar _ _ _ I); assumption | apply (v_done_lt _ _ _ I); assumption | assumption].
      + intros q [Hq|Hq] Ha.
        * subst q. fold p. fold sti. split.
          -- rewrite Hlen', Hcur_i, Hdf. fold dfl. lia.
          -- intros j Hj. rewrite Hnth. simpl. rewrite Hxs_len.
             destruct (j <? m)%nat eqn:Ej.
             ++ apply Nat.ltb_lt in Ej. left. rewrite Nat.sub_0_r. unfold xs. symmetry. apply nth_firstn_lt. assumption.
             ++ apply Nat.ltb_ge in Ej. right. right. rewrite Hcur_i, Hdf. fold dfl.
                pose proof (Htail j) as Ht. rewrite map_length in Ht.
                specialize (Ht ltac:(lia) ltac:(lia)).
                rewrite (map_nth (shown p)) in Ht.
                rewrite (nth_indep dfl (shown p (VI 0)) (VI 0)) in Ht by lia. assumption.
        * assert (Hqi : q <> i) by (intro Hc; rewrite Hc in Hq; contradiction).
          rewrite Hkeep; [apply (v_array _ _ _ I); assumption | apply (v_done_lt _ _ _ I); assumption | assumption].
      + intros q Hq Hnq Hd.
        assert (Hqi : q <> i) by (intro Hc; apply Hnq; left; symmetry; exact Hc).
        rewrite Hkeep, Hdef_keep by assumption.
        apply (v_default _ _ _ I); try assumption. intro Hc. apply Hnq. right. assumption.
  Qed.

  (* ---- the loop over the sorted lines --------------------------------------------------- *)
  Lemma load_loop : forall ord cur done,
    Inv cur done ord -> NoDup ord -> (forall i, In i ord -> In i (saved a st) /\ ~ In i done) ->
    respects (must_precede a) ord ->
    exists fin done', apply_all a (map (the_line a st) ord) cur = (fin, true) /\
      (forall q, In q done' <-> In q done \/ In q ord) /\ Inv fin done' [].
  Proof.
    induction ord as [|i ord IH]; intros cur done I Hnd Hin Hr.
    - exists cur, done. split; [reflexivity|]. split; [intros q; simpl; tauto | assumption].
    - destruct (Hin i (or_introl eq_refl)) as [Hsv Hnotdone].
      simpl in Hr. destruct Hr as [Hhead Hr'].
      inversion Hnd as [|? ? Hi_notin Hnd']; subst.
      assert (Hstep : exists cur', apply_line a (the_line a st i) cur = Some cur' /\ Inv cur' (i :: done) ord).
      { destruct (p_array (port_at a i)) eqn:Ea; [apply step_array | apply step_scalar]; assumption. }
      destruct Hstep as (cur' & Happ & I').
      destruct (IH cur' (i :: done) I' Hnd') as (fin & done' & Hfin & Hd' & If); [|assumption|].
      + intros j Hj. destruct (Hin j (or_intror Hj)) as [H1 H2]. split; [assumption|].
        intros [Hc|Hc]; [subst j; contradiction | contradiction].
      + exists fin, done'. simpl. rewrite Happ. split; [assumption|]. split; [|assumption].
        intros q. rewrite Hd'. simpl. tauto.
  Qed.

  (* C12_roundtrip for the abstract application *)
  Theorem roundtrip_full : forall ord,
    Permutation ord (saved a st) -> respects (must_precede a) ord ->
    exists fin, apply_all a (map (the_line a st) ord) (initial a) = (fin, true) /\
      length ord = length (save_lines a st) /\
      forall q, (q < length a)%nat -> p_nodef (port_at a q) = false -> live a st q = true ->
                restored_val (port_at a q) (val_at st q) (val_at fin q).
  Proof.
    intros ord Hp Hr.
    assert (Hnd : NoDup ord).
    { eapply Permutation_NoDup; [apply Permutation_sym; exact Hp|]. apply NoDup_filter. apply seq_NoDup. }
    assert (I0 : Inv (initial a) [] ord).
    { constructor.
      - unfold initial. rewrite map_length, seq_length. reflexivity.
      - intros y Hy. right. eapply Permutation_in; [apply Permutation_sym; exact Hp | exact Hy].
      - intros q [].
      - intros q [].
      - intros q [].
      - intros q [].
      - intros q Hq _ Hd. rewrite val_at_initial by assumption. symmetry.
        apply default_of_initial; [apply (w_sel a WF) | assumption | assumption]. }
    destruct (load_loop ord (initial a) [] I0 Hnd) as (fin & done' & Hfin & Hd' & If); [|assumption|].
    { intros i Hi. split; [eapply Permutation_in; eassumption | intros []]. }
    exists fin. split; [assumption|]. split.
    { rewrite save_lines_saved, map_length. apply Permutation_length. assumption. }
    intros q Hq Hd Hl.
    destruct (in_dec Nat.eq_dec q ord) as [Hin|Hnin].
    - assert (Hqd : In q done') by (apply Hd'; right; assumption).
      destruct (p_array (port_at a q)) eqn:Ea.
      + apply (v_array _ _ _ If); assumption.
      + rewrite (v_scalar _ _ _ If q Hqd Ea). apply restored_refl.
    - assert (Hqd : ~ In q done') by (intro Hc; apply Hd' in Hc; destruct Hc as [[]|Hc]; contradiction).
      assert (Hns : ~ In q (saved a st)).
      { intro Hc. apply Hnin. eapply Permutation_in; [apply Permutation_sym; exact Hp | exact Hc]. }
      rewrite (v_default _ _ _ If q Hq Hqd Hd).
      rewrite (agree_default fin done' [] q If Hq Hl) by (intros y _ []).
      apply restored_same. apply not_saved'; assumption.
  Qed.
End Full.

(* ---- packaged statements --------------------------------------------------------------- *)
(* what remains as side condition: the application is well formed and the state
   has one value per element, each stable under its callback *)
Definition full_conditions (a : app) (st : state) : Prop :=
  wf_app a /\ length st = length a /\
  (forall i, (i < length a)%nat -> length (val_at st i) = p_len (port_at a i)) /\
  (forall i x, In i (saved a st) -> In x (val_at st i) ->
     store (port_at a i) (shown (port_at a i) x) = Some x).

Theorem roundtrip_abstract_full : forall a st ord,
  full_conditions a st -> Permutation ord (saved a st) -> respects (must_precede a) ord ->
  exists fin, apply_all a (map (the_line a st) ord) (initial a) = (fin, true) /\
    length ord = length (save_lines a st) /\
    forall q, (q < length a)%nat -> p_nodef (port_at a q) = false -> live a st q = true ->
              restored_val (port_at a q) (val_at st q) (val_at fin q).
Proof. intros a st ord (H1 & H2 & H3 & H4). apply roundtrip_full; assumption. Qed.

(* the line-level order the sort has to respect: selector before dependents,
   switch before the lines below its sub-tree *)
Definition line_must_precede (a : app) (l1 l2 : line) : Prop :=
  exists i j, l_path l1 = p_path (port_at a i) /\ l_path l2 = p_path (port_at a j) /\ must_precede a i j.

Definition stage_hypotheses_full (text : Type) (walk : app -> state -> list nat)
           (av_eq : value -> value -> bool) (print_lines : list line -> text)
           (scan_text : text -> list item) (dispatch : app -> line -> state -> option state)
           (sort_lines : app -> list line -> option (list line)) (a : app) (st : state) : Prop :=
  (* C09 *) walk a st = filter (live a st) (seq 0 (length a)) /\
  (* C16 *) (forall u w, av_eq u w = same_value u w) /\
  (* C10 *) (forall ls, exists rds, length rds = length ls /\ Forall (fun rd => (0 <= rd)%Z) rds /\
               scan_text (print_lines ls) = map (fun lr => Msg (fst lr) (snd lr)) (combine ls rds)) /\
  (* C04 + C14 *) (forall l s, dispatch a l s = apply_line a l s) /\
  (* C13 *) (forall ls, ls = save_lines a st ->
               exists s, sort_lines a ls = Some s /\ Permutation s ls /\ respects (line_must_precede a) s).

Theorem roundtrip_pipeline_full :
  forall text walk av_eq print_lines scan_text dispatch sort_lines a st,
    stage_hypotheses_full text walk av_eq print_lines scan_text dispatch sort_lines a st ->
    full_conditions a st ->
    exists fin,
      real_load text scan_text dispatch sort_lines a
                (real_save text walk av_eq print_lines a st) (initial a)
      = Some (Z.of_nat (length (save_lines a st)), fin) /\
      forall q, (q < length a)%nat -> p_nodef (port_at a q) = false -> live a st q = true ->
                restored_val (port_at a q) (val_at st q) (val_at fin q).
Proof.
  intros text walk av_eq print_lines scan_text dispatch sort_lines a st
         (H9 & H16 & H10 & H4 & H13) Hfull.
  rewrite (real_save_lines text walk av_eq print_lines a st H9 H16). unfold real_load.
  destruct (H10 (save_lines a st)) as (rds & Hlen & _ & Hscan).
  rewrite Hscan. destruct (scan_items_msgs (save_lines a st) rds Hlen) as [tot Htot]. rewrite Htot.
  destruct (H13 (save_lines a st) eq_refl) as (s & Hs & Hperm & Hresp). rewrite Hs.
  rewrite save_lines_saved in Hperm.
  apply Permutation_map_inv in Hperm. destruct Hperm as (ord & Hseq & Hpo). subst s.
  assert (Hrb : respects (must_precede a) ord).
  { apply respects_map in Hresp. eapply respects_ext; [|exact Hresp].
    intros x y Hxy. exists x, y. unfold the_line. simpl. auto. }
  destruct (roundtrip_abstract_full a st ord Hfull (Permutation_sym Hpo) Hrb) as (fin & Hfin & Hcount & Hrest).
  rewrite (real_apply_is_apply_all dispatch a H4 _ _ fin Hfin). exists fin. split; [reflexivity | assumption].
Qed.

(* ---- non-vacuity: a switch with a pointer sub-tree and a trimmed array ---------------- *)
Definition mkp (path : str) (k : skind) (arr : bool) (n : nat) (d : value) (hard : list nat) : port :=
  {| p_path := path; p_kind := k; p_array := arr; p_len := n; p_min := None; p_max := None;
     p_opts := []; p_default := d; p_sel := None; p_table := []; p_hard := hard; p_soft := [];
     p_nodef := false; p_init := [] |}.
(* a parameter without rDefault: p_default is empty, the object initialises it (p_init);
   it is never saved and not restored *)
Definition mkp_nodef (path : str) (k : skind) (init : value) : port :=
  {| p_path := path; p_kind := k; p_array := false; p_len := 1; p_min := None; p_max := None;
     p_opts := []; p_default := []; p_sel := None; p_table := []; p_hard := []; p_soft := [];
     p_nodef := true; p_init := init |}.
Definition fx_app : app :=
  [mkp [47; 101]%Z KT false 1 [VT false] [];                  (* /e   switch of the sub-tree *)
   mkp [47; 115; 47; 120]%Z KI false 1 [VI 3] [0%nat];        (* /s/x below it *)
   mkp [47; 116]%Z KI true 3 [VI 1; VI 1; VI 1] [];           (* /t#3 *)
   mkp_nodef [47; 110]%Z KI [VI 7]].                          (* /n   no default: holds 8, not saved *)
Definition fx_state : state := [[VT true]; [VI 9]; [VI 1; VI 5; VI 1]; [VI 8]].
(* what loading the saved file into a default-initialised instance gives: the parameters with a
   default are restored, the one without keeps the value the object initialises it with *)
Definition fx_loaded : state := [[VT true]; [VI 9]; [VI 1; VI 5; VI 1]; [VI 7]].

Ltac three i := destruct i as [|[|[|[|i]]]]; [| | | |simpl in *; try lia].

Theorem roundtrip_full_nonvacuous :
  full_conditions fx_app fx_state /\ saved fx_app fx_state = [0%nat; 1%nat; 2%nat] /\
  respects (must_precede fx_app) [0%nat; 2%nat; 1%nat] /\
  (* the array line is trimmed to two elements *)
  l_vals (the_line fx_app fx_state 2) = [VI 1; VI 5] /\
  apply_all fx_app (map (the_line fx_app fx_state) [0%nat; 2%nat; 1%nat]) (initial fx_app) = (fx_loaded, true) /\
  (* the line below the sub-tree in front of its switch: no port accepts it *)
  snd (apply_all fx_app (map (the_line fx_app fx_state) [1%nat; 0%nat; 2%nat]) (initial fx_app)) = false.
Proof.
  split; [|split; [reflexivity|split; [|split; [reflexivity|split; reflexivity]]]].
  - split; [|split; [reflexivity|split]].
    + constructor.
      * simpl. repeat constructor; simpl; intuition discriminate.
      * intros i s Hi Hs. three i; simpl in Hs; discriminate.
      * intros q s Hq Hs. three q; simpl in Hs; discriminate.
      * intros q g Hq Hg. three q; simpl in Hg; try contradiction.
        destruct Hg as [Hg|[]]. subst g. simpl. repeat split; try lia; try reflexivity;
          try (intros x []); intros [].
      * intros i Hi. three i; simpl; (split; [lia|]); (split; [try reflexivity; discriminate|]);
          (split; [intros Hnd; try discriminate Hnd; intros selv; unfold default_with; simpl;
                   destruct selv as [v|]; try reflexivity; destruct (sel_key v); reflexivity
                  |intros Hnd; try discriminate Hnd; split; reflexivity]).
    + intros i Hi. three i; reflexivity.
    + intros i x Hi Hx. change (saved fx_app fx_state) with [0%nat; 1%nat; 2%nat] in Hi.
      destruct Hi as [Hi|[Hi|[Hi|[]]]]; subst i; simpl in Hx;
        repeat (destruct Hx as [Hx|Hx]; [subst x; reflexivity|]); contradiction.
  - simpl. unfold must_precede. simpl. repeat split; try tauto;
      intros y Hy; repeat (destruct Hy as [Hy|Hy]; [subst y; simpl; intuition discriminate|]); contradiction.
Qed.
