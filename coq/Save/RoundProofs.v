(* C12 - the round trip of the abstract application: loading the saved lines,
   in any order that is a permutation of them and places a preset selector in
   front of its dependents, into a default-initialised instance restores the
   state.  Proved here for applications without pointer sub-trees and without
   "#N" leaf arrays (side conditions of C12_roundtrip_partial). *)
From Coq Require Import List ZArith Bool Lia Arith Permutation.
From RtoscV Require Import Save.TopoModel Save.TopoProofs Save.SaveModel Save.SaveProofs.
Import ListNotations.

(* ---- lists ----------------------------------------------------------------- *)
Lemma str_eqb_eq : forall a b, str_eqb a b = true <-> a = b.
Proof.
  induction a as [|x a IH]; destruct b as [|y b]; simpl; split; intro H; try discriminate; try reflexivity.
  - apply andb_true_iff in H. destruct H as [H1 H2]. apply Z.eqb_eq in H1. apply IH in H2. subst. reflexivity.
  - inversion H; subst. rewrite Z.eqb_refl. simpl. apply IH. reflexivity.
Qed.

Lemma upd_length : forall A (l : list A) n v, length (upd l n v) = length l.
Proof. induction l as [|h t IH]; intros n v; destruct n; simpl; try reflexivity. rewrite IH. reflexivity. Qed.

Lemma val_at_upd : forall (st : state) i v q, (i < length st)%nat ->
  val_at (upd st i v) q = if Nat.eq_dec q i then v else val_at st q.
Proof.
  unfold val_at. induction st as [|h t IH]; intros i v q H; simpl in H; [lia|].
  destruct i as [|i]; destruct q as [|q]; simpl.
  - reflexivity.
  - reflexivity.
  - reflexivity.
  - rewrite IH by lia. destruct (Nat.eq_dec q i); destruct (Nat.eq_dec (S q) (S i)); try lia; reflexivity.
Qed.

Lemma map_seq_nth : forall (f : nat -> value) n q, (q < n)%nat ->
  val_at (map f (seq 0 n)) q = f q.
Proof.
  intros f n q H. unfold val_at.
  rewrite nth_indep with (d' := f 0%nat) by (rewrite map_length, seq_length; assumption).
  rewrite map_nth with (d := 0%nat). rewrite seq_nth by assumption. reflexivity.
Qed.

Lemma find_port_at : forall a i, NoDup (map p_path a) -> (i < length a)%nat ->
  find_port a (p_path (port_at a i)) = Some i.
Proof.
  unfold port_at. induction a as [|p a IH]; intros i Hnd Hi; simpl in Hi; [lia|].
  simpl in Hnd. inversion Hnd as [|? ? Hnotin Hnd']; subst.
  destruct i as [|i]; simpl.
  - assert (E : str_eqb (p_path p) (p_path p) = true) by (apply str_eqb_eq; reflexivity).
    rewrite E. reflexivity.
  - destruct (str_eqb (p_path p) (p_path (nth i a dummy_port))) eqn:E.
    + apply str_eqb_eq in E. exfalso. apply Hnotin. rewrite E. apply in_map. apply nth_In. lia.
    + rewrite IH by (assumption || lia). reflexivity.
Qed.

Lemma same_value_sel_key : forall u w, same_value u w = true -> sel_key u = sel_key w.
Proof.
  intros u w H. destruct u as [|x [|x' u]]; destruct w as [|y [|y' w]]; simpl in H; try discriminate; try reflexivity.
  - rewrite andb_true_r in H.
    destruct x; destruct y; simpl in H; try discriminate; simpl; try reflexivity.
    + apply Z.eqb_eq in H. subst. reflexivity.
    + apply Z.eqb_eq in H. subst. reflexivity.
    + apply eqb_prop in H. subst. reflexivity.
  - apply andb_true_iff in H. destruct H as [_ H]. simpl in H. destruct y'; discriminate.
  - apply andb_true_iff in H. destruct H as [_ H]. simpl in H. destruct x'; discriminate.
  - destruct x; destruct y; simpl; try reflexivity; destruct u; destruct w; reflexivity.
Qed.

Lemma default_with_key : forall p u w, sel_key u = sel_key w ->
  default_with p (Some u) = default_with p (Some w).
Proof. intros p u w H. unfold default_with. rewrite H. reflexivity. Qed.

(* ---- saved ports -------------------------------------------------------------- *)
Definition is_saved (a : app) (st : state) (i : nat) : bool :=
  negb (p_nodef (port_at a i)) && live a st i && negb (same_value (val_at st i) (default_of a st i)).
Definition saved (a : app) (st : state) : list nat := filter (is_saved a st) (seq 0 (length a)).

Lemma save_lines_saved : forall a st, save_lines a st = map (the_line a st) (saved a st).
Proof.
  intros a st. unfold save_lines, saved. induction (seq 0 (length a)) as [|i l IH]; simpl; [reflexivity|].
  rewrite IH. unfold line_of, is_saved, the_line.
  destruct (negb (p_nodef (port_at a i)) && live a st i && negb (same_value (val_at st i) (default_of a st i)));
    reflexivity.
Qed.

Section Flat.
  Variable a : app.
  Variable st : state.
  Hypothesis no_pointer_subtrees : forall i, p_hard (port_at a i) = [].
  Hypothesis no_leaf_arrays : forall i, (i < length a)%nat ->
    p_array (port_at a i) = false /\ (0 < p_len (port_at a i))%nat.
  Hypothesis distinct_addresses : NoDup (map p_path a).
  Hypothesis sel_plain : selectors_plain a.
  Hypothesis sel_same_guards : forall q s, (q < length a)%nat -> p_sel (port_at a q) = Some s ->
    p_soft (port_at a s) = p_soft (port_at a q).
  Hypothesis state_length : length st = length a.
  Hypothesis state_scalar : forall i, (i < length a)%nat -> exists v, val_at st i = [v].
  Hypothesis defaults_scalar : forall i selv, (i < length a)%nat ->
    exists v, default_with (port_at a i) selv = [v].
  (* the state is stable: sending a saved parameter's shown value stores that value
     (in range: C14's clamp_idem; options: the symbol names the number) *)
  Hypothesis state_stable : forall i v, In i (saved a st) -> val_at st i = [v] ->
    store (port_at a i) (shown (port_at a i) v) = Some v.

  Definition before (y x : nat) : Prop := p_sel (port_at a x) = Some y.

  Lemma exists_true : forall s i, exists_ a s i = true.
  Proof. intros. unfold exists_. rewrite no_pointer_subtrees. reflexivity. Qed.

  Lemma not_enabler : forall i, is_enabler a i = false.
  Proof.
    intros i. unfold is_enabler. destruct (existsb (fun p => mem_nat i (p_hard p)) a) eqn:E; [|reflexivity].
    apply existsb_exists in E. destruct E as [p [Hp Hm]].
    apply In_nth with (d := dummy_port) in Hp. destruct Hp as [k [Hk Hp]].
    pose proof (no_pointer_subtrees k) as H. unfold port_at in H. rewrite Hp in H. rewrite H in Hm. discriminate.
  Qed.

  Lemma reset_pointwise : forall s cur q, (q < length a)%nat ->
    val_at (reset_dependents a s cur) q =
    match p_sel (port_at a q) with
    | Some s' => if Nat.eqb s' s then default_of a cur q else val_at cur q
    | None => val_at cur q
    end.
  Proof. intros. unfold reset_dependents. rewrite map_seq_nth by assumption. reflexivity. Qed.

  (* one accepted scalar message *)
  Lemma set_flat : forall cur i v v', length cur = length a -> (i < length a)%nat ->
    store (port_at a i) v = Some v' ->
    exists cur', set_elem a cur i 0 v = Some cur' /\ length cur' = length a /\
      forall q, (q < length a)%nat ->
        val_at cur' q =
        let st1 := upd cur i (upd (val_at cur i) 0 v') in
        match p_sel (port_at a q) with
        | Some s' => if Nat.eqb s' i then default_of a st1 q else val_at st1 q
        | None => val_at st1 q
        end.
  Proof.
    intros cur i v v' Hl Hi Hs. unfold set_elem.
    destruct (no_leaf_arrays i Hi) as [_ Hlen].
    assert (E : (0 <? p_len (port_at a i))%nat = true) by (apply Nat.ltb_lt; assumption).
    rewrite E, Hs, exists_true, not_enabler. simpl.
    set (st1 := upd cur i (upd (val_at cur i) 0 v')).
    assert (Hl1 : length st1 = length a) by (unfold st1; rewrite upd_length; assumption).
    destruct (is_selector a i) eqn:Es.
    - exists (reset_dependents a i st1). split; [reflexivity|]. split.
      + unfold reset_dependents. rewrite map_length, seq_length. reflexivity.
      + intros q Hq. apply reset_pointwise. assumption.
    - exists st1. split; [reflexivity|]. split; [assumption|].
      intros q Hq. simpl. destruct (p_sel (port_at a q)) as [s'|] eqn:Eq; [|reflexivity].
      destruct (Nat.eqb s' i) eqn:En; [|reflexivity].
      exfalso. apply Nat.eqb_eq in En. subst s'.
      assert (Hex : existsb (fun p => match p_sel p with Some s => Nat.eqb s i | None => false end) a = true).
      { apply existsb_exists. exists (port_at a q). split; [apply nth_In; assumption|].
        rewrite Eq. apply Nat.eqb_refl. }
      unfold is_selector in Es. congruence.
  Qed.

  Lemma saved_facts : forall i, In i (saved a st) ->
    (i < length a)%nat /\ p_nodef (port_at a i) = false /\ live a st i = true /\
    same_value (val_at st i) (default_of a st i) = false.
  Proof.
    intros i H. unfold saved in H. apply filter_In in H. destruct H as [H1 H2].
    apply in_seq in H1. unfold is_saved in H2.
    apply andb_true_iff in H2. destruct H2 as [H2 H3]. apply andb_true_iff in H2. destruct H2 as [H2 H4].
    apply negb_true_iff in H2. apply negb_true_iff in H3. repeat split; try assumption; lia.
  Qed.

  Lemma self_not_selector : forall i, (i < length a)%nat -> p_sel (port_at a i) <> Some i.
  Proof.
    intros i Hi H. destruct (sel_plain i i Hi H) as (_ & Hn & _). congruence.
  Qed.

  (* the loop of dispatch_printed_messages over the sorted lines *)
  Lemma load_invariant : forall ord cur done,
    length cur = length a ->
    (forall i, In i ord -> In i (saved a st)) -> NoDup ord -> (forall i, In i ord -> ~ In i done) ->
    respects before ord ->
    (forall q, In q done -> (q < length a)%nat) ->
    (forall q, In q done -> forall j, In j ord -> p_sel (port_at a q) <> Some j) ->
    (forall q, In q done -> val_at cur q = val_at st q) ->
    (forall q, (q < length a)%nat -> ~ In q done -> p_nodef (port_at a q) = false ->
               val_at cur q = default_of a cur q) ->
    exists fin, apply_all a (map (the_line a st) ord) cur = (fin, true) /\ length fin = length a /\
      (forall q, In q done \/ In q ord -> val_at fin q = val_at st q) /\
      (forall q, (q < length a)%nat -> ~ (In q done \/ In q ord) -> p_nodef (port_at a q) = false ->
                 val_at fin q = default_of a fin q).
  Proof.
    induction ord as [|i ord IH]; intros cur done Hl Hsv Hnd Hdis Hresp Hdl H3 H2a H2b.
    - exists cur. simpl. split; [reflexivity|]. split; [assumption|]. split.
      + intros q [Hq|[]]. apply H2a. assumption.
      + intros q Hq Hn Hd. apply H2b; try assumption. tauto.
    - destruct (saved_facts i (Hsv i (or_introl eq_refl))) as (Hi & Hnodef & Hlive & Hdiff).
      destruct (state_scalar i Hi) as [v Hv].
      pose proof (state_stable i v (Hsv i (or_introl eq_refl)) Hv) as Hstore.
      destruct (no_leaf_arrays i Hi) as [Harr _].
      destruct (set_flat cur i (shown (port_at a i) v) v Hl Hi Hstore) as (cur' & Hset & Hl' & Hpt).
      (* the line of i is accepted *)
      assert (Happ : apply_line a (the_line a st i) cur = Some cur').
      { unfold apply_line, the_line. simpl. rewrite find_port_at by assumption.
        rewrite Harr. simpl. rewrite Hv. simpl. exact Hset. }
      assert (Hnotdone : ~ In i done) by (apply Hdis; left; reflexivity).
      assert (Hcur_i : exists w, val_at cur i = [w]).
      { rewrite H2b by assumption. unfold default_of. apply defaults_scalar. assumption. }
      destruct Hcur_i as [w Hw].
      assert (Hst1_i : val_at (upd cur i (upd (val_at cur i) 0 v)) i = [v]).
      { rewrite val_at_upd by (rewrite Hl; assumption). destruct (Nat.eq_dec i i); [|congruence].
        rewrite Hw. reflexivity. }
      assert (Hst1_o : forall q, q <> i -> val_at (upd cur i (upd (val_at cur i) 0 v)) q = val_at cur q).
      { intros q Hq. rewrite val_at_upd by (rewrite Hl; assumption). destruct (Nat.eq_dec q i); [congruence|reflexivity]. }
      assert (Hcur'_i : val_at cur' i = [v]).
      { rewrite (Hpt i Hi). simpl. destruct (p_sel (port_at a i)) as [s'|] eqn:Es; [|assumption].
        destruct (Nat.eqb s' i) eqn:En; [|assumption].
        apply Nat.eqb_eq in En. subst s'. exfalso. eapply self_not_selector; eassumption. }
      inversion Hnd as [|? ? Hi_notin Hnd']; subst.
      simpl in Hresp. destruct Hresp as [Hhead Hresp'].
      destruct (IH cur' (i :: done)) as (fin & Hfin & Hlf & Ha & Hb); try assumption.
      + intros j Hj. apply Hsv. right. assumption.
      + intros j Hj [Hc|Hc]; [subst j; contradiction | apply (Hdis j (or_intror Hj)); assumption].
      + intros q [Hq|Hq]; [subst q; assumption | apply Hdl; assumption].
      + intros q [Hq|Hq] j Hj.
        * subst q. intro Hc. apply (Hhead j Hj). exact Hc.
        * apply H3; [assumption | right; assumption].
      + intros q [Hq|Hq].
        * subst q. rewrite Hcur'_i. symmetry. assumption.
        * assert (Hqi : q <> i) by (intro; subst; contradiction).
          assert (Hql : (q < length a)%nat) by (apply Hdl; assumption).
          rewrite (Hpt q Hql). simpl.
          destruct (p_sel (port_at a q)) as [s'|] eqn:Es.
          -- destruct (Nat.eqb s' i) eqn:En.
             ++ apply Nat.eqb_eq in En. subst s'. exfalso.
                apply (H3 q Hq i (or_introl eq_refl)). assumption.
             ++ rewrite Hst1_o by assumption. apply H2a. assumption.
          -- rewrite Hst1_o by assumption. apply H2a. assumption.
      + intros q Hql Hnq Hd.
        assert (Hqi : q <> i) by (intro; subst; apply Hnq; left; reflexivity).
        assert (Hqd : ~ In q done) by (intro; apply Hnq; right; assumption).
        rewrite (Hpt q Hql). simpl. unfold default_of.
        destruct (p_sel (port_at a q)) as [s'|] eqn:Es; simpl.
        * destruct (Nat.eqb s' i) eqn:En.
          -- apply Nat.eqb_eq in En. subst s'. rewrite Hst1_i, Hcur'_i. reflexivity.
          -- apply Nat.eqb_neq in En.
             rewrite Hst1_o by assumption. rewrite (H2b q Hql Hqd Hd). unfold default_of. rewrite Es. simpl.
             destruct (sel_plain q s' Hql Es) as (Hsl & Hsn & _).
             rewrite (Hpt s' Hsl). simpl. rewrite Hsn. rewrite Hst1_o by assumption. reflexivity.
        * rewrite Hst1_o by assumption. rewrite (H2b q Hql Hqd Hd). unfold default_of. rewrite Es. reflexivity.
      + exists fin. simpl. rewrite Happ. split; [assumption|]. split; [assumption|]. split.
        * intros q [Hq|[Hq|Hq]]; apply Ha; [left; right; assumption | left; left; assumption | right; assumption].
        * intros q Hql Hnq Hd. apply Hb; try assumption.
          intros [[Hc|Hc]|Hc]; apply Hnq; [right; left; assumption | left; assumption | right; right; assumption].
  Qed.

  Lemma not_saved : forall q, (q < length a)%nat -> ~ In q (saved a st) ->
    p_nodef (port_at a q) = false -> live a st q = true ->
    same_value (val_at st q) (default_of a st q) = true.
  Proof.
    intros q Hq Hn Hd Hl.
    destruct (same_value (val_at st q) (default_of a st q)) eqn:E; [reflexivity|].
    exfalso. apply Hn. unfold saved. apply filter_In. split; [apply in_seq; lia|].
    unfold is_saved. rewrite Hd, Hl, E. reflexivity.
  Qed.

  (* what the loaded instance holds for a parameter of the saved state *)
  Definition restored (fin : state) (q : nat) : Prop :=
    val_at fin q = val_at st q \/ same_value (val_at st q) (val_at fin q) = true.

  Theorem roundtrip_flat : forall ord,
    Permutation ord (saved a st) -> respects before ord ->
    exists fin, apply_all a (map (the_line a st) ord) (initial a) = (fin, true) /\
      length ord = length (save_lines a st) /\
      forall q, (q < length a)%nat -> p_nodef (port_at a q) = false -> live a st q = true ->
                restored fin q.
  Proof.
    intros ord Hp Hr.
    assert (Hnd : NoDup ord).
    { eapply Permutation_NoDup; [apply Permutation_sym; exact Hp|]. apply NoDup_filter. apply seq_NoDup. }
    destruct (load_invariant ord (initial a) []) as (fin & Hfin & Hlf & Ha & Hb); try assumption.
    - unfold initial. rewrite map_length, seq_length. reflexivity.
    - intros i Hi. eapply Permutation_in; eassumption.
    - intros i _ [].
    - intros q [].
    - intros q [].
    - intros q [].
    - intros q Hq _ Hd. rewrite val_at_initial by assumption.
      symmetry. apply default_of_initial; assumption.
    - exists fin. split; [assumption|]. split.
      { rewrite save_lines_saved, map_length. apply Permutation_length. assumption. }
      intros q Hq Hd Hl.
      destruct (in_dec Nat.eq_dec q ord) as [Hin|Hnin].
      + left. apply Ha. right. assumption.
      + right.
        assert (Hns : ~ In q (saved a st)).
        { intro Hc. apply Hnin. eapply Permutation_in; [apply Permutation_sym; exact Hp | exact Hc]. }
        pose proof (not_saved q Hq Hns Hd Hl) as Hsame.
        rewrite (Hb q Hq) by (tauto || assumption).
        assert (Heq : default_of a fin q = default_of a st q).
        { unfold default_of. destruct (p_sel (port_at a q)) as [s|] eqn:Es; simpl; [|reflexivity].
          destruct (sel_plain q s Hq Es) as (Hsl & Hsn & Hsd).
          assert (Hls : live a st s = true).
          { unfold live in *. rewrite exists_true in *. rewrite (sel_same_guards q s Hq Es). assumption. }
          destruct (in_dec Nat.eq_dec s ord) as [Hsin|Hsnin].
          - rewrite (Ha s (or_intror Hsin)). reflexivity.
          - assert (Hsns : ~ In s (saved a st)).
            { intro Hc. apply Hsnin. eapply Permutation_in; [apply Permutation_sym; exact Hp | exact Hc]. }
            pose proof (not_saved s Hsl Hsns Hsd Hls) as Hss.
            apply default_with_key. symmetry.
            rewrite (Hb s Hsl) by (tauto || assumption).
            unfold default_of in *. rewrite Hsn in *. simpl in *.
            apply same_value_sel_key. assumption. }
        rewrite Heq. assumption.
  Qed.
End Flat.

(* ---- the composition: the real pipeline stage by stage -------------------------
   Each stage of save_to_file / load_from_file is a Section variable; the
   hypothesis that identifies it with the abstract application's stage carries
   the name of the property that owns it. *)
Section Composition.
  Variable text : Type.
  Variable walk : app -> state -> list nat.                   (* walk_ports over the runtime object *)
  Variable av_eq : value -> value -> bool.                    (* rtosc_arg_vals_eq *)
  Variable print_lines : list line -> text.                   (* rtosc_print_arg_vals per line *)
  Variable scan_text : text -> list item.                     (* rtosc_scan_message in a loop *)
  Variable dispatch : app -> line -> state -> option state.   (* message rebuild + Ports::dispatch + callback *)
  Variable sort_lines : app -> list line -> option (list line). (* scan_deps + Kahn *)

  Variable a : app.
  Variable st : state.

  (* the line-level dependency the sort has to respect: a preset selector in
     front of the ports that name it in "default depends" *)
  Definition line_before (l1 l2 : line) : Prop :=
    exists i j, l_path l1 = p_path (port_at a i) /\ l_path l2 = p_path (port_at a j) /\
                p_sel (port_at a j) = Some i.

  Hypothesis C09_enumerates : walk a st = filter (live a st) (seq 0 (length a)).
  Hypothesis C16_eq_sound : forall u w, av_eq u w = same_value u w.
  Hypothesis C10_print_scan : forall ls, exists rds,
    length rds = length ls /\ Forall (fun rd => (0 <= rd)%Z) rds /\
    scan_text (print_lines ls) = map (fun lr => Msg (fst lr) (snd lr)) (combine ls rds).
  Hypothesis C04_dispatch_exact : forall l s, dispatch a l s = apply_line a l s.
  Hypothesis C13_topo : forall ls, ls = save_lines a st ->
    exists s, sort_lines a ls = Some s /\ Permutation s ls /\ respects line_before s.

  (* get_changed_values, as a pipeline over the stages *)
  Definition real_save : text :=
    print_lines
      (flat_map (fun i => if negb (p_nodef (port_at a i)) &&
                             negb (av_eq (val_at st i) (default_of a st i))
                          then [the_line a st i] else [])
                (walk a st)).

  (* dispatch_printed_messages, as a pipeline over the stages *)
  Fixpoint real_apply (ls : list line) (s : state) : state * bool :=
    match ls with
    | [] => (s, true)
    | l :: t => match dispatch a l s with
                | Some s' => real_apply t s'
                | None => (s, false)
                end
    end.
  Definition real_load (t : text) (s0 : state) : option (Z * state) :=
    let '(ls, tot, ok) := scan_items (scan_text t) in
    if ok then
      match sort_lines a ls with
      | None => None
      | Some sorted =>
          let '(s', good) := real_apply sorted s0 in
          Some (if good then Z.of_nat (length ls) else (- tot - 1)%Z, s')
      end
    else Some ((- tot - 1)%Z, s0).

  Lemma real_save_lines : real_save = print_lines (save_lines a st).
  Proof.
    unfold real_save. f_equal. rewrite C09_enumerates. unfold save_lines.
    generalize (seq 0 (length a)). clear - C16_eq_sound.
    induction l as [|i l IH]; simpl; [reflexivity|].
    unfold line_of at 1.
    destruct (live a st i) eqn:El; simpl.
    - rewrite IH, C16_eq_sound. destruct (p_nodef (port_at a i)); simpl; [reflexivity|].
      destruct (same_value (val_at st i) (default_of a st i)); reflexivity.
    - rewrite IH. rewrite andb_false_r. reflexivity.
  Qed.

  Lemma scan_items_msgs : forall ls rds, length rds = length ls ->
    exists tot, scan_items (map (fun lr => Msg (fst lr) (snd lr)) (combine ls rds)) = (ls, tot, true).
  Proof.
    induction ls as [|l ls IH]; intros rds H; destruct rds as [|r rds]; simpl in H; try discriminate.
    - exists 0%Z. reflexivity.
    - destruct (IH rds ltac:(lia)) as [tot Ht]. exists (r + tot)%Z. simpl. rewrite Ht. reflexivity.
  Qed.

  (* when every line is accepted (a rejected ARRAY line leaves its first elements applied:
     SaveModel.partial_line; the pipeline's abstract dispatch stage has no such notion) *)
  Lemma real_apply_is_apply_all : forall ls s fin, apply_all a ls s = (fin, true) -> real_apply ls s = (fin, true).
  Proof.
    induction ls as [|l ls IH]; intros s fin H; simpl in *; [exact H|].
    rewrite C04_dispatch_exact. destruct (apply_line a l s); [apply IH; exact H | discriminate].
  Qed.

  Lemma respects_map : forall (X Y : Type) (R : Y -> Y -> Prop) (f : X -> Y) l,
    respects R (map f l) -> respects (fun y x => R (f y) (f x)) l.
  Proof.
    induction l as [|x l IH]; simpl; [tauto|]. intros [H1 H2]. split; [|apply IH; assumption].
    intros y Hy. apply H1. apply in_map. assumption.
  Qed.

  (* side conditions of the partial theorem (see Flat) *)
  Hypothesis no_pointer_subtrees : forall i, p_hard (port_at a i) = [].
  Hypothesis no_leaf_arrays : forall i, (i < length a)%nat ->
    p_array (port_at a i) = false /\ (0 < p_len (port_at a i))%nat.
  Hypothesis distinct_addresses : NoDup (map p_path a).
  Hypothesis sel_plain : selectors_plain a.
  Hypothesis sel_same_guards : forall q s, (q < length a)%nat -> p_sel (port_at a q) = Some s ->
    p_soft (port_at a s) = p_soft (port_at a q).
  Hypothesis state_length : length st = length a.
  Hypothesis state_scalar : forall i, (i < length a)%nat -> exists v, val_at st i = [v].
  Hypothesis defaults_scalar : forall i selv, (i < length a)%nat ->
    exists v, default_with (port_at a i) selv = [v].
  Hypothesis state_stable : forall i v, In i (saved a st) -> val_at st i = [v] ->
    store (port_at a i) (shown (port_at a i) v) = Some v.

  Theorem roundtrip_composed :
    exists fin, real_load real_save (initial a) = Some (Z.of_nat (length (save_lines a st)), fin) /\
      forall q, (q < length a)%nat -> p_nodef (port_at a q) = false -> live a st q = true ->
                restored st fin q.
  Proof.
    rewrite real_save_lines. unfold real_load.
    destruct (C10_print_scan (save_lines a st)) as (rds & Hlen & _ & Hscan).
    rewrite Hscan. destruct (scan_items_msgs (save_lines a st) rds Hlen) as [tot Htot]. rewrite Htot.
    destruct (C13_topo (save_lines a st) eq_refl) as (s & Hs & Hperm & Hresp). rewrite Hs.
    rewrite save_lines_saved in Hperm.
    apply Permutation_map_inv in Hperm. destruct Hperm as (ord & Hseq & Hpo). subst s.
    assert (Hrb : respects (before a) ord).
    { apply respects_map in Hresp. eapply respects_ext; [|exact Hresp].
      intros x y Hxy. unfold before in Hxy. exists x, y. unfold the_line. simpl. auto. }
    destruct (roundtrip_flat a st no_pointer_subtrees no_leaf_arrays distinct_addresses sel_plain
                sel_same_guards state_length state_scalar defaults_scalar state_stable ord
                (Permutation_sym Hpo) Hrb) as (fin & Hfin & Hcount & Hrest).
    rewrite (real_apply_is_apply_all _ _ fin Hfin). exists fin. split; [reflexivity | assumption].
  Qed.
End Composition.

(* ---- packaged statement -------------------------------------------------------- *)
(* side conditions under which the round trip is proved *)
Definition side_conditions (a : app) (st : state) : Prop :=
  (forall i, p_hard (port_at a i) = []) /\                                  (* no pointer sub-trees *)
  (forall i, (i < length a)%nat ->
     p_array (port_at a i) = false /\ (0 < p_len (port_at a i))%nat) /\     (* no "#N" leaf arrays *)
  NoDup (map p_path a) /\                                                   (* distinct addresses *)
  selectors_plain a /\                                                      (* a selector has a plain default *)
  (forall q s, (q < length a)%nat -> p_sel (port_at a q) = Some s ->
     p_soft (port_at a s) = p_soft (port_at a q)) /\                        (* a selector sits beside its dependents *)
  length st = length a /\
  (forall i, (i < length a)%nat -> exists v, val_at st i = [v]) /\
  (forall i selv, (i < length a)%nat -> exists v, default_with (port_at a i) selv = [v]) /\
  (forall i v, In i (saved a st) -> val_at st i = [v] ->
     store (port_at a i) (shown (port_at a i) v) = Some v).                 (* the state is stable *)

(* the other properties' statements, about the stages of the real pipeline *)
Definition stage_hypotheses (text : Type) (walk : app -> state -> list nat)
           (av_eq : value -> value -> bool) (print_lines : list line -> text)
           (scan_text : text -> list item) (dispatch : app -> line -> state -> option state)
           (sort_lines : app -> list line -> option (list line)) (a : app) (st : state) : Prop :=
  (* C09 *) walk a st = filter (live a st) (seq 0 (length a)) /\
  (* C16 *) (forall u w, av_eq u w = same_value u w) /\
  (* C10 *) (forall ls, exists rds, length rds = length ls /\ Forall (fun rd => (0 <= rd)%Z) rds /\
               scan_text (print_lines ls) = map (fun lr => Msg (fst lr) (snd lr)) (combine ls rds)) /\
  (* C04 + C14 *) (forall l s, dispatch a l s = apply_line a l s) /\
  (* C13 *) (forall ls, ls = save_lines a st ->
               exists s, sort_lines a ls = Some s /\ Permutation s ls /\ respects (line_before a) s).

Theorem roundtrip_partial :
  forall text walk av_eq print_lines scan_text dispatch sort_lines a st,
    stage_hypotheses text walk av_eq print_lines scan_text dispatch sort_lines a st ->
    side_conditions a st ->
    exists fin,
      real_load text scan_text dispatch sort_lines a
                (real_save text walk av_eq print_lines a st) (initial a)
      = Some (Z.of_nat (length (save_lines a st)), fin) /\
      forall q, (q < length a)%nat -> p_nodef (port_at a q) = false -> live a st q = true ->
                restored st fin q.
Proof.
  intros text walk av_eq print_lines scan_text dispatch sort_lines a st
         (H9 & H16 & H10 & H4 & H13) (S1 & S2 & S3 & S4 & S5 & S6 & S7 & S8 & S9).
  eapply roundtrip_composed; eassumption.
Qed.

(* the model's own stages satisfy the stage hypotheses but for the sort (C13_topo
   gives it for acyclic edges): the abstract pipeline is an instance *)
Theorem roundtrip_abstract : forall a st ord,
  side_conditions a st -> Permutation ord (saved a st) -> respects (before a) ord ->
  exists fin, apply_all a (map (the_line a st) ord) (initial a) = (fin, true) /\
    length ord = length (save_lines a st) /\
    forall q, (q < length a)%nat -> p_nodef (port_at a q) = false -> live a st q = true ->
              restored st fin q.
Proof.
  intros a st ord (S1 & S2 & S3 & S4 & S5 & S6 & S7 & S8 & S9) Hp Hr.
  eapply roundtrip_flat; eassumption.
Qed.

(* stability of what the callbacks store (all kinds but options): C14's clamp_idem *)
Lemma stable_non_option : forall p v v', p_kind p <> KO -> store p v = Some v' ->
  store p (shown p v') = Some v'.
Proof.
  intros p v v' Hk Hs. pose proof (store_idem p v v' Hs) as H.
  unfold shown. destruct (p_kind p) eqn:K; try congruence; destruct v'; assumption.
Qed.

(* ---- non-vacuity: a selector with a dependent, both changed --------------------- *)
Definition ex_sel : port :=
  {| p_path := [47; 115]%Z; p_kind := KI; p_array := false; p_len := 1%nat; p_min := Some 0%Z; p_max := Some 3%Z;
     p_opts := []; p_default := [VI 0]; p_sel := None; p_table := []; p_hard := []; p_soft := [];
     p_nodef := false; p_init := [] |}.
Definition ex_dep : port :=
  {| p_path := [47; 100]%Z; p_kind := KI; p_array := false; p_len := 1%nat; p_min := None; p_max := None;
     p_opts := []; p_default := [VI 5]; p_sel := Some 0%nat; p_table := [(1%Z, [VI 7])]; p_hard := []; p_soft := [];
     p_nodef := false; p_init := [] |}.
Definition ex_app : app := [ex_sel; ex_dep].
Definition ex_state : state := [[VI 1]; [VI 9]].

Lemma ex_port_cases : forall (P : nat -> Prop), P 0%nat -> P 1%nat -> (forall k, P (S (S k))) -> forall i, P i.
Proof. intros P H0 H1 H2 i. destruct i as [|[|k]]; auto. Qed.

Theorem roundtrip_nonvacuous :
  side_conditions ex_app ex_state /\ saved ex_app ex_state = [0%nat; 1%nat] /\
  respects (before ex_app) [0%nat; 1%nat] /\
  apply_all ex_app (map (the_line ex_app ex_state) [0%nat; 1%nat]) (initial ex_app) = (ex_state, true) /\
  (* the wrong order loses the dependent's value: the selector re-initialises it *)
  apply_all ex_app (map (the_line ex_app ex_state) [1%nat; 0%nat]) (initial ex_app) = ([[VI 1]; [VI 7]], true).
Proof.
  split; [|split; [reflexivity|split; [|split; reflexivity]]].
  - unfold side_conditions. repeat split.
    + apply ex_port_cases; try reflexivity. intros k. unfold port_at. simpl. destruct k; reflexivity.
    + destruct i as [|[|k]]; simpl in H; try lia; reflexivity.
    + destruct i as [|[|k]]; simpl in H; try lia; simpl; lia.
    + simpl. repeat constructor; simpl; intuition discriminate.
    + destruct i as [|[|k]]; simpl in H; try lia; simpl in H0; try discriminate.
      inversion H0; subst. simpl. lia.
    + destruct i as [|[|k]]; simpl in H; try lia; simpl in H0; try discriminate.
      inversion H0; subst. reflexivity.
    + destruct i as [|[|k]]; simpl in H; try lia; simpl in H0; try discriminate.
      inversion H0; subst. reflexivity.
    + intros q s Hq Hs. destruct q as [|[|k]]; simpl in Hq; try lia; simpl in Hs; try discriminate.
      inversion Hs; subst. reflexivity.
    + intros i Hi. destruct i as [|[|k]]; simpl in Hi; try lia; eexists; reflexivity.
    + intros i selv Hi. destruct i as [|[|k]]; simpl in Hi; try lia.
      * unfold default_with. simpl. destruct selv as [v|]; [|eexists; reflexivity].
        destruct (sel_key v); eexists; reflexivity.
      * unfold default_with. simpl. destruct selv as [v|]; [|eexists; reflexivity].
        destruct (sel_key v) as [k|]; [|eexists; reflexivity].
        destruct k as [|q|q]; try (eexists; reflexivity).
        destruct (1 =? q)%positive; eexists; reflexivity.
    + intros i v Hi Hv. change (saved ex_app ex_state) with [0%nat; 1%nat] in Hi.
      destruct Hi as [Hi|[Hi|[]]]; subst i; simpl in Hv; inversion Hv; subst; reflexivity.
  - simpl. unfold before. simpl. split; [|tauto].
    intros y [Hy|[]]. subst y. simpl. discriminate.
Qed.
