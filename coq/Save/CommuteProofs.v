(* C13 - two messages of the abstract application neither of which has to
   precede the other commute: a message writes its own port, the ports that
   name it in "default depends" and the objects below it if it is a switch -
   all of which have to come after it. *)
From Coq Require Import List ZArith Bool Lia Arith Permutation.
From RtoscV Require Import Save.TopoModel Save.TopoProofs Save.SaveModel Save.SaveProofs
                           Save.RoundProofs Save.RoundFull.
Import ListNotations.

Definition obind {A B} (f : A -> option B) (o : option A) : option B :=
  match o with Some x => f x | None => None end.

Lemma state_ext : forall (s t : state), length s = length t ->
  (forall q, (q < length s)%nat -> val_at s q = val_at t q) -> s = t.
Proof. intros s t Hl H. apply nth_ext with (d := []) (d' := []); assumption. Qed.

Section Commute.
  Variable a : app.
  Hypothesis WF : wf_app a.

  (* normal form of one accepted message *)
  Definition newv (s : state) (i k : nat) (v' : scalar) : value := upd (val_at s i) k v'.
  Definition alloc (s : state) (i k : nat) (v' : scalar) : bool :=
    negb (is_on (val_at s i)) && is_on (newv s i k v').
  Definition nf (s : state) (i k : nat) (v' : scalar) (q : nat) : value :=
    if alloc s i k v' && mem_nat i (p_hard (port_at a q)) then initial_of a q
    else match p_sel (port_at a q) with
         | Some s' => if Nat.eqb s' i then default_with (port_at a q) (Some (newv s i k v'))
                      else if Nat.eq_dec q i then newv s i k v' else val_at s q
         | None => if Nat.eq_dec q i then newv s i k v' else val_at s q
         end.

  Lemma st3v_nf : forall s i k v' q, (i < length s)%nat -> (i < length a)%nat ->
    st3v a s i k v' q = nf s i k v' q.
  Proof.
    intros s i k v' q Hi Hia. unfold st3v, nf, alloc, newv.
    assert (Hst1 : forall x, val_at (upd s i (upd (val_at s i) k v')) x =
                             if Nat.eq_dec x i then upd (val_at s i) k v' else val_at s x).
    { intros x. apply val_at_upd. assumption. }
    assert (H2i : st2v a s i k v' i = upd (val_at s i) k v').
    { unfold st2v. rewrite Hst1. destruct (Nat.eq_dec i i); [|congruence].
      destruct (p_sel (port_at a i)) as [s'|] eqn:Es; [|reflexivity].
      destruct (Nat.eqb s' i) eqn:En; [|reflexivity]. apply Nat.eqb_eq in En. subst s'.
      exfalso. apply (not_self a WF i Hia). left. assumption. }
    rewrite H2i.
    destruct (negb (is_on (val_at s i)) && is_on (upd (val_at s i) k v') && mem_nat i (p_hard (port_at a q)));
      [reflexivity|].
    unfold st2v. rewrite Hst1.
    destruct (p_sel (port_at a q)) as [s'|] eqn:Es; [|reflexivity].
    destruct (Nat.eqb s' i) eqn:En; [|reflexivity]. apply Nat.eqb_eq in En. subst s'.
    unfold default_of. rewrite Es. simpl. rewrite Hst1. destruct (Nat.eq_dec i i); [reflexivity|congruence].
  Qed.

  (* the static part of accepting a message *)
  Definition fits (i k : nat) (v : scalar) : option scalar :=
    if (k <? p_len (port_at a i))%nat then store (port_at a i) v else None.

  Lemma set_elem_cases : forall s i k v, length s = length a -> (i < length a)%nat ->
    match fits i k v with
    | None => set_elem a s i k v = None
    | Some v' =>
        if exists_ a s i
        then exists s', set_elem a s i k v = Some s' /\ length s' = length a /\
                        forall q, (q < length a)%nat -> val_at s' q = nf s i k v' q
        else set_elem a s i k v = None
    end.
  Proof.
    intros s i k v Hl Hi. unfold fits.
    destruct (k <? p_len (port_at a i))%nat eqn:Ek.
    - destruct (store (port_at a i) v) as [v'|] eqn:Es.
      + destruct (exists_ a s i) eqn:Ee.
        * apply Nat.ltb_lt in Ek.
          destruct (set_full a s i k v v' Hl Hi Ek Es Ee) as (s' & H1 & H2 & H3).
          exists s'. split; [assumption|]. split; [assumption|].
          intros q Hq. rewrite (H3 q Hq). apply st3v_nf; [rewrite Hl|]; assumption.
        * unfold set_elem. rewrite Ek, Es, Ee. reflexivity.
      + unfold set_elem. rewrite Ek, Es. reflexivity.
    - unfold set_elem. rewrite Ek. reflexivity.
  Qed.

  Variables i j : nat.
  Hypothesis Hi : (i < length a)%nat.
  Hypothesis Hj : (j < length a)%nat.
  Hypothesis Hij : i <> j.
  Hypothesis Hnij : ~ must_precede a i j.
  Hypothesis Hnji : ~ must_precede a j i.

  Lemma mem_false : forall x q, ~ In x (p_hard (port_at a q)) -> mem_nat x (p_hard (port_at a q)) = false.
  Proof. intros x q H. destruct (mem_nat x (p_hard (port_at a q))) eqn:E; [|reflexivity]. apply mem_nat_in in E. contradiction. Qed.

  (* a message to i leaves j's own value alone *)
  Lemma nf_other : forall s k v', nf s i k v' j = val_at s j.
  Proof.
    intros s k v'. unfold nf. rewrite (mem_false i j) by (intro H; apply Hnij; right; assumption).
    rewrite andb_false_r.
    destruct (p_sel (port_at a j)) as [s'|] eqn:Es.
    - destruct (Nat.eqb s' i) eqn:En.
      + apply Nat.eqb_eq in En. subst s'. exfalso. apply Hnij. left. assumption.
      + destruct (Nat.eq_dec j i); [congruence | reflexivity].
    - destruct (Nat.eq_dec j i); [congruence | reflexivity].
  Qed.

  (* ... and the switches above j *)
  Lemma exists_after : forall s s' k v', length s = length a ->
    (forall q, (q < length a)%nat -> val_at s' q = nf s i k v' q) ->
    exists_ a s' j = exists_ a s j.
  Proof.
    intros s s' k v' Hl Hpt. unfold exists_. apply all_on_ext. intros g Hg.
    destruct (w_guard a WF j g Hj Hg) as (Hgl & Hgs & _ & _ & Hinc & _ & _).
    rewrite (Hpt g Hgl). unfold nf.
    rewrite (mem_false i g) by (intro H; apply Hnij; right; apply Hinc; assumption).
    rewrite andb_false_r, Hgs.
    destruct (Nat.eq_dec g i) as [E|E]; [|reflexivity].
    subst g. exfalso. apply Hnij. right. assumption.
  Qed.

  Lemma nf_other' : forall s k v', nf s j k v' i = val_at s i.
  Proof.
    intros s k v'. unfold nf. rewrite (mem_false j i) by (intro H; apply Hnji; right; assumption).
    rewrite andb_false_r.
    destruct (p_sel (port_at a i)) as [s'|] eqn:Es.
    - destruct (Nat.eqb s' j) eqn:En.
      + apply Nat.eqb_eq in En. subst s'. exfalso. apply Hnji. left. assumption.
      + destruct (Nat.eq_dec i j); [congruence | reflexivity].
    - destruct (Nat.eq_dec i j); [congruence | reflexivity].
  Qed.

  (* the second message, in terms of the first state *)
  Lemma nf_after_i : forall s S k v' k' w' q,
    (forall x, (x < length a)%nat -> val_at S x = nf s i k v' x) -> (q < length a)%nat ->
    nf S j k' w' q =
    if alloc s j k' w' && mem_nat j (p_hard (port_at a q)) then initial_of a q
    else match p_sel (port_at a q) with
         | Some s' => if Nat.eqb s' j then default_with (port_at a q) (Some (newv s j k' w'))
                      else if Nat.eq_dec q j then newv s j k' w' else nf s i k v' q
         | None => if Nat.eq_dec q j then newv s j k' w' else nf s i k v' q
         end.
  Proof.
    intros s S k v' k' w' q HS Hq. unfold nf at 1. unfold alloc, newv.
    rewrite (HS j Hj), nf_other, (HS q Hq). reflexivity.
  Qed.

  Lemma nf_after_j : forall s S k v' k' w' q,
    (forall x, (x < length a)%nat -> val_at S x = nf s j k' w' x) -> (q < length a)%nat ->
    nf S i k v' q =
    if alloc s i k v' && mem_nat i (p_hard (port_at a q)) then initial_of a q
    else match p_sel (port_at a q) with
         | Some s' => if Nat.eqb s' i then default_with (port_at a q) (Some (newv s i k v'))
                      else if Nat.eq_dec q i then newv s i k v' else nf s j k' w' q
         | None => if Nat.eq_dec q i then newv s i k v' else nf s j k' w' q
         end.
  Proof.
    intros s S k v' k' w' q HS Hq. unfold nf at 1. unfold alloc, newv.
    rewrite (HS i Hi), nf_other', (HS q Hq). reflexivity.
  Qed.

  Lemma nf_commute : forall s Si Sj k v' k' w' q,
    (forall x, (x < length a)%nat -> val_at Si x = nf s i k v' x) ->
    (forall x, (x < length a)%nat -> val_at Sj x = nf s j k' w' x) ->
    (q < length a)%nat ->
    nf Si j k' w' q = nf Sj i k v' q.
  Proof.
    intros s Si Sj k v' k' w' q HSi HSj Hq.
    rewrite (nf_after_i s Si k v' k' w' q HSi Hq), (nf_after_j s Sj k v' k' w' q HSj Hq).
    assert (K1 : mem_nat j (p_hard (port_at a q)) = true -> p_sel (port_at a q) = Some i -> False).
    { intros Hm Hs. apply mem_nat_in in Hm. destruct (w_beside a WF q i Hq Hs) as (_ & Hh & _).
      apply Hnji. right. rewrite Hh. assumption. }
    assert (K2 : mem_nat j (p_hard (port_at a q)) = true -> q = i -> False).
    { intros Hm He. subst q. apply mem_nat_in in Hm. apply Hnji. right. assumption. }
    assert (K3 : mem_nat i (p_hard (port_at a q)) = true -> p_sel (port_at a q) = Some j -> False).
    { intros Hm Hs. apply mem_nat_in in Hm. destruct (w_beside a WF q j Hq Hs) as (_ & Hh & _).
      apply Hnij. right. rewrite Hh. assumption. }
    assert (K4 : mem_nat i (p_hard (port_at a q)) = true -> q = j -> False).
    { intros Hm He. subst q. apply mem_nat_in in Hm. apply Hnij. right. assumption. }
    assert (K5 : p_sel (port_at a q) = Some i -> q = j -> False).
    { intros Hs He. subst q. apply Hnij. left. assumption. }
    assert (K6 : p_sel (port_at a q) = Some j -> q = i -> False).
    { intros Hs He. subst q. apply Hnji. left. assumption. }
    assert (K7 : p_sel (port_at a q) = Some i -> q = i -> False).
    { intros Hs He. subst q. apply (not_self a WF i Hi). left. assumption. }
    assert (K8 : p_sel (port_at a q) = Some j -> q = j -> False).
    { intros Hs He. subst q. apply (not_self a WF j Hj). left. assumption. }
    assert (K9 : mem_nat i (p_hard (port_at a q)) = true -> q = i -> False).
    { intros Hm He. subst q. apply mem_nat_in in Hm. apply (not_self a WF i Hi). right. assumption. }
    assert (K10 : mem_nat j (p_hard (port_at a q)) = true -> q = j -> False).
    { intros Hm He. subst q. apply mem_nat_in in Hm. apply (not_self a WF j Hj). right. assumption. }
    unfold nf.
    destruct (mem_nat i (p_hard (port_at a q))) eqn:Mi; destruct (mem_nat j (p_hard (port_at a q))) eqn:Mj;
      destruct (alloc s i k v'); destruct (alloc s j k' w'); simpl;
      (destruct (p_sel (port_at a q)) as [s'|] eqn:Es;
       [ destruct (Nat.eqb s' i) eqn:Ei; destruct (Nat.eqb s' j) eqn:Ej;
         try (apply Nat.eqb_eq in Ei); try (apply Nat.eqb_eq in Ej) | ]);
      destruct (Nat.eq_dec q i) as [Qi|Qi]; destruct (Nat.eq_dec q j) as [Qj|Qj];
      try reflexivity; exfalso; subst;
      first [ congruence | eauto ].
  Qed.

  Lemma exists_after' : forall s s' k v', length s = length a ->
    (forall q, (q < length a)%nat -> val_at s' q = nf s j k v' q) ->
    exists_ a s' i = exists_ a s i.
  Proof.
    intros s s' k v' Hl Hpt. unfold exists_. apply all_on_ext. intros g Hg.
    destruct (w_guard a WF i g Hi Hg) as (Hgl & Hgs & _ & _ & Hinc & _ & _).
    rewrite (Hpt g Hgl). unfold nf.
    rewrite (mem_false j g) by (intro H; apply Hnji; right; apply Hinc; assumption).
    rewrite andb_false_r, Hgs.
    destruct (Nat.eq_dec g j) as [E|E]; [|reflexivity].
    subst g. exfalso. apply Hnji. right. assumption.
  Qed.

  (* two single messages *)
  Lemma set_commute : forall s k v k' w, length s = length a ->
    obind (fun s1 => set_elem a s1 j k' w) (set_elem a s i k v) =
    obind (fun s1 => set_elem a s1 i k v) (set_elem a s j k' w).
  Proof.
    intros s k v k' w Hl.
    pose proof (set_elem_cases s i k v Hl Hi) as Ci.
    pose proof (set_elem_cases s j k' w Hl Hj) as Cj.
    destruct (fits i k v) as [v'|] eqn:Fi.
    - destruct (fits j k' w) as [w'|] eqn:Fj.
      + destruct (exists_ a s i) eqn:Ei.
        * destruct Ci as (si & Hsi & Hli & Hpi). rewrite Hsi. simpl.
          pose proof (set_elem_cases si j k' w Hli Hj) as Cij. rewrite Fj in Cij.
          rewrite (exists_after s si k v' Hl Hpi) in Cij.
          destruct (exists_ a s j) eqn:Ej.
          -- destruct Cj as (sj & Hsj & Hlj & Hpj). rewrite Hsj. simpl.
             pose proof (set_elem_cases sj i k v Hlj Hi) as Cji. rewrite Fi in Cji.
             rewrite (exists_after' s sj k' w' Hl Hpj), Ei in Cji.
             destruct Cij as (sij & Hsij & Hlij & Hpij). destruct Cji as (sji & Hsji & Hlji & Hpji).
             rewrite Hsij, Hsji. f_equal. apply state_ext; [congruence|].
             intros q Hq. rewrite Hlij in Hq. rewrite (Hpij q Hq), (Hpji q Hq).
             apply (nf_commute s si sj k v' k' w' q Hpi Hpj Hq).
          -- rewrite Cij, Cj. reflexivity.
        * rewrite Ci. simpl.
          destruct (exists_ a s j) eqn:Ej.
          -- destruct Cj as (sj & Hsj & Hlj & Hpj). rewrite Hsj. simpl.
             pose proof (set_elem_cases sj i k v Hlj Hi) as Cji. rewrite Fi in Cji.
             rewrite (exists_after' s sj k' w' Hl Hpj), Ei in Cji. rewrite Cji. reflexivity.
          -- rewrite Cj. reflexivity.
      + rewrite Cj. simpl.
        destruct (set_elem a s i k v) as [si|] eqn:Hsi; [|reflexivity]. simpl.
        assert (Hli : length si = length a).
        { destruct (exists_ a s i); [destruct Ci as (x & Hx & Hlx & _); congruence | congruence]. }
        pose proof (set_elem_cases si j k' w Hli Hj) as Cij. rewrite Fj in Cij. assumption.
    - rewrite Ci. simpl.
      destruct (set_elem a s j k' w) as [sj|] eqn:Hsj; [|reflexivity]. simpl.
      assert (Hlj : length sj = length a).
      { destruct (fits j k' w); [|congruence].
        destruct (exists_ a s j); [destruct Cj as (x & Hx & Hlx & _); congruence | congruence]. }
      pose proof (set_elem_cases sj i k v Hlj Hi) as Cji. rewrite Fi in Cji. symmetry. assumption.
  Qed.
End Commute.

(* ---- lifting to lines ------------------------------------------------------------------ *)
Section Lines.
  Variable a : app.
  Hypothesis WF : wf_app a.

  Lemma set_elem_length : forall s x k v s', length s = length a -> (x < length a)%nat ->
    set_elem a s x k v = Some s' -> length s' = length a.
  Proof.
    intros s x k v s' Hl Hx H. pose proof (set_elem_cases a WF s x k v Hl Hx) as C.
    destruct (fits a x k v); [|congruence].
    destruct (exists_ a s x); [destruct C as (y & Hy & Hly & _); congruence | congruence].
  Qed.

  Lemma apply_elems_length : forall i vs k s s', length s = length a -> (i < length a)%nat ->
    apply_elems a i k vs s = Some s' -> length s' = length a.
  Proof.
    induction vs as [|v vs IH]; intros k s s' Hl Hi H; simpl in H.
    - inversion H; subst. assumption.
    - destruct (set_elem a s i k v) as [s1|] eqn:E; [|discriminate].
      eapply IH; [exact (set_elem_length s i k v s1 Hl Hi E) | assumption | eassumption].
  Qed.

  Variables i j : nat.
  Hypothesis Hi : (i < length a)%nat.
  Hypothesis Hj : (j < length a)%nat.
  Hypothesis Hij : i <> j.
  Hypothesis Hnij : ~ must_precede a i j.
  Hypothesis Hnji : ~ must_precede a j i.

  (* one message to j against the element messages of a line for i *)
  Lemma elems_vs_set : forall vs k s k' w, length s = length a ->
    obind (fun s1 => set_elem a s1 j k' w) (apply_elems a i k vs s) =
    obind (fun s1 => apply_elems a i k vs s1) (set_elem a s j k' w).
  Proof.
    induction vs as [|v vs IH]; intros k s k' w Hl; simpl.
    - destruct (set_elem a s j k' w); reflexivity.
    - pose proof (set_commute a WF i j Hi Hj Hij Hnij Hnji s k v k' w Hl) as C.
      destruct (set_elem a s i k v) as [s1|] eqn:E1; simpl in C.
      + assert (Hl1 : length s1 = length a) by exact (set_elem_length s i k v s1 Hl Hi E1).
        rewrite (IH (S k) s1 k' w Hl1). rewrite C.
        destruct (set_elem a s j k' w) as [sj|]; reflexivity.
      + destruct (set_elem a s j k' w) as [sj|]; simpl in *; [rewrite <- C|]; reflexivity.
  Qed.
End Lines.

Section Lines2.
  Variable a : app.
  Hypothesis WF : wf_app a.

  (* the port and the element messages a line stands for; None = no port takes it *)
  Definition line_target (l : line) : option (nat * value) :=
    match find_port a (l_path l) with
    | None => None
    | Some i =>
        if Bool.eqb (l_array l) (p_array (port_at a i)) then
          match l_array l, l_vals l with
          | false, [v] => Some (i, [v])
          | false, _ => None
          | true, vs => Some (i, vs)
          end
        else None
    end.

  Lemma apply_line_target : forall l s,
    apply_line a l s = match line_target l with
                       | Some (i, vs) => apply_elems a i 0 vs s
                       | None => None
                       end.
  Proof.
    intros l s. unfold apply_line, line_target.
    destruct (find_port a (l_path l)) as [i|]; [|reflexivity].
    destruct (Bool.eqb (l_array l) (p_array (port_at a i))); [|reflexivity].
    destruct (l_array l); [reflexivity|].
    destruct (l_vals l) as [|v [|v' r]]; try reflexivity.
    simpl. destruct (set_elem a s i 0 v); reflexivity.
  Qed.

  Lemma find_port_sound : forall (b : app) path i, find_port b path = Some i ->
    (i < length b)%nat /\ p_path (nth i b dummy_port) = path.
  Proof.
    induction b as [|p b IH]; intros path i H; simpl in H; [discriminate|].
    destruct (str_eqb (p_path p) path) eqn:E.
    - inversion H; subst. apply str_eqb_eq in E. simpl. split; [lia | assumption].
    - destruct (find_port b path) as [k|] eqn:Ek; [|discriminate]. inversion H; subst.
      destruct (IH path k Ek) as [H1 H2]. simpl. split; [lia | assumption].
  Qed.

  Lemma target_facts : forall l i vs, line_target l = Some (i, vs) ->
    (i < length a)%nat /\ p_path (port_at a i) = l_path l.
  Proof.
    intros l i vs H. unfold line_target in H.
    destruct (find_port a (l_path l)) as [k|] eqn:E; [|discriminate].
    destruct (find_port_sound a _ _ E) as [H1 H2].
    destruct (Bool.eqb (l_array l) (p_array (port_at a k))); [|discriminate].
    destruct (l_array l).
    - inversion H; subst. split; assumption.
    - destruct (l_vals l) as [|v [|v' r]]; try discriminate. inversion H; subst. split; assumption.
  Qed.

  Lemma elems_vs_elems : forall i j, (i < length a)%nat -> (j < length a)%nat -> i <> j ->
    ~ must_precede a i j -> ~ must_precede a j i ->
    forall ws vs k k' s, length s = length a ->
      obind (fun s1 => apply_elems a j k' ws s1) (apply_elems a i k vs s) =
      obind (fun s1 => apply_elems a i k vs s1) (apply_elems a j k' ws s).
  Proof.
    intros i j Hi Hj Hij Hnij Hnji. induction ws as [|w ws IH]; intros vs k k' s Hl.
    - simpl. destruct (apply_elems a i k vs s); reflexivity.
    - simpl.
      pose proof (elems_vs_set a WF i j Hi Hj Hij Hnij Hnji vs k s k' w Hl) as C.
      destruct (set_elem a s j k' w) as [sj|] eqn:Ej; simpl in C |- *.
      + assert (Hlj : length sj = length a) by exact (set_elem_length a WF s j k' w sj Hl Hj Ej).
        rewrite <- (IH vs k (S k') sj Hlj). rewrite <- C.
        destruct (apply_elems a i k vs s) as [si|]; simpl; [|reflexivity].
        destruct (set_elem a si j k' w); reflexivity.
      + destruct (apply_elems a i k vs s) as [si|]; simpl in *; [|reflexivity].
        rewrite C. reflexivity.
  Qed.

  Definition step_line (l : line) (o : option state) : option state := obind (apply_line a l) o.
  Definition okstate (o : option state) : Prop :=
    match o with Some s => length s = length a | None => True end.

  Lemma step_line_ok : forall l o, okstate o -> okstate (step_line l o).
  Proof.
    intros l [s|] H; simpl; [|exact I]. rewrite apply_line_target.
    destruct (line_target l) as [[i vs]|] eqn:E; [|exact I].
    destruct (apply_elems a i 0 vs s) as [s'|] eqn:E2; [|exact I]. simpl.
    destruct (target_facts l i vs E) as [Hi _].
    exact (apply_elems_length a WF i vs 0 s s' H Hi E2).
  Qed.

  (* lines for different ports neither of which has to precede the other commute *)
  Theorem lines_commute : forall x y o, okstate o ->
    (forall i vs j ws, line_target x = Some (i, vs) -> line_target y = Some (j, ws) ->
                       i <> j /\ ~ must_precede a i j /\ ~ must_precede a j i) ->
    step_line x (step_line y o) = step_line y (step_line x o).
  Proof.
    intros x y [s|] Hok Hrel; [|reflexivity]. unfold step_line. simpl. simpl in Hok.
    rewrite !apply_line_target.
    destruct (line_target x) as [[i vs]|] eqn:Ex; destruct (line_target y) as [[j ws]|] eqn:Ey.
    - destruct (Hrel i vs j ws eq_refl eq_refl) as (Hij & Hnij & Hnji).
      destruct (target_facts x i vs Ex) as [Hi _]. destruct (target_facts y j ws Ey) as [Hj _].
      pose proof (elems_vs_elems i j Hi Hj Hij Hnij Hnji ws vs 0%nat 0%nat s Hok) as C.
      assert (E1 : obind (apply_line a x) (apply_elems a j 0 ws s) =
                   obind (fun s1 => apply_elems a i 0 vs s1) (apply_elems a j 0 ws s)).
      { destruct (apply_elems a j 0 ws s); simpl; [rewrite apply_line_target, Ex|]; reflexivity. }
      assert (E2 : obind (apply_line a y) (apply_elems a i 0 vs s) =
                   obind (fun s1 => apply_elems a j 0 ws s1) (apply_elems a i 0 vs s)).
      { destruct (apply_elems a i 0 vs s); simpl; [rewrite apply_line_target, Ey|]; reflexivity. }
      rewrite E1, E2. symmetry. exact C.
    - simpl. destruct (apply_elems a i 0 vs s); simpl; [rewrite apply_line_target, Ey|]; reflexivity.
    - simpl. destruct (apply_elems a j 0 ws s); simpl; [rewrite apply_line_target, Ex|]; reflexivity.
    - reflexivity.
  Qed.
End Lines2.
