(* C12 / C13 - `declared a apropos` (Save/PermApp.v) as a computation, so that the
   tie can evaluate it for the lookup of the generated application's port tree
   (TopoTree.apropos_of_tree): every selector of a port and every switch of a
   pointer sub-tree above it is named by an entry of "enabled by" / "depends" /
   "default depends" of the port or of one of its parents, as the lookup
   returns them.  No proofs in this file (soundness: Save/DeclProofs.v). *)
From Coq Require Import List ZArith Bool.
From RtoscV Require Import Save.TopoModel Save.SaveModel.
Import ListNotations.

Definition names_it (apropos : str -> option pmeta) (target : str) (ic : bool * str) : bool :=
  match apropos (if fst ic then snd ic ++ [slash] else snd ic) with
  | Some m => existsb (fun e => match resolve_entry (fst ic) (port_name m) e (snd ic) with
                                | Some t => str_eqb t target
                                | None => false
                                end) (dep_values m)
  | None => false
  end.

(* the ports j has to wait for (must_precede a i j) *)
Definition waits_for (a : app) (j : nat) : list nat :=
  (match p_sel (port_at a j) with Some s => [s] | None => [] end) ++ p_hard (port_at a j).

Definition declared_for (a : app) (apropos : str -> option pmeta) (j : nat) : bool :=
  forallb (fun i => existsb (names_it apropos (p_path (port_at a i)))
                            (flagged (ancestors (p_path (port_at a j)))))
          (waits_for a j).

Definition declared_b (a : app) (apropos : str -> option pmeta) : bool :=
  forallb (declared_for a apropos) (seq 0 (length a)).
