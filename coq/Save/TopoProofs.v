(* C13 - proofs about the load order (model: TopoModel.v) *)
From Coq Require Import List ZArith Bool Lia Permutation Arith.
From RtoscV Require Import Save.TopoModel.
Import ListNotations.

(* ---- any two orders that respect the dependencies give the same result ---- *)
Section LinExt.
  Variables (X S : Type) (R : X -> X -> Prop) (f : X -> S -> S).
  (* messages that do not depend on each other commute *)
  Hypothesis commute : forall x y s, ~ R x y -> ~ R y x -> f x (f y s) = f y (f x s).

  Definition run (l : list X) (s : S) : S := fold_left (fun s x => f x s) l s.

  Lemma respects_remove : forall pre a post,
    respects R (pre ++ a :: post) -> respects R (pre ++ post).
  Proof.
    induction pre as [|p pre IH]; intros a post H; simpl in *.
    - tauto.
    - destruct H as [H1 H2]. split.
      + intros y Hy. apply H1. apply in_app_or in Hy. apply in_or_app.
        destruct Hy as [Hy|Hy]; [left; assumption | right; right; assumption].
      + eapply IH; eassumption.
  Qed.

  Lemma respects_before : forall pre a post p,
    respects R (pre ++ a :: post) -> In p pre -> ~ R a p.
  Proof.
    induction pre as [|q pre IH]; intros a post p H Hp; simpl in *.
    - contradiction.
    - destruct H as [H1 H2]. destruct Hp as [Hp|Hp].
      + subst q. apply H1. apply in_or_app. right. left. reflexivity.
      + eapply IH; eassumption.
  Qed.

  Lemma move_front : forall pre a post s,
    (forall p, In p pre -> ~ R a p /\ ~ R p a) ->
    run (pre ++ a :: post) s = run (a :: pre ++ post) s.
  Proof.
    induction pre as [|p pre IH]; intros a post s H.
    - reflexivity.
    - simpl. rewrite IH by (intros q Hq; apply H; right; assumption).
      simpl. destruct (H p (or_introl eq_refl)) as [Hap Hpa].
      rewrite (commute a p s Hap Hpa). reflexivity.
  Qed.

  Theorem linext_unique : forall l1 l2,
    NoDup l1 -> Permutation l1 l2 -> respects R l1 -> respects R l2 ->
    forall s, run l1 s = run l2 s.
  Proof.
    induction l1 as [|a l1 IH]; intros l2 Hnd Hp H1 H2 s.
    - apply Permutation_nil in Hp. subst l2. reflexivity.
    - assert (Ha : In a l2) by (eapply Permutation_in; [exact Hp | left; reflexivity]).
      apply in_split in Ha. destruct Ha as [pre [post Hl2]]. subst l2.
      assert (Hnd2 : NoDup (pre ++ a :: post)) by (eapply Permutation_NoDup; eassumption).
      rewrite move_front.
      + simpl. apply IH.
        * inversion Hnd; assumption.
        * eapply Permutation_cons_app_inv; eassumption.
        * simpl in H1. tauto.
        * eapply respects_remove; eassumption.
      + intros p Hpin. split.
        * eapply respects_before; eassumption.
        * simpl in H1. destruct H1 as [H1 _]. apply H1.
          assert (Hin : In p (a :: l1)).
          { eapply Permutation_in; [apply Permutation_sym; exact Hp|].
            apply in_or_app. left. assumption. }
          destruct Hin as [Hin|Hin]; [|assumption].
          subst p. exfalso.
          apply NoDup_remove_2 in Hnd2. apply Hnd2. apply in_or_app. left. assumption.
  Qed.
End LinExt.

(* ---- the sort as coded, on the edges scan_deps produces --------------------- *)
From RtoscV Require Import Save.KahnProofs.

Lemma respects_ext : forall X (R R' : X -> X -> Prop) l,
  (forall x y, R x y -> R' x y) -> respects R' l -> respects R l.
Proof.
  induction l as [|x l IH]; intros H Hr; simpl in *; [exact I|].
  destruct Hr as [H1 H2]. split; [|apply IH; assumption].
  intros y Hy Hc. apply (H1 y Hy). apply H. assumption.
Qed.

Lemma dependees_in : forall ps m d, In d (dependees ps m) <-> In (m, d) ps.
Proof.
  intros ps m d. unfold dependees. rewrite in_map_iff. split.
  - intros [[i o] [Ho Hin]]. simpl in Ho. subst o. apply filter_In in Hin. destruct Hin as [Hin He].
    simpl in He. apply Nat.eqb_eq in He. subst i. assumption.
  - intros H. exists (m, d). split; [reflexivity|]. apply filter_In. split; [assumption|].
    simpl. apply Nat.eqb_refl.
Qed.

Section Pushes.
  Variable A : Type.
  Variable apropos : str -> option pmeta.
  Variable fuel : nat.

  Lemma index_of_lt : forall p (ms : list (message A)) i, index_of A p ms = Some i -> (i < length ms)%nat.
  Proof.
    induction ms as [|m ms IH]; intros i H; simpl in H; [discriminate|].
    destruct (str_eqb p (fst m)).
    - inversion H; subst. simpl. lia.
    - destruct (index_of A p ms) as [j|] eqn:E; [|discriminate]. inversion H; subst.
      simpl. specialize (IH j eq_refl). lia.
  Qed.

  Definition in_range (ms : list (message A)) (l : list (nat * nat)) : Prop :=
    forall e, In e l -> (fst e < length ms)%nat /\ (snd e < length ms)%nat.

  Lemma pushes_in_range : forall ms ps, pushes A apropos fuel ms = Some ps -> in_range ms ps.
  Proof.
    intros ms ps. unfold pushes.
    set (F := fun (acc : option (list (nat * nat))) (k : str) =>
                match acc, scan_deps apropos (map_keys A ms) fuel k k, index_of A k ms with
                | Some l, Some ds, Some o =>
                    Some (l ++ flat_map (fun d => match index_of A d ms with
                                                  | Some i => [(i, o)]
                                                  | None => []
                                                  end) ds)
                | _, _, _ => None
                end).
    assert (Hnone : forall ks, fold_left F ks None = None).
    { induction ks as [|k ks IH]; simpl; [reflexivity | assumption]. }
    assert (Hgen : forall ks acc, (forall l, acc = Some l -> in_range ms l) ->
                                  forall r, fold_left F ks acc = Some r -> in_range ms r).
    { induction ks as [|k ks IH]; intros acc Hacc r Hr; simpl in Hr.
      - apply Hacc. assumption.
      - apply (IH (F acc k)); [|assumption].
        intros l Hl. unfold F in Hl.
        destruct acc as [l0|]; [|discriminate].
        destruct (scan_deps apropos (map_keys A ms) fuel k k) as [ds|]; [|discriminate].
        destruct (index_of A k ms) as [o|] eqn:Eo; [|discriminate].
        inversion Hl; subst. intros e He. apply in_app_or in He. destruct He as [He|He].
        + apply (Hacc l0 eq_refl). assumption.
        + apply in_flat_map in He. destruct He as [d [_ He]].
          destruct (index_of A d ms) as [i|] eqn:Ei; [|contradiction].
          destruct He as [He|[]]. subst e. simpl.
          split; [eapply index_of_lt; eassumption | eapply index_of_lt; eassumption]. }
    intros H. apply (Hgen (map_keys A ms) (Some [])); [|exact H].
    intros l Hl. inversion Hl; subst. intros e [].
  Qed.

  (* C13_topo *)
  Theorem load_order_topo : forall (ms : list (message A)) ps,
    pushes A apropos fuel ms = Some ps -> ranked ps ->
    exists order, load_order apropos fuel ms = Some order /\
                  Permutation order (seq 0 (length ms)) /\
                  respects (edge ps) order.
  Proof.
    intros ms ps Hp [rank Hrank]. unfold load_order. rewrite Hp.
    pose proof (pushes_in_range ms ps Hp) as Hin.
    destruct (kahn_correct (length ms) (dependees ps)) as (order & Hk & Hperm & Hresp).
    - intros m d Hd. apply dependees_in in Hd. apply (Hin (m, d) Hd).
    - exists rank. intros m d _ Hd. apply dependees_in in Hd. apply Hrank. assumption.
    - exists order. split; [assumption|]. split; [assumption|].
      eapply respects_ext; [|exact Hresp].
      intros x y H. unfold waits. apply dependees_in. exact H.
  Qed.

  (* the fuel of the sort (the number of messages) never runs out, whatever the edges *)
End Pushes.

(* ---- permuting the lines: same state, same count ------------------------------ *)
Section PermInvariant.
  Variables (L S : Type) (R : L -> L -> Prop) (apply : L -> S -> S).
  Hypothesis commute : forall x y s, ~ R x y -> ~ R y x -> apply x (apply y s) = apply y (apply x s).

  (* two files with the same lines, each handed out in an order that is a
     permutation of the file respecting the dependencies *)
  Theorem perm_invariant : forall f1 f2 s1 s2,
    NoDup f1 -> Permutation f1 f2 ->
    Permutation s1 f1 -> respects R s1 ->
    Permutation s2 f2 -> respects R s2 ->
    forall st, run L S apply s1 st = run L S apply s2 st /\ length s1 = length s2.
  Proof.
    intros f1 f2 s1 s2 Hnd Hp Hp1 Hr1 Hp2 Hr2 st.
    assert (Hp12 : Permutation s1 s2).
    { eapply Permutation_trans; [exact Hp1|]. eapply Permutation_trans; [exact Hp|].
      apply Permutation_sym. exact Hp2. }
    split.
    - apply (linext_unique L S R apply commute); try assumption.
      eapply Permutation_NoDup; [apply Permutation_sym; exact Hp1 | exact Hnd].
    - apply Permutation_length. assumption.
  Qed.
End PermInvariant.
