(* C13 - proofs about the load order (model: TopoModel.v) *)
From Coq Require Import List ZArith Bool Lia Permutation Arith.
From RtoscV Require Import Save.TopoModel.
Import ListNotations.

(* ---- any two orders that respect the dependencies give the same result ---- *)
Section LinExt.
  Variables (X S : Type) (R : X -> X -> Prop) (f : X -> S -> S).
  (* messages that do not depend on each other commute *)
  Hypothesis commute : forall x y s, ~ R x y -> ~ R y x -> f x (f y s) = f y (f x s).

  Definition run (l : list X) (s : S) : S := fold_left (fun s x => f x s) l s.

  Lemma respects_remove : forall pre a post,
    respects R (pre ++ a :: post) -> respects R (pre ++ post).
  Proof.
    induction pre as [|p pre IH]; intros a post H; simpl in *.
    - tauto.
    - destruct H as [H1 H2]. split.
      + intros y Hy. apply H1. apply in_app_or in Hy. apply in_or_app.
        destruct Hy as [Hy|Hy]; [left; assumption | right; right; assumption].
      + eapply IH; eassumption.
  Qed.

  Lemma respects_before : forall pre a post p,
    respects R (pre ++ a :: post) -> In p pre -> ~ R a p.
  Proof.
    induction pre as [|q pre IH]; intros a post p H Hp; simpl in *.
    - contradiction.
    - destruct H as [H1 H2]. destruct Hp as [Hp|Hp].
      + subst q. apply H1. apply in_or_app. right. left. reflexivity.
      + eapply IH; eassumption.
  Qed.

  Lemma move_front : forall pre a post s,
    (forall p, In p pre -> ~ R a p /\ ~ R p a) ->
    run (pre ++ a :: post) s = run (a :: pre ++ post) s.
  Proof.
    induction pre as [|p pre IH]; intros a post s H.
    - reflexivity.
    - simpl. rewrite IH by (intros q Hq; apply H; right; assumption).
      simpl. destruct (H p (or_introl eq_refl)) as [Hap Hpa].
      rewrite (commute a p s Hap Hpa). reflexivity.
  Qed.

  Theorem linext_unique : forall l1 l2,
    NoDup l1 -> Permutation l1 l2 -> respects R l1 -> respects R l2 ->
    forall s, run l1 s = run l2 s.
  Proof.
    induction l1 as [|a l1 IH]; intros l2 Hnd Hp H1 H2 s.
    - apply Permutation_nil in Hp. subst l2. reflexivity.
    - assert (Ha : In a l2) by (eapply Permutation_in; [exact Hp | left; reflexivity]).
      apply in_split in Ha. destruct Ha as [pre [post Hl2]]. subst l2.
      assert (Hnd2 : NoDup (pre ++ a :: post)) by (eapply Permutation_NoDup; eassumption).
      rewrite move_front.
      + simpl. apply IH.
        * inversion Hnd; assumption.
        * eapply Permutation_cons_app_inv; eassumption.
        * simpl in H1. tauto.
        * eapply respects_remove; eassumption.
      + intros p Hpin. split.
        * eapply respects_before; eassumption.
        * simpl in H1. destruct H1 as [H1 _]. apply H1.
          assert (Hin : In p (a :: l1)).
          { eapply Permutation_in; [apply Permutation_sym; exact Hp|].
            apply in_or_app. left. assumption. }
          destruct Hin as [Hin|Hin]; [|assumption].
          subst p. exfalso.
          apply NoDup_remove_2 in Hnd2. apply Hnd2. apply in_or_app. left. assumption.
  Qed.
End LinExt.
