(* C12 - regression witness (D30): port_is_enabled calls the walker for a
   switched-off "enabled by" port with
       loc_copy = loc ++ ("../" only when relative_to_parent) ++ enable_port
       old_end  = the place in loc_copy where the port's name relative to the
                  walked table starts.
   Before fix efb3212 old_end was loc_copy + strlen(loc) + 3 in both cases; for
   the rSelf form (relative_to_parent = false, no "../") it pointed three bytes
   into the name - or behind the string, which get_changed_values then copied
   from (ASan stack-buffer-overflow in map_arg_vals).
   An offset behind the end is representable: None. *)
From Coq Require Import List ZArith Bool Lia.
From RtoscV Require Import Save.TopoModel.
Import ListNotations.
Local Open Scope Z_scope.

Definition dotdot : str := [46; 46; 47].                      (* "../" *)
Definition loc_copy (relative_to_parent : bool) (loc enable_port : str) : str :=
  loc ++ (if relative_to_parent then dotdot else []) ++ enable_port.

(* the string a pointer [off] bytes into [s] denotes; None behind the terminator *)
Definition at_offset (s : str) (off : nat) : option str :=
  if (off <=? length s)%nat then Some (skipn off s) else None.

Definition old_end_before_fix (rel : bool) (loc en : str) : option str :=
  at_offset (loc_copy rel loc en) (length loc + 3).
Definition old_end (rel : bool) (loc en : str) : option str :=
  at_offset (loc_copy rel loc en) (length loc + (if rel then 3 else 0)).

(* after the fix the walker is told the enabling port's own name in both forms
   (Ports::collapsePath leaves the tail of loc_copy in place) *)
Theorem old_end_is_the_port_name : forall rel loc en, old_end rel loc en = Some en.
Proof.
  intros rel loc en. unfold old_end, at_offset, loc_copy.
  destruct rel; cbv iota.
  - assert (L : (length loc + 3 <=? length (loc ++ dotdot ++ en))%nat = true).
    { apply Nat.leb_le. rewrite !app_length. simpl. lia. }
    rewrite L. f_equal.
    replace (loc ++ dotdot ++ en) with ((loc ++ dotdot) ++ en) by (rewrite app_assoc; reflexivity).
    rewrite skipn_app.
    replace (length loc + 3)%nat with (length (loc ++ dotdot)) by (rewrite app_length; reflexivity).
    rewrite skipn_all, Nat.sub_diag. reflexivity.
  - rewrite Nat.add_0_r. change ([] ++ en) with en.
    assert (L : (length loc <=? length (loc ++ en))%nat = true).
    { apply Nat.leb_le. rewrite app_length. lia. }
    rewrite L. f_equal. rewrite skipn_app, skipn_all, Nat.sub_diag. reflexivity.
Qed.

(* before: right for the parent-relative form, wrong for rSelf *)
Theorem rself_walker_offset_before_fix_refuted :
  (forall loc en, old_end_before_fix true loc en = Some en) /\
  (* "/q/" ++ "level": the walker was given "el" *)
  old_end_before_fix false [47; 113; 47] [108; 101; 118; 101; 108] = Some [101; 108] /\
  (* "/q/" ++ "on": the pointer is behind the terminator *)
  old_end_before_fix false [47; 113; 47] [111; 110] = None.
Proof.
  split; [|split; reflexivity].
  intros loc en. exact (old_end_is_the_port_name true loc en).
Qed.
