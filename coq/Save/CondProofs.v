(* C12 / C13 - the decidable side conditions of Save/CondModel.v are sound. *)
From Coq Require Import List ZArith Bool Arith Lia.
From RtoscV Require Import Save.TopoModel Save.SaveModel Save.SaveProofs Save.RoundProofs Save.RoundFull Save.CondModel.
Import ListNotations.

Lemma all_idx_spec : forall n f, all_idx n f = true -> forall i, (i < n)%nat -> f i = true.
Proof.
  intros n f H i Hi. unfold all_idx in H. rewrite forallb_forall in H. apply H. apply in_seq. lia.
Qed.

Lemma nodup_b_sound : forall l, nodup_b l = true -> NoDup l.
Proof.
  induction l as [|x r IH]; intros H; [constructor|]. cbn [nodup_b] in H.
  apply andb_true_iff in H as [H1 H2]. constructor; [|exact (IH H2)].
  intros Hin. apply negb_true_iff in H1.
  assert (E : existsb (str_eqb x) r = true) by (apply existsb_exists; exists x; split; [exact Hin | apply str_eqb_eq; reflexivity]).
  congruence.
Qed.

Lemma natlist_eqb_eq : forall a b, natlist_eqb a b = true -> a = b.
Proof.
  induction a as [|x a IH]; destruct b as [|y b]; cbn; intros H; try discriminate; [reflexivity|].
  apply andb_true_iff in H as [H1 H2]. apply Nat.eqb_eq in H1. subst. f_equal. exact (IH _ H2).
Qed.

Lemma incl_b_sound : forall l1 l2, incl_b l1 l2 = true -> incl l1 l2.
Proof.
  intros l1 l2 H x Hx. unfold incl_b in H. rewrite forallb_forall in H. apply mem_nat_in. exact (H x Hx).
Qed.

Lemma is_none_eq : forall A (o : option A), is_none o = true -> o = None.
Proof. intros A [x|]; [discriminate | reflexivity]. Qed.

Lemma lookup_table_in : forall t k d, lookup_table t k = Some d -> exists k', In (k', d) t.
Proof.
  induction t as [|[k' v] r IH]; intros k d H; [discriminate|]. cbn [lookup_table] in H.
  destruct (Z.eqb k' k).
  - inversion H; subst. exists k'. left. reflexivity.
  - destruct (IH _ _ H) as [k2 Hk]. exists k2. right. exact Hk.
Qed.

Theorem wf_app_b_sound : forall a, wf_app_b a = true -> wf_app a.
Proof.
  intros a H. unfold wf_app_b in H.
  apply andb_true_iff in H as [H H5]. apply andb_true_iff in H as [H H4]. apply andb_true_iff in H as [H H3].
  apply andb_true_iff in H as [H1 H2].
  constructor.
  - exact (nodup_b_sound _ H1).
  - intros i s Hi Hs. pose proof (all_idx_spec _ _ H2 i Hi) as Hx. cbv beta in Hx. rewrite Hs in Hx.
    apply andb_true_iff in Hx as [Hx Hc]. apply andb_true_iff in Hx as [Ha Hb].
    split; [apply Nat.ltb_lt; exact Ha|]. split; [exact (is_none_eq _ _ Hb) | now apply negb_true_iff in Hc].
  - intros q s Hq Hs. pose proof (all_idx_spec _ _ H3 q Hq) as Hx. cbv beta in Hx. rewrite Hs in Hx.
    apply andb_true_iff in Hx as [Hx Hc]. apply andb_true_iff in Hx as [Ha Hb].
    split; [exact (natlist_eqb_eq _ _ Ha)|]. split; [exact (natlist_eqb_eq _ _ Hb) | now apply negb_true_iff in Hc].
  - intros q g Hq Hg. pose proof (all_idx_spec _ _ H4 q Hq) as Hx. cbv beta in Hx.
    rewrite forallb_forall in Hx. specialize (Hx g Hg).
    apply andb_true_iff in Hx as [Hx G7]. apply andb_true_iff in Hx as [Hx G6]. apply andb_true_iff in Hx as [Hx G5].
    apply andb_true_iff in Hx as [Hx G4]. apply andb_true_iff in Hx as [Hx G3]. apply andb_true_iff in Hx as [G1 G2].
    split; [apply Nat.ltb_lt; exact G1|]. split; [exact (is_none_eq _ _ G2)|].
    split; [now apply negb_true_iff in G3|]. split; [now apply negb_true_iff in G4|].
    split; [exact (incl_b_sound _ _ G5)|]. split; [exact (incl_b_sound _ _ G6)|].
    intros Hin. apply mem_nat_in in Hin. apply negb_true_iff in G7. congruence.
  - intros i Hi. pose proof (all_idx_spec _ _ H5 i Hi) as Hx. cbv beta zeta in Hx.
    apply andb_true_iff in Hx as [Hx S3]. apply andb_true_iff in Hx as [S1 S2].
    split; [apply Nat.ltb_lt; exact S1|].
    split.
    { intros Harr. rewrite Harr in S2. cbn [orb] in S2. now apply Nat.eqb_eq in S2. }
    destruct (p_nodef (port_at a i)) eqn:End.
    + split; [intros Hd; discriminate|]. intros _. apply andb_true_iff in S3 as [S3 S4].
      split; [now apply Nat.eqb_eq in S3 | exact (is_none_eq _ _ S4)].
    + split; [|intros Hd; discriminate]. intros _ selv.
      apply andb_true_iff in S3 as [Sd St]. apply Nat.eqb_eq in Sd. rewrite forallb_forall in St.
      unfold default_with. destruct selv as [v|]; [|exact Sd].
      destruct (sel_key v) as [k|]; [|exact Sd].
      destruct (lookup_table (p_table (port_at a i)) k) as [d|] eqn:El; [|exact Sd].
      destruct (lookup_table_in _ _ _ El) as [k' Hk]. specialize (St _ Hk). now apply Nat.eqb_eq in St.
Qed.

Lemma scalar_eqb_eq : forall x y, scalar_eqb x y = true -> x = y.
Proof.
  intros [a|a|a|a|a|a] [b|b|b|b|b|b]; cbn; intros H; try discriminate.
  - apply Z.eqb_eq in H. now subst.
  - apply Z.eqb_eq in H. now subst.
  - apply Z.eqb_eq in H. now subst.
  - apply Bool.eqb_prop in H. now subst.
  - apply str_eqb_eq in H. now subst.
  - apply str_eqb_eq in H. now subst.
Qed.

Theorem full_conditions_b_sound : forall a st, full_conditions_b a st = true -> full_conditions a st.
Proof.
  intros a st H. unfold full_conditions_b in H.
  apply andb_true_iff in H as [H H4]. apply andb_true_iff in H as [H H3]. apply andb_true_iff in H as [H1 H2].
  split; [exact (wf_app_b_sound a H1)|]. split; [now apply Nat.eqb_eq in H2|].
  split.
  - intros i Hi. pose proof (all_idx_spec _ _ H3 i Hi) as Hx. cbv beta in Hx. now apply Nat.eqb_eq in Hx.
  - intros i x Hi Hx. change (saved a st) with (saved_idx a st) in Hi. unfold stable_b in H4. rewrite forallb_forall in H4. specialize (H4 i Hi).
    rewrite forallb_forall in H4. specialize (H4 x Hx).
    destruct (store (port_at a i) (shown (port_at a i) x)) as [y|]; [|discriminate].
    apply scalar_eqb_eq in H4. now subst.
Qed.

Theorem ranked_b_sound : forall ps, ranked_b ps = true -> ranked ps.
Proof.
  intros ps H. exists (ranking ps). intros d p Hin. unfold ranked_b in H. rewrite forallb_forall in H.
  specialize (H (d, p) Hin). cbn [fst snd] in H. now apply Nat.ltb_lt in H.
Qed.

(* the relaxation does find a ranking for a chain and a diamond; it does not for a cycle *)
Example ranked_b_examples :
  ranked_b [(0, 1); (1, 2); (0, 2); (3, 1)]%nat = true /\ ranked_b [(2, 1); (1, 0); (3, 2)]%nat = true /\
  ranked_b [(0, 1); (1, 0)]%nat = false.
Proof. repeat split; vm_compute; reflexivity. Qed.
