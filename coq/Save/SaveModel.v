(* C12 - abstract application and its savefile pipeline
     get_changed_values / save_to_file      src/cpp/savefile.cpp:111-438, 823-849
     dispatch_printed_messages              src/cpp/savefile.cpp:522-821
     load_from_file                         src/cpp/savefile.cpp:851-901
     get_default_value                      src/cpp/default-value.cpp:34-121
   No proofs in this file.

   An application is the flat list of its parameter ports (one entry per
   address the walk reaches; "name#N" leaf arrays are one port holding N
   elements, the elements of an enumerated sub-tree "sub#N/" are N separate
   sub-trees).  What the other properties own enters as data:
     * the walk (C09) gives the list of ports and, per port, the toggles that
       must be on for the walk to reach it (p_hard ++ p_soft);
     * dispatch (C04) delivers a message to the port with that address;
       through a pointer sub-tree only while its object exists (p_hard);
     * the callbacks (C14) store clamp(value);
     * printing / scanning (C10/C11) turn a list of lines into text and back:
       here a savefile body already is a list of scanned items, each with the
       number of bytes the scanner consumed.                                 *)
From Coq Require Import List ZArith Bool.
From RtoscV Require Ports.SugarModel.
From RtoscV Require Import Save.TopoModel.
Import ListNotations.
Local Open Scope Z_scope.

(* ---- values -------------------------------------------------------------- *)
Inductive scalar :=
| VI (z : Z)            (* 'i' *)
| VC (z : Z)            (* 'c' *)
| VF (bits : Z)         (* 'f', IEEE single bit pattern *)
| VT (b : bool)         (* 'T' / 'F' *)
| VS (s : str)          (* 's' *)
| VSym (s : str).       (* 'S' *)
Definition value := list scalar.      (* one scalar, or one per array element *)

Definition scalar_eqb (a b : scalar) : bool :=
  match a, b with
  | VI x, VI y | VC x, VC y | VF x, VF y => x =? y
  | VT x, VT y => Bool.eqb x y
  | VS x, VS y | VSym x, VSym y => str_eqb x y
  | _, _ => false
  end.
Fixpoint value_eqb (a b : value) : bool :=
  match a, b with
  | [], [] => true
  | x :: a', y :: b' => scalar_eqb x y && value_eqb a' b'
  | _, _ => false
  end.

(* ---- ports --------------------------------------------------------------- *)
Inductive skind :=
| KC            (* rParam: char field, 'c' *)
| KI            (* rParamI *)
| KB            (* element of rArrayI: char-sized variable, 'i' *)
| KF            (* rParamF / rArrayF *)
| KT            (* rToggle / rArrayT *)
| KO            (* rOption / rArrayOption *)
| KS (cap : nat). (* rString(name, cap) *)

Record port := {
  p_path : str;                   (* address; for an array the part in front of the index *)
  p_kind : skind;
  p_array : bool;                 (* "name#N" *)
  p_len : nat;                    (* N (1 for a scalar port) *)
  p_min : option Z;               (* converted bounds (floats: bit patterns) *)
  p_max : option Z;
  p_opts : list (Z * str);        (* "map N" entries in order *)
  p_default : value;              (* "default" *)
  p_sel : option nat;             (* "default depends": index of the selector port *)
  p_table : list (Z * value);     (* "default N" entries *)
  p_hard : list nat;              (* toggles whose pointer sub-trees contain the port *)
  p_soft : list nat;              (* further toggles the walk asks ("enabled by" on embedded sub-trees) *)
  p_nodef : bool;                 (* no "default" at all: get_default_value gives -1, the port is never saved *)
  p_init : value                  (* what a new instance holds then *)
}.
Definition app := list port.
Definition state := list value.   (* per port, in the order of the application *)

Definition dummy_port : port :=
  {| p_path := []; p_kind := KI; p_array := false; p_len := 1%nat; p_min := None; p_max := None;
     p_opts := []; p_default := []; p_sel := None; p_table := []; p_hard := []; p_soft := []; p_nodef := false; p_init := [] |}.
Definition port_at (a : app) (i : nat) : port := nth i a dummy_port.
Definition val_at (st : state) (i : nat) : value := nth i st [].

Fixpoint upd {A} (l : list A) (n : nat) (v : A) : list A :=
  match l, n with
  | [], _ => []
  | _ :: t, O => v :: t
  | h :: t, S m => h :: upd t m v
  end.

(* ---- the callbacks: stored value for an incoming one (C14) --------------- *)
Definition zkey (x : Z) : Z := x.
Definition omap {A B} (f : A -> B) (o : option A) : option B :=
  match o with Some x => Some (f x) | None => None end.

Fixpoint enum_key (mp : list (Z * str)) (s : str) : Z :=
  match mp with
  | [] => -2147483648
  | (k, v) :: t => if str_eqb v s then k else enum_key t s
  end.

Fixpoint take_str (n : nat) (s : str) : str :=
  match n, s with
  | S m, c :: t => c :: take_str m t
  | _, _ => []
  end.

(* None: the port's argument specification does not accept the value *)
Definition store (p : port) (v : scalar) : option scalar :=
  match p_kind p, v with
  | KC, VC z => Some (VC (SugarModel.clampK zkey (omap SugarModel.wrap8 (p_min p))
                                           (omap SugarModel.wrap8 (p_max p)) (SugarModel.wrap8 z)))
  | KI, VI z => Some (VI (SugarModel.clampK zkey (p_min p) (p_max p) z))
  | KB, VI z => Some (VI (SugarModel.clampK zkey (omap SugarModel.wrap8 (p_min p))
                                           (omap SugarModel.wrap8 (p_max p)) (SugarModel.wrap8 z)))
  | KF, VF b => Some (VF (SugarModel.clampK SugarModel.fkey (p_min p) (p_max p) b))
  | KT, VT b => Some (VT b)
  | KO, VI z | KO, VC z => Some (VI (SugarModel.clampK zkey (p_min p) (p_max p) z))
  | KO, VSym s => Some (VI (enum_key (p_opts p) s))
  | KS cap, VS s => Some (VS (take_str (pred cap) s))
  | _, _ => None
  end.

(* ---- defaults (get_default_value) ---------------------------------------- *)
Fixpoint lookup_table (t : list (Z * value)) (k : Z) : option value :=
  match t with
  | [] => None
  | (k', v) :: r => if k' =? k then Some v else lookup_table r k
  end.

Definition sel_key (v : value) : option Z :=
  match v with
  | [VI z] | [VC z] => Some z
  | [VT b] => Some (if b then 1 else 0)
  | _ => None
  end.

(* "default <value of the depended-on port>" if there is such an entry, else "default" *)
Definition default_with (p : port) (selv : option value) : value :=
  match selv with
  | Some v => match sel_key v with
              | Some k => match lookup_table (p_table p) k with
                          | Some d => d
                          | None => p_default p
                          end
              | None => p_default p
              end
  | None => p_default p
  end.

Definition default_of (a : app) (st : state) (i : nat) : value :=
  let p := port_at a i in
  default_with p (omap (val_at st) (p_sel p)).

(* a default-initialised instance: the selector holds its own plain default *)
Definition initial_of (a : app) (i : nat) : value :=
  let p := port_at a i in
  if p_nodef p then p_init p
  else default_with p (omap (fun s => p_default (port_at a s)) (p_sel p)).
Definition initial (a : app) : state := map (initial_of a) (seq 0 (length a)).

(* ---- which ports exist / are reached by the walk ------------------------- *)
Definition is_on (v : value) : bool :=
  match v with
  | [VT b] => b
  | [VI z] => negb (z =? 0)
  | _ => false
  end.
Definition all_on (st : state) (gs : list nat) : bool := forallb (fun g => is_on (val_at st g)) gs.
Definition exists_ (a : app) (st : state) (i : nat) : bool := all_on st (p_hard (port_at a i)).
Definition live (a : app) (st : state) (i : nat) : bool :=
  exists_ a st i && all_on st (p_soft (port_at a i)).

(* ---- one parameter message ----------------------------------------------- *)
Definition mem_nat (x : nat) (l : list nat) : bool := existsb (Nat.eqb x) l.

(* rChangeCb of a preset selector: every port that declares it re-initialises *)
Definition reset_dependents (a : app) (s : nat) (st : state) : state :=
  map (fun j => match p_sel (port_at a j) with
                | Some s' => if Nat.eqb s' s then default_of a st j else val_at st j
                | None => val_at st j
                end) (seq 0 (length a)).

(* rChangeCb of the toggle of a pointer sub-tree, switched on: a new,
   default-initialised object *)
Definition allocate (a : app) (g : nat) (st : state) : state :=
  map (fun j => if mem_nat g (p_hard (port_at a j)) then initial_of a j else val_at st j)
      (seq 0 (length a)).

Definition is_selector (a : app) (i : nat) : bool :=
  existsb (fun p => match p_sel p with Some s => Nat.eqb s i | None => false end) a.
Definition is_enabler (a : app) (i : nat) : bool :=
  existsb (fun p => mem_nat i (p_hard p)) a.

(* message to element k of port i (k = 0 for a scalar port).
   None: no port accepts it (dispatch reports no match) *)
Definition set_elem (a : app) (st : state) (i k : nat) (v : scalar) : option state :=
  let p := port_at a i in
  if (k <? p_len p)%nat then
    match store p v with
    | None => None
    | Some v' =>
        if exists_ a st i then
          let old := val_at st i in
          let st1 := upd st i (upd old k v') in
          let st2 := if is_selector a i then reset_dependents a i st1 else st1 in
          let st3 := if is_enabler a i && negb (is_on old) && is_on (val_at st2 i)
                     then allocate a i st2 else st2 in
          Some st3
        else None             (* rRecurpCb returns before any leaf port is reached: no match *)
    end
  else None.

Fixpoint find_port (a : app) (path : str) : option nat :=
  match a with
  | [] => None
  | p :: t => if str_eqb (p_path p) path then Some O
              else match find_port t path with Some i => Some (S i) | None => None end
  end.

(* ---- saving --------------------------------------------------------------- *)
(* how the stored value is shown in a line: options by their symbol when the
   number has a "map" entry (map_arg_vals) *)
Fixpoint sym_of (mp : list (Z * str)) (k : Z) : option str :=
  match mp with
  | [] => None
  | (k', s) :: t => if k' =? k then Some s else sym_of t k
  end.
Definition shown (p : port) (v : scalar) : scalar :=
  match p_kind p, v with
  | KO, VI z => match sym_of (p_opts p) z with Some s => VSym s | None => VI z end
  | _, _ => v
  end.

(* rtosc_arg_vals_eq on two floats: C's == (so -0.0 equals 0.0) *)
Definition same_scalar (x y : scalar) : bool :=
  match x, y with
  | VF a, VF b => negb (SugarModel.fneqb a b)
  | _, _ => scalar_eqb x y
  end.
Fixpoint same_value (a b : value) : bool :=
  match a, b with
  | [], [] => true
  | x :: a', y :: b' => same_scalar x y && same_value a' b'
  | _, _ => false
  end.

(* first_equal_index: an array line stops behind the last element that differs *)
Fixpoint trim (cur dfl : value) : value :=
  match cur, dfl with
  | x :: c', y :: d' =>
      match trim c' d' with
      | [] => if same_scalar x y then [] else [x]
      | r => x :: r
      end
  | _, _ => cur
  end.

Record line := { l_path : str; l_array : bool; l_vals : value }.

Definition line_of (a : app) (st : state) (i : nat) : list line :=
  let p := port_at a i in
  let cur := val_at st i in
  let dfl := default_of a st i in
  if negb (p_nodef p) && live a st i && negb (same_value cur dfl) then
    [{| l_path := p_path p; l_array := p_array p;
        (* map_arg_vals comes first: an element shown by its symbol never
           compares equal to the (numeric) default *)
        l_vals := if p_array p then trim (map (shown p) cur) dfl else map (shown p) cur |}]
  else [].

Definition save_lines (a : app) (st : state) : list line :=
  flat_map (line_of a st) (seq 0 (length a)).

(* ---- loading --------------------------------------------------------------- *)
(* a scanned body item: a message with the bytes the scanner consumed, or text
   rtosc_count_printed_arg_vals_of_msg rejects *)
Inductive item := Msg (l : line) (rd : Z) | Junk.

(* the first loop of dispatch_printed_messages: messages up to the first
   rejected text; (messages, rd_total, ok) *)
Fixpoint scan_items (its : list item) : list line * Z * bool :=
  match its with
  | [] => ([], 0, true)
  | Junk :: _ => ([], 0, false)
  | Msg l rd :: t => let '(ls, tot, ok) := scan_items t in (l :: ls, rd + tot, ok)
  end.

(* the messages of one line: an array line is sent element by element *)
Fixpoint apply_elems (a : app) (i : nat) (k : nat) (vs : value) (st : state) : option state :=
  match vs with
  | [] => Some st
  | v :: r => match set_elem a st i k v with
              | Some st' => apply_elems a i (S k) r st'
              | None => None
              end
  end.

Definition apply_line (a : app) (l : line) (st : state) : option state :=
  match find_port a (l_path l) with
  | None => None
  | Some i =>
      let p := port_at a i in
      if Bool.eqb (l_array l) (p_array p) then
        match l_array l, l_vals l with
        | false, [v] => set_elem a st i 0 v
        | false, _ => None
        | true, vs => apply_elems a i 0 vs st
        end
      else None
  end.

(* what a line that is NOT accepted leaves behind: an array line is sent element by element,
   the elements in front of the first one no port accepts have been applied *)
Fixpoint apply_elems_partial (a : app) (i : nat) (k : nat) (vs : value) (st : state) : state :=
  match vs with
  | [] => st
  | v :: r => match set_elem a st i k v with
              | Some st' => apply_elems_partial a i (S k) r st'
              | None => st
              end
  end.
Definition partial_line (a : app) (l : line) (st : state) : state :=
  match find_port a (l_path l) with
  | None => st
  | Some i =>
      if Bool.eqb (l_array l) (p_array (port_at a i)) && l_array l
      then apply_elems_partial a i 0 (l_vals l) st else st
  end.

(* dispatch in the given order; stops at the first message no port accepts;
   (state, all accepted) *)
Fixpoint apply_all (a : app) (ls : list line) (st : state) : state * bool :=
  match ls with
  | [] => (st, true)
  | l :: t => match apply_line a l st with
              | Some st' => apply_all a t st'
              | None => (partial_line a l st, false)
              end
  end.

Section Load.
  Variable apropos : str -> option pmeta.
  Variable fuel : nat.

  Definition pick {A} (l : list A) (d : A) (order : list nat) : list A := map (fun i => nth i l d) order.
  Definition dummy_line : line := {| l_path := []; l_array := false; l_vals := [] |}.

  (* dispatch_printed_messages; None = the dependency scan does not end *)
  Definition dispatch_printed (a : app) (its : list item) (st : state) : option (Z * state) :=
    let '(ls, tot, ok) := scan_items its in
    if ok then
      match load_order apropos fuel (map (fun l => (l_path l, l)) ls) with
      | None => None
      | Some order =>
          let '(st', good) := apply_all a (pick ls dummy_line order) st in
          Some (if good then Z.of_nat (length ls) else - tot - 1, st')
      end
    else Some (- tot - 1, st).

  (* load_from_file: f_h1 = bytes the first sscanf consumed if the first line
     is a valid RT OSC header; f_h2 = (application name, bytes) if the second
     is "% <name> v<a>.<b>.<c>" *)
  Record file := { f_h1 : option Z; f_h2 : option (str * Z); f_items : list item }.

  Definition load_file (a : app) (appname : str) (f : file) (st : state) : option (Z * state) :=
    match f_h1 f with
    | None => Some (-1, st)
    | Some n1 =>
        match f_h2 f with
        | None => Some (- n1 - 1, st)
        | Some (name, n2) =>
            if str_eqb name appname then
              match dispatch_printed a (f_items f) st with
              | Some (r, st') => Some (if r <? 0 then r - (n1 + n2) else r, st')
              | None => None
              end
            else Some (- n1 - 1, st)
        end
    end.
End Load.

(* a parameter message as the tie sends it: address of a port, or of an
   array element (index appended); the driver resolves it to (port, element) *)
Definition send (a : app) (i k : nat) (v : scalar) (st : state) : state :=
  match set_elem a st i k v with Some st' => st' | None => st end.

(* ======================================================================== *)
(* Spec side *)
Definition differs (a : app) (st : state) (i : nat) : Prop :=
  same_value (val_at st i) (default_of a st i) = false.
