(* C12 - the walk stage for the application of a port tree:
   "the walker reports exactly the addresses of app_of_tree" - every element of every
   port, each once, in the order of the application (C09_enumerates over the names of
   the tree).  The walk of C09's model expands "name#N" leaves (expand_bundles): an
   array port of N elements is reported N times, once per element address; the save
   walk asks for one report per port and expands the elements itself. *)
From Coq Require Import List ZArith Bool Lia Arith.
From RtoscV Require Import Ports.NameModel Ports.WalkModel Ports.WalkProofs Ports.EnumProofs
     Ports.DispatchModel Ports.TreeProofs Ports.DispatchWalk Ports.NamesModel Ports.NamesOk.
From RtoscV Require Import Save.TopoModel Save.SaveModel Save.TreeApp Save.DispatchStage.
Import ListNotations.
Local Open Scope Z_scope.

(* what the walker is called with for one port of the application: (index path of the
   leaf, address) of every element *)
Definition port_reports (f : fport) : list report :=
  map (fun k => (f_id f, elem_addr (f_port f) k)) (seq 0 (p_len (f_port f))).

Lemma expand_leaf : forall nm arr,
  expand (leaf_segs nm arr) =
  map (leaf_rel nm arr) (seq 0 (match arr with Some n => n | None => 1%nat end)).
Proof.
  intros nm [n|]; cbn [leaf_segs expand leaf_rel].
  - rewrite Nat2Z.id. generalize (seq 0 n). intros l. induction l as [|k l IH]; [reflexivity|].
    simpl. simpl in IH. rewrite IH, app_nil_r. reflexivity.
  - cbn. rewrite app_nil_r. reflexivity.
Qed.

Lemma flat_map_flat_map : forall A B C (f : A -> list B) (g : B -> list C) l,
  flat_map g (flat_map f l) = flat_map (fun x => flat_map g (f x)) l.
Proof.
  induction l as [|x l IH]; [reflexivity|]. cbn [flat_map]. rewrite flat_map_app, IH. reflexivity.
Qed.

Lemma spec_flat_pt : forall p ids pre hard soft,
  spec_addrs_port ids pre (sport_of p) = flat_map port_reports (flat_pt ids pre hard soft p).
Proof.
  induction p as [nm arr d|nm enum ptr sw sub IHs] using pt_ind2; intros ids pre hard soft.
  - cbn [sport_of spec_addrs_port flat_pt flat_map]. rewrite app_nil_r. unfold port_reports.
    cbn [f_id f_port]. rewrite expand_leaf, map_map.
    change (p_len (leaf_port (pre ++ nm) arr d)) with (match arr with Some n => n | None => 1%nat end).
    apply map_ext. intros k. rewrite elem_addr_leaf. reflexivity.
  - cbn [sport_of]. rewrite spec_addrs_subtree, flat_pt_sub, flat_map_flat_map.
    apply flat_map_ext. intros x.
    generalize 0%nat. induction sub as [|q r IHr]; intros i; [reflexivity|].
    inversion IHs as [|? ? Hq Hr]; subst.
    cbn [map spec_table flat_tbl]. rewrite flat_map_app, <- (IHr Hr). f_equal. apply Hq.
Qed.

Lemma spec_flat_tbl : forall l ids pre hard soft i,
  spec_table ids pre (map sport_of l) i = flat_map port_reports (flat_tbl ids pre hard soft l i).
Proof.
  induction l as [|q r IH]; intros ids pre hard soft i; [reflexivity|].
  cbn [map spec_table flat_tbl]. rewrite flat_map_app, <- IH. f_equal. apply spec_flat_pt.
Qed.

Lemma spec_addrs_tree : forall t, spec_addrs (sports_of t) = flat_map port_reports (flat_root t).
Proof.
  intros t. unfold spec_addrs. rewrite spec_addrs_subtree. cbn [expand map flat_map app].
  rewrite app_nil_r. apply spec_flat_tbl.
Qed.

(* the ports of the application and those of the flattening carry the same addresses *)
Lemma reports_app : forall t,
  flat_map port_reports (flat_root t) =
  flat_map (fun fp => map (fun k => (f_id (fst fp), elem_addr (snd fp) k)) (seq 0 (p_len (snd fp))))
           (combine (flat_root t) (app_of_tree t)).
Proof.
  intros t. unfold app_of_tree. generalize (fpaths (flat_root t)). intros ps.
  induction (flat_root t) as [|f fs IH]; [reflexivity|].
  cbn [map combine flat_map]. rewrite IH. reflexivity.
Qed.

(* C12_walk_addresses: walk_ports over the tree (no runtime object) calls the walker with
   exactly the element addresses of app_of_tree, port by port in the application's
   order, every element once - and leaves the buffer as "/" *)
Theorem walk_addresses : forall t,
  names_ok (sports_of t) = true ->
  walk None (map render_port (sports_of t)) [] =
  WOk (flat_map (fun fp => map (fun k => (f_id (fst fp), elem_addr (snd fp) k)) (seq 0 (p_len (snd fp))))
                (combine (flat_root t) (app_of_tree t))) [47].
Proof.
  intros t H. destruct (names_ok_sound _ H) as (Hwf & _).
  rewrite (walk_enumerates _ Hwf), spec_addrs_tree, reports_app. reflexivity.
Qed.

(* the addresses alone: element k of port i, for i = 0 .. length a - 1, k = 0 .. p_len - 1 *)
Definition app_addresses (a : app) : list str :=
  flat_map (fun p => map (elem_addr p) (seq 0 (p_len p))) a.

Theorem walk_reports_app_addresses : forall t out b,
  names_ok (sports_of t) = true ->
  walk None (map render_port (sports_of t)) [] = WOk out b ->
  map snd out = app_addresses (app_of_tree t) /\ b = [47].
Proof.
  intros t out b H Hw. rewrite (walk_addresses t H) in Hw. inversion Hw; subst. split; [|reflexivity].
  unfold app_addresses.
  assert (Hlen : length (flat_root t) = length (app_of_tree t)) by (unfold app_of_tree; rewrite map_length; reflexivity).
  revert Hlen. generalize (app_of_tree t). generalize (flat_root t).
  induction l as [|f fs IH]; intros a Hlen; destruct a as [|p a]; try discriminate; [reflexivity|].
  cbn [combine flat_map]. rewrite map_app, map_map. cbn [snd fst]. f_equal. apply IH. cbn in Hlen. lia.
Qed.

(* ======================================================================== *)
(* the walk with a runtime object: pruning                                     *)
(* ======================================================================== *)
(* C09 proves the pruning step by step (C09_pruning_enumerated: each expansion of a
   sub-tree name is skipped exactly when the oracle reports a NULL object or a false
   'enabled by' for that address).  Here the steps are put together for whole trees
   whose ports carry no metadata block the walk itself reads (the 'enabled by' of a
   sub-tree port is the oracle's; the forms that make the walker report an enabling
   port - "name/toggle", rSelf - are outside). *)
Fixpoint nometa (p : sport) : Prop :=
  match p with
  | SPort _ _ m s =>
      m = None /\
      match s with
      | None => True
      | Some l => (fix all (l : list sport) : Prop := match l with [] => True | x :: r => nometa x /\ all r end) l
      end
  end.

Lemma nometa_all : forall l,
  (fix all (l : list sport) : Prop := match l with [] => True | x :: r => nometa x /\ all r end) l -> Forall nometa l.
Proof. induction l as [|x r IH]; intros H; [constructor|]. destruct H. constructor; auto. Qed.

Fixpoint spec_pruned_port (o : oracle) (ids : list nat) (prefix : str) (p : sport) {struct p} : list report :=
  match p with
  | SPort segs _ _ None => map (fun a => (ids, prefix ++ a)) (expand segs)
  | SPort segs _ _ (Some l) =>
      flat_map (fun a =>
        if pruned (Some o) (prefix ++ a) then [] else
        (fix go (l : list sport) (i : nat) : list report :=
           match l with
           | [] => []
           | q :: r => spec_pruned_port o (ids ++ [i]) (prefix ++ a) q ++ go r (S i)
           end) l 0%nat) (expand segs)
  end.

Fixpoint spec_pruned_table (o : oracle) (ids : list nat) (pre : str) (l : list sport) (i : nat) : list report :=
  match l with
  | [] => []
  | q :: r => spec_pruned_port o (ids ++ [i]) pre q ++ spec_pruned_table o ids pre r (S i)
  end.

Lemma spec_pruned_subtree : forall o ids pre sg a m l,
  spec_pruned_port o ids pre (SPort sg a m (Some l)) =
  flat_map (fun x => if pruned (Some o) (pre ++ x) then [] else spec_pruned_table o ids (pre ++ x) l 0%nat) (expand sg).
Proof.
  intros. cbn [spec_pruned_port]. apply flat_map_ext. intros x.
  destruct (pruned (Some o) (pre ++ x)); [reflexivity|].
  generalize 0%nat. induction l as [|q r IH]; intros i; [reflexivity|].
  cbn [spec_pruned_table]. rewrite <- IH. reflexivity.
Qed.

Theorem walk_pruned_wf : forall o, (forall b, o_selfoff o b = false) ->
  forall p ids buf sg a m l,
  p = SPort sg a m (Some l) -> Forall sport_wf l -> Forall nometa l -> buf <> [] ->
  walk_port (Some o) ids (render_port p) buf = WOk (spec_pruned_table o ids buf l 0%nat) buf.
Proof.
  intros o Hself. induction p as [sg0 a0 m0 s0 IHs] using sport_ind2.
  intros ids buf sg a m l E Hl Hnm Hb. inversion E; subst. clear E.
  cbn [render_port walk_port]. rewrite (norm_nonempty buf Hb), Hself.
  assert (Hloop : forall l' i out0,
            Forall sport_wf l' -> Forall nometa l' ->
            Forall (fun q => forall ids buf sg a m l, q = SPort sg a m (Some l) -> Forall sport_wf l -> Forall nometa l -> buf <> [] ->
                       walk_port (Some o) ids (render_port q) buf = WOk (spec_pruned_table o ids buf l 0%nat) buf) l' ->
            loop_ports (fun q ids' b => walk_port (Some o) ids' q b) (Some o) ids (length buf)
                       (map render_port l') i out0 buf
            = WOk (out0 ++ spec_pruned_table o ids buf l' i) buf).
  { induction l' as [|q r IHr]; intros i out0 Hpl Hpn HIH.
    - cbn [map loop_ports spec_pruned_table]. rewrite app_nil_r. reflexivity.
    - inversion Hpl as [|? ? Hq Hr]; subst. inversion Hpn as [|? ? Hqn Hrn]; subst.
      inversion HIH as [|? ? HIq HIr]; subst.
      cbn [map loop_ports spec_pruned_table].
      destruct q as [sg1 a1 m1 s1]. cbn [sport_wf] in Hq. destruct Hq as [Ha Hq].
      cbn [nometa] in Hqn. destruct Hqn as [-> Hqn].
      destruct s1 as [l1|].
      + (* a sub-tree: every expansion of its name, pruned or walked *)
        destruct Hq as [[cs [-> [Hcs Hne]]] Hsub].
        cbn [render_port].
        change (render_name (comps_segs cs) a1) with (flatten (comps_segs cs) ++ a1).
        rewrite (step_port_subtree (fun q ids' b => walk_port (Some o) ids' q b) (Some o) ids i cs a1 None
                   (map render_port l1) buf Hcs Hne Ha).
        set (ws := map (fun x : list Z => buf ++ x) (expand (comps_segs cs))).
        rewrite (run_all_const _ (fun b => if pruned (Some o) b then [] else spec_pruned_table o (ids ++ [i]) b l1 0%nat) ws).
        * destruct (last_extends buf (expand (comps_segs cs))) as [x Hx].
          unfold ws. rewrite Hx.
          replace (length (buf ++ x) <? length buf)%nat with false
            by (symmetry; apply Nat.ltb_ge; rewrite app_length; lia).
          rewrite firstn_app_exact. rewrite IHr by assumption.
          rewrite <- app_assoc. f_equal. f_equal. cbn [app].
          rewrite spec_pruned_subtree. rewrite flat_map_map. reflexivity.
        * intros w Hw. unfold ws in Hw. apply in_map_iff in Hw. destruct Hw as [x [<- _]].
          destruct (pruned (Some o) (buf ++ x)) eqn:Ep.
          -- f_equal. unfold skipped_reports. destruct (negb (o_null o (buf ++ x)) && o_disabled o (buf ++ x)); reflexivity.
          -- change (Port (flatten (comps_segs cs) ++ a1) None (Some (map render_port l1)))
               with (render_port (SPort (comps_segs cs) a1 None (Some l1))).
             apply (HIq (ids ++ [i]) (buf ++ x) (comps_segs cs) a1 None l1 eq_refl (wf_all_forall _ Hsub) (nometa_all _ Hqn)).
             intros E0. apply app_eq_nil in E0. destruct E0. contradiction.
      + (* a leaf: as without a runtime object *)
        cbn [render_port]. unfold step_port.
        assert (Hh : has_char 35 (render_name sg1 a1) = has_enum sg1).
        { unfold render_name. fold (flatten sg1). rewrite has_char_app, (flatten_hash sg1 Hq).
          destruct Ha as [_ ->]. apply orb_false_r. }
        rewrite Hh. destruct (has_enum sg1) eqn:Ee.
        * unfold render_name at 2. fold (flatten sg1).
          rewrite (bundle_spec sg1 a1 buf _ Hq Ha Ee)
            by (pose proof (count_enum_le sg1); unfold render_name; fold (flatten sg1); rewrite app_length; lia).
          rewrite Nat.ltb_irrefl, firstn_all. rewrite IHr by assumption.
          rewrite <- app_assoc. f_equal. f_equal. cbn [spec_pruned_port]. rewrite map_map. reflexivity.
        * assert (Hup : WalkModel.upto_colon (render_name sg1 a1) = flatten sg1).
          { unfold render_name. fold (flatten sg1). apply upto_colon_name; [apply flatten_enumfree_colon; assumption | apply Ha]. }
          rewrite Hup.
          replace (length (buf ++ flatten sg1) <? length buf)%nat with false
            by (symmetry; apply Nat.ltb_ge; rewrite app_length; lia).
          rewrite firstn_app_exact. rewrite IHr by assumption.
          rewrite <- app_assoc. f_equal.
          cbn [spec_pruned_port]. rewrite (expand_enumfree sg1 Ee). reflexivity. }
  specialize (Hloop l 0%nat [] Hl Hnm). cbn [app] in Hloop. apply Hloop.
  eapply Forall_impl; [|exact IHs]. intros q Hq. exact Hq.
Qed.
