(* C12 - the walk stage for the application of a port tree:
   "the walker reports exactly the addresses of app_of_tree" - every element of every
   port, each once, in the order of the application (C09_enumerates over the names of
   the tree).  The walk of C09's model expands "name#N" leaves (expand_bundles): an
   array port of N elements is reported N times, once per element address; the save
   walk asks for one report per port and expands the elements itself. *)
From Coq Require Import List ZArith Bool Lia Arith.
From RtoscV Require Import Ports.NameModel Ports.WalkModel Ports.WalkProofs Ports.EnumProofs
     Ports.DispatchModel Ports.TreeProofs Ports.DispatchWalk Ports.NamesModel Ports.NamesOk.
From RtoscV Require Ports.MetaModel Ports.MetaProofs Ports.PathModel.
From RtoscV Require Import Save.TopoModel Save.TopoEdges Save.SaveModel Save.TreeApp Save.DispatchStage.
Import ListNotations.
Local Open Scope Z_scope.

(* what the walker is called with for one port of the application: (index path of the
   leaf, address) of every element *)
Definition port_reports (f : fport) : list report :=
  map (fun k => (f_id f, elem_addr (f_port f) k)) (seq 0 (p_len (f_port f))).

Lemma expand_leaf : forall nm arr,
  expand (leaf_segs nm arr) =
  map (leaf_rel nm arr) (seq 0 (match arr with Some n => n | None => 1%nat end)).
Proof.
  intros nm [n|]; cbn [leaf_segs expand leaf_rel].
  - rewrite Nat2Z.id. generalize (seq 0 n). intros l. induction l as [|k l IH]; [reflexivity|].
    simpl. simpl in IH. rewrite IH, app_nil_r. reflexivity.
  - cbn. rewrite app_nil_r. reflexivity.
Qed.

Lemma flat_map_flat_map : forall A B C (f : A -> list B) (g : B -> list C) l,
  flat_map g (flat_map f l) = flat_map (fun x => flat_map g (f x)) l.
Proof.
  induction l as [|x l IH]; [reflexivity|]. cbn [flat_map]. rewrite flat_map_app, IH. reflexivity.
Qed.

Lemma spec_flat_pt : forall p ids pre hard soft,
  spec_addrs_port ids pre (sport_of p) = flat_map port_reports (flat_pt ids pre hard soft p).
Proof.
  induction p as [nm arr d|nm enum ptr sw sub IHs|nm sw] using pt_ind2; intros ids pre hard soft.
  3:{ cbn [sport_of spec_addrs_port flat_pt flat_map]. rewrite app_nil_r. unfold port_reports.
      cbn [f_id f_port]. change [Lit nm] with (leaf_segs nm None). rewrite expand_leaf, map_map.
      change (p_len (leaf_port (pre ++ nm) None aux_ld)) with 1%nat.
      apply map_ext. intros k. rewrite elem_addr_leaf. reflexivity. }
  - cbn [sport_of spec_addrs_port flat_pt flat_map]. rewrite app_nil_r. unfold port_reports.
    cbn [f_id f_port]. rewrite expand_leaf, map_map.
    change (p_len (leaf_port (pre ++ nm) arr d)) with (match arr with Some n => n | None => 1%nat end).
    apply map_ext. intros k. rewrite elem_addr_leaf. reflexivity.
  - cbn [sport_of]. rewrite spec_addrs_subtree, flat_pt_sub, flat_map_flat_map.
    apply flat_map_ext. intros x.
    generalize ((soft ++ olist (option_map (sw_addr pre (sub_name nm enum) x) sw)) ++ self_soft (pre ++ x) sub).
    intros soft'.
    generalize 0%nat. induction sub as [|q r IHr]; intros i; [reflexivity|].
    inversion IHs as [|? ? Hq Hr]; subst.
    cbn [map spec_table flat_tbl]. rewrite flat_map_app, <- (IHr Hr). f_equal. apply Hq.
Qed.

Lemma spec_flat_tbl : forall l ids pre hard soft i,
  spec_table ids pre (map sport_of l) i = flat_map port_reports (flat_tbl ids pre hard soft l i).
Proof.
  induction l as [|q r IH]; intros ids pre hard soft i; [reflexivity|].
  cbn [map spec_table flat_tbl]. rewrite flat_map_app, <- IH. f_equal. apply spec_flat_pt.
Qed.

Lemma spec_addrs_tree : forall t, spec_addrs (sports_of t) = flat_map port_reports (flat_root t).
Proof.
  intros t. unfold spec_addrs. rewrite spec_addrs_subtree. cbn [expand map flat_map app].
  rewrite app_nil_r. apply spec_flat_tbl.
Qed.

(* the ports of the application and those of the flattening carry the same addresses *)
Lemma reports_app : forall t,
  flat_map port_reports (flat_root t) =
  flat_map (fun fp => map (fun k => (f_id (fst fp), elem_addr (snd fp) k)) (seq 0 (p_len (snd fp))))
           (combine (flat_root t) (app_of_tree t)).
Proof.
  intros t. unfold app_of_tree. generalize (fpaths (flat_root t)). intros ps.
  induction (flat_root t) as [|f fs IH]; [reflexivity|].
  cbn [map combine flat_map]. rewrite IH. reflexivity.
Qed.

(* C12_walk_addresses: walk_ports over the tree (no runtime object) calls the walker with
   exactly the element addresses of app_of_tree, port by port in the application's
   order, every element once - and leaves the buffer as "/" *)
Theorem walk_addresses : forall t,
  names_ok (sports_of t) = true ->
  walk None (map render_port (sports_of t)) [] =
  WOk (flat_map (fun fp => map (fun k => (f_id (fst fp), elem_addr (snd fp) k)) (seq 0 (p_len (snd fp))))
                (combine (flat_root t) (app_of_tree t))) [47].
Proof.
  intros t H. destruct (names_ok_sound _ H) as (Hwf & _).
  rewrite (walk_enumerates _ Hwf), spec_addrs_tree, reports_app. reflexivity.
Qed.

(* the addresses alone: element k of port i, for i = 0 .. length a - 1, k = 0 .. p_len - 1 *)
Definition app_addresses (a : app) : list str :=
  flat_map (fun p => map (elem_addr p) (seq 0 (p_len p))) a.

Theorem walk_reports_app_addresses : forall t out b,
  names_ok (sports_of t) = true ->
  walk None (map render_port (sports_of t)) [] = WOk out b ->
  map snd out = app_addresses (app_of_tree t) /\ b = [47].
Proof.
  intros t out b H Hw. rewrite (walk_addresses t H) in Hw. inversion Hw; subst. split; [|reflexivity].
  unfold app_addresses.
  assert (Hlen : length (flat_root t) = length (app_of_tree t)) by (unfold app_of_tree; rewrite map_length; reflexivity).
  revert Hlen. generalize (app_of_tree t). generalize (flat_root t).
  induction l as [|f fs IH]; intros a Hlen; destruct a as [|p a]; try discriminate; [reflexivity|].
  cbn [combine flat_map]. rewrite map_app, map_map. cbn [snd fst]. f_equal. apply IH. cbn in Hlen. lia.
Qed.

(* ======================================================================== *)
(* the walk with a runtime object: pruning                                     *)
(* ======================================================================== *)
(* C09 proves the pruning step by step (C09_pruning_enumerated: each expansion of a
   sub-tree name is skipped exactly when the oracle reports a NULL object or a false
   'enabled by' for that address; for a skipped expansion whose object exists the walker is
   still applied to the enabling port when that port stands inside: skipped_reports; a table
   whose "self:" port is disabled is not looked at, the walker is applied to the port it
   names: self_toggle).  Here the steps are put together for whole trees. *)
Definition skipped_spec (o : oracle) (ids : list nat) (q : NameModel.port) (b : str) : list report :=
  if negb (o_null o b) && o_disabled o b then
    match sub_toggle q b with
    | Some (j, a) => [(ids ++ [j], a)]
    | None => []
    end
  else [].

Lemma skipped_reports_spec : forall o ids i q b,
  skipped_reports (Some o) ids i q b = skipped_spec o (ids ++ [i]) q b.
Proof.
  intros. unfold skipped_reports, skipped_spec.
  destruct (negb (o_null o b) && o_disabled o b); [|reflexivity].
  destruct (sub_toggle q b) as [[j a]|]; [|reflexivity]. rewrite <- app_assoc. reflexivity.
Qed.

Definition spec_self (ids : list nat) (t : list NameModel.port) (b : str) : list report :=
  match self_toggle t b with
  | Some (j, a) => [(ids ++ [j], a)]
  | None => []
  end.

Fixpoint spec_pruned_port (o : oracle) (ids : list nat) (prefix : str) (p : sport) {struct p} : list report :=
  match p with
  | SPort segs _ _ None => map (fun a => (ids, prefix ++ a)) (expand segs)
  | SPort segs _ _ (Some l) =>
      flat_map (fun a =>
        if pruned (Some o) (prefix ++ a) then skipped_spec o ids (render_port p) (prefix ++ a) else
        if o_selfoff o (prefix ++ a) then spec_self ids (map render_port l) (prefix ++ a) else
        (fix go (l : list sport) (i : nat) : list report :=
           match l with
           | [] => []
           | q :: r => spec_pruned_port o (ids ++ [i]) (prefix ++ a) q ++ go r (S i)
           end) l 0%nat) (expand segs)
  end.

Fixpoint spec_pruned_table (o : oracle) (ids : list nat) (pre : str) (l : list sport) (i : nat) : list report :=
  match l with
  | [] => []
  | q :: r => spec_pruned_port o (ids ++ [i]) pre q ++ spec_pruned_table o ids pre r (S i)
  end.

(* walk_ports on the table l at address pre *)
Definition spec_pruned_tableS (o : oracle) (ids : list nat) (pre : str) (l : list sport) : list report :=
  if o_selfoff o pre then spec_self ids (map render_port l) pre else spec_pruned_table o ids pre l 0%nat.

Lemma spec_pruned_subtree : forall o ids pre sg a m l,
  spec_pruned_port o ids pre (SPort sg a m (Some l)) =
  flat_map (fun x => if pruned (Some o) (pre ++ x)
                     then skipped_spec o ids (render_port (SPort sg a m (Some l))) (pre ++ x)
                     else spec_pruned_tableS o ids (pre ++ x) l) (expand sg).
Proof.
  intros. cbn [spec_pruned_port]. apply flat_map_ext. intros x.
  destruct (pruned (Some o) (pre ++ x)); [reflexivity|]. unfold spec_pruned_tableS.
  destruct (o_selfoff o (pre ++ x)); [reflexivity|].
  generalize 0%nat. induction l as [|q r IH]; intros i; [reflexivity|].
  cbn [spec_pruned_table]. rewrite <- IH. reflexivity.
Qed.

(* wherever the oracle can answer "the self: port is disabled", the table has such a port
   and it names a port of the table (otherwise walk_ports fails an assertion) *)
Fixpoint selfs_ok (o : oracle) (prefix : str) (p : sport) {struct p} : Prop :=
  match p with
  | SPort _ _ _ None => True
  | SPort segs _ _ (Some l) =>
      forall x, In x (expand segs) ->
        (o_selfoff o (prefix ++ x) = true -> self_toggle (map render_port l) (prefix ++ x) <> None) /\
        (fix all (l : list sport) : Prop :=
           match l with [] => True | q :: r => selfs_ok o (prefix ++ x) q /\ all r end) l
  end.
Definition tbl_ok (o : oracle) (pre : str) (l : list sport) : Prop :=
  (o_selfoff o pre = true -> self_toggle (map render_port l) pre <> None) /\ Forall (selfs_ok o pre) l.

Lemma selfs_all_forall : forall o pre l,
  (fix all (l : list sport) : Prop := match l with [] => True | q :: r => selfs_ok o pre q /\ all r end) l <->
  Forall (selfs_ok o pre) l.
Proof.
  intros o pre. induction l as [|x r IH].
  - split; intros _; [constructor | exact I].
  - split; intros H.
    + destruct H as [H1 H2]. constructor; [exact H1 | apply IH; exact H2].
    + inversion H as [|? ? H1 H2]; subst. split; [exact H1 | apply IH; exact H2].
Qed.

Theorem walk_pruned_wf : forall o p ids buf sg a m l,
  p = SPort sg a m (Some l) -> Forall sport_wf l -> buf <> [] -> tbl_ok o buf l ->
  walk_port (Some o) ids (render_port p) buf = WOk (spec_pruned_tableS o ids buf l) buf.
Proof.
  intros o. induction p as [sg0 a0 m0 s0 IHs] using sport_ind2.
  intros ids buf sg a m l E Hl Hb [Hst Hsok]. inversion E; subst. clear E.
  cbn [render_port walk_port]. rewrite (norm_nonempty buf Hb). unfold spec_pruned_tableS.
  destruct (o_selfoff o buf) eqn:Eself.
  { unfold spec_self. specialize (Hst eq_refl).
    destruct (self_toggle (map render_port l) buf) as [[j a']|]; [reflexivity | contradiction]. }
  clear Hst.
  assert (Hloop : forall l' i out0,
            Forall sport_wf l' -> Forall (selfs_ok o buf) l' ->
            Forall (fun q => forall ids buf sg a m l, q = SPort sg a m (Some l) -> Forall sport_wf l -> buf <> [] ->
                       tbl_ok o buf l ->
                       walk_port (Some o) ids (render_port q) buf = WOk (spec_pruned_tableS o ids buf l) buf) l' ->
            loop_ports (fun q ids' b => walk_port (Some o) ids' q b) (Some o) ids (length buf)
                       (map render_port l') i out0 buf
            = WOk (out0 ++ spec_pruned_table o ids buf l' i) buf).
  { induction l' as [|q r IHr]; intros i out0 Hpl Hps HIH.
    - cbn [map loop_ports spec_pruned_table]. rewrite app_nil_r. reflexivity.
    - inversion Hpl as [|? ? Hq Hr]; subst. inversion Hps as [|? ? Hqs Hrs]; subst.
      inversion HIH as [|? ? HIq HIr]; subst.
      cbn [map loop_ports spec_pruned_table].
      destruct q as [sg1 a1 m1 s1]. cbn [sport_wf] in Hq. destruct Hq as [Ha Hq].
      destruct s1 as [l1|].
      + (* a sub-tree: every expansion of its name, pruned or walked *)
        destruct Hq as [[cs [-> [Hcs Hne]]] Hsub].
        cbn [render_port].
        change (render_name (comps_segs cs) a1) with (flatten (comps_segs cs) ++ a1).
        rewrite (step_port_subtree (fun q ids' b => walk_port (Some o) ids' q b) (Some o) ids i cs a1 m1
                   (map render_port l1) buf Hcs Hne Ha).
        set (ws := map (fun x : list Z => buf ++ x) (expand (comps_segs cs))).
        rewrite (run_all_const _ (fun b => if pruned (Some o) b
                                           then skipped_spec o (ids ++ [i]) (render_port (SPort (comps_segs cs) a1 m1 (Some l1))) b
                                           else spec_pruned_tableS o (ids ++ [i]) b l1) ws).
        * destruct (last_extends buf (expand (comps_segs cs))) as [x Hx].
          unfold ws. rewrite Hx.
          replace (length (buf ++ x) <? length buf)%nat with false
            by (symmetry; apply Nat.ltb_ge; rewrite app_length; lia).
          rewrite firstn_app_exact. rewrite IHr by assumption.
          rewrite <- app_assoc. f_equal. f_equal. cbn [app].
          rewrite spec_pruned_subtree. rewrite flat_map_map. reflexivity.
        * intros w Hw. unfold ws in Hw. apply in_map_iff in Hw. destruct Hw as [x [<- Hx]].
          destruct (pruned (Some o) (buf ++ x)) eqn:Ep.
          -- f_equal. apply skipped_reports_spec.
          -- change (Port (flatten (comps_segs cs) ++ a1) m1 (Some (map render_port l1)))
               with (render_port (SPort (comps_segs cs) a1 m1 (Some l1))).
             cbn [selfs_ok] in Hqs. destruct (Hqs x Hx) as [Hsx Hallx].
             apply (HIq (ids ++ [i]) (buf ++ x) (comps_segs cs) a1 m1 l1 eq_refl (wf_all_forall _ Hsub)).
             ++ intros E0. apply app_eq_nil in E0. destruct E0. contradiction.
             ++ split; [exact Hsx | apply selfs_all_forall; exact Hallx].
      + (* a leaf: as without a runtime object *)
        cbn [render_port]. unfold step_port.
        assert (Hh : has_char 35 (render_name sg1 a1) = has_enum sg1).
        { unfold render_name. fold (flatten sg1). rewrite has_char_app, (flatten_hash sg1 Hq).
          destruct Ha as [_ ->]. apply orb_false_r. }
        rewrite Hh. destruct (has_enum sg1) eqn:Ee.
        * unfold render_name at 2. fold (flatten sg1).
          rewrite (bundle_spec sg1 a1 buf _ Hq Ha Ee)
            by (pose proof (count_enum_le sg1); unfold render_name; fold (flatten sg1); rewrite app_length; lia).
          rewrite Nat.ltb_irrefl, firstn_all. rewrite IHr by assumption.
          rewrite <- app_assoc. f_equal. f_equal. cbn [spec_pruned_port]. rewrite map_map. reflexivity.
        * assert (Hup : WalkModel.upto_colon (render_name sg1 a1) = flatten sg1).
          { unfold render_name. fold (flatten sg1). apply upto_colon_name; [apply flatten_enumfree_colon; assumption | apply Ha]. }
          rewrite Hup.
          replace (length (buf ++ flatten sg1) <? length buf)%nat with false
            by (symmetry; apply Nat.ltb_ge; rewrite app_length; lia).
          rewrite firstn_app_exact. rewrite IHr by assumption.
          rewrite <- app_assoc. f_equal.
          cbn [spec_pruned_port]. rewrite (expand_enumfree sg1 Ee). reflexivity. }
  specialize (Hloop l 0%nat [] Hl Hsok). cbn [app] in Hloop. apply Hloop.
  eapply Forall_impl; [|exact IHs]. intros q Hq. exact Hq.
Qed.

(* ======================================================================== *)
(* the runtime oracle of the application's state, and what the walk reports    *)
(* ======================================================================== *)
Lemma dirs_pt_sub : forall dir nm enum ptr sw sub,
  dirs_pt dir (PSub nm enum ptr sw sub) =
  flat_map (fun x => (dir ++ x, option_map (fun g => dir ++ g) ptr, option_map (sw_addr dir (sub_name nm enum) x) sw,
                      option_map (fun v => (dir ++ x) ++ v) (self_sw sub))
                     :: dirs_tbl (dir ++ x) sub) (expand (sub_segs nm enum)).
Proof.
  intros. cbn [dirs_pt]. apply flat_map_ext. intros x. f_equal.
  induction sub as [|q r IH]; [reflexivity|]. cbn [dirs_tbl]. rewrite <- IH. reflexivity.
Qed.

Lemma dir_find_nodup : forall ds d, NoDup (map dir_addr ds) -> In d ds -> dir_find ds (dir_addr d) = Some d.
Proof.
  induction ds as [|e ds IH]; intros d Hnd Hin; [contradiction|].
  inversion Hnd as [|? ? Hnot Hnd']; subst. unfold dir_find. cbn [find].
  destruct (str_eqb (dir_addr e) (dir_addr d)) eqn:E.
  - apply streqb_true in E. destruct Hin as [->|Hin]; [reflexivity|].
    exfalso. apply Hnot. rewrite E. apply in_map. exact Hin.
  - destruct Hin as [->|Hin]; [rewrite (proj2 (streqb_true _ _) eq_refl) in E; discriminate|].
    apply IH; assumption.
Qed.

(* the toggles that govern a port: the switches of the pointers above it, and the
   'enabled by' toggles above it other than the port itself *)
Lemma flat_pt_incl : forall p ids dir hard soft f,
  In f (flat_pt ids dir hard soft p) ->
  incl hard (f_hard f) /\ (forall g, In g soft -> g <> p_path (f_port f) -> In g (f_soft f)).
Proof.
  induction p as [nm arr d|nm enum ptr sw sub IHs|nm sw] using pt_ind2; intros ids dir hard soft f Hin.
  - cbn [flat_pt] in Hin. destruct Hin as [<-|[]]. cbn [f_hard f_soft f_port leaf_port p_path].
    split; [apply incl_refl|]. intros g Hg Hne. unfold soft_of. apply filter_In. split; [exact Hg|].
    destruct (str_eqb g (dir ++ nm)) eqn:E; [|reflexivity]. apply streqb_true in E. contradiction.
  - rewrite flat_pt_sub in Hin. apply in_flat_map in Hin. destruct Hin as (x & _ & Hin).
    destruct (in_flat_tbl _ _ _ _ _ _ _ Hin) as (j & q & Eq & Hq).
    rewrite Forall_forall in IHs. destruct (IHs q (nth_error_In _ _ Eq) _ _ _ _ _ Hq) as [H1 H2].
    split; [intros g Hg; apply H1; apply in_or_app; left; exact Hg|].
    intros g Hg Hne. apply H2; [apply in_or_app; left; apply in_or_app; left; exact Hg | exact Hne].
  - cbn [flat_pt] in Hin. destruct Hin as [<-|[]]. cbn [f_hard f_soft f_port leaf_port p_path].
    split; [apply incl_refl|]. intros g Hg Hne. unfold soft_of. apply filter_In. split; [exact Hg|].
    destruct (str_eqb g (dir ++ nm)) eqn:E; [|reflexivity]. apply streqb_true in E. contradiction.
Qed.

Lemma flat_tbl_incl : forall l ids dir hard soft i f,
  In f (flat_tbl ids dir hard soft l i) ->
  incl hard (f_hard f) /\ (forall g, In g soft -> g <> p_path (f_port f) -> In g (f_soft f)).
Proof.
  intros l ids dir hard soft i f Hf. destruct (in_flat_tbl _ _ _ _ _ _ _ Hf) as (j & q & _ & Hq).
  exact (flat_pt_incl _ _ _ _ _ _ Hq).
Qed.

(* the addresses below a table begin with the table's own *)
Lemma flat_pt_prefix : forall p ids dir hard soft f,
  In f (flat_pt ids dir hard soft p) -> exists r, p_path (f_port f) = dir ++ r.
Proof.
  induction p as [nm arr d|nm enum ptr sw sub IHs|nm sw] using pt_ind2; intros ids dir hard soft f Hin.
  - cbn [flat_pt] in Hin. destruct Hin as [<-|[]]. exists nm. reflexivity.
  - rewrite flat_pt_sub in Hin. apply in_flat_map in Hin. destruct Hin as (x & _ & Hin).
    destruct (in_flat_tbl _ _ _ _ _ _ _ Hin) as (j & q & Eq & Hq).
    rewrite Forall_forall in IHs. destruct (IHs q (nth_error_In _ _ Eq) _ _ _ _ _ Hq) as [r Hr].
    exists (x ++ r). rewrite Hr, app_assoc. reflexivity.
  - cbn [flat_pt] in Hin. destruct Hin as [<-|[]]. exists nm. reflexivity.
Qed.

Lemma flat_tbl_prefix : forall l ids dir hard soft i f,
  In f (flat_tbl ids dir hard soft l i) -> exists r, p_path (f_port f) = dir ++ r.
Proof.
  intros l ids dir hard soft i f Hf. destruct (in_flat_tbl _ _ _ _ _ _ _ Hf) as (j & q & _ & Hq).
  exact (flat_pt_prefix _ _ _ _ _ _ Hq).
Qed.

(* every expansion of a sub-tree name holds a '/' *)
Lemma expand_sub_slash : forall nm enum x, In x (expand (sub_segs nm enum)) -> has_char 47 x = true.
Proof.
  intros nm [n|] x Hx; cbn [sub_segs expand] in Hx.
  - apply in_map_iff in Hx. destruct Hx as (y & <- & Hy). apply in_flat_map in Hy. destruct Hy as (i & _ & Hy).
    apply in_map_iff in Hy. destruct Hy as (z & <- & Hz). cbn in Hz. destruct Hz as [<-|[]].
    rewrite !has_char_app. cbn. rewrite !orb_true_r. reflexivity.
  - cbn in Hx. destruct Hx as [<-|[]]. rewrite !has_char_app. cbn. rewrite !orb_true_r. reflexivity.
Qed.

Lemma leaf_in_flat_tbl : forall l ids dir hard soft i j e arr d,
  nth_error l j = Some (PLeaf e arr d) -> In (dir ++ e) (fpaths (flat_tbl ids dir hard soft l i)).
Proof.
  induction l as [|q r IH]; intros ids dir hard soft i j e arr d E; [destruct j; discriminate|].
  cbn [flat_tbl]. unfold fpaths. rewrite map_app. apply in_or_app. destruct j as [|j]; cbn in E.
  - inversion E; subst q. left. cbn. left. reflexivity.
  - right. exact (IH ids dir hard soft (S i) j e arr d E).
Qed.

Lemma nodup_app_disj : forall A (l1 l2 : list A), NoDup (l1 ++ l2) ->
  NoDup l1 /\ NoDup l2 /\ forall z, In z l1 -> ~ In z l2.
Proof.
  induction l1 as [|z zs IHz]; intros l2 Hnd; cbn [app] in Hnd.
  - split; [constructor|]. split; [exact Hnd|]. intros z [].
  - inversion Hnd as [|? ? Hnot Hnd']; subst. destruct (IHz _ Hnd') as (H1 & H2 & H3).
    split; [constructor; [intro Hc; apply Hnot; apply in_or_app; left; exact Hc | exact H1]|].
    split; [exact H2|]. intros w [<-|Hw]; [intro Hc; apply Hnot; apply in_or_app; right; exact Hc | apply H3; exact Hw].
Qed.

Lemma nodup_flat_map_piece : forall A B (g : A -> list B) l x,
  NoDup (flat_map g l) -> In x l -> NoDup (g x).
Proof.
  induction l as [|h l IH]; intros x Hnd Hx; [contradiction|]. cbn [flat_map] in Hnd.
  destruct (nodup_app_disj _ _ _ Hnd) as (H1 & H2 & _). destruct Hx as [->|Hx]; [exact H1 | exact (IH x H2 Hx)].
Qed.

Lemma fpaths_app : forall l1 l2, fpaths (l1 ++ l2) = fpaths l1 ++ fpaths l2.
Proof. intros. unfold fpaths. apply map_app. Qed.

Lemma fpaths_flat_map : forall A (g : A -> list fport) l, fpaths (flat_map g l) = flat_map (fun x => fpaths (g x)) l.
Proof.
  induction l as [|x l IH]; [reflexivity|]. cbn [flat_map]. rewrite fpaths_app, IH. reflexivity.
Qed.

Lemma soft_of_on : forall (f : str -> bool) path soft, forallb f soft = true -> forallb f (soft_of path soft) = true.
Proof.
  intros f path soft H. rewrite forallb_forall in *. intros g Hg. apply H. unfold soft_of in Hg.
  apply filter_In in Hg. apply Hg.
Qed.

Lemma nonul_b_nonul : forall g, nonul_b g = true -> MetaModel.nonul g.
Proof.
  intros g H. unfold nonul_b in H. rewrite forallb_forall in H. apply Forall_forall. intros c Hc E.
  specialize (H c Hc). subst c. discriminate.
Qed.

(* port_is_enabled on the metadata rEnabledBy wrote: the lookup gives the property (C17) *)
Lemma enabled_by_lookup : forall g, MetaModel.nonul g ->
  exists p, MetaModel.meta (MetaModel.render [(WalkModel.enabled_by, Some g)]) = Some p /\
            MetaModel.lookup p WalkModel.enabled_by = Some (Some g).
Proof.
  intros g Hg.
  destruct (MetaProofs.lookup_render WalkModel.enabled_by (Some g) [] WalkModel.enabled_by) as (p & Hm & Hl & _).
  { constructor; [|constructor]. split; [|exact Hg]. cbn [fst].
    split; [discriminate|]. split; [repeat constructor; discriminate | discriminate]. }
  exists p. split; [exact Hm|]. rewrite Hl. reflexivity.
Qed.

(* ... the comparison with the port's name tells the two forms apart *)
Lemma sub_toggle_meta : forall qn g subp b, MetaModel.nonul g ->
  sub_toggle (Port qn (Some (MetaModel.render [(WalkModel.enabled_by, Some g)])) (Some subp)) b =
  match subport_split qn g with
  | Some e => match PathModel.index_op subp e with Some j => Some (j, b ++ e) | None => None end
  | None => None
  end.
Proof.
  intros qn g subp b Hg. unfold sub_toggle.
  destruct (enabled_by_lookup g Hg) as (p & Hm & Hl).
  match goal with |- context [MetaModel.meta ?X] => replace (MetaModel.meta X) with (Some p) by (symmetry; exact Hm) end.
  rewrite Hl. reflexivity.
Qed.

Lemma inner_ok_leaf : forall l e, inner_ok l e = true ->
  exists j d, PathModel.index_op (map render_port (map sport_of l)) e = Some j /\ nth_error l j = Some (PLeaf e None d).
Proof.
  intros l e H. unfold inner_ok, sports_of in H.
  destruct (PathModel.index_op (map render_port (map sport_of l)) e) as [j|]; [|discriminate H].
  destruct (nth_error l j) as [[nm' [n|] d'|nm' enum' ptr' sw' sub'|nm' sw']|] eqn:Ej; try discriminate H.
  apply andb_true_iff in H. destruct H as [Hname _]. apply streqb_true in Hname. subst nm'.
  exists j, d'. split; [reflexivity | exact Ej].
Qed.

(* rSelf(.., rEnabledBy(x)): the port walk_ports is applied to while x is off *)
Lemma self_toggle_ok : forall l x b, self_sw l = Some x -> self_ok l = true ->
  exists j d, nth_error l j = Some (PLeaf x None d) /\
              self_toggle (map render_port (map sport_of l)) b = Some (j, b ++ x).
Proof.
  intros l x b Hsw Hok. unfold self_ok in Hok. rewrite Hsw in Hok.
  apply andb_true_iff in Hok. destruct Hok as [Hok Hidx]. apply andb_true_iff in Hok. destruct Hok as [Hnul Hin].
  destruct (inner_ok_leaf l x Hin) as (j & d & Ej & Enj). exists j, d. split; [exact Enj|].
  unfold sports_of in Hidx. unfold self_toggle.
  destruct (PathModel.index_op (map render_port (map sport_of l)) self_key) as [i|]; [|discriminate Hidx].
  rewrite !nth_error_map.
  destruct (nth_error l i) as [[nm' arr' d'|nm' enum' ptr' sw' sub'|nm' [x'|]]|]; try discriminate Hidx.
  apply andb_true_iff in Hidx. destruct Hidx as [_ Hx]. apply streqb_true in Hx. subst x'.
  cbn [option_map sport_of render_port sub_meta].
  destruct (enabled_by_lookup x (nonul_b_nonul x Hnul)) as (p & Hm & Hl).
  match goal with |- context [MetaModel.meta ?X] => replace (MetaModel.meta X) with (Some p) by (symmetry; exact Hm) end.
  rewrite Hl, Ej. reflexivity.
Qed.

Lemma dirs_tbl_in : forall l dir p, In p l -> incl (dirs_pt dir p) (dirs_tbl dir l).
Proof.
  induction l as [|q r IH]; intros dir p Hp e He; [contradiction|]. cbn [dirs_tbl]. apply in_or_app.
  destruct Hp as [->|Hp]; [left; exact He | right; exact (IH dir p Hp e He)].
Qed.

Definition live_f (a : app) (s : state) (f : fport) : bool :=
  forallb (sw_on a s) (f_hard f) && forallb (sw_on a s) (f_soft f).

Definition live_reports (a : app) (s : state) (f : fport) : list report :=
  if live_f a s f then port_reports f else [].

Lemma flat_map_ext_in' : forall A B (f g : A -> list B) l, (forall x, In x l -> f x = g x) -> flat_map f l = flat_map g l.
Proof.
  induction l as [|x l IH]; intros H; [reflexivity|]. cbn [flat_map].
  rewrite (H x (or_introl eq_refl)), IH; [reflexivity|]. intros y Hy. apply H. right. exact Hy.
Qed.

Lemma flat_map_nil : forall A B (g : A -> list B) l, (forall x, In x l -> g x = []) -> flat_map g l = [].
Proof.
  induction l as [|x l IH]; intros H; [reflexivity|]. cbn [flat_map].
  rewrite (H x (or_introl eq_refl)), IH; [reflexivity|]. intros y Hy. apply H. right. exact Hy.
Qed.

Section Pruned.
  Variable a : app.
  Variable s : state.
  Variable ds : list dir_entry.
  Hypothesis Hnd : NoDup (map dir_addr ds).
  Let o := oracle_of a ds s.

  Lemma oracle_dir : forall b ptr sw self, In (b, ptr, sw, self) ds ->
    o_null o b = negb (forallb (sw_on a s) (olist ptr)) /\
    o_disabled o b = negb (forallb (sw_on a s) (olist sw)) /\
    o_selfoff o b = negb (forallb (sw_on a s) (olist self)).
  Proof.
    intros b ptr sw self Hin. unfold o, oracle_of. cbn [o_null o_disabled o_selfoff].
    pose proof (dir_find_nodup ds (b, ptr, sw, self) Hnd Hin) as Hf. cbn [dir_addr fst] in Hf. rewrite Hf.
    destruct ptr as [g|]; destruct sw as [g'|]; destruct self as [g''|]; cbn [olist forallb];
      rewrite ?andb_true_r; repeat split; reflexivity.
  Qed.

  (* below a toggle that is off nothing is live but (possibly) the toggle itself *)
  Lemma dead_list : forall fl soft tg,
    (forall f, In f fl -> forall g, In g soft -> g <> p_path (f_port f) -> In g (f_soft f)) ->
    In tg soft -> sw_on a s tg = false -> ~ In tg (fpaths fl) ->
    flat_map (live_reports a s) fl = [].
  Proof.
    intros fl soft tg Hsoft Htg Hoff Hnot. apply flat_map_nil. intros f Hf.
    unfold live_reports, live_f.
    assert (Hin : In tg (f_soft f)).
    { apply (Hsoft f Hf tg Htg). intros E. apply Hnot. rewrite E. unfold fpaths.
      apply (in_map (fun f => p_path (f_port f))). exact Hf. }
    assert (E : forallb (sw_on a s) (f_soft f) = false).
    { destruct (forallb (sw_on a s) (f_soft f)) eqn:E; [|reflexivity].
      rewrite forallb_forall in E. rewrite (E tg Hin) in Hoff. discriminate. }
    rewrite E, andb_false_r. reflexivity.
  Qed.

  (* the inner switch of a sub-tree / the switch of the table's rSelf is off: of the table
     only the switch is live *)
  Lemma only_switch_live : forall l ids dir hard soft i j e d,
    nth_error l j = Some (PLeaf e None d) ->
    In (dir ++ e) soft -> sw_on a s (dir ++ e) = false ->
    forallb (sw_on a s) hard = true -> forallb (sw_on a s) (soft_of (dir ++ e) soft) = true ->
    NoDup (fpaths (flat_tbl ids dir hard soft l i)) ->
    flat_map (live_reports a s) (flat_tbl ids dir hard soft l i) = [(ids ++ [(i + j)%nat], dir ++ e)].
  Proof.
    induction l as [|q r IH]; intros ids dir hard soft i j e d Ej Hin Hoff Hh Hs Hn; [destruct j; discriminate|].
    cbn [flat_tbl] in Hn |- *. rewrite flat_map_app. rewrite fpaths_app in Hn.
    destruct (nodup_app_disj _ _ _ Hn) as (_ & Hn2 & Hdis).
    destruct j as [|j]; cbn [nth_error] in Ej.
    - inversion Ej; subst q. clear Ej.
      rewrite (dead_list (flat_tbl ids dir hard soft r (S i)) soft (dir ++ e)); try assumption.
      + cbn [flat_pt flat_map]. unfold live_reports, live_f. cbn [f_hard f_soft].
        rewrite Hh, Hs. cbn [andb]. rewrite Nat.add_0_r. reflexivity.
      + intros f Hf. exact (proj2 (flat_tbl_incl _ _ _ _ _ _ _ Hf)).
      + apply Hdis. cbn. left. reflexivity.
    - rewrite (dead_list (flat_pt (ids ++ [i]) dir hard soft q) soft (dir ++ e)); try assumption.
      + rewrite (IH ids dir hard soft (S i) j e d Ej Hin Hoff Hh Hs Hn2).
        replace (S i + j)%nat with (i + S j)%nat by lia. reflexivity.
      + intros f Hf. exact (proj2 (flat_pt_incl _ _ _ _ _ _ Hf)).
      + intros Hc. apply (Hdis _ Hc). exact (leaf_in_flat_tbl r ids dir hard soft (S i) j e None d Ej).
  Qed.

  (* walk_ports on one table, given what it does with the ports of the table while the
     table's rSelf (if any) is enabled *)
  Lemma table_self : forall l ids dir hard soft ptr sw,
    In (dir, ptr, sw, option_map (fun v => dir ++ v) (self_sw l)) ds ->
    self_ok l = true ->
    NoDup (fpaths (flat_tbl ids dir hard (soft ++ self_soft dir l) l 0%nat)) ->
    forallb (sw_on a s) hard = true -> forallb (sw_on a s) soft = true ->
    (forallb (sw_on a s) (soft ++ self_soft dir l) = true ->
     spec_pruned_table o ids dir (map sport_of l) 0%nat =
     flat_map (live_reports a s) (flat_tbl ids dir hard (soft ++ self_soft dir l) l 0%nat)) ->
    spec_pruned_tableS o ids dir (map sport_of l) =
    flat_map (live_reports a s) (flat_tbl ids dir hard (soft ++ self_soft dir l) l 0%nat).
  Proof.
    intros l ids dir hard soft ptr sw Hin Hok Hn Hh Hs Hon.
    destruct (oracle_dir _ _ _ _ Hin) as (_ & _ & Eself). unfold spec_pruned_tableS. rewrite Eself.
    change (olist (option_map (fun v : list Z => dir ++ v) (self_sw l))) with (self_soft dir l).
    destruct (forallb (sw_on a s) (self_soft dir l)) eqn:Es; cbn [negb].
    - apply Hon. rewrite forallb_app, Hs. exact Es.
    - unfold self_soft in *. destruct (self_sw l) as [x|] eqn:Esw; [|discriminate Es].
      cbn [option_map olist forallb] in Es, Hn |- *. rewrite andb_true_r in Es.
      destruct (self_toggle_ok l x dir Esw Hok) as (j & d & Ej & Et).
      unfold spec_self. rewrite Et.
      rewrite (only_switch_live l ids dir hard (soft ++ [dir ++ x]) 0 j x d Ej); try assumption.
      + reflexivity.
      + apply in_or_app. right. left. reflexivity.
      + unfold soft_of. rewrite filter_app, forallb_app. fold (soft_of (dir ++ x) soft).
        rewrite (soft_of_on _ _ _ Hs). cbn [filter]. rewrite (proj2 (streqb_true _ _) eq_refl). reflexivity.
  Qed.

  Lemma pruned_tbl_IH : forall l,
    Forall (fun p => forall ids dir hard soft,
              incl (dirs_pt dir p) ds -> sw_ok p = true ->
              NoDup (fpaths (flat_pt ids dir hard soft p)) ->
              forallb (sw_on a s) hard = true -> forallb (sw_on a s) soft = true ->
              spec_pruned_port o ids dir (sport_of p) = flat_map (live_reports a s) (flat_pt ids dir hard soft p)) l ->
    forall ids dir hard soft i,
    incl (dirs_tbl dir l) ds -> forallb sw_ok l = true ->
    NoDup (fpaths (flat_tbl ids dir hard soft l i)) ->
    forallb (sw_on a s) hard = true -> forallb (sw_on a s) soft = true ->
    spec_pruned_table o ids dir (map sport_of l) i = flat_map (live_reports a s) (flat_tbl ids dir hard soft l i).
  Proof.
    induction l as [|q r IH]; intros HF ids dir hard soft i Hds Hok Hn Hh Hs; [reflexivity|].
    inversion HF as [|? ? Hq Hr]; subst.
    cbn [forallb] in Hok. apply andb_true_iff in Hok. destruct Hok as [Hokq Hokr].
    cbn [flat_tbl] in Hn. rewrite fpaths_app in Hn. destruct (nodup_app_disj _ _ _ Hn) as (Hn1 & Hn2 & _).
    cbn [map spec_pruned_table flat_tbl]. rewrite flat_map_app.
    rewrite <- (IH Hr); try assumption; [|intros e He; apply Hds; cbn [dirs_tbl]; apply in_or_app; right; exact He].
    f_equal. apply Hq; try assumption.
    intros e He. apply Hds. cbn [dirs_tbl]. apply in_or_app. left. exact He.
  Qed.

  Lemma pruned_flat_pt : forall p ids dir hard soft,
    incl (dirs_pt dir p) ds -> sw_ok p = true ->
    NoDup (fpaths (flat_pt ids dir hard soft p)) ->
    forallb (sw_on a s) hard = true -> forallb (sw_on a s) soft = true ->
    spec_pruned_port o ids dir (sport_of p) = flat_map (live_reports a s) (flat_pt ids dir hard soft p).
  Proof.
    induction p as [nm arr d|nm enum ptr sw sub IHs|nm sw] using pt_ind2; intros ids dir hard soft Hds Hok Hn Hh Hs.
    - cbn [flat_pt flat_map]. rewrite app_nil_r. unfold live_reports, live_f. cbn [f_hard f_soft].
      rewrite Hh, (soft_of_on _ _ _ Hs). cbn [andb]. rewrite <- (app_nil_r (port_reports _)).
      change (port_reports {| f_id := ids; f_port := leaf_port (dir ++ nm) arr d;
                              f_sel := option_map (fun x => dir ++ x) (ld_sel d); f_hard := hard;
                              f_soft := soft_of (dir ++ nm) soft |} ++ [])
        with (flat_map port_reports (flat_pt ids dir hard soft (PLeaf nm arr d))).
      rewrite <- spec_flat_pt. reflexivity.
    - cbn [sport_of]. rewrite spec_pruned_subtree, flat_pt_sub, flat_map_flat_map.
      rewrite dirs_pt_sub in Hds. rewrite flat_pt_sub, fpaths_flat_map in Hn.
      cbn [sw_ok] in Hok. apply andb_true_iff in Hok. destruct Hok as [Hsw Hoksub].
      apply andb_true_iff in Hsw. destruct Hsw as [Hsw Hself].
      apply flat_map_ext_in'. intros x Hx.
      pose proof (nodup_flat_map_piece _ _ _ _ x Hn Hx) as Hnx.
      assert (Hin : In (dir ++ x, option_map (fun g => dir ++ g) ptr, option_map (sw_addr dir (sub_name nm enum) x) sw,
                        option_map (fun v => (dir ++ x) ++ v) (self_sw sub)) ds).
      { apply Hds. apply in_flat_map. exists x. split; [exact Hx | left; reflexivity]. }
      assert (Hsubds : incl (dirs_tbl (dir ++ x) sub) ds).
      { intros e He. apply Hds. apply in_flat_map. exists x. split; [exact Hx | right; exact He]. }
      destruct (oracle_dir _ _ _ _ Hin) as (En & Ed & _). unfold pruned, skipped_spec. rewrite En, Ed.
      set (hard' := hard ++ olist (option_map (fun g => dir ++ g) ptr)) in *.
      set (soft' := soft ++ olist (option_map (sw_addr dir (sub_name nm enum) x) sw)) in *.
      match goal with |- context [negb ?X || negb ?Y] => destruct X eqn:Ep; [destruct Y eqn:Es|] end; cbn [negb orb andb].
      + (* visited: walk_ports on the sub-table *)
        assert (Hh' : forallb (sw_on a s) hard' = true) by (unfold hard'; rewrite forallb_app, Hh; exact Ep).
        assert (Hs' : forallb (sw_on a s) soft' = true) by (unfold soft'; rewrite forallb_app, Hs; exact Es).
        apply (table_self sub ids (dir ++ x) hard' soft' _ _ Hin Hself Hnx Hh' Hs').
        intros Hs''. apply (pruned_tbl_IH sub IHs); assumption.
      + (* 'enabled by' off: the walker is applied to the switch if it stands inside *)
        destruct sw as [g|]; [|discriminate Es].
        cbn [option_map olist forallb] in Es. rewrite andb_true_r in Es.
        apply andb_true_iff in Hsw. destruct Hsw as [Hnul Hform].
        cbn [render_port sub_meta]. rewrite (sub_toggle_meta _ g _ _ (nonul_b_nonul g Hnul)).
        assert (Htg : In (sw_addr dir (sub_name nm enum) x g) (soft' ++ self_soft (dir ++ x) sub))
          by (unfold soft'; apply in_or_app; left; apply in_or_app; right; left; reflexivity).
        unfold sub_name in *. unfold sw_addr in *.
        destruct (subport_split (render_name (sub_segs nm enum) []) g) as [e|] eqn:Esp.
        * (* "name/tg" *)
          apply andb_true_iff in Hform. destruct Hform as [Hform Hboth].
          destruct (inner_ok_leaf sub e Hform) as (j & d' & Ei & Ej). rewrite Ei.
          rewrite (app_assoc dir x e) in Es, Htg.
          rewrite (only_switch_live sub ids (dir ++ x) hard' (soft' ++ self_soft (dir ++ x) sub) 0 j e d' Ej Htg Es); try assumption.
          -- reflexivity.
          -- unfold hard'. rewrite forallb_app, Hh. exact Ep.
          -- (* the toggles asked so far are on; the table's own rSelf names the same switch *)
             unfold soft', soft_of, self_soft. cbn [option_map olist]. rewrite !filter_app, !forallb_app.
             fold (soft_of ((dir ++ x) ++ e) soft). rewrite (soft_of_on _ _ _ Hs). cbn [filter].
             rewrite Esp, (app_assoc dir x e), (proj2 (streqb_true _ _) eq_refl). cbn [negb forallb andb].
             destruct (self_sw sub) as [x2|]; cbn [option_map olist filter]; [|reflexivity].
             apply streqb_true in Hboth. subst x2. rewrite (proj2 (streqb_true _ _) eq_refl). reflexivity.
        * (* a toggle of the parent table: nothing below is live *)
          symmetry. apply (dead_list _ (soft' ++ self_soft (dir ++ x) sub) (dir ++ g)); try assumption.
          -- intros f Hf. exact (proj2 (flat_tbl_incl _ _ _ _ _ _ _ Hf)).
          -- intros Hc. unfold fpaths in Hc. apply in_map_iff in Hc. destruct Hc as (f & Ef & Hf).
             destruct (flat_tbl_prefix _ _ _ _ _ _ _ Hf) as [r Hr]. rewrite Hr, <- app_assoc in Ef.
             apply app_inv_head in Ef. apply negb_true_iff in Hform.
             rewrite <- Ef, has_char_app, (expand_sub_slash _ _ _ Hx) in Hform. discriminate.
      + (* the pointer is NULL *)
        symmetry. apply flat_map_nil. intros f Hf.
        destruct (flat_tbl_incl _ _ _ _ _ _ _ Hf) as [Hi _].
        unfold live_reports, live_f.
        assert (E : forallb (sw_on a s) (f_hard f) = false).
        { destruct (forallb (sw_on a s) (f_hard f)) eqn:E; [|reflexivity].
          rewrite forallb_forall in E. exfalso.
          assert (Ep' : forallb (sw_on a s) (olist (option_map (fun g => dir ++ g) ptr)) = true).
          { apply forallb_forall. intros g Hg. apply E. apply Hi. apply in_or_app. right. exact Hg. }
          assert (Hc : true = false) by exact (eq_trans (eq_sym Ep') Ep). discriminate. }
        rewrite E. reflexivity.
    - cbn [flat_pt flat_map]. rewrite app_nil_r. unfold live_reports, live_f. cbn [f_hard f_soft].
      rewrite Hh, (soft_of_on _ _ _ Hs). cbn [andb]. rewrite <- (app_nil_r (port_reports _)).
      change (port_reports {| f_id := ids; f_port := leaf_port (dir ++ nm) None aux_ld;
                              f_sel := None; f_hard := hard;
                              f_soft := soft_of (dir ++ nm) soft |} ++ [])
        with (flat_map port_reports (flat_pt ids dir hard soft (PAux nm sw))).
      rewrite <- spec_flat_pt. reflexivity.
  Qed.

  Lemma pruned_flat_tbl : forall l ids dir hard soft i,
    incl (dirs_tbl dir l) ds -> forallb sw_ok l = true ->
    NoDup (fpaths (flat_tbl ids dir hard soft l i)) ->
    forallb (sw_on a s) hard = true -> forallb (sw_on a s) soft = true ->
    spec_pruned_table o ids dir (map sport_of l) i = flat_map (live_reports a s) (flat_tbl ids dir hard soft l i).
  Proof.
    intros l. apply pruned_tbl_IH. apply Forall_forall. intros p _. apply pruned_flat_pt.
  Qed.
  (* wherever the oracle of the state answers "self: disabled", self_toggle finds the switch *)
  Lemma selfs_ok_pt : forall p dir, incl (dirs_pt dir p) ds -> sw_ok p = true -> selfs_ok o dir (sport_of p).
  Proof.
    induction p as [nm arr d|nm enum ptr sw sub IHs|nm sw] using pt_ind2; intros dir Hds Hok; [exact I| |exact I].
    cbn [sport_of selfs_ok]. intros x Hx. rewrite dirs_pt_sub in Hds.
    cbn [sw_ok] in Hok. apply andb_true_iff in Hok. destruct Hok as [Hsw Hoksub].
    apply andb_true_iff in Hsw. destruct Hsw as [_ Hself].
    assert (Hin : In (dir ++ x, option_map (fun g => dir ++ g) ptr, option_map (sw_addr dir (sub_name nm enum) x) sw,
                      option_map (fun v => (dir ++ x) ++ v) (self_sw sub)) ds).
    { apply Hds. apply in_flat_map. exists x. split; [exact Hx | left; reflexivity]. }
    assert (Hsubds : incl (dirs_tbl (dir ++ x) sub) ds).
    { intros e He. apply Hds. apply in_flat_map. exists x. split; [exact Hx | right; exact He]. }
    split.
    - intros Hoff. destruct (oracle_dir _ _ _ _ Hin) as (_ & _ & Es). rewrite Es in Hoff.
      destruct (self_sw sub) as [v|] eqn:Ev; [|discriminate Hoff].
      destruct (self_toggle_ok sub v (dir ++ x) Ev Hself) as (j & d & _ & Et). rewrite Et. discriminate.
    - apply selfs_all_forall. apply Forall_forall. intros q Hq. apply in_map_iff in Hq. destruct Hq as (p & <- & Hp).
      rewrite Forall_forall in IHs. apply (IHs p Hp).
      + intros e He. apply Hsubds. exact (dirs_tbl_in _ _ _ Hp e He).
      + rewrite forallb_forall in Hoksub. exact (Hoksub p Hp).
  Qed.

  Lemma tbl_ok_table : forall l dir ptr sw,
    In (dir, ptr, sw, option_map (fun v => dir ++ v) (self_sw l)) ds -> incl (dirs_tbl dir l) ds ->
    self_ok l = true -> forallb sw_ok l = true -> tbl_ok o dir (map sport_of l).
  Proof.
    intros l dir ptr sw Hin Hds Hself Hok. split.
    - intros Hoff. destruct (oracle_dir _ _ _ _ Hin) as (_ & _ & Es). rewrite Es in Hoff.
      destruct (self_sw l) as [v|] eqn:Ev; [|discriminate Hoff].
      destruct (self_toggle_ok l v dir Ev Hself) as (j & d & _ & Et). rewrite Et. discriminate.
    - apply Forall_forall. intros q Hq. apply in_map_iff in Hq. destruct Hq as (p & <- & Hp).
      apply selfs_ok_pt.
      + intros e He. apply Hds. exact (dirs_tbl_in _ _ _ Hp e He).
      + rewrite forallb_forall in Hok. exact (Hok p Hp).
  Qed.
End Pruned.

(* C12_walk_live_reports: walk_ports with the runtime object of state [st] calls the
   walker with the element addresses of exactly the live ports of app_of_tree, in the
   application's order.  A sub-tree whose inner switch ("name/tg") is off is not entered,
   but the walker is applied to that switch: it is the one live port below; likewise a
   table whose rSelf names a toggle that is off. *)
Theorem walk_live_reports : forall t st,
  names_ok (sports_of t) = true -> switches_ok t = true ->
  NoDup (map dir_addr (dirs_root t)) -> NoDup (map p_path (app_of_tree t)) ->
  walk (Some (oracle_of (app_of_tree t) (dirs_root t) st)) (map render_port (sports_of t)) [] =
  WOk (flat_map (live_reports (app_of_tree t) st) (flat_root t)) [47].
Proof.
  intros t st Hn Hsw Hnd Hpaths. destruct (names_ok_sound _ Hn) as (Hwf & _).
  unfold switches_ok in Hsw. apply andb_true_iff in Hsw. destruct Hsw as [Hself Hsw].
  unfold walk. rewrite walk_port_empty_buf.
  change (Port [] None (Some (map render_port (sports_of t))))
    with (render_port (SPort [] [] None (Some (sports_of t)))).
  assert (Hroot : In ([47], @None str, @None str, option_map (fun v => [47] ++ v) (self_sw t)) (dirs_root t))
    by (left; reflexivity).
  assert (Hsub : incl (dirs_tbl [47] t) (dirs_root t)) by (intros e He; right; exact He).
  rewrite (walk_pruned_wf (oracle_of (app_of_tree t) (dirs_root t) st) _ [] [47] [] [] None (sports_of t) eq_refl Hwf);
    [| discriminate | exact (tbl_ok_table _ st _ Hnd t [47] None None Hroot Hsub Hself Hsw)].
  f_equal. unfold sports_of. rewrite paths_app in Hpaths. unfold flat_root in Hpaths |- *.
  apply (table_self (app_of_tree t) st (dirs_root t) Hnd t [] [47] [] [] None None Hroot Hself Hpaths eq_refl eq_refl).
  intros Hs''. apply (pruned_flat_tbl _ st _ Hnd); try assumption. reflexivity.
Qed.

Lemma live_f_live : forall t st i f, nth_error (flat_root t) i = Some f ->
  live_f (app_of_tree t) st f = live (app_of_tree t) st i.
Proof.
  intros t st i f Ef. unfold live_f, live, exists_, all_on. rewrite (port_at_app t i f Ef).
  unfold resolve. cbn [p_hard p_soft]. rewrite !forallb_map'. unfold sw_on.
  rewrite <- (paths_app t). reflexivity.
Qed.

Lemma nodup_flat_map_idx : forall A B (g : A -> list B) l i j x y v,
  NoDup (flat_map g l) -> nth_error l i = Some x -> nth_error l j = Some y ->
  In v (g x) -> In v (g y) -> i = j.
Proof.
  induction l as [|h l IH]; intros i j x y v Hnd Ei Ej Hx Hy; [destruct i; discriminate|].
  cbn [flat_map] in Hnd.
  assert (Hsplit : NoDup (g h) /\ NoDup (flat_map g l) /\ forall z, In z (g h) -> ~ In z (flat_map g l)).
  { clear - Hnd. induction (g h) as [|z zs IHz]; cbn [app] in Hnd.
    - split; [constructor|]. split; [exact Hnd|]. intros z [].
    - inversion Hnd as [|? ? Hnot Hnd']; subst. destruct (IHz Hnd') as (H1 & H2 & H3).
      split; [constructor; [intro Hc; apply Hnot; apply in_or_app; left; exact Hc | exact H1]|].
      split; [exact H2|]. intros w [<-|Hw]; [intro Hc; apply Hnot; apply in_or_app; right; exact Hc | apply H3; exact Hw]. }
  destruct Hsplit as (_ & Hnd2 & Hdis).
  destruct i as [|i]; destruct j as [|j]; cbn in Ei, Ej.
  - reflexivity.
  - inversion Ei; subst. exfalso. apply (Hdis v Hx). apply in_flat_map. exists y. split; [eapply nth_error_In; exact Ej | exact Hy].
  - inversion Ej; subst. exfalso. apply (Hdis v Hy). apply in_flat_map. exists x. split; [eapply nth_error_In; exact Ei | exact Hx].
  - f_equal. eapply IH; eassumption.
Qed.

Lemma elem_addr_resolve : forall ps f k, elem_addr (resolve ps f) k = elem_addr (f_port f) k.
Proof. reflexivity. Qed.

(* C12_walk_stage: the ports the walk reaches with the runtime object of [st] are the
   live ports of the application, in order - the former premise "C09" *)
Theorem walk_stage : forall t st,
  let a := app_of_tree t in
  names_ok (sports_of t) = true -> switches_ok t = true ->
  NoDup (map dir_addr (dirs_root t)) -> NoDup (map p_path a) ->
  NoDup (app_addresses a) -> (forall i, (i < length a)%nat -> (0 < p_len (port_at a i))%nat) ->
  walk_tree t st = filter (live a st) (seq 0 (length a)).
Proof.
  intros t st a Hn Hsw Hnd Hpaths Haddr Hlen. unfold a in *. clear a. unfold walk_tree.
  rewrite (walk_live_reports t st Hn Hsw Hnd Hpaths).
  apply filter_ext_in. intros i Hi. apply in_seq in Hi. destruct Hi as [_ Hi]. cbn [Nat.add] in Hi.
  destruct (nth_error (flat_root t) i) as [f|] eqn:Ef.
  2:{ apply nth_error_None in Ef. unfold app_of_tree in Hi. rewrite map_length in Hi. lia. }
  rewrite <- (live_f_live t st i f Ef).
  assert (Hpi : port_at (app_of_tree t) i = resolve (fpaths (flat_root t)) f) by (apply port_at_app; exact Ef).
  destruct (live_f (app_of_tree t) st f) eqn:El.
  - (* live: its first element is reported *)
    unfold reported. apply existsb_exists. exists (f_id f, elem_addr (f_port f) 0). split.
    + apply in_flat_map. exists f. split; [eapply nth_error_In; exact Ef|].
      unfold live_reports. rewrite El. unfold port_reports.
      apply in_map_iff. exists 0%nat. split; [reflexivity|]. apply in_seq.
      specialize (Hlen i Hi). rewrite Hpi in Hlen. cbn [resolve p_len] in Hlen. lia.
    + cbn [snd]. rewrite Hpi, elem_addr_resolve. apply streqb_true. reflexivity.
  - (* not live: no report carries one of its addresses *)
    destruct (reported _ _) eqn:Er; [|reflexivity]. exfalso.
    unfold reported in Er. apply existsb_exists in Er. destruct Er as (r & Hr & Hs).
    apply streqb_true in Hs. apply in_flat_map in Hr. destruct Hr as (f' & Hf' & Hr).
    unfold live_reports in Hr. destruct (live_f (app_of_tree t) st f') eqn:El'; [|contradiction].
    unfold port_reports in Hr. apply in_map_iff in Hr. destruct Hr as (k & <- & Hk). cbn [snd] in Hs.
    apply in_seq in Hk. destruct (In_nth_error _ _ Hf') as [j Ej].
    assert (Hij : j = i).
    { assert (Eai : nth_error (app_of_tree t) i = Some (resolve (fpaths (flat_root t)) f))
        by (unfold app_of_tree; rewrite nth_error_map, Ef; reflexivity).
      assert (Eaj : nth_error (app_of_tree t) j = Some (resolve (fpaths (flat_root t)) f'))
        by (unfold app_of_tree; rewrite nth_error_map, Ej; reflexivity).
      apply (nodup_flat_map_idx _ _ (fun p => map (elem_addr p) (seq 0 (p_len p))) (app_of_tree t) j i _ _
               (elem_addr (f_port f') k) Haddr Eaj Eai).
      - apply in_map_iff. exists k. split; [reflexivity|]. apply in_seq. cbn [resolve p_len]. lia.
      - rewrite Hs, Hpi. apply in_map_iff. exists 0%nat. split; [reflexivity|]. apply in_seq.
        specialize (Hlen i Hi). rewrite Hpi in Hlen. lia. }
    subst j. rewrite Ef in Ej. inversion Ej; subst f'. congruence.
Qed.
