(* C12 - the walk stage for the application of a port tree:
   "the walker reports exactly the addresses of app_of_tree" - every element of every
   port, each once, in the order of the application (C09_enumerates over the names of
   the tree).  The walk of C09's model expands "name#N" leaves (expand_bundles): an
   array port of N elements is reported N times, once per element address; the save
   walk asks for one report per port and expands the elements itself. *)
From Coq Require Import List ZArith Bool Lia Arith.
From RtoscV Require Import Ports.NameModel Ports.WalkModel Ports.WalkProofs Ports.EnumProofs
     Ports.DispatchModel Ports.TreeProofs Ports.DispatchWalk Ports.NamesModel Ports.NamesOk.
From RtoscV Require Import Save.TopoModel Save.SaveModel Save.TreeApp Save.DispatchStage.
Import ListNotations.
Local Open Scope Z_scope.

(* what the walker is called with for one port of the application: (index path of the
   leaf, address) of every element *)
Definition port_reports (f : fport) : list report :=
  map (fun k => (f_id f, elem_addr (f_port f) k)) (seq 0 (p_len (f_port f))).

Lemma expand_leaf : forall nm arr,
  expand (leaf_segs nm arr) =
  map (leaf_rel nm arr) (seq 0 (match arr with Some n => n | None => 1%nat end)).
Proof.
  intros nm [n|]; cbn [leaf_segs expand leaf_rel].
  - rewrite Nat2Z.id. generalize (seq 0 n). intros l. induction l as [|k l IH]; [reflexivity|].
    simpl. simpl in IH. rewrite IH, app_nil_r. reflexivity.
  - cbn. rewrite app_nil_r. reflexivity.
Qed.

Lemma flat_map_flat_map : forall A B C (f : A -> list B) (g : B -> list C) l,
  flat_map g (flat_map f l) = flat_map (fun x => flat_map g (f x)) l.
Proof.
  induction l as [|x l IH]; [reflexivity|]. cbn [flat_map]. rewrite flat_map_app, IH. reflexivity.
Qed.

Lemma spec_flat_pt : forall p ids pre hard soft,
  spec_addrs_port ids pre (sport_of p) = flat_map port_reports (flat_pt ids pre hard soft p).
Proof.
  induction p as [nm arr d|nm enum ptr sw sub IHs] using pt_ind2; intros ids pre hard soft.
  - cbn [sport_of spec_addrs_port flat_pt flat_map]. rewrite app_nil_r. unfold port_reports.
    cbn [f_id f_port]. rewrite expand_leaf, map_map.
    change (p_len (leaf_port (pre ++ nm) arr d)) with (match arr with Some n => n | None => 1%nat end).
    apply map_ext. intros k. rewrite elem_addr_leaf. reflexivity.
  - cbn [sport_of]. rewrite spec_addrs_subtree, flat_pt_sub, flat_map_flat_map.
    apply flat_map_ext. intros x.
    generalize 0%nat. induction sub as [|q r IHr]; intros i; [reflexivity|].
    inversion IHs as [|? ? Hq Hr]; subst.
    cbn [map spec_table flat_tbl]. rewrite flat_map_app, <- (IHr Hr). f_equal. apply Hq.
Qed.

Lemma spec_flat_tbl : forall l ids pre hard soft i,
  spec_table ids pre (map sport_of l) i = flat_map port_reports (flat_tbl ids pre hard soft l i).
Proof.
  induction l as [|q r IH]; intros ids pre hard soft i; [reflexivity|].
  cbn [map spec_table flat_tbl]. rewrite flat_map_app, <- IH. f_equal. apply spec_flat_pt.
Qed.

Lemma spec_addrs_tree : forall t, spec_addrs (sports_of t) = flat_map port_reports (flat_root t).
Proof.
  intros t. unfold spec_addrs. rewrite spec_addrs_subtree. cbn [expand map flat_map app].
  rewrite app_nil_r. apply spec_flat_tbl.
Qed.

(* the ports of the application and those of the flattening carry the same addresses *)
Lemma reports_app : forall t,
  flat_map port_reports (flat_root t) =
  flat_map (fun fp => map (fun k => (f_id (fst fp), elem_addr (snd fp) k)) (seq 0 (p_len (snd fp))))
           (combine (flat_root t) (app_of_tree t)).
Proof.
  intros t. unfold app_of_tree. generalize (fpaths (flat_root t)). intros ps.
  induction (flat_root t) as [|f fs IH]; [reflexivity|].
  cbn [map combine flat_map]. rewrite IH. reflexivity.
Qed.

(* C12_walk_addresses: walk_ports over the tree (no runtime object) calls the walker with
   exactly the element addresses of app_of_tree, port by port in the application's
   order, every element once - and leaves the buffer as "/" *)
Theorem walk_addresses : forall t,
  names_ok (sports_of t) = true ->
  walk None (map render_port (sports_of t)) [] =
  WOk (flat_map (fun fp => map (fun k => (f_id (fst fp), elem_addr (snd fp) k)) (seq 0 (p_len (snd fp))))
                (combine (flat_root t) (app_of_tree t))) [47].
Proof.
  intros t H. destruct (names_ok_sound _ H) as (Hwf & _).
  rewrite (walk_enumerates _ Hwf), spec_addrs_tree, reports_app. reflexivity.
Qed.

(* the addresses alone: element k of port i, for i = 0 .. length a - 1, k = 0 .. p_len - 1 *)
Definition app_addresses (a : app) : list str :=
  flat_map (fun p => map (elem_addr p) (seq 0 (p_len p))) a.

Theorem walk_reports_app_addresses : forall t out b,
  names_ok (sports_of t) = true ->
  walk None (map render_port (sports_of t)) [] = WOk out b ->
  map snd out = app_addresses (app_of_tree t) /\ b = [47].
Proof.
  intros t out b H Hw. rewrite (walk_addresses t H) in Hw. inversion Hw; subst. split; [|reflexivity].
  unfold app_addresses.
  assert (Hlen : length (flat_root t) = length (app_of_tree t)) by (unfold app_of_tree; rewrite map_length; reflexivity).
  revert Hlen. generalize (app_of_tree t). generalize (flat_root t).
  induction l as [|f fs IH]; intros a Hlen; destruct a as [|p a]; try discriminate; [reflexivity|].
  cbn [combine flat_map]. rewrite map_app, map_map. cbn [snd fst]. f_equal. apply IH. cbn in Hlen. lia.
Qed.
