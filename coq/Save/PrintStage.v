(* C12 - the print/scan stage of the round trip: a savefile body is the concatenation of
   its lines,  address SP printed-values NL  (get_changed_values: port_buffer, then
   rtosc_print_arg_vals into " ...", then "\n" - the text rtosc_print_message makes,
   C10's print_message, followed by a line feed).

   Part 1 (C10's models): a message printed with range compression on (the default
   options) whose values are in C10's [goodc0] fragment is read back - by
   rtosc_count_printed_arg_vals_of_msg and rtosc_scan_message - also when MORE TEXT
   FOLLOWS the line feed: nothing, or the next message.  The scanner stops in front of
   the '/' of the next line.  (C10's own theorems speak about a text that ends with
   the message: C10_message_any_partial.)
   Part 2: the loop of dispatch_printed_messages over such a body: lines do not
   interfere. *)
From Coq Require Import List ZArith Bool Lia.
From RtoscV Require Import Pretty.Tok Pretty.FloatFmt Pretty.PrintModel Pretty.ScanModel
  Pretty.PrettyProofs Pretty.RangeProofs Pretty.RunProofs Pretty.ListProofs Pretty.ArrayProofs.
Import ListNotations.
Local Open Scope Z_scope.

(* what may stand behind the line feed of a line: the end of the body, or a message *)
Definition tail_ok (tl : list Z) : Prop := tl = [] \/ exists r, tl = 47 :: r.

Lemma skip_ws_tail tl : tail_ok tl -> skip_ws (10 :: tl) = tl.
Proof. intros [->|[r ->]]; reflexivity. Qed.

Lemma rest_ok_nl tl : tail_ok tl -> rest_ok (10 :: tl).
Proof.
  intros H. split; [split|].
  - right. reflexivity.
  - rewrite (skip_ws_tail tl H). destruct H as [->|[r ->]]; cbn; unfold hd0, at_; cbn; lia.
  - rewrite (skip_ws_tail tl H). destruct H as [->|[r ->]]; reflexivity.
Qed.

Lemma skip_ws_comments_tail f tl : tail_ok tl -> skip_ws_comments (S f) (10 :: tl) = tl.
Proof.
  intros H. cbn [skip_ws_comments]. rewrite (skip_ws_tail tl H).
  destruct H as [->|[r ->]]; reflexivity.
Qed.

Section Loops.
Variables dec2f dec2d : list Z -> Z.

(* the scanner's loop over an item sequence with a line feed and a tail behind it *)
Lemma scan_loop_iseq_tl its T p tl : iseq dec2f dec2d p its T -> its <> [] -> tail_ok tl ->
  forall fuel i n acc, i = Z.of_nat (length acc) -> J acc -> prevrel p acc ->
  n = i + Z.of_nat (length (islots its)) -> (length its < fuel)%nat ->
  scan_loop dec2f dec2d fuel (T ++ 10 :: tl) i n acc = Ok (acc ++ islots its, tl).
Proof.
  induction 1 as [p|p it Hok|p it sep it' its T Hok Hsep HL IH]; intros Hne Htl fuel i n acc Hi HJ Hprev Hn Hf.
  - congruence.
  - destruct fuel; [lia|]. unfold islots in *. cbn [map concat] in *. rewrite app_nil_r in *.
    assert (Hpos : (1 <= length (item_slots it))%nat) by (destruct it; cbn; lia).
    cbn [scan_loop]. replace (n <=? i) with false by lia.
    pose proof (item_scan dec2f dec2d p it (10 :: tl) acc (length (item_text it ++ 10 :: tl)) Hok (rest_ok_nl tl Htl) Hprev
                  ltac:(rewrite app_length; lia)) as Hs.
    subst i. rewrite Hs.
    rewrite (item_slots_offset dec2f dec2d _ _ Hok).
    destruct fuel; [cbn in Hf; lia|]. cbn [scan_loop].
    replace (n <=? Z.of_nat (length acc) + Z.of_nat (length (item_slots it))) with true by lia.
    cbn [length]. rewrite (skip_ws_comments_tail _ tl Htl). reflexivity.
  - destruct fuel; [lia|].
    destruct (iseq_first dec2f dec2d _ _ _ _ HL) as (c' & r' & -> & Hc').
    pose proof (rest_ok_sep sep c' (r' ++ 10 :: tl) Hsep Hc') as Hro.
    assert (Hpos : (1 <= length (item_slots it))%nat) by (destruct it; cbn; lia).
    unfold islots in *. cbn [map concat] in Hn |- *. rewrite app_length in Hn.
    cbn [scan_loop]. replace (n <=? i) with false by lia.
    rewrite <- !app_assoc. cbn [app].
    pose proof (item_scan dec2f dec2d p it _ acc (length (item_text it ++ sep ++ c' :: r' ++ 10 :: tl)) Hok Hro Hprev
                  ltac:(rewrite app_length; lia)) as Hs.
    subst i. rewrite Hs. rewrite (item_slots_offset dec2f dec2d _ _ Hok).
    rewrite skip_ws_comments_tok by (try apply Hsep; assumption).
    destruct (scan_llhs_item dec2f dec2d p it acc Hok HJ) as [HJ' Hll].
    change (c' :: r' ++ 10 :: tl) with ((c' :: r') ++ 10 :: tl).
    rewrite (IH ltac:(discriminate) Htl fuel _ n (acc ++ item_slots it)).
    + now rewrite <- app_assoc.
    + rewrite app_length. lia.
    + exact HJ'.
    + split; [discriminate|]. intros pv Epv. inversion Epv; subst pv.
      split; [exact (item_scalar_last dec2f dec2d _ _ Hok)|]. split; [|exact Hll].
      destruct (item_slots it); [cbn in Hpos; lia|]. intros E0. apply app_eq_nil in E0 as [_ E0]. discriminate.
    + cbn [map concat]. lia.
    + cbn [length] in *. lia.
Qed.

(* the checker's loop *)
Lemma count_loop_iseq_tl its T p tl : iseq dec2f dec2d p its T -> its <> [] -> tail_ok tl ->
  forall fuel recent num, recentrel dec2f dec2d p recent (T ++ 10 :: tl) -> (S (length T) < fuel)%nat ->
  count_loop dec2f dec2d fuel (T ++ 10 :: tl) recent num = Ok (true, num + Z.of_nat (length (islots its))).
Proof.
  induction 1 as [p|p it Hok|p it sep it' its T Hok Hsep HL IH]; intros Hne Htl fuel recent num Hrec Hf.
  - congruence.
  - destruct fuel; [lia|]. destruct (item_first dec2f dec2d _ _ Hok) as (c & r & E & Hc).
    destruct Hc as (H0 & H47 & H37 & Hsp & H46 & H40).
    assert (Hh : forall X, hd0 (item_text it ++ X) = c) by (intros; rewrite E; reflexivity).
    cbn [count_loop]. rewrite !Hh. replace ((c =? 0) || (c =? 47)) with false by lia.
    destruct (item_skip dec2f dec2d p it (10 :: tl) recent (length (item_text it ++ 10 :: tl)) Hok (rest_ok_nl tl Htl) Hrec
                ltac:(rewrite app_length; lia)) as [ty Es].
    rewrite Es. rewrite (skip_ws_tail tl Htl).
    destruct fuel; [rewrite E in Hf; cbn in Hf; lia|].
    unfold islots. cbn [map concat]. rewrite app_nil_r.
    destruct Htl as [->|[r0 ->]].
    + cbn [hd0 at_ nth Z.eqb negb andb count_loop orb]. reflexivity.
    + rewrite hd0_cons. replace (negb (47 =? 0) && negb (isspace 47)) with true by reflexivity.
      rewrite skip_comments_ws_no by lia. cbn [count_loop]. rewrite hd0_cons.
      replace ((47 =? 0) || (47 =? 47)) with true by reflexivity. reflexivity.
  - destruct fuel; [lia|]. destruct (item_first dec2f dec2d _ _ Hok) as (c & r & E & Hc).
    destruct (iseq_first dec2f dec2d _ _ _ _ HL) as (c' & r' & -> & Hc').
    pose proof (rest_ok_sep sep c' (r' ++ 10 :: tl) Hsep Hc') as Hro.
    destruct Hc as (H0 & H47 & H37 & Hsp & H46 & H40).
    assert (Hh : forall X, hd0 (item_text it ++ X) = c) by (intros; rewrite E; reflexivity).
    rewrite <- !app_assoc in *. cbn [app] in *.
    cbn [count_loop]. rewrite !Hh. replace ((c =? 0) || (c =? 47)) with false by lia.
    destruct (item_skip dec2f dec2d p it _ recent (length (item_text it ++ sep ++ c' :: r' ++ 10 :: tl)) Hok Hro Hrec
                ltac:(rewrite app_length; lia)) as [ty Es].
    rewrite Es.
    destruct Hc' as (H0' & H47' & H37' & Hsp' & H46' & H40').
    rewrite skip_ws_sep by (try apply Hsep; now rewrite hd0_cons).
    rewrite hd0_cons. replace (negb (c' =? 0) && negb (isspace c')) with true
      by (rewrite Hsp'; symmetry; lia).
    rewrite skip_comments_ws_no by assumption.
    change (c' :: r' ++ 10 :: tl) with ((c' :: r') ++ 10 :: tl).
    rewrite (IH ltac:(discriminate) Htl fuel).
    + f_equal. f_equal. unfold islots. cbn [map concat]. rewrite !app_length. lia.
    + cbn [recentrel]. exists p, it, sep. repeat split; try assumption; apply Hsep.
    + rewrite !app_length in Hf. rewrite E in Hf. cbn [length] in *. lia.
Qed.
End Loops.

(* ------------------------------------------------------------------------- *)
(* a whole message, a line feed, and what follows                              *)
Section Msg.
Variables dec2f dec2d : list Z -> Z.

Theorem message_reads_tl_z o zf zd addr vs text w :
  compress o = true -> zchoice zf zd -> good_addr addr -> Forall (goodc o zf zd) vs -> Z.of_nat (length vs) < 2 ^ 31 ->
  print_message o addr vs 0 = Some (text, w) ->
  exists slots,
    expand slots = Some vs /\ (exists sfx, text = addr ++ sfx) /\
    forall tl, tail_ok tl ->
    count_printed_arg_vals_of_msg dec2f dec2d (text ++ 10 :: tl) = Ok (true, Z.of_nat (length slots)) /\
    scan_message dec2f dec2d (text ++ 10 :: tl) (Z.of_nat (length slots)) = Ok (addr, slots, tl).
Proof.
  intros Hon Hz0 [[ar Ea] Hns] Hg' Hlen Hp. unfold print_message in Hp.
  destruct (print_vals_loop (S (length vs)) o vs None 0 (Z.of_nat (length vs)) addr true 0
              (0 + (len addr + 1)) (if 0 + (len addr + 1) =? 0 then 0 else 1)) as [[t w']|] eqn:El;
    [|discriminate].
  inversion Hp; subst text w; clear Hp.
  assert (Hsk : forall tail f, skip_comments_ws f (addr ++ tail) = addr ++ tail)
    by (intros; rewrite Ea; cbn [app]; apply skip_comments_ws_no; lia).
  assert (Hhd : forall tail, hd0 (addr ++ tail) = 47) by (intros; rewrite Ea; reflexivity).
  assert (Hnw : forall tail, skip_ws (addr ++ tail) = addr ++ tail)
    by (intros; apply skip_ws_nonspace; rewrite Hhd; reflexivity).
  destruct vs as [|v vs'].
  - (* no values: "addr SP NL tail" *)
    cbn in El. inversion El; subst t w'. cbn [length Z.of_nat Z.eqb].
    exists []. split; [reflexivity|]. split; [eexists; reflexivity|]. intros tl Htl.
    rewrite <- app_assoc. cbn [app].
    assert (Hd := dropwhile_nonspace addr (32 :: 10 :: tl) Hns (or_intror eq_refl)). destruct Hd as [Hd Ht].
    unfold count_printed_arg_vals_of_msg, scan_message.
    rewrite !Hnw, !Hsk, !Hhd. cbn [Z.eqb Pos.eqb negb]. rewrite Hd, Ht.
    assert (Hws : skip_ws (32 :: 10 :: tl) = tl) by (destruct Htl as [->|[r ->]]; reflexivity).
    rewrite Hws. split.
    + unfold count_printed_arg_vals. rewrite Hws.
      destruct Htl as [->|[r ->]]; [reflexivity|].
      rewrite skip_comments_ws_no by lia. reflexivity.
    + reflexivity.
  - apply (print_loop_iseq dec2f dec2d o Hon zf zd Hz0) in El; try assumption; try lia; try discriminate.
    destruct El as (its & sfx & -> & -> & Hseq & Horig & _).
    assert (Hne : its <> []) by (intros ->; cbn in Horig; discriminate).
    destruct (iseq_from_iseq dec2f dec2d _ _ _ _ Hseq Hne) as (sepz & T & -> & HL & Hsep).
    assert (Hz : (Z.of_nat (length (v :: vs')) =? 0) = false) by (apply Z.eqb_neq; cbn [length]; lia). rewrite !Hz.
    destruct its as [|it its']; [congruence|].
    destruct (iseq_first dec2f dec2d _ _ _ _ HL) as (c & r & -> & Hc).
    exists (islots (it :: its')). split; [rewrite <- Horig; exact (expand_items dec2f dec2d _ _ _ HL)|].
    split; [cbv iota; eexists; reflexivity|].
    intros tl Htl.
    cbv iota. rewrite <- !app_assoc. cbn [app].
    assert (Hsp : sepz ++ c :: r ++ 10 :: tl = [] \/ isspace (hd0 (sepz ++ c :: r ++ 10 :: tl)) = true).
    { right. destruct Hsep as [Hne' Hall]. destruct sepz as [|x s]; [congruence|]. now inversion Hall. }
    destruct (dropwhile_nonspace addr (sepz ++ c :: r ++ 10 :: tl) Hns Hsp) as [Hd Ht].
    assert (Hws : skip_ws (sepz ++ c :: r ++ 10 :: tl) = c :: r ++ 10 :: tl).
    { apply skip_ws_sep; [apply Hsep|]. rewrite hd0_cons. apply Hc. }
    unfold count_printed_arg_vals_of_msg, scan_message.
    rewrite !Hnw, !Hsk, !Hhd. cbn [Z.eqb Pos.eqb negb]. rewrite Hd, Ht, Hws.
    split.
    + unfold count_printed_arg_vals. rewrite Hws.
      destruct Hc as (H0 & H47 & H37 & Hsp' & H46 & H40).
      rewrite skip_comments_ws_no by assumption.
      change (c :: r ++ 10 :: tl) with ((c :: r) ++ 10 :: tl).
      rewrite (count_loop_iseq_tl dec2f dec2d _ _ _ tl HL ltac:(discriminate) Htl); [reflexivity|reflexivity|].
      rewrite !app_length. cbn [length]. lia.
    + unfold scan_arg_vals. change (c :: r ++ 10 :: tl) with ((c :: r) ++ 10 :: tl).
      rewrite (scan_loop_iseq_tl dec2f dec2d _ _ _ tl HL ltac:(discriminate) Htl _ 0 _ []); try reflexivity; try exact I.
      * split; [reflexivity|discriminate].
      * assert (Hle : (length (it :: its') <= length (islots (it :: its')))%nat).
        { clear. generalize (it :: its'). intros its. unfold islots. induction its as [|x its IH]; [cbn; lia|].
          cbn [map concat length]. rewrite app_length. destruct x; cbn [item_slots length]; lia. }
        rewrite Nat2Z.id. lia.
Qed.

(* the side condition on the zeroes at list level, as C10's exported theorems state it *)
Theorem message_reads_tl_nz o addr vs text w :
  compress o = true -> good_addr addr -> Forall (goodv o) vs -> nozmix vs -> Z.of_nat (length vs) < 2 ^ 31 ->
  print_message o addr vs 0 = Some (text, w) ->
  exists slots,
    expand slots = Some vs /\ (exists sfx, text = addr ++ sfx) /\
    forall tl, tail_ok tl ->
    count_printed_arg_vals_of_msg dec2f dec2d (text ++ 10 :: tl) = Ok (true, Z.of_nat (length slots)) /\
    scan_message dec2f dec2d (text ++ 10 :: tl) (Z.of_nat (length slots)) = Ok (addr, slots, tl).
Proof.
  intros Hon Ha Hg Hnz. destruct (zero_choice o vs Hg Hnz) as (zf & zd & Hz & Hg').
  exact (message_reads_tl_z o zf zd addr vs text w Hon Hz Ha Hg').
Qed.

(* stage 5's statement: the fragment without floats, bare symbols and blobs *)
Theorem message_reads_tl o addr vs text w :
  compress o = true -> good_addr addr -> Forall goodc0 vs -> Z.of_nat (length vs) < 2 ^ 31 ->
  print_message o addr vs 0 = Some (text, w) ->
  exists slots,
    expand slots = Some vs /\ (exists sfx, text = addr ++ sfx) /\
    forall tl, tail_ok tl ->
    count_printed_arg_vals_of_msg dec2f dec2d (text ++ 10 :: tl) = Ok (true, Z.of_nat (length slots)) /\
    scan_message dec2f dec2d (text ++ 10 :: tl) (Z.of_nat (length slots)) = Ok (addr, slots, tl).
Proof.
  intros Hon Ha Hg. apply (message_reads_tl_z o 0 0 addr vs text w Hon); try assumption.
  - split; left; reflexivity.
  - eapply Forall_impl; [|exact Hg]. intros a Hx. left. exact Hx.
Qed.
End Msg.

(* ------------------------------------------------------------------------- *)
(* a message whose values are ONE array ("/addr [e1 e2 ...]", the line of a   *)
(* "name#N" port), a line feed, and what follows.  Any option record: runs     *)
(* inside the array become "NxV" / "a ... b", line breaks fall between the     *)
(* elements, the array may put its own line break over the blank behind the    *)
(* address.                                                                     *)
Section ArrMsg.
Variables dec2f dec2d : list Z -> Z.

Theorem array_message_reads_tl_z o zf zd addr ty elems text w :
  zchoice zf zd -> good_addr addr -> Forall (goodc o zf zd) elems -> homog elems -> elems <> [] ->
  Z.of_nat (length elems) + 1 < 2 ^ 31 ->
  print_message o addr (VArr ty (Z.of_nat (length elems)) :: elems) 0 = Some (text, w) ->
  exists ty' slots,
    expand slots = Some elems /\ (exists sfx, text = addr ++ sfx) /\
    forall tl, tail_ok tl ->
    count_printed_arg_vals_of_msg dec2f dec2d (text ++ 10 :: tl) = Ok (true, 1 + Z.of_nat (length slots)) /\
    scan_message dec2f dec2d (text ++ 10 :: tl) (1 + Z.of_nat (length slots))
    = Ok (addr, VArr ty' (Z.of_nat (length slots)) :: slots, tl).
Proof.
  intros Hz [[ar Ea] Hns] Hg Hh Hne Hlen Hp. unfold print_message in Hp. cbn [length] in Hp.
  remember (S (length elems)) as f1 eqn:Ef1. cbn [print_vals_loop] in Hp.
  replace (Z.of_nat f1 <=? 0) with false in Hp by lia.
  replace (Z.of_nat f1 - 0) with (Z.of_nat (length elems) + 1) in Hp by lia.
  rewrite conv_single_array in Hp. cbn [print_arg_val_top] in Hp.
  match type of Hp with context [print_array ?a ?b ?c ?d ?e ?f] => 
    destruct (print_array a b c d e f) as [[[[t tmp] cols1] bb]|] eqn:Epa; [|discriminate] end.
  change (breaks_itself (av_type (VArr ty (Z.of_nat (length elems))))) with true in Hp.
  cbv beta iota zeta in Hp. cbn [orb negb andb] in Hp.
  cbn [next_arg_offset] in Hp.
  replace (0 + (Z.of_nat (length elems) + 1) <? Z.of_nat f1) with false in Hp by lia.
  subst f1. cbn [print_vals_loop] in Hp.
  assert (E : Z.of_nat (S (length elems)) <=? 0 + (Z.of_nat (length elems) + 1) = true) by (apply Z.leb_le; lia).
  rewrite E in Hp. clear E.
  rewrite andb_false_r in Hp.
  replace (Z.of_nat (S (length elems)) =? 0) with false in Hp by (symmetry; apply Z.eqb_neq; lia).
  inversion Hp; subst text w. clear Hp.
  destruct elems as [|a0 rest]; [congruence|].
  rewrite <- (app_nil_r (a0 :: rest)) in Epa at 2.
  destruct (print_array_iseq dec2f dec2d o print_arr 4 zf zd Hz _ ty (a0 :: rest) [] _ true t tmp cols1 bb Hg (Forall_nil _)
              ltac:(rewrite app_nil_r; lia) eq_refl ltac:(discriminate) Epa) as (its & T & -> & -> & Hseq & Horig & Hne' & _).
  destruct (iseq_from_iseq dec2f dec2d _ _ _ _ Hseq Hne') as (sepz & T' & -> & HL & ->). cbn [app].
  assert (Hty : atys_ok 0 its).
  { apply (atys_from (a0 :: rest) Hh); [|left; reflexivity].
    intros v tt Hin. rewrite <- Horig. exact (ival_in _ _ _ Hin). }
  exists (lty 32 its), (islots its).
  split; [rewrite <- Horig; exact (expand_items dec2f dec2d _ _ _ HL)|].
  split; [eexists; reflexivity|].
  intros tl Htl.
  destruct (array_reads dec2f dec2d its T' HL Hne' Hty (10 :: tl) (rest_ok_nl tl Htl)) as [Hs Hc].
  set (sepA := if bb then 10 :: sp4 else [32]).
  set (X := 91 :: T' ++ 93 :: 10 :: tl).
  assert (Etxt : (addr ++ (if bb then [10] else [32]) ++ (if bb then sp4 else []) ++ 91 :: T' ++ [93]) ++ 10 :: tl
                 = addr ++ sepA ++ X).
  { unfold sepA, X. destruct bb; rewrite <- !app_assoc; cbn [app]; rewrite <- ?app_assoc; reflexivity. }
  rewrite Etxt. clear Etxt.
  assert (Hsk : forall tail f, skip_comments_ws f (addr ++ tail) = addr ++ tail)
    by (intros; rewrite Ea; cbn [app]; apply skip_comments_ws_no; lia).
  assert (Hhd : forall tail, hd0 (addr ++ tail) = 47) by (intros; rewrite Ea; reflexivity).
  assert (Hnw : forall tail, skip_ws (addr ++ tail) = addr ++ tail)
    by (intros; apply skip_ws_nonspace; rewrite Hhd; reflexivity).
  assert (HsepA : Forall (fun c => isspace c = true) sepA) by (unfold sepA; destruct bb; repeat constructor).
  assert (Hsp : sepA ++ X = [] \/ isspace (hd0 (sepA ++ X)) = true) by (right; unfold sepA; destruct bb; reflexivity).
  destruct (dropwhile_nonspace addr (sepA ++ X) Hns Hsp) as [Hd Ht].
  assert (Hws : skip_ws (sepA ++ X) = X) by (apply skip_ws_sep; [exact HsepA|reflexivity]).
  assert (HlX : length X = S (S (S (length T' + length tl))))
    by (unfold X; cbn [length]; rewrite app_length; cbn [length]; lia).
  unfold count_printed_arg_vals_of_msg, scan_message.
  rewrite !Hnw, !Hsk, !Hhd. cbn [Z.eqb Pos.eqb negb]. rewrite Hd, Ht, Hws.
  split.
  - unfold count_printed_arg_vals. rewrite Hws.
    replace (skip_comments_ws (S (length X)) X) with X by (unfold X; symmetry; apply skip_comments_ws_no; lia).
    cbn [count_loop]. replace (hd0 X) with 91 by reflexivity.
    replace ((91 =? 0) || (91 =? 47)) with false by reflexivity.
    rewrite HlX. unfold X. rewrite Hs by lia. rewrite (skip_ws_tail tl Htl).
    destruct (length (sepA ++ 91 :: T' ++ 93 :: 10 :: tl)) eqn:El.
    { exfalso. rewrite app_length in El. cbn [length] in El. lia. }
    destruct Htl as [->|[r0 ->]].
    + cbn [hd0 at_ nth Z.eqb negb andb count_loop orb]. reflexivity.
    + rewrite hd0_cons. replace (negb (47 =? 0) && negb (isspace 47)) with true by reflexivity.
      rewrite skip_comments_ws_no by lia. cbn [count_loop]. rewrite hd0_cons.
      replace ((47 =? 0) || (47 =? 47)) with true by reflexivity. reflexivity.
  - unfold scan_arg_vals.
    replace (Z.to_nat (1 + Z.of_nat (length (islots its)))) with (S (length (islots its))) by lia.
    remember (S (length (islots its))) as f2 eqn:Ef2.
    cbn [scan_loop]. replace (1 + Z.of_nat (length (islots its)) <=? 0) with false by lia.
    rewrite HlX. unfold X. rewrite Hc by lia.
    cbn [length]. rewrite (skip_ws_comments_tail _ tl Htl).
    subst f2. cbn [scan_loop slots_offset app].
    replace (1 + Z.of_nat (length (islots its)) <=? 0 + (Z.of_nat (length (islots its)) + 1)) with true by lia.
    reflexivity.
Qed.

Theorem array_message_reads_tl_nz o addr ty elems text w :
  good_addr addr -> Forall (goodv o) elems -> nozmix elems -> homog elems -> elems <> [] ->
  Z.of_nat (length elems) + 1 < 2 ^ 31 ->
  print_message o addr (VArr ty (Z.of_nat (length elems)) :: elems) 0 = Some (text, w) ->
  exists ty' slots,
    expand slots = Some elems /\ (exists sfx, text = addr ++ sfx) /\
    forall tl, tail_ok tl ->
    count_printed_arg_vals_of_msg dec2f dec2d (text ++ 10 :: tl) = Ok (true, 1 + Z.of_nat (length slots)) /\
    scan_message dec2f dec2d (text ++ 10 :: tl) (1 + Z.of_nat (length slots))
    = Ok (addr, VArr ty' (Z.of_nat (length slots)) :: slots, tl).
Proof.
  intros Ha Hg Hnz. destruct (zero_choice o elems Hg Hnz) as (zf & zd & Hz & Hg').
  exact (array_message_reads_tl_z o zf zd addr ty elems text w Hz Ha Hg').
Qed.
End ArrMsg.

(* ------------------------------------------------------------------------- *)
(* a message with ONE value (the line of a scalar port).  Four values or fewer *)
(* are never compressed (rtosc_convert_to_range: size < 5), no range tail can  *)
(* follow, so nothing is asked about dots: every value whose token C10 reads   *)
(* back - good_val (strings and chars with '.' included), bare symbols, blobs, *)
(* and with the lossless option every finite float / double, both zeroes.      *)
Section OneMsg.
Variables dec2f dec2d : list Z -> Z.

Definition good1 (o : popts) (v : av) : Prop := good_val v \/ goodx v \/ (lossless o = true /\ goodfin v).

Lemma good1_scalar o v : good1 o v -> scalar v.
Proof.
  intros [H|[H|[_ H]]]; destruct v; cbn in H; try contradiction; exact I.
Qed.

Lemma good1_tok o v cols t w c : good1 o v -> print_scalar o v cols = Some (t, w, c) -> tokof dec2f dec2d v t.
Proof.
  intros [Hg|[Hg|[Hl Hg]]] Hp.
  - exact (proj1 (scalar_tok dec2f dec2d o v cols t w c Hg Hp)).
  - refine (proj1 (goodc_tok dec2f dec2d o 0 0 v cols t w c _ Hp)). right; left; exact Hg.
  - destruct v; cbn [goodfin] in Hg; try contradiction.
    + match type of Hg with (0 <= ?b < _) /\ _ =>
        refine (proj1 (goodc_tok dec2f dec2d o (if b =? 0 then 2 ^ 31 else 0) 0 _ cols t w c _ Hp));
        right; right; (split; [exact Hl|]); cbn [goodfl]; destruct Hg as [Hb Hf]; (split; [exact Hb|]); (split; [exact Hf|]);
        destruct (b =? 0) eqn:E; lia end.
    + match type of Hg with (0 <= ?b < _) /\ _ =>
        refine (proj1 (goodc_tok dec2f dec2d o 0 (if b =? 0 then 2 ^ 63 else 0) _ cols t w c _ Hp));
        right; right; (split; [exact Hl|]); cbn [goodfl]; destruct Hg as [Hb Hf]; (split; [exact Hb|]); (split; [exact Hf|]);
        destruct (b =? 0) eqn:E; lia end.
Qed.

Lemma print_message_one o addr v text w : scalar v ->
  print_message o addr [v] 0 = Some (text, w) ->
  exists sepz t w' c, print_scalar o v (0 + (len addr + 1)) = Some (t, w', c) /\ text = addr ++ sepz ++ t /\
                      (sepz = [32] \/ sepz = nl4).
Proof.
  intros Hs Hp. unfold print_message in Hp. cbn [length] in Hp. cbn [print_vals_loop] in Hp.
  change (Z.of_nat 1 <=? 0) with false in Hp. cbv iota in Hp.
  replace (convert_to_range o [v] (Z.of_nat 1 - 0)) with CNo in Hp by reflexivity.
  rewrite (print_arg_val_top_scalar o v [] _ None true Hs), (print_arg_val_scalar o v [] _ None Hs) in Hp.
  destruct (print_scalar o v (0 + (len addr + 1))) as [[[t w'] c]|] eqn:E; [|discriminate].
  rewrite (next_arg_offset_scalar v [] Hs) in Hp.
  destruct (if breaks_itself (av_type v) then _ else _) as [[brk_ cols2] awtl2].
  rewrite orb_false_r, andb_false_r in Hp.
  change (0 + 1 <? Z.of_nat 1) with false in Hp. cbv iota in Hp.
  change (Z.of_nat 1 <=? 0 + 1) with true in Hp. cbv iota in Hp.
  change (Z.of_nat 1 =? 0) with false in Hp. cbv iota in Hp. inversion Hp; subst.
  exists (if brk_ then nl4 else [32]), t, w', c. split; [reflexivity|]. split; [reflexivity|].
  destruct brk_; [right|left]; reflexivity.
Qed.

Theorem one_message_reads_tl o addr v text w :
  good_addr addr -> good1 o v ->
  print_message o addr [v] 0 = Some (text, w) ->
  (exists sfx, text = addr ++ sfx) /\
  forall tl, tail_ok tl ->
    count_printed_arg_vals_of_msg dec2f dec2d (text ++ 10 :: tl) = Ok (true, 1) /\
    scan_message dec2f dec2d (text ++ 10 :: tl) 1 = Ok (addr, [v], tl).
Proof.
  intros [[ar Ea] Hns] Hg Hp.
  pose proof (good1_scalar o v Hg) as Hsc.
  destruct (print_message_one o addr v text w Hsc Hp) as (sepz & t & w' & c & Eps & -> & Hsepz).
  pose proof (good1_tok o v _ t w' c Hg Eps) as (Hrd & (c0 & r0 & Et & Hc0) & _).
  split; [eexists; reflexivity|]. intros tl Htl.
  assert (Hsk : forall tail f, skip_comments_ws f (addr ++ tail) = addr ++ tail)
    by (intros; rewrite Ea; cbn [app]; apply skip_comments_ws_no; lia).
  assert (Hhd : forall tail, hd0 (addr ++ tail) = 47) by (intros; rewrite Ea; reflexivity).
  assert (Hnw : forall tail, skip_ws (addr ++ tail) = addr ++ tail)
    by (intros; apply skip_ws_nonspace; rewrite Hhd; reflexivity).
  assert (HsepA : Forall (fun c => isspace c = true) sepz) by (destruct Hsepz as [->| ->]; repeat constructor).
  set (X := t ++ 10 :: tl).
  assert (Etxt : (addr ++ sepz ++ t) ++ 10 :: tl = addr ++ sepz ++ X) by (unfold X; now rewrite <- !app_assoc).
  rewrite Etxt. clear Etxt.
  assert (Hsp : sepz ++ X = [] \/ isspace (hd0 (sepz ++ X)) = true) by (right; destruct Hsepz as [->| ->]; reflexivity).
  destruct (dropwhile_nonspace addr (sepz ++ X) Hns Hsp) as [Hd Ht].
  destruct Hc0 as (H0 & H47 & H37 & Hspc & H46 & H40).
  assert (HhX : hd0 X = c0) by (unfold X; rewrite Et; reflexivity).
  assert (Hws : skip_ws (sepz ++ X) = X) by (apply skip_ws_sep; [exact HsepA|rewrite HhX; exact Hspc]).
  destruct (Hrd (10 :: tl) (rest_ok_nl tl Htl)) as [Hskip Hscan].
  assert (HlX : length X = S (length r0 + S (length tl)))
    by (unfold X; rewrite Et; cbn [length app]; rewrite app_length; cbn [length]; lia).
  unfold count_printed_arg_vals_of_msg, scan_message.
  rewrite !Hnw, !Hsk, !Hhd. cbn [Z.eqb Pos.eqb negb]. rewrite Hd, Ht, Hws.
  split.
  - unfold count_printed_arg_vals. rewrite Hws.
    replace (skip_comments_ws (S (length X)) X) with X
      by (unfold X; rewrite Et; symmetry; apply skip_comments_ws_no; assumption).
    cbn [count_loop]. rewrite HhX. replace ((c0 =? 0) || (c0 =? 47)) with false by lia.
    rewrite HlX. unfold X. rewrite Hskip. rewrite (skip_ws_tail tl Htl).
    destruct (length (sepz ++ t ++ 10 :: tl)) eqn:El.
    { exfalso. rewrite !app_length in El. cbn [length] in El. destruct Hsepz as [->| ->]; cbn in El; lia. }
    destruct Htl as [->|[r1 ->]].
    + cbn [hd0 at_ nth Z.eqb negb andb count_loop orb]. reflexivity.
    + rewrite hd0_cons. replace (negb (47 =? 0) && negb (isspace 47)) with true by reflexivity.
      rewrite skip_comments_ws_no by lia. cbn [count_loop]. rewrite hd0_cons.
      replace ((47 =? 0) || (47 =? 47)) with true by reflexivity. reflexivity.
  - unfold scan_arg_vals. change (Z.to_nat 1) with 1%nat.
    remember 1%nat as f2 eqn:Ef2. cbn [scan_loop]. change (1 <=? 0) with false. cbv iota.
    rewrite HlX. unfold X. rewrite Hscan.
    cbn [length]. rewrite (skip_ws_comments_tail _ tl Htl).
    subst f2. cbn [scan_loop app].
    replace (slots_offset [v]) with 1 by (destruct v; cbn in Hsc; try contradiction; reflexivity).
    reflexivity.
Qed.
End OneMsg.
