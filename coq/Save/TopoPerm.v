(* C13 - permuting the lines of a file changes neither the state nor the count:
   C13_topo for each file + same_edges + linear extensions agree. *)
From Coq Require Import List ZArith Bool Lia Permutation Arith.
From RtoscV Require Import Save.TopoModel Save.KahnProofs Save.TopoProofs Save.TopoEdges.
Import ListNotations.

Lemma map_nth_seq : forall (X : Type) (l : list X) d, map (fun i => nth i l d) (seq 0 (length l)) = l.
Proof.
  induction l as [|x l IH]; intros d; simpl; [reflexivity|].
  f_equal. rewrite <- seq_shift, map_map. apply IH.
Qed.

Lemma respects_map_inv : forall (X Y : Type) (R : X -> X -> Prop) (R' : Y -> Y -> Prop) (f : X -> Y) l,
  (forall y x, In y l -> In x l -> R' (f y) (f x) -> R y x) -> respects R l -> respects R' (map f l).
Proof.
  induction l as [|x l IH]; intros H Hr; simpl in *; [exact I|].
  destruct Hr as [H1 H2]. split.
  - intros y' Hy' Hc. apply in_map_iff in Hy'. destruct Hy' as [y [Hy Hin]]. subst y'.
    apply (H1 y Hin). apply H; [right; assumption | left; reflexivity | assumption].
  - apply IH; [|assumption]. intros y x0 Hy Hx0. apply H; right; assumption.
Qed.

Section Perm.
  Variable A : Type.
  Variable apropos : str -> option pmeta.
  Variable fuel : nat.

  Lemma index_of_nth : forall (ms : list (message A)) x d, NoDup (map fst ms) -> (x < length ms)%nat ->
    index_of A (fst (nth x ms d)) ms = Some x.
  Proof.
    induction ms as [|m ms IH]; intros x d Hnd Hx; simpl in Hx; [lia|].
    simpl in Hnd. inversion Hnd as [|? ? Hnotin Hnd']; subst.
    destruct x as [|x]; simpl.
    - assert (E : str_eqb (fst m) (fst m) = true) by (apply streqb_true; reflexivity). rewrite E. reflexivity.
    - destruct (str_eqb (fst (nth x ms d)) (fst m)) eqn:E.
      + apply streqb_true in E. exfalso. apply Hnotin. rewrite <- E. apply in_map. apply nth_In. lia.
      + rewrite IH by (assumption || lia). reflexivity.
  Qed.

  Lemma in_map_keys : forall (ms : list (message A)) k, In k (map fst ms) -> In k (map_keys A ms).
  Proof.
    intros ms k H.
    assert (Hk : has_key (map_keys A ms) k = true).
    { rewrite has_key_map_keys. apply existsb_exists. exists k. split; [assumption | apply streqb_true; reflexivity]. }
    unfold has_key in Hk. apply existsb_exists in Hk. destruct Hk as [k' [Hin He]].
    apply streqb_true in He. subst k'. assumption.
  Qed.

  (* "x waits for d", on messages: the address of d is among those scan_deps
     finds for the address of x, given the addresses present *)
  Definition waits_for (keys : list str) (d x : message A) : Prop :=
    exists ds, scan_deps apropos keys fuel (fst x) (fst x) = Some ds /\ In (fst d) ds.

  Lemma waits_is_edge : forall (ms : list (message A)) ps d y x,
    NoDup (map fst ms) -> pushes A apropos fuel ms = Some ps ->
    (y < length ms)%nat -> (x < length ms)%nat ->
    waits_for (map_keys A ms) (nth y ms d) (nth x ms d) -> edge ps y x.
  Proof.
    intros ms ps d y x Hnd Hp Hy Hx [ds [Hs Hin]].
    rewrite pushes_unfold in Hp. destruct (acc_some _ _ _ _ _ _ Hp) as [_ Hall].
    assert (Hk : In (fst (nth x ms d)) (map_keys A ms)).
    { apply in_map_keys. apply in_map. apply nth_In. assumption. }
    destruct (Hall _ Hk) as [l' [Hl' Hinc]]. unfold push_of in Hl'. rewrite Hs in Hl'.
    rewrite (index_of_nth ms x d Hnd Hx) in Hl'. inversion Hl'; subst l'.
    unfold edge. apply Hinc. apply in_flat_map. exists (fst (nth y ms d)). split; [assumption|].
    rewrite (index_of_nth ms y d Hnd Hy). left. reflexivity.
  Qed.

  Variable S : Type.
  Variable apply : message A -> S -> S.

  (* C13_perm_invariant *)
  Theorem perm_invariant_load : forall (ms1 ms2 : list (message A)) ps1 ps2 d,
    NoDup (map fst ms1) -> Permutation ms1 ms2 ->
    pushes A apropos fuel ms1 = Some ps1 -> pushes A apropos fuel ms2 = Some ps2 ->
    ranked ps1 -> ranked ps2 ->
    (* messages neither of which waits for the other commute *)
    (forall x y s, ~ waits_for (map_keys A ms1) x y -> ~ waits_for (map_keys A ms1) y x ->
                   apply x (apply y s) = apply y (apply x s)) ->
    exists o1 o2,
      load_order apropos fuel ms1 = Some o1 /\ load_order apropos fuel ms2 = Some o2 /\
      length o1 = length o2 /\
      forall st, run _ _ apply (map (fun i => nth i ms1 d) o1) st
               = run _ _ apply (map (fun i => nth i ms2 d) o2) st.
  Proof.
    intros ms1 ms2 ps1 ps2 d Hnd Hperm Hp1 Hp2 Hr1 Hr2 Hcomm.
    destruct (load_order_topo A apropos fuel ms1 ps1 Hp1 Hr1) as (o1 & Ho1 & Hpo1 & Hres1).
    destruct (load_order_topo A apropos fuel ms2 ps2 Hp2 Hr2) as (o2 & Ho2 & Hpo2 & Hres2).
    exists o1, o2. split; [assumption|]. split; [assumption|].
    assert (Hnd2 : NoDup (map fst ms2)).
    { eapply Permutation_NoDup; [apply Permutation_map; exact Hperm | exact Hnd]. }
    assert (Hlen : length ms1 = length ms2) by (apply Permutation_length; assumption).
    split.
    { rewrite (Permutation_length Hpo1), (Permutation_length Hpo2), !seq_length. assumption. }
    (* the two hand-out sequences as lists of messages *)
    set (s1 := map (fun i => nth i ms1 d) o1). set (s2 := map (fun i => nth i ms2 d) o2).
    assert (Hs1 : Permutation s1 ms1).
    { unfold s1. eapply Permutation_trans; [apply Permutation_map; exact Hpo1|]. rewrite map_nth_seq. apply Permutation_refl. }
    assert (Hs2 : Permutation s2 ms2).
    { unfold s2. eapply Permutation_trans; [apply Permutation_map; exact Hpo2|]. rewrite map_nth_seq. apply Permutation_refl. }
    assert (Hlt1 : forall x, In x o1 -> (x < length ms1)%nat).
    { intros x Hx. eapply Permutation_in in Hx; [|exact Hpo1]. apply in_seq in Hx. lia. }
    assert (Hlt2 : forall x, In x o2 -> (x < length ms2)%nat).
    { intros x Hx. eapply Permutation_in in Hx; [|exact Hpo2]. apply in_seq in Hx. lia. }
    assert (Hw1 : respects (waits_for (map_keys A ms1)) s1).
    { unfold s1. eapply respects_map_inv; [|exact Hres1].
      intros y x Hy Hx Hw. exact (waits_is_edge ms1 ps1 d y x Hnd Hp1 (Hlt1 y Hy) (Hlt1 x Hx) Hw). }
    assert (Hw2 : respects (waits_for (map_keys A ms1)) s2).
    { unfold s2. eapply respects_map_inv; [|exact Hres2].
      intros y x Hy Hx [ds [Hs Hin]].
      apply (waits_is_edge ms2 ps2 d y x Hnd2 Hp2 (Hlt2 y Hy) (Hlt2 x Hx)).
      exists ds. split; [|assumption].
      rewrite <- (same_edges A apropos fuel ms1 ms2 _ _ Hperm). assumption. }
    assert (Hnd_msgs : NoDup ms1) by (eapply NoDup_map_inv; exact Hnd).
    intros st.
    destruct (perm_invariant (message A) S (waits_for (map_keys A ms1)) apply Hcomm ms1 ms2 s1 s2
                Hnd_msgs Hperm Hs1 Hw1 Hs2 Hw2 st) as [Hrun _].
    exact Hrun.
  Qed.
End Perm.
