(* C13 - model of the load order of a savefile:
     scan_deps                       src/cpp/savefile.cpp:472-520
     the message map + Kahn's sort   src/cpp/savefile.cpp:578-627
   as coded.  No proofs in this file.

   Strings are [list Z] without terminator.  A message is (address, payload);
   the payload is abstract here (the sort never looks at it).

   What the code reads from the port tree is [ports.apropos(path)->meta()[key]]
   for the three keys "enabled by", "depends", "default depends"; the model
   takes that lookup as a function argument [apropos : str -> option pmeta]
   (C18 owns apropos, C17 the metadata lookup). *)
From Coq Require Import List ZArith Bool.
Import ListNotations.
Local Open Scope Z_scope.

Definition str := list Z.

Fixpoint str_eqb (a b : str) : bool :=
  match a, b with
  | [], [] => true
  | x :: a', y :: b' => (x =? y) && str_eqb a' b'
  | _, _ => false
  end.

(* std::string operator< : bytewise, a proper prefix is smaller *)
Fixpoint str_ltb (a b : str) : bool :=
  match a, b with
  | _, [] => false
  | [], _ :: _ => true
  | x :: a', y :: b' => if x <? y then true else if y <? x then false else str_ltb a' b'
  end.

Definition slash : Z := 47.
Definition comma : Z := 44.

(* ---- string surgery ----------------------------------------------------- *)
(* abs.resize(abs.find_last_of('/') + 1): the string up to and including its
   last '/'; None when there is no '/' (the code asserts that) *)
Fixpoint upto_last_slash (s : str) : option str :=
  match s with
  | [] => None
  | c :: t =>
      match upto_last_slash t with
      | Some r => Some (c :: r)
      | None => if c =? slash then Some [c] else None
      end
  end.

(* cur_portname.resize(last_slash): the string in front of its last '/' *)
Fixpoint before_last_slash (s : str) : option str :=
  match s with
  | [] => None
  | c :: t =>
      match before_last_slash t with
      | Some r => Some (c :: r)
      | None => if c =? slash then Some [] else None
      end
  end.

(* abs.resize(abs.find(',')) *)
Fixpoint cut_comma (s : str) : str :=
  match s with
  | [] => []
  | c :: t => if c =? comma then [] else c :: cut_comma t
  end.

Definition rel2abs (rel base : str) : option str :=
  match upto_last_slash base with
  | Some d => Some (cut_comma (d ++ rel))
  | None => None
  end.

(* for( ; *n && *n == *e && *n != '/' && *e != '/'; ++n, ++e) ;  *n == '/' && *e == '/':
   the entry begins with the first component of the port's name ("name/x" on the
   sub-tree port "name/" or "name#N/"); Some (what stands behind that '/') *)
Fixpoint inside_rest (n e : str) : option str :=
  match n, e with
  | c :: n', d :: e' =>
      if (c =? slash) || (d =? slash) then (if (c =? slash) && (d =? slash) then Some e' else None)
      else if c =? d then inside_rest n' e' else None
  | _, _ => None
  end.

Fixpoint has_slash (s : str) : bool :=
  match s with [] => false | c :: t => (c =? slash) || has_slash t end.

(* the address an entry stands for.  An entry that names a port inside the
   sub-tree it sits on - only for a parent, looked up as "name/", and only when one
   name follows the '/' - is resolved below the message's own (expanded) address
   cur ++ "/": "/name1/x", not "/name#3/x" (fix: commit of stage 5); every other
   entry beside it: rel2abs(entry, cur) *)
Definition resolve_entry (parent : bool) (name e cur : str) : option str :=
  match (if parent then inside_rest name e else None) with
  | Some r => if has_slash (cut_comma r) then rel2abs e cur else rel2abs r (cur ++ [slash])
  | None => rel2abs e cur
  end.

(* the pointers the loop
     for(e = meta[key]; e != NULL; e = strchr(e+1, ','))  { if( *e==',') ++e; ... }
   hands to rel2abs: the whole value, then the text behind every later comma
   (each still carrying the rest of the list; rel2abs cuts it at the first
   comma).  The loop ends at an empty entry (the rest behind rDepends'
   trailing ','). *)
Fixpoint after_comma (s : str) : option str :=
  match s with
  | [] => None
  | c :: t => if c =? comma then Some t else after_comma t
  end.

Definition skip_comma (e : str) : str :=
  match e with
  | c :: t => if c =? comma then t else e
  | [] => []
  end.

Fixpoint entries_from (fuel : nat) (e : str) : list str :=
  match fuel with
  | O => []
  | S f =>
      match skip_comma e with
      | [] => []                    (* if(!*e) break;  -- behind rDepends' trailing ',' *)
      | (_ :: rest) as e1 =>
          e1 :: match after_comma rest with
                | Some t => entries_from f (comma :: t)
                | None => []
                end
      end
  end.
Definition entries (v : str) : list str := entries_from (S (length v)) v.

(* ---- metadata of the port a path denotes -------------------------------- *)
(* port_name: Port::name of the port the lookup returned (the code compares it with
   the entry to see whether the entry names a port INSIDE the sub-tree) *)
Record pmeta := { enabled_by : option str; depends : option str; default_depends : option str;
                  port_name : str }.

Definition dep_values (m : pmeta) : list str :=
  flat_map (fun o => match o with Some v => entries v | None => [] end)
           [enabled_by m; depends m; default_depends m].

(* the values cur_portname takes in scan_deps' loop: the path itself, then
   each time the part in front of the last '/', while it is non-empty and
   still has a '/' *)
Fixpoint ancestors_from (fuel : nat) (cur : str) : list str :=
  match fuel with
  | O => []
  | S f =>
      match cur with
      | [] => []
      | _ => match before_last_slash cur with
             | Some up => cur :: ancestors_from f up
             | None => []
             end
      end
  end.
Definition ancestors (cur : str) : list str := ancestors_from (S (length cur)) cur.

(* (is a parent, path): false for the first element *)
Definition flagged (l : list str) : list (bool * str) :=
  match l with
  | [] => []
  | c :: t => (false, c) :: map (fun x => (true, x)) t
  end.

(* the two lookups of one round of the loop, each with the path the entries are
   resolved against (cur_portname):
     ports.apropos(is_parent ? cur + "/" : cur)      the address as it stands, a parent as "name/"
     ports.apropos(rel2abs("self:", cur))            the "self:" port of the directory that holds it
                                                     (rSelf(.., rEnabledBy(x)) disables the whole directory) *)
Definition self_name : str := [115; 101; 108; 102; 58].
Definition lookup_path (ic : bool * str) : str := if fst ic then snd ic ++ [slash] else snd ic.
Record lookup := { lk_path : str; lk_base : str; lk_parent : bool }.
Definition lookups (cur : str) : list lookup :=
  flat_map (fun ic => {| lk_path := lookup_path ic; lk_base := snd ic; lk_parent := fst ic |} ::
                      match rel2abs self_name (snd ic) with
                      | Some s => [{| lk_path := s; lk_base := snd ic; lk_parent := fst ic |}]
                      | None => []
                      end)
           (flagged (ancestors cur)).

Section Scan.
  Variable apropos : str -> option pmeta.
  Variable keys : list str.                 (* addresses that have a message *)

  Definition has_key (p : str) : bool := existsb (str_eqb p) keys.

  (* scan_deps(orig, cur): the addresses (with a message) that [orig] is made
     to wait for, in the order the code pushes them.  The recursion through
     ports without a message is bounded by [fuel]; None = out of fuel (the
     real recursion does not end: cyclic references in the metadata). *)
  Fixpoint scan_deps (fuel : nat) (orig cur : str) : option (list str) :=
    match fuel with
    | O => None
    | S f =>
        fold_left
          (fun acc (lc : lookup) =>
             let c := lk_base lc in
             match apropos (lk_path lc) with
             | None => acc
             | Some m =>
                 fold_left
                   (fun acc e =>
                      match acc, resolve_entry (lk_parent lc) (port_name m) e c with
                      | Some l, Some a =>
                          (* a port inside the sub-tree it enables: neither the message
                             itself nor the address this scan started from is a dependency *)
                          if str_eqb a orig || str_eqb a cur then Some l
                          else if has_key a then Some (l ++ [a])
                          else match scan_deps f orig a with
                               | Some l' => Some (l ++ l')
                               | None => None
                               end
                      | _, _ => None
                      end)
                   (dep_values m) acc
             end)
          (lookups cur) (Some [])
    end.
End Scan.

(* ---- the message map and the sort --------------------------------------- *)
Section Sort.
  Variable A : Type.
  Definition message := (str * A)%type.

  (* message_map.emplace in file order: the first message of an address is
     the one the map holds *)
  Fixpoint index_of (p : str) (ms : list message) : option nat :=
    match ms with
    | [] => None
    | m :: t => if str_eqb p (fst m) then Some O
                else match index_of p t with Some i => Some (S i) | None => None end
    end.

  (* iteration order of std::map<std::string, ...>: sorted, no duplicates *)
  Fixpoint insert_key (p : str) (l : list str) : list str :=
    match l with
    | [] => [p]
    | q :: t => if str_ltb p q then p :: l
                else if str_eqb p q then l
                else q :: insert_key p t
    end.
  Definition map_keys (ms : list message) : list str :=
    fold_left (fun l m => insert_key (fst m) l) ms [].

  Variable apropos : str -> option pmeta.
  Variable fuel : nat.

  (* every push_back of the edge loop, in program order:
     (index of the message waited for, index of the waiting message) *)
  Definition pushes (ms : list message) : option (list (nat * nat)) :=
    let keys := map_keys ms in
    fold_left
      (fun acc k =>
         match acc, scan_deps apropos keys fuel k k, index_of k ms with
         | Some l, Some ds, Some o =>
             Some (l ++ flat_map (fun d => match index_of d ms with
                                           | Some i => [(i, o)]
                                           | None => []
                                           end) ds)
         | _, _, _ => None
         end)
      keys (Some []).

  Definition dependees (ps : list (nat * nat)) (i : nat) : list nat :=
    map snd (filter (fun e => Nat.eqb (fst e) i) ps).
End Sort.

(* n_input_edges is a vector of size_t; the model keeps Z so that a decrement
   of 0 would be visible (it cannot be 0 again) *)
Definition bump (cnt : list Z) (d : nat) (delta : Z) : list Z :=
  firstn d cnt ++ match skipn d cnt with
                  | c :: t => (c + delta) :: t
                  | [] => []
                  end.

Definition count_inputs (n : nat) (deps : nat -> list nat) : list Z :=
  fold_left (fun cnt m => fold_left (fun c d => bump c d 1) (deps m) cnt)
            (seq 0 n) (repeat 0 n).

(* for(dependee : message_v[m].dependees) if(--n_input_edges[dependee] == 0) push *)
Definition release (deps : nat -> list nat) (m : nat) (cq : list Z * list nat) : list Z * list nat :=
  fold_left (fun cq d =>
               let c' := bump (fst cq) d (-1) in
               (c', if nth d c' 1 =? 0 then snd cq ++ [d] else snd cq))
            (deps m) cq.

(* while(!queue.empty()) : one iteration per unit of fuel; None = the queue is
   not empty when the fuel is *)
Fixpoint kahn_loop (fuel : nat) (deps : nat -> list nat) (cnt : list Z)
         (queue order : list nat) : option (list nat) :=
  match queue with
  | [] => Some order
  | m :: q =>
      match fuel with
      | O => None
      | S f =>
          let cq := release deps m (cnt, q) in
          kahn_loop f deps (fst cq) (snd cq) (order ++ [m])
      end
  end.

Definition kahn (n : nat) (deps : nat -> list nat) : option (list nat) :=
  let cnt := count_inputs n deps in
  let q0 := filter (fun i => nth i cnt 1 =? 0) (seq 0 n) in
  kahn_loop n deps cnt q0 [].

(* the order in which dispatch_printed_messages hands the messages out *)
Definition load_order {A} (apropos : str -> option pmeta) (fuel : nat)
           (ms : list (message A)) : option (list nat) :=
  match pushes A apropos fuel ms with
  | Some ps => kahn (length ms) (dependees ps)
  | None => None
  end.

(* ======================================================================== *)
(* Spec side (what the property text says) *)

(* [l] never places a message in front of one it has to wait for:
   [R y x] = "y has to be applied before x" *)
Fixpoint respects {X} (R : X -> X -> Prop) (l : list X) : Prop :=
  match l with
  | [] => True
  | x :: t => (forall y, In y t -> ~ R y x) /\ respects R t
  end.

(* d has to be applied before p *)
Definition edge (ps : list (nat * nat)) (d p : nat) : Prop := In (d, p) ps.

(* acyclic: the edges admit a ranking (every edge goes from a lower to a
   higher rank) *)
Definition ranked (ps : list (nat * nat)) : Prop :=
  exists rank : nat -> nat, forall d p, In (d, p) ps -> (rank d < rank p)%nat.
