(* C12 - the sort stage of the round-trip pipeline instantiated with the model of
   the real algorithm (scan_deps + Kahn, TopoModel.load_order) and its theorem
   C13_topo: the hypothesis "C13" disappears from C12_roundtrip's premises. *)
From Coq Require Import List ZArith Bool Lia Permutation Arith.
From RtoscV Require Import Save.TopoModel Save.KahnProofs Save.TopoProofs Save.TopoEdges Save.TopoPerm
                           Save.SaveModel Save.SaveProofs Save.RoundProofs Save.RoundFull
                           Save.CommuteProofs Save.PermApp.
Import ListNotations.

(* the order dispatch_printed_messages dispatches in *)
Definition sort_by_load_order (apropos : str -> option pmeta) (fuel : nat) (ls : list line)
  : option (list line) :=
  match load_order apropos fuel (msgs ls) with
  | Some order => Some (map (fun i => nth i ls dummy_line) order)
  | None => None
  end.

Lemma msgs_nth : forall ls x,
  nth x (msgs ls) ([], dummy_line) = (l_path (nth x ls dummy_line), nth x ls dummy_line).
Proof. induction ls as [|l t IH]; intros [|x]; simpl; try reflexivity. apply IH. Qed.

Section SortStage.
  Variable a : app.
  Variable st : state.
  Variable apropos : str -> option pmeta.
  Variable fuel : nat.
  Hypothesis WF : wf_app a.
  Hypothesis DECL : declared a apropos.

  Lemma must_precede_lt : forall i j, must_precede a i j -> (i < length a)%nat /\ (j < length a)%nat.
  Proof.
    intros i j H.
    assert (Hj : (j < length a)%nat).
    { destruct (lt_dec j (length a)) as [L|L]; [assumption|]. exfalso.
      unfold must_precede, port_at in H. rewrite nth_overflow in H by lia. simpl in H.
      destruct H as [H|H]; [discriminate | contradiction]. }
    split; [|assumption]. destruct H as [H|H].
    - destruct (w_sel a WF j i Hj H) as (L & _). assumption.
    - destruct (w_guard a WF j i Hj H) as (L & _). assumption.
  Qed.

  Lemma paths_nodup : forall l, NoDup l -> (forall i, In i l -> (i < length a)%nat) ->
    NoDup (map (fun i => p_path (port_at a i)) l).
  Proof.
    induction l as [|i l IH]; intros Hnd Hlt; simpl; [constructor|].
    inversion Hnd as [|? ? Hn Hnd']; subst. constructor.
    - intro Hc. apply in_map_iff in Hc. destruct Hc as [k [Hk Hin]].
      assert (k = i).
      { pose proof (find_port_at a k (w_paths a WF) (Hlt k (or_intror Hin))) as F1.
        pose proof (find_port_at a i (w_paths a WF) (Hlt i (or_introl eq_refl))) as F2.
        rewrite Hk in F1. congruence. }
      subst k. contradiction.
    - apply IH; [assumption|]. intros k Hk. apply Hlt. right. assumption.
  Qed.

  Theorem sort_stage : forall ps,
    pushes line apropos fuel (msgs (save_lines a st)) = Some ps -> ranked ps ->
    exists s, sort_by_load_order apropos fuel (save_lines a st) = Some s /\
              Permutation s (save_lines a st) /\ respects (line_must_precede a) s.
  Proof.
    intros ps Hp Hr. set (ls := save_lines a st) in *. set (ms := msgs ls) in *.
    destruct (load_order_topo line apropos fuel ms ps Hp Hr) as (order & Ho & Hpo & Hres).
    unfold sort_by_load_order. fold ms. rewrite Ho. eexists. split; [reflexivity|].
    assert (Hlen : length ms = length ls) by (unfold ms, msgs; apply map_length).
    rewrite Hlen in Hpo.
    split.
    { eapply Permutation_trans; [apply Permutation_map; exact Hpo|]. rewrite map_nth_seq. apply Permutation_refl. }
    assert (Hls : ls = map (the_line a st) (saved a st)) by (unfold ls; apply save_lines_saved).
    assert (Hsv_lt : forall i, In i (saved a st) -> (i < length a)%nat).
    { intros i Hi. unfold saved in Hi. apply filter_In in Hi. destruct Hi as [Hi _]. apply in_seq in Hi. lia. }
    assert (Hndm : NoDup (map fst ms)).
    { unfold ms. rewrite msgs_fst, Hls, map_map. simpl.
      apply paths_nodup; [apply NoDup_filter; apply seq_NoDup | assumption]. }
    assert (Hlt : forall x, In x order -> (x < length ls)%nat).
    { intros x Hx. eapply Permutation_in in Hx; [|exact Hpo]. apply in_seq in Hx. lia. }
    assert (Hnth : forall x, nth x ms ([], dummy_line) = (l_path (nth x ls dummy_line), nth x ls dummy_line)).
    { intros x. unfold ms. apply msgs_nth. }
    eapply respects_map_inv; [|exact Hres].
    intros y x Hy Hx (i & j & Pi & Pj & Hm).
    destruct (must_precede_lt i j Hm) as [Hi Hj].
    apply (waits_is_edge line apropos fuel ms ps ([], dummy_line) y x Hndm Hp);
      [rewrite Hlen; apply Hlt; assumption | rewrite Hlen; apply Hlt; assumption|].
    destruct (DECL i j Hi Hj Hm) as (ic & m & e & Hic & Hap & He & Hrel).
    (* the scan of x's address ends *)
    assert (Hinx : In (nth x ms ([], dummy_line)) ms) by (apply nth_In; rewrite Hlen; apply Hlt; assumption).
    assert (Hscan : exists ds, scan_deps apropos (map_keys line ms) fuel (fst (nth x ms ([], dummy_line))) (fst (nth x ms ([], dummy_line))) = Some ds).
    { pose proof Hp as Hp'. rewrite pushes_unfold in Hp'. destruct (acc_some _ _ _ _ _ _ Hp') as [_ Hall].
      assert (Hk : In (fst (nth x ms ([], dummy_line))) (map_keys line ms)) by (apply in_map_keys; apply in_map; assumption).
      destruct (Hall _ Hk) as [l' [Hl' _]]. unfold push_of in Hl'.
      destruct (scan_deps apropos (map_keys line ms) fuel (fst (nth x ms ([], dummy_line))) (fst (nth x ms ([], dummy_line)))) as [ds|];
        [exists ds; reflexivity | discriminate]. }
    destruct Hscan as [ds Hds]. exists ds. split; [assumption|].
    rewrite Hnth in Hds |- *. simpl in Hds |- *. rewrite Pi. rewrite Pj in Hds.
    assert (Hne : p_path (port_at a i) <> p_path (port_at a j)).
    { intro Hc. pose proof (find_port_at a i (w_paths a WF) Hi) as F1.
      pose proof (find_port_at a j (w_paths a WF) Hj) as F2. rewrite Hc in F1.
      assert (i = j) by congruence. subst j. exact (not_self a WF i Hi Hm). }
    apply flagged_in_lookups in Hic.
    eapply (scan_complete apropos _ _ _ fuel ds {| lk_path := lookup_path ic; lk_base := snd ic; lk_parent := fst ic |} m e); try eassumption.
    rewrite has_key_map_keys. apply existsb_exists.
    exists (l_path (nth y ls dummy_line)). split.
    - assert (Hiny : In (nth y ms ([], dummy_line)) ms) by (apply nth_In; rewrite Hlen; apply Hlt; assumption).
      apply (in_map fst) in Hiny. rewrite Hnth in Hiny. exact Hiny.
    - rewrite Pi. apply streqb_true. reflexivity.
  Qed.
End SortStage.

(* ---- the round trip with the sort stage instantiated -------------------------------------- *)
Definition stage_hypotheses4 (text : Type) (walk : app -> state -> list nat)
           (av_eq : value -> value -> bool) (print_lines : list line -> text)
           (scan_text : text -> list item) (dispatch : app -> line -> state -> option state)
           (a : app) (st : state) : Prop :=
  (* C09 *) walk a st = filter (live a st) (seq 0 (length a)) /\
  (* C16 *) (forall u w, av_eq u w = same_value u w) /\
  (* C10 *) (forall ls, exists rds, length rds = length ls /\ Forall (fun rd => (0 <= rd)%Z) rds /\
               scan_text (print_lines ls) = map (fun lr => Msg (fst lr) (snd lr)) (combine ls rds)) /\
  (* C04 + C14 *) (forall l s, dispatch a l s = apply_line a l s).

Theorem roundtrip_pipeline_sorted :
  forall text walk av_eq print_lines scan_text dispatch apropos fuel a st ps,
    stage_hypotheses4 text walk av_eq print_lines scan_text dispatch a st ->
    full_conditions a st ->
    declared a apropos ->
    pushes line apropos fuel (msgs (save_lines a st)) = Some ps -> ranked ps ->
    exists fin,
      real_load text scan_text dispatch (fun _ ls => sort_by_load_order apropos fuel ls) a
                (real_save text walk av_eq print_lines a st) (initial a)
      = Some (Z.of_nat (length (save_lines a st)), fin) /\
      forall q, (q < length a)%nat -> p_nodef (port_at a q) = false -> live a st q = true ->
                restored_val (port_at a q) (val_at st q) (val_at fin q).
Proof.
  intros text walk av_eq print_lines scan_text dispatch apropos fuel a st ps
         (H9 & H16 & H10 & H4) Hfull Hdecl Hp Hr.
  apply roundtrip_pipeline_full; [|assumption].
  repeat split; try assumption.
  intros ls Hls. subst ls. destruct Hfull as (WF & _).
  apply (sort_stage a st apropos fuel WF Hdecl ps Hp Hr).
Qed.
